"""C03 -- Transformed densities obey change of variables on both evaluation paths.

Tie (model = extracted coq/Model/Dist.v run at IEEE doubles, ocaml/bin/dist):
  U1 log_prob(x) of real Transformed / Normal / Gumbel / nested Transformed over random bijection expressions (leaves with
     perturbed parameters and negative scales, Chain, Invert, Vmap(spline), TriangularAffine, Permute, Flip) vs model logp on the
     serialised term, at boundary-directed x.
  U2 sample(key) / sample_and_log_prob(key) vs model sample / sample_lp fed with the draw the real innermost base produces on
     the same key path (split(key, 1)[0], handed down unchanged).
  U3 merge_transforms(): real merged object vs model merge_transforms (structure, log_prob, sample_and_log_prob) and vs the
     original object.
  U4 triangular_spline_flow (the factory the expression language covers end to end), dims 1-3, both `invert`, with/without
     condition: term built from the flow's layers and the DOCUMENTED orientation (Invert(Chain layers) iff invert=True).
Search oracle (the property's own three identities, on the implementation alone): every flow factory x dims 1-3 x both invert x
conditional / unconditional, perturbed parameters, plus conditional-base / unconditional-bijection combinations.
"""

import math

import numpy as np

from harness import distser as ds
from harness import leaves as lv
from harness.common import fhex, fparse, hexlist

PROPERTY = "C03"
GROUPS = ["dist"]
MANIFEST = {
    "design_ref": "DESIGN.md 4.3",
    "technique": "Coq proofs over R (induction over bijection expressions and over nested Transformed) about an executable Gallina model of "
                 "AbstractTransformed/Chain/Invert/merge_transforms + executed correspondence of the extracted model with the real distributions",
    "text": "Theorems over the reals about coq/Model/Dist.v (shaped like distributions.py::AbstractTransformed, chain.py, utils.py::Invert): "
            "log_prob unfolds to base log-density at the inverse image plus the inverse log-det; the log-probability returned with a sample "
            "equals log_prob at that sample and the returned point is sample(key) -- for every base sampler, every expression over the leaf "
            "bijections / TriangularAffine / Permute / Flip / Chain / Invert of any depth and any nesting of Transformed, under explicit "
            "validity guards taken from C01/C02 (and for ANY layer satisfying the C01+C02 laws, which covers conditional layers at a fixed "
            "condition); merge_chains and merge_transforms leave log_prob, sample and sample_and_log_prob unchanged; invert=True builds "
            "Transformed(base, Invert(Chain layers)) whose log_prob applies the layers' forward maps in order with log-dets added. The same "
            "definitions, extracted and run at IEEE doubles, are compared on every run with real flowjax objects (1e-9 relative plus measured "
            "conditioning), key path included. Conditional routing, masked-autoregressive / coupling / planar / BNAF flows are covered by the "
            "property's own identities evaluated on the implementation (search level), not by the model. Exact over R; float rounding not modelled.",
    "note": "Trusted: Coq kernel, axioms of Reals as printed by Print Assumptions, extraction (ExtrOcamlBasic), OCaml float primitives, "
            "harness serialiser. jr.split / jr.normal are taken as given (the base draw is read from the real base distribution on the same key path).",
}


# ------------------------------------------------------------------ helpers
def _to_minf(v):
    """AbstractDistribution.log_prob: jnp.where(jnp.isnan(lps), -inf, lps)  (modelled in C05's Dens.v; applied here)."""
    return -math.inf if (isinstance(v, float) and math.isnan(v)) else v


def _close(a, b, tol):
    if math.isnan(a) or math.isnan(b):
        return math.isnan(a) and math.isnan(b)
    if math.isinf(a) or math.isinf(b):
        return a == b
    return abs(a - b) <= tol


def _vec_close(a, b, tol):
    a, b = np.ravel(a), np.ravel(b)
    tol = np.broadcast_to(np.asarray(tol, dtype=float), a.shape)
    return len(a) == len(b) and all(_close(float(p), float(q), float(t)) for p, q, t in zip(a, b, tol))


def _nbr_stack(x):
    """x and its 2*size float neighbours (one coordinate moved by one ulp), stacked on a new leading axis."""
    x = np.asarray(x, dtype=float)
    flat = x.ravel()
    out = [flat.copy()]
    for i in range(flat.size):
        for s in (-np.inf, np.inf):
            v = flat.copy()
            v[i] = np.nextafter(v[i], s)
            out.append(v)
    return np.stack(out).reshape((len(out),) + x.shape)


def logp_with_sensitivity(d, x, cond=None):
    """(log_prob(x), max change of log_prob over the one-ulp neighbours of x) from one batched call."""
    v, s = logps_with_sensitivity(d, [x], cond)
    return v[0], s[0]


def logps_with_sensitivity(d, xs, cond=None):
    """For each x of xs: log_prob(x) and the max change of log_prob over the one-ulp neighbours of x; ONE batched call."""
    jnp = lv.lib()["jnp"]
    stacks = [_nbr_stack(x) for x in xs]
    lps = np.asarray(d.log_prob(jnp.asarray(np.concatenate(stacks)), cond), dtype=float)
    vals, sens, pos = [], [], 0
    for st in stacks:
        blk = lps[pos:pos + len(st)]
        pos += len(st)
        with np.errstate(invalid="ignore"):
            diffs = np.abs(blk[1:] - blk[0])
        diffs = diffs[np.isfinite(diffs)]
        vals.append(float(blk[0]))
        sens.append(float(np.max(diffs)) if diffs.size else 0.0)
    return vals, sens


def oracle_logps(d, xs, cond=None):
    """rhs of the first identity for each x: base_dist.log_prob(bijection.inverse(x)) + inverse log-det through the public
    methods (vmapped over the points); also returns the inverse log-dets."""
    L = lv.lib()
    jnp, jax = L["jnp"], L["jax"]
    X = jnp.asarray(np.stack([np.asarray(x, dtype=float) for x in xs]))
    bc = cond if d.bijection.cond_shape is not None else None
    dc = cond if d.base_dist.cond_shape is not None else None
    Z, LD = jax.vmap(lambda x: d.bijection.inverse_and_log_det(x, bc))(X)
    rhs = np.asarray(d.base_dist.log_prob(Z, dc), dtype=float) + np.asarray(LD, dtype=float)
    return [_to_minf(float(v)) for v in rhs], [float(v) for v in np.asarray(LD, dtype=float)]


def _tol(v, sens, rel=1e-9):
    return rel * max(1.0, abs(v) if math.isfinite(v) else 1.0) + 64.0 * sens


def _xs_for(d, rng, quick):
    """Evaluation points: forward images of random base-space points, boundary points of every elementary step of the outer
    bijection, and a few arbitrary reals (possibly outside the support)."""
    L = lv.lib()
    jnp = L["jnp"]
    shape = tuple(d.shape)
    n = int(np.prod(shape)) if shape else 1
    xs = []
    for _ in range(3 if quick else 8):
        z = jnp.asarray(rng.normal(0, 1.2, shape))
        x = np.asarray(L["unwrap"](d.bijection).transform(z), dtype=float)
        if np.all(np.isfinite(x)):
            xs.append(("image", x))
    for x in ds.boundary_points(d.bijection, rng, per_step=2 if quick else 6):
        xs.append(("boundary", x))
    for s in ([0.0, -1.0] if quick else [0.0, 1.0, -1.0, 37.0, -1e4]):
        v = rng.normal(0, 1.5, n)
        v[int(rng.integers(0, n))] = s
        xs.append(("free", v.reshape(shape)))
    return xs


def oracle_logp(d, x, cond=None):
    """The first identity of the property on the implementation: log_prob(x) = base.log_prob(inverse(x)) + inverse log-det,
    recomputed through the public methods.  Returns (lhs, rhs)."""
    jnp = lv.lib()["jnp"]
    xj = jnp.asarray(x)
    bc = cond if d.bijection.cond_shape is not None else None
    dc = cond if d.base_dist.cond_shape is not None else None
    z, ld = d.bijection.inverse_and_log_det(xj, bc)
    rhs = float(d.base_dist.log_prob(z, dc)) + float(ld)
    return float(d.log_prob(xj, cond)), _to_minf(rhs)


def _case(spec, **kw):
    c = dict(dist=spec)
    c.update(kw)
    return c


# ------------------------------------------------------------------ U1..U3 on generated distributions
def unit_tie(ctx):
    L = lv.lib()
    jnp, jr = L["jnp"], L["jr"]
    rng = ctx.rng
    u1 = ctx.unit("logp-tie", "real dist.log_prob(x) vs extracted Model/Dist.v logp on the serialised term; random expressions (depth<=3, "
                              "shapes (), (1,), (2,), (3,)), bases StandardNormal / Normal(neg. scales) / Gumbel, nesting 1-3; x = forward "
                              "images, boundary points of every elementary step pushed forward, free reals; non-trivial = finite log_prob "
                              "and |log-det part| > 1e-3")
    u2 = ctx.unit("sample-tie", "real sample(key), sample_and_log_prob(key) vs model sample / sample_lp fed with the innermost base's "
                                "draw on the same key path; non-trivial = finite outputs")
    u3 = ctx.unit("merge-tie", "d.merge_transforms(): structure + log_prob + sample_and_log_prob of the real merged object vs model "
                               "merge_transforms, and merged vs original object; non-trivial = nesting >= 2")
    uo = ctx.unit("identities-oracle", "the three identities of the statement recomputed through public methods on the generated "
                                       "distributions (implementation only)")
    n_dists = 36 if ctx.quick else 400
    shapes = [(), (1,), (2,), (3,)]
    jobs, reqs = [], []
    for i in range(n_dists):
        shape = shapes[i % len(shapes)]
        spec = ds.gen_dist_spec(rng, shape, depth=int(rng.integers(1, 4)), nest=int(rng.integers(1, 4)))
        try:
            d = ds.make_dist(spec)
            term = ds.ser_dist(d)
        except ds.Unsupported as e:
            ctx.notes.append(f"generated spec outside the serialiser: {e}")
            continue
        t = " ".join(term)
        for kind, x in _xs_for(d, rng, ctx.quick):
            jobs.append(("logp", spec, d, t, kind, x))
            reqs.append(f"logp {hexlist(np.ravel(x))} {t}")
            jobs.append(("mlogp", spec, d, t, kind, x))
            reqs.append(f"mlogp {hexlist(np.ravel(x))} {t}")
        for _ in range(2 if ctx.quick else 5):
            kint = int(rng.integers(0, 2**31))
            z = ds.base_draw(d, jr.PRNGKey(kint))
            jobs.append(("samplelp", spec, d, t, kint, z))
            reqs.append(f"samplelp {hexlist(np.ravel(z))} {t}")
            jobs.append(("msamplelp", spec, d, t, kint, z))
            reqs.append(f"msamplelp {hexlist(np.ravel(z))} {t}")
        jobs.append(("mstruct", spec, d, t, None, None))
        reqs.append(f"mstruct {t}")
    outs = ctx.model(reqs, "dist")
    merged_cache = {}
    for (what, spec, d, t, a, b), line in zip(jobs, outs):
        nest = len(spec["layers"]) + (1 if spec["base"] in ("normal", "gumbel") else 0)
        if id(d) not in merged_cache:
            merged_cache[id(d)] = d.merge_transforms()
        dm = merged_cache[id(d)]
        if line.startswith("ERR"):
            ctx.violation(sig=f"driver:{what}", what=f"model driver error {line}", case=_case(spec, request=what), found_input=False, unit=u1.name)
            continue
        if what in ("logp", "mlogp"):
            kind, x = a, b
            obj = d if what == "logp" else dm
            unit = u1 if what == "logp" else u3
            mv = _to_minf(fparse(line))
            iv, sens = logp_with_sensitivity(obj, x)
            z, ld = L["unwrap"](d.bijection).inverse_and_log_det(jnp.asarray(x))
            key = (what, str(spec), [fhex(v) for v in np.ravel(x)])
            unit.count(key, nontrivial=(math.isfinite(iv) and abs(float(ld)) > 1e-3) if what == "logp" else nest >= 2, tag=f"{kind}:nest{nest}")
            if len(unit.hashes) % 60 == 1:
                ctx.sample(dict(unit=unit.name, term=ds.shape_of_term(t.split(" ")), x=np.ravel(x).tolist(), model=mv, implementation=iv))
            ok = _close(mv, iv, _tol(iv, sens))
            errs = []
            if what == "logp":
                lhs, rhs = oracle_logp(d, x)
                uo.count(key, nontrivial=math.isfinite(lhs), tag="logp=base(inverse)+ld")
                if not _close(lhs, rhs, _tol(lhs, sens, 1e-9)):
                    errs.append(f"log_prob(x) = {lhs!r} but base_dist.log_prob(bijection.inverse(x)) + inverse log-det = {rhs!r}")
            else:
                orig = float(d.log_prob(jnp.asarray(x)))
                uo.count(key, nontrivial=nest >= 2, tag="merge_transforms=original")
                if not _close(iv, orig, _tol(orig, sens, 1e-9)):
                    errs.append(f"merge_transforms().log_prob(x) = {iv!r} but the original log_prob(x) = {orig!r}")
            if not ok or errs:
                unit.disagreements += (not ok)
                ctx.violation(
                    sig=f"{what}:{'oracle' if errs else 'model-mismatch'}",
                    what="; ".join(errs) if errs else f"{what}: model {mv!r} != implementation {iv!r} on {ds.shape_of_term(t.split(' '))} at x={np.ravel(x).tolist()}",
                    case=_case(spec, unit=what, x=[fhex(v) for v in np.ravel(x)]), found_input=bool(errs), unit=unit.name,
                    expected=mv, observed=iv, broken="correspondence with Model/Dist.v logp / theorem C03_logp_transformed" if what == "logp"
                    else "correspondence with Model/Dist.v merge_transforms / theorem C03_merge_transforms_same",
                    reproducer="cd /verif && ./check C03 --replay <this file>")
        elif what in ("samplelp", "msamplelp"):
            kint, z = a, b
            obj = d if what == "samplelp" else dm
            unit = u2 if what == "samplelp" else u3
            xs_m, lp_m = line.split(" ")
            xm = np.array([fparse(v) for v in xs_m.split(",")], dtype=float)
            lpm = fparse(lp_m)
            key_ = jr.PRNGKey(kint)
            xi, lpi = obj.sample_and_log_prob(key_)
            xi, lpi = np.asarray(xi, dtype=float), float(lpi)
            xs = np.asarray(obj.sample(key_), dtype=float)
            ckey = (what, str(spec), kint)
            fin = bool(np.all(np.isfinite(xi)) and math.isfinite(lpi))
            unit.count(ckey, nontrivial=fin if what == "samplelp" else nest >= 2, tag=f"nest{nest}")
            tolx = 1e-9 * np.maximum(1.0, np.abs(xi))
            ok = _vec_close(xm, xi, tolx) and _close(lpm, lpi, _tol(lpi, 0.0)) and _vec_close(xs, xi, tolx)
            errs = []
            if fin:
                lpx, sens = logp_with_sensitivity(obj, xi)
                uo.count(ckey, nontrivial=True, tag="lp(sample)=log_prob(sample)")
                if not _close(lpi, lpx, _tol(lpx, sens, 1e-7)):
                    errs.append(f"sample_and_log_prob(key) returned log-prob {lpi!r} but log_prob(sample) = {lpx!r}")
                if not _vec_close(xs, xi, 1e-12 * np.maximum(1.0, np.abs(xi))):
                    errs.append(f"sample(key) = {xs.tolist()} differs from the point of sample_and_log_prob(key) = {xi.tolist()}")
                zz = jnp.asarray(ds.base_draw(d, key_)).reshape(d.shape)
                pushed = np.asarray(obj.bijection.transform(obj.base_dist.sample(key_)), dtype=float)
                if not _vec_close(xs, pushed, tolx):
                    errs.append(f"sample(key) = {xs.tolist()} is not bijection.transform(base_dist.sample(key)) = {pushed.tolist()}")
            if not ok or errs:
                unit.disagreements += (not ok)
                ctx.violation(
                    sig=f"{what}:{'oracle' if errs else 'model-mismatch'}",
                    what="; ".join(errs) if errs else f"{what}: model ({xm.tolist()}, {lpm!r}) != implementation sample_and_log_prob ({xi.tolist()}, {lpi!r}), "
                                                      f"sample {xs.tolist()} on {ds.shape_of_term(t.split(' '))} key {kint}",
                    case=_case(spec, unit=what, key=kint), found_input=bool(errs), unit=unit.name, expected=[xm.tolist(), lpm], observed=[xi.tolist(), lpi],
                    broken="correspondence with Model/Dist.v sample_lp / theorem C03_sample_lp_consistent",
                    reproducer="cd /verif && ./check C03 --replay <this file>")
        else:  # mstruct
            try:
                real = ds.shape_of_term(ds.ser_dist(dm))
            except ds.Unsupported as e:
                real = f"unsupported:{e}"
            u3.count(("mstruct", str(spec)), nontrivial=nest >= 2, tag=f"struct:nest{nest}")
            if real != line:
                u3.disagreements += 1
                ctx.violation(sig="merge_transforms:structure", what=f"merge_transforms(): model term {line} != real merged object {real}",
                              case=_case(spec, unit="mstruct"), found_input=False, unit=u3.name, expected=line, observed=real,
                              broken="correspondence with Model/Dist.v merge_transforms")


# ------------------------------------------------------------------ U4 factory orientation on the covered factory
def _strip_invert(b):
    B = lv.lib()["B"]
    u = lv.lib()["unwrap"](b)
    return (u.bijection, True) if type(u) is B.Invert else (u, False)


def unit_factory(ctx):
    L = lv.lib()
    jnp, jr = L["jnp"], L["jr"]
    rng = ctx.rng
    u4 = ctx.unit("factory-tie", "triangular_spline_flow dims 1-3 x invert x condition: log_prob / sample_and_log_prob vs the model term "
                                 "Transformed(N, Invert(Chain layers)) resp. Transformed(N, Chain layers) built from the flow's layers and the "
                                 "orientation the documentation of `invert` prescribes; non-trivial = perturbed parameters, finite value")
    jobs, reqs = [], []
    for name, dim, cond, inv, flow, tol, kint in ds.flows(ctx, dims=(1, 2, 3), conds=(None, 2), bnaf=False):
        if name != "triangular-spline":
            continue
        c = None if cond is None else jnp.asarray(rng.normal(0, 1, cond))
        inner, has_inv = _strip_invert(flow.bijection)
        try:
            layers = ds.ser_bij(inner, c)
        except ds.Unsupported as e:
            ctx.notes.append(f"factory-tie: {name} not serialisable: {e}")
            continue
        t = " ".join(["T", "N"] + (["I"] if inv else []) + layers)  # orientation from the ARGUMENT, not from the object
        meta = dict(flow=name, dim=dim, cond=None if c is None else [fhex(v) for v in np.ravel(c)], invert=inv, factory_key=kint)
        for _ in range(3 if ctx.quick else 10):
            x = rng.normal(0, 1.5, (dim,))
            jobs.append(("logp", flow, c, meta, x, has_inv))
            reqs.append(f"logp {hexlist(x)} {t}")
        for _ in range(2 if ctx.quick else 6):
            k = int(rng.integers(0, 2**31))
            z = ds.base_draw(flow, jr.PRNGKey(k))
            jobs.append(("samplelp", flow, c, meta, (k, z), has_inv))
            reqs.append(f"samplelp {hexlist(z)} {t}")
    outs = ctx.model(reqs, "dist")
    for (what, flow, c, meta, a, has_inv), line in zip(jobs, outs):
        bad = None
        if has_inv != meta["invert"]:
            bad = f"invert={meta['invert']} but flow.bijection is {'an Invert' if has_inv else 'not an Invert'}"
        if what == "logp":
            x = a
            iv, sens = logp_with_sensitivity(flow, x, c)
            mv = _to_minf(fparse(line)) if not line.startswith("ERR") else float("nan")
            u4.count((what, str(meta), [fhex(v) for v in x]), nontrivial=math.isfinite(iv), tag=f"dim{meta['dim']}:inv{meta['invert']}:cond{c is not None}")
            ok = _close(mv, iv, _tol(iv, sens))
            obs, exp = iv, mv
        else:
            k, z = a
            xi, lpi = flow.sample_and_log_prob(jr.PRNGKey(k), (), c)
            xi, lpi = np.asarray(xi, dtype=float), float(lpi)
            u4.count((what, str(meta), k), nontrivial=math.isfinite(lpi), tag=f"dim{meta['dim']}:inv{meta['invert']}:cond{c is not None}")
            if line.startswith("ERR"):
                ok, exp = False, line
            else:
                xs_m, lp_m = line.split(" ")
                xm = np.array([fparse(v) for v in xs_m.split(",")], dtype=float)
                ok = _vec_close(xm, xi, 1e-8 * np.maximum(1.0, np.abs(xi))) and _close(fparse(lp_m), lpi, 1e-8 * max(1.0, abs(lpi)))
                exp = [xm.tolist(), fparse(lp_m)]
            obs = [xi.tolist(), lpi]
        if not ok or bad:
            u4.disagreements += 1
            ctx.violation(sig=f"factory:{meta['flow']}:invert={meta['invert']}:{what}",
                          what=bad or f"{meta['flow']} dim {meta['dim']} invert={meta['invert']}: {what} model {exp} != implementation {obs}",
                          case=dict(meta, unit=what, arg=[fhex(v) for v in np.ravel(a if what == 'logp' else a[1])]), found_input=False, unit=u4.name,
                          expected=exp, observed=obs, broken="theorem C03_factory_orientation_invert/_plain on the serialised term")


# ------------------------------------------------------------------ search oracle on every factory
def flow_identities(flow, x, c, key, tol):
    """The property's statement on one flow, implementation only.  Returns list of error strings."""
    L = lv.lib()
    jnp = L["jnp"]
    errs = []
    bc = c if flow.bijection.cond_shape is not None else None
    dc = c if flow.base_dist.cond_shape is not None else None
    lp, sens = logp_with_sensitivity(flow, x, c)
    z, ld = flow.bijection.inverse_and_log_det(jnp.asarray(x), bc)
    rhs = _to_minf(float(flow.base_dist.log_prob(z, dc)) + float(ld))
    if not _close(lp, rhs, _tol(lp, sens, tol)):
        errs.append(f"log_prob(x) = {lp!r} but base_dist.log_prob(bijection.inverse(x)) + inverse log-det = {rhs!r} at x = {np.ravel(x).tolist()}")
    s, lps = flow.sample_and_log_prob(key, (), c)
    s, lps = np.asarray(s, dtype=float), float(lps)
    if np.all(np.isfinite(s)) and math.isfinite(lps):
        lp2, sens2 = logp_with_sensitivity(flow, s, c)
        if not _close(lps, lp2, _tol(lp2, sens2, tol)):
            errs.append(f"sample_and_log_prob(key) returned log-prob {lps!r} but log_prob(sample) = {lp2!r} (sample {s.tolist()})")
    s2 = np.asarray(flow.sample(key, (), c), dtype=float)
    tolx = max(tol, 1e-9) * np.maximum(1.0, np.abs(s))
    if not _vec_close(s2, s, tolx):
        errs.append(f"sample(key) = {s2.tolist()} but sample_and_log_prob(key) returned the point {s.tolist()}")
    pushed = np.asarray(flow.bijection.transform(flow.base_dist.sample(key, (), dc), bc), dtype=float)
    if not _vec_close(s2, pushed, tolx):
        errs.append(f"sample(key) = {s2.tolist()} is not bijection.transform(base_dist.sample(key)) = {pushed.tolist()}")
    return errs


def unit_flows_oracle(ctx):
    L = lv.lib()
    jnp, jr = L["jnp"], L["jr"]
    rng = ctx.rng
    uf = ctx.unit("flows-oracle", "every flow factory x dims 1-3 x invert True/False x conditional/unconditional, parameters perturbed N(0,0.4^2): "
                                  "log_prob = base.log_prob(inverse) + ld; log-prob returned with a sample = log_prob(sample); sample(key) = "
                                  "transform(base.sample(key)); 1e-7 relative + measured conditioning (bisection-inverted BNAF 2e-4); "
                                  "non-trivial = finite values")
    payload = dict(seed=int(rng.integers(0, 2**31)), quick=ctx.quick)
    # BNAF needs a numerically inverted direction in one of the two paths: run under a wall-clock guard (separate process)
    res = ds.run_guarded("c03", "bnaf_worker", payload, timeout=150 if ctx.quick else 900)
    if res.get("timeout"):
        ctx.violation(sig="flows-oracle:bnaf:timeout", what="the BNAF identities did not return within the wall-clock guard (a numerically inverted "
                      "bounded layer never returns)", case=payload, found_input=False, unit=uf.name, broken="flows-oracle (BNAF)")
    elif "error" in res:
        ctx.violation(sig="flows-oracle:bnaf:crash", what="BNAF oracle worker crashed: " + res["error"][-400:], case=payload, found_input=False, unit=uf.name)
    else:
        for k, nt, tag in res["counts"]:
            uf.count(k, nontrivial=nt, tag=tag)
        for v in res["violations"]:
            ctx.violation(unit=uf.name, found_input=True, **v)
    dims = (1, 2, 3)
    for name, dim, cond, inv, flow, tol, kint in ds.flows(ctx, dims=dims, conds=(None, 2), bnaf=False):
        for rep in range(2 if ctx.quick else 6):
            x = rng.normal(0, 1.5, (dim,))
            c = None if cond is None else jnp.asarray(rng.normal(0, 1, cond))
            k = int(rng.integers(0, 2**31))
            meta = dict(flow=name, dim=dim, cond=None if c is None else [fhex(v) for v in np.ravel(c)], invert=inv, factory_key=kint,
                        x=[fhex(v) for v in x], key=k)
            try:
                errs = flow_identities(flow, x, c, jr.PRNGKey(k), tol)
            except Exception as e:
                errs = [f"raised {type(e).__name__}: {str(e)[:200]}"]
            uf.count(str(meta), nontrivial=not errs, tag=f"{name}:inv{inv}:cond{cond is not None}")
            if errs:
                ctx.violation(sig=f"flow:{name}:invert={inv}:cond={cond is not None}:{errs[0].split(' ')[0]}", what=f"{name} dim {dim} invert={inv} cond={cond}: " + "; ".join(errs),
                              case=meta, found_input=True, unit=uf.name, expected="identities of the statement", observed=errs,
                              broken="change-of-variables identities on the implementation")
        # the two orientations built from the same key share their layers: invert=True evaluates densities through the
        # layers' forward maps (documentation of `invert`)
    unit_orientation_oracle(ctx)
    unit_cond_routing(ctx)


def bnaf_worker(payload):
    """Runs in a separate process (wall-clock guarded): BNAF identities, both orientations."""
    from harness import common

    L = lv.lib()
    jnp, jr = L["jnp"], L["jr"]

    class C:
        pass

    ctx = C()
    ctx.rng = np.random.default_rng(np.random.PCG64(payload["seed"]))
    ctx.quick = payload["quick"]
    ctx.notes = []
    counts, violations = [], []
    dims = (2,) if ctx.quick else (1, 2, 3)
    conds = (None,) if ctx.quick else (None, 2)
    for name, dim, cond, inv, flow, tol, kint in ds.flows(ctx, dims=dims, conds=conds, bnaf=True):
        if name != "bnaf":
            continue
        for rep in range(1 if ctx.quick else 3):
            x = ctx.rng.normal(0, 1.0, (dim,))
            c = None if cond is None else jnp.asarray(ctx.rng.normal(0, 1, cond))
            k = int(ctx.rng.integers(0, 2**31))
            meta = dict(flow=name, dim=dim, cond=None if c is None else [fhex(v) for v in np.ravel(c)], invert=inv, factory_key=kint,
                        x=[fhex(v) for v in x], key=k)
            try:
                errs = flow_identities(flow, x, c, jr.PRNGKey(k), tol)
            except Exception as e:
                errs = [f"raised {type(e).__name__}: {str(e)[:200]}"]
            counts.append([str(meta), not errs, f"bnaf:inv{inv}:cond{cond is not None}"])
            if errs:
                violations.append(dict(sig=f"flow:bnaf:invert={inv}:{errs[0].split(' ')[0]}", what=f"bnaf dim {dim} invert={inv} cond={cond}: " + "; ".join(errs),
                                       case=meta, expected="identities of the statement", observed=errs, broken="change-of-variables identities on the implementation"))
    return dict(counts=counts, violations=violations)


def unit_orientation_oracle(ctx):
    """invert=True and invert=False built from the SAME key have the same layers; with invert=True log_prob must go through the
    layers' forward maps, log-dets added: log_prob_T(x) = base.log_prob(y) + ld with (y, ld) = layers.transform_and_log_det(x),
    where `layers` is the bijection of the invert=False flow."""
    L = lv.lib()
    jnp, jr, B = L["jnp"], L["jr"], L["B"]
    import flowjax.flows as F
    from flowjax.distributions import StandardNormal

    rng = ctx.rng
    uo = ctx.unit("orientation-oracle", "factory(key, invert=True).log_prob(x) == base.log_prob(y) + ld, (y, ld) = factory(key, invert=False)"
                                        ".bijection.transform_and_log_det(x); and isinstance(bijection, Invert) == invert; all factories, dims 1-3")
    for dim in (1, 2, 3):
        base = StandardNormal((dim,))
        facs = {
            "coupling": (lambda k, inv: F.coupling_flow(k, base_dist=base, flow_layers=2, nn_width=6, invert=inv)) if dim > 1 else None,
            "maf": lambda k, inv: F.masked_autoregressive_flow(k, base_dist=base, flow_layers=2, nn_width=6, invert=inv),
            "planar": lambda k, inv: F.planar_flow(k, base_dist=base, flow_layers=2, invert=inv, negative_slope=0.3),
            "triangular-spline": lambda k, inv: F.triangular_spline_flow(k, base_dist=base, flow_layers=2, knots=3, invert=inv),
            "bnaf": lambda k, inv: F.block_neural_autoregressive_flow(k, base_dist=base, nn_block_dim=2, invert=inv),
        }
        for name, f in facs.items():
            if f is None:
                continue
            kint = int(rng.integers(0, 2**31))
            ft, ff = f(jr.PRNGKey(kint), True), f(jr.PRNGKey(kint), False)
            x = rng.normal(0, 1.0, (dim,))
            y, ld = ff.bijection.transform_and_log_det(jnp.asarray(x))
            rhs = float(base.log_prob(y)) + float(ld)
            lhs = float(ft.log_prob(jnp.asarray(x)))
            meta = dict(flow=name, dim=dim, factory_key=kint, x=[fhex(v) for v in x])
            uo.count(str(meta), nontrivial=abs(float(ld)) > 1e-6, tag=name)
            errs = []
            if not _close(lhs, rhs, 1e-8 * max(1.0, abs(rhs))):
                errs.append(f"invert=True log_prob(x) = {lhs!r}, layers' forward map + log-det gives {rhs!r}")
            if type(L["unwrap"](ft.bijection)) is not B.Invert or type(L["unwrap"](ff.bijection)) is B.Invert:
                errs.append("isinstance(flow.bijection, Invert) does not follow the `invert` argument")
            if errs:
                ctx.violation(sig=f"orientation:{name}", what=f"{name} dim {dim}: " + "; ".join(errs), case=meta, found_input=True, unit=uo.name,
                              expected=rhs, observed=lhs, broken="theorem C03_factory_orientation_invert (documented orientation of invert=True)")


def unit_cond_routing(ctx):
    """Conditional base under an unconditional bijection, unconditional base under a conditional bijection, and both."""
    L = lv.lib()
    jnp, jr, B, eqx = L["jnp"], L["jr"], L["B"], L["eqx"]
    import flowjax.flows as F
    from flowjax.distributions import StandardNormal, Transformed
    from harness import flowcases as fc

    rng = ctx.rng
    uc = ctx.unit("cond-routing-oracle", "Transformed(conditional base, unconditional bijection) / (unconditional base, conditional bijection) / "
                                         "(both): cond_shape merged, identities hold with the condition given to whichever part is conditional, "
                                         "and the density really depends on the condition")
    for rep in range(2 if ctx.quick else 8):
        dim = int(rng.integers(1, 4))
        k1, k2 = jr.split(jr.PRNGKey(int(rng.integers(0, 2**31))))
        cbase = fc.perturb(F.masked_autoregressive_flow(k1, base_dist=StandardNormal((dim,)), cond_dim=2, flow_layers=1, nn_width=6), rng, 0.5)
        ubij = eqx.tree_at(lambda a: a.scale, B.Affine(jnp.asarray(rng.normal(0, 1, dim)), jnp.ones(dim)),
                           jnp.asarray(np.exp(rng.normal(0, 0.5, dim)) * rng.choice([-1.0, 1.0], dim)))
        cbij = fc.perturb(B.MaskedAutoregressive(k2, transformer=B.Affine(), dim=dim, cond_dim=2, nn_width=6, nn_depth=1), rng, 0.5)
        combos = [("cond-base/uncond-bijection", Transformed(cbase, ubij)),
                  ("uncond-base/cond-bijection", Transformed(StandardNormal((dim,)), cbij)),
                  ("cond-base/cond-bijection", Transformed(cbase, cbij))]
        for name, d in combos:
            x = rng.normal(0, 1.2, (dim,))
            c = jnp.asarray(rng.normal(0, 1, 2))
            c2 = c + 1.0
            k = int(rng.integers(0, 2**31))
            meta = dict(combo=name, dim=dim, x=[fhex(v) for v in x], cond=[fhex(v) for v in np.ravel(c)], key=k)
            errs = []
            try:
                if d.cond_shape != (2,):
                    errs.append(f"cond_shape {d.cond_shape} != (2,)")
                errs += flow_identities(d, x, c, jr.PRNGKey(k), 1e-7)
                a, b = float(d.log_prob(jnp.asarray(x), c)), float(d.log_prob(jnp.asarray(x), c2))
                if a == b:
                    errs.append(f"log_prob(x, c) == log_prob(x, c + 1) == {a!r}: the condition does not reach the conditional part")
                if "cond-base" in name and name.startswith("cond-base"):
                    # the base's own conditional density must be what enters
                    z, ld = d.bijection.inverse_and_log_det(jnp.asarray(x), c if d.bijection.cond_shape is not None else None)
                    if not _close(a, float(cbase.log_prob(z, c)) + float(ld), 1e-8 * max(1.0, abs(a))):
                        errs.append("log_prob(x, c) != base_dist.log_prob(z, c) + log-det")
            except Exception as e:
                errs.append(f"raised {type(e).__name__}: {str(e)[:200]}")
            uc.count(str(meta), nontrivial=not errs, tag=name)
            if errs:
                ctx.violation(sig=f"cond-routing:{name}:{errs[0].split(' ')[0]}", what=f"{name} dim {dim}: " + "; ".join(errs), case=meta, found_input=True,
                              unit=uc.name, expected="condition routed to base and bijection", observed=errs, broken="cond routing (search oracle)")


def run(ctx):
    unit_tie(ctx)
    unit_factory(ctx)
    unit_flows_oracle(ctx)
    ctx.assumptions += [
        "jr.split / jr.normal / jr.gumbel are taken as given: the base draw fed to the model is read from the real innermost base on the same key path",
        "NaN -> -inf of AbstractDistribution.log_prob is applied to the model value on the harness side (modelled in C05)",
        "theorems are over R; float rounding is outside the model; comparison tolerance = 1e-9 relative + 64 x the measured change of the "
        "implementation's value over the one-ulp neighbours of the input (conditioning)",
        "conditional layers, coupling / masked-autoregressive / planar / BNAF flows: the property's identities on the implementation only",
    ]


def replay(ctx, rep):
    L = lv.lib()
    jnp, jr = L["jnp"], L["jr"]
    c = rep["case"]
    if "dist" in c:
        d = ds.make_dist(c["dist"])
        t = " ".join(ds.ser_dist(d))
        unit = c.get("unit")
        if unit in ("logp", "mlogp"):
            x = np.array([fparse(v) for v in c["x"]], dtype=float).reshape(d.shape)
            obj = d if unit == "logp" else d.merge_transforms()
            mv = _to_minf(fparse(ctx.model([f"{unit} {hexlist(np.ravel(x))} {t}"], "dist")[0]))
            iv, sens = logp_with_sensitivity(obj, x)
            lhs, rhs = oracle_logp(d, x)
            print("model", mv, "implementation", iv, "oracle", lhs, rhs)
            return _close(mv, iv, _tol(iv, sens)) and _close(lhs, rhs, _tol(lhs, sens)) and _close(iv, float(d.log_prob(jnp.asarray(x))), _tol(iv, sens))
        if unit in ("samplelp", "msamplelp"):
            key = jr.PRNGKey(c["key"])
            obj = d if unit == "samplelp" else d.merge_transforms()
            z = ds.base_draw(d, key)
            line = ctx.model([f"{unit} {hexlist(np.ravel(z))} {t}"], "dist")[0]
            xi, lpi = obj.sample_and_log_prob(key)
            xi, lpi = np.asarray(xi, dtype=float), float(lpi)
            xm = np.array([fparse(v) for v in line.split(" ")[0].split(",")], dtype=float)
            lpx, sens = logp_with_sensitivity(obj, xi)
            print("model", line, "implementation", xi, lpi, "log_prob(sample)", lpx)
            return _vec_close(xm, xi, 1e-9 * np.maximum(1.0, np.abs(xi))) and _close(fparse(line.split(" ")[1]), lpi, _tol(lpi, 0.0)) and \
                _close(lpi, lpx, _tol(lpx, sens, 1e-7)) and _vec_close(np.asarray(obj.sample(key), dtype=float), xi, 1e-12 * np.maximum(1.0, np.abs(xi)))
        print("structure replay: re-run ./check C03")
        return False
    if "flow" in c and "key" in c and "factory_key" in c:
        errs = _replay_flow(c)
        print("oracle", errs)
        return not errs
    print("replay of this case kind: re-run ./check C03 (seeded)", c)
    return False


def _replay_flow(c):
    """Rebuilding a perturbed flow needs the run's rng stream; the factory itself is rebuilt UNPERTURBED from its key and the
    identities are evaluated at the stored x / key / condition (a defect of the evaluation paths does not depend on the
    perturbation)."""
    L = lv.lib()
    jnp, jr, B = L["jnp"], L["jr"], L["B"]
    import flowjax.flows as F
    from flowjax.distributions import StandardNormal

    dim, inv = c["dim"], c["invert"]
    cond = None if c.get("cond") is None else len(c["cond"])
    base = StandardNormal((dim,))
    k = jr.PRNGKey(c["factory_key"])
    mk = {
        "maf-affine": lambda: F.masked_autoregressive_flow(k, base_dist=base, cond_dim=cond, flow_layers=2, nn_width=8, invert=inv),
        "maf-rqs": lambda: F.masked_autoregressive_flow(k, base_dist=base, cond_dim=cond, flow_layers=2, nn_width=8, invert=inv, transformer=B.RationalQuadraticSpline(knots=4, interval=3)),
        "planar": lambda: F.planar_flow(k, base_dist=base, cond_dim=cond, flow_layers=2, negative_slope=0.2, invert=inv, **({} if cond is None else dict(width_size=8, depth=1))),
        "triangular-spline": lambda: F.triangular_spline_flow(k, base_dist=base, cond_dim=cond, flow_layers=2, knots=4, invert=inv),
        "coupling": lambda: F.coupling_flow(k, base_dist=base, cond_dim=cond, flow_layers=2, nn_width=8, invert=inv),
        "bnaf": lambda: F.block_neural_autoregressive_flow(k, base_dist=base, cond_dim=cond, flow_layers=1, nn_block_dim=3, invert=inv),
    }
    flow = mk[c["flow"]]()
    x = np.array([fparse(v) for v in c["x"]], dtype=float)
    cc = None if cond is None else jnp.asarray([fparse(v) for v in c["cond"]])
    return flow_identities(flow, x, cc, jr.PRNGKey(c["key"]), 2e-4 if c["flow"] == "bnaf" else 1e-7)
