"""C10 -- the bisection inverter finds the root of any increasing function.

Tie (EXACT): the real `_adapt_interval_to_include_root`, `_bisection_search` and
`AutoregressiveBisectionInverter` are driven with dyadic functions (piecewise linear / cubic / saturating,
coefficients with few mantissa bits, dyadic roots and intervals); the extracted Coq model (Model/Bisect.v) runs the
same cases at exact rationals.  When no field operation of the model run leaves binary64 (`n_inexact == 0`,
counted by the driver) root, adaptation count and bisection count must be EQUAL; otherwise the case is compared
with 1 ulp tolerance and counted separately.
Search oracle (independent of the model): |root - r| <= max(tol, W / 2^(max_iter+1)) + float resolution with the
root r known in closed form, on the dyadic families and on a non-dyadic family (linear steep/flat, cubic, sinh,
tanh-with-linear-tails, kinked), plus |xhat_i - x_i| <= tol (1 + L/m)^i for triangular maps.
Every implementation call runs in a worker subprocess under a time-out (killed by PID): the adaptation loop of the
code has no iteration cap.
"""

from __future__ import annotations

import json
import math
import os
import select
import subprocess
import sys
import tempfile
import time
from fractions import Fraction as Fr

import numpy as np

PROPERTY = "C10"
GROUPS = ["bisect"]
EXTRA_PROPS = ["Props/X09_bnaf.v"]  # the BNAF forward map meets the hypotheses of the autoregressive search theorems; inverse within tol
MANIFEST = {
    "design_ref": "DESIGN.md 4.10",
    "technique": "Coq proofs over R about an executable model of bisection_search.py that is generic over an ordered field "
                 "(Model/Bisect.v) + EXACT correspondence of the extracted model, run at rationals, with the real search on dyadic cases",
    "text": "Theorems at the real numbers for EVERY strictly increasing f with a root r, every start interval lo<up wherever the root "
            "lies, every tol>0 and every max_iter: the interval adaptation terminates within an explicit number of doublings "
            "(max(r-up,lo-r)/(up-lo)+1 <= 2^N) and brackets the root (f l <= 0 <= f u, l <= r <= u, exact hits collapse the bracket); "
            "bisection keeps the bracket and halves it; the returned midpoint satisfies |root-r| <= max(tol, W/2^(max_iter+1)) and "
            "<= tol when max_iter is large enough; existence of the root follows from continuity and a sign change (IVT); with no root "
            "the adaptation never terminates (adapt_needs_root: presupposed by the property, enforced here by a time-out guard). "
            "Coordinate-by-coordinate search on a triangular map: termination, per-coordinate accuracy with respect to the found "
            "prefix, and the error propagation bound |xhat_i - x_i| <= tol (1+L/m)^i. "
            "PARTIAL: float rounding/resolution ('down to floating-point resolution', the tol<ulp exit through max_iter) is not "
            "modelled -- all theorems are about exact real arithmetic; it is covered only by the executed oracle. "
            "The model is tied to /repo on every run by exact equality (root, adapt iterations, bisection iterations; adapted bracket; "
            "every coordinate of the autoregressive inverse, with and without a condition) on dyadic cases for which every float64 "
            "operation of the search is exact; the theorem C10_rational_run_is_real_run identifies that rational run with the real-number "
            "run the theorems speak about. The property's own statement is also evaluated on the implementation alone: dyadic and "
            "non-dyadic shape families with the root in closed form, triangular maps with the preimage known, and BNAF round trips "
            "(per-coordinate bracket test).",
    "note": "Trusted: Coq kernel; extraction (ExtrOcamlBasic); ocaml/drv_bisect.ml (dyadic parser, binary64-representability "
            "counter wrapped around the extracted Q record); harness (case generator, the jnp transcription of the function family, "
            "comparators). Assumes finite non-NaN function values; x64 mode.",
}

HERE = os.path.dirname(os.path.abspath(__file__))
VERIF = os.path.dirname(HERE)
KSEG = 4  # segments of the padded piecewise-linear parameter block
FUEL = 400  # model fuel for the adaptation (the theorems give <= ~80 for the generated cases)


# ====================================================================================== numbers
def me(x) -> str:
    """binary64 (or Fraction that is one) -> '<m>_<e>' with x = m * 2^e."""
    fr = Fr(x)
    n, d = fr.numerator, fr.denominator
    assert d & (d - 1) == 0, x
    e = -(d.bit_length() - 1)
    if n != 0 and d == 1:
        tz = (n & -n).bit_length() - 1
        n >>= tz
        e = tz
    assert abs(n) < 2**62
    return f"{n}_{e}"


def isf64(fr: Fr) -> bool:
    try:
        return Fr(float(fr)) == fr
    except OverflowError:
        return False


def qparse(s: str) -> Fr:
    n, d = s.split("/")
    return Fr(int(n, 2), int(d, 2))


def ulp(x) -> float:
    return float(np.spacing(abs(float(x))))


def dy(rng, bits, scale_lo=-6, scale_hi=6, positive=False):
    """random dyadic with at most `bits` mantissa bits: odd m < 2^bits times 2^e"""
    m = int(rng.integers(1, 2**bits))
    e = int(rng.integers(scale_lo, scale_hi + 1)) - m.bit_length() + 1
    v = Fr(m) * (Fr(2) ** e)
    if not positive and rng.random() < 0.5:
        v = -v
    return v


# ====================================================================================== function family
def fn_term(g) -> str:
    if g["kind"] == "pl":
        return "pl:" + ";".join(",".join(me(v) for v in seg) for seg in g["segs"])
    if g["kind"] == "cub":
        return "cub:" + ",".join(me(g[k]) for k in ("a", "b", "r"))
    return "sat:" + ",".join(me(g[k]) for k in ("a", "e", "r"))


def fn_params(g):
    """(kind index, flat parameter block of length 3*KSEG) for the jnp transcription"""
    P = np.zeros(3 * KSEG)
    if g["kind"] == "pl":
        B = [np.inf] * KSEG
        Y = [0.0] * KSEG
        S = [0.0] * KSEG
        for i, (b, y, s) in enumerate(g["segs"]):
            B[i], Y[i], S[i] = float(b), float(y), float(s)
        P[:] = B + Y + S
        return 0, P
    if g["kind"] == "cub":
        P[:3] = [float(g["a"]), float(g["b"]), float(g["r"])]
        return 1, P
    P[:3] = [float(g["a"]), float(g["e"]), float(g["r"])]
    return 2, P


def fn_json(g):
    if g["kind"] == "pl":
        return {"kind": "pl", "segs": [[float(v).hex() for v in s] for s in g["segs"]], "root": float(g["root"]).hex()}
    return {k: (v if k == "kind" else float(v).hex()) for k, v in g.items()}


def fn_from_json(j):
    if j["kind"] == "pl":
        return {"kind": "pl", "segs": [[Fr(float.fromhex(v)) for v in s] for s in j["segs"]], "root": Fr(float.fromhex(j["root"]))}
    return {k: (v if k == "kind" else Fr(float.fromhex(v))) for k, v in j.items()}


def fn_root(g) -> Fr:
    return g["root"] if g["kind"] == "pl" else g["r"]


def fn_min_slope(g) -> Fr:
    if g["kind"] == "pl":
        return min(s for _, _, s in g["segs"])
    return g["b"] if g["kind"] == "cub" else g["e"]


def fn_eval_exact(g, x: Fr) -> Fr:
    """the map itself in exact rationals (Python; used by the generator and the oracle only)"""
    if g["kind"] == "pl":
        b, y, s = g["segs"][0]
        v = y + s * (x - b)
        for b, y, s in g["segs"][1:]:
            if x >= b:
                v = y + s * (x - b)
        return v
    d = x - g["r"]
    if g["kind"] == "cub":
        return g["a"] * d * d * d + g["b"] * d
    return g["a"] * d / (1 + abs(d)) + g["e"] * d


def slope(rng, flavour):
    if flavour == "steep":
        return dy(rng, int(rng.integers(1, 8)), 8, 14, positive=True)
    if flavour == "flat":
        return dy(rng, int(rng.integers(1, 8)), -14, -8, positive=True)
    if flavour == "pow2":
        return Fr(2) ** int(rng.integers(-6, 7))
    if flavour == "wide":
        return dy(rng, int(rng.integers(8, 21)), -4, 4, positive=True)
    return dy(rng, int(rng.integers(1, 6)), -3, 3, positive=True)


def gen_fn(rng, r: Fr, around=None):
    """a strictly increasing continuous member of the family with root exactly r; `around` = points near which kinks go"""
    u = rng.random()
    if u < 0.62:
        k = int(rng.choice([1, 1, 2, 2, 3, 4]))
        for _ in range(50):
            fl = rng.choice(["plain", "plain", "pow2", "steep", "flat", "wide"])
            slopes = [slope(rng, fl if rng.random() < 0.7 else "plain") for _ in range(k)]
            pts = set()
            cands = [r] + list(around or [])
            while len(pts) < k - 1:
                c = cands[int(rng.integers(0, len(cands)))]
                off = dy(rng, int(rng.integers(1, 4)), -8, 4)
                p = c + off if rng.random() < 0.8 else c
                if rng.random() < 0.15:
                    p = r  # a kink exactly on the root
                pts.add(p)
            bs = sorted(pts)
            # segment j holds the root: bs[j-1] <= r < bs[j]
            j = sum(1 for b in bs if b <= r)
            yv = {}
            # value at breakpoints to the right of r
            prev_x, prev_y = r, Fr(0)
            for i in range(j, len(bs)):
                yv[i] = prev_y + slopes[i] * (bs[i] - prev_x)
                prev_x, prev_y = bs[i], yv[i]
            prev_x, prev_y = r, Fr(0)
            for i in range(j - 1, -1, -1):
                yv[i] = prev_y - slopes[i + 1] * (prev_x - bs[i])
                prev_x, prev_y = bs[i], yv[i]
            if k == 1:
                segs = [[r, Fr(0), slopes[0]]]
            else:
                segs = [[bs[0], yv[0], slopes[0]]] + [[bs[i], yv[i], slopes[i + 1]] for i in range(len(bs))]
            if all(isf64(v) for s in segs for v in s):
                return {"kind": "pl", "segs": segs, "root": r}
        return {"kind": "pl", "segs": [[r, Fr(0), Fr(1)]], "root": r}
    if u < 0.82:
        a = slope(rng, rng.choice(["plain", "pow2", "flat"]))
        b = Fr(0) if rng.random() < 0.12 else slope(rng, rng.choice(["plain", "pow2", "flat"]))
        return {"kind": "cub", "a": a, "b": b, "r": r}
    a = slope(rng, rng.choice(["plain", "pow2", "steep"]))
    e = Fr(0) if rng.random() < 0.08 else slope(rng, rng.choice(["flat", "pow2", "flat"]))
    return {"kind": "sat", "a": a, "e": e, "r": r}


INTERVALS = [(-10, 10), (-10, 10), (0, 1), (-1, 1), (3, 4), (Fr(-1, 1024), Fr(1, 1024)), (-1024, 1024), (Fr(5, 4), Fr(11, 8)),
             (-3, 100), (-1000000, -999999), (Fr(-1, 2**20), Fr(3, 2**20))]


def gen_interval(rng):
    if rng.random() < 0.75:
        lo, up = INTERVALS[int(rng.integers(0, len(INTERVALS)))]
        return Fr(lo), Fr(up)
    lo = dy(rng, int(rng.integers(1, 8)), -4, 8)
    w = dy(rng, int(rng.integers(1, 6)), -8, 6, positive=True)
    return lo, lo + w


def gen_root(rng, lo: Fr, up: Fr):
    """(position tag, dyadic root)"""
    w = up - lo
    tag = rng.choice(["inside", "inside", "inside", "on-lower", "on-upper", "just-above", "just-below", "above", "below",
                      "far-above", "far-below", "mid-hit"])
    small = Fr(1, 2 ** int(rng.integers(3, 26)))
    if tag == "inside":
        r = lo + w * Fr(int(rng.integers(1, 2**12)), 2**12) if rng.random() < 0.7 else lo + w * Fr(int(rng.integers(1, 2**30)), 2**30)
    elif tag == "mid-hit":  # a point the bisection lands on exactly
        n = int(rng.integers(1, 9))
        r = lo + w * Fr(2 * int(rng.integers(0, 2 ** (n - 1))) + 1, 2**n)
    elif tag == "on-lower":
        r = lo
    elif tag == "on-upper":
        r = up
    elif tag == "just-above":
        r = up + w * small
    elif tag == "just-below":
        r = lo - w * small
    elif tag == "above":
        k = int(rng.integers(0, 12))
        r = up + w * (2**k - 1) if rng.random() < 0.4 else up + w * dy(rng, 6, -2, 10, positive=True)  # (2^k-1) w: adaptation hits it exactly
    elif tag == "below":
        k = int(rng.integers(0, 12))
        r = lo - w * (2**k - 1) if rng.random() < 0.4 else lo - w * dy(rng, 6, -2, 10, positive=True)
    elif tag == "far-above":
        r = Fr(1000000) + dy(rng, 8, -6, 6) if rng.random() < 0.7 else up + Fr(2**20) + dy(rng, 4, -4, 4)
    else:
        r = Fr(-1000000) + dy(rng, 8, -6, 6) if rng.random() < 0.7 else lo - Fr(2**20) + dy(rng, 4, -4, 4)
    if tag in ("above", "below") and (r == up or r == lo):
        tag = "on-upper" if r == up else "on-lower"
    if not isf64(r) or abs(r) > 2**40:
        return "inside", lo + w / 2 + w / 8
    return str(tag), r


def static_grid(quick):
    """(log2 1/tol, max_iter) pairs: each is one compilation of the jitted real search"""
    if quick:
        g = [(t, 200) for t in (7, 10, 13, 17, 20, 24, 27, 30)]
        g += [(7, 0), (20, 0), (10, 1), (30, 1), (16, 2), (24, 3), (12, 5), (20, 9), (30, 17), (27, 33), (30, 60), (9, 100)]
    else:
        g = [(t, m) for t in range(7, 31) for m in (200,)] + [(t, m) for t in range(7, 31, 2) for m in (0, 1, 2, 3, 5, 8, 13, 21, 34, 55, 100)]
    return g


# ====================================================================================== worker (implementation side)
def _worker_main():
    """Runs in a subprocess: executes the real flowjax code for each request line on stdin, one JSON answer per line."""
    sys.path.insert(0, VERIF)
    from harness import common

    common.init_jax()
    from functools import partial

    import equinox as eqx
    import jax
    import jax.numpy as jnp
    from flowjax.bisection_search import (
        AutoregressiveBisectionInverter,
        _adapt_interval_to_include_root,
        _bisection_search,
    )

    def fam(kind, P, x):
        # jnp transcription of Model/Bisect.v eval_fn: the same operations in the same order
        B, Y, S = P[:KSEG], P[KSEG:2 * KSEG], P[2 * KSEG:]
        v = Y[0] + S[0] * (x - B[0])
        for i in range(1, KSEG):
            v = jnp.where(x >= B[i], Y[i] + S[i] * (x - B[i]), v)
        d = x - P[2]
        cub = P[0] * ((d * d) * d) + P[1] * d
        sat = P[0] * (d / (1.0 + jnp.abs(d))) + P[1] * d
        return jnp.where(kind == 0, v, jnp.where(kind == 1, cub, sat))

    def ofam(kind, r, x):
        # the property's shape family, non-dyadic (search oracle only)
        d = x - r
        outs = [1e4 * d, 1e-4 * d, d**3 + 0.1 * d, jnp.sinh(d / 50), jnp.tanh(d) + 1e-3 * d, jnp.where(d < 0, 0.01 * d, 7 * d)]
        v = outs[0]
        for i in range(1, len(outs)):
            v = jnp.where(kind == i, outs[i], v)
        return v

    @partial(jax.jit, static_argnums=(4, 5))
    def search_jit(kind, P, lo, up, tol, max_iter):
        return _bisection_search(lambda x: fam(kind, P, x), lower=lo, upper=up, tol=tol, max_iter=max_iter)

    @partial(jax.jit, static_argnums=(4, 5))
    def osearch_jit(kind, r, lo, up, tol, max_iter):
        return _bisection_search(lambda x: ofam(kind, r, x), lower=lo, upper=up, tol=tol, max_iter=max_iter)

    @jax.jit
    def adapt_jit(kind, P, lo, up):
        return _adapt_interval_to_include_root(lambda x: fam(kind, P, x), lower=lo, upper=up)

    @jax.jit
    def fam_jit(kind, P, x):
        return fam(kind, P, x)

    class TriMap(eqx.Module):
        """bijection-like: transform(x)_i = g_i(x_i) + sum_{j<i} C[i,j] x_j (left fold from 0.0)"""
        kinds: jax.Array
        P: jax.Array
        C: jax.Array
        shape: tuple
        cond_shape = None

        def transform(self, x, condition=None):
            out = []
            for i in range(self.shape[0]):
                acc = jnp.zeros(())
                for j in range(i):
                    acc = acc + self.C[i, j] * x[j]
                out.append(fam(self.kinds[i], self.P[i], x[i]) + acc)
            out = jnp.stack(out)
            return out if condition is None else out + condition

    @eqx.filter_jit
    def auto_jit(inv, bij, y, condition):
        return inv(bij, y, condition)

    def arr(h):
        return jnp.asarray(float.fromhex(h))

    out = sys.stdout
    out.write(json.dumps({"ready": True}) + "\n")  # imports done: from here on the per-request time-out applies
    out.flush()
    while True:
        line = sys.stdin.readline()
        if not line:
            break
        q = json.loads(line)
        t = q["t"]
        try:
            if t == "search":
                kind, P = q["kind"], jnp.asarray([float.fromhex(v) for v in q["P"]])
                tol = float.fromhex(q["tol"])
                if q.get("eager"):
                    res = _bisection_search(lambda x: fam(kind, P, x), lower=arr(q["lo"]), upper=arr(q["up"]), tol=tol, max_iter=q["max_iter"])
                else:
                    res = search_jit(jnp.asarray(kind), P, arr(q["lo"]), arr(q["up"]), tol, q["max_iter"])
                r = {"root": float(res[0]).hex(), "ai": int(res[1]), "it": int(res[2])}
            elif t == "osearch":
                tol = float.fromhex(q["tol"])
                res = osearch_jit(jnp.asarray(q["kind"]), arr(q["r"]), arr(q["lo"]), arr(q["up"]), tol, q["max_iter"])
                r = {"root": float(res[0]).hex(), "ai": int(res[1]), "it": int(res[2])}
            elif t == "adapt":
                P = jnp.asarray([float.fromhex(v) for v in q["P"]])
                res = adapt_jit(jnp.asarray(q["kind"]), P, arr(q["lo"]), arr(q["up"]))
                r = {"l": float(res[0]).hex(), "u": float(res[1]).hex(), "n": int(res[2])}
            elif t == "eval":
                P = jnp.asarray([float.fromhex(v) for v in q["P"]])
                r = {"v": float(fam_jit(jnp.asarray(q["kind"]), P, arr(q["x"]))).hex()}
            elif t == "auto":
                d = len(q["kinds"])
                bij = TriMap(jnp.asarray(q["kinds"]), jnp.asarray([[float.fromhex(v) for v in row] for row in q["P"]]),
                             jnp.asarray([[float.fromhex(v) for v in row] for row in q["C"]]).reshape(d, d), (d,))
                inv = AutoregressiveBisectionInverter(lower=float.fromhex(q["lo"]), upper=float.fromhex(q["up"]),
                                                      tol=float.fromhex(q["tol"]), max_iter=q["max_iter"])
                y = jnp.asarray([float.fromhex(v) for v in q["y"]])
                cond = None if q.get("cond") is None else jnp.asarray([float.fromhex(v) for v in q["cond"]])
                res = inv(bij, y, cond) if q.get("eager") else auto_jit(inv, bij, y, cond)
                r = {"x": [float(v).hex() for v in np.asarray(res)]}
            elif t == "noroot":
                # a bounded increasing function below zero: no root.  The model never terminates (C10_adapt_needs_root).
                res = _adapt_interval_to_include_root(lambda x: jnp.tanh(x) - 2.0, lower=jnp.asarray(-10.0), upper=jnp.asarray(10.0))
                r = {"returned": [float(res[0]), float(res[1]), int(res[2])]}
            elif t == "precond":
                # the hypotheses lo < up, tol > 0, max_iter >= 0 of the theorems are enforced by the code
                try:
                    if q["what"] == "inverter":
                        AutoregressiveBisectionInverter(lower=q["lo"], upper=q["up"], tol=q["tol"], max_iter=q["max_iter"])
                    else:
                        _bisection_search(lambda x: x - 0.25, lower=jnp.asarray(q["lo"]), upper=jnp.asarray(q["up"]), tol=q["tol"], max_iter=q["max_iter"])
                    r = {"raised": None}
                except ValueError as e:
                    r = {"raised": "ValueError"}
            elif t == "bnaf":
                import jax.random as jr
                from flowjax.bijections import BlockAutoregressiveNetwork

                key = jr.PRNGKey(q["seed"])
                k1, k2, k3 = jr.split(key, 3)
                b = BlockAutoregressiveNetwork(k1, dim=q["dim"], depth=q["depth"], block_dim=q["block_dim"])
                params, static = eqx.partition(b, eqx.is_inexact_array)
                leaves, tdef = jax.tree_util.tree_flatten(params)
                ks = jr.split(k2, len(leaves))
                leaves = [l + q["perturb"] * jr.normal(k, l.shape) for l, k in zip(leaves, ks)]
                b = eqx.combine(jax.tree_util.tree_unflatten(tdef, leaves), static)
                x = q["xscale"] * jr.normal(k3, (q["dim"],))
                y = b.transform(x)
                xh = b.inverse(y)
                # bracket test of every coordinate's own equation given the FOUND prefix (the code's scalar_fn), delta = tol + resolution
                dl = [1.01e-7 + 1e-9 * max(1.0, abs(float(v))) for v in np.asarray(xh)]
                gm = [float(b.transform(xh.at[i].set(xh[i] - dl[i]))[i] - y[i]) for i in range(q["dim"])]
                gp = [float(b.transform(xh.at[i].set(xh[i] + dl[i]))[i] - y[i]) for i in range(q["dim"])]
                r = {"x": [float(v).hex() for v in np.asarray(x)], "xh": [float(v).hex() for v in np.asarray(xh)],
                     "gm": gm, "gp": gp, "y": [float(v).hex() for v in np.asarray(y)]}
            else:
                r = {"err": "unknown request"}
        except Exception as e:  # reported, never swallowed: the main process treats it as an observation
            r = {"exc": f"{type(e).__name__}: {e}"[:300]}
        out.write(json.dumps(r) + "\n")
        out.flush()


class Guard:
    """Runs implementation requests in ONE persistent worker subprocess (request/answer over pipes).  A request that does not
    answer within `timeout` seconds is retried once, alone, in a fresh worker with twice the time (a slow machine is not a
    hang); if it still does not answer it is reported as {'hang': True}.  Workers are killed BY PID."""

    def __init__(self, timeout, first_timeout):
        self.timeout, self.first_timeout = timeout, first_timeout
        self.hangs = 0
        self.crashes = []
        self.proc = None
        self.buf = b""
        self.epath = None

    # -- process management
    def _spawn(self):
        efd, self.epath = tempfile.mkstemp(prefix="c10_err_", suffix=".txt", dir="/tmp")
        self.proc = subprocess.Popen([sys.executable, "-m", "harness.c10", "--worker"], cwd=VERIF, stdin=subprocess.PIPE,
                                     stdout=subprocess.PIPE, stderr=efd, env=os.environ.copy())
        os.close(efd)
        self.buf = b""
        ans = self._readline(self.first_timeout)
        if ans is None or not ans.get("ready"):
            self._note_crash("worker did not become ready")
            self._kill()
            return False
        return True

    def _note_crash(self, why):
        try:
            self.crashes.append(why + ": " + open(self.epath).read()[-800:])
        except OSError:
            self.crashes.append(why)

    def _kill(self):
        if self.proc is not None:
            if self.proc.poll() is None:
                self.proc.kill()  # by PID
            self.proc.wait()
            for f in (self.proc.stdin, self.proc.stdout):
                try:
                    f.close()
                except OSError:
                    pass
            self.proc = None
        if self.epath:
            try:
                os.unlink(self.epath)
            except OSError:
                pass
            self.epath = None

    def close(self):
        self._kill()

    def _readline(self, timeout):
        """one JSON answer, or None on time-out / EOF"""
        deadline = time.time() + timeout
        while True:
            if b"\n" in self.buf:
                line, self.buf = self.buf.split(b"\n", 1)
                return json.loads(line)
            left = deadline - time.time()
            if left <= 0:
                return None
            rd, _, _ = select.select([self.proc.stdout], [], [], left)
            if not rd:
                return None
            chunk = os.read(self.proc.stdout.fileno(), 1 << 16)
            if not chunk:  # EOF: the worker is gone
                try:
                    self.proc.wait(timeout=10)
                except subprocess.TimeoutExpired:
                    pass
                return None
            self.buf += chunk

    def _ask(self, q, timeout):
        """answer | {'hang': True} | {'skipped': True, 'crash': True}"""
        if self.proc is None and not self._spawn():
            return {"skipped": True, "crash": True}
        try:
            self.proc.stdin.write((json.dumps(q) + "\n").encode())
            self.proc.stdin.flush()
        except (BrokenPipeError, OSError):
            self._note_crash("worker pipe closed")
            self._kill()
            return {"skipped": True, "crash": True}
        ans = self._readline(timeout)
        if ans is not None:
            return ans
        died = self.proc.poll() is not None
        if died:
            self._note_crash("worker died")
        self._kill()
        return {"skipped": True, "crash": True} if died else {"hang": True}

    def run(self, reqs):
        results = []
        for q in reqs:
            if self.hangs >= 3 or len(self.crashes) >= 3:  # a broken tree: do not burn the whole budget on time-outs
                results.append({"skipped": True})
                continue
            ans = self._ask(q, self.timeout)
            if "hang" in ans:
                ans = self._ask(q, 2 * self.timeout)  # once more, alone in a fresh worker, twice the time
                if "hang" in ans:
                    self.hangs += 1
            results.append(ans)
        return results


# ====================================================================================== oracle (the property's own statement)
def width0(r: Fr, lo: Fr, up: Fr) -> Fr:
    return max(up - lo, r - lo, up - r)


def oracle_scalar(root: float, r, lo, up, tol, max_iter, res_ulps=2.0):
    """|root - r| <= max(tol, W / 2^(max_iter+1)) + resolution.  Returns None if fine, else a message."""
    if not math.isfinite(root):
        return f"root {root} is not finite"
    bound = max(Fr(tol), width0(Fr(r), Fr(lo), Fr(up)) / 2 ** (max_iter + 1))
    slack = res_ulps * max(ulp(r), ulp(root))
    err = abs(Fr(root) - Fr(r))
    if err > bound + Fr(slack):
        return f"|root - r| = {float(err):.6g} > max(tol, W/2^(max_iter+1)) = {float(bound):.6g} (+{slack:.3g} float resolution)"
    return None


# ====================================================================================== units
def scalar_case(rng, grid):
    lo, up = gen_interval(rng)
    tag, r = gen_root(rng, lo, up)
    g = gen_fn(rng, r, around=[lo, up])
    t, mi = grid[int(rng.integers(0, len(grid)))]
    return {"fn": g, "lo": lo, "up": up, "tolexp": t, "max_iter": mi, "tag": tag}


def scalar_reqs(c, eager=False):
    g = c["fn"]
    tol = Fr(1, 2 ** c["tolexp"])
    kind, P = fn_params(g)
    mreq = f"search {fn_term(g)} {me(c['lo'])} {me(c['up'])} {me(tol)} {c['max_iter']} {FUEL}"
    ireq = {"t": "search", "kind": kind, "P": [float(v).hex() for v in P], "lo": float(c["lo"]).hex(), "up": float(c["up"]).hex(),
            "tol": float(tol).hex(), "max_iter": c["max_iter"], "eager": eager}
    return mreq, ireq


def scalar_json(c):
    return {"unit": "search", "fn": fn_json(c["fn"]), "lo": float(c["lo"]).hex(), "up": float(c["up"]).hex(), "tolexp": c["tolexp"],
            "max_iter": c["max_iter"], "tag": c["tag"], "eager": bool(c.get("eager"))}


def scalar_from_json(j):
    return {"fn": fn_from_json(j["fn"]), "lo": Fr(float.fromhex(j["lo"])), "up": Fr(float.fromhex(j["up"])), "tolexp": j["tolexp"],
            "max_iter": j["max_iter"], "tag": j.get("tag", "?"), "eager": j.get("eager", False)}


def repro(kind):
    return f"cd /verif && ./check C10 --replay <this file>   # unit {kind}; the case holds the function term, interval, tol, max_iter"


def judge_scalar(ctx, u, c, mout, iout, stats):
    """compare one scalar search case; returns True if everything is fine"""
    g = c["fn"]
    tol = Fr(1, 2 ** c["tolexp"])
    r = fn_root(g)
    cj = scalar_json(c)
    fam = g["kind"] + ("" if g["kind"] != "pl" else str(len(g["segs"])))
    if "hang" in iout or "exc" in iout:
        what = ("did not terminate within the time-out" if "hang" in iout else "raised/crashed: " + str(iout.get("exc", "worker died")))
        u.disagreements += 1
        ctx.violation(sig=f"_bisection_search:{'hang' if 'hang' in iout else 'exception'}:{c['tag']}",
                      what=f"_bisection_search {what} on a strictly increasing continuous {fam} function with root {float(r)!r}, "
                           f"interval [{float(c['lo'])!r}, {float(c['up'])!r}], tol 2^-{c['tolexp']}, max_iter {c['max_iter']}",
                      case=cj, found_input=True, unit=u.name, expected="terminates with |root - r| <= tol", observed=iout,
                      broken="theorem C10_search_bound_any_iter (termination) vs implementation", reproducer=repro("search"))
        return False
    if iout.get("skipped"):
        return True
    if not mout.startswith("ok"):
        ctx.violation(sig="model:fuel-exhausted", what=f"the model ran out of fuel ({FUEL}) on a case with a root: {mout}", case=cj,
                      found_input=False, unit=u.name, broken="harness/model fuel")
        return False
    _, mroot, mai, mit, ninex = mout.split()
    mroot, mai, mit, ninex = qparse(mroot), int(mai), int(mit), int(ninex)
    root = float.fromhex(iout["root"])
    exact = ninex == 0
    stats["exact" if exact else "inexact"] += 1
    same = math.isfinite(root) and Fr(root) == mroot and iout["ai"] == mai and iout["it"] == mit
    nulp = (abs(Fr(root) - mroot) / Fr(max(ulp(root), ulp(float(mroot))))) if math.isfinite(root) else Fr(10**9)
    counts_same = iout["ai"] == mai and iout["it"] == mit
    close = nulp <= 1 and counts_same
    few = nulp <= 8 and counts_same  # several rounded midpoints (the search's own operations leave binary64): a few ulp
    orc = oracle_scalar(root, r, c["lo"], c["up"], tol, c["max_iter"])
    if not exact:
        stats["inexact-identical" if same else ("inexact-1ulp" if close else ("inexact-8ulp" if few else "inexact-divergent"))] += 1
    ok = (same if exact else True) and orc is None
    if not exact and not few:
        stats.setdefault("divergent_cases", []).append(cj)
        if os.environ.get("C10_DEBUG"):
            with open("/tmp/c10_divergent.jsonl", "a") as fdbg:
                fdbg.write(json.dumps({"case": cj, "model": mout, "impl": iout, "oracle": orc}) + "\n")
    if ok:
        return True
    obs = {"root": root, "adapt_iterations": iout["ai"], "iterations": iout["it"]}
    exp = {"root": float(mroot), "adapt_iterations": mai, "iterations": mit, "closed_form_root": float(r)}
    if orc is not None:
        ctx.violation(sig=f"_bisection_search:oracle:{c['tag']}",
                      what=f"_bisection_search on an increasing {fam} function with root r={float(r)!r}, interval [{float(c['lo'])!r}, "
                           f"{float(c['up'])!r}], tol=2^-{c['tolexp']}, max_iter={c['max_iter']} returned {root!r}: {orc}",
                      case=cj, found_input=True, unit=u.name, expected=exp, observed=obs,
                      broken="theorem C10_search_bound_any_iter vs implementation", reproducer=repro("search"))
    else:
        u.disagreements += 1
        stats.setdefault("mismatch_cases", []).append(c)
        ctx.violation(sig="_bisection_search:model-mismatch",
                      what=f"exact tie broken: implementation (root, adapt_iterations, iterations) = ({root!r}, {iout['ai']}, {iout['it']}) "
                           f"but the Coq model gives ({float(mroot)!r}, {mai}, {mit}) on a case where every float64 operation is exact "
                           f"({fam}, root {float(r)!r}, [{float(c['lo'])!r}, {float(c['up'])!r}], tol 2^-{c['tolexp']}, max_iter {c['max_iter']})",
                      case=cj, found_input=False, unit=u.name, expected=exp, observed=obs,
                      broken="correspondence unit search-exact (Model.Bisect.search = _bisection_search)", reproducer=repro("search"))
    return False


def unit_search(ctx, guard):
    rng = ctx.rng
    grid = static_grid(ctx.quick)
    n = 2600 if ctx.quick else 40000
    u = ctx.unit("search-exact", "_bisection_search (jitted once per (tol, max_iter); a sample also eagerly) vs Model.Bisect.search at Q on dyadic "
                                 "piecewise-linear/cubic/saturating functions; root, adapt iterations and bisection iterations EQUAL when no "
                                 "operation leaves binary64, 1 ulp otherwise; non-trivial = at least one adaptation or bisection iteration")
    cases = []
    for (t, mi) in grid:  # every compiled pair gets boundary-directed cases
        for tag_lo_up in [((-10, 10), Fr(3, 8)), ((3, 4), Fr(-4)), ((-2, 0), Fr(-4)), ((-8, -6), Fr(-4)), ((-10, 10), Fr(10)), ((-10, 10), Fr(-10))]:
            (lo, up), r = tag_lo_up
            cases.append({"fn": {"kind": "pl", "segs": [[r, Fr(0), Fr(1)]], "root": r}, "lo": Fr(lo), "up": Fr(up), "tolexp": t, "max_iter": mi,
                          "tag": "seed"})
    while len(cases) < n:
        cases.append(scalar_case(rng, grid))
    n_eager = 24 if ctx.quick else 200
    for c in cases[len(cases) - n_eager:]:
        c["eager"] = True
    pairs = [scalar_reqs(c, eager=c.get("eager", False)) for c in cases]
    mouts = ctx.model([p[0] for p in pairs])
    iouts = guard.run([p[1] for p in pairs])
    stats = {"exact": 0, "inexact": 0, "inexact-identical": 0, "inexact-1ulp": 0, "inexact-8ulp": 0, "inexact-divergent": 0}
    for c, mo, io in zip(cases, mouts, iouts):
        ok = judge_scalar(ctx, u, c, mo, io, stats)
        nontrivial = mo.startswith("ok") and (int(mo.split()[2]) > 0 or int(mo.split()[3]) > 0)
        u.count(scalar_json(c), nontrivial=nontrivial,
                tag=f"{c['fn']['kind']}/{c['tag']}/{'exact' if mo.startswith('ok') and mo.split()[4] == '0' else 'inexact'}")
        if ok and len(u.hashes) % 450 == 7:
            ctx.sample({"case": scalar_json(c), "model": mo, "implementation": io})
    # the inexact class: trajectories may legitimately part when a rounded function value changes sign class; tolerate rare events
    div, inx = stats["inexact-divergent"], max(1, stats["inexact"])
    if div > max(8, 0.05 * inx):
        ctx.violation(sig="_bisection_search:inexact-class-divergence",
                      what=f"{div} of {inx} cases with inexact float operations differ from the model by more than 8 ulp / in iteration counts "
                           f"(threshold 5%) although their oracle holds", case=stats["divergent_cases"][0], found_input=False, unit=u.name,
                      broken="correspondence unit search-exact (1-ulp class)", reproducer=repro("search"))
    ctx.notes.append(f"search-exact: {stats['exact']} cases all-exact in binary64 (compared for equality), {stats['inexact']} with an inexact "
                     f"operation (identical anyway: {stats['inexact-identical']}, within 1 ulp: {stats['inexact-1ulp']}, within 8 ulp with rounded "
                     f"midpoints: {stats['inexact-8ulp']}, divergent: {div}); "
                     f"{n_eager} cases run eagerly (un-jitted); {len(grid)} (tol, max_iter) pairs")
    # around a disagreement: run the oracle on neighbours of the first mismatching cases (found_input if one fails)
    for c in stats.get("mismatch_cases", [])[:3]:
        neigh = []
        for t in (7, 16, 30):
            for (lo, up) in [(c["lo"], c["up"]), (Fr(-10), Fr(10)), (fn_root(c["fn"]) - 3, fn_root(c["fn"]) - 1), (fn_root(c["fn"]) + 1, fn_root(c["fn"]) + 2),
                             (fn_root(c["fn"]) - 2, fn_root(c["fn"])), (fn_root(c["fn"]), fn_root(c["fn"]) + 2)]:
                neigh.append({"fn": c["fn"], "lo": lo, "up": up, "tolexp": t, "max_iter": 200, "tag": "neighbour"})
        nouts = guard.run([scalar_reqs(x)[1] for x in neigh])
        for x, io in zip(neigh, nouts):
            if "root" in io:
                orc = oracle_scalar(float.fromhex(io["root"]), fn_root(x["fn"]), x["lo"], x["up"], Fr(1, 2 ** x["tolexp"]), 200)
                if orc is not None:
                    ctx.violation(sig="_bisection_search:oracle:neighbour",
                                  what=f"near a model mismatch: root r={float(fn_root(x['fn']))!r}, interval [{float(x['lo'])!r}, {float(x['up'])!r}], "
                                       f"tol=2^-{x['tolexp']}: returned {float.fromhex(io['root'])!r}: {orc}",
                                  case=scalar_json(x), found_input=True, unit=u.name, broken="theorem C10_search_within_tol vs implementation",
                                  reproducer=repro("search"))
            elif "hang" in io:
                ctx.violation(sig="_bisection_search:hang:neighbour", what="near a model mismatch: the search did not terminate", case=scalar_json(x),
                              found_input=True, unit=u.name, broken="termination", reproducer=repro("search"))
    return stats


def unit_adapt(ctx, guard):
    rng = ctx.rng
    n = 500 if ctx.quick else 6000
    u = ctx.unit("adapt-exact", "_adapt_interval_to_include_root vs Model.Bisect.adapt at Q: returned (lower, upper, iterations) EQUAL on all-exact "
                                "cases (incl. exact hits on an end / on an expansion point, roots 1e6 away both sides); also the bracket "
                                "property lower <= r <= upper on every case; non-trivial = at least one expansion")
    cases, mreqs, ireqs = [], [], []
    for _ in range(n):
        lo, up = gen_interval(rng)
        tag, r = gen_root(rng, lo, up)
        g = gen_fn(rng, r, around=[lo, up])
        kind, P = fn_params(g)
        cases.append({"fn": g, "lo": lo, "up": up, "tag": tag})
        mreqs.append(f"adapt {fn_term(g)} {me(lo)} {me(up)} {FUEL}")
        ireqs.append({"t": "adapt", "kind": kind, "P": [float(v).hex() for v in P], "lo": float(lo).hex(), "up": float(up).hex()})
    mouts = ctx.model(mreqs)
    iouts = guard.run(ireqs)
    nex = 0
    for c, mo, io in zip(cases, mouts, iouts):
        cj = {"unit": "adapt", "fn": fn_json(c["fn"]), "lo": float(c["lo"]).hex(), "up": float(c["up"]).hex(), "tag": c["tag"]}
        r = fn_root(c["fn"])
        if "hang" in io or "exc" in io:
            u.count(cj, tag="hang")
            u.disagreements += 1
            ctx.violation(sig=f"_adapt_interval_to_include_root:{'hang' if 'hang' in io else 'exception'}:{c['tag']}",
                          what=f"_adapt_interval_to_include_root did not return ({io}) for an increasing function with root {float(r)!r} and "
                               f"interval [{float(c['lo'])!r}, {float(c['up'])!r}]", case=cj, found_input=True, unit=u.name,
                          broken="theorem C10_adapt_terminates vs implementation", reproducer=repro("adapt"))
            continue
        if io.get("skipped"):
            continue
        _, ml, mu, mn, ninex = mo.split()
        ml, mu, mn, exact = qparse(ml), qparse(mu), int(mn), int(ninex) == 0
        l, uu = float.fromhex(io["l"]), float.fromhex(io["u"])
        nex += exact
        u.count(cj, nontrivial=mn > 0, tag=f"{c['tag']}/{'exact' if exact else 'inexact'}")
        bracket_ok = Fr(l) <= r <= Fr(uu)
        same = Fr(l) == ml and Fr(uu) == mu and io["n"] == mn
        if not bracket_ok:
            ctx.violation(sig=f"_adapt_interval_to_include_root:oracle:{c['tag']}",
                          what=f"adapted interval [{l!r}, {uu!r}] does not contain the root {float(r)!r} (start [{float(c['lo'])!r}, {float(c['up'])!r}])",
                          case=cj, found_input=True, unit=u.name, expected=[float(ml), float(mu), mn], observed=[l, uu, io["n"]],
                          broken="theorem C10_adapt_terminates_and_brackets vs implementation", reproducer=repro("adapt"))
        elif exact and not same:
            u.disagreements += 1
            ctx.violation(sig="_adapt_interval_to_include_root:model-mismatch",
                          what=f"exact tie broken: implementation (lower, upper, iterations) = ({l!r}, {uu!r}, {io['n']}), model ({float(ml)!r}, "
                               f"{float(mu)!r}, {mn}); root {float(r)!r}, start [{float(c['lo'])!r}, {float(c['up'])!r}]",
                          case=cj, found_input=False, unit=u.name, expected=[float(ml), float(mu), mn], observed=[l, uu, io["n"]],
                          broken="correspondence unit adapt-exact (Model.Bisect.adapt = _adapt_interval_to_include_root)", reproducer=repro("adapt"))
    ctx.notes.append(f"adapt-exact: {nex} of {len(cases)} cases all-exact")


def unit_eval(ctx, guard):
    """the jnp transcription of the family computes the model's eval_fn (serialiser self-check)"""
    rng = ctx.rng
    n = 300 if ctx.quick else 3000
    u = ctx.unit("family-eval", "the jnp transcription of the function family vs Model.Bisect.eval_fn at Q: values EQUAL whenever no operation "
                                "leaves binary64, relative 1e-12 otherwise (guards the serialiser: both sides search the same function)")
    cases, mreqs, ireqs = [], [], []
    for _ in range(n):
        lo, up = gen_interval(rng)
        _, r = gen_root(rng, lo, up)
        g = gen_fn(rng, r, around=[lo, up])
        pts = [r, lo, up] + ([s[0] for s in g["segs"]] if g["kind"] == "pl" else []) + [r + dy(rng, 6, -10, 4)]
        x = pts[int(rng.integers(0, len(pts)))]
        if not isf64(x):
            x = r
        kind, P = fn_params(g)
        cases.append((g, x))
        mreqs.append(f"eval {fn_term(g)} {me(x)}")
        ireqs.append({"t": "eval", "kind": kind, "P": [float(v).hex() for v in P], "x": float(x).hex()})
    mouts = ctx.model(mreqs)
    iouts = guard.run(ireqs)
    for (g, x), mo, io in zip(cases, mouts, iouts):
        if "v" not in io:
            continue
        mv, ninex = mo.split()
        mv, exact = qparse(mv), int(ninex) == 0
        v = float.fromhex(io["v"])
        cj = {"unit": "eval", "fn": fn_json(g), "x": float(x).hex()}
        u.count(cj, nontrivial=mv != 0, tag=g["kind"] + ("/exact" if exact else "/inexact"))
        ok = (Fr(v) == mv) if exact else abs(Fr(v) - mv) <= Fr(1, 10**12) * max(abs(mv), Fr(1, 10**300))
        if not ok or mv != fn_eval_exact(g, x):
            u.disagreements += 1
            ctx.violation(sig="family-eval:mismatch", what=f"function family transcription disagrees at x={float(x)!r}: jnp {v!r}, model {float(mv)!r}, "
                                                           f"python exact {float(fn_eval_exact(g, x))!r}", case=cj, found_input=False, unit=u.name,
                          broken="harness serialiser (family-eval)")


OFAM = ["lin-steep", "lin-flat", "cubic", "sinh", "tanh-linear-tails", "kinked"]


def unit_oracle(ctx, guard):
    """the property's own statement on the non-dyadic shape family, independent of the model"""
    rng = ctx.rng
    u = ctx.unit("search-oracle", "_bisection_search on the property's shape family (linear steep/flat, cubic, sinh, tanh with linear tails, "
                                  "kinked) with non-dyadic roots: |root - r| <= max(tol, W/2^(max_iter+1)) + 2 ulp (r known in closed form); "
                                  "roots inside / on the ends / next-float outside / 1e6 away either side, tol 1e-2..1e-12 (below resolution "
                                  "included), max_iter 200 and small")
    tols = [1e-2, 1e-3, 1e-5, 1e-7, 1e-9, 1e-12] if ctx.quick else [1e-2, 1e-3, 1e-4, 1e-5, 1e-6, 1e-7, 1e-8, 1e-9, 1e-12]
    grid = [(t, 200) for t in tols] + [(1e-7, 0), (1e-7, 5), (1e-9, 30)]
    ivs = [(-10.0, 10.0), (0.0, 1.0), (-1e-3, 1e-3), (2.5, 2.75)]
    n_per = 12 if ctx.quick else 120
    cases = []
    for (tol, mi) in grid:
        for _ in range(n_per):
            lo, up = ivs[int(rng.integers(0, len(ivs)))]
            w = up - lo
            tag = rng.choice(["inside", "on-lower", "on-upper", "next-above", "next-below", "just-above", "just-below", "far-above", "far-below", "third"])
            r = {"inside": lo + w * rng.random(), "on-lower": lo, "on-upper": up, "next-above": float(np.nextafter(up, np.inf)),
                 "next-below": float(np.nextafter(lo, -np.inf)), "just-above": up + 1e-7 * (1 + rng.random()), "just-below": lo - 1e-7 * (1 + rng.random()),
                 "far-above": 1e6 * (1 + rng.random()), "far-below": -1e6 * (1 + rng.random()), "third": lo + w / 3}[tag]
            cases.append({"kind": int(rng.integers(0, len(OFAM))), "r": float(r), "lo": lo, "up": up, "tol": tol, "max_iter": mi, "tag": str(tag)})
    outs = guard.run([{"t": "osearch", "kind": c["kind"], "r": c["r"].hex(), "lo": float(c["lo"]).hex(), "up": float(c["up"]).hex(),
                       "tol": float(c["tol"]).hex(), "max_iter": c["max_iter"]} for c in cases])
    for c, io in zip(cases, outs):
        cj = {"unit": "oracle", "family": OFAM[c["kind"]], **{k: (v.hex() if isinstance(v, float) else v) for k, v in c.items()}}
        if io.get("skipped"):
            continue
        u.count(cj, nontrivial=True, tag=f"{OFAM[c['kind']]}/{c['tag']}")
        if "root" not in io:
            ctx.violation(sig=f"_bisection_search:{'hang' if 'hang' in io else 'exception'}:{c['tag']}",
                          what=f"_bisection_search did not return ({io}) for {OFAM[c['kind']]} with root {c['r']!r}, interval [{c['lo']}, {c['up']}], tol {c['tol']}",
                          case=cj, found_input=True, unit=u.name, broken="termination (C10_search_bound_any_iter)", reproducer=repro("oracle"))
            continue
        root = float.fromhex(io["root"])
        orc = oracle_scalar(root, c["r"], c["lo"], c["up"], c["tol"], c["max_iter"])
        if orc is not None:
            ctx.violation(sig=f"_bisection_search:oracle:{OFAM[c['kind']]}:{c['tag']}",
                          what=f"_bisection_search on {OFAM[c['kind']]}(x - r), r={c['r']!r}, interval [{c['lo']}, {c['up']}], tol={c['tol']}, "
                               f"max_iter={c['max_iter']} returned {root!r}: {orc}", case=cj, found_input=True, unit=u.name,
                          expected=c["r"], observed=root, broken="theorem C10_search_bound_any_iter vs implementation", reproducer=repro("oracle"))
        elif len(u.hashes) % 60 == 3:
            ctx.sample({"case": cj, "root": root, "abs_error": abs(root - c["r"])})


# ---------------------------------------------------------------------------- autoregressive
def gen_auto(rng, dim, tolexp, mi):
    lo, up = [(Fr(-10), Fr(10)), (Fr(-10), Fr(10)), (Fr(0), Fr(1)), (Fr(-1), Fr(1)), (Fr(3), Fr(4))][int(rng.integers(0, 5))]
    with_cond = rng.random() < 0.5
    for _ in range(100):
        xs, rows = [], []
        ok = True
        for i in range(dim):
            cnd = dy(rng, int(rng.integers(1, 6)), -3, 3) if with_cond else Fr(0)
            tag, xi = gen_root(rng, lo, up)
            if abs(xi) > 2**21:
                xi = Fr(int(rng.integers(-40, 40)), 4)
            cs = [(dy(rng, int(rng.integers(1, 5)), -3, 2) if rng.random() < 0.8 else Fr(0)) for _ in range(i)]
            # g_i has its root anywhere (dyadic); the coordinate's root given the true prefix is xi by the choice of the target
            g = gen_fn(rng, dy(rng, 5, -3, 4), around=[lo, up, xi])
            if fn_min_slope(g) == 0:
                g = {"kind": "pl", "segs": [[Fr(0), Fr(0), Fr(1)]], "root": Fr(0)}
            acc = Fr(0)
            for c_, x_ in zip(cs, xs):
                acc = acc + c_ * x_
            t = fn_eval_exact(g, xi) + acc + cnd
            if not isf64(t):
                ok = False
                break
            xs.append(xi)
            rows.append((g, cs, cnd, t))
        if ok:
            return {"lo": lo, "up": up, "tolexp": tolexp, "max_iter": mi, "rows": rows, "x": xs, "with_cond": with_cond}
    return None


def auto_reqs(c, eager=False):
    tol = Fr(1, 2 ** c["tolexp"])
    d = len(c["rows"])
    rows = " ".join(f"{fn_term(g)}|{','.join(me(v) for v in cs) or '-'}|{me(cnd)}|{me(t)}" for g, cs, cnd, t in c["rows"])
    mreq = f"auto {me(c['lo'])} {me(c['up'])} {me(tol)} {c['max_iter']} {FUEL} {rows}"
    kinds, Ps = zip(*[fn_params(g) for g, _, _, _ in c["rows"]])
    C = [[float(c["rows"][i][1][j]).hex() if j < i else (0.0).hex() for j in range(d)] for i in range(d)]
    ireq = {"t": "auto", "kinds": list(kinds), "P": [[float(v).hex() for v in P] for P in Ps], "C": C, "y": [float(t).hex() for _, _, _, t in c["rows"]],
            "cond": [float(cnd).hex() for _, _, cnd, _ in c["rows"]] if c.get("with_cond") else None,
            "lo": float(c["lo"]).hex(), "up": float(c["up"]).hex(), "tol": float(tol).hex(), "max_iter": c["max_iter"], "eager": eager}
    return mreq, ireq


def auto_json(c):
    return {"unit": "auto", "lo": float(c["lo"]).hex(), "up": float(c["up"]).hex(), "tolexp": c["tolexp"], "max_iter": c["max_iter"],
            "with_cond": bool(c.get("with_cond")),
            "rows": [[fn_json(g), [float(v).hex() for v in cs], float(cnd).hex(), float(t).hex()] for g, cs, cnd, t in c["rows"]],
            "x": [float(v).hex() for v in c["x"]]}


def auto_from_json(j):
    return {"lo": Fr(float.fromhex(j["lo"])), "up": Fr(float.fromhex(j["up"])), "tolexp": j["tolexp"], "max_iter": j["max_iter"],
            "with_cond": j.get("with_cond", False),
            "rows": [(fn_from_json(g), [Fr(float.fromhex(v)) for v in cs], Fr(float.fromhex(cnd)), Fr(float.fromhex(t))) for g, cs, cnd, t in j["rows"]],
            "x": [Fr(float.fromhex(v)) for v in j["x"]]}


def oracle_auto(c, xh):
    """|xhat_i - x_i| <= delta (1 + L/m)^i (+ resolution), delta = tol when max_iter is large enough for every coordinate.
    Only evaluated when max_iter = 200 (the default) -- then 2 tol 2^200 exceeds every width here."""
    if c["max_iter"] < 200:
        return None
    tol = Fr(1, 2 ** c["tolexp"])
    errs = [abs(Fr(a) - b) for a, b in zip(xh, c["x"])]
    acc = Fr(0)
    for i, (g, cs, cnd, _) in enumerate(c["rows"]):
        L = max([abs(v) for v in cs], default=Fr(0))
        m = fn_min_slope(g)
        bound = tol + (L / m) * acc  # the recursion err_i <= tol + (L_i/m_i) sum_{j<i} err_j, with the accumulated BOUNDS
        # float resolution of the coordinate's root: 2^-49 * (magnitude of the terms summed by the map) / slope
        xi = c["x"][i]
        if g["kind"] == "pl":
            gmag = max(abs(y) + abs(s_) * abs(xi - b) for b, y, s_ in g["segs"])
        elif g["kind"] == "cub":
            gmag = g["a"] * abs(xi - g["r"]) ** 3 + g["b"] * abs(xi - g["r"])
        else:
            gmag = g["a"] + g["e"] * abs(xi - g["r"])
        mag = abs(c["rows"][i][3]) + abs(cnd) + gmag + sum(abs(v * x_) for v, x_ in zip(cs, c["x"]))
        slack = Fr(8 * max(ulp(float(xi)), ulp(xh[i]))) + bound / 10**9 + mag / m / 2**49
        if errs[i] > bound + slack:
            return f"coordinate {i}: |xhat - x| = {float(errs[i]):.6g} > tol + (L/m) sum_(j<i) bound_j = {float(bound):.6g} (L={float(L)}, m={float(m)})"
        acc += bound + slack  # the earlier coordinates' float resolution propagates too
    return None


def unit_auto(ctx, guard):
    rng = ctx.rng
    dims = [1, 2, 3, 4] if ctx.quick else [1, 2, 3, 4, 5, 6]
    statics = [(10, 200), (20, 200), (30, 200), (16, 3)] if ctx.quick else [(7, 200), (10, 200), (16, 200), (20, 200), (24, 200), (30, 200), (16, 3), (24, 0), (12, 10)]
    per = 22 if ctx.quick else 150
    u = ctx.unit("autoregressive-exact", "AutoregressiveBisectionInverter(lower, upper, tol, max_iter)(triangular dyadic map, y) vs "
                                         "Model.Bisect.autoreg_tri at Q, dims 1-4 (6 thorough), cross-coordinate coupling: every coordinate EQUAL when "
                                         "no operation leaves binary64 (1 ulp otherwise); oracle |xhat_i - x_i| <= tol + (L/m) sum_(j<i) bound_j; "
                                         "non-trivial = dim >= 2 with a non-zero coupling")
    cases = []
    for d in dims:
        for (t, mi) in statics:
            for _ in range(per):
                c = gen_auto(rng, d, t, mi)
                if c:
                    cases.append(c)
    n_eager = 3 if ctx.quick else 20
    for c in cases[len(cases) - n_eager:]:
        c["eager"] = True
    pairs = [auto_reqs(c, eager=c.get("eager", False)) for c in cases]
    mouts = ctx.model([p[0] for p in pairs])
    iouts = guard.run([p[1] for p in pairs])
    st = {"exact": 0, "inexact": 0, "div": 0}
    divergent = []
    for c, mo, io in zip(cases, mouts, iouts):
        cj = auto_json(c)
        d = len(c["rows"])
        if io.get("skipped"):
            continue
        if "x" not in io:
            u.count(cj, tag="hang")
            u.disagreements += 1
            ctx.violation(sig=f"AutoregressiveBisectionInverter:{'hang' if 'hang' in io else 'exception'}",
                          what=f"AutoregressiveBisectionInverter did not return ({io}) on a triangular increasing map of dim {d} with preimage "
                               f"{[float(v) for v in c['x']]}", case=cj, found_input=True, unit=u.name, broken="termination (C10_autoreg_*)",
                          reproducer=repro("auto"))
            continue
        if not mo.startswith("ok"):
            ctx.violation(sig="model:fuel-exhausted", what=f"model out of fuel: {mo}", case=cj, found_input=False, unit=u.name, broken="harness/model fuel")
            continue
        _, mx, ninex = mo.split()
        mx = [qparse(v) for v in mx.split(",")]
        exact = int(ninex) == 0
        xh = [float.fromhex(v) for v in io["x"]]
        st["exact" if exact else "inexact"] += 1
        coupled = any(v != 0 for _, cs, _, _ in c["rows"] for v in cs)
        u.count(cj, nontrivial=d >= 2 and coupled, tag=f"dim{d}/{'exact' if exact else 'inexact'}/mi{c['max_iter']}/{'cond' if c.get('with_cond') else 'nocond'}")
        same = all(math.isfinite(a) and Fr(a) == b for a, b in zip(xh, mx))
        close = all(math.isfinite(a) and abs(Fr(a) - b) <= Fr(max(ulp(a), ulp(float(b)))) for a, b in zip(xh, mx))
        orc = oracle_auto(c, xh) if all(math.isfinite(a) for a in xh) else "non-finite coordinate"
        if orc is not None:
            ctx.violation(sig="AutoregressiveBisectionInverter:oracle",
                          what=f"dim {d}, tol 2^-{c['tolexp']}, interval [{float(c['lo'])}, {float(c['up'])}]: returned {xh}, true preimage "
                               f"{[float(v) for v in c['x']]}: {orc}", case=cj, found_input=True, unit=u.name, expected=[float(v) for v in c["x"]],
                          observed=xh, broken="theorem C10_autoreg_error_bound vs implementation", reproducer=repro("auto"))
        elif exact and not same:
            u.disagreements += 1
            ctx.violation(sig="AutoregressiveBisectionInverter:model-mismatch",
                          what=f"exact tie broken: implementation {xh} vs model {[float(v) for v in mx]} (dim {d}, tol 2^-{c['tolexp']}, max_iter "
                               f"{c['max_iter']}, true preimage {[float(v) for v in c['x']]})", case=cj, found_input=False, unit=u.name,
                          expected=[float(v) for v in mx], observed=xh,
                          broken="correspondence unit autoregressive-exact (Model.Bisect.autoreg = _autoregressive_bisection_search)",
                          reproducer=repro("auto"))
        elif not exact and not close:
            st["div"] += 1
            divergent.append(cj)
        elif len(u.hashes) % 80 == 5:
            ctx.sample({"case": cj, "model": [float(v) for v in mx], "implementation": xh})
    # inexact class: float noise (conditioning) legitimately moves a coordinate's root, and with it everything after it; these cases
    # are held to the oracle only and the divergence from the exact-arithmetic model is recorded
    ctx.notes.append(f"autoregressive-exact: {st['exact']} all-exact cases (equality), {st['inexact']} with inexact operations ({st['div']} beyond 1 ulp of the exact-arithmetic model; held to the oracle only)")


def bnaf_ok(io):
    return all(math.isfinite(a) and math.isfinite(c) and a <= 0.0 <= c for a, c in zip(io["gm"], io["gp"]))


def unit_bnaf(ctx, guard):
    """the clause 'which is what makes block neural autoregressive flows invertible out of the box': oracle only, low volume"""
    rng = ctx.rng
    u = ctx.unit("bnaf-roundtrip", "BlockAutoregressiveNetwork with perturbed parameters, default inverter (tol=1e-7, [-10, 10]): xh = inverse(transform(x)); "
                                   "for every coordinate i the own-coordinate equation given the found prefix changes sign on "
                                   "[xh_i - d, xh_i + d], d = 1.01e-7 + 1e-9 max(1,|xh_i|) (the statement of C10_autoreg_residual on the "
                                   "implementation; the forward error |xh - x| depends on the conditioning (1+L/m)^i and is only recorded)")
    n = 8 if ctx.quick else 60
    reqs = []
    for _ in range(n):
        reqs.append({"t": "bnaf", "seed": int(rng.integers(0, 2**31)), "dim": int(rng.integers(1, 5)), "depth": int(rng.integers(0, 3)),
                     "block_dim": int(rng.integers(1, 4)), "perturb": float(rng.choice([0.0, 0.3, 1.0, 2.0])), "xscale": float(rng.choice([0.5, 2.0, 5.0]))})
    outs = guard.run(reqs)
    worst = 0.0
    for q, io in zip(reqs, outs):
        if io.get("skipped"):
            continue
        cj = {"unit": "bnaf", **q}
        u.count(cj, nontrivial=q["perturb"] > 0, tag=f"dim{q['dim']}/depth{q['depth']}")
        if "x" not in io:
            ctx.violation(sig=f"BlockAutoregressiveNetwork.inverse:{'hang' if 'hang' in io else 'exception'}",
                          what=f"BlockAutoregressiveNetwork.inverse(transform(x)) did not return: {io}", case=cj, found_input=True, unit=u.name,
                          broken="termination on a map with a root", reproducer=repro("bnaf"))
            continue
        x = np.array([float.fromhex(v) for v in io["x"]])
        xh = np.array([float.fromhex(v) for v in io["xh"]])
        worst = max(worst, float(np.max(np.abs(x - xh))))
        if not bnaf_ok(io):
            ctx.violation(sig="BlockAutoregressiveNetwork.inverse:oracle",
                          what=f"BNAF dim {q['dim']} depth {q['depth']}: some coordinate of inverse(y) is not within tol=1e-7 of the root of its own "
                               f"equation given the found prefix: residuals at xh-d {io['gm']}, at xh+d {io['gp']} (x = {list(x)}, xh = {list(xh)})",
                          case=cj, found_input=True, unit=u.name, expected=list(x), observed=list(xh), broken="C10_autoreg_residual vs implementation",
                          reproducer=repro("bnaf"))
    ctx.notes.append(f"bnaf-roundtrip: worst forward error |inverse(transform(x)) - x| = {worst:.3g} (conditioning-dependent, recorded only)")


def unit_precond(ctx, guard):
    u = ctx.unit("preconditions", "malformed stream: AutoregressiveBisectionInverter rejects lower >= upper, tol <= 0, max_iter < 0 and "
                                  "_bisection_search rejects tol <= 0, max_iter < 0 with ValueError (the hypotheses lo < up, 0 < tol of the "
                                  "theorems); valid arguments are accepted")
    cases = [("inverter", -10.0, 10.0, 1e-7, 200, False), ("inverter", 1.0, 1.0, 1e-7, 200, True), ("inverter", 2.0, 1.0, 1e-7, 200, True),
             ("inverter", -1.0, 1.0, 0.0, 200, True), ("inverter", -1.0, 1.0, -1e-3, 200, True), ("inverter", -1.0, 1.0, 1e-3, -1, True),
             ("inverter", -1.0, 1.0, 1e-3, 0, False), ("search", -1.0, 1.0, 0.0, 10, True), ("search", -1.0, 1.0, -1.0, 10, True),
             ("search", -1.0, 1.0, 1e-3, -1, True), ("search", -1.0, 1.0, 1e-3, 0, False), ("inverter", float("nan"), 1.0, 1e-3, 5, True)]
    outs = guard.run([{"t": "precond", "what": w, "lo": lo, "up": up, "tol": tol, "max_iter": mi} for (w, lo, up, tol, mi, _) in cases])
    for (w, lo, up, tol, mi, bad), io in zip(cases, outs):
        if "raised" not in io:
            continue
        cj = {"unit": "precond", "what": w, "lo": repr(lo), "up": repr(up), "tol": tol, "max_iter": mi}
        u.count(cj, nontrivial=bad, tag="rejected" if bad else "accepted")
        if (io["raised"] == "ValueError") != bad:
            u.disagreements += 1
            ctx.violation(sig=f"preconditions:{w}", what=f"{w}(lower={lo}, upper={up}, tol={tol}, max_iter={mi}) "
                                                         f"{'was accepted' if bad else 'was rejected'}; the theorems assume lo < up, 0 < tol, max_iter >= 0",
                          case=cj, found_input=False, unit=u.name, expected="ValueError" if bad else "accepted", observed=io["raised"],
                          broken="hypotheses lo < up / 0 < tol of the C10 theorems vs argument checks of the code")


def unit_noroot(ctx):
    """documented behaviour, not part of the property (it presupposes a root): recorded, never a violation"""
    u = ctx.unit("no-root-divergence", "_adapt_interval_to_include_root on tanh(x) - 2 (increasing, bounded, NO root) under a 8 s guard: the model "
                                       "never terminates for any fuel (theorem C10_adapt_needs_root); observation recorded in the notes only")
    g2 = Guard(timeout=8, first_timeout=240)
    try:
        ans = g2._ask({"t": "noroot"}, 8)
    finally:
        g2.close()
    u.count({"unit": "noroot"}, nontrivial=True, tag="hang" if "hang" in ans else "returned")
    if "hang" in ans:
        ctx.notes.append("no-root-divergence: as the model predicts (adapt = None for every fuel), the adaptation of the code did not return within 8 s "
                         "on tanh(x) - 2 and was killed by PID; the property presupposes a root")
    else:
        ctx.notes.append(f"no-root-divergence: the implementation answered {ans} on a function without a root (the model never terminates there); "
                         "not covered by the property, recorded only")


# ====================================================================================== entry points
def run(ctx):
    guard = Guard(timeout=45 if ctx.quick else 90, first_timeout=240)
    try:
        _run(ctx, guard)
    finally:
        guard.close()
    float32_oracle(ctx)
    integer_bounds_oracle(ctx)
    factory_inverter_oracle(ctx)


def _run(ctx, guard):
    unit_eval(ctx, guard)
    unit_adapt(ctx, guard)
    unit_search(ctx, guard)
    unit_auto(ctx, guard)
    unit_oracle(ctx, guard)
    unit_bnaf(ctx, guard)
    unit_precond(ctx, guard)
    guard.close()
    unit_noroot(ctx)
    if guard.crashes:
        ctx.violation(sig="harness:worker-crash", what="the implementation worker process died: " + guard.crashes[0][-400:],
                      case={"stderr": guard.crashes[0]}, found_input=False, broken="harness worker / import of flowjax")
    if guard.hangs:
        ctx.notes.append(f"{guard.hangs} implementation call(s) hit the time-out guard and were killed by PID")
    ctx.assumptions += [
        "function values are finite and not NaN (jnp.sign(nan) leaves both loops); x64 mode",
        "the theorems are over exact real arithmetic: float rounding / resolution is not modelled (partial); the executed oracle allows "
        "2 ulp at the root's magnitude on top of max(tol, W/2^(max_iter+1))",
        "the property presupposes a root: without one the adaptation loop of the code never terminates (theorem C10_adapt_needs_root); "
        "every implementation call runs under a time-out and is killed by PID",
        "the real search is run under jax.jit with the function parameters traced and (tol, max_iter) static, plus an eager sample",
    ]


def integer_bounds_oracle(ctx):
    """`lower` / `upper` are documented as Real scalars: integer bounds (python ints, integer arrays) must give the same roots as the
    same bounds written as floats.  In-process, small maps with roots guaranteed (affine-like triangular maps).  (Seeded change
    C01d let the carried solution vector inherit an integer dtype from the bounds.)"""
    import jax.numpy as jnp
    from flowjax.bijections import Affine, Chain, TriangularAffine
    from flowjax.bisection_search import AutoregressiveBisectionInverter

    u = ctx.unit("integer-bounds", "AutoregressiveBisectionInverter(lower=int, upper=int) vs the same bounds as floats on Affine / TriangularAffine maps: "
                                   "equal roots (1e-12) and both within tol of the true preimage; non-trivial = all")
    rng = ctx.rng
    for rep in range(6 if ctx.quick else 40):
        d = int(rng.integers(1, 5))
        if rep % 2:
            A = np.tril(rng.normal(0, 0.7, (d, d)), -1) + np.diag(np.exp(rng.normal(0, 0.5, d)))
            bij = TriangularAffine(jnp.asarray(rng.normal(0, 1, d)), jnp.asarray(A))
        else:
            bij = Affine(jnp.asarray(rng.normal(0, 1, d)), jnp.asarray(np.exp(rng.normal(0, 0.7, d))))
        x = rng.normal(0, 2.5, d)
        y = bij.transform(jnp.asarray(x))
        lo, hi = int(rng.integers(-12, -1)), int(rng.integers(1, 12))
        roots = {}
        for kind, (a, b) in {"float": (float(lo), float(hi)), "python-int": (lo, hi), "int-array": (jnp.asarray(lo), jnp.asarray(hi))}.items():
            inv = AutoregressiveBisectionInverter(lower=a, upper=b, tol=1e-9, max_iter=200)
            roots[kind] = np.asarray(inv(bij, y), dtype=float)
        # the target given in float32 while the search runs in float64 (data loaded from a float32 file): the root of the equation for
        # THAT target, to the requested tolerance (seeded change C10d rounded the probe vector to the target's precision)
        y32 = jnp.asarray(np.asarray(y), dtype=jnp.float32)
        x_of_y32 = np.asarray(bij.inverse(jnp.asarray(np.asarray(y32, dtype=float))), dtype=float)
        r32 = np.asarray(AutoregressiveBisectionInverter(lower=float(lo), upper=float(hi), tol=1e-9, max_iter=200)(bij, y32), dtype=float)
        u.count((rep, "float32-target", lo, hi, x.tolist()), tag="float32-target")
        if not np.allclose(r32, x_of_y32, rtol=0, atol=2e-8 * max(1.0, float(np.max(np.abs(x_of_y32))))):
            ctx.violation(sig="integer-bounds:float32-target", what=f"AutoregressiveBisectionInverter(tol=1e-9) with a float32 target y = {np.asarray(y32).tolist()}: returns {r32.tolist()} "
                          f"but the preimage of that y is {x_of_y32.tolist()} (off by {float(np.max(np.abs(r32 - x_of_y32))):.3g})",
                          case=dict(unit="integer-bounds", kind="float32-target", lower=lo, upper=hi, y=np.asarray(y32, dtype=float).tolist(), map="TriangularAffine" if rep % 2 else "Affine"),
                          found_input=True, unit=u.name, expected=x_of_y32.tolist(), observed=r32.tolist(), broken="float32 target / C10_search_within_tol")
        # the documented argument order (lower, upper, tol, max_iter) given positionally (seeded change C10f swapped two fields: the
        # positional call then stored tol = 200, max_iter = 0)
        roots["positional"] = np.asarray(AutoregressiveBisectionInverter(float(lo), float(hi), 1e-9, 200)(bij, y), dtype=float)
        for kind in ("python-int", "int-array", "positional"):
            u.count((rep, kind, lo, hi, x.tolist()), tag=kind)
            if not (np.allclose(roots[kind], roots["float"], rtol=0, atol=1e-12) and np.allclose(roots[kind], x, rtol=0, atol=1e-6)):
                ctx.violation(sig=f"integer-bounds:{kind}", what=f"AutoregressiveBisectionInverter(lower={lo}, upper={hi}) given as {kind}: returns {roots[kind].tolist()} "
                              f"but {roots['float'].tolist()} with float bounds; the true preimage is {x.tolist()}",
                              case=dict(unit="integer-bounds", kind=kind, lower=lo, upper=hi, x=x.tolist(), map="TriangularAffine" if rep % 2 else "Affine"),
                              found_input=True, unit=u.name, expected=x.tolist(), observed=roots[kind].tolist(), broken="integer-bounds / C10_search_within_tol")


def factory_inverter_oracle(ctx):
    """block_neural_autoregressive_flow(inverter=custom, invert=...): every layer of the flow must search with the inverter the caller
    asked for (its tolerance, bounds, max_iter), in BOTH orientations, so the numerically inverted direction meets the requested
    tolerance.  Structural check + one functional round trip.  (Seeded change C10e forwarded the inverter only when invert=True.)"""
    import jax
    import jax.numpy as jnp
    import jax.random as jr
    import flowjax.flows as F
    from flowjax.bisection_search import AutoregressiveBisectionInverter
    from flowjax.distributions import StandardNormal

    u = ctx.unit("factory-inverter", "block_neural_autoregressive_flow with a custom AutoregressiveBisectionInverter (tol 1e-10, bounds +-25, max_iter 300), invert in "
                                     "{True, False}: every inverter inside the flow is the requested one; the numerically inverted direction round-trips to 1e-8")
    custom = AutoregressiveBisectionInverter(lower=-25.0, upper=25.0, tol=1e-10, max_iter=300)
    for inv in (True, False):
        flow = F.block_neural_autoregressive_flow(jr.PRNGKey(int(ctx.rng.integers(0, 2**31))), base_dist=StandardNormal((2,)), flow_layers=2, nn_block_dim=3,
                                                  invert=inv, inverter=custom)
        found = [l for l in jax.tree_util.tree_leaves(flow, is_leaf=lambda x: isinstance(x, AutoregressiveBisectionInverter)) if isinstance(l, AutoregressiveBisectionInverter)]
        u.count(("factory-inverter", inv), tag=f"invert={inv}")
        bad = [f for f in found if not (float(f.tol) == 1e-10 and int(f.max_iter) == 300 and float(np.ravel(f.lower)[0]) == -25.0 and float(np.ravel(f.upper)[0]) == 25.0)]
        errs = []
        if not found or bad:
            errs.append(f"{len(bad)} of {len(found)} inverters inside the flow are not the requested one (e.g. tol {float(bad[0].tol) if bad else None})")
        else:
            bij = flow.bijection
            x = jnp.asarray(ctx.rng.normal(0, 1, 2))
            # the numerically inverted direction: transform for invert=True, inverse for invert=False
            if inv:
                back = bij.inverse(bij.transform(x))
            else:
                back = bij.transform(bij.inverse(x))
            err = float(np.max(np.abs(np.asarray(back) - np.asarray(x))))
            if not err <= 1e-8:
                errs.append(f"round trip through the numerically inverted direction is off by {err:.3g} although tol = 1e-10 was requested")
        if errs:
            ctx.violation(sig=f"factory-inverter:invert={inv}", what=f"block_neural_autoregressive_flow(invert={inv}, inverter=AutoregressiveBisectionInverter(tol=1e-10, ...)): " + "; ".join(errs),
                          case=dict(unit="factory-inverter", invert=inv), found_input=True, unit=u.name, broken="factory-inverter (configured search tolerance is honoured)")


def float32_oracle(ctx):
    """The property in JAX's default float32 mode (the rest of this check runs in x64): separate process, no model."""
    import json as _json
    import subprocess
    import sys as _sys

    from harness import common

    u = ctx.unit("search-oracle-float32", "_bisection_search in float32 (jax_enable_x64 off) on linear / cubic / sinh shapes, roots 1e-3..3, tolerances "
                                          "1e-5..3e-9: |root - r| <= tol + 4 ulp_float32; implementation only; non-trivial = tol below float32 eps")
    n = 80 if ctx.quick else 600
    env = dict(os.environ, VERIF_REPO=common.REPO, JAX_PLATFORMS="cpu")
    env.pop("JAX_ENABLE_X64", None)
    r = subprocess.run([_sys.executable, os.path.join(common.VERIF, "harness", "c10_f32.py"), str(int(ctx.seed)), str(n)], capture_output=True, text=True,
                       timeout=900, env=env, cwd=common.REPO)
    rows = [_json.loads(l) for l in r.stdout.splitlines() if l.startswith("{")]
    if len(rows) != n:
        ctx.violation(sig="float32-oracle:crashed", what=f"float32 oracle process produced {len(rows)} of {n} results: {r.stderr[-300:]}", case=dict(unit=u.name),
                      found_input=False, unit=u.name, broken="search-oracle-float32")
    for row in rows:
        u.count(_json.dumps(row["case"], sort_keys=True), nontrivial=row["case"]["tol"] < 1.2e-7, tag=row["case"]["shape"])
        if not row["ok"]:
            c = row["case"]
            ctx.violation(sig=f"float32:{c['shape']}:tol", what=f"float32: _bisection_search on {c['shape']}(k={c['k']!r})(x - {c['r']!r}), interval [{c['lower']!r}, {c['upper']!r}], "
                          f"tol={c['tol']!r}, max_iter=200 returned {row['root']!r}: |root - r| = {row['err']:.3g} > tol + 4 ulp = {row['allowed']:.3g}",
                          case=dict(unit=u.name, **c), found_input=True, unit=u.name, expected=c["r"], observed=row["root"], broken="search-oracle-float32 / C10_search_within_tol")


def replay(ctx, rep):
    guard = Guard(timeout=120, first_timeout=240)
    try:
        return _replay(ctx, rep, guard)
    finally:
        guard.close()


def _replay(ctx, rep, guard):
    c = rep["case"]
    unit = c.get("unit")
    if unit == "search":
        cc = scalar_from_json(c)
        mreq, ireq = scalar_reqs(cc, eager=cc.get("eager", False))
        mo = ctx.model([mreq])[0]
        io = guard.run([ireq])[0]
        print("model", mo, "implementation", io)
        if "root" not in io or not mo.startswith("ok"):
            return False
        _, mroot, mai, mit, ninex = mo.split()
        root = float.fromhex(io["root"])
        orc = oracle_scalar(root, fn_root(cc["fn"]), cc["lo"], cc["up"], Fr(1, 2 ** cc["tolexp"]), cc["max_iter"])
        print("oracle", orc)
        same = Fr(root) == qparse(mroot) and io["ai"] == int(mai) and io["it"] == int(mit)
        return orc is None and (same or int(ninex) > 0)
    if unit == "adapt":
        g = fn_from_json(c["fn"])
        lo, up = Fr(float.fromhex(c["lo"])), Fr(float.fromhex(c["up"]))
        kind, P = fn_params(g)
        mo = ctx.model([f"adapt {fn_term(g)} {me(lo)} {me(up)} {FUEL}"])[0]
        io = guard.run([{"t": "adapt", "kind": kind, "P": [float(v).hex() for v in P], "lo": float(lo).hex(), "up": float(up).hex()}])[0]
        print("model", mo, "implementation", io)
        if "l" not in io:
            return False
        _, ml, mu, mn, ninex = mo.split()
        l, uu = Fr(float.fromhex(io["l"])), Fr(float.fromhex(io["u"]))
        return l <= fn_root(g) <= uu and ((l == qparse(ml) and uu == qparse(mu) and io["n"] == int(mn)) or int(ninex) > 0)
    if unit == "auto":
        cc = auto_from_json(c)
        mreq, ireq = auto_reqs(cc)
        mo = ctx.model([mreq])[0]
        io = guard.run([ireq])[0]
        print("model", mo, "implementation", io)
        if "x" not in io or not mo.startswith("ok"):
            return False
        xh = [float.fromhex(v) for v in io["x"]]
        orc = oracle_auto(cc, xh)
        print("oracle", orc)
        mx = [qparse(v) for v in mo.split()[1].split(",")]
        return orc is None and (all(Fr(a) == b for a, b in zip(xh, mx)) or int(mo.split()[2]) > 0)
    if unit == "oracle":
        f = lambda k: float.fromhex(c[k]) if isinstance(c[k], str) else float(c[k])
        io = guard.run([{"t": "osearch", "kind": c["kind"], "r": f("r").hex(), "lo": f("lo").hex(), "up": f("up").hex(), "tol": f("tol").hex(),
                         "max_iter": c["max_iter"]}])[0]
        print("implementation", io)
        if "root" not in io:
            return False
        orc = oracle_scalar(float.fromhex(io["root"]), f("r"), f("lo"), f("up"), f("tol"), c["max_iter"])
        print("oracle", orc)
        return orc is None
    if unit == "bnaf":
        io = guard.run([{k: v for k, v in c.items() if k != "unit"}])[0]
        print("implementation", io)
        if "x" not in io:
            return False
        return bnaf_ok(io)
    if unit == "precond":
        lo, up = float(c["lo"]), float(c["up"])
        io = guard.run([{"t": "precond", "what": c["what"], "lo": lo, "up": up, "tol": c["tol"], "max_iter": c["max_iter"]}])[0]
        print("implementation", io)
        bad = (not lo < up) or c["tol"] <= 0 or c["max_iter"] < 0 if c["what"] == "inverter" else (c["tol"] <= 0 or c["max_iter"] < 0)
        return "raised" in io and (io["raised"] == "ValueError") == bad
    print("obligation replay: rebuild and re-check", c)
    return False


if __name__ == "__main__":
    if len(sys.argv) >= 2 and sys.argv[1] == "--worker":
        _worker_main()
