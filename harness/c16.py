"""C16 -- training loops stop and select parameters as documented.

Tie: the real fit_to_data / fit_to_variational_target are driven by a scripted loss (lookup table indexed by
the parameter counter) and a counting optax optimiser; the returned counter and the lengths of the recorded
losses must equal the extracted Coq model's (Model/Train.v) on every history.
Oracle: the clauses of the property evaluated on the observed (dist, losses) alone (NumPy, no model).
"""

import itertools

import numpy as np

PROPERTY = "C16"
GROUPS = ["train"]
MANIFEST = {
    "design_ref": "DESIGN.md 4.16",
    "technique": "Coq proof by induction over loss histories (Model/Train.v) + exact correspondence of the extracted model with the real loops",
    "text": "Theorems (closed under the global context) about an executable Gallina model of the two training loops: for EVERY "
            "validation-loss history, patience and max_epochs the loop stops at the first patience-exhausting epoch and never earlier, "
            "records one loss pair per epoch, and returns the last / the argmin parameters; the variational loop runs exactly `steps` "
            "steps and with return_best returns the parameters the minimum loss was evaluated at. The model is tied to /repo on every "
            "run by driving the real fit_to_data / fit_to_variational_target with a scripted loss and a counting optimiser and requiring "
            "exact equality with the extracted model on all permutation histories up to L=4 (6 thorough) plus tie-containing and long ones.",
    "note": "Trusted: Coq kernel; extraction (ExtrOcamlBasic); OCaml driver; harness. Assumes losses totally ordered (no NaN); parameters "
            "identified by the number of optimiser updates. The theorems are about the model; the code is tied by sampled exact correspondence.",
}
_state = {}


def _setup():
    if _state:
        return _state
    import equinox as eqx
    import jax
    import jax.numpy as jnp
    import jax.random as jr
    import optax
    from flowjax.train import fit_to_data, fit_to_variational_target
    from flowjax.train.train_utils import count_fruitless

    class M(eqx.Module):
        p: jax.Array  # float counter: the only trainable leaf
        table: jax.Array  # int table: static (not inexact), traced -> one compilation for all histories
        base: float = eqx.field(static=True, default=0.0)   # loss = base + table[p] * scale, exactly representable for the SPACINGS below
        scale: float = eqx.field(static=True, default=1.0)

    def counting():
        return optax.GradientTransformation(
            lambda params: (), lambda g, s, params=None: (jax.tree_util.tree_map(jnp.ones_like, g), s)
        )

    def data_loss(params, static, x, condition=None, key=None):
        m = eqx.combine(params, static)
        return m.base + m.table[m.p.astype(int)].astype(float) * m.scale + 0.0 * m.p

    def var_loss(params, static, key):
        m = eqx.combine(params, static)
        return m.base + m.table[m.p.astype(int)].astype(float) * m.scale + 0.0 * m.p

    _state.update(dict(eqx=eqx, jax=jax, jnp=jnp, jr=jr, M=M, counting=counting, data_loss=data_loss, var_loss=var_loss,
                       fit_to_data=fit_to_data, fit_var=fit_to_variational_target, count_fruitless=count_fruitless))
    return _state


TLEN = 160  # fixed table length (one jit cache entry)
# How the scripted ranks become loss values (base, scale): the order is the same, the float64 values are exact, but under the
# last two neighbouring losses differ by less than float32 resolution (seeded change C16f located the minimum in single precision)
SPACINGS = [(0.0, 1.0), (1.0, 2.0 ** -40), (2.0 ** 25, 1.0), (-1.0, 1.0), (-2.0, 1.0)]  # the last two: a loss of exactly 0.0 (the minimum / the runner-up) and negative losses (seeded change C16g treated a best loss of 0.0 as unset)


def _lossval(v, sp):
    return sp[0] + float(v) * sp[1]


def _as_kind(v, kind):
    """The integer argument written as the caller might pass it: python int, NumPy integer, 0-d NumPy / jax integer array."""
    if kind == 1:
        return np.int64(v)
    if kind == 2:
        return np.asarray(v)
    if kind == 3:
        return np.int32(v)
    return int(v)


def run_data(vals, P, max_epochs, rb, nb, kinds=(0, 0), sp=(0.0, 1.0)):
    """Run the real fit_to_data; nb = training batches (= optimiser updates) per epoch.  kinds: how max_patience and
    max_epochs are typed (seeded change C16d disabled early stopping for non-`int` patience)."""
    s = _setup()
    jnp = s["jnp"]
    P, max_epochs = _as_kind(P, kinds[0]), (_as_kind(max_epochs, kinds[1]) if kinds[1] in (0, 1, 3) else int(max_epochs))
    table = np.full(TLEN, 9999, dtype=np.int64)
    for e, v in enumerate(vals, start=1):
        table[e * nb] = v
    # n_train = 3*nb rows with batch_size 3 -> nb batches; 1 validation row -> one validation batch
    n = 3 * nb + 1
    x = jnp.arange(float(n))[:, None]
    d, losses = s["fit_to_data"](
        s["jr"].PRNGKey(0), s["M"](jnp.array(0.0), jnp.asarray(table), float(sp[0]), float(sp[1])), x, loss_fn=s["data_loss"], max_epochs=max_epochs,
        max_patience=P, batch_size=3, val_prop=1.0 / n, optimizer=s["counting"](), return_best=rb, show_progress=False,
    )
    return int(d.p), [float(v) for v in losses["train"]], [float(v) for v in losses["val"]]


def run_var(vals, steps, rb, sp=(0.0, 1.0)):
    s = _setup()
    jnp = s["jnp"]
    table = np.full(TLEN, 9999, dtype=np.int64)
    table[: len(vals)] = vals
    d, losses = s["fit_var"](
        s["jr"].PRNGKey(0), s["M"](jnp.array(0.0), jnp.asarray(table), float(sp[0]), float(sp[1])), s["var_loss"], steps=steps,
        optimizer=s["counting"](), return_best=rb, show_progress=False,
    )
    return int(d.p), [float(v) for v in losses]


# ---------- the property's own clauses on the observation (independent of the model) ----------
def oracle_data(vals, P, max_epochs, rb, nb, obs, sp=(0.0, 1.0)):
    counter, train, val = obs
    n = len(val)
    avail = list(vals)[:max_epochs]
    errs = []
    if n > max_epochs:
        errs.append(f"ran {n} epochs > max_epochs {max_epochs}")
    if len(train) != n:
        errs.append(f"{len(train)} train losses for {n} validation losses")
    if val != [_lossval(v, sp) for v in avail[:n]]:
        errs.append(f"validation losses {val} are not the scripted prefix {avail[:n]}")
        return errs

    def exhausted(e):  # more than P epochs since the best validation loss (first argmin), and not a tie of the min
        pre = avail[:e]
        return pre[e - 1] != min(pre) and (e - 1 - int(np.argmin(pre))) > P

    for e in range(1, n):
        if exhausted(e):
            errs.append(f"did not stop at epoch {e} although patience was exhausted")
    if n < len(avail) and not (n >= 1 and exhausted(n)):
        errs.append(f"stopped after {n} epochs although patience {P} was not exhausted")
    if rb:
        if n == 0:
            exp = 0
        else:
            m = min(avail[:n])
            exp = (max(i for i, v in enumerate(avail[:n]) if v == m) + 1) * nb
        if counter != exp:
            errs.append(f"return_best returned the parameters after {counter} updates, the minimum validation loss was obtained after {exp}")
    elif counter != n * nb:
        errs.append(f"returned parameters after {counter} updates, last parameters are after {n * nb}")
    return errs


def oracle_var(vals, steps, rb, obs, sp=(0.0, 1.0)):
    counter, losses = obs
    errs = []
    if len(losses) != steps:
        errs.append(f"{len(losses)} losses recorded for {steps} steps")
    if losses != [_lossval(v, sp) for v in vals[:steps]]:
        errs.append(f"recorded losses {losses} are not the scripted ones {vals[:steps]}")
        return errs
    if rb:
        if steps == 0:
            exp = 0
        else:
            m = min(vals[:steps])
            exp = max(i for i, v in enumerate(vals[:steps]) if v == m)
        if counter != exp:
            errs.append(f"return_best returned the parameters after {counter} updates; the minimum loss {m if steps else None} was evaluated at the parameters after {exp} updates")
    elif counter != steps:
        errs.append(f"returned parameters after {counter} updates, expected {steps}")
    return errs


def histories(ctx):
    L = 4 if ctx.quick else 6
    hs = []
    for l in range(0, L + 1):
        for perm in itertools.permutations(range(1, l + 1)):
            hs.append(("perm", list(perm)))
    r = ctx.rng
    for _ in range(30 if ctx.quick else 300):  # ties
        l = int(r.integers(2, 8))
        hs.append(("ties", [int(v) for v in r.integers(1, 4, size=l)]))
    for _ in range(20 if ctx.quick else 300):  # long
        l = int(r.integers(7, 13))
        hs.append(("long", [int(v) for v in r.permutation(np.arange(1, l + 1))]))
    # very long histories with the minimum early and a patience in the thirties (seeded change C16e looked at the last 32 losses only)
    for _ in range(2 if ctx.quick else 12):
        l = int(r.integers(TLEN - 6, TLEN - 2))
        best_at = int(r.integers(0, 4))
        rest = [int(v) for v in r.permutation(np.arange(2, l + 1))]
        hs.append(("verylong", rest[:best_at] + [1] + rest[best_at:]))
    return hs


def run(ctx):
    hs = histories(ctx)
    r = ctx.rng
    u1 = ctx.unit("data-loop", "fit_to_data driven by scripted loss + counting optimiser vs Model.Train.fit_data_loop; "
                               "all permutations of 1..L plus tie-containing and long histories x patience x max_epochs x return_best "
                               "x batches/epoch; non-trivial = the run stops early or returns non-last parameters")
    u2 = ctx.unit("variational-loop", "fit_to_variational_target vs Model.Train.fit_var_loop; same histories x steps x return_best; "
                                      "non-trivial = minimum not at the last step")
    u3 = ctx.unit("count_fruitless", "train_utils.count_fruitless vs Model.Train.count_fruitless on histories (ties included)")
    cases, reqs = [], []
    for kind, vals in hs:
        L = len(vals)
        if kind == "perm":
            grid = list(itertools.product(range(0, L + 1), range(0, L + 1), [True, False]))  # max_epochs <= len(history)
            if ctx.quick and L >= 4:
                grid = [g for g in grid if r.random() < 0.35]
            elif not ctx.quick and L >= 6:  # 720 histories x 98 settings: sample a quarter (the full product takes ~50 min)
                grid = [g for g in grid if r.random() < 0.25]
        elif kind == "verylong":
            # patience in the thirties and above one hundred (seeded changes C16e / C16i looked at the last 32 / 100 losses only)
            grid = [(int(r.integers(28, 40)), L, bool(r.integers(0, 2))), (int(r.integers(99, 115)), L, bool(r.integers(0, 2)))]
        else:
            grid = [(int(r.integers(0, 5)), int(r.integers(0, L + 1)), bool(r.integers(0, 2))) for _ in range(3)]
        for P, m, rb in grid:
            nb = 1 if kind == "verylong" else int(r.integers(1, 3))
            cases.append(("data", kind, vals, P, m, rb, nb))
            reqs.append(f"c16.data {P} {m} {int(rb)} {','.join(map(str, vals)) or '-'}")
        steps_grid = range(0, L + 1) if kind == "perm" else [L, int(r.integers(0, L + 1))]
        for steps in steps_grid:
            for rb in (True, False):
                cases.append(("var", kind, vals, steps, rb))
                reqs.append(f"c16.var {steps} {int(rb)} {','.join(map(str, vals)) or '-'}")
        if L:
            cases.append(("cf", kind, vals))
            reqs.append(f"c16.fruitless {','.join(map(str, vals))}")
    model = ctx.model(reqs)
    s = _setup()
    for case, mout in zip(cases, model):
        if case[0] == "data":
            _, kind, vals, P, m, rb, nb = case
            kinds = (int(r.integers(0, 4)), int(r.integers(0, 2)) * 1) if r.random() < 0.3 else (0, 0)
            sp = SPACINGS[int(r.integers(0, len(SPACINGS)))] if kind != "perm" or r.random() < 0.15 else SPACINGS[0]
            obs = run_data(vals, P, m, rb, nb, kinds, sp)
            a, nt, nv = map(int, mout.split())
            exp = (a * nb, nt, nv)
            got = (obs[0], len(obs[1]), len(obs[2]))
            u1.count(case, nontrivial=(nv < min(m, len(vals)) or (rb and a != nv)), tag=kind)
            errs = oracle_data(vals, P, m, rb, nb, obs, sp)
            cj = dict(loop="fit_to_data", vals=vals, max_patience=P, max_epochs=m, return_best=rb, batches_per_epoch=nb, arg_kinds=list(kinds), spacing=list(sp))
            if len(u1.hashes) % 400 == 1:
                ctx.sample(dict(case=cj, model=exp, observed=got))
            if exp != got or errs:
                u1.disagreements += exp != got
                ctx.violation(
                    sig=f"fit_to_data:{'return_best' if rb else 'last'}:{errs[0].split(' ')[0] if errs else 'model-mismatch'}",
                    what=("; ".join(errs) if errs else f"model {exp} != implementation {got} (returned counter, #train, #val)"),
                    case=cj, found_input=bool(errs), unit=u1.name, expected=exp, observed=got,
                    broken="correspondence data-loop / theorems C16_data_*",
                    reproducer=f"cd /verif && ./check C16 --replay <this file>",
                )
        elif case[0] == "var":
            _, kind, vals, steps, rb = case
            sp = SPACINGS[int(r.integers(0, len(SPACINGS)))] if kind != "perm" or r.random() < 0.15 else SPACINGS[0]
            obs = run_var(vals, steps, rb, sp)
            a, n = map(int, mout.split())
            exp, got = (a, n), (obs[0], len(obs[1]))
            tr = vals[:steps]
            u2.count(case, nontrivial=bool(tr) and tr.index(min(tr)) != len(tr) - 1 and rb, tag=kind)
            errs = oracle_var(vals, steps, rb, obs, sp)
            cj = dict(loop="fit_to_variational_target", losses=vals, steps=steps, return_best=rb, spacing=list(sp))
            if len(u2.hashes) % 300 == 1:
                ctx.sample(dict(case=cj, model=exp, observed=got))
            if exp != got or errs:
                u2.disagreements += exp != got
                ctx.violation(
                    sig=f"fit_to_variational_target:{'return_best' if rb else 'last'}:{errs[0].split(' ')[0] if errs else 'model-mismatch'}",
                    what=("; ".join(errs) if errs else f"model {exp} != implementation {got} (returned counter, #losses)"),
                    case=cj, found_input=bool(errs), unit=u2.name, expected=exp, observed=got,
                    broken="correspondence variational-loop / theorems C16_var_*",
                    reproducer=f"cd /verif && ./check C16 --replay <this file>",
                )
        else:
            _, kind, vals = case
            sp = SPACINGS[int(r.integers(0, len(SPACINGS)))]
            got = int(s["count_fruitless"]([_lossval(v, sp) for v in vals]))
            exp = int(mout)
            u3.count(case, nontrivial=len(set(vals)) < len(vals) or exp > 0, tag=kind)
            ref = len(vals) - 1 - int(np.argmin(vals))
            if got != exp or got != ref:
                u3.disagreements += 1
                ctx.violation(sig="count_fruitless", what=f"count_fruitless({[_lossval(v, sp) for v in vals]}) = {got}, model {exp}, reference {ref}",
                              case=dict(fn="count_fruitless", vals=vals, spacing=list(sp)), found_input=got != ref, unit=u3.name, expected=exp, observed=got)
    ctx.assumptions += [
        "losses form a total order (no NaN); parameters are identified by the number of optimiser updates (counting optimiser)",
        "the scripted loss is a lookup table on the parameter counter, so the loops' own control flow is what is observed",
    ]


def replay(ctx, rep):
    c = rep["case"]
    if c.get("loop") == "fit_to_data":
        obs = run_data(c["vals"], c["max_patience"], c["max_epochs"], c["return_best"], c["batches_per_epoch"], tuple(c.get("arg_kinds", (0, 0))), tuple(c.get("spacing", (0.0, 1.0))))
        errs = oracle_data(c["vals"], c["max_patience"], c["max_epochs"], c["return_best"], c["batches_per_epoch"], obs, tuple(c.get("spacing", (0.0, 1.0))))
        m = ctx.model([f"c16.data {c['max_patience']} {c['max_epochs']} {int(c['return_best'])} {','.join(map(str, c['vals'])) or '-'}"])[0]
        a, nt, nv = map(int, m.split())
        print("observed", (obs[0], len(obs[1]), len(obs[2])), "model", (a * c["batches_per_epoch"], nt, nv), "oracle", errs)
        return not errs and (obs[0], len(obs[1]), len(obs[2])) == (a * c["batches_per_epoch"], nt, nv)
    if c.get("loop") == "fit_to_variational_target":
        obs = run_var(c["losses"], c["steps"], c["return_best"], tuple(c.get("spacing", (0.0, 1.0))))
        errs = oracle_var(c["losses"], c["steps"], c["return_best"], obs, tuple(c.get("spacing", (0.0, 1.0))))
        m = ctx.model([f"c16.var {c['steps']} {int(c['return_best'])} {','.join(map(str, c['losses'])) or '-'}"])[0]
        print("observed", (obs[0], len(obs[1])), "model", m, "oracle", errs)
        return not errs and (obs[0], len(obs[1])) == tuple(map(int, m.split()))
    if c.get("fn") == "count_fruitless":
        s = _setup()
        got = int(s["count_fruitless"]([_lossval(v, tuple(c.get("spacing", (0.0, 1.0)))) for v in c["vals"]]))
        return got == len(c["vals"]) - 1 - int(np.argmin(c["vals"]))
    print("obligation replay: rebuild and re-check", c)
    return False
