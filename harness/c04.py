"""C04 -- Flow densities integrate to one and the sampler draws from them.   (PARTIAL, see MANIFEST)

Proof side: coq/Props/C04.v (1-D change of variables, smooth and piecewise (Chasles) form, closure of the onto-R layers incl. the
            rational-quadratic spline under Chain / Invert, Tanh not onto).
Tie: log_prob of the flows the expression language covers (triangular_spline_flow, hand-built Transformed over onto-R
     layers incl. splines / TriangularAffine), 1-D and 2-D, vs the extracted Model/Dist.v -- at core AND far-tail points
     (the linear tails of LeakyTanh carry the mass the integral needs).
Search oracle (the property's own procedure, deterministic):
  * composite Gauss-Legendre quadrature of exp(log_prob): 1-D core panels of width 0.05 on [-12, 12], 12 nodes, geometric
    tails (ratio 1.5) to +-1e6 (6696 nodes), every panel bisected until it agrees with its two halves (deviation from the
    design: stacked splines can concentrate the mass in a spike narrower than a panel), |I - 1| <= 3e-3; 2-D tensor product of
    panels of width 0.1 on [-8, 8], 8 nodes, tails ratio 1.6 to +-1e5 (1728^2 points), |I - 1| <= 2e-2 -- exactly the calibration
    of design_probes/py_quad.py; when the first pass locates the bulk of the mass outside the fine core (|median| > 4 or
    IQR/1.349 outside [0.6, 4]) the same rule is applied once more in the coordinates (x - median) / scale and the better
    resolved of the two values is kept (second deviation: a perturbed planar flow put its mass around (-10, 25));
  * sampler agreement: Kolmogorov-Smirnov statistic of F(sample), F by cumulative quadrature (1-D; 2-D: first-coordinate
    marginal from the tensor grid), N = 20000 draws at a fixed key, threshold 0.0234 (1e-9 quantile) + quadrature error.
Every flow evaluation runs in worker processes under a wall-clock guard (numerical inversion of a bounded layer never
returns); workers report item by item, so a hang costs only the item in progress.
"""

import json
import math
import os
import subprocess
import sys
import threading
import time

import numpy as np

from harness import distser as ds
from harness import leaves as lv
from harness.common import fhex, fparse, hexlist

PROPERTY = "C04"
GROUPS = ["dist"]
MANIFEST = {
    "design_ref": "DESIGN.md 4.4",
    "technique": "Coquelicot proofs (1-D change of variables, inverse function theorem for the layer class, closure under Chain/Invert) + "
                 "executed correspondence of the model density with the real flows + deterministic quadrature and fixed-seed KS test on the implementation",
    "text": "PARTIAL. Proved (coq/Props/C04.v, over R): for a base with a CDF and an increasing or decreasing C1 bijection of R onto R the "
            "transformed density integrates to one (is_RInt_gen over the whole line); the class of such maps is closed under composition and "
            "inverse (inverse function theorem proved for the class); a piecewise (Chasles) form covers bijections glued from finitely many "
            "C1 pieces with kinks at the break points, closed under composition and inverse as well; Affine with any non-zero scale, Loc, "
            "Scale, LeakyTanh with the constructor's fields, the rational-quadratic spline under rqs_valid (break points = its knots, kinks "
            "at the interval ends, rqs_deriv as piecewise derivative, the coded inverse) and every Chain / Invert nesting of them belong to "
            "the class and report ln|derivative| as log-det, so exp(logp) of the MODEL of Transformed(base, b) integrates to one for every "
            "such 1-D expression in both orientations; Tanh is provably not such a map. The model is tied to the code by comparing log_prob "
            "with the extracted model on the flows the expression language covers, far tails included. NOT proved: the d >= 2 change of "
            "variables (no multivariate integration in Coquelicot), existence of the normal CDF (hypothesis; proved for the Gumbel base), "
            "and every statistical statement about the sampler. Those are covered only by the search "
            "oracle: deterministic composite Gauss-Legendre quadrature of exp(log_prob) (1-D all factories, 2-D tensor grid) and a fixed-seed "
            "Kolmogorov-Smirnov statistic of F(sample) with N = 20000 (false-alarm probability < 1e-9 by the KS law, plus quadrature error).",
    "note": "Trusted: Coq kernel, Reals/Coquelicot axioms as printed, extraction, OCaml float primitives, harness (quadrature rule, KS statistic). "
            "jr.normal is assumed to draw from the standard normal law. Float rounding is outside the theorems.",
}
LEVEL = "proof"
EXPLANATION = ("partial: the proof covers 1-D expressions over onto-R layers incl. splines (piecewise form); d >= 2 integration and sampler statistics are "
               "checked by deterministic quadrature / a fixed-seed KS test on the implementation only")

TOL_1D, TOL_2D, KS_Q = 3e-3, 2e-2, 0.0234
NKS = 20000


# ------------------------------------------------------------------ quadrature rule (design_probes/py_quad.py, verbatim)
def panels_1d(R=1e6, core=12.0, h=0.05, ratio=1.5, order=12):
    edges = list(np.arange(-core, core + 1e-12, h))
    e = core
    step = h
    out = []
    while e < R:
        step *= ratio
        out.append(min(e + step, R))
        e = out[-1]
    edges = [-v for v in reversed(out)] + edges + out
    edges = np.array(edges)
    t, w = np.polynomial.legendre.leggauss(order)
    a, b = edges[:-1, None], edges[1:, None]
    x = (a + b) / 2 + (b - a) / 2 * t[None, :]
    ww = (b - a) / 2 * w[None, :]
    return edges, x, ww


def panels_2d(h=0.1):
    return panels_1d(R=1e5, core=8.0, h=h, ratio=1.6, order=8)


# ------------------------------------------------------------------ items (self-contained, replayable)
def build_item(item):
    """item -> (distribution, condition).  Everything derives from integers / hex floats stored in the item."""
    from harness import flowcases as fc

    L = lv.lib()
    jnp = L["jnp"]
    if item["kind"] == "spec":
        return ds.make_dist(item["spec"]), None
    if item["kind"] == "planar-set":
        # planar layers with hand-set parameters (w, u, b): |w| below and above 1, w.u strongly negative (where the constraint on u acts)
        import equinox as eqx
        import flowjax.flows as F
        import flowjax.distributions as fd
        import jax
        import jax.random as jr

        flow = F.planar_flow(jr.PRNGKey(item["factory_key"]), base_dist=fd.StandardNormal((1,)), flow_layers=len(item["params"]), negative_slope=item["negative_slope"], invert=item["invert"])
        leaves, td = jax.tree_util.tree_flatten(flow)
        want = (len(item["params"]), 3)
        hit = [i for i, l in enumerate(leaves) if hasattr(l, "shape") and tuple(l.shape) == want]
        assert len(hit) == 1, f"planar parameter leaf not found ({[getattr(l, 'shape', None) for l in leaves]})"
        leaves[hit[0]] = jnp.asarray(item["params"], dtype=float)
        return jax.tree_util.tree_unflatten(td, leaves), None
    if item["kind"] == "bcast":
        # constructor broadcasting: vector loc with a python-scalar / 0-d / size-one scale (seeded change C04f kept the scale unbroadcast,
        # so the log-determinant counted it once instead of once per element; the density then integrates to scale**(1-dim))
        import flowjax.bijections as fb
        import flowjax.distributions as fd

        r = np.random.default_rng(np.random.PCG64(item["perturb_seed"]))
        form = [lambda v: float(v), lambda v: jnp.asarray(float(v)), lambda v: jnp.asarray([float(v)])][item["variant"] % 3]
        base = fd.Normal(jnp.asarray(r.normal(0, 0.5, 2)), form(np.exp(r.normal(-0.4, 0.3))))
        if item["variant"] >= 3:
            base = fd.Laplace(jnp.asarray(r.normal(0, 0.5, 2)), form(np.exp(r.normal(-0.4, 0.3))))
        bij = fb.Chain([fb.Affine(jnp.asarray(r.normal(0, 0.5, 2)), form(np.exp(r.normal(0.5, 0.3)))), fb.LeakyTanh(2.0, (2,))])
        return fd.Transformed(base, bij), None
    flow = ds.build_flow(item["flow"], item["dim"], item["cond"], item["invert"], item["factory_key"])
    rng = np.random.default_rng(np.random.PCG64(item["perturb_seed"]))
    flow = fc.perturb(flow, rng, item["scale"])
    c = None if item["cond"] is None else jnp.asarray(rng.normal(0, 1, item["cond"]))
    if item.get("mutate_activation"):  # only used by the self-test of the oracle (never on the tree under test)
        pass
    return flow, c


def _logp_fn(d, c):
    """jitted batch log_prob with a fixed chunk shape."""
    L = lv.lib()
    eqx = L["eqx"]
    f = eqx.filter_jit(lambda dd, X, cc: dd.log_prob(X, cc))
    return lambda X: np.asarray(f(d, L["jnp"].asarray(X), c), dtype=float)


def _eval_chunks(lp, X, chunk):
    """lp on X (m, dim) through calls of fixed shape (chunk, dim)."""
    m = len(X)
    out = np.empty(m)
    for i in range(0, m, chunk):
        blk = X[i:i + chunk]
        k = len(blk)
        if k < chunk:
            blk = np.concatenate([blk, np.repeat(blk[:1], chunk - k, axis=0)])
        out[i:i + k] = lp(blk)[:k]
    return out


def adaptive_1d(lp, shape, chunk, max_depth=18, abs_tol=2e-8, rel_tol=1e-7):
    """The calibrated panels of panels_1d, each bisected (deterministically) until the 12-node Gauss-Legendre value of a panel
    agrees with the sum over its two halves; returns sorted panel edges (left, right) and panel integrals.  Needed because
    stacked splines with steep derivatives can put most of the mass into a spike much narrower than a 0.05 panel."""
    edges, _, _ = panels_1d()
    t, wt = np.polynomial.legendre.leggauss(12)

    def panel_int(a, b):
        X = (a + b)[:, None] / 2 + (b - a)[:, None] / 2 * t[None, :]
        dens = np.exp(_eval_chunks(lp, X.reshape((-1,) + shape), chunk)).reshape(X.shape)
        dens = np.where(np.isfinite(dens), dens, 0.0)
        return np.sum(dens * wt[None, :], axis=1) * (b - a) / 2

    a, b = edges[:-1].copy(), edges[1:].copy()
    I = panel_int(a, b)
    fa, fb, fi = [], [], []
    unresolved = 0
    for depth in range(max_depth + 1):
        if len(a) == 0:
            break
        mid = (a + b) / 2
        Il, Ir = panel_int(a, mid), panel_int(mid, b)
        ok = np.abs(Il + Ir - I) <= abs_tol + rel_tol * np.abs(Il + Ir)
        if depth == max_depth:
            unresolved = int(np.sum(~ok))
            ok[:] = True
        for aa, bb, ii in ((a[ok], mid[ok], Il[ok]), (mid[ok], b[ok], Ir[ok])):
            fa.append(aa)
            fb.append(bb)
            fi.append(ii)
        na = np.concatenate([a[~ok], mid[~ok]])
        nb = np.concatenate([mid[~ok], b[~ok]])
        ni = np.concatenate([Il[~ok], Ir[~ok]])
        a, b, I = na, nb, ni
    fa, fb, fi = np.concatenate(fa), np.concatenate(fb), np.concatenate(fi)
    order = np.argsort(fa)
    return fa[order], fb[order], fi[order], unresolved


def quad_item_1d(item, emit=lambda r: None):
    """integral of exp(log_prob) and KS statistic of F(sample) for a 1-D distribution (shape (1,) or ()).  `emit` gets the
    integral as soon as it is known (the sampling direction may be the one that never returns)."""
    L = lv.lib()
    jr = L["jr"]
    d, c = build_item(item)
    shape = tuple(d.shape)
    edges, x, w = panels_1d()
    lp = _logp_fn(d, c)
    n = x.size
    dens = np.exp(lp(x.reshape((n,) + shape))).reshape(x.shape)
    dens = np.where(np.isfinite(dens), dens, 0.0)
    fixed = float(np.sum(w * dens))                                   # the calibrated non-adaptive rule (reported)
    pa, pb, panel_mass, unresolved = adaptive_1d(lp, shape, n)
    integral = float(np.sum(panel_mass))
    res = dict(integral=integral, integral_fixed_grid=fixed, nodes=int(n), panels=int(len(pa)), unresolved_panels=unresolved)
    emit(dict(res, partial=True))
    if item.get("ks", True):
        key = jr.PRNGKey(item["sample_key"])
        s = np.asarray(d.sample(key, (NKS,), c) if c is not None else d.sample(key, (NKS,)), dtype=float).reshape(-1)
        fin = np.isfinite(s)
        res["nonfinite_samples"] = int(np.sum(~fin))
        s = np.clip(np.where(fin, s, 0.0), pa[0], pb[-1])
        cum = np.concatenate([[0.0], np.cumsum(panel_mass)])
        k = np.clip(np.searchsorted(pa, s, side="right") - 1, 0, len(pa) - 1)
        a = pa[k]
        t6, w6 = np.polynomial.legendre.leggauss(6)
        xs = a[:, None] + (s - a)[:, None] * (t6[None, :] + 1) / 2
        part = np.exp(_eval_chunks(lp, xs.reshape((-1,) + shape), n)).reshape(xs.shape)
        part = np.where(np.isfinite(part), part, 0.0)
        F = cum[k] + np.sum(part * w6[None, :], axis=1) * (s - a) / 2
        u = np.sort(F)
        i = np.arange(1, NKS + 1)
        res["ks"] = float(max(np.max(i / NKS - u), np.max(u - (i - 1) / NKS)))
        res["sample_mean"] = float(np.mean(s))
    return res


def _tensor_2d(lp, h, center=(0.0, 0.0), scale=(1.0, 1.0)):
    """tensor-product rule on center + scale * (calibrated panels); returns the panel edges of coordinate 0, the panel masses and
    node values of its marginal density, the integral and the first two moments of both coordinates."""
    edges, x, w = panels_2d(h)
    u, wu = x.ravel(), w.ravel()
    n = len(u)
    x0, x1 = center[0] + scale[0] * u, center[1] + scale[1] * u
    w0, w1 = scale[0] * wu, scale[1] * wu
    rows = max(1, 220000 // n)                    # x-nodes per call: fixed shape (rows * n, 2)
    marg0 = np.empty(n)                           # marginal density of coordinate 0 at its nodes
    marg1 = np.zeros(n)
    for i in range(0, n, rows):
        xi, wi = x0[i:i + rows], w0[i:i + rows]
        k = len(xi)
        if k < rows:
            xi = np.concatenate([xi, np.repeat(xi[:1], rows - k)])
            wi = np.concatenate([wi, np.zeros(rows - k)])
        pts = np.stack([np.repeat(xi, n), np.tile(x1, rows)], -1)
        dens = np.exp(lp(pts)).reshape(rows, n)
        dens = np.where(np.isfinite(dens), dens, 0.0)
        marg0[i:i + k] = (dens @ w1)[:k]
        marg1 += wi @ dens
    I = float(np.sum(w0 * marg0))
    mom = []                                      # robust location / scale of each coordinate: median and IQR / 1.349
    for xx, ww, mm in ((x0, w0, marg0), (x1, w1, marg1)):
        cumw = np.cumsum(ww * mm)
        tot = cumw[-1] if cumw[-1] > 0 else 1.0
        q = [float(xx[min(int(np.searchsorted(cumw, p * tot)), n - 1)]) for p in (0.25, 0.5, 0.75)]
        mom.append((q[1], (q[2] - q[0]) / 1.349))
    panel_mass = np.sum((w0 * marg0).reshape(x.shape), axis=1)
    return center[0] + scale[0] * edges, panel_mass, n, marg0.reshape(x.shape), I, mom


def _panel_cdf(edges, panel_mass, marg, s):
    """CDF of the first coordinate at the points s: complete panels + the integral, from the panel's left edge to s, of the
    polynomial that interpolates the marginal density at the panel's Gauss-Legendre nodes (exact for the quadrature rule)."""
    from numpy.polynomial import legendre as Lg

    order = marg.shape[1]
    t, _ = Lg.leggauss(order)
    coef = marg @ np.linalg.inv(Lg.legvander(t, order - 1)).T          # (panels, order) Legendre coefficients
    icoef = np.stack([Lg.legint(cf, lbnd=-1) for cf in coef])           # antiderivative vanishing at -1
    cum = np.concatenate([[0.0], np.cumsum(panel_mass)])
    k = np.clip(np.searchsorted(edges, s, side="right") - 1, 0, len(edges) - 2)
    a, b = edges[k], edges[k + 1]
    tl = np.clip((2 * s - a - b) / (b - a), -1.0, 1.0)
    part = np.sum(Lg.legvander(tl, order) * icoef[k], axis=1) * (b - a) / 2
    return cum[k] + part


def quad_item_2d(item, emit=lambda r: None):
    """tensor-product quadrature of exp(log_prob) for a 2-D distribution; KS of the first coordinate's marginal.  The calibrated
    grid resolves 0.1 only on [-8, 8]^2; when the first pass locates the bulk elsewhere (or much narrower / wider) the same rule is
    applied a second time in the coordinates (x - median) / (IQR / 1.349) and the better resolved value is kept."""
    L = lv.lib()
    jr = L["jr"]
    d, c = build_item(item)
    lp = _logp_fn(d, c)
    edges, panel_mass, n, marg, I, mom = _tensor_2d(lp, 0.1)
    res = dict(integral=I, nodes=int(n) ** 2, mean=[m for m, _ in mom], std=[sd for _, sd in mom])
    off_core = any(abs(m) > 4.0 or not (0.6 <= sd <= 4.0) for m, sd in mom)
    if abs(I - 1.0) > TOL_2D / 4 or off_core:
        # the calibrated grid is fine (0.1) only on [-8, 8]^2: when the mass sits elsewhere or is much narrower / wider, the same
        # rule is applied once more in the coordinates (x - mean) / std estimated from the first pass (deviation from DESIGN 4.4)
        res["integral_calibrated_grid"] = I
        center = [m if math.isfinite(m) else 0.0 for m, _ in mom]
        scale = [min(max(sd, 0.02), 1e3) if math.isfinite(sd) and sd > 0 else 1.0 for _, sd in mom]
        e2, pm2, n, marg2, I2, mom2 = _tensor_2d(lp, 0.1, center, scale)
        res.update(nodes=2 * int(n) ** 2, recentred=dict(center=center, scale=scale, integral=I2))
        if abs(I2 - 1.0) <= abs(I - 1.0):          # two quadratures of the same integral: keep the better resolved one
            edges, panel_mass, marg, I = e2, pm2, marg2, I2
            res["integral"] = I2
    emit(dict(res, partial=True))
    if item.get("ks", True):
        key = jr.PRNGKey(item["sample_key"])
        s = np.asarray(d.sample(key, (NKS,), c) if c is not None else d.sample(key, (NKS,)), dtype=float)[:, 0]
        s = np.clip(np.where(np.isfinite(s), s, 0.0), edges[0], edges[-1])
        F = _panel_cdf(edges, panel_mass, marg, s)
        u = np.sort(F)
        i = np.arange(1, NKS + 1)
        res["ks"] = float(max(np.max(i / NKS - u), np.max(u - (i - 1) / NKS)))
    return res


def worker(payload):
    """Runs in a separate process: one JSON line per finished item (flushed), so that a hang loses one item only."""
    for idx, item in enumerate(payload["items"]):
        t0 = time.time()
        sys.stdout.write("@@START@@" + json.dumps(dict(idx=idx)) + "\n")
        sys.stdout.flush()
        def emit(r, idx=idx, t0=t0):
            r.update(idx=idx, wall=round(time.time() - t0, 1))
            sys.stdout.write("@@ITEM@@" + json.dumps(r) + "\n")
            sys.stdout.flush()
        try:
            res = quad_item_1d(item, emit) if item["dim"] == 1 else quad_item_2d(item, emit)
        except Exception as e:  # a crash of one item is reported, the others still run
            res = dict(error=f"{type(e).__name__}: {str(e)[:300]}")
        res.update(idx=idx, wall=round(time.time() - t0, 1))
        sys.stdout.write("@@ITEM@@" + json.dumps(res) + "\n")
        sys.stdout.flush()
        lv.lib()["jax"].clear_caches()   # one executable per flow: keep the process small
    return dict(done=True)


class Guarded:
    """worker process (reader threads drain its pipes from the start); kill BY PID on timeout; partial results survive."""

    def __init__(self, payload):
        self.p = ds.start_guarded("c04", "worker", payload)

    def finish(self, deadline):
        self.p.t_out.join(max(1.0, deadline - time.time()))
        timed_out = self.p.t_out.is_alive()
        if timed_out:
            self.p.kill()
            self.p.t_out.join(10)
        items, started = {}, set()
        for line in list(self.p.out_lines):
            if line.startswith("@@ITEM@@"):
                r = json.loads(line[len("@@ITEM@@"):])
                items[r["idx"]] = r
            elif line.startswith("@@START@@"):
                started.add(json.loads(line[len("@@START@@"):])["idx"])
        return items, started, timed_out, ("".join(self.p.err_chunks))[-800:]


# ------------------------------------------------------------------ item lists
def flow_item(name, dim, cond, inv, rng, scale=0.5, ks=True):
    return dict(kind="flow", flow=name, dim=dim, cond=cond, invert=inv, factory_key=int(rng.integers(0, 2**31)),
                perturb_seed=int(rng.integers(0, 2**31)), scale=scale, sample_key=int(rng.integers(0, 2**31)), ks=ks)


def spec_item(rng, dim, shape):
    """hand-built Transformed over onto-R layers (splines, negative scales, LeakyTanh, Invert, TriangularAffine ...)."""
    ds.MILD[0] = dim == 2     # the fixed 2-D tensor grid resolves only features of about a panel width (1-D is adaptive)
    try:
        while True:
            spec = ds.gen_dist_spec(rng, shape, depth=int(rng.integers(1, 3 if dim == 2 else 4)), nest=int(rng.integers(1, 3)))
            if spec["base"] in ("stdnormal", "normal") and all(_onto(s) for s in spec["layers"]):
                return dict(kind="spec", spec=spec, dim=dim, sample_key=int(rng.integers(0, 2**31)), ks=True)
    finally:
        ds.MILD[0] = False


def _onto(s):
    op = s["op"]
    if op == "leaf":
        return s["leaf"]["kind"] in ("affine", "scale", "loc", "leaky", "rqs")
    if op in ("vrqs", "tri", "perm", "flip"):
        return True
    if op == "invert":
        return _onto(s["item"])
    return all(_onto(i) for i in s["items"])


def make_items(ctx):
    rng = ctx.rng
    names = [n for n in ds.FACTORIES if n != "bnaf"]
    if ctx.quick:
        main_items, sd = [], ctx.seed
        for j, n in enumerate(names):
            if n == "coupling":
                continue  # needs dim >= 2
            for r in range(2):   # both orientations of every factory; conditional / unconditional alternate with the seed
                main_items.append(flow_item(n, 1, 2 if (j + r + sd) % 2 == 0 else None, r == 0, rng))
        main_items.append(spec_item(rng, 1, ()))
        main_items.append(spec_item(rng, 1, (1,)))
        # planar layers far from their 0.01-scale initialisation (|w| of order 1: the invertibility constraint on u is then active; seeded change
        # C04g divided by |w| instead of |w|^2 there): ONE hand-set extreme layer composed with a benign one (two extreme layers give spikes
        # narrower than the quadrature panels resolve - a false alarm of the sweep with seed 7919), both activations
        for ns in (None, 0.5):
            wv = [(0.4, -14.0), (2.0, 1.0), (0.5, -9.0), (3.0, -2.5), (0.3, -20.0), (1.5, -3.0), (0.25, -8.0)][int(rng.integers(0, 7))]
            main_items.append(dict(kind="planar-set", dim=1, cond=None, params=[[wv[0], wv[1], 0.5], [1.0, 0.5, -0.3]], negative_slope=ns, invert=True if ns is None else bool(rng.integers(0, 2)),
                                   factory_key=int(rng.integers(0, 2**31)), sample_key=int(rng.integers(0, 2**31)), ks=ns is not None))  # tanh planar: no analytic inverse, density only
        main_items.append(dict(kind="bcast", dim=2, variant=int(rng.integers(0, 6)), perturb_seed=int(rng.integers(0, 2**31)), sample_key=int(rng.integers(0, 2**31)), ks=True))
        two = [("coupling", None, True), ("maf-rqs", None, False), ("triangular-spline", 2, True), ("planar", None, False), ("maf-affine", 2, True)]
        for q in (0, 2):
            t = two[(sd + q) % 5]
            main_items.append(flow_item(t[0], 2, t[1], t[2], rng, scale=0.2, ks=True))
        # order: the item that needs no numerical inversion first, so that a non-terminating inversion cannot hide it
        bnaf_items = [flow_item("bnaf", 2, None, True, rng, scale=0.2, ks=False), flow_item("bnaf", 1, None, True, rng),
                      flow_item("bnaf", 1, 2 if sd % 2 else None, False, rng), flow_item("bnaf-deep", 1, 2, True, rng, scale=0.3)]
    else:
        main_items, bnaf_items = [], []
        for n in names:
            for cond in (None, 2):
                for inv in (True, False):
                    if n != "coupling":
                        for rep in range(4):
                            main_items.append(flow_item(n, 1, cond, inv, rng))
                    for rep in range(2):
                        main_items.append(flow_item(n, 2, cond, inv, rng, scale=0.2))
        for i in range(16):
            main_items.append(spec_item(rng, 1, [(), (1,)][i % 2]))
        for i in range(4):
            main_items.append(spec_item(rng, 2, (2,)))
        for ns in (None, 0.5):
            for wv in [(0.4, -14.0), (2.0, 1.0), (0.5, -9.0), (3.0, -2.5), (0.3, -20.0), (1.5, -3.0), (0.25, -8.0)]:
                main_items.append(dict(kind="planar-set", dim=1, cond=None, params=[[wv[0], wv[1], 0.5], [1.0, 0.5, -0.3]], negative_slope=ns, invert=True if ns is None else bool(rng.integers(0, 2)),
                                       factory_key=int(rng.integers(0, 2**31)), sample_key=int(rng.integers(0, 2**31)), ks=ns is not None))
        for v in range(6):
            main_items.append(dict(kind="bcast", dim=2, variant=v, perturb_seed=int(rng.integers(0, 2**31)), sample_key=int(rng.integers(0, 2**31)), ks=True))
        bnaf_items.append(flow_item("bnaf", 2, None, True, rng, scale=0.2, ks=False))
        bnaf_items.append(flow_item("bnaf", 2, 2, True, rng, scale=0.2, ks=False))
        for rep in range(2):
            for cond in (None, 2):
                for inv in (True, False):
                    bnaf_items.append(flow_item("bnaf", 1, cond, inv, rng))
    return main_items, bnaf_items


def judge(ctx, unit_q, unit_ks, item, res):
    """thresholds of DESIGN 4.4 on one finished item."""
    name = item.get("flow", {"bcast": "ctor-broadcast", "planar-set": "planar(hand-set w,u,b)"}.get(item.get("kind"), "hand-built"))
    tag = f"{name}:dim{item['dim']}:inv{item.get('invert')}:cond{item.get('cond') is not None}"
    if "error" in res:
        ctx.violation(sig=f"quadrature:{name}:crash", what=f"{tag}: evaluation raised {res['error']}", case=item, found_input=True, unit=unit_q.name,
                      expected="a density", observed=res["error"], broken="quadrature oracle")
        return
    I = res["integral"]
    tol = TOL_1D if item["dim"] == 1 else TOL_2D
    unit_q.count(json.dumps(item, sort_keys=True), nontrivial=True, tag=tag)
    ctx.sample(dict(item={k: item[k] for k in item if k != "spec"}, integral=I, ks=res.get("ks"), seconds=res.get("wall")))
    if not abs(I - 1.0) <= tol:
        ctx.violation(sig=f"integral:{name}:dim{item['dim']}", what=f"{tag}: exp(log_prob) integrates to {I:.6f} over R^{item['dim']} (composite Gauss-Legendre, "
                      f"{res['nodes']} nodes, tails to 1e{6 if item['dim'] == 1 else 5}); |I - 1| > {tol}", case=item, found_input=True, unit=unit_q.name,
                      expected=1.0, observed=I, broken="density integrates to one (C04_flow_1d_integrates_to_one_partial / quadrature oracle)",
                      reproducer="cd /verif && ./check C04 --replay <this file>")
    if "ks" in res:
        unit_ks.count(json.dumps(item, sort_keys=True), nontrivial=True, tag=tag)
        thr = KS_Q + abs(I - 1.0) + (0.0 if item["dim"] == 1 else 5e-3)
        if not res["ks"] <= thr or res.get("nonfinite_samples", 0) > 0:
            ctx.violation(sig=f"sampler:{name}:dim{item['dim']}", what=f"{tag}: Kolmogorov-Smirnov statistic of F(sample) = {res['ks']:.4f} > {thr:.4f} "
                          f"(N = {NKS}, key {item['sample_key']}, F by cumulative quadrature of exp(log_prob); non-finite samples: {res.get('nonfinite_samples', 0)}): "
                          "the sampler does not draw from the density log_prob reports", case=item, found_input=True, unit=unit_ks.name,
                          expected=f"<= {thr:.4f}", observed=res["ks"], broken="sampler draws from exp(log_prob) (KS oracle)",
                          reproducer="cd /verif && ./check C04 --replay <this file>")


# ------------------------------------------------------------------ the tie: density of covered flows vs the model
def unit_tie(ctx):
    from harness import c03

    L = lv.lib()
    jnp = L["jnp"]
    rng = ctx.rng
    u = ctx.unit("density-tie", "log_prob of the flows the expression language covers (triangular_spline_flow dims 1-2, both orientations, "
                                "with/without condition; hand-built Transformed over onto-R layers in 1-D and 2-D) vs extracted Model/Dist.v logp at core "
                                "points AND far-tail points (+-20, +-1e3, +-1e5); non-trivial = finite log_prob")
    jobs, reqs = [], []
    cfgs = [("triangular-spline", 1, None, True), ("triangular-spline", 2, 2, False)] if ctx.quick else \
        ds.all_configs(("triangular-spline",), dims=(1, 2))
    dists = []
    for name, dim, cond, inv, flow, tol, kint in ds.flows(ctx, cfgs, scale=0.5):
        c = None if cond is None else jnp.asarray(rng.normal(0, 1, cond))
        inner, _ = c03._strip_invert(flow.bijection)
        try:
            t = " ".join(["T", "N"] + (["I"] if inv else []) + ds.ser_bij(inner, c))
        except ds.Unsupported as e:
            ctx.notes.append(f"density-tie: not serialisable: {e}")
            continue
        dists.append((dict(flow=name, dim=dim, cond=None if c is None else [fhex(v) for v in np.ravel(c)], invert=inv, factory_key=kint), flow, c, t, (dim,)))
    for i in range(3 if ctx.quick else 24):
        it = spec_item(rng, 1 + i % 2, [(), (2,), (1,), (2,)][i % 4])
        d = ds.make_dist(it["spec"])
        dists.append((dict(spec=it["spec"]), d, None, " ".join(ds.ser_dist(d)), tuple(d.shape)))
    for meta, d, c, t, shape in dists:
        n = int(np.prod(shape)) if shape else 1
        pts = [rng.normal(0, 2.0, n) for _ in range(6)]
        for far in (20.0, -20.0, 1e3, -1e3, 1e5, -1e5):
            v = rng.normal(0, 2.0, n)
            v[int(rng.integers(0, n))] = far
            pts.append(v)
        X = np.stack(pts).reshape((len(pts),) + shape)
        lpN = c03.eval_dist(d, X, c, [0])[0]
        for i in range(len(pts)):
            jobs.append((meta, pts[i], float(lpN[i, 0]), c03._sens(lpN[i])))
            reqs.append(f"logp {hexlist(pts[i])} {t}")
    outs = ctx.model(reqs, "dist")
    for (meta, x, iv, sens), line in zip(jobs, outs):
        mv = c03._to_minf(fparse(line)) if not line.startswith("ERR") else float("nan")
        u.count((str(meta), [fhex(v) for v in x]), nontrivial=math.isfinite(iv), tag=("tail" if np.max(np.abs(x)) >= 20 else "core") + f":dim{len(x)}")
        if not c03._close(mv, iv, c03._tol(iv, sens)):
            u.disagreements += 1
            ctx.violation(sig="density-tie:model-mismatch", what=f"log_prob: model {mv!r} != implementation {iv!r} at x = {x.tolist()} on {str(meta)[:200]}",
                          case=dict(meta, x=[fhex(v) for v in x], unit="density-tie"), found_input=False, unit=u.name, expected=mv, observed=iv,
                          broken="correspondence of Model/Dist.v logp with the real flow density (C04_flow_1d_integrates_to_one_partial is about this model)")


def batched_condition_sampler_unit(ctx):
    """The sampler draws from the density ALSO when the condition is batched (the documented way to draw one sample per condition
    row): with N copies of one condition in a single call the N draws are an i.i.d. sample of that conditional law -- in particular all
    distinct, and their empirical CDF matches a sample drawn with sample_shape (N,) at the unbatched condition (two-sample KS).
    (Seeded change C04e gave every condition row the same base noise.)"""
    import jax.numpy as jnp
    import jax.random as jr
    from harness import flowcases as fc

    u = ctx.unit("batched-condition-sampler", "conditional flows: sample(key, (), condition = N copies of c) vs sample(key', (N,), condition = c): all draws "
                                              "distinct and two-sample KS below 0.075 (N = 4000 each: the 1e-9 quantile; first coordinate)")
    N = 4000
    for name, dim, cond, flow, _ in fc.flows(ctx, dims=(1, 2), conds=(2,)):
        if name == "bnaf":
            continue
        c = jnp.asarray(ctx.rng.normal(0, 1, cond))
        k1, k2 = jr.split(jr.PRNGKey(int(ctx.rng.integers(0, 2**31))))
        a = np.asarray(flow.sample(k1, (), condition=jnp.tile(c, (N, 1))), dtype=float)[:, 0]
        b = np.asarray(flow.sample(k2, (N,), condition=c), dtype=float)[:, 0]
        u.count((name, dim), tag=name)
        n_dist = len(np.unique(a))
        allv = np.sort(np.concatenate([a, b]))
        ks = float(np.max(np.abs(np.searchsorted(np.sort(a), allv, side="right") / N - np.searchsorted(np.sort(b), allv, side="right") / N)))
        if n_dist < N or ks > 0.075:
            ctx.violation(sig=f"batched-condition-sampler:{name}", what=f"{name} (dim {dim}): sample with {N} copies of one condition in one call gives {n_dist} distinct draws; "
                          f"two-sample KS against sample_shape ({N},) at that condition = {ks:.3f} (threshold 0.075): the draws are not an i.i.d. sample of the conditional law",
                          case=dict(unit="batched-condition-sampler", flow=name, dim=dim, condition=np.asarray(c).tolist()), found_input=True, unit=u.name,
                          broken="sampler draws from the density (batched condition)")


def run(ctx):
    batched_condition_sampler_unit(ctx)
    uq = ctx.unit("quadrature-oracle", "deterministic composite Gauss-Legendre quadrature of exp(log_prob): 1-D (6696 nodes, tails to +-1e6, |I-1| <= 3e-3) "
                                       "for flows of every factory (quick: one configuration per factory, orientation / condition rotating with the seed) and "
                                       "hand-built Transformed; 2-D tensor grid (1728^2 points, |I-1| <= 2e-2); parameters perturbed N(0, 0.5^2) (2-D: 0.2^2)")
    uk = ctx.unit("sampler-ks-oracle", "fixed-key Kolmogorov-Smirnov statistic of F(sample), F by cumulative quadrature (2-D: first-coordinate marginal), "
                                       f"N = {NKS}, threshold {KS_Q} + quadrature error")
    main_items, bnaf_items = make_items(ctx)
    budget = 200 if ctx.quick else 2200
    t0 = time.time()
    gm = Guarded(dict(items=main_items))
    gb = Guarded(dict(items=bnaf_items))
    unit_tie(ctx)                                     # runs beside the two workers
    for g, items, label in ((gm, main_items, "flows"), (gb, bnaf_items, "bnaf")):
        todo = list(range(len(items)))                # indices into `items` still without a result
        for attempt in range(4):
            got, started, timed_out, err = g.finish(t0 + budget)
            sub = todo                                # the worker numbered its items 0..len(todo)-1
            missing = []
            for j, idx in enumerate(sub):
                item = items[idx]
                if j in got:
                    judge(ctx, uq, uk, item, got[j])
                    if got[j].get("partial") and timed_out:
                        ctx.violation(sig=f"sampler:{item.get('flow', 'hand-built')}:timeout", what=f"sampling {NKS} points from {item.get('flow', 'hand-built')} dim {item['dim']} "
                                      f"invert={item.get('invert')} did not return within the wall-clock guard (the density integrated to {got[j]['integral']:.6f}): "
                                      "the numerically inverted direction does not terminate", case=item, found_input=False, unit=uk.name,
                                      broken="KS oracle (guarded evaluation)")
                    elif got[j].get("partial"):
                        missing.append(idx)           # the process died during the sampling part: run the item again
                elif j in started and timed_out:
                    ctx.violation(sig=f"quadrature:{item.get('flow', 'hand-built')}:timeout", what=f"evaluation of {item.get('flow', 'hand-built')} dim {item['dim']} "
                                  f"invert={item.get('invert')} did not return within the wall-clock guard ({budget}s for the whole list): a numerically inverted "
                                  "direction that never terminates (the layer is not onto R?)", case=item, found_input=False, unit=uq.name,
                                  broken="quadrature / KS oracle (guarded evaluation)")
                elif timed_out:
                    ctx.notes.append(f"{label}: item {idx} not reached before the wall-clock limit")
                else:
                    missing.append(idx)
            if not missing or timed_out:
                break
            if attempt == 3:
                ctx.violation(sig=f"quadrature:{label}:worker-crash", what=f"worker processes ended 4 times without a result for items {missing[:5]}: {err[-300:]}",
                              case=items[missing[0]], found_input=False, unit=uq.name, broken="quadrature oracle (worker)")
                break
            ctx.notes.append(f"{label}: worker ended early ({err[-80:].strip()!r}); restarted for {len(missing)} items")
            todo = missing
            g = Guarded(dict(items=[items[i] for i in todo]))
    ctx.assumptions += [
        "jr.normal draws from the standard normal law (the KS test compares the sampler with the density log_prob reports, not with an external reference)",
        "quadrature calibrated on the unchanged tree (design_probes/py_quad.py): 1-D |I-1| <= 1.1e-3, 2-D <= 7e-3; thresholds 3e-3 / 2e-2",
        "KS threshold 0.0234 = 1e-9 quantile of the Kolmogorov law for N = 20000, plus the measured quadrature error",
        "theorems are over R and 1-D; splines are covered by the piecewise form; d >= 2 and all sampler statistics rest on the oracle only (partial)",
    ]


def replay(ctx, rep):
    c = rep["case"]
    if c.get("unit") == "density-tie":
        print("density-tie replay: re-run ./check C04 (seeded)")
        return False
    if "kind" not in c:
        print("not an item replay", c)
        return False
    g = Guarded(dict(items=[c]))
    got, started, timed_out, err = g.finish(time.time() + 900)
    if 0 not in got:
        print("no result", "timeout" if timed_out else err)
        return False
    r = got[0]
    print(r)
    if "error" in r:
        return False
    tol = TOL_1D if c["dim"] == 1 else TOL_2D
    ok = abs(r["integral"] - 1.0) <= tol
    if "ks" in r:
        ok = ok and r["ks"] <= KS_Q + abs(r["integral"] - 1.0) + (0.0 if c["dim"] == 1 else 5e-3) and r.get("nonfinite_samples", 0) == 0
    return ok
