"""Shared by C03 / C04: serialiser real flowjax distribution / bijection object -> term of coq/Model/Dist.v
(token stream for ocaml/bin/dist), builders of real objects from JSON-able specs (replayable), flow factories in both
orientations, and a wall-clock-guarded subprocess runner for calls that may not return.

The serialiser walks the object AFTER `unwrap` (so reparameterisations stay on the implementation side) and reads only
public fields.  Anything outside the model's expression language raises Unsupported (the caller falls back to the
property's own oracle)."""

import json
import os
import subprocess
import sys

import numpy as np

from harness import leaves as lv
from harness.common import fhex, fparse, hexlist


class Unsupported(Exception):
    pass


def _f(a):
    return np.asarray(a, dtype=float)


def _size(shape):
    return int(np.prod(shape)) if len(shape) else 1


def _bc(a, shape):
    return np.broadcast_to(_f(a), shape).ravel()


# ------------------------------------------------------------------ bijections -> tokens
def _leaf_tokens(u, i, n):
    """tokens of coordinate i (flat, C order) of the elementwise leaf bijection u (already unwrapped), or None."""
    B = lv.lib()["B"]
    shape = tuple(u.shape)
    if type(u) is B.Affine:
        return ["A", fhex(_bc(u.loc, shape)[i]), fhex(_bc(u.scale, shape)[i])]
    if type(u) is B.Loc:
        return ["L", fhex(_bc(u.loc, shape)[i])]
    if type(u) is B.Scale:
        return ["S", fhex(_bc(u.scale, shape)[i])]
    if type(u) is B.Exp:
        return ["X"]
    if type(u) is B.SoftPlus:
        return ["SP"]
    if type(u) is B.Tanh:
        return ["TH"]
    if type(u) is B.LeakyTanh:
        return ["LK", fhex(u.max_val), fhex(u.linear_grad), fhex(u.intercept)]
    if type(u) is B.RationalQuadraticSpline:
        if shape != ():
            raise Unsupported("spline with a shape")
        return _rqs_tokens(u.x_pos, u.y_pos, u.derivatives, u.interval)
    return None


def _rqs_tokens(xp, yp, dv, interval):
    return ["R", hexlist(_f(xp)), hexlist(_f(yp)), hexlist(_f(dv)), fhex(interval[0]), fhex(interval[1])]


def ser_bij(b, condition=None):
    """Token list of the model term of bijection b (any wrappers are unwrapped first)."""
    L = lv.lib()
    B, eqx, jax = L["B"], L["eqx"], L["jax"]
    u = L["unwrap"](b)
    shape = tuple(u.shape)
    n = _size(shape)
    t = type(u)
    if t in (B.Affine, B.Loc, B.Scale, B.Exp, B.SoftPlus, B.Tanh, B.LeakyTanh, B.RationalQuadraticSpline):
        out = ["E", str(n)]
        for i in range(n):
            out += _leaf_tokens(u, i, n)
        return out
    if t is B.Vmap:
        inner = u.bijection
        if tuple(inner.shape) != () or u.cond_shape is not None:
            raise Unsupported("Vmap of a non-scalar or conditional bijection")
        out = ["E", str(u.axis_size)]
        if type(inner) is B.RationalQuadraticSpline:
            xp, yp, dv = _f(inner.x_pos), _f(inner.y_pos), _f(inner.derivatives)
            for i in range(u.axis_size):
                pick = lambda a: a[i] if a.ndim == 2 else a
                out += _rqs_tokens(pick(xp), pick(yp), pick(dv), inner.interval)
            return out
        if type(inner) in (B.Exp, B.SoftPlus, B.Tanh, B.LeakyTanh):
            for i in range(u.axis_size):
                out += _leaf_tokens(inner, 0, 1)
            return out
        if type(inner) in (B.Affine, B.Loc, B.Scale):
            for i in range(u.axis_size):
                pick = lambda a: fhex(_f(a)[i] if _f(a).ndim == 1 else _f(a))
                if type(inner) is B.Affine:
                    out += ["A", pick(inner.loc), pick(inner.scale)]
                elif type(inner) is B.Loc:
                    out += ["L", pick(inner.loc)]
                else:
                    out += ["S", pick(inner.scale)]
            return out
        raise Unsupported(f"Vmap({type(inner).__name__})")
    if t is B.TriangularAffine:
        if len(shape) != 1:
            raise Unsupported("TriangularAffine rank")
        return ["TRI", str(int(bool(u.lower))), str(n), hexlist(_f(u.triangular).ravel()), hexlist(_bc(u.loc, shape))]
    if t is B.AdditiveCondition:
        if condition is None:
            raise Unsupported("AdditiveCondition without a condition")
        loc = _bc(u.module(L["jnp"].asarray(condition)), shape)  # the conditioner is arbitrary: its VALUE enters the term
        out = ["E", str(n)]
        for i in range(n):
            out += ["L", fhex(loc[i])]
        return out
    if t is B.Permute:
        if len(shape) != 1:
            raise Unsupported("Permute rank")
        return ["P", ",".join(str(int(v)) for v in np.asarray(u.permutation[0]).ravel()),
                ",".join(str(int(v)) for v in np.asarray(u.inverse_permutation[0]).ravel())]
    if t is B.Flip:
        return ["F"]
    if t is B.Identity:
        return ["C", "0"]
    if t is B.Invert:
        return ["I"] + ser_bij(u.bijection, condition)
    if t is B.Chain:
        out = ["C", str(len(u.bijections))]
        for bb in u.bijections:
            out += ser_bij(bb, condition)
        return out
    if t is B.Scan:
        out = ["C", str(len(scan_layers(u)))]
        for bb in scan_layers(u):
            out += ser_bij(bb, condition)
        return out
    raise Unsupported(t.__name__)


def scan_layers(scan):
    """The layers a Scan iterates over, in order (slices of the stacked parameters)."""
    L = lv.lib()
    eqx, jax = L["eqx"], L["jax"]
    arrs, static = eqx.partition(scan.bijection, eqx.is_array)
    leaves = jax.tree_util.tree_leaves(arrs)
    n = leaves[0].shape[0]
    return [eqx.combine(jax.tree_util.tree_map(lambda a: a[i], arrs), static) for i in range(n)]


# ------------------------------------------------------------------ distributions -> tokens
def ser_dist(d, condition=None):
    L = lv.lib()
    import flowjax.distributions as D

    u = L["unwrap"](d)
    if type(u) is D.StandardNormal:
        return ["N"]
    if type(u) is D._StandardGumbel:
        return ["G"]
    if isinstance(u, D.AbstractTransformed):
        return ["T"] + ser_dist(u.base_dist, condition) + ser_bij(u.bijection, condition)
    raise Unsupported(type(u).__name__)


def innermost_base(d):
    import flowjax.distributions as D

    while isinstance(d, D.AbstractTransformed):
        d = d.base_dist
    return d


def base_draw(d, key, condition=None):
    """The draw the innermost base distribution produces on the key path of an UNBATCHED dist.sample(key) /
    sample_and_log_prob(key): AbstractDistribution._get_sample_keys splits the key into max(1, prod(())) = 1 keys and
    every AbstractTransformed._sample hands the same key down."""
    L = lv.lib()
    k0 = L["jr"].split(key, 1)[0]
    return np.asarray(L["unwrap"](innermost_base(d))._sample(k0, None), dtype=float)


def shape_of_term(tokens):
    """Structure string of a term (same format as the driver's `struct`)."""
    pos = [0]

    def leaf():
        t = tokens[pos[0]]
        pos[0] += {"A": 3, "L": 2, "S": 2, "X": 1, "SP": 1, "TH": 1, "LK": 4, "R": 6}[t]

    def bij():
        t = tokens[pos[0]]
        if t == "E":
            k = int(tokens[pos[0] + 1])
            pos[0] += 2
            for _ in range(k):
                leaf()
            return f"E{k}"
        if t == "TRI":
            pos[0] += 5
            return "TRI"
        if t == "P":
            pos[0] += 3
            return "P"
        if t == "F":
            pos[0] += 1
            return "F"
        if t == "I":
            pos[0] += 1
            return "I(" + bij() + ")"
        if t == "C":
            k = int(tokens[pos[0] + 1])
            pos[0] += 2
            return "C[" + ";".join(bij() for _ in range(k)) + "]"
        raise ValueError(t)

    def dist():
        t = tokens[pos[0]]
        pos[0] += 1
        if t in ("N", "G"):
            return t
        a = dist()
        return "T(" + a + "," + bij() + ")"

    return dist() if tokens[0] in ("N", "G", "T") else bij()


# ------------------------------------------------------------------ real objects from JSON-able specs
def make_bij(spec):
    """{"op": leaf|vrqs|tri|perm|flip|invert|chain, ...} -> real bijection.  Leaf specs are harness.leaves specs."""
    L = lv.lib()
    B, jnp, eqx, jax = L["B"], L["jnp"], L["eqx"], L["jax"]
    op = spec["op"]
    if op == "leaf":
        return lv.make_obj(spec["leaf"])
    if op == "vrqs":  # d scalar splines with their own parameters, stacked, as triangular_spline_flow builds them
        objs = [lv.make_obj(s) for s in spec["items"]]
        if spec.get("broadcast"):
            return B.Vmap(objs[0], axis_size=spec["n"])
        arrs = [eqx.partition(o, eqx.is_array)[0] for o in objs]
        static = eqx.partition(objs[0], eqx.is_array)[1]
        stacked = jax.tree_util.tree_map(lambda *a: jnp.stack(a), *arrs)
        return B.Vmap(eqx.combine(stacked, static), in_axes=eqx.if_array(0))
    if op == "tri":
        return lv.make_obj(spec["leaf"])
    if op == "perm":
        return B.Permute(jnp.asarray(spec["perm"], dtype=int))
    if op == "flip":
        return B.Flip(tuple(spec["shape"]))
    if op == "invert":
        return B.Invert(make_bij(spec["item"]))
    if op == "chain":
        return B.Chain([make_bij(s) for s in spec["items"]])
    raise ValueError(op)


def make_dist(spec):
    """{"base": stdnormal|gumbel0|normal|gumbel, "shape": [...], ("loc","scale"), "layers": [bij specs, innermost first]}
    -> nested Transformed(... Transformed(base, layers[0]) ..., layers[-1])."""
    L = lv.lib()
    jnp, eqx = L["jnp"], L["eqx"]
    import flowjax.distributions as D

    shape = tuple(spec["shape"])
    arr = lambda name: jnp.asarray(np.array([fparse(v) for v in spec[name]], dtype=float).reshape(shape))
    b = spec["base"]
    if b == "stdnormal":
        d = D.StandardNormal(shape)
    elif b == "gumbel0":
        d = D._StandardGumbel(shape)
    elif b == "normal":
        d = D.Normal(arr("loc"), jnp.ones(shape))
        d = eqx.tree_at(lambda n: n.bijection.scale, d, arr("scale"))  # plain array: negative scales allowed
    elif b == "gumbel":
        d = D.Gumbel(arr("loc"), jnp.ones(shape))
        d = eqx.tree_at(lambda n: n.bijection.scale, d, arr("scale"))
    else:
        raise ValueError(b)
    for s in spec["layers"]:
        d = D.Transformed(d, make_bij(s))
    return d


# ------------------------------------------------------------------ generators of specs
def _h(a):
    return [fhex(v) for v in np.asarray(a, dtype=float).ravel()]


MILD = [False]   # generators draw parameters of moderate magnitude while MILD[0] (2-D quadrature items: a fixed tensor grid
                 # cannot resolve features much narrower than its panels)


def gen_leaf_spec(rng, shape, kinds):
    n = _size(shape)
    k = kinds[int(rng.integers(0, len(kinds)))]
    m = 0.35 if MILD[0] else 1.0
    if k == "affine":
        return dict(kind="affine", shape=list(shape), loc=_h(rng.normal(0, 1.5 * m, n)),
                    scale=_h(np.exp(rng.normal(0, 0.8 * m, n)) * rng.choice([-1.0, 1.0], n)))
    if k == "scale":
        return dict(kind="scale", shape=list(shape), scale=_h(np.exp(rng.normal(0, 0.8 * m, n)) * rng.choice([-1.0, 1.0], n)))
    if k == "loc":
        return dict(kind="loc", shape=list(shape), loc=_h(rng.normal(0, 2 * m, n)))
    if k in ("exp", "softplus", "tanh"):
        return dict(kind=k, shape=list(shape))
    if k == "leaky":
        return dict(kind="leaky", shape=list(shape), max_val=fhex(float(np.round(rng.uniform(0.4, 3.5), 3))))
    raise ValueError(k)


def gen_rqs_spec(rng, like=None):
    if like is None:
        K = int(rng.integers(1, 7))
        iv = [4.0, 1.0, (-2.0, 3.0), 2.5][int(rng.integers(0, 4))]
        md = [1e-3, 1e-2, 0.3][int(rng.integers(0, 3))]
    else:  # same static fields (knots, interval, min_derivative) as `like`: stackable under Vmap
        K = like["knots"]
        iv = like["interval"]
        iv = tuple(fparse(v) for v in iv) if isinstance(iv, list) else fparse(iv)
        md = fparse(like["min_derivative"])
    init = np.log(np.exp(1 - md) - 1)
    s = 0.4 if MILD[0] else [0.7, 1.5][int(rng.integers(0, 2))]
    return dict(kind="rqs", shape=[], knots=K, interval=[fhex(iv[0]), fhex(iv[1])] if isinstance(iv, tuple) else fhex(iv),
                min_derivative=fhex(md), softmax_adjust=fhex(1e-2), x_raw=_h(rng.normal(0, s, K)), y_raw=_h(rng.normal(0, s, K)),
                d_raw=_h(init + rng.normal(0, s, K + 2)))


ONTO = ["affine", "scale", "loc", "leaky"]          # leaves that map R onto R
ALL = ONTO + ["exp", "softplus", "tanh"]


def gen_bij_spec(rng, shape, depth, onto_only=False, allow_vec=True):
    """Random expression; with onto_only every sub-expression maps R^n onto R^n (so any real x has a finite density)."""
    n = _size(shape)
    r = rng.random()
    if depth <= 0 or r < 0.35:
        q = rng.random()
        if q < 0.2:
            if shape == ():
                return dict(op="leaf", leaf=gen_rqs_spec(rng))
            first = gen_rqs_spec(rng)
            return dict(op="vrqs", n=n, items=[first] + [gen_rqs_spec(rng, like=first) for _ in range(n - 1)]) if rng.random() < 0.7 else \
                dict(op="vrqs", n=n, broadcast=True, items=[first])
        if q < 0.3 and len(shape) == 1 and allow_vec:
            a = rng.normal(0, 0.4 if MILD[0] else 1.0, (n, n))
            a[np.diag_indices(n)] = np.exp(rng.normal(0, 0.3 if MILD[0] else 0.7, n))
            return dict(op="tri", leaf=dict(kind="tri", shape=[n], dim=n, lower=bool(rng.integers(0, 2)), arr=_h(a), loc=_h(rng.normal(0, 1, n))))
        if q < 0.36 and len(shape) == 1 and n > 1 and allow_vec:
            return dict(op="perm", perm=[int(v) for v in rng.permutation(n)])
        if q < 0.4 and len(shape) == 1 and allow_vec:
            return dict(op="flip", shape=list(shape))
        return dict(op="leaf", leaf=gen_leaf_spec(rng, shape, ONTO if onto_only else ALL))
    if r < 0.55:
        return dict(op="invert", item=gen_bij_spec(rng, shape, depth - 1, onto_only=True, allow_vec=allow_vec))
    k = int(rng.integers(1, 4))
    items = [gen_bij_spec(rng, shape, depth - 1, onto_only=True, allow_vec=allow_vec) for _ in range(k - 1)]
    items.append(gen_bij_spec(rng, shape, depth - 1, onto_only=onto_only, allow_vec=allow_vec))  # a non-onto layer may come last
    return dict(op="chain", items=items)


def gen_dist_spec(rng, shape, depth, nest):
    n = _size(shape)
    base = ["stdnormal", "normal", "normal", "gumbel", "gumbel0"][int(rng.integers(0, 5))]
    spec = dict(base=base, shape=list(shape), layers=[])
    if base in ("normal", "gumbel"):
        spec["loc"] = _h(rng.normal(0, 1, n))
        spec["scale"] = _h(np.exp(rng.normal(0, 0.6, n)) * (rng.choice([-1.0, 1.0], n) if base == "normal" else 1.0))
    for j in range(nest):
        spec["layers"].append(gen_bij_spec(rng, shape, depth, onto_only=(j < nest - 1)))
    return spec


# ------------------------------------------------------------------ flattening an expression into elementary steps
def steps_forward(b):
    """The elementary (non-Chain, non-Invert) bijections a forward pass through b applies, in order, each with the
    direction used: [(obj, 'fwd'|'inv'), ...]."""
    L = lv.lib()
    B = L["B"]
    u = L["unwrap"](b)
    if type(u) is B.Chain:
        return [s for bb in u.bijections for s in steps_forward(bb)]
    if type(u) is B.Scan:
        return [s for bb in scan_layers(u) for s in steps_forward(bb)]
    if type(u) is B.Invert:
        return [(o, "inv" if d == "fwd" else "fwd") for o, d in reversed(steps_forward(u.bijection))]
    return [(u, "fwd")]


def _spec_for_crit(u):
    B = lv.lib()["B"]
    t = type(u)
    if t is B.LeakyTanh:
        return dict(kind="leaky", max_val=fhex(u.max_val)), u
    if t is B.RationalQuadraticSpline and tuple(u.shape) == ():
        return dict(kind="rqs"), u
    if t is B.Tanh:
        return dict(kind="tanh"), u
    if t is B.Exp:
        return dict(kind="exp"), u
    if t is B.SoftPlus:
        return dict(kind="softplus"), u
    return None, u


def boundary_points(b, rng, per_step=4):
    """x values (arrays of b.shape) at which the INVERSE pass through b hits a comparison constant of one of its
    elementary steps: the constant is placed in the step's input space and pushed forward through the remaining steps
    with the real objects (reuses harness.leaves.critical_points)."""
    L = lv.lib()
    jnp = L["jnp"]
    steps = steps_forward(b)
    shape = tuple(L["unwrap"](b).shape)
    n = _size(shape)
    out = []
    for j, (u, d) in enumerate(steps):
        spec, obj = _spec_for_crit(u)
        if spec is None:
            continue
        # the inverse pass applies the opposite direction of step j at the point AFTER step j (forward orientation)
        crit = lv.critical_points(spec, obj, "inv" if d == "fwd" else "fwd")
        if not crit:
            continue
        pick = [crit[int(i)] for i in rng.choice(len(crit), size=min(per_step, len(crit)), replace=False)]
        for cval in pick:
            v = rng.normal(0, 1.0, n)
            if spec["kind"] in ("exp", "softplus") and d == "fwd":
                v = np.exp(v)
            if spec["kind"] == "tanh" and d == "fwd":
                v = np.tanh(v)
            v[int(rng.integers(0, n))] = cval
            x = jnp.asarray(v.reshape(shape))
            ok = True
            for (u2, d2) in steps[j + 1:]:
                x = u2.transform(x) if d2 == "fwd" else u2.inverse(x)
            if ok and np.all(np.isfinite(np.asarray(x))):
                out.append(np.asarray(x, dtype=float))
    return out


# ------------------------------------------------------------------ flow factories, both orientations
FACTORIES = ("maf-affine", "maf-rqs", "planar", "coupling", "triangular-spline", "bnaf")
# "bnaf-deep": the non-default nn_depth=2 (the condition enters at the first hidden layer only; seeded change C04d); not in the rotating grids
TOL = {"bnaf": 2e-4, "bnaf-deep": 2e-4}


def build_flow(name, dim, cond, inv, kint, layers=2):
    L = lv.lib()
    jr, B = L["jr"], L["B"]
    import flowjax.flows as F
    from flowjax.distributions import StandardNormal

    base = StandardNormal((dim,))
    k = jr.PRNGKey(kint)
    if name == "maf-affine":
        return F.masked_autoregressive_flow(k, base_dist=base, cond_dim=cond, flow_layers=layers, nn_width=8, invert=inv)
    if name == "maf-rqs":
        return F.masked_autoregressive_flow(k, base_dist=base, cond_dim=cond, flow_layers=layers, nn_width=8, invert=inv,
                                            transformer=B.RationalQuadraticSpline(knots=4, interval=3))
    if name == "planar":
        return F.planar_flow(k, base_dist=base, cond_dim=cond, flow_layers=layers, negative_slope=0.2, invert=inv,
                             **({} if cond is None else dict(width_size=8, depth=1)))
    if name == "coupling":
        return F.coupling_flow(k, base_dist=base, cond_dim=cond, flow_layers=layers, nn_width=8, invert=inv)
    if name == "bnaf-deep":
        return F.block_neural_autoregressive_flow(k, base_dist=base, cond_dim=cond, flow_layers=1, nn_depth=2, nn_block_dim=3, invert=inv)
    if name == "triangular-spline":
        return F.triangular_spline_flow(k, base_dist=base, cond_dim=cond, flow_layers=layers, knots=4, invert=inv)
    if name == "bnaf":
        return F.block_neural_autoregressive_flow(k, base_dist=base, cond_dim=cond, flow_layers=1, nn_block_dim=3, invert=inv)
    raise ValueError(name)


def all_configs(names=FACTORIES, dims=(1, 2, 3), conds=(None, 2), inverts=(True, False)):
    return [(n, d, c, i) for n in names for d in dims for c in conds for i in inverts if not (n == "coupling" and d == 1)]


def quick_configs(seed, names=FACTORIES, per=2):
    """A stratified subset for the quick tier: per factory `per` configurations, both orientations and conditional /
    unconditional spread over the factories, dims rotating with the seed."""
    out = []
    for j, n in enumerate(names):
        for r in range(per):
            dim = 1 + (j + r + seed) % 3
            if n == "coupling" and dim == 1:
                dim = 2
            inv = (r + j) % 2 == 0
            cond = 2 if (r + (j // 2)) % 2 == 1 else None
            out.append((n, dim, cond, inv))
    return out


def flows(ctx, configs, scale=0.4):
    """Yields (name, dim, cond_dim, invert, flow, tol, key_int) with parameters perturbed away from initialisation
    (harness.flowcases.perturb).  tol = relative tolerance for path-consistency identities."""
    from harness import flowcases as fc

    rng = ctx.rng
    for name, dim, cond, inv in configs:
        kint = int(rng.integers(0, 2**31))
        try:
            flow = build_flow(name, dim, cond, inv, kint)
        except Exception as e:  # not constructible in this environment: not a property violation
            ctx.notes.append(f"flow factory {name} dim={dim} cond={cond} invert={inv} not constructible here: {type(e).__name__}: {str(e)[:80]}")
            continue
        yield name, dim, cond, inv, fc.perturb(flow, rng, scale), TOL.get(name, 1e-7), kint


# ------------------------------------------------------------------ wall-clock guard
def run_guarded(module, func, payload, timeout):
    """Run harness.<module>.<func>(payload) in a fresh python process (same environment) and return its JSON result,
    or {"timeout": True} after killing it (by PID) when it does not return within `timeout` seconds."""
    code = ("import sys, json\n"
            "from harness import common\n"
            "common.init_jax()\n"
            f"from harness import {module} as m\n"
            f"res = m.{func}(json.loads(sys.stdin.read()))\n"
            "sys.stdout.write('\\n@@RESULT@@' + json.dumps(res, default=str))\n")
    p = subprocess.Popen([sys.executable, "-c", code], stdin=subprocess.PIPE, stdout=subprocess.PIPE, stderr=subprocess.PIPE,
                         text=True, env=dict(os.environ), cwd=os.environ.get("VERIF_REPO", "/repo"))
    try:
        out, err = p.communicate(json.dumps(payload), timeout=timeout)
    except subprocess.TimeoutExpired:
        p.kill()  # by PID
        try:
            p.communicate(timeout=10)
        except Exception:
            pass
        return {"timeout": True}
    if "@@RESULT@@" not in out:
        return {"error": (err or out)[-1500:]}
    return json.loads(out.split("@@RESULT@@")[-1])


def start_guarded(module, func, payload):
    """Start harness.<module>.<func>(payload) in a fresh python process; stdout / stderr are drained by reader threads from
    the start (a full pipe would block the worker)."""
    import threading

    code = ("import sys, json\n"
            "from harness import common\n"
            "common.init_jax()\n"
            f"from harness import {module} as m\n"
            f"res = m.{func}(json.loads(sys.stdin.read()))\n"
            "sys.stdout.write('\\n@@RESULT@@' + json.dumps(res, default=str))\n")
    p = subprocess.Popen([sys.executable, "-c", code], stdin=subprocess.PIPE, stdout=subprocess.PIPE, stderr=subprocess.PIPE,
                         text=True, env=dict(os.environ), cwd=os.environ.get("VERIF_REPO", "/repo"))
    p.out_lines, p.err_chunks = [], []

    def rd_out():
        for line in p.stdout:
            p.out_lines.append(line)

    def rd_err():
        p.err_chunks.append(p.stderr.read())
    p.t_out = threading.Thread(target=rd_out, daemon=True)
    p.t_err = threading.Thread(target=rd_err, daemon=True)
    p.t_out.start()
    p.t_err.start()
    p.stdin.write(json.dumps(payload))
    p.stdin.close()
    return p


def finish_guarded(p, timeout):
    """Wait at most `timeout` seconds for a process started with start_guarded; kill it BY PID when it does not return."""
    p.t_out.join(timeout)
    if p.t_out.is_alive():
        p.kill()
        p.t_out.join(10)
        return {"timeout": True}
    p.wait()
    p.t_err.join(5)
    out = "".join(p.out_lines)
    if "@@RESULT@@" not in out:
        return {"error": f"exit code {p.returncode}: " + ("".join(p.err_chunks) or out)[-1500:]}
    return json.loads(out.split("@@RESULT@@")[-1])
