"""C08 -- combinators mean what their definitions say, for every shape and axis.

Tie (exact): random bijection expression trees over exact-integer leaves are built as REAL flowjax objects,
serialised from the object (harness/bijser.py) and run through the extracted Coq model (Model/Bij.v `run`,
`sig_of`); shape, cond_shape, all four methods and constructor exceptions must agree exactly.
Oracle: an independent NumPy reference interpreter of the combinators' DEFINITIONS (`ref`), recursive over
the tree, leaves by their own methods -- evaluated on the implementation alone.
"""

import json

import numpy as np

from harness import bijser as S

PROPERTY = "C08"
GROUPS = ["bij"]
MANIFEST = {
    "design_ref": "DESIGN.md 4.8",
    "technique": "Coq proof by structural induction over bijection expression trees (Model/Bij.v, nested-list tensors of any rank) "
                 "+ exact correspondence of the extracted model with real flowjax combinators on generated trees",
    "text": "27 theorems, all closed under the global context, for an arbitrary carrier and any tree depth/width/rank/axis: for every "
            "well-constructed tree and correctly shaped input the code-shaped semantics `run` (entry checks at every node, array_split at "
            "cumulative indices, jnp.split+squeeze, expand_dims+concatenate, vmap slices with the condition axis normalised like jax.vmap, "
            "x.at[idx].set, numpy axis normalisation) returns exactly the definition-shaped semantics `den` (axis mod rank, slices at "
            "offsets, take/stack, composition, indexed update), with output of the declared shape and a scalar log-det; the operations `den` "
            "uses are characterised entry by entry as jnp.take / slicing / concatenate / stack; Partial frame property and indexed-entry "
            "property; Invert swaps (all inputs); Scan = Chain; Reshape only re-presents; Chain = composition with additive log-dets, slicing "
            "and merge_chains (any nesting; flat result, same declared shapes, same result of every method on every input) preserve the "
            "function; declared shapes of Stack/Concatenate/Vmap; the pre-fix Stack/Vmap formulas refuted (and shown right for "
            "non-negative axes). Tie on every run: random trees (Chain, Scan, Invert, Concatenate, Stack, Vmap broadcast/mapped with "
            "condition axis, Partial with int/slice/int-array/bool-array/tuple indices incl. out-of-range JAX conventions, Reshape, "
            "EmbedCondition over Identity/Loc/Scale/Affine/Flip/Permute/AdditiveCondition), ranks 0-3, EVERY axis in -(r+2)..r+1, compared on "
            "shape, cond_shape, four methods (values exact, log-det 1e-9), constructor exceptions over the full shape / cond-shape lattice, "
            "merge_chains / chain[lo:hi] / merge_transforms; oracle = independent recursive NumPy interpreter of the definitions.",
    "note": "Trusted: Coq kernel; extraction (ExtrOcamlBasic); OCaml driver + S-expression parser; serialiser (walks the real object, parameters "
            "after unwrap); NumPy/JAX primitives as documented. Zero-sized axes, several array indices in one Partial index, and a condition "
            "axis on an unconditional Vmap child are outside the model (not generated; the model answers `unsupported`). merge_transforms has no "
            "model (oracle only). The theorems are about the model; the code is tied by sampled exact correspondence.",
}
METHODS = ["transform", "inverse", "transform_and_log_det", "inverse_and_log_det"]
_st = {}


def fj():
    if _st:
        return _st
    import equinox as eqx
    import jax
    import jax.numpy as jnp
    import flowjax.bijections as fb

    S.enable_compile_cache()
    _st.update(eqx=eqx, jax=jax, jnp=jnp, fb=fb, M=S.mods(), base={})
    return _st


def _base(kind, shape):
    """Scale/Affine construction runs a jitted validity check per call: build one object per shape, then replace its arrays"""
    f = fj()
    key = (kind, tuple(shape))
    if key not in f["base"]:
        ones = f["jnp"].ones(tuple(shape))
        f["base"][key] = f["fb"].Scale(ones) if kind == "scale" else f["fb"].Affine(f["jnp"].zeros(tuple(shape)), ones)
    return f["base"][key]


# ================================================================ spec -> real object
def idx_of(spec):
    jnp = fj()["jnp"]
    k = spec[0]
    if k == "int":
        return int(spec[1])
    if k == "slice":
        return slice(spec[1], spec[2], spec[3])
    if k == "arr":
        return jnp.asarray(np.array(spec[1], dtype=np.int64))
    if k == "mask":
        return jnp.asarray(np.array(spec[1], dtype=bool))
    if k == "tuple":
        return tuple(idx_of(s) for s in spec[1])
    raise ValueError(k)


def np_idx_of(spec):
    k = spec[0]
    if k == "arr":
        return np.array(spec[1], dtype=np.int64)
    if k == "mask":
        return np.array(spec[1], dtype=bool)
    if k == "tuple":
        return tuple(np_idx_of(s) for s in spec[1])
    return idx_of(spec)


def stack_modules(objs):
    f = fj()
    return f["jax"].tree_util.tree_map(lambda *ls: f["jnp"].stack(ls) if f["eqx"].is_array(ls[0]) else ls[0], *objs)


def build_children(spec):
    """the child objects of the top node of spec (built for real)"""
    k = spec[0]
    if k in ("chain", "scan"):
        return [build(s) for s in spec[1]]
    if k in ("concat", "stack"):
        return [build(s) for s in spec[2]]
    if k == "vmap_m":
        return [build(s) for s in spec[2]]
    if k in ("invert",):
        return [build(spec[1])]
    if k in ("vmap_b", "partial", "reshape", "embed"):
        return [build(spec[3])]
    return []


def build_top(spec, ch):
    f = fj()
    fb, jnp, eqx, M = f["fb"], f["jnp"], f["eqx"], f["M"]
    k = spec[0]
    arr = lambda shape, data: jnp.asarray(np.array(data, dtype=np.float64).reshape(tuple(shape)))  # noqa: E731
    if k == "identity":
        return fb.Identity(tuple(spec[1]))
    if k == "loc":
        return fb.Loc(arr(spec[1], spec[2]))
    if k == "scale":
        return eqx.tree_at(lambda b: b.scale, _base("scale", spec[1]), arr(spec[1], spec[2]))
    if k == "affine":
        return eqx.tree_at(lambda b: (b.loc, b.scale), _base("affine", spec[1]), (arr(spec[1], spec[2]), arr(spec[1], spec[3])))
    if k == "flip":
        return fb.Flip(tuple(spec[1]))
    if k == "permute":
        return fb.Permute(jnp.asarray(np.array(spec[2], dtype=np.int64).reshape(tuple(spec[1]))))
    if k == "addcond":
        return fb.AdditiveCondition(M["WSum"](arr(spec[2], spec[3])), tuple(spec[1]), tuple(spec[2]))
    if k == "chain":
        return fb.Chain(ch)
    if k == "scan":
        return fb.Scan(stack_modules(ch))
    if k == "invert":
        return fb.Invert(ch[0])
    if k == "concat":
        return fb.Concatenate(ch, axis=spec[1])
    if k == "stack":
        return fb.Stack(ch, axis=spec[1])
    if k == "vmap_b":
        return fb.Vmap(ch[0], axis_size=spec[1], in_axes_condition=spec[2])
    if k == "vmap_m":
        return fb.Vmap(stack_modules(ch), in_axes=eqx.if_array(0), in_axes_condition=spec[1])
    if k == "vmap_p":
        # the documented "fine grained" use: Affine with an elementwise (mapped) loc and one global (broadcast) scale
        n, inner = spec[1], tuple(spec[2])
        bij = eqx.tree_at(lambda b: (b.loc, b.scale), _base("affine", inner),
                          (arr([n, *inner], spec[3]), arr(inner, spec[4])))
        in_axes = f["jax"].tree_util.tree_map(lambda _: None, bij)
        in_axes = eqx.tree_at(lambda b: b.loc, in_axes, 0, is_leaf=lambda x: x is None)
        return fb.Vmap(bij, in_axes=in_axes)
    if k == "partial":
        return fb.Partial(ch[0], idx_of(spec[1]), tuple(spec[2]))
    if k == "reshape":
        return fb.Reshape(ch[0], None if spec[1] is None else tuple(spec[1]), None if spec[2] is None else tuple(spec[2]))
    if k == "embed":
        net = M["EMulNet"](spec[1][1]) if spec[1][0] == "mul" else M["ETakeNet"](spec[1][1])
        return fb.EmbedCondition(ch[0], net, tuple(spec[2]))
    raise ValueError(k)


def build(spec):
    return build_top(spec, build_children(spec))


def top_term(spec, ch):
    """model term of the top node from its constructor ARGUMENTS and the serialised real children"""
    k = spec[0]
    cs = [S.ser(c) for c in ch]
    if k == "chain":
        return S.t_chain(cs)
    if k == "concat":
        return S.t_concat(spec[1], cs)
    if k == "stack":
        return S.t_stack(spec[1], cs)
    if k == "vmap_b":
        return S.t_vmap(spec[1], False, spec[2], cs)
    if k == "vmap_m":
        return S.t_vmap(len(cs), True, spec[1], cs)
    if k == "partial":
        return S.t_partial(idx_of(spec[1]), spec[2], cs[0])
    if k == "reshape":
        return S.t_reshape(spec[1], spec[2], cs[0])
    if k == "invert":
        return S.t_invert(cs[0])
    raise S.Unsupported(k)


# ================================================================ generator (specs)
class Gen:
    def __init__(self, rng, max_rank=3):
        self.r = rng
        self.max_rank = max_rank

    def ri(self, a, b):  # inclusive
        return int(self.r.integers(a, b + 1))

    def shape(self, rank=None):
        rank = self.ri(0, self.max_rank) if rank is None else rank
        while True:
            s = [self.ri(1, 3) for _ in range(rank)]
            if int(np.prod(s)) <= 12:
                return s

    def ints(self, shape, lo=-3, hi=3):
        return [int(v) for v in self.r.integers(lo, hi + 1, size=int(np.prod(shape)))]

    def pow2(self, shape):
        return [float(2.0 ** self.ri(-2, 2)) * (1 if self.r.random() < 0.7 else -1) for _ in range(int(np.prod(shape)))]

    def leaf(self, shape, cshape):
        kinds = ["identity", "loc", "scale", "affine", "flip", "permute"] + (["addcond"] * 3 if cshape is not None else [])
        k = kinds[self.ri(0, len(kinds) - 1)]
        if k == "identity":
            return ["identity", shape]
        if k == "loc":
            return ["loc", shape, self.ints(shape)]
        if k == "scale":
            return ["scale", shape, self.pow2(shape)]
        if k == "affine":
            return ["affine", shape, self.ints(shape), self.pow2(shape)]
        if k == "flip":
            return ["flip", shape]
        if k == "permute":
            return ["permute", shape, [int(v) for v in self.r.permutation(int(np.prod(shape)))]]
        return ["addcond", shape, cshape, self.ints(cshape, 1, 3)]

    def index(self, shape, arrays_ok=True):
        """random index spec into `shape` (rank >= 1) whose result has no zero-sized axis"""
        for _ in range(50):
            kinds = ["int", "slice", "tuple"] + (["arr", "mask", "tuple_arr"] if arrays_ok else [])
            k = kinds[self.ri(0, len(kinds) - 1)]
            n = shape[0]
            if k == "int":
                spec = ["int", self.ri(-n, n - 1)]
            elif k == "slice":
                spec = self.slice(n)
            elif k == "arr":
                spec = self.arr(n)
            elif k == "mask":
                spec = self.mask(n)
            elif k == "tuple":
                m = self.ri(1, len(shape))
                spec = ["tuple", [(["int", self.ri(-d, d - 1)] if self.r.random() < 0.4 else self.slice(d)) for d in shape[:m]]]
            else:
                m = self.ri(1, len(shape))
                pos = self.ri(0, m - 1)
                spec = ["tuple", [((self.arr(d) if self.r.random() < 0.6 else self.mask(d)) if j == pos else self.slice(d))
                                  for j, d in enumerate(shape[:m])]]
            sub = np.zeros(shape)[np_idx_of(spec)].shape
            if all(d > 0 for d in sub):
                return spec, list(sub)
        return ["slice", None, None, None], list(shape)

    def slice(self, n):
        v = lambda: None if self.r.random() < 0.4 else self.ri(-n - 1, n + 1)  # noqa: E731
        step = [None, 1, 2, -1, -2][self.ri(0, 4)]
        return ["slice", v(), v(), step]

    def arr(self, n):
        m = self.ri(1, n)
        pos = self.r.choice(n, size=m, replace=False)
        return ["arr", [int(p) - (n if self.r.random() < 0.3 else 0) for p in pos]]

    def mask(self, n):
        m = np.zeros(n, dtype=int)
        m[self.r.choice(n, size=self.ri(1, n), replace=False)] = 1
        return ["mask", [int(v) for v in m]]

    def perturb(self, spec):
        """same structure, other parameter values (a second parameter slice of a stacked module)"""
        k = spec[0]
        if k == "loc":
            return ["loc", spec[1], self.ints(spec[1])]
        if k == "scale":
            return ["scale", spec[1], self.pow2(spec[1])]
        if k == "affine":
            return ["affine", spec[1], self.ints(spec[1]), self.pow2(spec[1])]
        if k == "addcond":
            return ["addcond", spec[1], spec[2], self.ints(spec[2], 1, 3)]
        if k == "permute":
            return ["permute", spec[1], [int(v) for v in self.r.permutation(int(np.prod(spec[1])))]]
        if k in ("identity", "flip"):
            return spec
        if k in ("chain", "scan"):
            return [k, [self.perturb(s) for s in spec[1]]]
        if k in ("concat", "stack"):
            return [k, spec[1], [self.perturb(s) for s in spec[2]]]
        if k == "vmap_m":
            return [k, spec[1], [self.perturb(s) for s in spec[2]]]
        if k == "invert":
            return [k, self.perturb(spec[1])]
        return [k, spec[1], spec[2], self.perturb(spec[3])]

    def is_cond(self, spec):
        k = spec[0]
        if k in ("addcond", "embed"):
            return True
        if k in ("chain", "scan"):
            return any(self.is_cond(s) for s in spec[1])
        if k in ("concat", "stack", "vmap_m"):
            return any(self.is_cond(s) for s in spec[2])
        if k == "invert":
            return self.is_cond(spec[1])
        if k in ("vmap_b", "partial", "reshape"):
            return self.is_cond(spec[3])
        return False

    def has_arrays(self, spec):
        """does the module have an array leaf (something a stacked module can be mapped / scanned over)?"""
        k = spec[0]
        if k in ("loc", "scale", "affine", "addcond"):
            return True
        if k == "permute":
            return len(spec[1]) > 0  # Permute of shape () holds an empty tuple of index arrays
        if k in ("chain", "scan"):
            return any(self.has_arrays(s) for s in spec[1])
        if k in ("concat", "stack", "vmap_m"):
            return any(self.has_arrays(s) for s in spec[2])
        if k == "invert":
            return self.has_arrays(spec[1])
        if k in ("vmap_b", "partial", "reshape", "embed"):
            return self.has_arrays(spec[3])
        return False

    def force_arrays(self, spec, shape):
        return spec if self.has_arrays(spec) else ["chain", [spec, ["loc", shape, self.ints(shape)]]]

    def force_cond(self, spec, shape, cshape):
        if self.is_cond(spec):
            return spec
        return ["chain", [spec, ["addcond", shape, cshape, self.ints(cshape, 1, 3)]]]

    def tree(self, shape, cshape, depth, stacked=False):
        """spec of a tree of the given shape; conditional leaves use cshape (None: unconditional subtree).
        stacked: the subtree will be a parameter slice of a stacked module (no index arrays inside)."""
        r = len(shape)
        if depth == 0 or self.r.random() < 0.2:
            return self.leaf(shape, cshape)
        for _ in range(20):
            k = ["chain", "concat", "stack", "invert", "partial", "reshape", "vmap", "scan", "embed", "vmap"][self.ri(0, 9)]
            if k == "chain":
                return ["chain", [self.tree(shape, cshape, depth - 1, stacked) for _ in range(self.ri(1, 3))]]
            if k == "scan":
                first = self.force_arrays(self.tree(shape, cshape, depth - 1, True), shape)
                return ["scan", [first] + [self.perturb(first) for _ in range(self.ri(0, 2))]]
            if k == "invert":
                return ["invert", self.tree(shape, cshape, depth - 1, stacked)]
            if k == "concat" and r >= 1:
                ax = self.ri(-r, r - 1)
                n = shape[ax]
                parts = self.ri(1, min(3, n))
                cuts = sorted(self.r.choice(np.arange(1, n), size=parts - 1, replace=False)) if parts > 1 else []
                sizes = np.diff([0, *cuts, n])
                return ["concat", ax, [self.tree([int(s) if i == ax % r else d for i, d in enumerate(shape)], cshape, depth - 1, stacked)
                                       for s in sizes]]
            if k == "stack" and r >= 1:
                ax = self.ri(-r, r - 1)
                axn = ax % r
                inner = shape[:axn] + shape[axn + 1:]
                return ["stack", ax, [self.tree(inner, cshape, depth - 1, stacked) for _ in range(shape[axn])]]
            if k == "partial" and r >= 1:
                idx, sub = self.index(shape, arrays_ok=not stacked)
                return ["partial", idx, shape, self.tree(sub, cshape, depth - 1, stacked)]
            if k == "reshape":
                n = int(np.prod(shape))
                inner = self.factor(n)
                if cshape is not None and self.r.random() < 0.5:
                    icshape = self.factor(int(np.prod(cshape)))
                    child = self.force_cond(self.tree(inner, icshape, depth - 1, stacked), inner, icshape)
                    return ["reshape", shape, cshape, child]
                return ["reshape", shape if self.r.random() < 0.8 or inner != shape else None, None,
                        self.tree(inner, cshape, depth - 1, stacked)]
            if k == "vmap" and r >= 1:
                n, inner = shape[0], shape[1:]
                cax, icshape = None, cshape
                if cshape is not None and self.r.random() < 0.6:
                    ks = [i for i, d in enumerate(cshape) if d == n]
                    if ks:
                        kk = ks[self.ri(0, len(ks) - 1)]
                        icshape = cshape[:kk] + cshape[kk + 1:]
                        cax = kk if self.r.random() < 0.5 else kk - len(cshape)
                mapped = self.r.random() < 0.5
                child = self.tree(inner, icshape, depth - 1, stacked or mapped)
                if cax is not None:
                    child = self.force_cond(child, inner, icshape)
                if mapped:
                    child = self.force_arrays(child, inner)
                    return ["vmap_m", cax, [child] + [self.perturb(child) for _ in range(n - 1)]]
                return ["vmap_b", n, cax, child]
            if k == "embed" and cshape is not None:
                if len(cshape) >= 1 and self.r.random() < 0.5:
                    kk = self.ri(1, cshape[0])
                    e, ics = ["take", kk], [kk] + cshape[1:]
                else:
                    e, ics = ["mul", self.ri(-2, 3)], cshape
                return ["embed", e, cshape, self.tree(shape, ics, depth - 1, stacked)]
        return self.leaf(shape, cshape)

    def factor(self, n):
        """a random shape with n elements (dims >= 1)"""
        opts = {1: [[], [1], [1, 1]], 2: [[2], [1, 2], [2, 1]], 3: [[3], [3, 1], [1, 3]], 4: [[4], [2, 2], [1, 4], [2, 1, 2]],
                6: [[6], [2, 3], [3, 2], [1, 6]], 8: [[8], [2, 4], [2, 2, 2]], 9: [[9], [3, 3]], 12: [[12], [3, 4], [2, 6], [2, 3, 2]]}
        o = opts.get(n, [[n]])
        return list(o[self.ri(0, len(o) - 1)])

    def bad_ctor(self):
        """a top-level constructor call with (mostly) incompatible arguments over valid children"""
        k = ["chain", "concat", "stack", "vmap_b", "partial", "reshape"][self.ri(0, 5)]
        sh = self.shape(self.ri(0, 3))
        cs = [None, [2], [2, 3], [3]][self.ri(0, 3)]
        other = lambda s: (self.shape(len(s)) if self.r.random() < 0.6 else self.shape())  # noqa: E731
        ch = lambda s, c=cs: self.tree(s, c, self.ri(0, 1))  # noqa: E731
        if k == "chain":
            n = self.ri(0, 3)
            kids = [ch(sh if self.r.random() < 0.7 else other(sh), cs if self.r.random() < 0.7 else [2, 2]) for _ in range(n)]
            return ["chain", kids]
        if k == "concat":
            r = len(sh)
            ax = self.ri(-r - 2, r + 1)
            kids = []
            for _ in range(self.ri(0, 3)):
                s = list(sh)
                if r and self.r.random() < 0.8:
                    s[ax % r] = self.ri(1, 3)
                if self.r.random() < 0.3:
                    s = other(sh)
                kids.append(ch(s, cs if self.r.random() < 0.8 else [3, 2]))
            return ["concat", ax, kids]
        if k == "stack":
            r = len(sh)
            ax = self.ri(-r - 3, r + 2)
            kids = [ch(sh if self.r.random() < 0.8 else other(sh), cs if self.r.random() < 0.8 else [3, 2]) for _ in range(self.ri(0, 3))]
            return ["stack", ax, kids]
        if k == "vmap_b":
            n = self.ri(1, 3)
            c = [None, [2], [2, 3]][self.ri(0, 2)]
            child = ch(sh, c)
            if c is not None:
                child = self.force_cond(child, sh, c)
            cax = None if c is None else self.ri(-len(c) - 3, len(c) + 2)
            return ["vmap_b", n, cax, child]
        if k == "partial":
            r = self.ri(1, 3)
            sh = self.shape(r)
            idx, sub = self.index(sh)
            u = self.r.random()
            if u < 0.4:
                sub = other(sub)
            elif u < 0.6:
                idx = ["tuple", [["slice", None, None, None]] * (r + 1)]
            elif u < 0.75:
                idx = ["mask", [1] * (sh[0] + 1)]
            elif u < 0.85:
                idx = ["int", self.ri(-sh[0] - 2, sh[0] + 2)]
                sub = sh[1:]
            return ["partial", idx, sh, ch(sub)]
        n = int(np.prod(sh))
        c = [None, [2], [2, 3]][self.ri(0, 2)]
        child = ch(sh, c)
        if c is not None:
            child = self.force_cond(child, sh, c)
        newc = None if self.r.random() < 0.4 else [[2], [3, 2], [6], [1, 2], [4]][self.ri(0, 4)]
        news = self.factor(n) if self.r.random() < 0.6 else self.shape()
        return ["reshape", news, newc, child]


LATTICE = [[], [1], [2], [3], [1, 2], [2, 1], [2, 3], [3, 2], [1, 2, 3]]
CSHAPES = [None, [], [2], [3], [2, 3], [3, 2], [1, 2]]


def directed_ctor_specs(G, quick=True):
    """constructor calls over EVERY pair of child shapes of the lattice (Chain, Stack, Concatenate on two axes) and every pair
    of child cond_shapes: the incompatibilities the constructors document, exhaustively on a small lattice"""
    out = []
    leaf = lambda s, c: (["addcond", s, c, [1] * int(np.prod(c))] if c is not None else ["loc", s, G.ints(s)])  # noqa: E731
    for s1 in LATTICE:
        for s2 in LATTICE:
            out.append((["chain", [leaf(s1, None), leaf(s2, None)]], "shapes:chain"))
            out.append((["stack", [-1, 0][len(out) % 2], [leaf(s1, None), leaf(s2, None)]], "shapes:stack"))
            for ax in ([0, -1] if quick else [0, 1, -1, -2]):
                out.append((["concat", ax, [leaf(s1, None), leaf(s2, None)]], "shapes:concat"))
    sh = [2]
    for c1 in CSHAPES:
        for c2 in CSHAPES:
            out.append((["chain", [leaf(sh, c1), leaf(sh, c2)]], "cshapes:chain"))
            out.append((["stack", -1, [leaf(sh, c1), leaf(sh, c2)]], "cshapes:stack"))
            out.append((["concat", -1, [leaf(sh, c1), leaf(sh, c2), leaf(sh, None)]], "cshapes:concat"))
    # three children with an unconditional one in any position: a check that only compares NEIGHBOURING cond_shapes (or only
    # against the first child) must not slip through (seeded change C13b)
    for c1 in CSHAPES:
        for c3 in CSHAPES:
            for trip in ([c1, None, c3], [None, c1, c3], [c1, c3, None]):
                kids = [leaf(sh, c) for c in trip]
                out.append((["chain", kids], "cshapes3:chain"))
                out.append((["stack", [-1, 0][len(out) % 2], kids], "cshapes3:stack"))
                out.append((["concat", [0, -1][len(out) % 2], kids], "cshapes3:concat"))
    for s1 in LATTICE:           # Reshape: every pair (child shape, new shape); cond reshapes
        for s2 in LATTICE:
            out.append((["reshape", s2, None, leaf(s1, None)], "shapes:reshape"))
    for c1 in CSHAPES:
        for c2 in CSHAPES:
            out.append((["reshape", None, c2, leaf(sh, c1)], "cshapes:reshape"))
    return out


def depth_of(spec):
    k = spec[0]
    if k in ("chain", "scan"):
        return 1 + max([depth_of(s) for s in spec[1]] + [0])
    if k in ("concat", "stack", "vmap_m"):
        return 1 + max([depth_of(s) for s in spec[2]] + [0])
    if k == "invert":
        return 1 + depth_of(spec[1])
    if k in ("vmap_b", "partial", "reshape", "embed"):
        return 1 + depth_of(spec[3])
    return 0


# ================================================================ reference interpreter (the property's oracle)
def ref(b, meth, x, c):
    """(y, log_det) by the DEFINITIONS of the combinators, recursively; leaves by their own methods.  NumPy only."""
    f = fj()
    fb, jnp, jax, eqx = f["fb"], f["jnp"], f["jax"], f["eqx"]
    from flowjax.wrappers import unwrap

    b = unwrap(b)
    inv = meth.startswith("inverse")
    x = np.asarray(x, dtype=np.float64)
    swap = {"transform": "inverse", "inverse": "transform", "transform_and_log_det": "inverse_and_log_det",
            "inverse_and_log_det": "transform_and_log_det"}
    if isinstance(b, (fb.Chain, fb.Scan)):
        kids = list(b.bijections) if isinstance(b, fb.Chain) else S.scan_children(b)
        tot = 0.0
        for ch in (reversed(kids) if inv else kids):
            x, l = ref(ch, meth, x, c)
            tot = tot + l
        return x, tot
    if isinstance(b, fb.Invert):
        return ref(b.bijection, swap[meth], x, c)
    if isinstance(b, fb.Concatenate):
        ax = b.axis % x.ndim
        sizes = [ch.shape[ax] for ch in b.bijections]
        offs = np.concatenate([[0], np.cumsum(sizes)])
        outs = [ref(ch, meth, np.take(x, np.arange(offs[i], offs[i + 1]), axis=ax), c) for i, ch in enumerate(b.bijections)]
        return np.concatenate([o[0] for o in outs], axis=ax), sum(o[1] for o in outs)
    if isinstance(b, fb.Stack):
        ax = b.axis % x.ndim
        outs = [ref(ch, meth, np.take(x, i, axis=ax), c) for i, ch in enumerate(b.bijections)]
        return np.stack([o[0] for o in outs], axis=ax), sum(o[1] for o in outs)
    if isinstance(b, fb.Vmap):
        mapped, kids = S.vmap_children(b)
        cax = b.in_axes[2]
        outs = []
        for i in range(b.axis_size):
            ci = c if (c is None or cax is None) else np.take(np.asarray(c), i, axis=cax % np.ndim(c))
            outs.append(ref(kids[i] if mapped else kids[0], meth, x[i], ci))
        return np.stack([o[0] for o in outs], axis=0), sum(o[1] for o in outs)
    if isinstance(b, fb.Partial):
        idx = jax.tree_util.tree_map(lambda a: np.asarray(a) if hasattr(a, "dtype") else a, b.idxs)
        y, l = ref(b.bijection, meth, x[idx], c)
        out = x.copy()
        out[idx] = y
        return out, l
    if isinstance(b, fb.Reshape):
        cc = c
        if b.cond_shape is not None and c is not None:
            cc = np.asarray(c).reshape(b.bijection.cond_shape)
        y, l = ref(b.bijection, meth, x.reshape(b.bijection.shape), cc)
        return y.reshape(b.shape), l
    if isinstance(b, fb.EmbedCondition):
        return ref(b.bijection, meth, x, np.asarray(b.embedding_net(jnp.asarray(c))))
    # leaf: its own method
    out = getattr(b, meth)(jnp.asarray(x), None if (c is None or b.cond_shape is None) else jnp.asarray(c))
    if meth.endswith("log_det"):
        return np.asarray(out[0], dtype=np.float64), float(out[1])
    return np.asarray(out, dtype=np.float64), 0.0


# ================================================================ running one case
def call_impl(b, meth, x, c):
    """-> ('ok', y, ld|None, shapes) | ('err', exception text)"""
    jnp = fj()["jnp"]
    try:
        out = getattr(b, meth)(jnp.asarray(x), None if c is None else jnp.asarray(c))
    except Exception as e:  # noqa: BLE001
        return ("err", f"{type(e).__name__}: {str(e)[:160]}")
    if meth.endswith("log_det"):
        return ("ok", np.asarray(out[0], dtype=np.float64), np.asarray(out[1], dtype=np.float64))
    return ("ok", np.asarray(out, dtype=np.float64), None)


def err_kind(text):
    if "Expected input shape" in text:
        return "badx"
    if "Expected condition to be provided" in text:
        return "nocond"
    if "Expected condition.shape" in text:
        return "badcond"
    return "other"


def close_ld(a, b):
    a, b = np.asarray(a, dtype=float), np.asarray(b, dtype=float)
    return a.shape == b.shape and bool(np.all(np.abs(a - b) <= 1e-9 * np.maximum(1.0, np.abs(a))))


def same(impl, model):
    """exact agreement of an implementation result and a model answer"""
    if impl[0] != model[0]:
        return False
    if impl[0] == "err":
        k = err_kind(impl[1])
        return k == "other" or model[1] == k or model[1] in ("internal", "ctor")
    if impl[1].shape != model[1].shape or not np.array_equal(impl[1], model[1]):
        return False
    if (impl[2] is None) != (model[2] is None):
        return False
    return impl[2] is None or close_ld(impl[2], model[2])


def oracle(b, meth, x, c, impl):
    """the property's statement on the implementation alone: result == reference interpreter, declared shape, scalar log-det"""
    if impl[0] == "err":
        return [f"{meth} raised on a correctly shaped input although the declared shape is {tuple(b.shape)}: {impl[1]}"]
    try:
        ry, rl = ref(b, meth, x, c)
    except Exception as e:  # noqa: BLE001  (e.g. an out-of-range Partial index: NumPy has no definition for it) -> oracle silent
        _st.setdefault("ref_na", []).append(f"{type(e).__name__}: {str(e)[:80]}")
        return []
    errs = []
    if impl[1].shape != tuple(b.shape):
        errs.append(f"{meth} returned shape {impl[1].shape}, declared shape {tuple(b.shape)}")
    elif not np.array_equal(impl[1], ry):
        errs.append(f"{meth} differs from the definition: got {impl[1].ravel().tolist()}, definition {np.asarray(ry).ravel().tolist()}")
    if impl[2] is not None:
        if impl[2].shape != ():
            errs.append(f"log-det has shape {impl[2].shape}, not scalar")
        elif not close_ld(impl[2], rl):
            errs.append(f"log-det {float(impl[2])} differs from the sum of the parts' log-dets {float(rl)}")
    return errs


def inputs_for(rng, shape, cshape):
    x = rng.integers(-4, 5, size=tuple(shape)).astype(np.float64)
    c = None if cshape is None else rng.integers(-3, 4, size=tuple(cshape)).astype(np.float64)
    return x, c


def wrong_shape(rng, shape):
    shape = list(shape)
    opts = [shape + [1], [1] + shape, shape[:-1] if shape else [2], [d + 1 for d in shape] if shape else [1], shape[::-1]]
    opts = [tuple(o) for o in opts if tuple(o) != tuple(shape)]
    return opts[int(rng.integers(0, len(opts)))]


def jcase(spec, meth=None, x=None, c=None):
    d = {"spec": spec}
    if meth is not None:
        d.update(method=meth, x_shape=list(np.shape(x)), x=np.asarray(x).ravel().tolist(),
                 c_shape=None if c is None else list(np.shape(c)), c=None if c is None else np.asarray(c).ravel().tolist())
    return d


REPRO = "cd /verif && ./check C08 --replay <this file>   # case.spec is rebuilt by harness.c08.build"


def check_tree(ctx, u, spec, rng, tag, with_oracle=True, n_inputs=1):
    """build the real object, compare shape/cond_shape and the four methods with the model; returns #requests"""
    try:
        ch = build_children(spec)
    except Exception as e:  # noqa: BLE001  (a generated child did not construct: generator problem, not a finding)
        ctx.notes.append(f"generator: child construction failed {type(e).__name__} {str(e)[:80]}")
        return
    try:
        b = build_top(spec, ch)
        built = None
    except Exception as e:  # noqa: BLE001
        b, built = None, f"{type(e).__name__}: {str(e)[:160]}"
    try:
        term = S.ser(b) if b is not None else top_term(spec, ch)
    except S.Unsupported as e:
        ctx.notes.append(f"unsupported by the serialiser: {e}")
        return
    msig = S.parse_sig(ctx.model([f"sig {term}"])[0])
    if msig == ("err", "unsupported"):
        u.hist["model-unsupported"] = u.hist.get("model-unsupported", 0) + 1
        return
    key = S.s_shape([]) + term
    # ---- constructor / declared shapes
    if b is None or msig[0] == "err":
        u.count(key, nontrivial=True, tag=f"{tag}:ctor-{'raises' if b is None else 'ok'}")
        if (b is None) != (msig[0] == "err"):
            u.disagreements += 1
            found = False
            what = (f"constructor {spec[0]} raised ({built}) but the model constructs shape {msig[1:]}" if b is None else
                    f"constructor {spec[0]} accepted arguments the model rejects ({msig}); declared shape {tuple(b.shape)}")
            if b is not None:  # oracle: an accepted object must be callable on its declared shape
                x, c = inputs_for(rng, b.shape, b.cond_shape)
                errs = oracle(b, "transform", x, c, call_impl(b, "transform", x, c))
                found = bool(errs)
                what += "; " + "; ".join(errs)
            ctx.violation(sig=f"ctor:{spec[0]}:{'raises' if b is None else 'accepts'}", what=what, case=jcase(spec), found_input=found,
                          unit=u.name, expected=str(msig), observed=built or "constructed", broken="correspondence tree-unit / C08_ctor_*",
                          reproducer=REPRO)
        return
    decl = (tuple(b.shape), None if b.cond_shape is None else tuple(b.cond_shape))
    if decl != (msig[1], msig[2]):
        u.count(key, nontrivial=True, tag=f"{tag}:shape")
        u.disagreements += 1
        x, c = inputs_for(rng, b.shape, b.cond_shape)
        errs = oracle(b, "transform", x, c, call_impl(b, "transform", x, c))
        ctx.violation(sig=f"shape:{spec[0]}", what=f"{spec[0]} declares (shape, cond_shape) = {decl}, the model computes {msig[1:]}"
                      + ("; " + "; ".join(errs) if errs else ""), case=jcase(spec, "transform", x, c), found_input=bool(errs), unit=u.name,
                      expected=str(msig[1:]), observed=str(decl), broken="correspondence tree-unit / C08_shape_sound", reproducer=REPRO)
        return
    # ---- methods
    cases = []
    for _ in range(n_inputs):
        x, c = inputs_for(rng, b.shape, b.cond_shape)
        for m in METHODS:
            cases.append((m, x, c, "good"))
    m = METHODS[int(rng.integers(0, 4))]
    x, c = inputs_for(rng, b.shape, b.cond_shape)
    if rng.random() < 0.5:
        cases.append((m, np.zeros(wrong_shape(rng, b.shape)), c, "wrong-x"))
    elif b.cond_shape is not None:
        cases.append((m, x, None if rng.random() < 0.4 else np.zeros(wrong_shape(rng, b.cond_shape)), "wrong-cond"))
    else:
        cases.append((m, x, np.ones((2,)), "unused-cond"))
    outs = ctx.model([f"run {m} {term} {S.s_tensor(x)} {S.s_otensor(c)}" for (m, x, c, _) in cases])
    for (m, x, c, kind), line in zip(cases, outs):
        model = S.parse_run(line)
        impl = call_impl(b, m, x, c)
        u.count(term + m + kind + str(x.tolist()) + str(None if c is None else c.tolist()),
                nontrivial=(depth_of(spec) >= 1 and impl[0] == "ok" and not np.array_equal(impl[1], x)) or kind != "good",
                tag=f"{tag}:{spec[0]}:{kind}")
        errs = oracle(b, m, x, c, impl) if (kind in ("good", "unused-cond") and with_oracle) else []
        if len(u.hashes) % 997 == 1:
            ctx.sample({"term": term[:300], "method": m, "x": x.tolist(), "c": None if c is None else c.tolist(),
                        "model": line[:200], "impl": str(impl)[:200]})
        if not same(impl, model) or errs:
            if not same(impl, model):
                u.disagreements += 1
            if kind in ("wrong-x", "wrong-cond") and not errs and impl[0] == "ok":
                errs = [f"{m} accepted a malformed input ({kind}: x.shape {x.shape}, condition {None if c is None else c.shape})"]
            ctx.violation(
                sig=f"{spec[0]}:{m}:{kind}:{'oracle' if errs else 'model-mismatch'}",
                what=("; ".join(errs) if errs else f"model {line[:160]} != implementation {str(impl)[:160]}"),
                case=jcase(spec, m, x, c), found_input=bool(errs), unit=u.name, expected=line[:400], observed=str(impl)[:400],
                broken="correspondence tree-unit / C08_run_is_den", reproducer=REPRO)


def nested_chain(G, shape, cshape, depth):
    """spec of a Chain with nested Chains (also below Invert, where merge_chains must NOT look)"""
    kids = []
    for _ in range(G.ri(1, 3)):
        u = G.r.random()
        if depth > 0 and u < 0.5:
            kids.append(nested_chain(G, shape, cshape, depth - 1))
        elif depth > 0 and u < 0.6:
            kids.append(["invert", nested_chain(G, shape, cshape, depth - 1)])
        else:
            kids.append(G.tree(shape, cshape, G.ri(0, 1)))
    return ["chain", kids]


def chain_unit(ctx, u, G, rng, n):
    """Chain.merge_chains / __getitem__ on real objects: same function (oracle), and the same as the model's merge_chains / chain_slice"""
    f = fj()
    fb = f["fb"]
    for i in range(n):
        sh = G.shape()
        cs = None if rng.random() < 0.5 else [[2], [2, 3], []][G.ri(0, 2)]
        spec = nested_chain(G, sh, cs, 1 + i % 3)
        try:
            b = build(spec)
            term = S.ser(b)
        except Exception as e:  # noqa: BLE001
            ctx.notes.append(f"chain generator: {type(e).__name__} {str(e)[:60]}")
            continue
        merged = b.merge_chains()
        x, c = inputs_for(rng, b.shape, b.cond_shape)
        info = ctx.model([f"mergeinfo {term}"])[0].split()
        errs = []
        if any(isinstance(k, fb.Chain) for k in merged.bijections):
            errs.append("merge_chains left a nested Chain")
        if (tuple(merged.shape), merged.cond_shape) != (tuple(b.shape), b.cond_shape):
            errs.append(f"merge_chains changed (shape, cond_shape) from {(b.shape, b.cond_shape)} to {(merged.shape, merged.cond_shape)}")
        struct_ok = info == [str(len(merged.bijections)), "false"]
        n_kids = len(b.bijections)
        lo = [None, 0, 1, -1, -2, n_kids][G.ri(0, 5)]
        hi = [None, n_kids, -1, 1, 2][G.ri(0, 4)]
        try:
            sl = b[lo:hi]
        except Exception:  # noqa: BLE001   (empty slice: Chain([]) raises)
            sl = None
        k = G.ri(0, n_kids - 1)
        if b[k] is not b.bijections[k]:
            errs.append(f"chain[{k}] is not the {k}-th bijection")
        if len(b) != n_kids or any(p is not q for p, q in zip(list(b), b.bijections)) or len(list(b)) != n_kids:
            errs.append(f"len(chain) = {len(b)} / iteration over the chain does not yield its {n_kids} bijections in order")
        for bad_ix in (1.0, "0", (0, 1)):
            try:
                b[bad_ix]
                errs.append(f"chain[{bad_ix!r}] (an index that is neither an int nor a slice) did not raise")
            except Exception:  # noqa: BLE001
                pass
        reqs = [f"runmerged {m} {term} {S.s_tensor(x)} {S.s_otensor(c)}" for m in METHODS]
        reqs += [f"runslice {m} {term} {S.s_oint(lo)} {S.s_oint(hi)} {S.s_tensor(x)} {S.s_otensor(c)}" for m in METHODS]
        outs = [S.parse_run(l) for l in ctx.model(reqs)]
        for j, m in enumerate(METHODS):
            orig, mer = call_impl(b, m, x, c), call_impl(merged, m, x, c)
            u.count(term + m + str(x.tolist()), nontrivial=len(merged.bijections) != n_kids, tag=f"merge:depth{1 + i % 3}")
            if orig[0] != "ok" or mer[0] != "ok" or not np.array_equal(orig[1], mer[1]) or (orig[2] is not None and not close_ld(orig[2], mer[2])):
                errs.append(f"merge_chains changed {m}: {str(orig)[:120]} -> {str(mer)[:120]}")
            agree = same(mer, outs[j]) and struct_ok
            if sl is not None:
                sc = sl.cond_shape
                si = call_impl(sl, m, x, None if sc is None else c)
                agree = agree and same(si, outs[4 + j] if sc is not None or c is None else S.parse_run(
                    ctx.model([f"runslice {m} {term} {S.s_oint(lo)} {S.s_oint(hi)} {S.s_tensor(x)} none"])[0]))
                u.count(term + m + f"[{lo}:{hi}]", nontrivial=True, tag="slice")
            else:
                agree = agree and outs[4 + j][0] == "err"
            if errs or not agree:
                u.disagreements += not agree
                ctx.violation(sig=f"chain:{m}:{'oracle' if errs else 'model-mismatch'}",
                              what="; ".join(errs) if errs else f"model merge/slice differs from the implementation: mergeinfo {info} vs {len(merged.bijections)} children; "
                                                                 f"merged impl {str(mer)[:100]} model {str(outs[j])[:100]}; slice [{lo}:{hi}]",
                              case=jcase(spec, m, x, c), found_input=bool(errs), unit=u.name, broken="chain-unit / C08_merge_chains_same / C08_chain_slice_same",
                              reproducer=REPRO)
        # stepped slices (definition: Chain of list(chain)[lo:hi:step], python slice semantics incl. negative steps)
        jnp = f["jnp"]
        long = fb.Chain([*b.bijections, *[fb.Loc(jnp.full(tuple(b.shape), float(k + 1))) for k in range(3)]])
        for tgt in (b, long):
            kids = list(tgt.bijections)
            for _ in range(2):
                st = [2, -1, 3, -2, 1][G.ri(0, 4)]
                lo2 = [None, 0, 1, -1, len(kids) - 1][G.ri(0, 4)]
                hi2 = [None, len(kids), -1, 0, 2][G.ri(0, 4)]
                want = kids[lo2:hi2:st]
                u.count(term + f"[{lo2}:{hi2}:{st}]" + str(len(kids)), nontrivial=st != 1 and len(want) > 0, tag="slice-step")
                try:
                    got = tgt[lo2:hi2:st]
                except Exception as e:  # noqa: BLE001
                    if want:  # only the empty chain may be refused
                        ctx.violation(sig="chain:slice-step:raised", what=f"chain[{lo2}:{hi2}:{st}] of a {len(kids)}-layer Chain raised {type(e).__name__} "
                                      f"but list(chain)[{lo2}:{hi2}:{st}] has {len(want)} layers", case=jcase(spec, "transform", x, c), found_input=True,
                                      unit=u.name, broken="chain-unit (stepped slice)", reproducer=REPRO)
                    continue
                if len(got.bijections) != len(want) or any(g_ is not w_ for g_, w_ in zip(got.bijections, want)):
                    ctx.violation(sig="chain:slice-step", what=f"chain[{lo2}:{hi2}:{st}] of a {len(kids)}-layer Chain has {len(got.bijections)} layers, "
                                  f"list(chain)[{lo2}:{hi2}:{st}] has {len(want)} (or different ones): the sliced Chain computes a different function",
                                  case=jcase(spec, "transform", x, c), found_input=True, unit=u.name, broken="chain-unit (stepped slice)", reproducer=REPRO)
        # composition: chain[:i] then chain[i:] is the chain (forward direction)
        if n_kids >= 2:
            i0 = G.ri(1, n_kids - 1)
            a, bb = b[:i0], b[i0:]
            y1 = call_impl(a, "transform_and_log_det", x, None if a.cond_shape is None else c)
            if y1[0] == "ok":
                y2 = call_impl(bb, "transform_and_log_det", y1[1], None if bb.cond_shape is None else c)
                whole = call_impl(b, "transform_and_log_det", x, c)
                if y2[0] != "ok" or whole[0] != "ok" or not np.array_equal(y2[1], whole[1]) or not close_ld(y1[2] + y2[2], whole[2]):
                    ctx.violation(sig="chain:slice-composition", what=f"chain[:{i0}] followed by chain[{i0}:] differs from the chain",
                                  case=jcase(spec, "transform_and_log_det", x, c), found_input=True, unit=u.name, reproducer=REPRO)


def merge_transforms_unit(ctx, u, G, rng, n):
    """Transformed.merge_transforms never changes the density (oracle only)"""
    f = fj()
    jnp = f["jnp"]
    import flowjax.distributions as fd

    for i in range(n):
        sh = G.shape(G.ri(0, 2))
        d = fd.StandardNormal(tuple(sh))
        specs = []
        for _ in range(G.ri(2, 3)):
            sp = G.tree(sh, None, G.ri(0, 1)) if rng.random() < 0.6 else nested_chain(G, sh, None, 1)
            specs.append(sp)
            try:
                d = fd.Transformed(d, build(sp))
            except Exception as e:  # noqa: BLE001   the generator only produces valid trees: a constructor that rejects one is a finding, not a crash
                ctx.violation(sig="ctor:valid-tree-rejected", what=f"a valid combinator tree could not be constructed: {type(e).__name__}: {str(e)[:160]} (tree {str(sp)[:200]})",
                              case=jcase(sp), found_input=True, unit=u.name, expected="constructs (the model's sig_of is Ok)", observed=f"{type(e).__name__}", broken="constructor iff-conditions / C08 shape soundness")
                d = None
                break
        if d is None:
            continue
        m = d.merge_transforms()
        x = jnp.asarray(rng.integers(-3, 4, size=tuple(sh)).astype(np.float64))
        lp, lm = float(d.log_prob(x)), float(m.log_prob(x))
        u.count(str(specs) + str(np.asarray(x).tolist()), nontrivial=True, tag="merge_transforms")
        bad = []
        if isinstance(m.base_dist, fd.AbstractTransformed):
            bad.append("merge_transforms left a nested Transformed")
        if not (abs(lp - lm) <= 1e-9 * max(1.0, abs(lp)) or (lp != lp and lm != lm) or lp == lm):
            bad.append(f"log_prob changed from {lp} to {lm}")
        if bad:
            ctx.violation(sig="merge_transforms", what="; ".join(bad), case={"specs": specs, "x": np.asarray(x).tolist()}, found_input=True,
                          unit=u.name, reproducer="see case.specs (harness.c08.build) nested in Transformed(StandardNormal)")


def vmap_axes_unit(ctx):
    """Vmap(bijection, in_axes=<pytree>) with parameter leaves mapped along a NON-leading axis (1, -1) and non-square leaves, mixed with
    leaves mapped along axis 0 and broadcast leaves: by definition the bijection that applies to x[i] the wrapped bijection with
    the i-th slices of the mapped parameters.  Oracle only (the model's Vmap maps parameters along axis 0).  (Seeded change C08d.)"""
    f = fj()
    fb, jnp, eqx = f["fb"], f["jnp"], f["eqx"]
    from jax.tree_util import tree_map
    from flowjax.wrappers import unwrap

    u = ctx.unit("vmap-axes-unit", "Vmap with in_axes pytrees mapping parameter leaves along axes 0 / 1 / -1 (non-square leaves) vs the slice-by-slice "
                                   "definition: declared shape, four methods, scalar log-det")
    rng = ctx.rng
    for rep in range(6 if ctx.quick else 40):
        N, D = int(rng.integers(2, 5)), int(rng.integers(1, 4))
        if N == D:
            N += 1
        loc_axis = [1, -1, 0][rep % 3]
        scale_axis = [None, 1, 0, -1][(rep // 3) % 4]
        inner = fb.Affine(jnp.zeros(D), jnp.ones(D))
        locs = rng.integers(-4, 5, (N, D)).astype(float)
        scales = 2.0 ** rng.integers(-2, 3, (N, D))
        put = lambda a, ax: jnp.asarray(a if ax == 0 else a.T)  # noqa: E731  (N, D) for axis 0, (D, N) for axis 1 / -1
        stacked = eqx.tree_at(lambda b: b.loc, inner, put(locs, loc_axis))
        if scale_axis is not None:
            stacked = eqx.tree_at(lambda b: b.scale, stacked, put(scales, scale_axis))  # plain array replaces the reparameterised scale
        else:
            stacked = eqx.tree_at(lambda b: b.scale, stacked, jnp.asarray(scales[0]))
        in_axes = tree_map(lambda _: None, unwrap(stacked))
        in_axes = eqx.tree_at(lambda b: b.loc, in_axes, loc_axis, is_leaf=lambda l: l is None)
        if scale_axis is not None:
            in_axes = eqx.tree_at(lambda b: b.scale, in_axes, scale_axis, is_leaf=lambda l: l is None)
        x = rng.integers(-3, 4, (N, D)).astype(float)
        u.count((N, D, loc_axis, scale_axis, x.tolist()), tag=f"loc{loc_axis},scale{scale_axis}")
        errs = []
        try:
            vm = fb.Vmap(stacked, in_axes=in_axes)
            if tuple(vm.shape) != (N, D):
                errs.append(f"declares shape {tuple(vm.shape)}, the definition gives {(N, D)}")
            for m in METHODS:
                got = getattr(vm, m)(jnp.asarray(x))
                sc = scales if scale_axis is not None else np.broadcast_to(scales[0], (N, D))
                y = x * sc + locs if "transform" in m else (x - locs) / sc
                ld = float(np.sum(np.log(np.abs(sc)))) * (1 if "transform" in m else -1)
                gy = np.asarray(got[0] if isinstance(got, tuple) else got, dtype=float)
                if gy.shape != (N, D) or not np.array_equal(gy, y):
                    errs.append(f"{m} returns {gy.tolist()} but slice by slice the definition gives {y.tolist()}")
                if isinstance(got, tuple) and (np.ndim(got[1]) != 0 or not close_ld(float(got[1]), ld)):
                    errs.append(f"{m} log-det {np.asarray(got[1]).tolist()} but the sum over slices is {ld}")
        except Exception as e:  # noqa: BLE001
            errs.append(f"raised {type(e).__name__}: {str(e)[:100]}")
        if errs:
            ctx.violation(sig=f"vmap-axes:loc{loc_axis}:scale{scale_axis}", what=f"Vmap(Affine of shape ({D},), loc mapped along axis {loc_axis} [{N} slices], scale "
                          f"{'broadcast' if scale_axis is None else 'mapped along axis ' + str(scale_axis)}): " + "; ".join(errs[:3]),
                          case=dict(unit="vmap-axes-unit", N=N, D=D, loc_axis=loc_axis, scale_axis=scale_axis, loc=locs.tolist(), scale=scales.tolist(), x=x.tolist()),
                          found_input=True, unit=u.name, broken="vmap-axes-unit (definition of Vmap with an in_axes pytree)", reproducer=REPRO)


def run(ctx):
    fj()
    rng = ctx.rng
    G = Gen(rng)
    u = ctx.unit("tree-unit", "random combinator trees over exact-integer leaves built as real flowjax objects vs Model.Bij.run / sig_of: "
                              "shape, cond_shape, four methods (values exact, log-det 1e-9), wrong-shape inputs; non-trivial = a combinator "
                              "at the root and output differs from the input, or a malformed input")
    uc = ctx.unit("ctor-unit", "top-level constructor calls with (mostly) incompatible arguments over valid children: raises iff the model's "
                               "sig_of is Err; all count as non-trivial")
    ud = ctx.unit("directed-unit", "every combinator x every rank 1-3 x EVERY axis in -(r+1)..r (Concatenate, Stack, Vmap condition axis), "
                                   "children distinct; plus Partial with every index kind")
    um = ctx.unit("chain-unit", "nested Chains: merge_chains() and chain[lo:hi] on the real object compute the same function (oracle) and "
                                "agree with Model.Bij.merge_chains / chain_slice; chain[:i] then chain[i:] composes to the chain")
    ut = ctx.unit("merge-transforms-unit", "Transformed.merge_transforms keeps log_prob and removes the nesting (oracle only; no model)")
    chain_unit(ctx, um, G, rng, 40 if ctx.quick else 500)
    merge_transforms_unit(ctx, ut, G, rng, 15 if ctx.quick else 300)
    n_trees = 260 if ctx.quick else 3000
    n_bad = 160 if ctx.quick else 2000
    # ---- directed: all axes
    for r in range(0, 4):
        for rep in range(1 if ctx.quick else 6):
            sh = G.shape(r)
            for ax in range(-(r + 2), r + 2):
                if r >= 1 and -r <= ax < r:
                    n = sh[ax]
                    sizes = [1] * n if n <= 2 else [1, n - 1]
                    kids = [G.tree([s if i == ax % r else d for i, d in enumerate(sh)], [2], 0) for s in sizes]
                    check_tree(ctx, ud, ["concat", ax, kids], rng, f"rank{r}:axis{ax}")
                else:
                    check_tree(ctx, ud, ["concat", ax, [G.tree(sh, None, 0)]], rng, f"rank{r}:axis{ax}:invalid")
                kids = [G.tree(sh, [2], 0) for _ in range(2)]
                check_tree(ctx, ud, ["stack", ax, kids], rng, f"rank{r}:axis{ax}")
                # Vmap condition axis: child cond shape sh, declared cond shape has n inserted at ax
                child = G.force_cond(G.tree([2], sh, 0), [2], sh)
                check_tree(ctx, ud, ["vmap_b", 3, ax, child], rng, f"crank{r}:cax{ax}")
                check_tree(ctx, ud, ["vmap_m", ax, [child, G.perturb(child), G.perturb(child)]], rng, f"crank{r}:cax{ax}:mapped")
    for rep in range(40 if ctx.quick else 600):
        sh = G.shape(G.ri(1, 3))
        idx, sub = G.index(sh)
        check_tree(ctx, ud, ["partial", idx, sh, G.tree(sub, [2], 0)], rng, f"partial:{idx[0]}")
    # JAX index conventions the model mirrors: an out-of-range int / int-array entry wraps once, then the gather clamps and
    # the scatter drops it (NumPy would raise, so the oracle is silent here; model vs implementation only)
    for n in (2, 3):
        for idx in (["int", n], ["int", n + 2], ["int", -n - 1], ["int", -n - 3], ["arr", [0, n + 1]], ["arr", [-n - 2, 1]],
                    ["arr", [n, -n - 1]], ["tuple", [["int", n + 1], ["slice", None, None, -1]]]):
            sub = list(np.zeros((n, 2))[np_idx_of(["int", 0]) if idx[0] == "int" else (np_idx_of(["arr", [0] * len(idx[1])]) if idx[0] == "arr"
                                        else (0, slice(None, None, -1)))].shape)
            check_tree(ctx, ud, ["partial", idx, [n, 2], G.tree(sub, None, 0)], rng, f"partial-oob:{idx[0]}")
    for n, inner in ((3, []), (2, [2]), (3, [1, 2])):  # parameters partly mapped, partly broadcast (in_axes given as a pytree)
        check_tree(ctx, ud, ["vmap_p", n, inner, G.ints([n, *inner]), G.pow2(inner)], rng, "vmap:in_axes-pytree")
    for spec, tag in directed_ctor_specs(G, ctx.quick):
        check_tree(ctx, uc, spec, rng, tag)
    # ---- random trees
    for i in range(n_trees):
        sh = G.shape()
        cs = None if rng.random() < 0.35 else [[2], [3], [2, 3], [3, 2], [], [2, 2]][G.ri(0, 5)]
        depth = 1 + (i % 3) if ctx.quick else 1 + (i % 4)
        spec = G.tree(sh, cs, depth)
        check_tree(ctx, u, spec, rng, f"depth{depth_of(spec)}", n_inputs=1 if ctx.quick else 2)
    # ---- constructor stream
    for i in range(n_bad):
        check_tree(ctx, uc, G.bad_ctor(), rng, "ctor")
    ctx.assumptions += [
        "all axis sizes >= 1 (zero-sized axes are outside the model)",
        "leaf arithmetic is exact in float64: integer locations/inputs, power-of-two scales, integer condition weights",
        "a Partial index holds at most one array (int or bool, 1-d) and no python int beside it; int-array positions distinct",
        "Scan / mapped Vmap children are the parameter slices of one stacked module (same structure)",
    ]
    vmap_axes_unit(ctx)


def replay(ctx, rep):
    fj()
    c = rep["case"]
    if "spec" not in c:
        print("obligation replay: rebuild and re-check", c)
        return False
    spec = c["spec"]
    try:
        b = build(spec)
    except Exception as e:  # noqa: BLE001
        ch = build_children(spec)
        msig = S.parse_sig(ctx.model([f"sig {top_term(spec, ch)}"])[0])
        print("constructor raised", type(e).__name__, str(e)[:200], "model", msig)
        return msig[0] == "err"
    term = S.ser(b)
    msig = S.parse_sig(ctx.model([f"sig {term}"])[0])
    decl = (tuple(b.shape), None if b.cond_shape is None else tuple(b.cond_shape))
    print("declared", decl, "model", msig)
    ok = msig[0] == "ok" and decl == (msig[1], msig[2])
    if "method" in c:
        todo = [(c["method"], np.array(c["x"], dtype=np.float64).reshape(c["x_shape"]),
                 None if c["c"] is None else np.array(c["c"], dtype=np.float64).reshape(c["c_shape"]))]
    else:
        x, cc = inputs_for(np.random.default_rng(0), b.shape, b.cond_shape)
        todo = [(m, x, cc) for m in METHODS]
    for m, x, cc in todo:
        impl = call_impl(b, m, x, cc)
        good = tuple(x.shape) == tuple(b.shape) and (b.cond_shape is None or (cc is not None and tuple(cc.shape) == tuple(b.cond_shape)))
        errs = oracle(b, m, x, cc, impl) if good else ([] if impl[0] == "err" else ["malformed input accepted"])
        model = S.parse_run(ctx.model([f"run {m} {term} {S.s_tensor(x)} {S.s_otensor(cc)}"])[0]) if msig[0] == "ok" else ("err", "ctor")
        print(m, "impl", str(impl)[:200], "model", str(model)[:200], "oracle", errs)
        ok = ok and not errs and same(impl, model)
    return ok
