(* Driver of group "safe" (coq/Model/Expr.v extracted): the expression language run in IEEE doubles.
   One request per line, one result per line.  Floats are C99 hex (or nan/inf/-inf), vectors comma separated.

     lp   <kind> <inverted> <normal> <scalars> <xp> <yp> <dv> <x> <pg>
            log_prob of Transformed(StandardNormal | Normal(bloc,bscale), leaf | Invert(leaf)) at x:
            -> "<raw value> <value after where(isnan,-inf)> <d/dx> <safeb> [<d/dxp> <d/dyp> <d/ddv> <d/dscalars>]"
            scalars = m,g,ic,lo,hi,loc,scale,bloc,bscale   (Var 1..9; Var 0 is x)
     term <fn> <kind> <scalars> <xp> <yp> <dv> <x>       fn = fwd | inv | ldfwd | ldinv | deriv
            -> "<value> <d/dx> <safeb>"
     prim <k> <a> <b> <d> <g>    the single primitive prim_t k on Var 0..2 with cotangent g
            -> "<value> <d/da> <d/db> <d/dd>"
     crit <kind> <inverted> <normal> <scalars> <xp> <yp> <dv> <x>  -> constants the term compares against
     classes <a> <b>   (Fin|PInf|NInf|NaN)  -> possible classes of log_prob = post(p_z + ld)
     chain <normal> <outer_inverted> <layers> <scalars> <arrays> <x>
            log_prob of Transformed(StandardNormal | Normal, Chain[layers] | Invert(Chain[layers])) (Model.Expr.lp_chain);
            layers = kind:inverted,...   scalars = bloc,bscale, then m,g,ic,lo,hi,loc,scale per layer
            arrays = x_pos;y_pos;derivatives per layer (";" separated, "-" = empty)
            -> "<raw value> <value after where(isnan,-inf)> <d/dx> <safeb> <margin>"
     chaincrit <same arguments>  -> constants the composed term compares against *)
open Safe
open Conv
open Fops
let o = Fops.ops
let fl = float_of_string
let kind_of = function
  | "affine" -> LAffine | "exp" -> LExp | "softplus" -> LSoftplus | "tanh" -> LTanh | "leaky" -> LLeaky
  | "rqs" -> LRqs | "leakyold" -> LLeakyOld | "rqsold" -> LRqsOld | "rqszero" -> LRqsZero | s -> failwith ("kind " ^ s)
let mkenv x scalars xp yp dv = { vars = x :: scalars; pars = [xp; yp; dv] }
let tvar i = TVar (nat_of_int i)
let tpar p j = TPar (nat_of_int p, z_of_int j)
let bstr b = if b then "1" else "0"
let grads en e g0 p n = List.init n (fun j -> vjp o en e g0 (tpar p j))
let cls_of = function "Fin" -> Fin | "PInf" -> PInf | "NInf" -> NInf | "NaN" -> NaN | s -> failwith s
let cls_str = function Fin -> "Fin" | PInf -> "PInf" | NInf -> "NInf" | NaN -> "NaN"

let layers_of s =
  List.map (fun t -> match String.split_on_char ':' t with
    | [k; i] -> (kind_of k, bool_of i) | _ -> failwith ("layer " ^ t)) (String.split_on_char ',' s)
let arrays_of s = List.map floats_of (String.split_on_char ';' s)
let chain_env scalars arrays x = { vars = fl x :: floats_of scalars; pars = arrays_of arrays }

let handle toks =
  match toks with
  | ["chain"; normal; outer; layers; scalars; arrays; x] ->
      let en = chain_env scalars arrays x in
      let e = lp_chain (bool_of normal) (bool_of outer) (layers_of layers) in
      let raw = eval o en e in
      let isn = Float.is_nan raw in
      let v = if isn then Float.neg_infinity else raw in
      let gx = vjp o en e (if isn then 0. else 1.) (tvar 0) in
      Printf.sprintf "%s %s %s %s %s" (hexf raw) (hexf v) (hexf gx) (bstr (safeb o en e)) (hexf (margin o en e))
  | ["chaincrit"; normal; outer; layers; scalars; arrays; x] ->
      let en = chain_env scalars arrays x in
      str_floats (crit o en (lp_chain (bool_of normal) (bool_of outer) (layers_of layers)))
  | ["lp"; kind; inverted; normal; scalars; xp; yp; dv; x; pg] ->
      let xp = floats_of xp and yp = floats_of yp and dv = floats_of dv and scalars = floats_of scalars in
      let en = mkenv (fl x) scalars xp yp dv in
      let e = lp_t (kind_of kind) (bool_of inverted) (bool_of normal) in
      let raw = eval o en e in
      (* AbstractDistribution.log_prob: where(isnan(lps), -inf, lps); its adjoint sends 0 to lps when it was NaN *)
      let isn = Float.is_nan raw in
      let v = if isn then Float.neg_infinity else raw in
      let g0 = if isn then 0. else 1. in
      let gx = vjp o en e g0 (tvar 0) in
      let base = Printf.sprintf "%s %s %s %s" (hexf raw) (hexf v) (hexf gx) (bstr (safeb o en e)) in
      if bool_of pg then
        Printf.sprintf "%s %s %s %s %s" base
          (str_floats (grads en e g0 0 (List.length xp))) (str_floats (grads en e g0 1 (List.length yp)))
          (str_floats (grads en e g0 2 (List.length dv)))
          (str_floats (List.init (List.length scalars) (fun i -> vjp o en e g0 (tvar (i + 1)))))
      else base
  | ["term"; fn; kind; scalars; xp; yp; dv; x] ->
      let xp = floats_of xp and yp = floats_of yp and dv = floats_of dv and scalars = floats_of scalars in
      let en = mkenv (fl x) scalars xp yp dv in
      let k = kind_of kind in
      let e = (match fn with
        | "fwd" -> fwd_t k vX | "inv" -> inv_t k vX | "ldfwd" -> ld_fwd_t k vX | "ldinv" -> ld_inv_t k vX
        | "deriv" -> (match k with LRqsOld -> rqs_deriv_old_t nV vLO vHI vX | LRqsZero -> rqs_deriv_zero_t nV vLO vHI vX
                               | _ -> rqs_deriv_t nV vLO vHI vX)
        | s -> failwith ("fn " ^ s)) in
      Printf.sprintf "%s %s %s" (hexf (eval o en e)) (hexf (vjp o en e 1. (tvar 0))) (bstr (safeb o en e))
  | ["prim"; k; a; b; d; g] ->
      let en = { vars = [fl a; fl b; fl d]; pars = [] } in
      let e = prim_t (nat_of_int (int_of_string k)) in
      let g = fl g in
      Printf.sprintf "%s %s %s %s" (hexf (eval o en e)) (hexf (vjp o en e g (tvar 0))) (hexf (vjp o en e g (tvar 1)))
        (hexf (vjp o en e g (tvar 2)))
  | ["crit"; kind; inverted; normal; scalars; xp; yp; dv; x] ->
      let xp = floats_of xp and yp = floats_of yp and dv = floats_of dv and scalars = floats_of scalars in
      let en = mkenv (fl x) scalars xp yp dv in
      str_floats (crit o en (lp_t (kind_of kind) (bool_of inverted) (bool_of normal)))
  | ["classes"; a; b] -> String.concat "," (List.map cls_str (log_prob_classes (cls_of a) (cls_of b)))
  | _ -> "ERR unknown-request"

let () =
  try
    while true do
      let line = input_line stdin in
      let out = try handle (split_ws line) with e -> "ERR " ^ Printexc.to_string e in
      print_endline out
    done
  with End_of_file -> ()
