(* The NumOps record at OCaml floats (IEEE binary64).  Trusted: each primitive approximates the
   real function that Proofs/RNum.v names (libm; atanh, softplus, lgamma written here). *)
open MODEL
let rec fpos = function XH -> 1. | XO q -> 2. *. fpos q | XI q -> 2. *. fpos q +. 1.
let fz = function Z0 -> 0. | Zpos q -> fpos q | Zneg q -> -. fpos q
let softplus x = (* jax.nn.softplus = logaddexp(x, 0) *)
  if Float.is_nan x then x else Float.max x 0. +. Float.log1p (Float.exp (-. Float.abs x))
let atanh x = 0.5 *. (Float.log1p x -. Float.log1p (-. x))
let sign x = if Float.is_nan x then x else if x > 0. then 1. else if x < 0. then -1. else 0.
(* Lanczos approximation, g = 7, n = 9 (for x > 0 after reflection) *)
let lanczos = [| 0.99999999999980993; 676.5203681218851; -1259.1392167224028; 771.32342877765313;
  -176.61502916214059; 12.507343278686905; -0.13857109526572012; 9.9843695780195716e-6; 1.5056327351493116e-7 |]
let rec lgamma x =
  if x < 0.5 then Float.log (Float.pi /. Float.abs (Float.sin (Float.pi *. x))) -. lgamma (1. -. x)
  else begin
    let x = x -. 1. in
    let a = ref lanczos.(0) in
    let t = x +. 7.5 in
    for i = 1 to 8 do a := !a +. lanczos.(i) /. (x +. float_of_int i) done;
    0.5 *. Float.log (2. *. Float.pi) +. (x +. 0.5) *. Float.log t -. t +. Float.log !a
  end
let ops : float numOps = {
  n_add = ( +. ); n_sub = ( -. ); n_mul = ( *. ); n_div = ( /. );
  n_neg = (fun x -> -. x); n_abs = Float.abs; n_sign = sign;
  n_exp = Float.exp; n_log = Float.log; n_tanh = Float.tanh; n_atanh = atanh;
  n_softplus = softplus; n_log1p = Float.log1p; n_expm1 = Float.expm1; n_sqrt = Float.sqrt;
  n_lgamma = lgamma; n_pi = Float.pi;
  n_leb = (fun a b -> a <= b); n_ltb = (fun a b -> a < b); n_eqb = (fun a b -> a = b);
  n_ofZ = fz }
