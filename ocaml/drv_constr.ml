(* Driver for the extracted model of C11 (Model/Constr.v) run at OCaml floats (Fops.ops).
   One request per line: "<unit> <args...>"; floats as C99 hex; vectors comma separated ("-" = empty);
   matrices: rows separated by ';'.  One result per line. *)
open Constr
open Conv
open Fops

let o = Fops.ops
let f = float_of_string
let mat_of s = if s = "" || s = "-" then [] else List.map floats_of (String.split_on_char ';' s)
let str_mat m = if m = [] then "-" else String.concat ";" (List.map str_floats m)
let b x = if x then "1" else "0"

let handle (toks : string list) : string =
  match toks with
  | ["pos.unwrap"; v] -> str_floats (pos_unwrap o (floats_of v))
  | ["pos.init"; v] -> str_floats (pos_init o (floats_of v))
  | ["pos.rt"; v] -> str_floats (pos_unwrap o (pos_init o (floats_of v)))
  | ["rej.pos"; v] -> b (pos_rejects o (floats_of v))
  | ["rej.df"; v] -> b (df_rejects o (floats_of v))
  | ["rej.mix"; v] -> b (mix_rejects o (floats_of v))
  | ["rej.tri"; m] -> b (tri_rejects o (mat_of m))
  | ["rej.uniform"; lo; hi] -> b (uniform_rejects o (f lo) (f hi))
  | ["rej.rate"; r] -> b (rate_rejects o (f r))
  | ["rej.minscale"; ms] -> b (min_scale_rejects o (f ms))
  | ["rej.planar"; s] -> b (planar_rejects o (f s))
  | ["rej.knots"; a] -> b (knots_rejects o (f a))
  | ["rej.perm"; p] -> b (perm_rejects (List.map z_of_int (ints_of p)))
  | ["uniform.init"; lo; hi] -> hexf (uniform_init o (f lo) (f hi))
  | ["uniform.maxval"; lo; raw] -> str_floats (List.map2 (uniform_maxval o) (floats_of lo) (floats_of raw))
  | ["rate.init"; r] -> hexf (rate_init o (f r))
  | ["rate.of"; raw] -> str_floats (List.map (rate_of o) (floats_of raw))
  | ["mix.init"; w] -> str_floats (mix_init o (floats_of w))
  | ["mix.logw"; raw] -> str_floats (mix_logw o (floats_of raw))
  | ["mix.weights"; raw] -> str_floats (mix_weights o (floats_of raw))
  | ["minscale.init"; ms] -> hexf (min_scale_init o (f ms))
  | ["minscale.unwrap"; ms; raw] -> str_floats (List.map (min_scale_unwrap o (f ms)) (floats_of raw))
  | ["knots"; lo; hi; adj; raw] -> str_floats (knots o (f lo) (f hi) (f adj) (floats_of raw))
  | ["derivs"; md; raw] -> str_floats (derivs o (f md) (floats_of raw))
  | ["deriv.init"; md] -> hexf (deriv_init o (f md))
  | ["planar"; slope; w; u] ->
      let w = floats_of w and u = floats_of u in
      let sl = if slope = "none" then None else Some (f slope) in
      str_floats (planar_act_scale o sl w u) ^ " " ^ hexf (planar_wu o sl w u)
  | ["planar.denom"; slope; s; w; u] -> hexf (planar_denom o (f slope) (f s) (floats_of w) (floats_of u))
  | ["planar.denom.old"; s; w; u] -> hexf (planar_denom_old o (f s) (floats_of w) (floats_of u))
  | ["wn.unwrap"; raw; rows] -> str_mat (wn_unwrap o (floats_of raw) (mat_of rows))
  | ["wn.norms"; raw; rows] -> str_floats (List.map (norm o) (wn_unwrap o (floats_of raw) (mat_of rows)))
  | ["wn.init"; rows] -> str_floats (wn_init o (mat_of rows))
  | ["tri.unwrap"; lower; raw; arr] -> str_mat (tri_unwrap o (bool_of lower) (floats_of raw) (mat_of arr))
  | ["tri.init"; arr] -> str_floats (tri_init o (mat_of arr))
  | ["tri.cov"; lower; raw; arr] -> str_mat (mmulT o (tri_unwrap o (bool_of lower) (floats_of raw) (mat_of arr)))
  | _ -> "ERR unknown-request"

let () =
  try
    while true do
      let line = input_line stdin in
      let out = try handle (split_ws line) with e -> "ERR " ^ Printexc.to_string e in
      print_endline out
    done
  with End_of_file -> ()
