(* Driver for the leaf-bijection models.  Request (space separated; vectors comma separated hex floats):
     <kind> <method> <params...> <x>
   method: fwd | inv | fwdld | invld ; reply: "<y vector> <log_det>" (log_det "-" for fwd/inv). *)
open Leaves
open Conv
open Fops
let o = Fops.ops
let fl = float_of_string
let neg x = -. x
let out ys ld = str_floats ys ^ " " ^ (match ld with None -> "-" | Some l -> hexf l)
let rec chunks n l = if l = [] then [] else
  let rec take k l = if k = 0 then ([], l) else match l with [] -> ([], []) | h :: t -> let (a, b) = take (k-1) t in (h :: a, b) in
  let (a, b) = take n l in a :: chunks n b
(* elementwise kind: f per element, ld per element *)
let elementwise meth ffwd finv ldf ldi xs =
  match meth with
  | "fwd" -> out (List.map ffwd xs) None
  | "inv" -> out (List.map finv xs) None
  | "fwdld" -> out (List.map ffwd xs) (Some (lift_ld o ldf xs))
  | "invld" -> out (List.map finv xs) (Some (lift_ld o ldi xs))
  | _ -> "ERR method"
let handle toks =
  match toks with
  | ["affine"; meth; loc; scale; x] ->
      let loc = floats_of loc and scale = floats_of scale and x = floats_of x in
      let sumld = sum o (List.map (affine_ld o) scale) in
      (match meth with
       | "fwd" -> out (lift3 (affine_fwd o) loc scale x) None
       | "inv" -> out (lift3 (affine_inv o) loc scale x) None
       | "fwdld" -> out (lift3 (affine_fwd o) loc scale x) (Some sumld)
       | "invld" -> out (lift3 (affine_inv o) loc scale x) (Some (neg sumld))
       | _ -> "ERR method")
  | ["loc"; meth; loc; x] ->
      let loc = floats_of loc and x = floats_of x in
      (match meth with
       | "fwd" -> out (lift2 (loc_fwd o) loc x) None | "inv" -> out (lift2 (loc_inv o) loc x) None
       | "fwdld" -> out (lift2 (loc_fwd o) loc x) (Some 0.) | "invld" -> out (lift2 (loc_inv o) loc x) (Some 0.)
       | _ -> "ERR method")
  | ["scale"; meth; scale; x] ->
      let scale = floats_of scale and x = floats_of x in
      let sumld = sum o (List.map (affine_ld o) scale) in
      (match meth with
       | "fwd" -> out (lift2 (scale_fwd o) scale x) None | "inv" -> out (lift2 (scale_inv o) scale x) None
       | "fwdld" -> out (lift2 (scale_fwd o) scale x) (Some sumld) | "invld" -> out (lift2 (scale_inv o) scale x) (Some (neg sumld))
       | _ -> "ERR method")
  | ["exp"; meth; x] -> elementwise meth (exp_fwd o) (exp_inv o) (exp_ld_fwd) (exp_ld_inv o) (floats_of x)
  | ["softplus"; meth; x] -> elementwise meth (softplus_fwd o) (softplus_inv o) (softplus_ld_fwd o) (softplus_ld_inv o) (floats_of x)
  | ["tanh"; meth; x] -> elementwise meth (tanh_fwd o) (tanh_inv o) (tanh_ld_fwd o) (tanh_ld_inv o) (floats_of x)
  | ["leaky"; meth; m; g; ic; x] ->
      let m = fl m and g = fl g and ic = fl ic in
      elementwise meth (leaky_fwd o m g ic) (leaky_inv o m g ic) (leaky_ld_fwd o m g) (leaky_ld_inv o m g ic) (floats_of x)
  | ["leakyctor"; m] -> let m = fl m in out [leaky_grad o m; leaky_icpt o m] None
  | ["rqs"; meth; xp; yp; dv; lo; hi; x] ->
      let xp = floats_of xp and yp = floats_of yp and dv = floats_of dv and lo = fl lo and hi = fl hi in
      elementwise meth (rqs_fwd o xp yp dv lo hi) (rqs_inv o xp yp dv lo hi) (rqs_ld_fwd o xp yp dv lo hi) (rqs_ld_inv o xp yp dv lo hi) (floats_of x)
  | ["rqsold"; meth; xp; yp; dv; lo; hi; x] ->
      let xp = floats_of xp and yp = floats_of yp and dv = floats_of dv and lo = fl lo and hi = fl hi in
      elementwise meth (rqs_fwd_old o xp yp dv lo hi) (rqs_inv_old o xp yp dv lo hi) (fun _ -> nan) (fun _ -> nan) (floats_of x)
  | ["rqsderiv"; xp; yp; dv; lo; hi; x] ->
      let xp = floats_of xp and yp = floats_of yp and dv = floats_of dv and lo = fl lo and hi = fl hi in
      out (List.map (rqs_deriv o xp yp dv lo hi) (floats_of x)) None
  | ["tri"; meth; lower; mat; loc; x] ->
      let loc = floats_of loc and x = floats_of x in
      let m = chunks (List.length loc) (floats_of mat) and lower = bool_of lower in
      (match meth with
       | "fwd" -> out (tri_fwd o m loc x) None | "inv" -> out (tri_inv o lower m loc x) None
       | "fwdld" -> out (tri_fwd o m loc x) (Some (tri_ld o m)) | "invld" -> out (tri_inv o lower m loc x) (Some (neg (tri_ld o m)))
       | _ -> "ERR method")
  | ["planar"; meth; ns; w; u0; b; x] ->
      let ns = if ns = "none" then None else Some (fl ns) in
      let w = floats_of w and u0 = floats_of u0 and b = fl b and x = floats_of x in
      (match meth, ns with
       | "fwd", _ -> out (planar_fwd o ns w u0 b x) None
       | "fwdld", _ -> out (planar_fwd o ns w u0 b x) (Some (planar_ld_fwd o ns w u0 b x))
       | "inv", Some s -> out (planar_inv o s w u0 b x) None
       | "invld", Some s -> out (planar_inv o s w u0 b x) (Some (planar_ld_inv o s w u0 b x))
       | _ -> "ERR notimplemented")
  | ["planaru"; ns; w; u0] ->
      let ns = if ns = "none" then None else Some (fl ns) in
      out (planar_u o ns (floats_of w) (floats_of u0)) None
  | _ -> "ERR unknown-request"
let () =
  try
    while true do
      let line = input_line stdin in
      let out = try handle (split_ws line) with e -> "ERR " ^ Printexc.to_string e in
      print_endline out
    done
  with End_of_file -> ()
