(* Driver of group "bisect": runs the extracted Model/Bisect.v at exact rationals (Bisect.qOps).
   One request per line, one result per line.
   Numbers in requests: "<m>_<e>" = m * 2^e (m, e OCaml ints; every finite double is of that form).
   Numbers in results: "<num>/<den>", both in binary (python: Fraction(int(num,2), int(den,2))).
   Function terms:  pl:b0,y0,s0;b1,y1,s1;...   cub:a,b,r   sat:a,e,r
   Requests:
     search <fn> <lo> <up> <tol> <max_iter> <fuel>      -> ok <root> <adapt_iters> <iters> <n_inexact>  | none
     adapt  <fn> <lo> <up> <fuel>                       -> ok <lower> <upper> <iters> <n_inexact>        | none
     auto   <lo> <up> <tol> <max_iter> <fuel> <row>...  -> ok <x0>,<x1>,... <n_inexact>                  | none
              row = <fn>|<c0>,<c1>,...|<cond>|<target>   ("-" for no couplings)
     eval   <fn> <x>                                    -> <value> <n_inexact>
   n_inexact = number of field operations (search and function evaluation alike) whose exact rational
   result is NOT a binary64 number (odd part of the numerator > 53 bits, or a non power-of-two
   denominator): 0 means the float64 run of the same operation sequence is exact. This bookkeeping lives
   here, in a wrapper around the extracted record, not in the model. *)
open Bisect
open Conv

(* ---- dyadic <-> Q ---- *)
let rec pow2_pos k = if k <= 0 then XH else XO (pow2_pos (k - 1))
let rec shl_pos p k = if k <= 0 then p else shl_pos (XO p) (k - 1)
let q_of_me (m : int) (e : int) : q =
  let zm = z_of_int m in
  if e >= 0 then
    { qnum = (match zm with Z0 -> Z0 | Zpos p -> Zpos (shl_pos p e) | Zneg p -> Zneg (shl_pos p e)); qden = XH }
  else qred { qnum = zm; qden = pow2_pos (-e) }
let q_of_string s =
  match String.split_on_char '_' s with
  | [m; e] -> q_of_me (int_of_string m) (int_of_string e)
  | _ -> failwith ("bad number " ^ s)

let rec bits_of_pos = function XH -> "1" | XO p -> bits_of_pos p ^ "0" | XI p -> bits_of_pos p ^ "1"
let str_z = function Z0 -> "0" | Zpos p -> bits_of_pos p | Zneg p -> "-" ^ bits_of_pos p
let str_q (x : q) = str_z x.qnum ^ "/" ^ bits_of_pos x.qden

(* ---- is this (reduced) rational a binary64 number? ---- *)
let rec is_pow2 = function XH -> true | XO p -> is_pow2 p | XI _ -> false
let rec strip0 = function XO p -> strip0 p | p -> p
let rec nbits = function XH -> 1 | XO p -> 1 + nbits p | XI p -> 1 + nbits p
let representable (x : q) =
  is_pow2 x.qden && nbits x.qden <= 1000 &&
  (match x.qnum with Z0 -> true | Zpos p | Zneg p -> nbits (strip0 p) <= 53 && nbits p <= 1000)
let n_inexact = ref 0
let chk (x : q) = if not (representable x) then incr n_inexact; x
let ops : q fldOps = {
  bo_add = (fun a b -> chk (qOps.bo_add a b)); bo_sub = (fun a b -> chk (qOps.bo_sub a b));
  bo_mul = (fun a b -> chk (qOps.bo_mul a b)); bo_div = (fun a b -> chk (qOps.bo_div a b));
  bo_abs = qOps.bo_abs; bo_leb = qOps.bo_leb; bo_ltb = qOps.bo_ltb; bo_ofZ = qOps.bo_ofZ }

(* ---- terms ---- *)
let nums s = if s = "-" || s = "" then [] else List.map q_of_string (String.split_on_char ',' s)
let fn_of_string s : q fn =
  match String.index_opt s ':' with
  | None -> failwith ("bad fn " ^ s)
  | Some i ->
    let kind = String.sub s 0 i and body = String.sub s (i + 1) (String.length s - i - 1) in
    (match kind with
     | "pl" ->
       let segs = List.map (fun t -> match nums t with [b; y; sl] -> (b, y, sl) | _ -> failwith "bad segment")
           (String.split_on_char ';' body) in
       (match segs with
        | (b0, y0, s0) :: rest -> FPl (b0, y0, s0, List.map (fun (b, y, sl) -> ((b, y), sl)) rest)
        | [] -> failwith "empty pl")
     | "cub" -> (match nums body with [a; b; r] -> FCub (a, b, r) | _ -> failwith "bad cub")
     | "sat" -> (match nums body with [a; e; r] -> FSat (a, e, r) | _ -> failwith "bad sat")
     | _ -> failwith ("bad fn kind " ^ kind))
let row_of_string s =
  match String.split_on_char '|' s with
  | [f; cs; cnd; t] -> (((fn_of_string f, nums cs), q_of_string cnd), q_of_string t)
  | _ -> failwith ("bad row " ^ s)

let nat s = nat_of_int (int_of_string s)

let handle (toks : string list) : string =
  n_inexact := 0;
  match toks with
  | ["search"; f; lo; up; tol; mi; fuel] ->
    (match search_fn ops (fn_of_string f) (q_of_string lo) (q_of_string up) (q_of_string tol) (nat mi) (nat fuel) with
     | Some ((root, ai), it) -> Printf.sprintf "ok %s %d %d %d" (str_q root) (int_of_nat ai) (int_of_nat it) !n_inexact
     | None -> "none")
  | ["adapt"; f; lo; up; fuel] ->
    (match adapt ops (eval_fn ops (fn_of_string f)) (q_of_string lo) (q_of_string up) (nat fuel) with
     | Some ((l, u), n) -> Printf.sprintf "ok %s %s %d %d" (str_q l) (str_q u) (int_of_nat n) !n_inexact
     | None -> "none")
  | "auto" :: lo :: up :: tol :: mi :: fuel :: rows ->
    (match autoreg_tri ops (List.map row_of_string rows) (q_of_string lo) (q_of_string up) (q_of_string tol) (nat mi) (nat fuel) with
     | Some xs -> Printf.sprintf "ok %s %d" (String.concat "," (List.map str_q xs)) !n_inexact
     | None -> "none")
  | ["eval"; f; x] ->
    let v = eval_fn ops (fn_of_string f) (q_of_string x) in
    Printf.sprintf "%s %d" (str_q v) !n_inexact
  | "trieval" :: x :: rows ->
    let v = tri_eval ops (List.map row_of_string rows) (nums x) in
    Printf.sprintf "%s %d" (String.concat "," (List.map str_q v)) !n_inexact
  | _ -> "ERR unknown-request"

let () =
  try
    while true do
      let line = input_line stdin in
      let out = try handle (split_ws line) with e -> "ERR " ^ Printexc.to_string e in
      print_endline out
    done
  with End_of_file -> ()
