(* Conversions between OCaml native values and the extracted Coq inductives; request parsing. *)
open MODEL

let rec nat_of_int n = if n <= 0 then O else S (nat_of_int (n - 1))
let rec int_of_nat = function O -> 0 | S n -> 1 + int_of_nat n
let rec pos_of_int n =
  if n = 1 then XH else if n land 1 = 0 then XO (pos_of_int (n lsr 1)) else XI (pos_of_int (n lsr 1))
let z_of_int n = if n = 0 then Z0 else if n > 0 then Zpos (pos_of_int n) else Zneg (pos_of_int (-n))
let rec int_of_pos = function XH -> 1 | XO p -> 2 * int_of_pos p | XI p -> 2 * int_of_pos p + 1
let int_of_z = function Z0 -> 0 | Zpos p -> int_of_pos p | Zneg p -> - (int_of_pos p)

let split_ws s = List.filter (fun x -> x <> "") (String.split_on_char ' ' (String.trim s))
let ints_of s = if s = "" || s = "-" then [] else List.map int_of_string (String.split_on_char ',' s)
let floats_of s = if s = "" || s = "-" then [] else List.map float_of_string (String.split_on_char ',' s)
let str_ints l = if l = [] then "-" else String.concat "," (List.map string_of_int l)
let hexf (x : float) =
  if Float.is_nan x then "nan" else if x = Float.infinity then "inf"
  else if x = Float.neg_infinity then "-inf" else Printf.sprintf "%h" x
let str_floats l = if l = [] then "-" else String.concat "," (List.map hexf l)
let bool_of s = (s = "1" || s = "true" || s = "True")
