(* Driver of group "bnafld": the log-det model of BlockAutoregressiveNetwork (coq/Model/BnafLd.v) at OCaml floats.
   One request per line on stdin, one result per line on stdout.
   Wire format: C99 hex floats; a vector "a,b,c" ("-" = empty); a matrix = rows separated by ';' ("-" = no rows,
   "e" = an empty row); a list of matrices / vectors is separated by '/'.
     act   = leaky:<max_val>:<linear_grad>:<intercept> | tanh | calltanh
     cterm = none | vector            (cond_linear(condition), computed by the caller from the real object's weight)
   Requests
     tld dim depth bd act w1s w2s scales biases cterm x   -> "<y vector> <log-det terms vector> <total>"
                                                             (w1s, w2s: the RAW weight leaves per layer; scales: the raw weight-norm scales)
     weights dim depth bd w1s w2s scales                  -> the unwrapped (normalised) weight matrices
     lme x y                                              -> logmatmulexp of two finite matrices ("-inf" entries of y allowed)
     actld act x                                          -> "<act(x)> <reported log-gradient>" *)
open Bnafld
open Conv
open Fops
let o = Fops.ops

let nat s = nat_of_int (int_of_string s)
let fl = float_of_string
let row_of s = if s = "e" then [] else List.map fl (String.split_on_char ',' s)
let fmat_of s : float list list = if s = "-" then [] else List.map row_of (String.split_on_char ';' s)
let fmats_of s : float list list list = if s = "-" then [] else List.map fmat_of (String.split_on_char '/' s)
let fvec_of s : float list = if s = "-" || s = "e" then [] else List.map fl (String.split_on_char ',' s)
let fvecs_of s : float list list = if s = "-" then [] else List.map fvec_of (String.split_on_char '/' s)
let str_fmat (m : float list list) : string =
  if m = [] then "-" else String.concat ";" (List.map (fun r -> if r = [] then "e" else String.concat "," (List.map hexf r)) m)
let str_fmats (l : float list list list) : string = if l = [] then "-" else String.concat "/" (List.map str_fmat l)

let act_of (s : string) : float bact =
  match String.split_on_char ':' s with
  | ["leaky"; m; g; ic] -> BLeaky (fl m, fl g, fl ic)
  | ["tanh"] -> BTanh
  | ["calltanh"] -> BCallTanh
  | _ -> failwith ("unknown activation " ^ s)

let rec raws_of w1s w2s scs bs : float graw list =
  match w1s, w2s, scs, bs with
  | a :: w1s, b :: w2s, s :: scs, c :: bs -> { gw1 = a; gw2 = b; gscale = s; gbias = c } :: raws_of w1s w2s scs bs
  | [], [], [], [] -> []
  | _ -> failwith "layer lists of different lengths"

let handle (toks : string list) : string =
  match toks with
  | ["tld"; dim; depth; bd; act; w1s; w2s; scs; bs; cterm; x] ->
      let raws = raws_of (fmats_of w1s) (fmats_of w2s) (fvecs_of scs) (fvecs_of bs) in
      let ct = if cterm = "none" then None else Some (fvec_of cterm) in
      let ((y, terms), total) = bnaf_tld_act o (act_of act) (nat dim) (nat depth) (nat bd) raws ct (fvec_of x) in
      str_floats y ^ " " ^ str_floats terms ^ " " ^ hexf total
  | ["weights"; dim; depth; bd; w1s; w2s; scs] ->
      let w1s = fmats_of w1s in
      let raws = raws_of w1s (fmats_of w2s) (fvecs_of scs) (List.map (fun _ -> []) w1s) in
      str_fmats (unwrap_ws_g o (nat dim) (bnaf_block_shapes (nat depth) (nat bd)) raws)
  | ["lme"; x; y] ->
      let y = List.map (List.map (fun v -> if v = Float.neg_infinity then None else Some v)) (fmat_of y) in
      str_fmat (logmatmulexp o (fmat_of x) y)
  | ["actld"; act; x] ->
      let a = act_of act in hexf (bact_fwd o a (fl x)) ^ " " ^ hexf (bact_ld o a (fl x))
  | _ -> "ERR unknown-request"

let () =
  try
    while true do
      let line = input_line stdin in
      let out = try handle (split_ws line) with e -> "ERR " ^ Printexc.to_string e in
      print_endline out
    done
  with End_of_file -> ()
