(* Driver for the extracted tensor / bijection-tree model (group bij; properties C08, C13).
   One request per line, one result per line.  Terms are S-expressions:
     shape   (2 3)  ()                    tensor  (t (2 3) (0x1p+0 ...))   (C order, C99 hex floats)
     bij     (opaque S CS) (loc T) (scale T) (affine T T) (flip S) (perm S (i ...)) (addcond S T)
             (chain B ...) (scan B ...) (invert B) (concat AX B ...) (stack AX B ...)
             (vmap N MAPPED CAX B ...) (partial (SEL ...) S B) (reshape S|none CS|none B)
             (embed (mul Z)|(take K) S B)
     SEL     (int z) (slice lo hi step) (arr z ...) (mask 0|1 ...)          "none" for None
   Requests:  sig B | run METH B X C | den DIR B X C | oldstack AX S N | oldvmapc N S AX
              | merge B | mergeinfo B | runmerged METH B X C | runslice METH B lo hi X C | idxshape (SEL ...) S *)
open Bij
open Conv
open Fops

type sx = A of string | L of sx list

let tokenize (s : string) : string list =
  let b = Buffer.create 16 and out = ref [] in
  let flush () = if Buffer.length b > 0 then (out := Buffer.contents b :: !out; Buffer.clear b) in
  String.iter (fun ch -> match ch with
    | '(' -> flush (); out := "(" :: !out
    | ')' -> flush (); out := ")" :: !out
    | ' ' | '\t' | '\r' -> flush ()
    | ch -> Buffer.add_char b ch) s;
  flush (); List.rev !out

let parse_all (toks : string list) : sx list =
  let rec one = function
    | "(" :: r -> let (items, r') = many r in (L items, r')
    | ")" :: _ -> failwith "unexpected )"
    | a :: r -> (A a, r)
    | [] -> failwith "eof"
  and many = function
    | ")" :: r -> ([], r)
    | [] -> failwith "missing )"
    | toks -> let (x, r) = one toks in let (xs, r') = many r in (x :: xs, r')
  in
  let rec top toks = match toks with [] -> [] | _ -> let (x, r) = one toks in x :: top r in
  top toks

let atom = function A a -> a | L _ -> failwith "atom expected"
let nat_of s = nat_of_int (int_of_string (atom s))
let z_of s = z_of_int (int_of_string (atom s))
let shape_of_sx = function L l -> List.map nat_of l | A _ -> failwith "shape expected"
let oshape_of_sx = function A "none" -> None | s -> Some (shape_of_sx s)
let oz_of_sx = function A "none" -> None | s -> Some (z_of s)
let rec int_prod = function [] -> 1 | a :: t -> a * int_prod t

let tensor_of_sx : sx -> float tensor = function
  | L [A "t"; sh; L data] ->
      let s = shape_of_sx sh in
      let d = List.map (fun a -> float_of_string (atom a)) data in
      if List.length d <> int_prod (List.map int_of_nat s) then failwith "tensor: size mismatch";
      unflatten s d
  | _ -> failwith "tensor expected"
let otensor_of_sx = function A "none" -> None | t -> Some (tensor_of_sx t)

let sel_of_sx = function
  | L [A "int"; z] -> SInt (z_of z)
  | L [A "slice"; a; b; c] -> SSlice (oz_of_sx a, oz_of_sx b, oz_of_sx c)
  | L (A "arr" :: zs) -> SArr (List.map z_of zs)
  | L (A "mask" :: bs) -> SMask (List.map (fun b -> atom b = "1") bs)
  | _ -> failwith "sel expected"
let sels_of_sx = function L l -> List.map sel_of_sx l | A _ -> failwith "sel list expected"

let rec bij_of_sx : sx -> float bij = function
  | L [A "opaque"; s; cs] -> Leaf (LOpaque (shape_of_sx s, oshape_of_sx cs))
  | L [A "loc"; t] -> Leaf (LLoc (tensor_of_sx t))
  | L [A "scale"; t] -> Leaf (LScale (tensor_of_sx t))
  | L [A "affine"; l; s] -> Leaf (LAffine (tensor_of_sx l, tensor_of_sx s))
  | L [A "flip"; s] -> Leaf (LFlip (shape_of_sx s))
  | L [A "perm"; s; L p] -> Leaf (LPerm (shape_of_sx s, List.map nat_of p))
  | L [A "addcond"; s; w] -> Leaf (LAddCond (shape_of_sx s, tensor_of_sx w))
  | L (A "chain" :: bs) -> Chain (List.map bij_of_sx bs)
  | L (A "scan" :: bs) -> Scan (List.map bij_of_sx bs)
  | L [A "invert"; b] -> Invert (bij_of_sx b)
  | L (A "concat" :: ax :: bs) -> Concat (z_of ax, List.map bij_of_sx bs)
  | L (A "stack" :: ax :: bs) -> Stack (z_of ax, List.map bij_of_sx bs)
  | L (A "vmap" :: n :: mapped :: cax :: bs) ->
      Vmap (nat_of n, atom mapped = "1", oz_of_sx cax, List.map bij_of_sx bs)
  | L [A "partial"; ix; s; b] -> Partial (sels_of_sx ix, shape_of_sx s, bij_of_sx b)
  | L [A "reshape"; s; cs; b] -> Reshape (oshape_of_sx s, oshape_of_sx cs, bij_of_sx b)
  | L [A "embed"; L [A "mul"; z]; raw; b] -> EmbedCond (EMul (z_of z), shape_of_sx raw, bij_of_sx b)
  | L [A "embed"; L [A "take"; k]; raw; b] -> EmbedCond (ETake (nat_of k), shape_of_sx raw, bij_of_sx b)
  | _ -> failwith "bij expected"

let str_shape (s : shape) = "(" ^ String.concat " " (List.map (fun n -> string_of_int (int_of_nat n)) s) ^ ")"
let str_oshape = function None -> "none" | Some s -> str_shape s
let str_tensor (t : float tensor) =
  "(t " ^ str_shape (tshape t) ^ " (" ^ String.concat " " (List.map hexf (flatten t)) ^ "))"
let str_err = function
  | BadX -> "badx" | NoCond -> "nocond" | BadCond -> "badcond" | Ctor -> "ctor"
  | Internal -> "internal" | Unsupported -> "unsupported"

let rec str_bij (b : float bij) : string =
  let many name bs = "(" ^ name ^ String.concat "" (List.map (fun b -> " " ^ str_bij b) bs) ^ ")" in
  match b with
  | Leaf (LOpaque (s, cs)) -> "(opaque " ^ str_shape s ^ " " ^ str_oshape cs ^ ")"
  | Leaf (LLoc t) -> "(loc " ^ str_tensor t ^ ")"
  | Leaf (LScale t) -> "(scale " ^ str_tensor t ^ ")"
  | Leaf (LAffine (l, s)) -> "(affine " ^ str_tensor l ^ " " ^ str_tensor s ^ ")"
  | Leaf (LFlip s) -> "(flip " ^ str_shape s ^ ")"
  | Leaf (LPerm (s, _)) -> "(perm " ^ str_shape s ^ " ...)"
  | Leaf (LAddCond (s, w)) -> "(addcond " ^ str_shape s ^ " " ^ str_tensor w ^ ")"
  | Chain bs -> many "chain" bs
  | Scan bs -> many "scan" bs
  | Invert b -> many "invert" [b]
  | Concat (_, bs) -> many "concat" bs
  | Stack (_, bs) -> many "stack" bs
  | Vmap (_, _, _, bs) -> many "vmap" bs
  | Partial (_, _, b) -> many "partial" [b]
  | Reshape (_, _, b) -> many "reshape" [b]
  | EmbedCond (_, _, b) -> many "embed" [b]

let meth_of = function
  | "transform" -> MTransform | "inverse" -> MInverse
  | "transform_and_log_det" -> MTransformLD | "inverse_and_log_det" -> MInverseLD
  | _ -> failwith "method expected"

let handle (line : string) : string =
  match parse_all (tokenize line) with
  | [A "sig"; b] ->
      (match sig_of (bij_of_sx b) with
       | Ok (s, cs) -> "ok " ^ str_shape s ^ " " ^ str_oshape cs
       | Err e -> "err " ^ str_err e)
  | [A "run"; m; b; x; c] ->
      (match run_meth ops (bij_of_sx b) (meth_of (atom m)) (tensor_of_sx x) (otensor_of_sx c) with
       | Ok (y, None) -> "ok " ^ str_tensor y ^ " -"
       | Ok (y, Some ld) -> "ok " ^ str_tensor y ^ " " ^ str_tensor ld
       | Err e -> "err " ^ str_err e)
  | [A "den"; d; b; x; c] ->
      let (y, ld) = den ops (bij_of_sx b) (if atom d = "fwd" then Fwd else Inv) (tensor_of_sx x) (otensor_of_sx c) in
      "ok " ^ str_tensor y ^ " " ^ hexf ld
  | [A "oldstack"; ax; s; n] -> str_shape (stack_shape_old (z_of ax) (shape_of_sx s) (nat_of n))
  | [A "oldvmapc"; n; s; ax] -> str_shape (vmap_cshape_old (nat_of n) (shape_of_sx s) (z_of ax))
  | [A "merge"; L (A "chain" :: bs)] -> str_bij (merge_chains (List.map bij_of_sx bs))
  | [A "mergeinfo"; L (A "chain" :: bs)] ->
      (match merge_chains (List.map bij_of_sx bs) with
       | Chain l -> Printf.sprintf "%d %b" (List.length l) (List.exists is_chain l)
       | _ -> "ERR not-a-chain")
  | [A "runmerged"; m; L (A "chain" :: bs); x; c] ->
      (match run_meth ops (merge_chains (List.map bij_of_sx bs)) (meth_of (atom m)) (tensor_of_sx x) (otensor_of_sx c) with
       | Ok (y, None) -> "ok " ^ str_tensor y ^ " -"
       | Ok (y, Some ld) -> "ok " ^ str_tensor y ^ " " ^ str_tensor ld
       | Err e -> "err " ^ str_err e)
  | [A "runslice"; m; L (A "chain" :: bs); lo; hi; x; c] ->
      (match run_meth ops (chain_slice (List.map bij_of_sx bs) (oz_of_sx lo) (oz_of_sx hi)) (meth_of (atom m)) (tensor_of_sx x) (otensor_of_sx c) with
       | Ok (y, None) -> "ok " ^ str_tensor y ^ " -"
       | Ok (y, Some ld) -> "ok " ^ str_tensor y ^ " " ^ str_tensor ld
       | Err e -> "err " ^ str_err e)
  | [A "idxshape"; ix; s] ->
      let ix = sels_of_sx ix and s = shape_of_sx s in
      if not (idx_supported ix) then "err unsupported" else
      (match resolve_idx ix s with
       | None -> "err ctor"
       | Some rs -> "ok " ^ str_shape (idx_shape rs s))
  | _ -> "ERR unknown-request"

let () =
  try
    while true do
      let line = input_line stdin in
      let out = try handle line with e -> "ERR " ^ Printexc.to_string e in
      print_endline out
    done
  with End_of_file -> ()
