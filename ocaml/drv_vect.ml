(* Driver of group vect (Model/Vectorize.v): one request per line on stdin, one result per line.
   Shapes / indices: comma separated naturals, "-" = empty tuple, "N" = None (absent). *)
open Vect
open Conv

let nats_of s = List.map nat_of_int (ints_of s)
let str_nats l = str_ints (List.map int_of_nat l)
let opt_nats_of s = if s = "N" then None else Some (nats_of s)
let str_opt_nats = function None -> "N" | Some l -> str_nats l

let err_name = function
  | EArraylike -> "arraylike" | ENdim -> "ndim" | EDimSize -> "dimsize"
  | EBroadcast -> "broadcast" | ETrailing -> "trailing" | EReshape -> "reshape"

(* flat C-order list -> nested tensor of the given shape *)
let rec unflatten (s : int list) (l : 'a list) : 'a tensor * 'a list =
  match s with
  | [] -> (match l with x :: r -> (Sc x, r) | [] -> failwith "unflatten: too few values")
  | n :: s' ->
      let rec go k l acc = if k = 0 then (List.rev acc, l) else
          let (t, r) = unflatten s' l in go (k - 1) r (t :: acc) in
      let (ts, r) = go n l [] in (Ar ts, r)

let leaf = function Sc a -> a | Ar _ -> failwith "not a scalar"

let handle (toks : string list) : string =
  match toks with
  | ["bs"; a; b] ->
      (match broadcast_shapes (nats_of a) (nats_of b) with
       | Ok s -> "ok " ^ str_nats s
       | Err e -> "err " ^ err_name e)
  | ["bproj"; s_in; s_out; i] -> str_nats (bproj (nats_of s_in) (nats_of s_out) (nats_of i))
  | ["ravel"; s; i] -> string_of_int (int_of_nat (ravel (nats_of s) (nats_of i)))
  | ["ndindex"; s] -> String.concat "|" (List.map str_nats (ndindex (nats_of s)))
  | ["lp"; dshape; cshape; xs; cs] ->
      (match plan_logprob (nats_of dshape) (opt_nats_of cshape) (nats_of xs) (opt_nats_of cs) with
       | Err e -> "err " ^ err_name e
       | Ok (out, es) ->
           "ok " ^ str_nats out ^ " " ^
           (if es = [] then "." else
            String.concat "|" (List.map (fun ((i, ix), ic) -> str_nats i ^ ":" ^ str_nats ix ^ ":" ^ str_opt_nats ic) es)))
  | ["sm"; dshape; cshape; ss; cs] ->
      (match plan_sample (opt_nats_of cshape) (nats_of ss) (opt_nats_of cs) with
       | Err e -> "err " ^ err_name e
       | Ok ((out, n), es) ->
           "ok " ^ str_nats out ^ " " ^ str_nats (sample_out_shape (nats_of dshape) out) ^ " " ^ string_of_int (int_of_nat n) ^ " " ^
           (if es = [] then "." else
            String.concat "|" (List.map (fun ((i, k), ic) -> str_nats i ^ ":" ^ string_of_int (int_of_nat k) ^ ":" ^ str_opt_nats ic) es)))
  | ["bto"; s; out; vals] ->
      (* np.broadcast_to on an integer tensor given flat; result flat under shape out *)
      let (t, _) = unflatten (ints_of s) (ints_of vals) in
      let r = broadcast_to (Sc (-1)) (nats_of s) (nats_of out) t in
      str_ints (List.map leaf (flatten (nats_of out) (Sc (-1)) r))
  | ["tsub"; s; i; vals] ->
      (* t[i] for a full or partial index; printed flat in C order with its remaining shape *)
      let sh = ints_of s in
      let (t, _) = unflatten sh (ints_of vals) in
      let ii = ints_of i in
      let rec drop k l = if k = 0 then l else match l with [] -> [] | _ :: r -> drop (k - 1) r in
      let rest = drop (List.length ii) sh in
      let r = tsub (Sc (-1)) t (List.map nat_of_int ii) in
      str_ints (List.map leaf (flatten (List.map nat_of_int rest) (Sc (-1)) r))
  | ["runlp"; dshape; cshape; xs; cs; xvals; cvals] ->
      (* run_logprob with f = (sum of the x slice) * 1000 + (sum of the c slice): exercises run_logprob/tab/lookup *)
      let ds = nats_of dshape and csh = opt_nats_of cshape and xsh = nats_of xs and csh' = opt_nats_of cs in
      (match plan_logprob ds csh xsh csh' with
       | Err e -> "err " ^ err_name e
       | Ok (out, es) ->
           let (x, _) = unflatten (ints_of xs) (ints_of xvals) in
           let c = match csh' with None -> None | Some _ -> Some (fst (unflatten (ints_of cs) (ints_of cvals))) in
           let csub = match csh with None -> [] | Some l -> l in
           let sum sh t = List.fold_left (fun a b -> a + leaf b) 0 (flatten sh (Sc 0) t) in
           let f xt ct = Sc (1000 * sum ds xt + (match ct, csh with Some ct', Some _ -> sum csub ct' | _ -> 0)) in
           let r = run_logprob (Sc (-1)) (Sc (-1)) f out es x c in
           "ok " ^ str_nats out ^ " " ^ str_ints (List.map leaf (flatten out (Sc (-1)) r)))
  | _ -> "ERR unknown-request"

let () =
  try
    while true do
      let line = input_line stdin in
      let out = try handle (split_ws line) with e -> "ERR " ^ Printexc.to_string e in
      print_endline out
    done
  with End_of_file -> ()
