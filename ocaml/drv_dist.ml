(* Driver for the distribution model (coq/Model/Dist.v).  One request per line:
     logp      <x> <dist>        -> log_prob(x)
     sample    <z> <dist>        -> sample with the base draw z            (vector)
     samplelp  <z> <dist>        -> "<sample> <log_prob>"
     mlogp / msample / msamplelp : the same on merge_transforms(dist)
     struct    <dist>            -> shape of the term,  mstruct: of merge_transforms(dist)
     bij <fwd|inv|fwdld|invld> <x> <bexpr>   -> "<y> <log_det or ->"
   Terms are prefix token streams:
     dist  ::= N | G | T dist bexpr
     bexpr ::= E k leaf*k | TRI lower n mat loc | P perm pinv | F | I bexpr | C k bexpr*k
     leaf  ::= A loc scale | L loc | S scale | X | SP | TH | LK m g ic | R xp yp dv lo hi
   floats are C99 hex, vectors comma separated. *)
open Dist
open Conv
open Fops
let o = Fops.ops
let fl = float_of_string
exception Parse of string

let rec take n l = if n = 0 then ([], l) else match l with [] -> raise (Parse "short") | h :: t -> let (a, b) = take (n - 1) t in (h :: a, b)
let rec chunks n l = if l = [] then [] else let (a, b) = take n l in a :: chunks n b

let parse_leaf toks = match toks with
  | "A" :: loc :: sc :: r -> (LAffine (fl loc, fl sc), r)
  | "L" :: loc :: r -> (LLoc (fl loc), r)
  | "S" :: sc :: r -> (LScale (fl sc), r)
  | "X" :: r -> (LExp, r) | "SP" :: r -> (LSoftPlus, r) | "TH" :: r -> (LTanh, r)
  | "LK" :: m :: g :: ic :: r -> (LLeaky (fl m, fl g, fl ic), r)
  | "R" :: xp :: yp :: dv :: lo :: hi :: r -> (LRqs (floats_of xp, floats_of yp, floats_of dv, fl lo, fl hi), r)
  | t :: _ -> raise (Parse ("leaf " ^ t)) | [] -> raise (Parse "leaf eof")
let rec parse_n f n toks = if n = 0 then ([], toks) else let (a, r) = f toks in let (l, r') = parse_n f (n - 1) r in (a :: l, r')
let rec parse_b toks = match toks with
  | "E" :: k :: r -> let (ls, r') = parse_n parse_leaf (int_of_string k) r in (BElem ls, r')
  | "TRI" :: lower :: n :: mat :: loc :: r -> (BTri (bool_of lower, chunks (int_of_string n) (floats_of mat), floats_of loc), r)
  | "P" :: p :: pinv :: r -> (BPerm (List.map z_of_int (ints_of p), List.map z_of_int (ints_of pinv)), r)
  | "F" :: r -> (BFlip, r)
  | "I" :: r -> let (b, r') = parse_b r in (BInvert b, r')
  | "C" :: k :: r -> let (bs, r') = parse_n parse_b (int_of_string k) r in (BChain bs, r')
  | t :: _ -> raise (Parse ("bexpr " ^ t)) | [] -> raise (Parse "bexpr eof")
let rec parse_d toks = match toks with
  | "N" :: r -> (DBase FNormal, r) | "G" :: r -> (DBase FGumbel, r)
  | "T" :: r -> let (d, r') = parse_d r in let (b, r'') = parse_b r' in (DTrans (d, b), r'')
  | t :: _ -> raise (Parse ("dist " ^ t)) | [] -> raise (Parse "dist eof")
let whole p toks = let (v, r) = p toks in if r <> [] then raise (Parse "trailing tokens") else v

let rec show_b = function
  | BElem ls -> Printf.sprintf "E%d" (List.length ls) | BTri _ -> "TRI" | BPerm _ -> "P" | BFlip -> "F"
  | BInvert b -> "I(" ^ show_b b ^ ")"
  | BChain bs -> "C[" ^ String.concat ";" (List.map show_b bs) ^ "]"
let rec show_d = function
  | DBase FNormal -> "N" | DBase FGumbel -> "G"
  | DTrans (d, b) -> "T(" ^ show_d d ^ "," ^ show_b b ^ ")"

let handle toks =
  match toks with
  | "logp" :: x :: d -> hexf (logp o (whole parse_d d) (floats_of x))
  | "mlogp" :: x :: d -> hexf (logp o (merge_transforms (whole parse_d d)) (floats_of x))
  | "sample" :: z :: d -> let z = floats_of z in str_floats (sample o (fun _ () -> z) (whole parse_d d) ())
  | "msample" :: z :: d -> let z = floats_of z in str_floats (sample o (fun _ () -> z) (merge_transforms (whole parse_d d)) ())
  | "samplelp" :: z :: d ->
      let z = floats_of z in let (x, lp) = sample_lp o (fun _ () -> z) (whole parse_d d) () in str_floats x ^ " " ^ hexf lp
  | "msamplelp" :: z :: d ->
      let z = floats_of z in let (x, lp) = sample_lp o (fun _ () -> z) (merge_transforms (whole parse_d d)) () in str_floats x ^ " " ^ hexf lp
  | "struct" :: d -> show_d (whole parse_d d)
  | "mstruct" :: d -> show_d (merge_transforms (whole parse_d d))
  | "bij" :: meth :: x :: b ->
      let b = whole parse_b b and x = floats_of x in
      (match meth with
       | "fwd" -> str_floats (run_fwd o b x) ^ " -"
       | "inv" -> str_floats (run_inv o b x) ^ " -"
       | "fwdld" -> let (y, l) = run_fwd_ld o b x in str_floats y ^ " " ^ hexf l
       | "invld" -> let (y, l) = run_inv_ld o b x in str_floats y ^ " " ^ hexf l
       | _ -> "ERR method")
  | _ -> "ERR unknown-request"

let () =
  try
    while true do
      let line = input_line stdin in
      let out = try handle (split_ws line) with e -> "ERR " ^ Printexc.to_string e in
      print_endline out
    done
  with End_of_file -> ()
