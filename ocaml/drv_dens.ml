(* Driver of group dens (C05): one request per line on stdin, one result per line on stdout.
   Fields are space separated; lists comma separated, "-" = empty list (a scalar's shape); floats are C99 hex,
   "nan" / "inf" / "-inf" for the IEEE classes.  Shapes are given in NumPy order and reversed here
   (Model/Dens.v takes reversed shapes). *)
open Dens
open Conv
open Fops

let o = Fops.ops
let ext_of (x : float) : float ext =
  if Float.is_nan x then NaN else if x = Float.infinity then PInf else if x = Float.neg_infinity then NInf else Fin x
let exts_of s = List.map ext_of (floats_of s)
let str_ext = function Fin a -> hexf a | PInf -> "inf" | NInf -> "-inf" | NaN -> "nan"
let shape_of s = List.rev (List.map nat_of_int (ints_of s))
let str_shape_rev l = str_ints (List.rev (List.map int_of_nat l))
let fam_of = function
  | "normal" -> FNormal | "lognormal" -> FLogNormal | "uniform" -> FUniform | "gumbel" -> FGumbel
  | "cauchy" -> FCauchy | "studentt" -> FStudentT | "laplace" -> FLaplace | "exponential" -> FExponential
  | "logistic" -> FLogistic | s -> failwith ("family " ^ s)
let prim_name = function
  | PrNormal -> "normal" | PrUniform -> "uniform" | PrGumbel -> "gumbel" | PrCauchy -> "cauchy" | PrT -> "t"
  | PrLaplace -> "laplace" | PrExponential -> "exponential" | PrLogistic -> "logistic"
let arg sh d = (shape_of sh, floats_of d)
(* rows of a d x d matrix given flat *)
let rec chunk n l =
  if l = [] then [] else
  let rec take i l = if i = 0 then ([], l) else match l with [] -> ([], []) | x :: t -> let (a, b) = take (i - 1) t in (x :: a, b) in
  let (a, b) = take n l in a :: chunk n b
(* components "loc;scale;df" *)
let comp_of s =
  match String.split_on_char ';' s with
  | [a; b; d] -> (floats_of a, (floats_of b, floats_of d))
  | _ -> failwith "component"

let handle (toks : string list) : string =
  match toks with
  | ["dens.prim"; f] -> prim_name (sampler_prim (fam_of f))
  | ["dens.class"; f; sa; da; sb; db; sd; dd; xs] ->
      str_ext (class_log_prob o (fam_of f) (arg sa da) (arg sb db) (arg sd dd) (exts_of xs))
  | ["dens.obj"; f; locs; scales; dfs; xs] ->
      str_ext (obj_log_prob o (fam_of f) (floats_of locs) (floats_of scales) (floats_of dfs) (exts_of xs))
  | ["dens.objraw"; f; locs; scales; dfs; xs] ->
      str_ext (obj_raw o (fam_of f) (floats_of locs) (floats_of scales) (floats_of dfs) (exts_of xs))
  | ["dens.acc"; f; sa; da; sb; db; sd; dd] ->
      (* shape | loc | scale | df | minval | maxval | rate  from the constructor arguments *)
      let fm = fam_of f in
      (match fm with
       | FStudentT ->
           let (rt, (p1, (p2, p3))) = ctor3 o (arg sa da) (arg sb db) (arg sd dd) in
           String.concat " " [str_shape_rev rt; str_floats (acc_loc fm p1 p2); str_floats (acc_scale o fm p1 p2); str_floats p3; "-"; "-"; "-"]
       | FExponential ->
           let (sh, p1) = arg sa da in
           String.concat " " [str_shape_rev sh; "-"; str_floats (exponential_scales o p1); "-"; "-"; "-"; str_floats (acc_rate o p1)]
       | FUniform ->
           let (rt, (p1, p2)) = ctor2 o (arg sa da) (arg sb db) in
           String.concat " " [str_shape_rev rt; str_floats (acc_loc fm p1 p2); str_floats (acc_scale o fm p1 p2); "-";
                              str_floats (acc_minval p1 p2); str_floats (acc_maxval o p1 p2); "-"]
       | _ ->
           let (rt, (p1, p2)) = ctor2 o (arg sa da) (arg sb db) in
           String.concat " " [str_shape_rev rt; str_floats (acc_loc fm p1 p2); str_floats (acc_scale o fm p1 p2); "-"; "-"; "-"; "-"])
  | ["dens.sample"; f; locs; scales; draw] ->
      str_floats (obj_sample o (fam_of f) (floats_of locs) (floats_of scales) (floats_of draw))
  | ["dens.csample"; f; sa; da; sb; db; draw] ->
      let fm = fam_of f in
      (match fm with
       | FExponential -> str_floats (fam_sample o fm (floats_of da) [] (floats_of draw))
       | _ -> let (_, (p1, p2)) = ctor2 o (arg sa da) (arg sb db) in str_floats (fam_sample o fm p1 p2 (floats_of draw)))
  | ["dens.bcast"; ss; st; d] -> str_floats (bcast o (shape_of ss) (shape_of st) (floats_of d))
  | ["dens.bshape"; sa; sb] -> str_shape_rev (bshape_rev (shape_of sa) (shape_of sb))
  | ["dens.logsoftmax"; l] -> str_floats (log_softmax o (floats_of l))
  | ["dens.logsumexp"; l] -> str_ext (logsumexp o (exts_of l))
  | ["dens.mixlp"; ws; lps] -> str_ext (mixture_log_prob o (exts_of lps) (floats_of ws))
  | "dens.mix" :: f :: ws :: xs :: comps ->
      str_ext (fam_mixture_log_prob o (fam_of f) (List.map comp_of comps) (floats_of ws) (exts_of xs))
  | ["dens.mvn"; d; rows; loc; x] ->
      str_ext (mvn_log_prob o (chunk (int_of_string d) (floats_of rows)) (floats_of loc) (floats_of x))
  | ["dens.mvnz"; d; rows; loc; x] ->
      str_floats (mvn_z o (chunk (int_of_string d) (floats_of rows)) (floats_of loc) (floats_of x))
  | ["dens.mvnsample"; d; rows; loc; z] ->
      str_floats (mvn_sample o (chunk (int_of_string d) (floats_of rows)) (floats_of loc) (floats_of z))
  | ["dens.mvncov"; d; rows] ->
      str_floats (List.concat (mvn_cov o (chunk (int_of_string d) (floats_of rows))))
  | _ -> "ERR unknown-request"

let () =
  try
    while true do
      let line = input_line stdin in
      let out = try handle (split_ws line) with e -> "ERR " ^ Printexc.to_string e in
      print_endline out
    done
  with End_of_file -> ()
