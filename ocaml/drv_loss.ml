(* Driver of group "loss" (property C17): runs the extracted Model/Losses.v at OCaml floats.
   One request per line on stdin, one result per line on stdout.  Floats are C99 hex, lists comma
   separated ("-" = empty), rows of a table separated by ';'.

   The distribution never appears here: its PUBLIC outputs (log_prob / sample_and_log_prob values
   computed by the real flowjax objects) are passed in as tables and handed to the model as the
   functions it is parameterised by.  Batch rows, sample points and keys are identified by their index. *)
open Loss
open Conv
open Fops

let o = Fops.ops
let arr s = Array.of_list (floats_of s)
let rows_of s = if s = "-" || s = "" then [] else List.map ints_of (String.split_on_char ';' s)
let str_rows rs = if rs = [] then "-" else String.concat ";" (List.map str_ints rs)
let rec range a b = if a >= b then [] else a :: range (a + 1) b
let zl l = List.map z_of_int l
(* jr.split(key, n): the keys are identified by their position *)
let split_idx _ n = range 0 (int_of_nat n)
(* jr.choice(key_k, l, (n,), replace=False) = l[perm_k[:n]] : the positions perm_k[:n] come from the harness *)
let choice_tab (pos : int list array) k (l : z list) n =
  let la = Array.of_list l in
  let p = pos.(k) in
  if List.length p <> int_of_nat n then failwith "choice: table row has the wrong length";
  List.map (fun j -> la.(j)) p

let handle (toks : string list) : string =
  match toks with
  | ["c17.ml"; lps] -> hexf (ml_loss o (floats_of lps))
  | ["c17.mean"; xs] -> hexf (mean o (floats_of xs))
  | ["c17.lse"; xs] ->
      let l = floats_of xs in
      hexf (logsumexp o l) ^ " " ^ hexf (logsumexp_plain o l)
  | ["c17.idx"; b; n; pos] ->
      let pos = Array.of_list (rows_of pos) in
      let r = get_contrastive_idxs split_idx (choice_tab pos) (-1) (nat_of_int (int_of_string b)) (nat_of_int (int_of_string n)) in
      str_rows (List.map (List.map int_of_z) r)
  | ["c17.contr"; n; b; lqt; prt; pos] ->
      (* lqt: B*B row-major, lqt[c*B + x] = dist.log_prob(x_x, cond_c); prt[x] = prior.log_prob(x_x) *)
      let b = int_of_string b in
      let lqt = arr lqt and prt = arr prt in
      let pos = Array.of_list (rows_of pos) in
      let lq x c = lqt.(c * b + x) and prior x = prt.(x) in
      (match contrastive_loss o split_idx (choice_tab pos) lq prior (nat_of_int (int_of_string n)) (range 0 b) (range 0 b) (-1) with
       | None -> "RAISE"
       | Some v -> hexf v)
  | ["c17.rows"; b; lqt; prt; idxs] ->
      (* the per-row losses and their mean for GIVEN index rows (JAX gather semantics on the indices) *)
      let b = int_of_string b in
      let lqt = arr lqt and prt = arr prt in
      let lq x c = lqt.(c * b + x) and prior x = prt.(x) in
      let rows = contrastive_rows o lq prior (range 0 b) (range 0 b) (List.map zl (rows_of idxs)) in
      hexf (mean o rows) ^ " " ^ str_floats rows
  | ["c17.elbo"; stl; n; lq_s; t_s; lq_slp; t_slp] ->
      (* sample points are (source, index): source 0 = dist.sample, 1 = dist.sample_and_log_prob *)
      let lq_s = arr lq_s and t_s = arr t_s and lq_slp = arr lq_slp and t_slp = arr t_slp in
      let sample () k = (0, k) in
      let log_prob () (src, i) = if src = 0 then lq_s.(i) else failwith "log_prob of a sample_and_log_prob point not supplied" in
      let sample_lp () k = ((1, k), lq_slp.(k)) in
      let target (src, i) = if src = 0 then t_s.(i) else t_slp.(i) in
      hexf (elbo_loss o split_idx sample log_prob sample_lp target (fun p -> p) (bool_of stl) (nat_of_int (int_of_string n)) () (-1))
  | ["c17.elbod"; stl; n; lq; score; pathq; t; patht] ->
      (* the same elbo_loss in dual arithmetic along one parameter direction (theta = p0 + th*v at th = 0,
         dth = 1): per sample i, lq.(i) = log q(x_i), score.(i) = d/dth log q_th(x_i) at fixed x_i,
         pathq.(i) = <grad_x log q (x_i), dx_i/dth>, t.(i) = target(x_i), patht.(i) = <grad target(x_i), dx_i/dth> *)
      let lq = arr lq and score = arr score and pathq = arr pathq and t = arr t and patht = arr patht in
      let d = dOps o in
      let sample _ k = k in
      let log_prob (p : float * float) i = (lq.(i), score.(i) *. snd p +. pathq.(i)) in
      let sample_lp p k = (k, log_prob p k) in
      let target i = (t.(i), patht.(i)) in
      let (v, dv) = elbo_loss d split_idx sample log_prob sample_lp target (d_stop o) (bool_of stl) (nat_of_int (int_of_string n)) (0., 1.) (-1) in
      hexf v ^ " " ^ hexf dv
  | _ -> "ERR unknown-request"

let () =
  try
    while true do
      let line = input_line stdin in
      let out = try handle (split_ws line) with e -> "ERR " ^ Printexc.to_string e in
      print_endline out
    done
  with End_of_file -> ()
