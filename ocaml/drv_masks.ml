(* Driver of group "masks" (property C09): one request per line on stdin, one result per line on stdout.
   Wire format: integer lists "1,2,-1" ("-" = empty); a boolean matrix is printed as three tokens "R C bits"
   (bits row-major 0/1, "-" if there are none); a float matrix is read as rows separated by ';', entries by ','
   (C99 hex floats), "-" = no rows, "e" = an empty row; a list of matrices / vectors is separated by '/'.
   cond = -1 stands for an unconditional bijection (None). *)
open Masks
open Conv

let nat s = nat_of_int (int_of_string s)
let zs s = List.map z_of_int (ints_of s)
let cond_of s = let c = int_of_string s in if c < 0 then None else Some (nat_of_int c)

let str_bmat (m : bool list list) : string =
  let r = List.length m in
  let c = match m with [] -> 0 | row :: _ -> List.length row in
  let bits = String.concat "" (List.map (fun row -> String.concat "" (List.map (fun b -> if b then "1" else "0") row)) m) in
  Printf.sprintf "%d %d %s" r c (if bits = "" then "-" else bits)
let str_bmats (l : bool list list list) : string =
  String.concat " " (string_of_int (List.length l) :: List.map str_bmat l)
let str_zs (l : z list) = str_ints (List.map int_of_z l)

let row_of s = if s = "e" then [] else List.map float_of_string (String.split_on_char ',' s)
let fmat_of s : float list list = if s = "-" then [] else List.map row_of (String.split_on_char ';' s)
let fmats_of s : float list list list = if s = "-" then [] else List.map fmat_of (String.split_on_char '/' s)
let fvec_of s : float list = if s = "-" || s = "e" then [] else List.map float_of_string (String.split_on_char ',' s)
let fvecs_of s : float list list = if s = "-" then [] else List.map fvec_of (String.split_on_char '/' s)
let str_fmat (m : float list list) : string =
  if m = [] then "-" else String.concat ";" (List.map (fun r -> if r = [] then "e" else String.concat "," (List.map hexf r)) m)

let act_of = function
  | "relu" -> (fun x -> if x > 0. then x else 0.)          (* jax.nn.relu = maximum(x, 0) *)
  | "tanh" -> Float.tanh
  | "id" -> (fun x -> x)
  | "lrelu" -> (fun x -> if x > 0. then x else 0.5 *. x)
  | a -> failwith ("unknown activation " ^ a)

(* transformer families used by the tie: constructor(params) adds the initial (ravelled) parameters *)
let tau_of (s : string) : float list -> float -> float =
  match String.split_on_char ':' s with
  | ["loc"; a0] -> let a0 = float_of_string a0 in
      (fun p x -> match p with [p0] -> x +. (p0 +. a0) | _ -> nan)
  | ["lin2"; a0; b0] -> let a0 = float_of_string a0 and b0 = float_of_string b0 in
      (fun p x -> match p with [p0; p1] -> (p0 +. a0) *. x +. (p1 +. b0) | _ -> nan)
  | _ -> failwith ("unknown transformer " ^ s)

let softplus x = if Float.is_nan x then x else Float.max x 0. +. Float.log1p (Float.exp (-. Float.abs x))
let norm2 (l : float list) = Float.sqrt (List.fold_left (fun a v -> a +. v *. v) 0. l)

let zero = 0. and addf = ( +. ) and mulf = ( *. )

let handle (toks : string list) : string =
  match toks with
  | ["rank"; i; o; e] -> str_bmat (rank_based_mask (zs i) (zs o) (bool_of e))
  | ["bdiag"; bh; bw; n] -> str_bmat (block_diag_mask (nat bh) (nat bw) (nat n))
  | ["btril"; bh; bw; n; k] -> str_bmat (block_tril_mask (nat bh) (nat bw) (nat n) (z_of_int (int_of_string k)))
  | ["mafranks"; dim; cond; width; npar] ->
      let c = cond_of cond in
      Printf.sprintf "%s %s %s" (str_zs (maf_in_ranks (nat dim) c)) (str_zs (maf_hidden_ranks (nat dim) c (nat width)))
        (str_zs (maf_out_ranks (nat dim) (nat npar)))
  | ["mafmasks"; dim; cond; width; depth; npar] ->
      str_bmats (maf_masks (nat dim) (cond_of cond) (nat width) (nat depth) (nat npar))
  | ["mafdep"; dim; cond; width; depth; npar] ->
      let c = cond_of cond in
      str_bmat (maf_param_dep (nat dim) c (nat width) (nat depth) (nat npar)) ^ " " ^
      str_bmat (maf_transform_dep (nat dim) c (nat width) (nat depth) (nat npar))
  | ["coupdep"; d; dim; cdim] -> str_bmat (coupling_dep (nat d) (nat dim) (nat cdim))
  | ["bnafmasks"; dim; depth; bd] ->
      let t = bnaf_tril_masks (nat dim) (nat depth) (nat bd) in
      str_bmats t ^ " " ^ str_bmats (bnaf_diag_masks (nat dim) (nat depth) (nat bd)) ^ " " ^ str_bmat (reach t (nat dim))
  | ["mafparams"; dim; cond; width; depth; npar; act; ws; bs; x; c] ->
      str_floats (maf_params zero addf mulf (nat dim) (cond_of cond) (nat width) (nat depth) (nat npar)
                    (fmats_of ws) (fvecs_of bs) (act_of act) (fvec_of x) (fvec_of c))
  | ["maftrans"; dim; cond; width; depth; npar; act; tau; ws; bs; x; c] ->
      str_floats (maf_transform zero addf mulf (tau_of tau) (nat dim) (cond_of cond) (nat width) (nat depth) (nat npar)
                    (fmats_of ws) (fvecs_of bs) (act_of act) (fvec_of x) (fvec_of c))
  | ["coupling"; d; dim; hascond; act; tau; ws; bs; x; c] ->
      (* the conditioner: the unmasked MLP = masked_mlp with all-true masks of the weights' own shapes *)
      let ws = fmats_of ws and bs = fvecs_of bs in
      let masks = List.map (fun w -> List.map (fun row -> List.map (fun _ -> true) row) w) ws in
      let conditioner inp = masked_mlp zero addf mulf ws bs masks (act_of act) inp in
      str_floats (coupling_transform (tau_of tau) conditioner (nat d) (nat dim) (fvec_of x)
                    (if bool_of hascond then Some (fvec_of c) else None))
  | ["bnaf"; dim; depth; bd; act; ws; bs; hascond; cterm; x] ->
      str_floats (bnaf_transform zero addf mulf (nat dim) (nat depth) (nat bd) (fmats_of ws) (fvecs_of bs) (act_of act)
                    (if bool_of hascond then Some (fvec_of cterm) else None) (fvec_of x))
  | ["bnafw"; bh; bw; n; w1; w2; scale] ->
      let tril = block_tril_mask (nat bh) (nat bw) (nat n) Z0 and diag = block_diag_mask (nat bh) (nat bw) (nat n) in
      str_fmat (bnaf_weight zero mulf softplus norm2 ( /. ) tril diag (fmat_of w1) (fmat_of w2) (fvec_of scale))
  | _ -> "ERR unknown-request"

let () =
  try
    while true do
      let line = input_line stdin in
      let out = try handle (split_ws line) with e -> "ERR " ^ Printexc.to_string e in
      print_endline out
    done
  with End_of_file -> ()
