(* Driver for the extracted model: one request per line on stdin, one result per line on stdout.
   Request: "<unit> <args...>" (space separated; lists comma separated; "-" = empty list). *)
open Train
open Conv

let handle (toks : string list) : string =
  match toks with
  | ["c16.data"; p; m; rb; vals] ->
      let (a, (nt, nv)) =
        fit_data_loop (nat_of_int (int_of_string p)) (List.map z_of_int (ints_of vals))
          (nat_of_int (int_of_string m)) (bool_of rb) in
      Printf.sprintf "%d %d %d" (int_of_nat a) (int_of_nat nt) (int_of_nat nv)
  | ["c16.var"; steps; rb; vals] ->
      let (a, n) = fit_var_loop (List.map z_of_int (ints_of vals)) (nat_of_int (int_of_string steps)) (bool_of rb) in
      Printf.sprintf "%d %d" (int_of_nat a) (int_of_nat n)
  | ["c16.var_old"; steps; rb; vals] ->
      let (a, n) = fit_var_loop_old (List.map z_of_int (ints_of vals)) (nat_of_int (int_of_string steps)) (bool_of rb) in
      Printf.sprintf "%d %d" (int_of_nat a) (int_of_nat n)
  | ["c16.fruitless"; vals] ->
      string_of_int (int_of_nat (count_fruitless (List.map z_of_int (ints_of vals))))
  | _ -> "ERR unknown-request"

let () =
  try
    while true do
      let line = input_line stdin in
      let out = try handle (split_ws line) with e -> "ERR " ^ Printexc.to_string e in
      print_endline out
    done
  with End_of_file -> ()
