(* Driver for the extracted pytree / wrapper model (group tree: C12, C14).
   One request per line: "<unit> [args] <tree> [| <tree>]"; trees are S-expressions with blank-separated tokens:
     ( A <F|I|B|PF|PI|PB> <shape: d,d,..|-> <data: hex floats|-> )    array-like leaf
     ( S <payload> )                                                  any other leaf
     N                                                                None
     ( T <tag> child ... )                                            container / module
     ( W <id> <NT|BR|WH|WN|LA> child ... )                            wrapper (dynamic fields in order, incl. _dummy)
   Tags of bijections inside BijectionReparam: "<Class>@<p>,<p>": the positions among the children of the fields the
   class needs (shape | loc | scale | loc,scale | bijections).
   Static payloads "fn:<name>" name the functions the harness puts inside Lambda. *)
open Tree
open Conv
open Fops

type vt = (float, string, string) vtree

let kind_of = function
  | "F" -> KFloat | "I" -> KInt | "B" -> KBool | "PF" -> KPyFloat | "PI" -> KPyInt | "PB" -> KPyBool
  | s -> failwith ("kind " ^ s)
let str_kind = function
  | KFloat -> "F" | KInt -> "I" | KBool -> "B" | KPyFloat -> "PF" | KPyInt -> "PI" | KPyBool -> "PB"
let wkind_of = function
  | "NT" -> NonTrainable | "BR" -> BijReparam | "WH" -> Where | "WN" -> WeightNorm | "LA" -> Lambda
  | s -> failwith ("wkind " ^ s)
let str_wkind = function
  | NonTrainable -> "NT" | BijReparam -> "BR" | Where -> "WH" | WeightNorm -> "WN" | Lambda -> "LA"

let rec parse (toks : string list) : vt * string list =
  match toks with
  | "N" :: r -> (Hole, r)
  | "(" :: "A" :: k :: sh :: data :: ")" :: r ->
      (Arr (kind_of k, { tshape = List.map nat_of_int (ints_of sh); tdata = floats_of data }), r)
  | "(" :: "S" :: s :: ")" :: r -> (Static s, r)
  | "(" :: "T" :: tag :: r -> let (l, r') = parse_list r in (Node (tag, l), r')
  | "(" :: "W" :: id :: k :: r ->
      let (l, r') = parse_list r in (W ((z_of_int (int_of_string id), wkind_of k), l), r')
  | t :: _ -> failwith ("parse at " ^ t)
  | [] -> failwith "parse: end of input"
and parse_list toks =
  match toks with
  | ")" :: r -> ([], r)
  | _ -> let (x, r) = parse toks in let (xs, r') = parse_list r in (x :: xs, r')

let str_shape sh = str_ints (List.map int_of_nat sh)
let rec show (t : vt) : string =
  match t with
  | Hole -> "N"
  | Arr (k, v) -> Printf.sprintf "( A %s %s %s )" (str_kind k) (str_shape v.tshape) (str_floats v.tdata)
  | Static s -> Printf.sprintf "( S %s )" s
  | Node (tag, l) -> Printf.sprintf "( T %s %s)" tag (String.concat "" (List.map (fun c -> show c ^ " ") l))
  | W ((id, k), l) ->
      Printf.sprintf "( W %d %s %s)" (int_of_z id) (str_wkind k) (String.concat "" (List.map (fun c -> show c ^ " ") l))

let bij_of (tag : string) : (bcls * nat list) option =
  let nats s = if s = "" then [] else List.map (fun x -> nat_of_int (int_of_string x)) (String.split_on_char ',' s) in
  match String.split_on_char '@' tag with
  | cls :: rest ->
      let ps = (match rest with p :: _ -> nats p | [] -> []) in
      (match cls with
       | "Exp" -> Some (BExp, ps) | "SoftPlus" -> Some (BSoftPlus, ps) | "Tanh" -> Some (BTanh, ps)
       | "Loc" -> Some (BLoc, ps) | "Scale" -> Some (BScale, ps) | "Affine" -> Some (BAffine, ps)
       | "Chain" -> Some (BChain, ps)
       | _ -> None)
  | [] -> None
let fn_of (s : string) : fid option =
  match s with
  | "fn:exp" -> Some FExp | "fn:add1" -> Some FAdd1 | "fn:neg" -> Some FNeg | "fn:add" -> Some FAdd
  | "fn:sum" -> Some FSum | "fn:mul" -> Some FMul | "fn:pair" -> Some FPair | "fn:zero" -> Some FZero
  | _ -> None
let tuple_tag = "tuple"

let split_bar (toks : string list) : string list * string list =
  let rec go acc = function
    | "|" :: r -> (List.rev acc, r)
    | x :: r -> go (x :: acc) r
    | [] -> (List.rev acc, []) in
  go [] toks
let tree_of toks = let (t, r) = parse toks in if r <> [] then failwith "trailing tokens" else t
let str_label (id, k) = Printf.sprintf "%d:%s" (int_of_z id) (str_wkind k)
let str_labels l = if l = [] then "-" else String.concat "," (List.map str_label l)

let handle (toks : string list) : string =
  match toks with
  | "unwrap" :: r ->
      (match unwrap_num ops bij_of fn_of tuple_tag (tree_of r) with Some u -> "OK " ^ show u | None -> "NONE")
  | "trace" :: r ->
      (match unwrap_trace_num ops bij_of fn_of tuple_tag (tree_of r) with Some l -> "OK " ^ str_labels l | None -> "NONE")
  | "ids" :: r ->
      let t = tree_of r in
      str_labels (wrapper_ids (fun k -> k) t) ^ " " ^ str_labels (postorder_ids (fun k -> k) t)
  | "part" :: r -> let (p, s) = part_num (tree_of r) in show p ^ " | " ^ show s
  | "comb" :: r -> let (a, b) = split_bar r in show (comb (tree_of a) (tree_of b))
  | "nontrainable" :: r -> show (non_trainable_num (tree_of r))
  | "count" :: r ->
      let t = tree_of r in Printf.sprintf "%d %d" (int_of_nat (n_params t)) (int_of_nat (count_trainable t))
  | "ctor" :: v :: r -> show (ctor ops (tree_of r) (floats_of v))
  | "fit" :: ds :: r -> show (fit_shift ops (floats_of ds) (tree_of r))
  | "clean" :: r -> if cleanb (tree_of r) then "1" else "0"
  | "flat" :: r ->
      let t = tree_of r in
      let (ls, d) = flatten_num t in
      (match unflatten_num d ls with
       | Some (t', []) -> Printf.sprintf "%d %s" (List.length ls) (show t')
       | _ -> "NONE")
  | "ser" :: r ->
      let st = serialise_num (tree_of r) in
      if st = [] then "-" else
      String.concat " ; " (List.map (fun (k, v) -> Printf.sprintf "%s %s %s" (str_kind k) (str_shape v.tshape) (str_floats v.tdata)) st)
  | "roundtrip" :: r ->
      let (a, b) = split_bar r in
      (match deserialise_num (tree_of a) (serialise_num (tree_of b)) with
       | Some (t, []) -> "OK " ^ show t
       | Some (_, _) -> "LEFTOVER"
       | None -> "NONE")
  | "wf" :: r ->
      let is_arr s = String.length s >= 5 && String.sub s 0 5 = "ARRAY" in
      if wf_module is_arr (tree_of r) then "1" else "0"
  | _ -> "ERR unknown-request"

let () =
  try
    while true do
      let line = input_line stdin in
      let out = try handle (split_ws line) with e -> "ERR " ^ Printexc.to_string e in
      print_endline out
    done
  with End_of_file -> ()
