(* Driver of group "data" (C15): one request per line on stdin, one result per line on stdout.
   Key paths: "-" = the root key, else dot-separated child indices ("0.0.1").
   Row lists: comma separated, "-" = empty.  Permutation table: entries "path:n:perm" joined by ";"
   ("-" = empty table).
     c15.queries n n_train bs epochs has_cond          -> "path:n path:n ..."   (keys handed to jr.permutation, in order)
     c15.fit     n n_train bs epochs has_cond table    -> "<raised> <epochs run> K/path/rows[/rows] ..."  (K = T | V)
     c15.tvsplit path n n_train n_arrays table         -> "rows[/rows] | rows[/rows]"   (train arrays | val arrays)
     c15.batches n bs n_arrays                         -> "RAISE" or "rows[/rows] rows[/rows] ..." (zip of get_batches) *)
open Data
open Conv

let nat s = nat_of_int (int_of_string s)
let path_of s = if s = "-" then [] else List.map (fun t -> nat_of_int (int_of_string t)) (String.split_on_char '.' s)
let str_path p = if p = [] then "-" else String.concat "." (List.map (fun n -> string_of_int (int_of_nat n)) p)
let str_rows r = str_ints (List.map int_of_nat r)
let str_args a = String.concat "/" (List.map str_rows a)

let table_of s =
  if s = "-" then [] else
  List.map (fun ent ->
      match String.split_on_char ':' ent with
      | [p; n; perm] -> ((path_of p, nat n), List.map nat_of_int (ints_of perm))
      | _ -> failwith "bad table entry")
    (String.split_on_char ';' s)

let rec seq0 i n = if i >= n then [] else nat_of_int i :: seq0 (i + 1) n
let rec rep x m = if m <= 0 then [] else x :: rep x (m - 1)

let handle (toks : string list) : string =
  match toks with
  | ["c15.queries"; n; nt; bs; e; hc] ->
      let q = fit_perm_keys id_perm [] (nat n) (nat nt) (nat bs) (nat e) (bool_of hc) in
      String.concat " " (List.map (fun (p, k) -> str_path p ^ ":" ^ string_of_int (int_of_nat k)) q)
  | ["c15.fit"; n; nt; bs; e; hc; tbl] ->
      let perm = table_perm (table_of tbl) in
      let eps = fit_epochs perm [] (nat n) (nat nt) (nat bs) (nat e) (bool_of hc) in
      let raised = fit_raised perm [] (nat n) (nat nt) (nat bs) (nat e) (bool_of hc) in
      let tr = fit_trace perm [] (nat n) (nat nt) (nat bs) (nat e) (bool_of hc) in
      let call c = (match c.c_kind with Train -> "T" | Val -> "V") ^ "/" ^ str_path c.c_key ^ "/" ^ str_args c.c_args in
      String.concat " " ((if raised then "1" else "0") :: string_of_int (List.length eps) :: List.map call tr)
  | ["c15.tvsplit"; p; n; nt; m; tbl] ->
      let perm = table_perm (table_of tbl) in
      let n = int_of_string n in
      let (tr, va) = train_val_split perm (path_of p) (rep (seq0 0 n) (int_of_string m)) (nat nt) in
      str_args tr ^ " | " ^ str_args va
  | ["c15.batches"; n; bs; m] ->
      (match get_batches (rep (seq0 0 (int_of_string n)) (int_of_string m)) (nat bs) with
       | None -> "RAISE"
       | Some cols -> let z = zip_batches cols in if z = [] then "NONE" else String.concat " " (List.map str_args z))
  | _ -> "ERR unknown-request"

let () =
  try
    while true do
      let line = input_line stdin in
      let out = try handle (split_ws line) with e -> "ERR " ^ Printexc.to_string e in
      print_endline out
    done
  with End_of_file -> ()
