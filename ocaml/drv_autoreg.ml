(* Driver of group "autoreg": the layer-level models of MaskedAutoregressive / Coupling (coq/Model/AutoregNet.v)
   at OCaml floats.  One request per line on stdin, one result per line on stdout.
   Wire format: C99 hex floats; a vector "a,b,c" ("-" = empty); a matrix = rows separated by ';' ("-" = no rows,
   "e" = an empty row); a list of matrices / vectors is separated by '/'.
     cd     = -1 (unconditional) | cond_dim
     act    = relu | tanh
     tspec  = aff:none:<init> | aff:<min_scale>:<init> | rqs:<K>:<lo>:<hi>:<softmax_adjust>:<min_derivative>:<init>
     c      = none | vector
   Requests
     maf <fwd|inv|fwdld|invld> dim cd width depth act tspec ws bs x c      -> "<vector> <log_det or ->"   (ws = RAW weights)
     mafcond dim cd width depth act tspec ws bs inp                        -> conditioner output (masks applied by the model)
     maftp   dim cd width depth act tspec ws bs inp                        -> unwrapped transformer parameters, one row per coordinate
     unwrapw dim cd width depth npar ws                                    -> the unwrapped (masked) weight matrices
     mafmasks dim cd width depth npar                                      -> "n R C bits R C bits ..."
     mlp act ws bs inp                                                     -> eqx.nn.MLP on plain weights
     coup <fwd|inv|fwdld|invld> ud dim act tspec ws bs x c                 -> "<vector> <log_det or ->"
     couptp  ud dim act tspec ws bs inp                                    -> unwrapped transformer parameters per coordinate
     tinit aff:<ms> | tinit rqs:<K>:<md>                                   -> the initial ravelled parameters of the factory transformers *)
open Autoreg
open Conv
open Fops
let o = Fops.ops

let nat s = nat_of_int (int_of_string s)
let cd_of s = let c = int_of_string s in if c < 0 then None else Some (nat_of_int c)
let fl = float_of_string
let row_of s = if s = "e" then [] else List.map fl (String.split_on_char ',' s)
let fmat_of s : float list list = if s = "-" then [] else List.map row_of (String.split_on_char ';' s)
let fmats_of s : float list list list = if s = "-" then [] else List.map fmat_of (String.split_on_char '/' s)
let fvec_of s : float list = if s = "-" || s = "e" then [] else List.map fl (String.split_on_char ',' s)
let fvecs_of s : float list list = if s = "-" then [] else List.map fvec_of (String.split_on_char '/' s)
let str_fmat (m : float list list) : string =
  if m = [] then "-" else String.concat ";" (List.map (fun r -> if r = [] then "e" else String.concat "," (List.map hexf r)) m)
let str_fmats (l : float list list list) : string = if l = [] then "-" else String.concat "/" (List.map str_fmat l)
let str_bmat (m : bool list list) : string =
  let r = List.length m in
  let c = match m with [] -> 0 | row :: _ -> List.length row in
  let bits = String.concat "" (List.map (fun row -> String.concat "" (List.map (fun b -> if b then "1" else "0") row)) m) in
  Printf.sprintf "%d %d %s" r c (if bits = "" then "-" else bits)
let str_bmats (l : bool list list list) : string =
  String.concat " " (string_of_int (List.length l) :: List.map str_bmat l)

let act_of_s = function
  | "relu" -> act_of o ARelu
  | "tanh" -> act_of o ATanh
  | a -> failwith ("unknown activation " ^ a)
let tspec_of (s : string) : float tspec =
  match String.split_on_char ':' s with
  | ["aff"; "none"; init] -> TAffine (None, fvec_of init)
  | ["aff"; ms; init] -> TAffine (Some (fl ms), fvec_of init)
  | ["rqs"; k; lo; hi; adj; md; init] -> TRqs (nat k, fl lo, fl hi, fl adj, fl md, fvec_of init)
  | _ -> failwith ("bad transformer spec " ^ s)
let c_of s = if s = "none" then None else Some (fvec_of s)
let out ys ld = str_floats ys ^ " " ^ (match ld with None -> "-" | Some l -> hexf l)

let handle (toks : string list) : string =
  match toks with
  | ["maf"; meth; dim; cd; width; depth; act; ts; ws; bs; x; c] ->
      let dim = nat dim and cd = cd_of cd and width = nat width and depth = nat depth and act = act_of_s act
      and ts = tspec_of ts and ws = fmats_of ws and bs = fvecs_of bs and x = fvec_of x and c = c_of c in
      (match meth with
       | "fwd" -> out (maf_transform o dim cd width depth ts ws bs act x c) None
       | "inv" -> out (maf_inverse o dim cd width depth ts ws bs act x c) None
       | "fwdld" -> let (y, l) = maf_transform_and_log_det o dim cd width depth ts ws bs act x c in out y (Some l)
       | "invld" -> let (y, l) = maf_inverse_and_log_det o dim cd width depth ts ws bs act x c in out y (Some l)
       | _ -> "ERR method")
  | ["mafcond"; dim; cd; width; depth; act; ts; ws; bs; inp] ->
      str_floats (maf_cond_net o (nat dim) (cd_of cd) (nat width) (nat depth) (tspec_of ts) (fmats_of ws) (fvecs_of bs) (act_of_s act) (fvec_of inp))
  | ["maftp"; dim; cd; width; depth; act; ts; ws; bs; inp] ->
      str_fmat (maf_tparams o (nat dim) (cd_of cd) (nat width) (nat depth) (tspec_of ts) (fmats_of ws) (fvecs_of bs) (act_of_s act) (fvec_of inp))
  | ["unwrapw"; dim; cd; width; depth; np; ws] ->
      str_fmats (unwrap_weights o (maf_masks (nat dim) (cd_of cd) (nat width) (nat depth) (nat np)) (fmats_of ws))
  | ["mafmasks"; dim; cd; width; depth; np] ->
      str_bmats (maf_masks (nat dim) (cd_of cd) (nat width) (nat depth) (nat np))
  | ["mlp"; act; ws; bs; inp] ->
      str_floats (mlp o (fmats_of ws) (fvecs_of bs) (act_of_s act) (fvec_of inp))
  | ["coup"; meth; ud; dim; act; ts; ws; bs; x; c] ->
      let ud = nat ud and dim = nat dim and act = act_of_s act and ts = tspec_of ts and ws = fmats_of ws and bs = fvecs_of bs
      and x = fvec_of x and c = c_of c in
      (match meth with
       | "fwd" -> out (coup_transform o ud dim ts ws bs act x c) None
       | "inv" -> out (coup_inverse o ud dim ts ws bs act x c) None
       | "fwdld" -> let (y, l) = coup_transform_and_log_det o ud dim ts ws bs act x c in out y (Some l)
       | "invld" -> let (y, l) = coup_inverse_and_log_det o ud dim ts ws bs act x c in out y (Some l)
       | _ -> "ERR method")
  | ["couptp"; ud; dim; act; ts; ws; bs; inp] ->
      str_fmat (coup_tparams o (nat ud) (nat dim) (tspec_of ts) (fmats_of ws) (fvecs_of bs) (act_of_s act) (fvec_of inp))
  | ["tinit"; ts] ->
      (match String.split_on_char ':' ts with
       | ["aff"; ms] -> str_floats (affine_min_scale_init o (fl ms))
       | ["rqs"; k; md] -> str_floats (rqs_init o (nat k) (fl md))
       | _ -> "ERR tinit")
  | _ -> "ERR unknown-request"

let () =
  try
    while true do
      let line = input_line stdin in
      let out = try handle (split_ws line) with e -> "ERR " ^ Printexc.to_string e in
      print_endline out
    done
  with End_of_file -> ()
