#!/bin/bash
# usage: show.sh file.v "anchor text" -> compiles prefix up to (not including) anchor, then Show.
f=$1; anchor=$2
python3 - "$f" "$anchor" <<'PY'
import sys
s=open(sys.argv[1]).read(); i=s.index(sys.argv[2])
open('/tmp/show_tmp.v','w').write(s[:i]+"\nShow. Abort.\n")
PY
coqc -Q /verif/coq FJ /tmp/show_tmp.v 2>&1 | head -${3:-60}
