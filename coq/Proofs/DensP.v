(* Lemmas about Model/Dens.v (C05): the code-shaped log-densities equal the textbook ones over R. *)
From Coq Require Import Reals List ZArith Bool Lra Lia Arith.
From FJ Require Import Model.Num Model.Dens Proofs.RNum.
Import ListNotations.
Open Scope R_scope.

(* ================= specification side: textbook densities, stated independently of the code ================= *)
(* log of a density value, -inf where the density vanishes *)
Definition elog (p : R) : ext R := if Rlt_dec 0 p then Fin (ln p) else NInf.
(* exp of an extended log-density *)
Definition eexp (v : ext R) : R := match v with Fin a => exp a | _ => 0 end.
(* sum of extended log-densities of independent coordinates: -inf is absorbing (a vanishing factor) *)
Definition eplus (x y : ext R) : ext R := match x, y with Fin a, Fin b => Fin (a + b) | _, _ => NInf end.
Definition esum (l : list (ext R)) : ext R := fold_right eplus (Fin 0) l.
Fixpoint rsum (l : list R) : R := match l with [] => 0 | x :: t => x + rsum t end.
Fixpoint rprod (l : list R) : R := match l with [] => 1 | x :: t => x * rprod t end.

Definition normal_pdf (mu sigma x : R) : R := exp (- ((x - mu) * (x - mu)) / (2 * (sigma * sigma))) / (sigma * sqrt (2 * PI)).
Definition lognormal_pdf (mu sigma x : R) : R :=
  if Rlt_dec 0 x then exp (- ((ln x - mu) * (ln x - mu)) / (2 * (sigma * sigma))) / (x * sigma * sqrt (2 * PI)) else 0.
Definition uniform_pdf (lo hi x : R) : R := if Rle_dec lo x then if Rle_dec x hi then 1 / (hi - lo) else 0 else 0.
Definition gumbel_pdf (mu beta x : R) : R := 1 / beta * exp (- ((x - mu) / beta + exp (- ((x - mu) / beta)))).
Definition cauchy_pdf (x0 gamma x : R) : R := 1 / (PI * gamma * (1 + ((x - x0) / gamma) * ((x - x0) / gamma))).
Definition laplace_pdf (mu b x : R) : R := 1 / (2 * b) * exp (- Rabs (x - mu) / b).
Definition logistic_pdf (mu s x : R) : R :=
  exp (- ((x - mu) / s)) / (s * ((1 + exp (- ((x - mu) / s))) * (1 + exp (- ((x - mu) / s))))).
Definition exponential_pdf (lambda x : R) : R := if Rle_dec 0 x then lambda * exp (- (lambda * x)) else 0.
(* Student t with Gamma := exp o lgam, lgam the SAME abstract function the model calls n_lgamma *)
Definition t_pdf (lgam : R -> R) (nu mu sigma x : R) : R :=
  exp (lgam ((nu + 1) / 2)) / (sqrt (nu * PI) * exp (lgam (nu / 2)) * sigma)
  * Rpower (1 + ((x - mu) / sigma) * ((x - mu) / sigma) / nu) (- ((nu + 1) / 2)).

(* ================= generic facts ================= *)
(* log_prob never returns NaN: for EVERY NumOps instance (floats included), every family, all inputs *)
Lemma nan_to_ninf_not_nan {A} (v : ext A) : nan_to_ninf v <> NaN.
Proof. destruct v; cbn; congruence. Qed.
Lemma lp_never_nan {A} (O : NumOps A) f p1 p2 p3 xs : fam_log_prob O f p1 p2 p3 xs <> NaN.
Proof. apply nan_to_ninf_not_nan. Qed.
Lemma class_lp_never_nan {A} (O : NumOps A) f a b d xs : class_log_prob O f a b d xs <> NaN.
Proof.
  unfold class_log_prob.
  destruct f; try destruct (ctor3 O a b d) as [? [? [? ?]]]; try destruct (ctor2 O a b) as [? [? ?]]; apply lp_never_nan.
Qed.
Lemma mixture_lp_never_nan {A} (O : NumOps A) lps ws : mixture_log_prob O lps ws <> NaN.
Proof. apply nan_to_ninf_not_nan. Qed.
Lemma mvn_lp_never_nan {A} (O : NumOps A) rows loc x : mvn_log_prob O rows loc x <> NaN.
Proof. apply nan_to_ninf_not_nan. Qed.

(* broadcasting: the element at flat target index i is the source element at NumPy's projected index *)
Lemma bcast_length {A} (O : NumOps A) rs rt d : length (bcast O rs rt d) = prodn rt.
Proof. unfold bcast. now rewrite map_length, seq_length. Qed.
Lemma bcast_nth {A} (O : NumOps A) rs rt d i : (i < prodn rt)%nat ->
  nth i (bcast O rs rt d) (c O 0) = nth (bproj rs rt i 1) d (c O 0).
Proof.
  intros Hi. unfold bcast. set (f := fun j => nth (bproj rs rt j 1) d (c O 0)).
  rewrite (nth_indep _ _ (f 0%nat)) by (now rewrite map_length, seq_length).
  rewrite map_nth. now rewrite seq_nth.
Qed.

(* without broadcasting (source shape = target shape) the projected index is the index itself *)
Lemma bproj_same_shape s : forall i stride, (i < prodn s)%nat -> bproj s s i stride = (stride * i)%nat.
Proof.
  induction s as [|t s IH]; intros i stride Hi; cbn in *.
  - lia.
  - assert (Ht : t <> 0%nat) by (intros ->; cbn in Hi; lia).
    assert (Hq : (i / t < prodn s)%nat) by (apply Nat.div_lt_upper_bound; [assumption|unfold prodn in *; lia]).
    rewrite (IH (i / t)%nat (stride * t)%nat Hq).
    pose proof (Nat.div_mod i t Ht) as Hdm.
    destruct (t =? 1)%nat eqn:E.
    + apply Nat.eqb_eq in E. subst t. rewrite Nat.div_1_r. lia.
    + nia.
Qed.

Section R.
  Variable lgam : R -> R.
  Notation O := (ROpsG lgam).

  Lemma fin_R a : fin O a = Fin a.
  Proof.
    unfold fin. cbn. replace (Rltb (a - a) (IZR 1)) with true; [reflexivity|].
    symmetry. apply Rltb_true. lra.
  Qed.
  Lemma cR z : c O z = IZR z. Proof. reflexivity. Qed.

  Lemma fold_Rplus l a : fold_left Rplus l a = a + rsum l.
  Proof. revert a. induction l as [|x l IH]; intros a; cbn; [lra|]. rewrite IH. lra. Qed.
  Lemma sum_R l : sum O l = rsum l.
  Proof. unfold sum. cbn. rewrite fold_Rplus. lra. Qed.

  (* ---------- ext R arithmetic ---------- *)
  Definition FN (v : ext R) : Prop := match v with Fin _ | NInf => True | _ => False end.
  Lemma e_add_FN x y : FN x -> FN y -> e_add O x y = eplus x y.
  Proof. destruct x, y; cbn; intros; try tauto; now rewrite ?fin_R. Qed.
  Lemma eplus_FN x y : FN (eplus x y). Proof. destruct x, y; cbn; auto. Qed.
  Lemma eplus_assoc x y z : eplus (eplus x y) z = eplus x (eplus y z).
  Proof. destruct x, y, z; cbn; try reflexivity. f_equal. lra. Qed.
  Lemma esum_FN l : FN (esum l).
  Proof. destruct l; cbn; [exact I|apply eplus_FN]. Qed.
  Lemma fold_e_add l acc : FN acc -> Forall FN l -> fold_left (e_add O) l acc = eplus acc (esum l).
  Proof.
    revert acc. induction l as [|v l IH]; intros acc Ha Hl; cbn.
    - destruct acc; cbn in *; try tauto. f_equal. lra.
    - inversion Hl as [|? ? Hv Hl']; subst. rewrite IH; [|rewrite e_add_FN by assumption; apply eplus_FN|assumption].
      rewrite e_add_FN by assumption. apply eplus_assoc.
  Qed.
  Lemma e_sum_esum l : Forall FN l -> e_sum O l = esum l.
  Proof.
    intros Hl. unfold e_sum. rewrite fold_e_add; [|exact I|assumption].
    pose proof (esum_FN l) as H. destruct (esum l); cbn in *; try tauto. rewrite ?cR. f_equal. lra.
  Qed.
  Lemma e_sum_has_nan l acc : (acc = NaN \/ In NaN l) -> fold_left (e_add O) l acc = NaN.
  Proof.
    revert acc. induction l as [|v l IH]; intros acc [H|H]; cbn.
    - assumption.
    - destruct H.
    - apply IH. left. subst. reflexivity.
    - apply IH. destruct H as [Hv|H]; [left; subst v; destruct acc; reflexivity|right; assumption].
  Qed.
  Lemma esum_map_Fin l : esum (map Fin l) = Fin (rsum l).
  Proof. induction l as [|x l IH]; cbn; [reflexivity|]. cbn in IH. unfold esum in IH. now rewrite IH. Qed.

  (* joint density = product of the marginals: the sum of log-densities is the log of the product *)
  Lemma esum_elog_prod ps : Forall (fun p => 0 <= p) ps -> esum (map elog ps) = elog (rprod ps).
  Proof.
    induction 1 as [|p ps Hp Hps IH]; cbn.
    - unfold elog. destruct (Rlt_dec 0 1); [|lra]. now rewrite ln_1.
    - change (fold_right eplus (Fin 0) (map elog ps)) with (esum (map elog ps)). rewrite IH.
      assert (Hr : 0 <= rprod ps). { clear -Hps. induction Hps; cbn; [lra|]. now apply Rmult_le_pos. }
      unfold elog. destruct (Rlt_dec 0 p) as [Hp1|Hp1]; destruct (Rlt_dec 0 (rprod ps)) as [Hr1|Hr1]; cbn.
      + destruct (Rlt_dec 0 (p * rprod ps)) as [_|N]; [|exfalso; apply N; now apply Rmult_lt_0_compat].
        now rewrite ln_mult.
      + destruct (Rlt_dec 0 (p * rprod ps)) as [N|_]; [|reflexivity]. exfalso. replace (rprod ps) with 0 in N by lra. lra.
      + destruct (Rlt_dec 0 (p * rprod ps)) as [N|_]; [|reflexivity]. exfalso. replace p with 0 in N by lra. lra.
      + destruct (Rlt_dec 0 (p * rprod ps)) as [N|_]; [|reflexivity]. exfalso. replace p with 0 in N by lra. lra.
  Qed.

  (* ---------- bijections at R ---------- *)
  Lemma affine_inv1_R l s x : affine_inv1 O l s (Fin x) = Fin ((x - l) / s).
  Proof. unfold affine_inv1, e_subf, e_divf. now rewrite !fin_R. Qed.
  Lemma scale_inv1_R s x : scale_inv1 O s (Fin x) = Fin (x / s).
  Proof. unfold scale_inv1, e_divf. now rewrite fin_R. Qed.
  Lemma scale_ldj_R ss : scale_ldj O ss = Fin (- rsum (map (fun s => ln (Rabs s)) ss)).
  Proof. unfold scale_ldj. rewrite fin_R. cbn [n_neg ROpsG n_log n_abs]. now rewrite sum_R. Qed.

  (* core: per-coordinate values (finite or -inf) summed, plus a finite sum of per-coordinate corrections *)
  Lemma esum_shift vs gs : length vs = length gs ->
    eplus (esum vs) (Fin (- rsum gs)) = esum (map2 (fun v g => eplus v (Fin (- g))) vs gs).
  Proof.
    revert gs. induction vs as [|v vs IH]; intros gs Hlen; destruct gs as [|g gs]; cbn in Hlen; try discriminate.
    - cbn. f_equal. lra.
    - injection Hlen as Hlen. specialize (IH gs Hlen). cbn [map2 esum fold_right rsum].
      change (fold_right eplus (Fin 0) ?l) with (esum l). rewrite <- IH.
      destruct v, (esum vs); cbn; try reflexivity. f_equal. lra.
  Qed.
  Lemma nan_to_ninf_FN v : FN v -> nan_to_ninf v = v.
  Proof. destruct v; cbn; tauto. Qed.
  (* base value per coordinate (finite or -inf) + the Affine/Scale log-det, NaN -> -inf *)
  Lemma ls_core_raw vs ss : Forall FN vs -> length vs = length ss ->
    e_add O (e_sum O vs) (scale_ldj O ss) = esum (map2 (fun v s => eplus v (Fin (- ln (Rabs s)))) vs ss).
  Proof.
    intros Hvs Hlen. rewrite e_sum_esum by assumption. rewrite scale_ldj_R.
    rewrite e_add_FN; [|apply esum_FN|exact I].
    rewrite esum_shift by (now rewrite map_length).
    f_equal. clear Hvs. revert ss Hlen. induction vs as [|v vs IH]; intros [|s ss] Hlen; cbn in *; try discriminate; try reflexivity.
    f_equal. apply IH. now injection Hlen.
  Qed.
  Lemma ls_core vs ss : Forall FN vs -> length vs = length ss ->
    nan_to_ninf (e_add O (e_sum O vs) (scale_ldj O ss)) = esum (map2 (fun v s => eplus v (Fin (- ln (Rabs s)))) vs ss).
  Proof. intros. rewrite ls_core_raw by assumption. apply nan_to_ninf_FN, esum_FN. Qed.

  (* ---------- list plumbing ---------- *)
  Lemma map_map3 {X Y Z W V} (h : W -> V) (f : X -> Y -> Z -> W) a b d :
    map h (map3 f a b d) = map3 (fun x y z => h (f x y z)) a b d.
  Proof. revert b d. induction a as [|x a IH]; intros [|y b] [|z d]; cbn; try reflexivity. now rewrite IH. Qed.
  Lemma map3_map_r {X Y Z Z' W} (f : X -> Y -> Z -> W) (h : Z' -> Z) a b d :
    map3 f a b (map h d) = map3 (fun x y z => f x y (h z)) a b d.
  Proof. revert b d. induction a as [|x a IH]; intros [|y b] [|z d]; cbn; try reflexivity. now rewrite IH. Qed.
  Lemma map_map2 {X Y W V} (h : W -> V) (f : X -> Y -> W) a b : map h (map2 f a b) = map2 (fun x y => h (f x y)) a b.
  Proof. revert b. induction a as [|x a IH]; intros [|y b]; cbn; try reflexivity. now rewrite IH. Qed.
  Lemma map2_map_r {X Y Y' W} (f : X -> Y -> W) (h : Y' -> Y) a b : map2 f a (map h b) = map2 (fun x y => f x (h y)) a b.
  Proof. revert b. induction a as [|x a IH]; intros [|y b]; cbn; try reflexivity. now rewrite IH. Qed.
  Lemma map3_map2_mid {X Y Y' Z W} (f : X -> Y -> Z -> W) (g : X -> Y' -> Y) a b d :
    map3 f a (map2 g a b) d = map3 (fun x y z => f x (g x y) z) a b d.
  Proof. revert b d. induction a as [|x a IH]; intros [|y b] [|z d]; cbn; try reflexivity. now rewrite IH. Qed.
  Lemma map3_ext_in {X Z W} (P : R -> Prop) (f g : X -> R -> Z -> W) a b d :
    Forall P b -> (forall x y z, P y -> f x y z = g x y z) -> map3 f a b d = map3 g a b d.
  Proof.
    intros Hb E. revert a d. induction Hb as [|y b Hy Hb IH]; intros [|x a] [|z d]; cbn; try reflexivity.
    now rewrite IH, E.
  Qed.
  Lemma map2_ext_in {Z W} (P : R -> Prop) (f g : R -> Z -> W) a d :
    Forall P a -> (forall y z, P y -> f y z = g y z) -> map2 f a d = map2 g a d.
  Proof.
    intros Ha E. revert d. induction Ha as [|y a Hy Ha IH]; intros [|z d]; cbn; try reflexivity. now rewrite IH, E.
  Qed.
  Lemma map3_length {X Y Z W} (f : X -> Y -> Z -> W) a b d :
    length a = length d -> length b = length d -> length (map3 f a b d) = length d.
  Proof.
    revert b d. induction a as [|x a IH]; intros [|y b] [|z d] H1 H2; cbn in *; try discriminate; try reflexivity.
    f_equal. apply IH; congruence.
  Qed.
  Lemma map2_length {X Y W} (f : X -> Y -> W) a b : length a = length b -> length (map2 f a b) = length b.
  Proof. revert b. induction a as [|x a IH]; intros [|y b] H; cbn in *; try discriminate; try reflexivity. f_equal. apply IH. congruence. Qed.
  Lemma map3_Forall {X Y Z W} (Pb : Y -> Prop) (Pd : Z -> Prop) (Q : W -> Prop) (f : X -> Y -> Z -> W) a b d :
    Forall Pb b -> Forall Pd d -> (forall x y z, Pb y -> Pd z -> Q (f x y z)) -> Forall Q (map3 f a b d).
  Proof.
    intros Hb Hd HQ. revert a d Hd. induction Hb as [|y b Hy Hb IH]; intros [|x a] [|z d] Hd; cbn; try constructor.
    - inversion Hd; subst. now apply HQ.
    - inversion Hd; subst. now apply IH.
  Qed.
  Lemma map3_Exists {X Y Z W} (Pb : Y -> Prop) (Pd : Z -> Prop) (Q : W -> Prop) (f : X -> Y -> Z -> W) a b d :
    length a = length d -> length b = length d -> Forall Pb b -> Exists Pd d ->
    (forall x y z, Pb y -> Pd z -> Q (f x y z)) -> Exists Q (map3 f a b d).
  Proof.
    intros H1 H2 Hb Hd HQ. revert a b H1 H2 Hb. induction Hd as [z d Hz|z d Hd IH]; intros [|x a] [|y b] H1 H2 Hb; cbn in *; try discriminate.
    - inversion Hb; subst. left. now apply HQ.
    - inversion Hb; subst. right. apply IH; congruence.
  Qed.
  Lemma esum_Exists_NInf l : Exists (fun v => v = NInf) l -> esum l = NInf.
  Proof.
    induction 1 as [v l Hv|v l Hl IH]; cbn.
    - subst. reflexivity.
    - change (fold_right eplus (Fin 0) l) with (esum l). rewrite IH. now destruct v.
  Qed.

  (* shape (loc, scale, x): the location-scale classes *)
  Lemma plumb3 (g lpdf : R -> R -> R -> ext R) :
    (forall l s x, 0 < s -> FN (g l s x) /\ eplus (g l s x) (Fin (- ln (Rabs s))) = lpdf l s x) ->
    forall locs scales xs, length locs = length xs -> length scales = length xs -> Forall (fun s => 0 < s) scales ->
    nan_to_ninf (e_add O (e_sum O (map3 g locs scales xs)) (scale_ldj O scales)) = esum (map3 lpdf locs scales xs).
  Proof.
    intros Hp locs scales xs H1 H2 Hs.
    rewrite ls_core.
    - f_equal. revert locs xs H1 H2. induction Hs as [|s scales Hs0 Hs IH]; intros [|l locs] [|x xs] H1 H2; cbn in *; try discriminate; try reflexivity.
      f_equal; [apply Hp; assumption|]. apply IH; congruence.
    - apply (map3_Forall (fun s => 0 < s) (fun _ => True)); [assumption|clear; induction xs; constructor; auto|].
      intros l s x Hs0 _. now apply Hp.
    - rewrite map3_length; congruence.
  Qed.
  (* shape (scale, x): Scale(1/rate) *)
  Lemma plumb2 (g lpdf : R -> R -> ext R) :
    (forall s x, 0 < s -> FN (g s x) /\ eplus (g s x) (Fin (- ln (Rabs s))) = lpdf s x) ->
    forall scales xs, length scales = length xs -> Forall (fun s => 0 < s) scales ->
    nan_to_ninf (e_add O (e_sum O (map2 g scales xs)) (scale_ldj O scales)) = esum (map2 lpdf scales xs).
  Proof.
    intros Hp scales xs H2 Hs.
    rewrite ls_core.
    - f_equal. revert xs H2. induction Hs as [|s scales Hs0 Hs IH]; intros [|x xs] H2; cbn in *; try discriminate; try reflexivity.
      f_equal; [apply Hp; assumption|]. apply IH; congruence.
    - clear H2. revert xs. induction Hs as [|s scales Hs0 Hs IH]; intros [|x xs]; cbn; constructor; [now apply Hp|apply IH].
    - rewrite map2_length; congruence.
  Qed.

  (* ---------- real-analysis helpers ---------- *)
  Lemma ln_sqrt' x : 0 < x -> ln (sqrt x) = ln x / 2.
  Proof. intros Hx. rewrite <- Rpower_sqrt by assumption. unfold Rpower. rewrite ln_exp. lra. Qed.
  Lemma ln_div x y : 0 < x -> 0 < y -> ln (x / y) = ln x - ln y.
  Proof. intros. unfold Rdiv. rewrite ln_mult, ln_Rinv; try lra. now apply Rinv_0_lt_compat. Qed.
  Lemma elog_pos p : 0 < p -> elog p = Fin (ln p).
  Proof. intros. unfold elog. destruct (Rlt_dec 0 p); [reflexivity|contradiction]. Qed.
  Lemma elog_0 : elog 0 = NInf.
  Proof. unfold elog. destruct (Rlt_dec 0 0); [lra|reflexivity]. Qed.
  Lemma two_pi_pos : 0 < 2 * PI. Proof. pose proof PI_RGT_0. lra. Qed.
  Lemma sqrt_2pi_pos : 0 < sqrt (2 * PI). Proof. apply sqrt_lt_R0, two_pi_pos. Qed.

  (* ================= the families ================= *)
  (* ---- Normal ---- *)
  Lemma norm_lp_R z : norm_lp O (Fin z) = Fin ((ln (2 * PI * 1) + z * z / 1) / (-2)).
  Proof. unfold norm_lp. rewrite fin_R. reflexivity. Qed.
  Lemma normal_pdf_pos m s x : 0 < s -> 0 < normal_pdf m s x.
  Proof. intros. unfold normal_pdf. apply Rdiv_lt_0_compat; [apply exp_pos|]. apply Rmult_lt_0_compat; [assumption|apply sqrt_2pi_pos]. Qed.
  Lemma normal_pointwise l s x : 0 < s ->
    (ln (2 * PI * 1) + ((x - l) / s) * ((x - l) / s) / 1) / (-2) + - ln (Rabs s) = ln (normal_pdf l s x).
  Proof.
    intros Hs. unfold normal_pdf. pose proof sqrt_2pi_pos as H2. pose proof two_pi_pos as H2p.
    rewrite Rabs_right by lra.
    rewrite ln_div; [|apply exp_pos|apply Rmult_lt_0_compat; assumption].
    rewrite ln_exp, (ln_mult s (sqrt (2 * PI))) by assumption. rewrite ln_sqrt' by assumption.
    replace (2 * PI * 1) with (2 * PI) by lra. field. lra.
  Qed.
  Lemma normal_spec locs scales xs : length locs = length xs -> length scales = length xs -> Forall (fun s => 0 < s) scales ->
    fam_log_prob O FNormal locs scales [] (map Fin xs) = esum (map3 (fun m s x => elog (normal_pdf m s x)) locs scales xs).
  Proof.
    intros H1 H2 Hs. unfold fam_log_prob, fam_raw, locscale_raw, std_lp. rewrite map_map3, map3_map_r.
    apply plumb3; try assumption. intros l s x Hs0. rewrite affine_inv1_R, norm_lp_R. split; [exact I|].
    rewrite elog_pos by (now apply normal_pdf_pos). cbn. f_equal. now apply normal_pointwise.
  Qed.

  (* ---- Cauchy ---- *)
  Lemma cauchy_lp_R z : cauchy_lp O (Fin z) = Fin (- (ln (PI * 1) + ln (1 + z * z))).
  Proof. unfold cauchy_lp. rewrite fin_R. reflexivity. Qed.
  Lemma cauchy_den_pos g s x : 0 < s -> 0 < PI * s * (1 + (x - g) / s * ((x - g) / s)).
  Proof. intros. pose proof PI_RGT_0. apply Rmult_lt_0_compat; [apply Rmult_lt_0_compat; lra|]. pose proof (Rle_0_sqr ((x - g) / s)) as Hq. unfold Rsqr in Hq. lra. Qed.
  Lemma cauchy_spec locs scales xs : length locs = length xs -> length scales = length xs -> Forall (fun s => 0 < s) scales ->
    fam_log_prob O FCauchy locs scales [] (map Fin xs) = esum (map3 (fun m s x => elog (cauchy_pdf m s x)) locs scales xs).
  Proof.
    intros H1 H2 Hs. unfold fam_log_prob, fam_raw, locscale_raw, std_lp. rewrite map_map3, map3_map_r.
    apply plumb3; try assumption. intros l s x Hs0. rewrite affine_inv1_R, cauchy_lp_R. split; [exact I|].
    pose proof (cauchy_den_pos l s x Hs0) as Hd. pose proof PI_RGT_0 as Hpi.
    unfold cauchy_pdf. rewrite elog_pos by (apply Rdiv_lt_0_compat; lra). cbn. f_equal.
    rewrite ln_div by lra. rewrite ln_1. rewrite Rabs_right by lra.
    pose proof (Rle_0_sqr ((x - l) / s)) as Hq. unfold Rsqr in Hq.
    rewrite (ln_mult (PI * s)); [|apply Rmult_lt_0_compat; lra|lra]. rewrite (ln_mult PI s) by lra.
    replace (PI * 1) with PI by lra. lra.
  Qed.

  (* ---- Laplace ---- *)
  Lemma laplace_lp_R z : laplace_lp O (Fin z) = Fin (- (Rabs z + ln (2 * 1))).
  Proof. unfold laplace_lp. rewrite fin_R. reflexivity. Qed.
  Lemma Rabs_div_pos a s : 0 < s -> Rabs (a / s) = Rabs a / s.
  Proof. intros. unfold Rdiv. rewrite Rabs_mult, (Rabs_right (/ s)); [reflexivity|]. left. now apply Rinv_0_lt_compat. Qed.
  Lemma laplace_spec locs scales xs : length locs = length xs -> length scales = length xs -> Forall (fun s => 0 < s) scales ->
    fam_log_prob O FLaplace locs scales [] (map Fin xs) = esum (map3 (fun m s x => elog (laplace_pdf m s x)) locs scales xs).
  Proof.
    intros H1 H2 Hs. unfold fam_log_prob, fam_raw, locscale_raw, std_lp. rewrite map_map3, map3_map_r.
    apply plumb3; try assumption. intros l s x Hs0. rewrite affine_inv1_R, laplace_lp_R. split; [exact I|].
    unfold laplace_pdf.
    assert (Hi : 0 < 1 / (2 * s)) by (apply Rdiv_lt_0_compat; lra).
    rewrite elog_pos by (apply Rmult_lt_0_compat; [assumption|apply exp_pos]). cbn. f_equal.
    replace (2 * 1) with 2 by lra.
    rewrite (ln_mult (1 / (2 * s))); [|assumption|apply exp_pos]. rewrite ln_exp, ln_div by lra. rewrite ln_1, (ln_mult 2 s) by lra.
    rewrite Rabs_div_pos by assumption. rewrite (Rabs_right s) by lra. unfold Rdiv. lra.
  Qed.

  (* ---- Gumbel: the code negates the SUM of (z + exp(-z)) ---- *)
  Lemma e_neg_add x y : e_neg O (e_add O x y) = e_add O (e_neg O x) (e_neg O y).
  Proof. destruct x, y; cbn; rewrite ?fin_R; cbn; try reflexivity. f_equal. lra. Qed.
  Lemma e_neg_fold l acc : e_neg O (fold_left (e_add O) l acc) = fold_left (e_add O) (map (e_neg O) l) (e_neg O acc).
  Proof. revert acc. induction l as [|v l IH]; intros acc; cbn; [reflexivity|]. now rewrite IH, e_neg_add. Qed.
  Lemma e_neg_sum l : e_neg O (e_sum O l) = e_sum O (map (e_neg O) l).
  Proof. unfold e_sum. rewrite e_neg_fold. cbn. do 2 f_equal. lra. Qed.
  Lemma gumbel_term_R z : e_neg O (gumbel_term O (Fin z)) = Fin (- (z + exp (- z))).
  Proof. unfold gumbel_term. rewrite fin_R. reflexivity. Qed.
  Lemma gumbel_spec locs scales xs : length locs = length xs -> length scales = length xs -> Forall (fun s => 0 < s) scales ->
    fam_log_prob O FGumbel locs scales [] (map Fin xs) = esum (map3 (fun m s x => elog (gumbel_pdf m s x)) locs scales xs).
  Proof.
    intros H1 H2 Hs. unfold fam_log_prob, fam_raw, locscale_raw, std_lp. rewrite e_neg_sum, map_map. rewrite map_map3, map3_map_r.
    apply plumb3; try assumption. intros l s x Hs0. rewrite affine_inv1_R, gumbel_term_R. split; [exact I|].
    unfold gumbel_pdf. assert (Hi : 0 < 1 / s) by (apply Rdiv_lt_0_compat; lra).
    rewrite elog_pos by (apply Rmult_lt_0_compat; [assumption|apply exp_pos]). cbn. f_equal.
    rewrite ln_mult; [|assumption|apply exp_pos]. rewrite ln_exp, ln_div by lra. rewrite ln_1. rewrite (Rabs_right s) by lra. lra.
  Qed.

  (* ---- Logistic ---- *)
  Lemma logistic_lp_R z : logistic_lp O (Fin z) =
    Fin (- 2 * ((if Rltb (z / 2) (- (z / 2)) then - (z / 2) else z / 2) + ln (1 + exp (- Rabs (z / 2 - - (z / 2))))) - ln 1).
  Proof. unfold logistic_lp. rewrite fin_R. reflexivity. Qed.
  Lemma logistic_core z : - 2 * ((if Rltb (z / 2) (- (z / 2)) then - (z / 2) else z / 2) + ln (1 + exp (- Rabs (z / 2 - - (z / 2))))) =
    - z - 2 * ln (1 + exp (- z)).
  Proof.
    replace (z / 2 - - (z / 2)) with z by lra.
    destruct (Rltb (z / 2) (- (z / 2))) eqn:E.
    - apply Rltb_true in E. assert (Hz : z < 0) by lra. rewrite Rabs_left by assumption. rewrite Ropp_involutive.
      assert (H : 1 + exp (- z) = exp (- z) * (1 + exp z)).
      { rewrite Rmult_plus_distr_l, <- exp_plus. replace (- z + z) with 0 by lra. rewrite exp_0. lra. }
      rewrite H, ln_mult; [|apply exp_pos|pose proof (exp_pos z); lra]. rewrite ln_exp. lra.
    - apply Rltb_false in E. assert (Hz : 0 <= z) by lra. rewrite Rabs_right by lra. lra.
  Qed.
  Lemma logistic_spec locs scales xs : length locs = length xs -> length scales = length xs -> Forall (fun s => 0 < s) scales ->
    fam_log_prob O FLogistic locs scales [] (map Fin xs) = esum (map3 (fun m s x => elog (logistic_pdf m s x)) locs scales xs).
  Proof.
    intros H1 H2 Hs. unfold fam_log_prob, fam_raw, locscale_raw, std_lp. rewrite map_map3, map3_map_r.
    apply plumb3; try assumption. intros l s x Hs0. rewrite affine_inv1_R, logistic_lp_R. split; [exact I|].
    rewrite logistic_core. unfold logistic_pdf. set (z := (x - l) / s).
    assert (He : 0 < 1 + exp (- z)) by (pose proof (exp_pos (- z)); lra).
    assert (Hd : 0 < s * ((1 + exp (- z)) * (1 + exp (- z)))) by (apply Rmult_lt_0_compat; [lra|nra]).
    rewrite elog_pos by (apply Rdiv_lt_0_compat; [apply exp_pos|assumption]). cbn. f_equal.
    rewrite ln_div; [|apply exp_pos|assumption]. rewrite ln_exp, ln_mult; [|lra|nra]. rewrite ln_mult by assumption.
    rewrite ln_1, (Rabs_right s) by lra. lra.
  Qed.

  (* ---- Uniform: Affine(loc = minval, scale = maxval - minval), edges inclusive ---- *)
  Lemma div_neg_iff a s : 0 < s -> (a / s < 0 <-> a < 0).
  Proof.
    intros Hs. assert (E : a = a / s * s) by (field; lra). split; intros H.
    - rewrite E. assert (0 < - (a / s) * s) by (apply Rmult_lt_0_compat; lra). lra.
    - unfold Rdiv. assert (0 < (- a) * / s) by (apply Rmult_lt_0_compat; [lra|now apply Rinv_0_lt_compat]). lra.
  Qed.
  Lemma div_gt1_iff a s : 0 < s -> (1 < a / s <-> s < a).
  Proof.
    intros Hs. pose proof (div_neg_iff (s - a) s Hs) as H. replace ((s - a) / s) with (1 - a / s) in H by (field; lra).
    split; intros; [assert (s - a < 0) by (apply H; lra)|assert (1 - a / s < 0) by (apply H; lra)]; lra.
  Qed.
  Lemma unif_lp_R z : unif_lp O (Fin z) = if Rltb 1 z || Rltb z 0 then NInf else Fin (- ln 1).
  Proof. reflexivity. Qed.
  Lemma uniform_pointwise l s x : 0 < s ->
    FN (unif_lp O (Fin ((x - l) / s))) /\
    eplus (unif_lp O (Fin ((x - l) / s))) (Fin (- ln (Rabs s))) = elog (uniform_pdf l (l + s) x).
  Proof.
    intros Hs. rewrite unif_lp_R. unfold uniform_pdf.
    destruct (Rltb 1 ((x - l) / s)) eqn:E1; cbn [orb].
    - split; [exact I|]. apply Rltb_true in E1. apply (proj1 (div_gt1_iff _ _ Hs)) in E1.
      destruct (Rle_dec l x); [|cbn; now rewrite elog_0]. destruct (Rle_dec x (l + s)); [lra|]. cbn. now rewrite elog_0.
    - apply Rltb_false in E1. destruct (Rltb ((x - l) / s) 0) eqn:E2.
      + split; [exact I|]. apply Rltb_true in E2. apply (proj1 (div_neg_iff _ _ Hs)) in E2.
        destruct (Rle_dec l x); [lra|]. cbn. now rewrite elog_0.
      + split; [exact I|]. apply Rltb_false in E2.
        assert (l <= x). { destruct (Rle_dec l x); [assumption|]. exfalso. assert ((x - l) / s < 0) by (apply div_neg_iff; lra). lra. }
        assert (x <= l + s). { destruct (Rle_dec x (l + s)); [assumption|]. exfalso. assert (1 < (x - l) / s) by (apply div_gt1_iff; lra). lra. }
        destruct (Rle_dec l x); [|contradiction]. destruct (Rle_dec x (l + s)); [|contradiction].
        replace (l + s - l) with s by lra. rewrite elog_pos by (apply Rdiv_lt_0_compat; lra). cbn. f_equal.
        rewrite ln_div, ln_1, Rabs_right by lra. lra.
  Qed.
  Lemma Forall_True {X} (l : list X) : Forall (fun _ => True) l.
  Proof. induction l; constructor; auto. Qed.
  Lemma uniform_scales_pos los his : Forall2 Rlt los his -> Forall (fun s => 0 < s) (uniform_scales O los his).
  Proof. induction 1; cbn; constructor; [lra|assumption]. Qed.
  Lemma uniform_spec los his xs : length los = length xs -> length his = length xs -> Forall2 Rlt los his ->
    fam_log_prob O FUniform los his [] (map Fin xs) = esum (map3 (fun lo hi x => elog (uniform_pdf lo hi x)) los his xs).
  Proof.
    intros H1 H2 Hlt. unfold fam_log_prob, fam_raw, locscale_raw, std_lp. rewrite map_map3, map3_map_r.
    rewrite (plumb3 (fun l s x => unif_lp O (affine_inv1 O l s (Fin x))) (fun l s x => elog (uniform_pdf l (l + s) x))).
    - unfold uniform_scales. rewrite map3_map2_mid. f_equal.
      apply (map3_ext_in (fun _ => True)); [apply Forall_True|]. intros lo hi x _. cbn. now replace (lo + (hi - lo)) with hi by lra.
    - intros l s x Hs0. rewrite affine_inv1_R. now apply uniform_pointwise.
    - assumption.
    - unfold uniform_scales. rewrite map2_length; congruence.
    - now apply uniform_scales_pos.
  Qed.

  (* ---- Exponential: Scale(1 / rate) ---- *)
  Lemma expon_lp_R z : expon_lp O (Fin z) = if Rltb z 0 then NInf else Fin (- (z + ln 1)).
  Proof. unfold expon_lp. rewrite fin_R. reflexivity. Qed.
  Lemma exponential_pointwise s x : 0 < s ->
    FN (expon_lp O (Fin (x / s))) /\ eplus (expon_lp O (Fin (x / s))) (Fin (- ln (Rabs s))) = elog (exponential_pdf (1 / s) x).
  Proof.
    intros Hs. rewrite expon_lp_R. unfold exponential_pdf. destruct (Rltb (x / s) 0) eqn:E.
    - split; [exact I|]. apply Rltb_true in E. apply (proj1 (div_neg_iff _ _ Hs)) in E.
      destruct (Rle_dec 0 x); [lra|]. cbn. now rewrite elog_0.
    - split; [exact I|]. apply Rltb_false in E.
      assert (0 <= x). { destruct (Rle_dec 0 x); [assumption|]. exfalso. assert (x / s < 0) by (apply div_neg_iff; lra). lra. }
      destruct (Rle_dec 0 x); [|contradiction].
      assert (Hi : 0 < 1 / s) by (apply Rdiv_lt_0_compat; lra).
      rewrite elog_pos by (apply Rmult_lt_0_compat; [assumption|apply exp_pos]). cbn. f_equal.
      rewrite ln_mult; [|assumption|apply exp_pos]. rewrite ln_exp, ln_div, ln_1, Rabs_right by lra. unfold Rdiv. lra.
  Qed.
  Lemma map2_map_l {X X' Y W} (f : X -> Y -> W) (h : X' -> X) a b : map2 f (map h a) b = map2 (fun x y => f (h x) y) a b.
  Proof. revert b. induction a as [|x a IH]; intros [|y b]; cbn; try reflexivity. now rewrite IH. Qed.
  Lemma exponential_spec rates xs : length rates = length xs -> Forall (fun r => 0 < r) rates ->
    fam_log_prob O FExponential rates [] [] (map Fin xs) = esum (map2 (fun r x => elog (exponential_pdf r x)) rates xs).
  Proof.
    intros H1 Hr. unfold fam_log_prob, fam_raw, scale_raw, std_lp. rewrite map_map2, map2_map_r.
    rewrite (plumb2 (fun s x => expon_lp O (scale_inv1 O s (Fin x))) (fun s x => elog (exponential_pdf (1 / s) x))).
    - unfold exponential_scales. rewrite map2_map_l. f_equal. apply (map2_ext_in (fun r => 0 < r)); [assumption|].
      intros r x Hr0. cbn. replace (1 / (IZR 1 / r)) with r by (field; lra). reflexivity.
    - intros s x Hs0. rewrite scale_inv1_R. now apply exponential_pointwise.
    - unfold exponential_scales. now rewrite map_length.
    - unfold exponential_scales. clear H1. induction Hr; cbn; constructor; [|assumption]. apply Rdiv_lt_0_compat; lra.
  Qed.

  (* ---- StudentT: lgamma is the abstract function [lgam], Gamma := exp o lgam in the textbook form ---- *)
  Fixpoint map4 {X Y Z V W} (f : X -> Y -> Z -> V -> W) (a : list X) (b : list Y) (d : list Z) (e : list V) : list W :=
    match a, b, d, e with x :: a', y :: b', z :: d', v :: e' => f x y z v :: map4 f a' b' d' e' | _, _, _, _ => [] end.
  Lemma map2_map3 {X Y Z V W U} (t : V -> W -> U) (f : X -> Y -> Z -> W) dfs a b d :
    map2 t dfs (map3 f a b d) = map4 (fun v x y z => t v (f x y z)) dfs a b d.
  Proof. revert a b d. induction dfs as [|v dfs IH]; intros [|x a] [|y b] [|z d]; cbn; try reflexivity. now rewrite IH. Qed.
  Lemma map4_map_r {X Y Z V V' W} (f : X -> Y -> Z -> V -> W) (h : V' -> V) a b d e :
    map4 f a b d (map h e) = map4 (fun x y z v => f x y z (h v)) a b d e.
  Proof. revert b d e. induction a as [|x a IH]; intros [|y b] [|z d] [|v e]; cbn; try reflexivity. now rewrite IH. Qed.
  Lemma plumb4 (g lpdf : R -> R -> R -> R -> ext R) :
    (forall df l s x, 0 < df -> 0 < s -> FN (g df l s x) /\ eplus (g df l s x) (Fin (- ln (Rabs s))) = lpdf df l s x) ->
    forall dfs locs scales xs, length dfs = length xs -> length locs = length xs -> length scales = length xs ->
    Forall (fun d => 0 < d) dfs -> Forall (fun s => 0 < s) scales ->
    nan_to_ninf (e_add O (e_sum O (map4 g dfs locs scales xs)) (scale_ldj O scales)) = esum (map4 lpdf dfs locs scales xs).
  Proof.
    intros Hp dfs locs scales xs H0 H1 H2 Hd Hs.
    assert (K : Forall FN (map4 g dfs locs scales xs) /\ length (map4 g dfs locs scales xs) = length scales /\
                map2 (fun v s => eplus v (Fin (- ln (Rabs s)))) (map4 g dfs locs scales xs) scales = map4 lpdf dfs locs scales xs).
    { revert dfs locs xs H0 H1 H2 Hd. induction Hs as [|s scales Hs0 Hs IH]; intros [|df dfs] [|l locs] [|x xs] H0 H1 H2 Hd; cbn in *; try discriminate;
        try (repeat split; constructor).
      inversion Hd as [|? ? Hd0 Hd']; subst. destruct (IH dfs locs xs) as (K1 & K2 & K3); try congruence; try assumption.
      destruct (Hp df l s x Hd0 Hs0) as [P1 P2]. repeat split; [constructor; assumption|now rewrite K2|now rewrite P2, K3]. }
    destruct K as (K1 & K2 & K3). rewrite ls_core by assumption. now rewrite K3.
  Qed.
  Lemma t_lp_R df z : t_lp O df (Fin z) =
    Fin (- (lgam (df / 2) + ln (1 * 1 * PI * df) / 2 - lgam (df / 2 + 1 / 2) + (df / 2 + 1 / 2) * ln (1 + z * z / df))).
  Proof. unfold t_lp. rewrite fin_R. reflexivity. Qed.
  Lemma t_pointwise df l s x : 0 < df -> 0 < s ->
    - (lgam (df / 2) + ln (1 * 1 * PI * df) / 2 - lgam (df / 2 + 1 / 2) + (df / 2 + 1 / 2) * ln (1 + (x - l) / s * ((x - l) / s) / df))
    + - ln (Rabs s) = ln (t_pdf lgam df l s x).
  Proof.
    intros Hd Hs. unfold t_pdf. pose proof PI_RGT_0 as Hpi.
    assert (Hq : 0 < sqrt (df * PI)) by (apply sqrt_lt_R0, Rmult_lt_0_compat; lra).
    assert (Hden : 0 < sqrt (df * PI) * exp (lgam (df / 2)) * s).
    { apply Rmult_lt_0_compat; [apply Rmult_lt_0_compat; [assumption|apply exp_pos]|assumption]. }
    replace (1 * 1 * PI * df) with (df * PI) by lra.
    rewrite (ln_mult (exp (lgam ((df + 1) / 2)) / (sqrt (df * PI) * exp (lgam (df / 2)) * s)));
      [|apply Rdiv_lt_0_compat; [apply exp_pos|assumption]|unfold Rpower; apply exp_pos].
    rewrite (ln_div (exp (lgam ((df + 1) / 2)))); [|apply exp_pos|assumption]. rewrite ln_exp.
    rewrite (ln_mult (sqrt (df * PI) * exp (lgam (df / 2))) s); [|apply Rmult_lt_0_compat; [assumption|apply exp_pos]|assumption].
    rewrite (ln_mult (sqrt (df * PI)) (exp (lgam (df / 2)))); [|assumption|apply exp_pos]. rewrite ln_exp.
    rewrite ln_sqrt' by (apply Rmult_lt_0_compat; lra). unfold Rpower. rewrite ln_exp.
    rewrite Rabs_right by lra.
    replace ((df + 1) / 2) with (df / 2 + 1 / 2) by lra. lra.
  Qed.
  Lemma studentt_spec dfs locs scales xs : length dfs = length xs -> length locs = length xs -> length scales = length xs ->
    Forall (fun d => 0 < d) dfs -> Forall (fun s => 0 < s) scales ->
    fam_log_prob O FStudentT locs scales dfs (map Fin xs) =
    esum (map4 (fun nu m s x => elog (t_pdf lgam nu m s x)) dfs locs scales xs).
  Proof.
    intros H0 H1 H2 Hd Hs. unfold fam_log_prob, fam_raw, locscale_raw, std_lp. rewrite map2_map3, map4_map_r.
    apply plumb4; try assumption. intros df l s x Hd0 Hs0. rewrite affine_inv1_R, t_lp_R. split; [exact I|].
    rewrite elog_pos.
    - cbn. f_equal. now apply t_pointwise.
    - unfold t_pdf. pose proof PI_RGT_0. apply Rmult_lt_0_compat; [|unfold Rpower; apply exp_pos].
      apply Rdiv_lt_0_compat; [apply exp_pos|]. apply Rmult_lt_0_compat; [|assumption].
      apply Rmult_lt_0_compat; [|apply exp_pos]. apply sqrt_lt_R0, Rmult_lt_0_compat; lra.
  Qed.

  (* ---- LogNormal: Chain[Affine(loc, scale), Exp]; x <= 0 gives -inf THROUGH NaN (log of a negative) or
     through (-inf) + (+inf) (x = 0: base -inf, log-det +inf) and the final nan -> -inf ---- *)
  Lemma e_log_R a : e_log O (Fin a) = if Rltb 0 a then Fin (ln a) else if Rltb a 0 then NaN else NInf.
  Proof. reflexivity. Qed.
  Lemma lognormal_pointwise l s x : 0 < s -> 0 < x ->
    eplus (eplus (norm_lp O (affine_inv1 O l s (Fin (ln x)))) (Fin (- ln (Rabs s)))) (Fin (- ln x)) = elog (lognormal_pdf l s x).
  Proof.
    intros Hs Hx. rewrite affine_inv1_R, norm_lp_R. cbn. rewrite normal_pointwise by assumption.
    unfold lognormal_pdf. destruct (Rlt_dec 0 x); [|contradiction].
    pose proof sqrt_2pi_pos as H2.
    assert (Hden : 0 < x * s * sqrt (2 * PI)) by (apply Rmult_lt_0_compat; [apply Rmult_lt_0_compat|]; assumption).
    rewrite elog_pos by (apply Rdiv_lt_0_compat; [apply exp_pos|assumption]). f_equal.
    unfold normal_pdf. rewrite !ln_div; try apply exp_pos; try assumption; [|apply Rmult_lt_0_compat; assumption].
    rewrite (ln_mult (x * s)); [|apply Rmult_lt_0_compat; assumption|assumption].
    rewrite (ln_mult x s), (ln_mult s) by assumption. lra.
  Qed.
  Lemma lognormal_pos_case locs scales xs : length locs = length xs -> length scales = length xs ->
    Forall (fun s => 0 < s) scales -> Forall (fun x => 0 < x) xs ->
    eplus (esum (map3 (fun l s x => norm_lp O (affine_inv1 O l s (Fin (ln x)))) locs scales xs))
          (Fin (0 + - rsum (map ln xs) + - rsum (map (fun s => ln (Rabs s)) scales)))
    = esum (map3 (fun m s x => elog (lognormal_pdf m s x)) locs scales xs).
  Proof.
    intros H1 H2 Hs Hx. revert locs scales H1 H2 Hs.
    induction Hx as [|x xs Hx0 Hx IH]; intros [|l locs] [|s scales] H1 H2 Hs; cbn in H1, H2; try discriminate.
    - cbn. f_equal. lra.
    - inversion Hs as [|? ? Hs0 Hs']; subst. cbn [map3 map rsum esum fold_right].
      change (fold_right eplus (Fin 0) ?l) with (esum l).
      rewrite <- (IH locs scales) by congruence. rewrite <- lognormal_pointwise by assumption.
      rewrite affine_inv1_R, norm_lp_R.
      destruct (esum (map3 (fun l0 s0 x0 => norm_lp O (affine_inv1 O l0 s0 (Fin (ln x0)))) locs scales xs)); cbn; try reflexivity.
      f_equal. lra.
  Qed.
  Lemma e_add_Fin a b : e_add O (Fin a) (Fin b) = Fin (a + b).
  Proof. cbn. now rewrite fin_R. Qed.
  Lemma e_sum_map_Fin l : e_sum O (map Fin l) = Fin (rsum l).
  Proof. rewrite e_sum_esum; [apply esum_map_Fin|]. induction l; constructor; [exact I|assumption]. Qed.
  Lemma split_pos xs : Forall (fun x => 0 < x) xs \/ Exists (fun x => x <= 0) xs.
  Proof.
    induction xs as [|x xs [IH|IH]]; [left; constructor| |right; now right].
    destruct (Rlt_dec 0 x); [left; now constructor|right; left; lra].
  Qed.
  Lemma split_neg xs : Exists (fun x => x < 0) xs \/ Forall (fun x => 0 <= x) xs.
  Proof.
    induction xs as [|x xs [IH|IH]]; [right; constructor|left; now right|].
    destruct (Rlt_dec x 0); [left; now left|right; constructor; [lra|assumption]].
  Qed.
  Lemma Exists_In_eq {X} (v : X) l : Exists (fun w => w = v) l -> In v l.
  Proof. induction 1; [subst; now left|now right]. Qed.
  Lemma Exists_map {X Y} (P : X -> Prop) (Q : Y -> Prop) (f : X -> Y) l : (forall x, P x -> Q (f x)) -> Exists P l -> Exists Q (map f l).
  Proof. intros H. induction 1; cbn; [left; auto|now right]. Qed.
  Lemma Forall_map {X Y} (P : X -> Prop) (Q : Y -> Prop) (f : X -> Y) l : (forall x, P x -> Q (f x)) -> Forall P l -> Forall Q (map f l).
  Proof. intros H. induction 1; cbn; constructor; auto. Qed.

  Lemma lognormal_spec locs scales xs : length locs = length xs -> length scales = length xs -> Forall (fun s => 0 < s) scales ->
    fam_log_prob O FLogNormal locs scales [] (map Fin xs) = esum (map3 (fun m s x => elog (lognormal_pdf m s x)) locs scales xs).
  Proof.
    intros H1 H2 Hs. unfold fam_log_prob, fam_raw, lognormal_raw, exp_inv, std_lp. rewrite map_map.
    destruct (split_pos xs) as [Hpos|Hnp].
    - (* every coordinate positive: everything is finite *)
      assert (E : map (fun x => e_log O (Fin x)) xs = map Fin (map ln xs)).
      { rewrite map_map. clear -Hpos. induction Hpos as [|x xs Hx _ IH]; cbn [map]; [reflexivity|]. rewrite IH, e_log_R. f_equal.
        replace (Rltb 0 x) with true; [reflexivity|]. symmetry. now apply Rltb_true. }
      rewrite E, e_sum_map_Fin, scale_ldj_R. rewrite map_map3, map3_map_r, map3_map_r.
      cbn [e_neg]. rewrite !e_add_Fin. cbn [n_neg ROpsG]. rewrite cR.
      rewrite e_sum_esum.
      + rewrite e_add_FN; [|apply esum_FN|exact I]. rewrite lognormal_pos_case by assumption. apply nan_to_ninf_FN, esum_FN.
      + apply (map3_Forall (fun _ => True) (fun _ => True)); [apply Forall_True|apply Forall_True|].
        intros l s x _ _. rewrite affine_inv1_R, norm_lp_R. exact I.
    - (* some coordinate <= 0: the textbook side is -inf ... *)
      assert (RHS : esum (map3 (fun m s x => elog (lognormal_pdf m s x)) locs scales xs) = NInf).
      { apply esum_Exists_NInf. apply (map3_Exists (fun _ => True) (fun x => x <= 0)); try assumption; [apply Forall_True|].
        intros l s x _ Hx. unfold lognormal_pdf. destruct (Rlt_dec 0 x); [lra|apply elog_0]. }
      rewrite RHS. set (x1 := map (fun x => e_log O (Fin x)) xs).
      assert (Hx1 : length x1 = length xs) by (unfold x1; now rewrite map_length).
      destruct (split_neg xs) as [Hneg|Hnn].
      + (* ... and the code produces NaN (log of a negative), mapped to -inf *)
        assert (N1 : Exists (fun v => v = NaN) x1).
        { unfold x1. apply (Exists_map (fun x => x < 0)); [|assumption]. intros x Hx. rewrite e_log_R.
          replace (Rltb 0 x) with false by (symmetry; apply Rltb_false; lra). replace (Rltb x 0) with true by (symmetry; now apply Rltb_true). reflexivity. }
        assert (N2 : Exists (fun v => v = NaN) (map (norm_lp O) (map3 (affine_inv1 O) locs scales x1))).
        { apply (Exists_map (fun v => v = NaN)); [intros ? ->; reflexivity|].
          apply (map3_Exists (fun _ => True) (fun v => v = NaN)); try congruence; [apply Forall_True|]. intros l s v _ ->. reflexivity. }
        unfold e_sum at 1. rewrite (e_sum_has_nan _ _ (or_intror (Exists_In_eq _ _ N2))). reflexivity.
      + (* ... or base -inf (z = -inf) plus log-det +inf (x = 0, no negative coordinate): NaN again *)
        assert (Hz : Exists (fun x => x = 0) xs).
        { clear -Hnp Hnn. induction Hnp as [x xs Hx|x xs Hx IH]; inversion Hnn; subst; [left; lra|right; auto]. }
        assert (F1 : Forall FN x1).
        { unfold x1. apply (Forall_map (fun x => 0 <= x)); [|assumption]. intros x Hx. rewrite e_log_R.
          destruct (Rltb 0 x); [exact I|]. replace (Rltb x 0) with false by (symmetry; apply Rltb_false; lra). exact I. }
        assert (N1 : Exists (fun v => v = NInf) x1).
        { unfold x1. apply (Exists_map (fun x => x = 0)); [|assumption]. intros x ->. rewrite e_log_R.
          replace (Rltb 0 0) with false by (symmetry; apply Rltb_false; lra). reflexivity. }
        rewrite (e_sum_esum x1 F1), (esum_Exists_NInf x1 N1).
        set (zs := map3 (affine_inv1 O) locs scales x1).
        assert (F2 : Forall FN zs).
        { unfold zs. apply (map3_Forall (fun s => 0 < s) FN); try assumption. intros l s v Hs0 Hv.
          destruct v; cbn in Hv; try tauto; [rewrite affine_inv1_R; exact I|]. unfold affine_inv1; cbn.
          replace (Rltb s (IZR 0)) with false by (symmetry; apply Rltb_false; lra). exact I. }
        assert (F3 : Forall FN (map (norm_lp O) zs)).
        { apply (Forall_map FN); [|assumption]. intros v Hv. destruct v; cbn in *; try tauto. now rewrite fin_R. }
        assert (N3 : Exists (fun v => v = NInf) (map (norm_lp O) zs)).
        { apply (Exists_map (fun v => v = NInf)); [intros ? ->; reflexivity|]. unfold zs.
          apply (map3_Exists (fun s => 0 < s) (fun v => v = NInf)); try congruence; try assumption.
          intros l s v Hs0 ->. unfold affine_inv1. cbn. replace (Rltb s (IZR 0)) with false by (symmetry; apply Rltb_false; lra). reflexivity. }
        rewrite (e_sum_esum _ F3), (esum_Exists_NInf _ N3). rewrite scale_ldj_R. reflexivity.
  Qed.

  (* ================= VmapMixture ================= *)
  Lemma rsum_pos ws : ws <> [] -> Forall (fun w => 0 < w) ws -> 0 < rsum ws.
  Proof.
    intros Hne Hp. destruct Hp as [|w t Hw Ht]; [congruence|]. cbn.
    assert (0 <= rsum t) by (clear -Ht; induction Ht; cbn; lra). lra.
  Qed.
  Lemma rsum_exp_shift m ws : Forall (fun w => 0 < w) ws ->
    rsum (map exp (map (fun v => v - m) (map ln ws))) = exp (- m) * rsum ws.
  Proof.
    induction 1 as [|w t Hw Ht IH]; cbn; [lra|]. rewrite IH. unfold Rminus. rewrite exp_plus, exp_ln by assumption. lra.
  Qed.
  Lemma log_softmax_unfold x t : log_softmax O (x :: t) =
    map (fun s => s - ln (rsum (map exp (map (fun v => v - maxl O x t) (x :: t))))) (map (fun v => v - maxl O x t) (x :: t)).
  Proof. unfold log_softmax. cbv zeta. rewrite sum_R. reflexivity. Qed.
  Lemma log_softmax_R ws : ws <> [] -> Forall (fun w => 0 < w) ws ->
    log_softmax O (map ln ws) = map (fun w => ln (w / rsum ws)) ws.
  Proof.
    intros Hne Hp. pose proof (rsum_pos ws Hne Hp) as HS.
    destruct ws as [|w t]; [congruence|]. change (map ln (w :: t)) with (ln w :: map ln t). rewrite log_softmax_unfold.
    set (m := maxl O (ln w) (map ln t)). change (ln w :: map ln t) with (map ln (w :: t)).
    rewrite rsum_exp_shift by assumption.
    rewrite ln_mult by (try apply exp_pos; assumption). rewrite ln_exp. rewrite !map_map.
    clear Hne. set (S := rsum (w :: t)) in *. clearbody S m.
    induction Hp as [|v l Hv Hl IH]; cbn; [reflexivity|]. rewrite IH. f_equal. rewrite ln_div by assumption. lra.
  Qed.

  Lemma FN_no_nan l : Forall FN l -> existsb is_nan l = false /\ existsb is_pinf l = false.
  Proof. induction 1 as [|v l Hv Hl [IH1 IH2]]; cbn; [auto|]. rewrite IH1, IH2. destruct v; cbn in *; tauto. Qed.
  Lemma eexp_nonneg v : 0 <= eexp v.
  Proof. destruct v; cbn; try lra. left. apply exp_pos. Qed.
  Lemma rsum_eexp_nonneg l : 0 <= rsum (map eexp l).
  Proof. induction l as [|v l IH]; cbn; [lra|]. pose proof (eexp_nonneg v). lra. Qed.
  Lemma fins_nil l : Forall FN l -> fins l = [] -> rsum (map eexp l) = 0.
  Proof. induction 1 as [|v l Hv Hl IH]; cbn; [reflexivity|]. destruct v; cbn in *; try tauto; [discriminate|]. intros E. rewrite IH by assumption. lra. Qed.
  Lemma fins_cons l x t : Forall FN l -> fins l = x :: t -> 0 < rsum (map eexp l).
  Proof.
    induction 1 as [|v l Hv Hl IH]; cbn; [discriminate|]. destruct v; cbn in *; try tauto.
    - intros _. pose proof (exp_pos a). pose proof (rsum_eexp_nonneg l). lra.
    - intros E. specialize (IH E). lra.
  Qed.
  Lemma rsum_term_shift m l : Forall FN l ->
    rsum (map (fun e => match e with Fin a => exp (a - m) | _ => 0 end) l) = exp (- m) * rsum (map eexp l).
  Proof.
    induction 1 as [|v l Hv Hl IH]; cbn; [lra|]. rewrite IH. destruct v; cbn in *; try tauto; [|lra].
    unfold Rminus. rewrite exp_plus. lra.
  Qed.
  Lemma elog_FN p : FN (elog p). Proof. unfold elog. destruct (Rlt_dec 0 p); exact I. Qed.
  (* jax's max-shifted logsumexp = ln of the sum of the exponentials (exp(-inf) = 0); the shift drops out *)
  Lemma logsumexp_R l : Forall FN l -> logsumexp O l = elog (rsum (map eexp l)).
  Proof.
    intros Hl. unfold logsumexp. destruct (FN_no_nan l Hl) as [-> ->].
    destruct (fins l) as [|x t] eqn:E.
    - rewrite (fins_nil l Hl E). now rewrite elog_0.
    - pose proof (fins_cons l x t Hl E) as Hpos. set (m := maxl O x t). clearbody m.
      rewrite fin_R. cbn [n_sub n_log n_exp n_abs n_add ROpsG]. rewrite cR, sum_R.
      rewrite (rsum_term_shift m l Hl).
      assert (0 < exp (- m) * rsum (map eexp l)) by (apply Rmult_lt_0_compat; [apply exp_pos|assumption]).
      rewrite Rabs_right by lra. rewrite ln_mult by (try apply exp_pos; assumption). rewrite ln_exp.
      rewrite elog_pos by assumption. f_equal. lra.
  Qed.

  Lemma mixture_terms lps ws S : Forall FN lps -> Forall (fun w => 0 < w) ws -> 0 < S -> length lps = length ws ->
    let terms := map2 (fun lp w => e_add O lp (Fin (ln (w / S)))) lps ws in
    Forall FN terms /\ map eexp terms = map2 (fun lp w => w / S * eexp lp) lps ws.
  Proof.
    intros Hl Hw HS. revert ws Hw. induction Hl as [|lp lps Hlp Hl IH]; intros [|w ws] Hw Hlen; cbn in *; try discriminate.
    - split; [constructor|reflexivity].
    - inversion Hw as [|? ? Hw0 Hw']; subst. destruct (IH ws Hw') as [K1 K2]; [congruence|].
      assert (Hq : 0 < w / S) by (now apply Rdiv_lt_0_compat).
      split.
      + constructor; [|assumption]. destruct lp; cbn in *; try tauto. now rewrite fin_R.
      + rewrite K2. f_equal. destruct lp; cbn in *; try tauto; [|lra]. rewrite fin_R. cbn. rewrite exp_plus, exp_ln by assumption. lra.
  Qed.
  (* the mixture log-density = ln of the weight-normalised sum of the component densities, any number of components *)
  Lemma mixture_spec lps ws : ws <> [] -> Forall (fun w => 0 < w) ws -> length lps = length ws -> Forall FN lps ->
    mixture_log_prob O lps ws = elog (rsum (map2 (fun lp w => w / rsum ws * eexp lp) lps ws)).
  Proof.
    intros Hne Hw Hlen Hl. unfold mixture_log_prob, mixture_raw. cbn [n_log ROpsG].
    rewrite log_softmax_R by assumption. rewrite map2_map_r.
    destruct (mixture_terms lps ws (rsum ws) Hl Hw (rsum_pos ws Hne Hw) Hlen) as [K1 K2]. cbn zeta in K1, K2.
    rewrite logsumexp_R by assumption. rewrite K2. apply nan_to_ninf_FN, elog_FN.
  Qed.
  Lemma rsum_scale k l : rsum (map (Rmult k) l) = k * rsum l.
  Proof. induction l as [|x l IH]; cbn; [lra|]. rewrite IH. lra. Qed.
  (* ... and is invariant under rescaling the weights -- for ANY component values (NaN, +-inf included) *)
  Lemma mixture_scale_invariant lps ws k : 0 < k -> ws <> [] -> Forall (fun w => 0 < w) ws ->
    mixture_log_prob O lps (map (Rmult k) ws) = mixture_log_prob O lps ws.
  Proof.
    intros Hk Hne Hw. unfold mixture_log_prob, mixture_raw. cbn [n_log ROpsG]. do 3 f_equal.
    assert (Hkw : Forall (fun w => 0 < w) (map (Rmult k) ws)).
    { clear Hne. induction Hw; cbn; constructor; [now apply Rmult_lt_0_compat|assumption]. }
    rewrite !log_softmax_R; try assumption; [|destruct ws; [congruence|discriminate]].
    rewrite map_map, rsum_scale. pose proof (rsum_pos ws Hne Hw) as HS.
    clear Hne Hkw. set (S := rsum ws) in *. clearbody S. induction Hw as [|w t Hw0 Hw IH]; cbn; [reflexivity|].
    rewrite IH. do 2 f_equal. field. lra.
  Qed.
  (* a NaN component value (LogNormal components at x <= 0) makes the raw value NaN, reported as -inf *)
  Lemma mixture_nan_component lps ws : length lps = length ws -> Exists (fun v => v = NaN) lps ->
    mixture_log_prob O lps ws = NInf.
  Proof.
    intros Hlen Hn. unfold mixture_log_prob, mixture_raw.
    assert (Hll : length lps = length (log_softmax O (map (n_log O) ws))).
    { rewrite Hlen. destruct ws as [|w t]; [reflexivity|]. cbn [map n_log ROpsG]. rewrite log_softmax_unfold. rewrite !map_length. cbn [length]. now rewrite map_length. }
    set (lnw := log_softmax O (map (n_log O) ws)) in *. clearbody lnw.
    assert (E : existsb is_nan (map2 (fun lp w => e_add O lp (Fin w)) lps lnw) = true).
    { clear Hlen. revert lnw Hll. induction Hn as [v l Hv|v l Hn IH]; intros [|w lnw] Hll; cbn in *; try discriminate.
      - subst. reflexivity.
      - rewrite (IH lnw) by (cbn in Hll; lia). apply orb_true_r. }
    unfold logsumexp. now rewrite E.
  Qed.

  (* ================= MultivariateNormal ================= *)
  Fixpoint rdot (a b : list R) : R := match a, b with x :: a', y :: b' => x * y + rdot a' b' | _, _ => 0 end.
  Lemma dot_R a b : dot O a b = rdot a b.
  Proof.
    unfold dot. rewrite sum_R. revert b. induction a as [|x a IH]; intros [|y b]; cbn; try reflexivity. now rewrite IH.
  Qed.
  Lemma rdot_nil_r r : rdot r [] = 0. Proof. now destruct r. Qed.
  Lemma rdot_snoc r acc z : (length acc < length r)%nat -> rdot r (acc ++ [z]) = rdot r acc + nth (length acc) r 0 * z.
  Proof.
    revert r. induction acc as [|a acc IH]; intros [|x r] H; cbn in *; try lia; [rewrite rdot_nil_r; lra|]. rewrite IH by lia. lra.
  Qed.
  Lemma firstn_snoc_exact {X} (acc : list X) z rest : firstn (S (length acc)) (acc ++ z :: rest) = acc ++ [z].
  Proof. induction acc as [|a acc IH]; cbn; [reflexivity|]. f_equal. exact IH. Qed.
  (* forward substitution solves the lower-triangular system: row j dotted with the first j+1 entries of z is b_j *)
  Lemma tri_solve_spec rs : forall b acc, length b = length rs ->
    (forall j r, nth_error rs j = Some r -> (length acc + j < length r)%nat /\ nth (length acc + j) r 0 <> 0) ->
    exists rest, tri_solve O rs b acc = acc ++ rest /\ length rest = length rs /\
      forall j r bj, nth_error rs j = Some r -> nth_error b j = Some bj ->
        rdot r (firstn (S (length acc + j)) (acc ++ rest)) = bj.
  Proof.
    induction rs as [|r rs IH]; intros b acc Hlen Hok.
    - exists []. cbn. rewrite app_nil_r. repeat split; auto. intros [|j] ? ? H; discriminate.
    - destruct b as [|bi bs]; [discriminate|]. cbn [tri_solve].
      set (zi := n_div O (n_sub O bi (dot O r acc)) (nth (length acc) r (c O 0))).
      destruct (IH bs (acc ++ [zi])) as (rest & E & Hl & Hsp).
      + cbn in Hlen. lia.
      + intros j r' Hr'. rewrite app_length. cbn [length]. replace (length acc + 1 + j)%nat with (length acc + S j)%nat by lia.
        apply (Hok (S j) r'). exact Hr'.
      + exists (zi :: rest). rewrite E, <- app_assoc. cbn [app]. split; [reflexivity|]. split; [cbn; lia|].
        intros [|j] r0 bj Hr Hb; cbn in Hr, Hb.
        * injection Hr as <-. injection Hb as <-. rewrite Nat.add_0_r, firstn_snoc_exact.
          destruct (Hok 0%nat r eq_refl) as [Hlt Hnz]. rewrite Nat.add_0_r in Hlt, Hnz.
          rewrite rdot_snoc by assumption. unfold zi. rewrite dot_R. cbn [n_div n_sub ROpsG]. change (c O 0) with 0. field. exact Hnz.
        * specialize (Hsp j r0 bj Hr Hb). rewrite app_length in Hsp. cbn [length] in Hsp.
          replace (length acc + 1 + j)%nat with (length acc + S j)%nat in Hsp by lia.
          rewrite <- app_assoc in Hsp. exact Hsp.
  Qed.

  Definition tri_ok (rows : list (list R)) : Prop :=
    forall j r, nth_error rows j = Some r -> (j < length r)%nat /\ 0 < nth j r 0.
  Lemma diag_from_pos rows : forall i, (forall j r, nth_error rows j = Some r -> 0 < nth (i + j) r 0) ->
    Forall (fun d => 0 < d) (diag_from O i rows).
  Proof.
    induction rows as [|r rows IH]; intros i H; cbn; constructor.
    - change (c O 0) with 0. specialize (H 0%nat r eq_refl). now rewrite Nat.add_0_r in H.
    - apply IH. intros j r' Hr'. replace (S i + j)%nat with (i + S j)%nat by lia. now apply (H (S j)).
  Qed.
  Lemma rsum_ln_abs l : Forall (fun d => 0 < d) l -> rsum (map (fun s => ln (Rabs s)) l) = rsum (map ln l).
  Proof. induction 1 as [|d l Hd Hl IH]; cbn; [reflexivity|]. rewrite IH, Rabs_right by lra. reflexivity. Qed.
  Lemma rsum_norm_terms z :
    rsum (map (fun v => (ln (2 * PI * 1) + v * v / 1) / -2) z) = - (1 / 2) * rsum (map (fun v => v * v) z) - INR (length z) / 2 * ln (2 * PI).
  Proof.
    induction z as [|v z IH]; [cbn; lra|]. cbn [map rsum length]. rewrite IH, S_INR. replace (2 * PI * 1) with (2 * PI) by lra. lra.
  Qed.
  (* log_prob = -1/2 |z|^2 - sum ln L_ii - d/2 ln(2 pi)  where z solves  L z = x - mu  (lower triangle of L) *)
  Lemma mvn_spec rows loc x : length loc = length rows -> length x = length rows -> tri_ok rows ->
    let z := mvn_z O rows loc x in
    length z = length rows /\
    (forall j r bj, nth_error rows j = Some r -> nth_error (map2 (fun xi li => xi - li) x loc) j = Some bj ->
       rdot r (firstn (S j) z) = bj) /\
    mvn_log_prob O rows loc x =
      Fin (- (1 / 2) * rsum (map (fun v => v * v) z) - rsum (map ln (diag_from O 0 rows)) - INR (length rows) / 2 * ln (2 * PI)).
  Proof.
    intros Hl Hx Hok z.
    destruct (tri_solve_spec rows (map2 (fun xi li => n_sub O xi li) x loc) []) as (rest & E & Hlen & Hsp).
    - rewrite map2_length; congruence.
    - intros j r Hr. cbn [length Nat.add]. destruct (Hok j r Hr) as [H1 H2]. split; [assumption|lra].
    - cbn [app] in E. assert (Ez : z = rest) by exact E. split; [congruence|]. split.
      + intros j r bj Hr Hb. rewrite Ez. exact (Hsp j r bj Hr Hb).
      + unfold mvn_log_prob, mvn_raw, std_lp. fold z.
        assert (Em : map (fin O) z = map Fin z) by (apply map_ext; intros; apply fin_R). rewrite Em, map_map.
        assert (En : map (fun v => norm_lp O (Fin v)) z = map Fin (map (fun v => (ln (2 * PI * 1) + v * v / 1) / -2) z)).
        { rewrite map_map. apply map_ext. intros. apply norm_lp_R. }
        rewrite En, e_sum_map_Fin, scale_ldj_R, e_add_Fin. cbn [nan_to_ninf]. f_equal.
        rewrite rsum_norm_terms, rsum_ln_abs.
        * replace (length z) with (length rows) by congruence. lra.
        * apply diag_from_pos. intros j r Hr. cbn [Nat.add]. now apply Hok.
  Qed.

  (* ================= samplers: log_prob inverts the map the sampler pushes the primitive's draw through ================= *)
  Lemma affine_roundtrip l s z : s <> 0 -> affine_inv1 O l s (Fin (affine_fwd1 O l s z)) = Fin z.
  Proof. intros Hs. rewrite affine_inv1_R. unfold affine_fwd1. cbn [n_add n_mul ROpsG]. f_equal. field. exact Hs. Qed.
  Lemma affine_sample_recovers locs scales zs : length locs = length zs -> length scales = length zs ->
    Forall (fun s => s <> 0) scales ->
    map3 (affine_inv1 O) locs scales (map Fin (map3 (affine_fwd1 O) locs scales zs)) = map Fin zs.
  Proof.
    intros H1 H2 Hs. revert locs zs H1 H2. induction Hs as [|s scales Hs0 Hs IH]; intros [|l locs] [|z zs] H1 H2; cbn [map3 map length] in *; try discriminate; try reflexivity.
    rewrite affine_roundtrip by assumption. f_equal. apply IH; congruence.
  Qed.
  (* the location-scale classes: log-density at a sample = base log-density of the draw - sum ln|scale| *)
  Definition plain_locscale (f : fam) : bool :=
    match f with FNormal | FGumbel | FCauchy | FStudentT | FLaplace | FLogistic => true | _ => false end.
  Lemma sample_density_locscale f dfs locs scales zs : plain_locscale f = true ->
    length locs = length zs -> length scales = length zs -> Forall (fun s => s <> 0) scales ->
    fam_raw O f locs scales dfs (map Fin (fam_sample O f locs scales zs)) = e_add O (std_lp O f dfs (map Fin zs)) (scale_ldj O scales).
  Proof.
    intros Hf H1 H2 Hs. destruct f; try discriminate; cbn [fam_raw fam_sample]; unfold locscale_raw;
      now rewrite affine_sample_recovers.
  Qed.
  Lemma lognormal_sample_recovers locs scales zs : length locs = length zs -> length scales = length zs ->
    Forall (fun s => s <> 0) scales ->
    map3 (affine_inv1 O) locs scales (map (e_log O) (map Fin (fam_sample O FLogNormal locs scales zs))) = map Fin zs.
  Proof.
    intros H1 H2 Hs. cbn [fam_sample]. rewrite <- (affine_sample_recovers locs scales zs H1 H2 Hs). f_equal.
    rewrite !map_map. apply map_ext. intros y. rewrite e_log_R. cbn [n_exp ROpsG].
    replace (Rltb 0 (exp y)) with true by (symmetry; apply Rltb_true, exp_pos). now rewrite ln_exp.
  Qed.
  Lemma exponential_sample_recovers rates zs : length rates = length zs -> Forall (fun r => 0 < r) rates ->
    map2 (scale_inv1 O) (exponential_scales O rates) (map Fin (fam_sample O FExponential rates [] zs)) = map Fin zs.
  Proof.
    intros H1 Hr. cbn [fam_sample]. unfold exponential_scales. revert zs H1.
    induction Hr as [|r rates Hr0 Hr IH]; intros [|z zs] H1; cbn [map2 map length] in *; try discriminate; try reflexivity.
    rewrite scale_inv1_R. rewrite IH by congruence. do 2 f_equal. cbn [n_mul n_div ROpsG]. rewrite cR. field. lra.
  Qed.

  (* ================= accessors return the constructor's values ================= *)
  Lemma acc_maxval_R los his : length los = length his -> acc_maxval O los his = his.
  Proof.
    unfold acc_maxval, uniform_scales. revert his. induction los as [|lo los IH]; intros [|hi his] H; cbn in *; try discriminate; [reflexivity|].
    rewrite IH by congruence. f_equal. lra.
  Qed.
  Lemma acc_rate_R rates : Forall (fun r => r <> 0) rates -> acc_rate O rates = rates.
  Proof.
    unfold acc_rate, exponential_scales. induction 1 as [|r rates Hr _ IH]; cbn; [reflexivity|]. cbn in IH. rewrite IH. f_equal. field. exact Hr.
  Qed.
  Lemma acc_loc_scale_R f p1 p2 : f <> FUniform -> acc_loc f p1 p2 = p1 /\ acc_scale O f p1 p2 = p2.
  Proof. destruct f; intros H; try congruence; split; reflexivity. Qed.
  Lemma acc_uniform_R los his : acc_minval los his = los /\ acc_scale O FUniform los his = map2 (fun lo hi => hi - lo) los his.
  Proof. split; reflexivity. Qed.

  (* ================= the class called with raw constructor arguments (shapes + flat data) ================= *)
  Definition two_arg (f : fam) : bool := match f with FStudentT | FExponential => false | _ => true end.
  Lemma class_log_prob_ctor2 f a b d xs : two_arg f = true ->
    class_log_prob O f a b d xs =
    fam_log_prob O f (bcast O (fst a) (bshape_rev (fst a) (fst b)) (snd a)) (bcast O (fst b) (bshape_rev (fst a) (fst b)) (snd b)) [] xs.
  Proof. destruct f; intros H; try discriminate; reflexivity. Qed.
  Lemma class_log_prob_studentt a b d xs :
    let rt := bshape_rev (bshape_rev (fst a) (fst b)) (fst d) in
    class_log_prob O FStudentT a b d xs = fam_log_prob O FStudentT (bcast O (fst a) rt (snd a)) (bcast O (fst b) rt (snd b)) (bcast O (fst d) rt (snd d)) xs.
  Proof. reflexivity. Qed.
  (* e.g. Normal(loc, scale) with arguments of any two broadcastable shapes: the event has prod(broadcast shape) coordinates,
     coordinate i sees loc[bproj i] and scale[bproj i] *)
  Lemma class_normal_spec a b d xs :
    let rt := bshape_rev (fst a) (fst b) in
    let locs := bcast O (fst a) rt (snd a) in
    let scales := bcast O (fst b) rt (snd b) in
    length xs = prodn rt -> Forall (fun s => 0 < s) scales ->
    class_log_prob O FNormal a b d (map Fin xs) = esum (map3 (fun m s x => elog (normal_pdf m s x)) locs scales xs).
  Proof.
    intros rt locs scales Hx Hs. rewrite class_log_prob_ctor2 by reflexivity. unfold locs, scales, rt in *.
    apply normal_spec; [now rewrite bcast_length|now rewrite bcast_length|exact Hs].
  Qed.
End R.

(* ================= MultivariateNormal, full textbook form (determinant and quadratic form of Sigma = L L^T) ================= *)
From FJ Require Import Proofs.LeafDerivP Proofs.DetP Proofs.DensDetP.

(* the lower triangle of the stored factor as a matrix (what solve_triangular(lower=True) and the log-det read) *)
Definition Lf (rows : list (list R)) (i j : nat) : R := if (j <=? i)%nat then nth j (nth i rows []) 0 else 0.
(* Sigma = L L^T, entry (i, k), dimension d *)
Definition Sig (rows : list (list R)) (d : nat) (i k : nat) : R := sumR (map (fun j => Lf rows i j * Lf rows k j) (seq 0 d)).
(* M is the inverse of Sigma:  Sigma M = I  (no inverse is constructed; the theorem holds for every such M) *)
Definition cov_inverse (rows : list (list R)) (d : nat) (M : nat -> nat -> R) : Prop :=
  forall i k, (i < d)%nat -> (k < d)%nat ->
    sumR (map (fun j => Sig rows d i j * M j k) (seq 0 d)) = if Nat.eqb i k then 1 else 0.
(* b^T M b *)
Definition quad_form (d : nat) (b : nat -> R) (M : nat -> nat -> R) : R :=
  sumR (map (fun k => sumR (map (fun i => b i * M i k) (seq 0 d)) * b k) (seq 0 d)).

Lemma sumR_rsum l : sumR l = rsum l.
Proof. unfold sumR. induction l as [|x l IH]; cbn; [reflexivity|]. now rewrite IH. Qed.
Lemma rsum_zero {X} (f : X -> R) l : (forall x, f x = 0) -> rsum (map f l) = 0.
Proof. intros H. induction l as [|x l IH]; cbn; [reflexivity|]. rewrite H, IH. lra. Qed.
Lemma rdot_seq a b n : (length b <= n)%nat -> rdot a b = rsum (map (fun j => nth j a 0 * nth j b 0) (seq 0 n)).
Proof.
  revert b n. induction a as [|x a IH]; intros b n Hn.
  - cbn [rdot]. rewrite rsum_zero; [reflexivity|]. intros j. destruct j; cbn; lra.
  - destruct b as [|y b].
    + cbn [rdot]. rewrite rsum_zero; [reflexivity|]. intros j. destruct j; cbn; lra.
    + destruct n as [|n]; [cbn in Hn; lia|]. cbn [rdot seq map rsum nth]. rewrite <- seq_shift, map_map.
      rewrite (IH b n) by (cbn in Hn; lia). reflexivity.
Qed.
Lemma nth_firstn_R k m (l : list R) : nth k (firstn m l) 0 = if (k <? m)%nat then nth k l 0 else 0.
Proof.
  revert k l. induction m as [|m IH]; intros k l.
  - cbn. now destruct k.
  - destruct l as [|x l]; [cbn [firstn]; destruct (k <? S m)%nat; destruct k; reflexivity|].
    destruct k as [|k]; [reflexivity|]. cbn [firstn nth]. rewrite IH. reflexivity.
Qed.
Lemma map_nth_seq {X} (f : R -> X) (l : list R) : map (fun i => f (nth i l 0)) (seq 0 (length l)) = map f l.
Proof.
  induction l as [|x l IH]; [reflexivity|]. cbn [length seq map nth]. f_equal. rewrite <- seq_shift, map_map. exact IH.
Qed.
Lemma map2_nth_error_sub x loc j : (j < length x)%nat -> length loc = length x ->
  nth_error (map2 (fun xi li => xi - li) x loc) j = Some (nth j x 0 - nth j loc 0).
Proof.
  revert loc j. induction x as [|a x IH]; intros [|b loc] j Hj Hl; cbn in *; try lia; try discriminate.
  destruct j as [|j]; [reflexivity|]. cbn. apply IH; lia.
Qed.
Lemma ln_prodR l : Forall (fun d => 0 < d) l -> 0 < prodR l /\ ln (prodR l) = rsum (map ln l).
Proof.
  induction 1 as [|d l Hd Hl [IH1 IH2]]; cbn.
  - split; [lra|apply ln_1].
  - fold (prodR l). split; [now apply Rmult_lt_0_compat|]. rewrite ln_mult by assumption. now rewrite IH2.
Qed.

Section MvnFull.
  Variable lgam : R -> R.
  Notation O := (ROpsG lgam).

  Lemma Lf_lower rows i j : (i < j)%nat -> Lf rows i j = 0.
  Proof. intros H. unfold Lf. replace (j <=? i)%nat with false; [reflexivity|]. symmetry. apply Nat.leb_gt. exact H. Qed.
  Lemma diag_from_seq rows : forall i,
    diag_from O i rows = map (fun j => nth (i + j) (nth j rows []) 0) (seq 0 (length rows)).
  Proof.
    induction rows as [|r rows IH]; intros i; [reflexivity|].
    cbn [diag_from length seq map nth]. rewrite Nat.add_0_r. f_equal. rewrite <- seq_shift, map_map, IH.
    apply map_ext. intros j. cbn [nth]. now replace (S i + j)%nat with (i + S j)%nat by lia.
  Qed.
  Lemma diag_is_Lf rows : diag_from O 0 rows = map (fun i => Lf rows i i) (seq 0 (length rows)).
  Proof. rewrite diag_from_seq. apply map_ext. intros i. unfold Lf. now rewrite Nat.leb_refl. Qed.

  (* (a) det Sigma = (prod L_ii)^2 > 0 and  sum ln L_ii = 1/2 ln det Sigma *)
  Lemma mvn_det rows : tri_ok rows ->
    let d := length rows in
    detF d (Sig rows d) = prodR (diag_from O 0 rows) * prodR (diag_from O 0 rows) /\
    0 < detF d (Sig rows d) /\
    rsum (map ln (diag_from O 0 rows)) = / 2 * ln (detF d (Sig rows d)).
  Proof.
    intros Hok d.
    assert (E : detF d (Sig rows d) = prodR (diag_from O 0 rows) * prodR (diag_from O 0 rows)).
    { rewrite diag_is_Lf. fold d. apply (detF_LLt d (Lf rows)). intros i j Hij _. now apply Lf_lower. }
    assert (Hp : Forall (fun v => 0 < v) (diag_from O 0 rows)).
    { apply diag_from_pos. intros j r Hr. cbn [Nat.add]. now apply Hok. }
    destruct (ln_prodR _ Hp) as [P1 P2].
    split; [exact E|]. split; [rewrite E; now apply Rmult_lt_0_compat|].
    rewrite E, ln_mult by assumption. rewrite P2. lra.
  Qed.

  (* (b) the quadratic form: z^T z = (x - mu)^T M (x - mu) for EVERY M with (L L^T) M = I *)
  Lemma mvn_quad rows loc x M : length loc = length rows -> length x = length rows -> tri_ok rows ->
    let d := length rows in
    cov_inverse rows d M ->
    rsum (map (fun v => v * v) (mvn_z O rows loc x)) = quad_form d (fun i => nth i x 0 - nth i loc 0) M.
  Proof.
    intros Hl Hx Hok d HM. subst d. destruct (mvn_spec lgam rows loc x Hl Hx Hok) as (Hz & Hsolve & _).
    set (z := mvn_z O rows loc x) in *.
    assert (Hq := quad_form_F (length rows) (Lf rows) M (fun k => nth k z 0) (fun i => nth i x 0 - nth i loc 0)).
    cbv beta in Hq. unfold quad_form. rewrite <- Hq.
    - rewrite <- Hz. rewrite (map_nth_seq (fun v => v * v) z). symmetry. apply sumR_rsum.
    - intros i Hi.
      assert (Hr : nth_error rows i = Some (nth i rows [])) by (apply nth_error_nth'; exact Hi).
      rewrite <- (Hsolve i (nth i rows []) (nth i x 0 - nth i loc 0) Hr) by (apply map2_nth_error_sub; lia).
      rewrite (rdot_seq _ _ (length rows)) by (rewrite firstn_length; lia).
      transitivity (rsum (map (fun k => Lf rows i k * nth k z 0) (seq 0 (length rows)))); [apply sumR_rsum|].
      f_equal. apply map_ext. intros k. rewrite nth_firstn_R. unfold Lf.
      change (k <? S i)%nat with (k <=? i)%nat. destruct (k <=? i)%nat; lra.
    - exact HM.
  Qed.

  (* the textbook multivariate normal log-density *)
  Lemma mvn_full_spec rows loc x M : length loc = length rows -> length x = length rows -> tri_ok rows ->
    let d := length rows in
    cov_inverse rows d M ->
    mvn_log_prob O rows loc x =
      Fin (- (1 / 2) * quad_form d (fun i => nth i x 0 - nth i loc 0) M - 1 / 2 * ln (detF d (Sig rows d)) - INR d / 2 * ln (2 * PI)).
  Proof.
    intros Hl Hx Hok d HM. destruct (mvn_spec lgam rows loc x Hl Hx Hok) as (_ & _ & E). rewrite E.
    rewrite (mvn_quad rows loc x M Hl Hx Hok HM). destruct (mvn_det rows Hok) as (_ & _ & D). rewrite D.
    fold d. f_equal. lra.
  Qed.

  (* the covariance accessor: covariance = L L^T (entries are dot products of the rows of the stored factor) *)
  Lemma mvn_cov_R rows : mvn_cov O rows = map (fun r => map (fun r' => rdot r r') rows) rows.
  Proof. unfold mvn_cov. apply map_ext. intros r. apply map_ext. intros r'. apply dot_R. Qed.
  Lemma mvn_cov_entry rows i k : let d := length rows in
    (forall i', length (nth i' rows []) <= d)%nat -> (forall i' j, (i' < j)%nat -> nth j (nth i' rows []) 0 = 0) ->
    (i < d)%nat -> (k < d)%nat -> nth k (nth i (mvn_cov O rows) []) 0 = Sig rows d i k.
  Proof.
    intros d Hlen Hup Hi Hk. rewrite mvn_cov_R.
    set (f := fun r : list R => map (fun r' => rdot r r') rows).
    rewrite (nth_indep _ [] (f [])) by (now rewrite map_length). rewrite (map_nth f). unfold f.
    set (g := fun r' : list R => rdot (nth i rows []) r').
    rewrite (nth_indep _ 0 (g [])) by (now rewrite map_length). rewrite (map_nth g). unfold g.
    rewrite (rdot_seq _ _ d) by apply Hlen. unfold Sig. symmetry.
    transitivity (rsum (map (fun j => Lf rows i j * Lf rows k j) (seq 0 d))); [apply sumR_rsum|]. f_equal. apply map_ext. intros j.
    unfold Lf. destruct (j <=? i)%nat eqn:E1; destruct (j <=? k)%nat eqn:E2; try reflexivity.
    - apply Nat.leb_gt in E2. rewrite (Hup k j E2). lra.
    - apply Nat.leb_gt in E1. rewrite (Hup i j E1). lra.
    - apply Nat.leb_gt in E1. rewrite (Hup i j E1). lra.
  Qed.
End MvnFull.
