(* BlockAutoregressiveNetwork at the reals: the positivity hypothesis of C09_bnaf_monotone_partial is discharged
   for EVERY raw parameter value (softplus on the diagonal blocks, block-lower-triangular Where, weight
   normalisation with scale = softplus(raw), as coded in block_autoregressive_linear and modelled by
   Model.Masks.bnaf_weight), and the forward map is connected to the bisection inverter of C10.
   Exact real arithmetic; float rounding is not modelled. *)
From Coq Require Import Reals List ZArith Bool Arith Lia Lra Psatz.
From FJ Require Import Model.Num Model.Leaves Model.Bisect Proofs.RNum Proofs.LeafDerivP Proofs.LeafInvP Proofs.BisectP.
From FJ Require Import Model.Masks Proofs.MasksP.
Import ListNotations.
Open Scope R_scope.

(* ------------------------------------------------------------------------------------------ *)
(* 1. the weight pipeline at R                                                                  *)
(* ------------------------------------------------------------------------------------------ *)
Definition softplusR (x : R) : R := n_softplus ROps x.          (* ln (1 + exp x) *)
Definition sumsq (l : list R) : R := fold_right (fun v a => v * v + a) 0 l.
Definition norm2R (l : list R) : R := sqrt (sumsq l).            (* jnp.linalg.norm(row) *)
Definition bnaf_weight_R (tril diag : list (list bool)) (w1 w2 : list (list R)) (scale_raw : list R) : list (list R) :=
  bnaf_weight 0 Rmult softplusR norm2R Rdiv tril diag w1 w2 scale_raw.

Lemma softplusR_pos x : 0 < softplusR x.
Proof.
  unfold softplusR. rops. pose proof (exp_pos x) as He.
  assert (H : ln 1 < ln (1 + exp x)) by (apply ln_increasing; lra). rewrite ln_1 in H. exact H.
Qed.

Lemma sumsq_nonneg l : 0 <= sumsq l.
Proof. induction l as [|v l IH]; [unfold sumsq; cbn [fold_right]; lra|]. change (sumsq (v :: l)) with (v * v + sumsq l). nra. Qed.
Lemma sumsq_pos l c e : nth_error l c = Some e -> e <> 0 -> 0 < sumsq l.
Proof.
  revert c. induction l as [|v l IH]; intros c H He; [destruct c; discriminate|].
  change (sumsq (v :: l)) with (v * v + sumsq l). pose proof (sumsq_nonneg l). destruct c as [|c]; cbn in H.
  - injection H as ->. nra.
  - specialize (IH c H He). nra.
Qed.
Lemma norm2R_pos l c e : nth_error l c = Some e -> e <> 0 -> 0 < norm2R l.
Proof. intros H He. unfold norm2R. apply sqrt_lt_R0. exact (sumsq_pos l c e H He). Qed.

(* ---- entries and shapes of the pipeline (any carrier) ---- *)
Definition mat_shape {T} (nr nc : nat) (m : list (list T)) : Prop := length m = nr /\ Forall (fun row => length row = nc) m.

Lemma entry_in_shape {T} (m : list (list T)) nr nc r c : mat_shape nr nc m -> (r < nr)%nat -> (c < nc)%nat -> exists v, entry m r c = Some v.
Proof.
  intros [Hr Hc] Hlr Hlc. unfold entry. destruct (nth_error m r) as [row|] eqn:E; [|apply nth_error_None in E; lia].
  rewrite Forall_forall in Hc. pose proof (Hc row (nth_error_In _ _ E)) as Hl.
  destruct (nth_error row c) as [v|] eqn:E2; [exists v; reflexivity|apply nth_error_None in E2; lia].
Qed.

Lemma where_mask_shape {A} (zero : A) nr nc m (w : list (list A)) :
  mat_shape nr nc m -> mat_shape nr nc w -> mat_shape nr nc (where_mask zero m w).
Proof.
  intros [Hm1 Hm2] [Hw1 Hw2]. split; [rewrite where_mask_length; lia|].
  apply Forall_forall. intros row Hin. apply In_nth_error in Hin. destruct Hin as [u Hu].
  exact (where_mask_row_length zero m w u row nc Hm2 Hw2 Hu).
Qed.

Lemma entry_bnaf_prenorm {A} (zero : A) sp tril diag w1 w2 r c :
  entry (bnaf_prenorm zero sp tril diag w1 w2) r c =
  match entry diag r c, entry (where_mask zero tril w1) r c, entry (where_mask zero tril w2) r c with
  | Some d, Some a, Some b => Some (if d then sp a else b)
  | _, _, _ => None
  end.
Proof.
  unfold entry, bnaf_prenorm. rewrite nth_error_map, !nth_error_combine, nth_error_map.
  destruct (nth_error diag r) as [drow|]; [|reflexivity].
  destruct (nth_error (where_mask zero tril w1) r) as [arow|]; cbn [option_map].
  - destruct (nth_error (where_mask zero tril w2) r) as [brow|]; cbn [option_map fst snd].
    + unfold where3_row. rewrite nth_error_map, !nth_error_combine, nth_error_map.
      destruct (nth_error drow c); [|reflexivity]. destruct (nth_error arow c); cbn [option_map]; [|reflexivity].
      destruct (nth_error brow c); reflexivity.
    + destruct (nth_error drow c); [|reflexivity]. destruct (nth_error arow c); reflexivity.
  - destruct (nth_error drow c); reflexivity.
Qed.

Lemma bnaf_prenorm_shape {A} (zero : A) sp nr nc tril diag w1 w2 :
  mat_shape nr nc tril -> mat_shape nr nc diag -> mat_shape nr nc w1 -> mat_shape nr nc w2 ->
  mat_shape nr nc (bnaf_prenorm zero sp tril diag w1 w2).
Proof.
  intros Ht Hd H1 H2.
  destruct (where_mask_shape zero nr nc tril w1 Ht H1) as [Ha1 Ha2].
  destruct (where_mask_shape zero nr nc tril w2 Ht H2) as [Hb1 Hb2]. destruct Hd as [Hd1 Hd2].
  unfold bnaf_prenorm. split.
  - rewrite map_length, !combine_length, map_length. lia.
  - apply Forall_forall. intros row Hin. apply in_map_iff in Hin. destruct Hin as [[drow [arow brow]] [<- Hin]].
    pose proof (in_combine_l _ _ _ _ Hin) as Hdin. apply in_combine_r in Hin.
    pose proof (in_combine_l _ _ _ _ Hin) as Hain. apply in_combine_r in Hin.
    apply in_map_iff in Hain. destruct Hain as [arow0 [<- Hain]].
    rewrite Forall_forall in Hd2, Ha2, Hb2. cbn [fst snd]. unfold where3_row.
    rewrite map_length, !combine_length, map_length, (Hd2 _ Hdin), (Ha2 _ Hain), (Hb2 _ Hin). lia.
Qed.

Lemma entry_weight_norm {A} (mul : A -> A -> A) sp norm div v s r c :
  entry (weight_norm mul sp norm div v s) r c =
  match nth_error v r, nth_error s r with
  | Some row, Some sr => option_map (fun e => div (mul (sp sr) e) (norm row)) (nth_error row c)
  | _, _ => None
  end.
Proof.
  unfold entry, weight_norm. rewrite nth_error_map, nth_error_combine.
  destruct (nth_error v r) as [row|]; [|reflexivity]. destruct (nth_error s r) as [sr|]; [|reflexivity].
  cbn [option_map fst snd]. apply nth_error_map.
Qed.
Lemma weight_norm_shape {A} (mul : A -> A -> A) sp norm div nr nc v s :
  mat_shape nr nc v -> length s = nr -> mat_shape nr nc (weight_norm mul sp norm div v s).
Proof.
  intros [Hv1 Hv2] Hs. unfold weight_norm. split; [rewrite map_length, combine_length; lia|].
  apply Forall_forall. intros row Hin. apply in_map_iff in Hin. destruct Hin as [[vrow sr] [<- Hin]].
  apply in_combine_l in Hin. rewrite Forall_forall in Hv2. cbn [fst snd]. rewrite map_length. exact (Hv2 _ Hin).
Qed.

(* ---- block masks as shaped matrices ---- *)
Lemma tril_mat_shape bh bw n : mat_shape (bh * n) (bw * n) (block_tril_mask bh bw n 0).
Proof. exact (block_tril_shape bh bw n 0). Qed.
Lemma diag_mat_shape bh bw n : (0 < bh)%nat -> mat_shape (bh * n) (bw * n) (block_diag_mask bh bw n).
Proof. exact (block_diag_shape bh bw n). Qed.

(* ---- the unwrapped weight of one block_autoregressive_linear, every raw value ---- *)
Section OneLayer.
  Variables (bh bw n : nat) (w1 w2 : list (list R)) (scale_raw : list R).
  Hypothesis Hbh : (0 < bh)%nat.
  Hypothesis Hbw : (0 < bw)%nat.
  Hypothesis Hw1 : mat_shape (bh * n) (bw * n) w1.
  Hypothesis Hw2 : mat_shape (bh * n) (bw * n) w2.
  Hypothesis Hs : length scale_raw = (bh * n)%nat.
  Let tril := block_tril_mask bh bw n 0.
  Let diag := block_diag_mask bh bw n.
  Let V := bnaf_prenorm 0 softplusR tril diag w1 w2.
  Let W := bnaf_weight_R tril diag w1 w2 scale_raw.

  Lemma V_shape : mat_shape (bh * n) (bw * n) V.
  Proof. apply bnaf_prenorm_shape; [apply tril_mat_shape|apply diag_mat_shape; exact Hbh|exact Hw1|exact Hw2]. Qed.
  Lemma W_shape : mat_shape (bh * n) (bw * n) W.
  Proof. apply weight_norm_shape; [exact V_shape|exact Hs]. Qed.

  (* before normalisation: diagonal-block entries are softplus of the raw weight, hence positive *)
  Lemma V_diag_pos r c e : entry V r c = Some e -> (c / bw)%nat = (r / bh)%nat -> 0 < e.
  Proof.
    intros He Hd. unfold V in He. rewrite entry_bnaf_prenorm in He.
    destruct (entry diag r c) as [d|] eqn:Ed; [|discriminate].
    destruct (diag_mat_shape bh bw n Hbh) as [HR HC].
    destruct (entry_Some_bounds _ _ _ r c d HR HC Ed) as [Hr Hc].
    unfold diag in Ed. rewrite block_diag_closed_form in Ed by assumption. injection Ed as <-.
    rewrite Hd, Nat.eqb_refl in He.
    destruct (entry (where_mask 0 tril w1) r c); [|discriminate]. destruct (entry (where_mask 0 tril w2) r c); [|discriminate].
    injection He as <-. apply softplusR_pos.
  Qed.

  (* every row has a diagonal-block entry, so no row is zero and the weight-norm division is by a positive number *)
  Theorem bnaf_rows_nonzero r row : nth_error V r = Some row -> 0 < norm2R row.
  Proof.
    intros Hrow. destruct V_shape as [HR HC].
    assert (Hr : (r < bh * n)%nat) by (rewrite <- HR; apply nth_error_Some; congruence).
    set (c := (r / bh * bw)%nat).
    assert (Hrb : (r / bh < n)%nat) by (apply Nat.div_lt_upper_bound; lia).
    assert (Hc : (c < bw * n)%nat) by (unfold c; nia).
    destruct (entry_in_shape V _ _ r c V_shape Hr Hc) as [e He].
    assert (Hpos : 0 < e) by (apply (V_diag_pos r c e He); unfold c; apply Nat.div_mul; lia).
    unfold entry in He. rewrite Hrow in He. apply (norm2R_pos row c e He). lra.
  Qed.

  Theorem bnaf_weight_diag_pos r c v : entry W r c = Some v -> (c / bw)%nat = (r / bh)%nat -> 0 < v.
  Proof.
    intros Hv Hd. unfold W, bnaf_weight_R, bnaf_weight in Hv. rewrite entry_weight_norm in Hv. fold V in Hv.
    destruct (nth_error V r) as [row|] eqn:Erow; [|discriminate]. destruct (nth_error scale_raw r) as [sr|]; [|discriminate].
    destruct (nth_error row c) as [e|] eqn:Ee; [|discriminate]. cbn in Hv. injection Hv as <-.
    assert (He : 0 < e) by (apply (V_diag_pos r c e); [unfold entry; rewrite Erow; exact Ee|exact Hd]).
    pose proof (bnaf_rows_nonzero r row Erow) as Hn. pose proof (softplusR_pos sr) as Hsp.
    apply Rdiv_lt_0_compat; [apply Rmult_lt_0_compat; assumption|exact Hn].
  Qed.

  (* outside the block-lower-triangular mask the unwrapped weight is exactly 0 *)
  Theorem bnaf_weight_R_zero_off_mask r c v : entry W r c = Some v -> (r / bh < c / bw)%nat -> v = 0.
  Proof.
    intros Hv Hlt. destruct W_shape as [HR HC]. destruct (entry_Some_bounds _ _ _ r c v HR HC Hv) as [Hr Hc].
    apply (bnaf_weight_zero_off_mask 0 Rmult softplusR norm2R Rdiv Rmult_0_r (fun a => Rmult_0_l (/ a)) tril diag w1 w2 scale_raw r c v).
    - unfold tril. rewrite block_tril_closed_form_0 by assumption. f_equal. apply Nat.leb_gt. exact Hlt.
    - unfold diag. rewrite block_diag_closed_form by assumption. f_equal. apply Nat.eqb_neq. lia.
    - exact Hv.
  Qed.
End OneLayer.

(* ------------------------------------------------------------------------------------------ *)
(* 2. the whole network from its RAW parameters; layers_good holds for every raw value          *)
(* ------------------------------------------------------------------------------------------ *)
(* raw trainable arrays of one block_autoregressive_linear: the two occurrences of linear.weight in the wrapper
   tree, the raw weight-norm scale (column vector), the bias *)
Record raw_layer := { rw1 : list (list R); rw2 : list (list R); rscale : list R; rbias : list R }.
(* the shapes the constructor gives them (values are arbitrary) *)
Definition raw_wf (dim : nat) (s : nat * nat) (l : raw_layer) : Prop :=
  mat_shape (fst s * dim) (snd s * dim) (rw1 l) /\ mat_shape (fst s * dim) (snd s * dim) (rw2 l) /\
  length (rscale l) = (fst s * dim)%nat /\ length (rbias l) = (fst s * dim)%nat.
Definition unwrap_layer (dim : nat) (p : (nat * nat) * raw_layer) : list (list R) :=
  bnaf_weight_R (block_tril_mask (fst (fst p)) (snd (fst p)) dim 0) (block_diag_mask (fst (fst p)) (snd (fst p)) dim)
                (rw1 (snd p)) (rw2 (snd p)) (rscale (snd p)).
Definition unwrap_ws (dim : nat) (shapes : list (nat * nat)) (raws : list raw_layer) : list (list (list R)) :=
  map (unwrap_layer dim) (combine shapes raws).
Definition biases (raws : list raw_layer) : list (list R) := map rbias raws.

(* BlockAutoregressiveNetwork.transform as a function of the raw parameters *)
Definition bnaf_R (act : R -> R) (dim depth bd : nat) (raws : list raw_layer) (cterm : option (list R)) (x : list R) : list R :=
  bnaf_transform 0 Rplus Rmult dim depth bd (unwrap_ws dim (bnaf_block_shapes depth bd) raws) (biases raws) act cterm x.

Fixpoint shapes_ok (shapes : list (nat * nat)) : Prop :=
  match shapes with
  | [] => True
  | s :: rest => (0 < fst s)%nat /\ (0 < snd s)%nat /\ match rest with [] => True | s2 :: _ => snd s2 = fst s end /\ shapes_ok rest
  end.

Lemma bnaf_shapes_ok depth bd : (0 < bd)%nat -> shapes_ok (bnaf_block_shapes depth bd).
Proof.
  intros Hbd. unfold bnaf_block_shapes. destruct depth as [|d]; [cbn; repeat split; lia|].
  assert (Htail : shapes_ok (repeat (bd, bd) d ++ [(1%nat, bd)]) /\
                  match repeat (bd, bd) d ++ [(1%nat, bd)] with [] => True | s2 :: _ => snd s2 = bd end).
  { induction d as [|d [IH1 IH2]]; [cbn; repeat split; lia|]. cbn [repeat app shapes_ok fst snd].
    split; [|reflexivity]. repeat split; try lia; assumption. }
  destruct Htail as [H1 H2]. cbn [shapes_ok fst snd]. repeat split; try lia; assumption.
Qed.

Lemma bnaf_layers_good dim : forall shapes raws,
  shapes_ok shapes -> Forall2 (raw_wf dim) shapes raws ->
  layers_good 0 Rlt dim shapes (unwrap_ws dim shapes raws) (biases raws).
Proof.
  induction shapes as [|s rest IH]; intros raws Hok HF; [exact I|].
  inversion HF as [|s' l rest' raws' Hwf HF' E1 E2]; subst.
  destruct Hok as [Hbh [Hbw [Hnext Hok]]]. destruct Hwf as [H1 [H2 [H3 H4]]].
  unfold unwrap_ws, biases. cbn [combine map layers_good hd tl].
  destruct (W_shape (fst s) (snd s) dim (rw1 l) (rw2 l) (rscale l) Hbh H1 H2 H3) as [HR HC].
  split; [exact Hbh|]. split; [exact Hbw|]. split; [exact HR|]. split; [exact HC|]. split; [exact H4|]. split.
  - intros r c v He Hd. exact (bnaf_weight_diag_pos (fst s) (snd s) dim (rw1 l) (rw2 l) (rscale l) Hbh Hbw H1 H2 H3 r c v He Hd).
  - split; [exact Hnext|]. exact (IH raws' Hok HF').
Qed.

(* ------------------------------------------------------------------------------------------ *)
(* 3. strictly increasing activations: LeakyTanh (as constructed) and Tanh                      *)
(* ------------------------------------------------------------------------------------------ *)
Section LeakyIncr.
  Variables m g ic : R.
  Hypothesis m_pos : 0 < m.
  Hypothesis g_pos : 0 < g.
  Hypothesis ic_def : ic = th m - g * m.
  Let f := leaky_fwd ROps m g ic.

  Lemma leaky_left x : x <= - m -> f x = g * (x + m) - th m.
  Proof.
    intros H. unfold f, leaky_fwd, geb, where_. rops.
    rewrite (Rleb_t m (Rabs x)) by (apply Rabs_ge_intro; left; exact H).
    rewrite (Rsign_neg x) by lra. rewrite ic_def. ring.
  Qed.
  Lemma leaky_right x : m <= x -> f x = g * (x - m) + th m.
  Proof.
    intros H. unfold f, leaky_fwd, geb, where_. rops.
    rewrite (Rleb_t m (Rabs x)) by (apply Rabs_ge_intro; right; exact H).
    rewrite (Rsign_pos x) by lra. rewrite ic_def. ring.
  Qed.
  Lemma leaky_mid x : - m < x < m -> f x = th x.
  Proof.
    intros H. unfold f, leaky_fwd, geb, where_. rops.
    rewrite (Rleb_f m (Rabs x)) by (apply Rabs_lt_intro; exact H). reflexivity.
  Qed.

  Lemma leaky_fwd_gen_incr s t : s < t -> f s < f t.
  Proof.
    intros Hst.
    assert (Htm : 0 < th m) by (rewrite <- th_0; apply th_incr; exact m_pos).
    assert (Hmid : forall x, - m < x < m -> - th m < th x < th m).
    { intros x Hx. rewrite <- th_odd. split; apply th_incr; lra. }
    assert (Cs : s <= - m \/ (- m < s < m) \/ m <= s) by lra.
    assert (Ct : t <= - m \/ (- m < t < m) \/ m <= t) by lra.
    destruct Cs as [Hs|[Hs|Hs]]; destruct Ct as [Ht|[Ht|Ht]]; try lra.
    - rewrite (leaky_left s Hs), (leaky_left t Ht). nra.
    - rewrite (leaky_left s Hs), (leaky_mid t Ht). pose proof (Hmid t Ht). nra.
    - rewrite (leaky_left s Hs), (leaky_right t Ht). nra.
    - rewrite (leaky_mid s Hs), (leaky_mid t Ht). apply th_incr; exact Hst.
    - rewrite (leaky_mid s Hs), (leaky_right t Ht). pose proof (Hmid s Hs). nra.
    - rewrite (leaky_right s Hs), (leaky_right t Ht). nra.
  Qed.
End LeakyIncr.

(* LeakyTanh(max_val = m) exactly as its constructor builds it *)
Definition leaky_act (m : R) : R -> R := leaky_fwd ROps m (leaky_grad ROps m) (leaky_icpt ROps m).
Lemma leaky_act_incr m : 0 < m -> forall s t, s < t -> leaky_act m s < leaky_act m t.
Proof.
  intros Hm s t Hst. unfold leaky_act.
  apply (leaky_fwd_gen_incr m (leaky_grad ROps m) (leaky_icpt ROps m) Hm (leaky_grad_pos m)); [|exact Hst].
  unfold leaky_icpt. rops. reflexivity.
Qed.
Definition tanh_act : R -> R := tanh_fwd ROps.
Lemma tanh_act_incr s t : s < t -> tanh_act s < tanh_act t.
Proof. intros H. unfold tanh_act, tanh_fwd. rops. apply th_incr; exact H. Qed.

(* ------------------------------------------------------------------------------------------ *)
(* 4. the structure theorem with no hypothesis on the parameter VALUES                          *)
(* ------------------------------------------------------------------------------------------ *)
Section Structure.
  Variable act : R -> R.
  Hypothesis act_incr : forall s t, s < t -> act s < act t.
  Variables (dim depth bd : nat) (raws : list raw_layer) (cterm : option (list R)).
  Hypothesis Hbd : (0 < bd)%nat.
  Hypothesis Hraws : Forall2 (raw_wf dim) (bnaf_block_shapes depth bd) raws.
  Hypothesis Hct : match cterm with Some t => (bd * dim <= length t)%nat | None => True end.

  (* y_i is strictly increasing in x_i, whatever happens to the later coordinates at the same time *)
  Theorem bnaf_strictly_increasing_own_coordinate x x' i a a' :
    (i < dim)%nat -> length x = dim -> length x' = dim ->
    (forall j, (j < i)%nat -> nth_error x j = nth_error x' j) ->
    nth_error x i = Some a -> nth_error x' i = Some a' -> a < a' ->
    exists y y', nth_error (bnaf_R act dim depth bd raws cterm x) i = Some y /\
                 nth_error (bnaf_R act dim depth bd raws cterm x') i = Some y' /\ y < y'.
  Proof.
    intros Hi Hx Hx' Hag Ha Ha' Hlt. unfold bnaf_R.
    apply (bnaf_monotone 0 Rplus Rmult Rlt Rmult_0_l Rlt_trans
             (fun a a' b H => Rplus_lt_compat_r b a a' H) (fun a b b' H => Rplus_lt_compat_l a b b' H)
             (fun w a a' Hw H => Rmult_lt_compat_l w a a' Hw H) act act_incr
             dim depth bd _ _ cterm x x' i a a' Hbd Hi Hx Hx'); try assumption.
    apply bnaf_layers_good; [apply bnaf_shapes_ok; exact Hbd|exact Hraws].
  Qed.

  (* ... and does not depend on x_j, j > i *)
  Theorem bnaf_independent_of_later_coordinates x x' i :
    (i < dim)%nat -> length x = length x' ->
    (forall j, (j <= i)%nat -> nth_error x j = nth_error x' j) ->
    nth_error (bnaf_R act dim depth bd raws cterm x) i = nth_error (bnaf_R act dim depth bd raws cterm x') i.
  Proof. intros Hi Hlen Hag. unfold bnaf_R. apply (bnaf_triangular 0 Rplus Rmult Rmult_0_l); assumption. Qed.

  Lemma bnaf_R_defined x i : (i < dim)%nat -> length x = dim -> exists y, nth_error (bnaf_R act dim depth bd raws cterm x) i = Some y.
  Proof.
    intros Hi Hx. destruct (nth_error x i) as [a|] eqn:Ea; [|apply nth_error_None in Ea; lia].
    (* compare x with a copy whose i-th entry is larger *)
    set (x' := firstn i x ++ (a + 1) :: skipn (S i) x).
    assert (Hx' : length x' = dim).
    { unfold x'. rewrite app_length, firstn_length. cbn [length]. rewrite skipn_length. lia. }
    destruct (bnaf_strictly_increasing_own_coordinate x x' i a (a + 1) Hi Hx Hx') as [y [_ [Hy _]]].
    - intros j Hj. unfold x'. rewrite nth_error_app1 by (rewrite firstn_length; lia). rewrite nth_error_firstn'.
      destruct (Nat.ltb_spec j i); [reflexivity|lia].
    - exact Ea.
    - unfold x'. rewrite nth_error_app2 by (rewrite firstn_length; lia). rewrite firstn_length.
      replace (i - Nat.min i (length x))%nat with 0%nat by lia. reflexivity.
    - lra.
    - exists y. exact Hy.
  Qed.
End Structure.

(* ------------------------------------------------------------------------------------------ *)
(* 5. bridge to C10: the numerically inverted BNAF                                              *)
(* ------------------------------------------------------------------------------------------ *)
Definition vsubR (a b : list R) : list R := map (fun p : R * R => fst p - snd p) (combine a b).

Lemma nth_of_nth_error {T} (l : list T) i d v : nth_error l i = Some v -> nth i l d = v.
Proof. intros H. exact (nth_error_nth l i d H). Qed.
Lemma nth_vsubR a b i v w : nth_error a i = Some v -> nth_error b i = Some w -> nth i (vsubR a b) 0 = v - w.
Proof. intros Ha Hb. apply nth_of_nth_error. unfold vsubR. rewrite nth_error_map, nth_error_combine, Ha, Hb. reflexivity. Qed.
Lemma nth_error_upd_eq {T} (l : list T) i x : (i < length l)%nat -> nth_error (upd l i x) i = Some x.
Proof. revert i. induction l as [|h l IH]; intros i H; cbn in H; [lia|]. destruct i; [reflexivity|]. cbn. apply IH. lia. Qed.
Lemma nth_error_upd_ne {T} (l : list T) i j x : i <> j -> nth_error (upd l i x) j = nth_error l j.
Proof.
  revert i j. induction l as [|h l IH]; intros i j H; [reflexivity|].
  destruct i; destruct j; cbn; try reflexivity; [lia|]. apply IH. lia.
Qed.

Section Inverter.
  Variable act : R -> R.
  Hypothesis act_incr : forall s t, s < t -> act s < act t.
  Variables (dim depth bd : nat) (raws : list raw_layer) (cterm : option (list R)) (y0 : list R).
  Hypothesis Hbd : (0 < bd)%nat.
  Hypothesis Hraws : Forall2 (raw_wf dim) (bnaf_block_shapes depth bd) raws.
  Hypothesis Hct : match cterm with Some t => (bd * dim <= length t)%nat | None => True end.
  Hypothesis Hy0 : length y0 = dim.
  Local Notation B := (bnaf_R act dim depth bd raws cterm).

  (* AutoregressiveBisectionInverter.__call__: fn(x) = bijection.transform(x, condition) - y *)
  Definition bnaf_residual (x : list R) : list R := vsubR (B x) y0.

  Lemma G_value i y t : (i < dim)%nat -> length y = dim ->
    exists v w, nth_error (B (upd y i t)) i = Some v /\ nth_error y0 i = Some w /\ G bnaf_residual i y t = v - w.
  Proof.
    intros Hi Hy.
    destruct (bnaf_R_defined act act_incr dim depth bd raws cterm Hbd Hraws Hct (upd y i t) i Hi) as [v Hv];
      [rewrite upd_length; exact Hy|].
    destruct (nth_error y0 i) as [w|] eqn:Ew; [|apply nth_error_None in Ew; lia].
    exists v, w. split; [exact Hv|]. split; [reflexivity|]. unfold G, bnaf_residual. apply nth_vsubR; assumption.
  Qed.

  (* the three structural hypotheses of C10_autoreg_residual hold for every raw parameter value *)
  Lemma bnaf_residual_incr i y : (i < dim)%nat -> length y = dim -> forall s t, s < t -> G bnaf_residual i y s < G bnaf_residual i y t.
  Proof.
    intros Hi Hy s t Hst.
    destruct (G_value i y s Hi Hy) as [v [w [Hv [Hw ->]]]]. destruct (G_value i y t Hi Hy) as [v' [w' [Hv' [Hw' ->]]]].
    assert (w' = w) by congruence. subst w'.
    destruct (bnaf_strictly_increasing_own_coordinate act act_incr dim depth bd raws cterm Hbd Hraws Hct
                (upd y i s) (upd y i t) i s t Hi) as [u [u' [Hu [Hu' Hlt]]]];
      try (rewrite upd_length; exact Hy); try (apply nth_error_upd_eq; lia); try exact Hst.
    - intros j Hj. rewrite !nth_error_upd_ne by lia. reflexivity.
    - assert (u = v) by congruence. assert (u' = v') by congruence. subst. lra.
  Qed.
  Lemma bnaf_residual_tri i y y' : (i < dim)%nat -> length y = dim -> length y' = dim ->
    firstn i y = firstn i y' -> forall t, G bnaf_residual i y t = G bnaf_residual i y' t.
  Proof.
    intros Hi Hy Hy' Hpre t.
    destruct (G_value i y t Hi Hy) as [v [w [Hv [Hw ->]]]]. destruct (G_value i y' t Hi Hy') as [v' [w' [Hv' [Hw' ->]]]].
    assert (w' = w) by congruence. subst w'.
    assert (E : nth_error (B (upd y i t)) i = nth_error (B (upd y' i t)) i).
    { apply (bnaf_independent_of_later_coordinates act dim depth bd raws cterm); [exact Hi|rewrite !upd_length; lia|].
      intros j Hj. destruct (Nat.eq_dec j i) as [->|Hne].
      - rewrite !nth_error_upd_eq by lia. reflexivity.
      - rewrite !nth_error_upd_ne by lia.
        assert (E : nth_error (firstn i y) j = nth_error (firstn i y') j) by (rewrite Hpre; reflexivity).
        rewrite !nth_error_firstn' in E. destruct (Nat.ltb_spec j i); [exact E|lia]. }
    assert (v' = v) by congruence. subst. reflexivity.
  Qed.

  (* The numerically inverted BNAF (coordinate-by-coordinate bisection of transform(x) - y0, any start interval, any
     tol > 0, any max_iter) terminates and returns, for every coordinate j, a value within max(tol, W_j / 2^(max_iter+1))
     -- within tol when max_iter suffices -- of the exact root rho_j of its own equation
         transform(xs[0..j-1], rho_j, ...)_j = y0_j        given the prefix that was found.
     _partial: existence of these roots (the coordinate maps being ONTO) is an explicit hypothesis.  It holds for
     LeakyTanh (linear tails, slope > 0: the coordinate maps are continuous, strictly increasing and unbounded both ways
     -- not proved here) and FAILS for Tanh, whose coordinate maps are bounded (bnaf_tanh_bounded below): for y0
     outside the range the adaptation loop does not terminate (C10_adapt_needs_root). *)
  Theorem bnaf_inverse_within_tol_partial lo up tol max_iter :
    lo < up -> 0 < tol ->
    (forall i y, (i < dim)%nat -> length y = dim -> exists rho, nth_error (B (upd y i rho)) i = nth_error y0 i) ->
    exists fuel0 xs, length xs = dim /\
      (forall j, (j < dim)%nat -> exists rho,
         nth_error (B (upd xs j rho)) j = nth_error y0 j /\
         Rabs (nth j xs 0 - rho) <= Rmax tol (width0 rho lo up / 2 ^ (S max_iter)) /\
         (width0 rho lo up <= 2 * tol * 2 ^ max_iter -> Rabs (nth j xs 0 - rho) <= tol)) /\
      forall fuel, (fuel0 <= fuel)%nat -> autoreg RF bnaf_residual lo up tol dim max_iter fuel = Some xs.
  Proof.
    intros Hlu Htol Hroot.
    assert (HrootG : forall i y, (i < dim)%nat -> length y = dim -> exists rho, G bnaf_residual i y rho = 0).
    { intros i y Hi Hy. destruct (Hroot i y Hi Hy) as [rho Hrho]. exists rho.
      destruct (G_value i y rho Hi Hy) as [v [w [Hv [Hw ->]]]]. rewrite Hv, Hw in Hrho. injection Hrho as ->. lra. }
    destruct (autoreg_residual bnaf_residual dim lo up tol max_iter Hlu Htol bnaf_residual_incr HrootG bnaf_residual_tri)
      as [fuel0 [xs [Hlen [Hacc Hrun]]]].
    exists fuel0, xs. split; [exact Hlen|]. split; [|exact Hrun].
    intros j Hj. destruct (Hacc j Hj) as [rho [Hrho Hb]]. exists rho.
    destruct (G_value j xs rho Hj Hlen) as [v [w [Hv [Hw HG]]]]. rewrite HG in Hrho.
    split; [rewrite Hv, Hw; f_equal; lra|]. unfold delta in Hb. split; [exact Hb|].
    intros Hw0. eapply Rle_trans; [exact Hb|]. apply Rmax_lub; [lra|].
    assert (Hp : 0 < 2 ^ max_iter) by (apply pow_lt; lra).
    change (2 ^ S max_iter) with (2 * 2 ^ max_iter).
    apply Rmult_le_reg_r with (2 * 2 ^ max_iter); [lra|]. unfold Rdiv. rewrite Rmult_assoc, Rinv_l by lra. lra.
  Qed.
End Inverter.

(* ------------------------------------------------------------------------------------------ *)
(* 6. quantitative form: a positive LOWER SLOPE in the own coordinate (activations with a        *)
(*    positive lower slope, e.g. LeakyTanh); hence onto, and the derivative is positive          *)
(* ------------------------------------------------------------------------------------------ *)
Local Notation dotR := (Masks.dot 0 Rplus Rmult).
Local Notation linearR := (Masks.linear 0 Rplus Rmult).

Lemma dotR_cons v w a x : dotR (v :: w) (a :: x) = v * a + dotR w x.
Proof. reflexivity. Qed.

Lemma pos_list_min (l : list R) : Forall (fun v => 0 < v) l -> exists mu, 0 < mu /\ Forall (fun v => mu <= v) l.
Proof.
  induction l as [|v l IH]; intros H; [exists 1; split; [lra|constructor]|].
  apply Forall_cons_iff in H. destruct H as [Hv Hl]. destruct (IH Hl) as [mu [Hmu Hall]].
  exists (Rmin v mu). split; [apply Rmin_glb_lt; assumption|]. constructor; [apply Rmin_l|].
  eapply Forall_impl; [|exact Hall]. intros a Ha. cbn in Ha. pose proof (Rmin_r v mu). lra.
Qed.

Section Slope.
  Variable act : R -> R.
  Variable ga : R.
  Hypothesis ga_pos : 0 < ga.
  Hypothesis act_slope : forall s t, s <= t -> ga * (t - s) <= act t - act s.
  Variable i : nat.
  Variable dl : R.                      (* the increment t - s of the own coordinate *)
  Hypothesis dl_nonneg : 0 <= dl.

  (* entries of blocks < i agree; entries of block i increase by at least k * dl; later blocks are free *)
  Definition qrel (blk : nat -> nat) (k : R) (x x' : list R) : Prop :=
    length x = length x' /\
    forall c a a', nth_error x c = Some a -> nth_error x' c = Some a' ->
      ((blk c < i)%nat -> a = a') /\ (blk c = i -> k * dl <= a' - a).

  Lemma qrel_tail blk k a a' x x' : qrel blk k (a :: x) (a' :: x') -> qrel (fun c => blk (S c)) k x x'.
  Proof. intros [Hl H]. split; [cbn in Hl; lia|]. intros c b b' Hb Hb'. exact (H (S c) b b' Hb Hb'). Qed.

  Definition row_good (bin : nat -> nat) (w : list R) : Prop :=
    forall c v, nth_error w c = Some v -> (bin c = i -> 0 <= v) /\ ((i < bin c)%nat -> v = 0).
  Lemma row_good_tail bin v w : row_good bin (v :: w) -> row_good (fun c => bin (S c)) w.
  Proof. intros H c u Hu. exact (H (S c) u Hu). Qed.

  Lemma head_nonneg bin k v a a' w x x' : 0 <= k -> qrel bin k (a :: x) (a' :: x') -> row_good bin (v :: w) -> 0 <= v * a' - v * a.
  Proof.
    intros Hk [_ Hq] Hw. destruct (Hq 0%nat a a' eq_refl eq_refl) as [H1 H2]. destruct (Hw 0%nat v eq_refl) as [W1 W2].
    destruct (lt_eq_lt_dec (bin 0%nat) i) as [[Hlt|Heq]|Hgt].
    - rewrite (H1 Hlt). lra.
    - specialize (H2 Heq). specialize (W1 Heq). assert (0 <= k * dl) by nra. nra.
    - rewrite (W2 Hgt). lra.
  Qed.

  Lemma dot_diff_nonneg w : forall bin k x x', 0 <= k -> qrel bin k x x' -> row_good bin w -> 0 <= dotR w x' - dotR w x.
  Proof.
    induction w as [|v w IH]; intros bin k x x' Hk Hq Hw; [cbn; lra|].
    destruct x as [|a x]; destruct x' as [|a' x']; try (destruct Hq as [Hl _]; discriminate); [cbn; lra|].
    rewrite !dotR_cons. pose proof (head_nonneg bin k v a a' w x x' Hk Hq Hw).
    pose proof (IH _ k x x' Hk (qrel_tail _ _ _ _ _ _ Hq) (row_good_tail _ _ _ Hw)). lra.
  Qed.

  Lemma dot_diff_lower w : forall bin k x x' c0 v0, 0 <= k -> qrel bin k x x' -> row_good bin w ->
    nth_error w c0 = Some v0 -> (c0 < length x)%nat -> bin c0 = i -> k * dl * v0 <= dotR w x' - dotR w x.
  Proof.
    induction w as [|v w IH]; intros bin k x x' c0 v0 Hk Hq Hw Hc0 Hlen Hb; [destruct c0; discriminate|].
    destruct x as [|a x]; [cbn in Hlen; lia|]. destruct x' as [|a' x']; [destruct Hq as [Hl _]; discriminate|].
    rewrite !dotR_cons. destruct c0 as [|c0].
    - cbn in Hc0. injection Hc0 as ->.
      pose proof (dot_diff_nonneg w _ k x x' Hk (qrel_tail _ _ _ _ _ _ Hq) (row_good_tail _ _ _ Hw)).
      destruct Hq as [_ Hq]. destruct (Hq 0%nat a a' eq_refl eq_refl) as [_ H2]. specialize (H2 Hb).
      destruct (Hw 0%nat v0 eq_refl) as [W1 _]. specialize (W1 Hb). nra.
    - pose proof (head_nonneg bin k v a a' w x x' Hk Hq Hw).
      pose proof (IH (fun c => bin (S c)) k x x' c0 v0 Hk (qrel_tail _ _ _ _ _ _ Hq) (row_good_tail _ _ _ Hw) Hc0
                     ltac:(cbn in Hlen; lia) Hb). lra.
  Qed.

  (* rows of an earlier block: zero weight on every entry that may differ *)
  Lemma dot_eq_lower w : forall (bin : nat -> nat) (b : nat) x x', length x = length x' ->
    (forall c a a', nth_error x c = Some a -> nth_error x' c = Some a' -> (bin c <= b)%nat -> a = a') ->
    (forall c v, nth_error w c = Some v -> (b < bin c)%nat -> v = 0) -> dotR w x = dotR w x'.
  Proof.
    induction w as [|v w IH]; intros bin b x x' Hl Hx Hw; [reflexivity|].
    destruct x as [|a x]; destruct x' as [|a' x']; try discriminate; [reflexivity|].
    rewrite !dotR_cons. f_equal.
    - destruct (le_lt_dec (bin 0%nat) b) as [Hle|Hgt]; [rewrite (Hx 0%nat a a' eq_refl eq_refl Hle); reflexivity|].
      rewrite (Hw 0%nat v eq_refl Hgt). lra.
    - apply (IH (fun c => bin (S c)) b); [cbn in Hl; lia| |].
      + intros c u u' Hu Hu'. exact (Hx (S c) u u' Hu Hu').
      + intros c u Hu. exact (Hw (S c) u Hu).
  Qed.

  Lemma layer_slope (bin bout : nat -> nat) (W : list (list R)) b x x' k mu :
    0 <= k -> 0 <= mu ->
    (forall u c v, entry W u c = Some v -> (bout u < bin c)%nat -> v = 0) ->
    (forall u c v, entry W u c = Some v -> bout u = bin c -> 0 < v) ->
    (forall u row, nth_error W u = Some row -> bout u = i ->
       exists c v, nth_error row c = Some v /\ (c < length x)%nat /\ bin c = i /\ mu <= v) ->
    qrel bin k x x' -> qrel bout (k * mu) (linearR W b x) (linearR W b x').
  Proof.
    intros Hk Hmu HZ HP HN Hq. split; [rewrite !linear_length; reflexivity|].
    intros u y y' Hy Hy'. rewrite nth_error_linear in Hy, Hy'.
    destruct (nth_error W u) as [row|] eqn:Eu; [|discriminate]. destruct (nth_error b u) as [bu|]; [|discriminate].
    injection Hy as <-. injection Hy' as <-. destruct Hq as [Hl Hq']. split.
    - intros Hlt. f_equal. apply (dot_eq_lower row bin (bout u)); [exact Hl| |].
      + intros c a a' Ha Ha' Hle. apply (proj1 (Hq' c a a' Ha Ha')). lia.
      + intros c v Hc Hgt. apply (HZ u c v); [unfold entry; rewrite Eu; exact Hc|exact Hgt].
    - intros Hb.
      assert (Hrow : row_good bin row).
      { intros c v Hc. split.
        - intros Hc2. left. apply (HP u c v); [unfold entry; rewrite Eu; exact Hc|lia].
        - intros Hc2. apply (HZ u c v); [unfold entry; rewrite Eu; exact Hc|lia]. }
      destruct (HN u row Eu Hb) as [c0 [v0 [Hc0 [Hlen0 [Hbc0 Hv0]]]]].
      pose proof (dot_diff_lower row bin k x x' c0 v0 Hk (conj Hl Hq') Hrow Hc0 Hlen0 Hbc0) as Hd.
      assert (0 <= k * dl) by nra. assert (k * mu * dl <= k * dl * v0) by nra. lra.
  Qed.

  Lemma qrel_map_act blk k x x' : 0 <= k -> qrel blk k x x' -> qrel blk (k * ga) (map act x) (map act x').
  Proof.
    intros Hk [Hl Hq]. split; [rewrite !map_length; exact Hl|]. intros c a a' Ha Ha'. rewrite nth_error_map in Ha, Ha'.
    destruct (nth_error x c) as [u|] eqn:E; [|discriminate]. destruct (nth_error x' c) as [u'|] eqn:E'; [|discriminate].
    injection Ha as <-. injection Ha' as <-. destruct (Hq c u u' E E') as [H1 H2]. split.
    - intros H. rewrite (H1 H). reflexivity.
    - intros H. specialize (H2 H). assert (0 <= k * dl) by nra. pose proof (act_slope u u' ltac:(lra)). nra.
  Qed.
  Lemma qrel_vadd blk k x x' t : qrel blk k x x' -> qrel blk k (Masks.vadd Rplus x t) (Masks.vadd Rplus x' t).
  Proof.
    intros [Hl Hq]. unfold Masks.vadd. split; [rewrite !map_length, !combine_length, Hl; reflexivity|].
    intros c a a' Ha Ha'. rewrite nth_error_map, nth_error_combine in Ha, Ha'.
    destruct (nth_error x c) as [u|] eqn:E; [|discriminate]. destruct (nth_error x' c) as [u'|] eqn:E'; [|discriminate].
    destruct (nth_error t c) as [tc|]; [|discriminate]. injection Ha as <-. injection Ha' as <-. cbn [fst snd].
    destruct (Hq c u u' E E') as [H1 H2]. split; [intros H; rewrite (H1 H); reflexivity|intros H; specialize (H2 H); lra].
  Qed.
End Slope.

Section NetSlope.
  Variable act : R -> R.
  Variable ga : R.
  Hypothesis ga_pos : 0 < ga.
  Hypothesis act_slope : forall s t, s <= t -> ga * (t - s) <= act t - act s.
  Variable dim : nat.

  (* one block layer: a positive factor mu that depends on the weight only *)
  Lemma tril_layer_slope bh bw (w : list (list R)) (b : list R) :
    (0 < bh)%nat -> (0 < bw)%nat ->
    length w = (bh * dim)%nat -> Forall (fun row => length row = (bw * dim)%nat) w -> length b = (bh * dim)%nat ->
    (forall r c v, entry w r c = Some v -> (c / bw)%nat = (r / bh)%nat -> 0 < v) ->
    exists mu, 0 < mu /\ forall i dl k x x', (i < dim)%nat -> 0 <= dl -> 0 <= k -> length x = (bw * dim)%nat ->
      qrel i dl (fun c => (c / bw)%nat) k x x' ->
      let h := linearR (where_mask 0 (block_tril_mask bh bw dim 0) w) b x in
      let h' := linearR (where_mask 0 (block_tril_mask bh bw dim 0) w) b x' in
      qrel i dl (fun u => (u / bh)%nat) (k * mu) h h' /\ length h = (bh * dim)%nat.
  Proof.
    intros Hbh Hbw Hlw Hrw Hlb Hpos.
    destruct (block_tril_shape bh bw dim 0) as [HR HC].
    set (diagv := fun u => match entry w u (u / bh * bw) with Some v => v | None => 1 end).
    assert (Hin : forall u, (u < bh * dim)%nat -> exists v, entry w u (u / bh * bw) = Some v /\ 0 < v).
    { intros u Hu. assert (Hub : (u / bh < dim)%nat) by (apply Nat.div_lt_upper_bound; lia).
      destruct (entry_in_shape w _ _ u (u / bh * bw)%nat (conj Hlw Hrw) Hu ltac:(nia)) as [v Hv].
      exists v. split; [exact Hv|]. apply (Hpos u _ v Hv). apply Nat.div_mul. lia. }
    destruct (pos_list_min (map diagv (seq 0 (bh * dim)))) as [mu [Hmu Hall]].
    { apply Forall_forall. intros v Hv. apply in_map_iff in Hv. destruct Hv as [u [<- Hu]]. apply in_seq in Hu.
      unfold diagv. destruct (Hin u ltac:(lia)) as [v [-> Hv]]. exact Hv. }
    exists mu. split; [exact Hmu|]. intros i dl k x x' Hi Hdl Hk Hlx Hq h h'. split.
    - apply (layer_slope i dl Hdl (fun c => (c / bw)%nat) (fun u => (u / bh)%nat)); try assumption; [lra| | |].
      + intros u c v He Hlt. rewrite entry_where_mask in He.
        destruct (entry (block_tril_mask bh bw dim 0) u c) as [bb|] eqn:Et; [|discriminate].
        destruct (entry_Some_bounds _ _ _ u c bb HR HC Et) as [Hu Hc]. rewrite block_tril_closed_form_0 in Et by assumption.
        injection Et as <-. destruct (entry w u c); [|discriminate]. injection He as <-.
        destruct (Nat.leb_spec (c / bw) (u / bh)); [lia|reflexivity].
      + intros u c v He Heq. rewrite entry_where_mask in He.
        destruct (entry (block_tril_mask bh bw dim 0) u c) as [bb|] eqn:Et; [|discriminate].
        destruct (entry_Some_bounds _ _ _ u c bb HR HC Et) as [Hu Hc]. rewrite block_tril_closed_form_0 in Et by assumption.
        injection Et as <-. destruct (entry w u c) as [v0|] eqn:Ew; [|discriminate]. injection He as <-.
        destruct (Nat.leb_spec (c / bw) (u / bh)); [|lia]. apply (Hpos u c v0 Ew). lia.
      + intros u row Hrow Hu.
        assert (Hul : (u < bh * dim)%nat).
        { assert (Hn : nth_error (where_mask 0 (block_tril_mask bh bw dim 0) w) u <> None) by congruence.
          apply nth_error_Some in Hn. rewrite where_mask_length in Hn. lia. }
        destruct (Hin u Hul) as [v [Hv Hvpos]].
        exists (u / bh * bw)%nat, v. split; [|split; [|split]].
        * assert (He : entry (where_mask 0 (block_tril_mask bh bw dim 0) w) u (u / bh * bw) = Some v).
          { rewrite entry_where_mask, Hv. assert (Hub : (u / bh < dim)%nat) by (apply Nat.div_lt_upper_bound; lia).
            rewrite block_tril_closed_form_0 by (try exact Hul; nia).
            rewrite Nat.div_mul by lia. rewrite Nat.leb_refl. reflexivity. }
          unfold entry in He. rewrite Hrow in He. exact He.
        * rewrite Hlx. assert (Hub : (u / bh < dim)%nat) by (apply Nat.div_lt_upper_bound; lia). nia.
        * rewrite Nat.div_mul by lia. exact Hu.
        * rewrite Forall_forall in Hall. replace v with (diagv u) by (unfold diagv; rewrite Hv; reflexivity).
          apply Hall. apply in_map. apply in_seq. lia.
    - unfold h. rewrite linear_length, where_mask_length, HR, Hlw, Hlb. lia.
  Qed.

  Lemma bnaf_run_slope : forall shapes ws bs,
    layers_good 0 Rlt dim shapes ws bs ->
    exists K, 0 < K /\ forall i dl k first cterm x x' bw0,
      (i < dim)%nat -> 0 <= dl -> 0 <= k ->
      match shapes with [] => True | s :: _ => snd s = bw0 end ->
      (first = true -> match cterm, shapes with Some t, s :: _ => (fst s * dim <= length t)%nat | _, _ => True end) ->
      length x = (bw0 * dim)%nat -> qrel i dl (fun c => (c / bw0)%nat) k x x' ->
      let bhl := match shapes with [] => bw0 | _ :: _ => fst (last shapes (0, 0)%nat) end in
      let masks := map (fun s => block_tril_mask (fst s) (snd s) dim 0) shapes in
      qrel i dl (fun u => (u / bhl)%nat) (k * K)
           (bnaf_run 0 Rplus Rmult act first cterm ws bs masks x) (bnaf_run 0 Rplus Rmult act first cterm ws bs masks x')
      /\ length (bnaf_run 0 Rplus Rmult act first cterm ws bs masks x) = (bhl * dim)%nat.
  Proof.
    induction shapes as [|s rest IH]; intros ws bs Hg.
    - exists 1. split; [lra|]. intros i dl k first cterm x x' bw0 Hi Hdl Hk _ _ Hlx Hq. cbn. rewrite Rmult_1_r. split; assumption.
    - destruct s as [bh bw]. cbn [layers_good fst snd] in Hg. destruct Hg as [Hbh [Hbw [Hlw [Hrw [Hlb [Hpos [Hnext Hg]]]]]]].
      destruct (tril_layer_slope bh bw (hd [] ws) (hd [] bs) Hbh Hbw Hlw Hrw Hlb Hpos) as [mu [Hmu Hlayer]].
      destruct (IH (tl ws) (tl bs) Hg) as [K [HK Hrest]].
      destruct rest as [|s2 rest].
      + exists mu. split; [exact Hmu|]. intros i dl k first cterm x x' bw0 Hi Hdl Hk H0 _ Hlx Hq. cbn [fst snd] in H0. subst bw0.
        cbn [map bnaf_run last fst snd]. exact (Hlayer i dl k x x' Hi Hdl Hk Hlx Hq).
      + exists (mu * ga * K). split; [apply Rmult_lt_0_compat; [apply Rmult_lt_0_compat; assumption|exact HK]|].
        intros i dl k first cterm x x' bw0 Hi Hdl Hk H0 Hct Hlx Hq. cbn [fst snd] in H0. subst bw0.
        destruct (Hlayer i dl k x x' Hi Hdl Hk Hlx Hq) as [Hh Hlh]. cbn [map bnaf_run fst snd].
        set (h := linearR (where_mask 0 (block_tril_mask bh bw dim 0) (hd [] ws)) (hd [] bs) x) in *.
        set (h' := linearR (where_mask 0 (block_tril_mask bh bw dim 0) (hd [] ws)) (hd [] bs) x') in *.
        set (g := match first, cterm with true, Some t => Masks.vadd Rplus h t | _, _ => h end).
        set (g' := match first, cterm with true, Some t => Masks.vadd Rplus h' t | _, _ => h' end).
        assert (Hgv : qrel i dl (fun u => (u / bh)%nat) (k * mu) g g').
        { unfold g, g'. destruct first; [destruct cterm as [t|]|]; try exact Hh. apply qrel_vadd. exact Hh. }
        assert (Hlg : length g = (bh * dim)%nat).
        { unfold g. destruct first; [destruct cterm as [t|]|]; try exact Hlh.
          unfold Masks.vadd. rewrite map_length, combine_length, Hlh. specialize (Hct eq_refl). cbn [fst] in Hct. lia. }
        assert (Hkm : 0 <= k * mu) by nra.
        pose proof (qrel_map_act act ga ga_pos act_slope i dl Hdl _ _ _ _ Hkm Hgv) as Hm.
        change (last ((bh, bw) :: s2 :: rest) (0, 0)%nat) with (last (s2 :: rest) (0, 0)%nat).
        replace (k * (mu * ga * K)) with (k * mu * ga * K) by ring.
        cbn [fst snd] in Hnext.
        apply (Hrest i dl (k * mu * ga) false cterm (map act g) (map act g') bh Hi Hdl); [nra|exact Hnext|intros Hf; discriminate| |exact Hm].
        rewrite map_length. exact Hlg.
  Qed.
End NetSlope.

(* ---- LeakyTanh has the positive lower slope linear_grad = 1 - tanh(max_val)^2 and is continuous ---- *)
Lemma leaky_d_lower m c : 0 < m -> leaky_grad ROps m <= leaky_d m c.
Proof.
  intros Hm. unfold leaky_d. destruct (Rleb_case m (Rabs c)) as [[E _]|[E Hc]]; rewrite E; [lra|].
  rewrite leaky_grad_spec. unfold dth. apply Rabs_lt_cases in Hc.
  assert (Htm : 0 < th m) by (rewrite <- th_0; apply th_incr; exact Hm).
  assert (- th m < th c < th m) by (rewrite <- th_odd; split; apply th_incr; lra). nra.
Qed.
Lemma leaky_act_derivable m c : 0 < m -> derivable_pt_lim (leaky_act m) c (leaky_d m c).
Proof. intros Hm. apply Coquelicot.Derive.is_derive_Reals. exact (leaky_deriv m Hm c). Qed.
Lemma leaky_act_slope m : 0 < m -> forall s t, s <= t -> leaky_grad ROps m * (t - s) <= leaky_act m t - leaky_act m s.
Proof.
  intros Hm s t [Hst | ->]; [|lra].
  destruct (MVT_cor2 (leaky_act m) (leaky_d m) s t Hst (fun c _ => leaky_act_derivable m c Hm)) as [c [Hc _]].
  rewrite Hc. pose proof (leaky_d_lower m c Hm). nra.
Qed.
Lemma leaky_act_continuity m : 0 < m -> continuity (leaky_act m).
Proof.
  intros Hm x. apply derivable_continuous_pt. exists (leaky_d m x). exact (leaky_act_derivable m x Hm).
Qed.

(* ---- continuity of the network in every input entry, for all weights ---- *)
Lemma continuity_ext (f g : R -> R) : (forall x, f x = g x) -> continuity f -> continuity g.
Proof.
  intros E H x. specialize (H x). unfold continuity_pt, continue_in, limit1_in, limit_in in *.
  intros eps He. destruct (H eps He) as [a [Ha H1]]. exists a. split; [exact Ha|]. intros y Hy. rewrite <- !E. exact (H1 y Hy).
Qed.
Lemma continuity_cst (c : R) : continuity (fun _ => c).
Proof. apply continuity_const. intros x y. reflexivity. Qed.
Lemma nth_as_nth_error {T} (l : list T) j d : nth j l d = match nth_error l j with Some v => v | None => d end.
Proof. revert j. induction l as [|a l IH]; intros [|j]; cbn; try reflexivity. apply IH. Qed.

Definition cvec (n : nat) (v : R -> list R) : Prop := (forall t, length (v t) = n) /\ forall j, continuity (fun t => nth j (v t) 0).

Lemma cvec_tl n v : cvec (S n) v -> cvec n (fun t => tl (v t)).
Proof.
  intros [Hl Hc]. split.
  - intros t. specialize (Hl t). destruct (v t); cbn in *; lia.
  - intros j. apply (continuity_ext (fun t => nth (S j) (v t) 0)); [|apply Hc].
    intros t. specialize (Hl t). destruct (v t); [discriminate|reflexivity].
Qed.
Lemma cvec_dot w : forall n v, cvec n v -> continuity (fun t => dotR w (v t)).
Proof.
  induction w as [|a w IH]; intros n v Hv; [apply (continuity_ext (fun _ => 0)); [intros t; reflexivity|apply continuity_cst]|].
  destruct n as [|n].
  - apply (continuity_ext (fun _ => 0)); [|apply continuity_cst]. intros t. destruct Hv as [Hl _]. specialize (Hl t).
    destruct (v t); [reflexivity|discriminate].
  - apply (continuity_ext (fun t => a * nth 0 (v t) 0 + dotR w (tl (v t)))).
    + intros t. destruct Hv as [Hl _]. specialize (Hl t). destruct (v t); [discriminate|reflexivity].
    + apply (continuity_plus (fun t => a * nth 0 (v t) 0) (fun t => dotR w (tl (v t)))).
      * apply (continuity_mult (fun _ => a) (fun t => nth 0 (v t) 0)); [apply continuity_cst|apply (proj2 Hv)].
      * apply (IH n). apply cvec_tl. exact Hv.
Qed.
Lemma cvec_linear W b n v : cvec n v -> cvec (Nat.min (length W) (length b)) (fun t => linearR W b (v t)).
Proof.
  intros Hv. split; [intros t; apply linear_length|]. intros u.
  apply (continuity_ext (fun t => match nth_error W u, nth_error b u with Some row, Some bu => dotR row (v t) + bu | _, _ => 0 end)).
  - intros t. rewrite nth_as_nth_error, nth_error_linear. destruct (nth_error W u); [|reflexivity]. destruct (nth_error b u); reflexivity.
  - destruct (nth_error W u) as [row|]; [|apply continuity_cst]. destruct (nth_error b u) as [bu|]; [|apply continuity_cst].
    apply (continuity_plus (fun t => dotR row (v t)) (fun _ => bu)); [apply (cvec_dot row n v Hv)|apply continuity_cst].
Qed.
Lemma cvec_map act n v : continuity act -> cvec n v -> cvec n (fun t => map act (v t)).
Proof.
  intros Ha [Hl Hc]. split; [intros t; rewrite map_length; apply Hl|]. intros j.
  destruct (Nat.lt_ge_cases j n) as [Hj|Hj].
  - apply (continuity_ext (fun t => act (nth j (v t) 0))).
    + intros t. rewrite (nth_indep (map act (v t)) 0 (act 0)) by (rewrite map_length, Hl; exact Hj). symmetry. apply map_nth.
    + apply (continuity_comp (fun t => nth j (v t) 0) act); [apply Hc|exact Ha].
  - apply (continuity_ext (fun _ => 0)); [|apply continuity_cst]. intros t. symmetry. apply nth_overflow. rewrite map_length, Hl. exact Hj.
Qed.
Lemma cvec_vadd t0 n v : cvec n v -> cvec (Nat.min n (length t0)) (fun t => Masks.vadd Rplus (v t) t0).
Proof.
  intros [Hl Hc]. split; [intros t; unfold Masks.vadd; rewrite map_length, combine_length, Hl; reflexivity|]. intros j.
  apply (continuity_ext (fun t => if (j <? n)%nat then match nth_error t0 j with Some b => nth j (v t) 0 + b | None => 0 end else 0)).
  - intros t. rewrite (nth_as_nth_error (Masks.vadd Rplus (v t) t0)). unfold Masks.vadd. rewrite nth_error_map, nth_error_combine.
    rewrite (nth_as_nth_error (v t)). destruct (Nat.ltb_spec j n) as [Hj|Hj].
    + destruct (nth_error (v t) j) eqn:E; [|apply nth_error_None in E; rewrite Hl in E; lia]. destruct (nth_error t0 j); reflexivity.
    + destruct (nth_error (v t) j) eqn:E; [|reflexivity]. assert (nth_error (v t) j <> None) by congruence.
      apply nth_error_Some in H. rewrite Hl in H. lia.
  - destruct (j <? n)%nat; [|apply continuity_cst]. destruct (nth_error t0 j) as [b|]; [|apply continuity_cst].
    apply (continuity_plus (fun t => nth j (v t) 0) (fun _ => b)); [apply Hc|apply continuity_cst].
Qed.
Lemma cvec_bnaf_run act : continuity act -> forall masks first cterm ws bs n v, cvec n v ->
  exists n', cvec n' (fun t => bnaf_run 0 Rplus Rmult act first cterm ws bs masks (v t)).
Proof.
  intros Ha. induction masks as [|m ms IH]; intros first cterm ws bs n v Hv; [exists n; exact Hv|].
  cbn [bnaf_run]. pose proof (cvec_linear (where_mask 0 m (hd [] ws)) (hd [] bs) n v Hv) as Hh.
  set (h := fun t => linearR (where_mask 0 m (hd [] ws)) (hd [] bs) (v t)) in *.
  set (nh := Nat.min (length (where_mask 0 m (hd [] ws))) (length (hd [] bs))) in *.
  destruct ms as [|m2 ms]; [exists nh; exact Hh|].
  destruct first; [destruct cterm as [t0|]|].
  - apply (IH false (Some t0) (tl ws) (tl bs) (Nat.min nh (length t0)) (fun t => map act (Masks.vadd Rplus (h t) t0))).
    apply cvec_map; [exact Ha|]. apply (cvec_vadd t0 nh h). exact Hh.
  - apply (IH false None (tl ws) (tl bs) nh (fun t => map act (h t))). apply cvec_map; [exact Ha|exact Hh].
  - apply (IH false cterm (tl ws) (tl bs) nh (fun t => map act (h t))). apply cvec_map; [exact Ha|exact Hh].
Qed.
Lemma cvec_upd y i : cvec (length y) (fun t => upd y i t).
Proof.
  split; [intros t; apply upd_length|]. intros j.
  destruct (Nat.eq_dec j i) as [->|Hne]; [destruct (Nat.lt_ge_cases i (length y)) as [Hi|Hi]|].
  - apply (continuity_ext (fun t => t)); [intros t; symmetry; apply upd_nth_eq; exact Hi|]. apply derivable_continuous, derivable_id.
  - apply (continuity_ext (fun _ => 0)); [|apply continuity_cst]. intros t. symmetry. apply nth_overflow. rewrite upd_length. exact Hi.
  - apply (continuity_ext (fun _ => nth j y 0)); [|apply continuity_cst]. intros t.
    rewrite !nth_as_nth_error, nth_error_upd_ne by lia. reflexivity.
Qed.

Lemma slope_deriv_lower (f : R -> R) K x d :
  (forall s t, s <= t -> K * (t - s) <= f t - f s) -> derivable_pt_lim f x d -> K <= d.
Proof.
  intros Hs Hd. destruct (Rle_dec K d) as [H|H]; [exact H|]. exfalso. apply Rnot_le_lt in H.
  destruct (Hd ((K - d) / 2) ltac:(lra)) as [delta Hdelta].
  pose proof (cond_pos delta) as Hp. specialize (Hdelta (delta / 2) ltac:(lra) ltac:(rewrite Rabs_right; lra)).
  specialize (Hs x (x + delta / 2) ltac:(lra)). replace (x + delta / 2 - x) with (delta / 2) in Hs by ring.
  assert (Hq : K <= (f (x + delta / 2) - f x) / (delta / 2)).
  { apply Rmult_le_reg_r with (delta / 2); [lra|]. unfold Rdiv at 2. rewrite Rmult_assoc, Rinv_l by lra. lra. }
  apply Rabs_def2 in Hdelta. lra.
Qed.

(* ------------------------------------------------------------------------------------------ *)
(* 7. the inverter with NO hypothesis left, for activations with a positive lower slope           *)
(* ------------------------------------------------------------------------------------------ *)
Section Onto.
  Variable act : R -> R.
  Variable ga : R.
  Hypothesis ga_pos : 0 < ga.
  Hypothesis act_slope : forall s t, s <= t -> ga * (t - s) <= act t - act s.
  Hypothesis act_cont : continuity act.
  Variables (dim depth bd : nat) (raws : list raw_layer) (cterm : option (list R)).
  Hypothesis Hbd : (0 < bd)%nat.
  Hypothesis Hraws : Forall2 (raw_wf dim) (bnaf_block_shapes depth bd) raws.
  Hypothesis Hct : match cterm with Some t => (bd * dim <= length t)%nat | None => True end.
  Local Notation B := (bnaf_R act dim depth bd raws cterm).

  Lemma act_incr_of_slope s t : s < t -> act s < act t.
  Proof. intros H. pose proof (act_slope s t ltac:(lra)). nra. Qed.

  (* a positive lower slope K of every coordinate in its own input, uniform in the input *)
  Theorem bnaf_lower_slope :
    exists K, 0 < K /\ forall i y s t v v', (i < dim)%nat -> length y = dim -> s <= t ->
      nth_error (B (upd y i s)) i = Some v -> nth_error (B (upd y i t)) i = Some v' -> K * (t - s) <= v' - v.
  Proof.
    destruct (bnaf_run_slope act ga ga_pos act_slope dim (bnaf_block_shapes depth bd)
                (unwrap_ws dim (bnaf_block_shapes depth bd) raws) (biases raws)
                (bnaf_layers_good dim _ raws (bnaf_shapes_ok depth bd Hbd) Hraws)) as [K [HK Hrun]].
    exists K. split; [exact HK|]. intros i y s t v v' Hi Hy Hst Hv Hv'.
    destruct (Hrun i (t - s) 1 true cterm (upd y i s) (upd y i t) 1%nat Hi ltac:(lra) ltac:(lra)) as [[_ Hq] _].
    - unfold bnaf_block_shapes. destruct depth; reflexivity.
    - intros _. destruct cterm as [t0|]; [|exact I]. unfold bnaf_block_shapes. destruct depth; cbn [fst]; nia.
    - rewrite upd_length. lia.
    - split; [rewrite !upd_length; reflexivity|]. intros c a a' Ha Ha'. rewrite Nat.div_1_r. split.
      + intros Hc. rewrite !nth_error_upd_ne in Ha, Ha' by lia. congruence.
      + intros ->. rewrite nth_error_upd_eq in Ha, Ha' by lia. injection Ha as <-. injection Ha' as <-. lra.
    - assert (Hlast : match bnaf_block_shapes depth bd with [] => 1%nat | _ :: _ => fst (last (bnaf_block_shapes depth bd) (0, 0)%nat) end = 1%nat).
      { unfold bnaf_block_shapes. destruct depth as [|d]; [reflexivity|]. rewrite app_comm_cons, last_last. reflexivity. }
      cbv zeta in Hq. rewrite Hlast in Hq. unfold bnaf_R, bnaf_transform, bnaf_tril_masks in Hv, Hv'.
      destruct (Hq i v v' Hv Hv') as [_ H2]. specialize (H2 (Nat.div_1_r i)). lra.
  Qed.

  (* the derivative form: wherever the own-coordinate derivative exists, it is >= K > 0 *)
  Theorem bnaf_own_derivative_positive :
    exists K, 0 < K /\ forall i y t d, (i < dim)%nat -> length y = dim ->
      derivable_pt_lim (fun tau => nth i (B (upd y i tau)) 0) t d -> K <= d.
  Proof.
    destruct bnaf_lower_slope as [K [HK Hs]]. exists K. split; [exact HK|]. intros i y t d Hi Hy Hd.
    apply (slope_deriv_lower (fun tau => nth i (B (upd y i tau)) 0) K t d); [|exact Hd].
    intros s t' Hst.
    destruct (bnaf_R_defined act act_incr_of_slope dim depth bd raws cterm Hbd Hraws Hct (upd y i s) i Hi ltac:(rewrite upd_length; exact Hy)) as [v Hv].
    destruct (bnaf_R_defined act act_incr_of_slope dim depth bd raws cterm Hbd Hraws Hct (upd y i t') i Hi ltac:(rewrite upd_length; exact Hy)) as [v' Hv'].
    rewrite (nth_of_nth_error _ _ 0 _ Hv), (nth_of_nth_error _ _ 0 _ Hv'). exact (Hs i y s t' v v' Hi Hy Hst Hv Hv').
  Qed.

  Variable y0 : list R.
  Hypothesis Hy0 : length y0 = dim.

  (* every coordinate equation has a root: the coordinate maps are continuous, with a positive lower slope, hence ONTO *)
  Theorem bnaf_coordinate_onto i y : (i < dim)%nat -> length y = dim ->
    exists rho, nth_error (B (upd y i rho)) i = nth_error y0 i.
  Proof.
    intros Hi Hy. destruct bnaf_lower_slope as [K [HK Hs]].
    destruct (nth_error y0 i) as [w|] eqn:Ew; [|apply nth_error_None in Ew; lia].
    set (f := fun t => nth i (B (upd y i t)) 0 - w).
    assert (Hval : forall t, exists v, nth_error (B (upd y i t)) i = Some v /\ f t = v - w).
    { intros t. destruct (bnaf_R_defined act act_incr_of_slope dim depth bd raws cterm Hbd Hraws Hct (upd y i t) i Hi ltac:(rewrite upd_length; exact Hy)) as [v Hv].
      exists v. split; [exact Hv|]. unfold f. rewrite (nth_of_nth_error _ _ 0 _ Hv). reflexivity. }
    assert (Hc : continuity f).
    { unfold f. apply (continuity_minus (fun t => nth i (B (upd y i t)) 0) (fun _ => w)); [|apply continuity_cst].
      destruct (cvec_bnaf_run act act_cont (bnaf_tril_masks dim depth bd) true cterm
                  (unwrap_ws dim (bnaf_block_shapes depth bd) raws) (biases raws) (length y) (fun t => upd y i t) (cvec_upd y i)) as [n' [_ Hcv]].
      exact (Hcv i). }
    destruct (root_exists_slope f K Hc HK) as [rho Hrho].
    - intros s t Hst. destruct (Hval s) as [v [Hv ->]]. destruct (Hval t) as [v' [Hv' ->]].
      pose proof (Hs i y s t v v' Hi Hy Hst Hv Hv'). lra.
    - exists rho. destruct (Hval rho) as [v [Hv Hf]]. rewrite Hv. f_equal. lra.
  Qed.

  (* the numerically inverted BNAF: terminates and returns every coordinate within tol (max_iter large enough; in
     general within max(tol, W_j / 2^(max_iter+1))) of the exact root of its own equation -- no hypothesis on the
     parameter values and no onto hypothesis *)
  Theorem bnaf_inverse_within_tol lo up tol max_iter :
    lo < up -> 0 < tol ->
    exists fuel0 xs, length xs = dim /\
      (forall j, (j < dim)%nat -> exists rho,
         nth_error (B (upd xs j rho)) j = nth_error y0 j /\
         Rabs (nth j xs 0 - rho) <= Rmax tol (width0 rho lo up / 2 ^ (S max_iter)) /\
         (width0 rho lo up <= 2 * tol * 2 ^ max_iter -> Rabs (nth j xs 0 - rho) <= tol)) /\
      forall fuel, (fuel0 <= fuel)%nat ->
        autoreg RF (bnaf_residual act dim depth bd raws cterm y0) lo up tol dim max_iter fuel = Some xs.
  Proof.
    intros Hlu Htol.
    apply (bnaf_inverse_within_tol_partial act act_incr_of_slope dim depth bd raws cterm y0 Hbd Hraws Hct Hy0 lo up tol max_iter Hlu Htol).
    intros i y Hi Hy. exact (bnaf_coordinate_onto i y Hi Hy).
  Qed.
End Onto.

(* ------------------------------------------------------------------------------------------ *)
(* 8. a BOUNDED activation (Tanh) is not onto: the outputs of a network of depth >= 1 are bounded *)
(* ------------------------------------------------------------------------------------------ *)
Definition absum (l : list R) : R := fold_right (fun v a => Rabs v + a) 0 l.
Lemma absum_nonneg l : 0 <= absum l.
Proof. induction l as [|v l IH]; [unfold absum; cbn; lra|]. change (absum (v :: l)) with (Rabs v + absum l). pose proof (Rabs_pos v). lra. Qed.
Lemma dot_bounded w : forall x, Forall (fun a => Rabs a <= 1) x -> Rabs (dotR w x) <= absum w.
Proof.
  induction w as [|v w IH]; intros x Hx; [change (dotR [] x) with 0; rewrite Rabs_R0; apply absum_nonneg|].
  destruct x as [|a x]; [change (dotR (v :: w) []) with 0; rewrite Rabs_R0; apply absum_nonneg|].
  apply Forall_cons_iff in Hx. destruct Hx as [Ha Hx]. rewrite dotR_cons. change (absum (v :: w)) with (Rabs v + absum w).
  eapply Rle_trans; [apply Rabs_triang|]. rewrite Rabs_mult. specialize (IH x Hx). pose proof (Rabs_pos v). nra.
Qed.
Definition layer_bound (W : list (list R)) (b : list R) : R :=
  fold_right (fun p a => absum (fst p) + Rabs (snd p) + a) 0 (combine W b).
Lemma linear_bounded W b x u y : Forall (fun a => Rabs a <= 1) x -> nth_error (linearR W b x) u = Some y -> Rabs y <= layer_bound W b.
Proof.
  intros Hx Hy. rewrite nth_error_linear in Hy. destruct (nth_error W u) as [row|] eqn:E1; [|discriminate].
  destruct (nth_error b u) as [bu|] eqn:E2; [|discriminate]. injection Hy as <-.
  assert (Hin : nth_error (combine W b) u = Some (row, bu)) by (rewrite nth_error_combine, E1, E2; reflexivity).
  unfold layer_bound. clear E1 E2. revert u Hin. induction (combine W b) as [|p l IH]; intros u Hin; [destruct u; discriminate|].
  cbn [fold_right].
  assert (Hnn : 0 <= fold_right (fun (p : list R * R) a => absum (fst p) + Rabs (snd p) + a) 0 l).
  { clear. induction l as [|q l IH]; cbn; [lra|]. pose proof (absum_nonneg (fst q)). pose proof (Rabs_pos (snd q)). lra. }
  destruct u as [|u]; cbn in Hin.
  - injection Hin as ->. cbn [fst snd]. eapply Rle_trans; [apply Rabs_triang|]. pose proof (dot_bounded row x Hx). lra.
  - specialize (IH u Hin). pose proof (absum_nonneg (fst p)). pose proof (Rabs_pos (snd p)). lra.
Qed.

Lemma skipn_S_tl {T} k (l : list T) : skipn (S k) l = skipn k (tl l).
Proof. destruct l; [destruct k; reflexivity|reflexivity]. Qed.

Lemma bnaf_run_step act first cterm ws bs m m2 ms x :
  bnaf_run 0 Rplus Rmult act first cterm ws bs (m :: m2 :: ms) x =
  bnaf_run 0 Rplus Rmult act false cterm (tl ws) (tl bs) (m2 :: ms)
    (map act (match first, cterm with
              | true, Some t => Masks.vadd Rplus (linearR (where_mask 0 m (hd [] ws)) (hd [] bs) x) t
              | _, _ => linearR (where_mask 0 m (hd [] ws)) (hd [] bs) x end)).
Proof. reflexivity. Qed.

Lemma bnaf_run_last act : forall ms m first cterm ws bs x, ms <> [] ->
  exists z, bnaf_run 0 Rplus Rmult act first cterm ws bs (m :: ms) x =
            linearR (where_mask 0 (last ms m) (hd [] (skipn (length ms) ws))) (hd [] (skipn (length ms) bs)) (map act z).
Proof.
  induction ms as [|m2 ms IH]; intros m first cterm ws bs x Hne; [contradiction|].
  rewrite bnaf_run_step. destruct ms as [|m3 ms].
  - eexists. cbn [last length]. rewrite !skipn_S_tl. cbn [skipn]. reflexivity.
  - destruct (IH m2 false cterm (tl ws) (tl bs)
                (map act (match first, cterm with
                          | true, Some t => Masks.vadd Rplus (linearR (where_mask 0 m (hd [] ws)) (hd [] bs) x) t
                          | _, _ => linearR (where_mask 0 m (hd [] ws)) (hd [] bs) x end)) ltac:(discriminate)) as [z Hz].
    exists z. rewrite Hz. change (length (m2 :: m3 :: ms)) with (S (length (m3 :: ms))). rewrite !skipn_S_tl.
    rewrite (last_cons m2 (m3 :: ms) m). reflexivity.
Qed.

Theorem bnaf_bounded_activation_bounded act dim depth bd raws cterm :
  (forall v, Rabs (act v) <= 1) -> (0 < depth)%nat ->
  exists Bd, forall x i y, nth_error (bnaf_R act dim depth bd raws cterm x) i = Some y -> Rabs y <= Bd.
Proof.
  intros Hact Hd. unfold bnaf_R, bnaf_transform, bnaf_tril_masks, bnaf_block_shapes.
  destruct depth as [|d]; [lia|]. cbn [map].
  set (ws := unwrap_ws dim ((bd, 1%nat) :: repeat (bd, bd) d ++ [(1%nat, bd)]) raws). set (bs := biases raws).
  set (ms := map (fun s : nat * nat => block_tril_mask (fst s) (snd s) dim 0) (repeat (bd, bd) d ++ [(1%nat, bd)])).
  assert (Hne : ms <> []) by (unfold ms; destruct d; discriminate).
  eexists. intros x i y Hy.
  destruct (bnaf_run_last act ms (block_tril_mask bd 1 dim 0) true cterm ws bs x Hne) as [z Hz].
  cbn [fst snd] in Hy. fold ms in Hy. rewrite Hz in Hy.
  eapply linear_bounded; [|exact Hy]. apply Forall_forall. intros a Ha. apply in_map_iff in Ha. destruct Ha as [v [<- _]]. apply Hact.
Qed.

(* hence with Tanh some targets have no preimage coordinate: the hypothesis of bnaf_inverse_within_tol_partial fails *)
Corollary bnaf_tanh_not_onto dim depth bd raws cterm i : (0 < depth)%nat ->
  exists w, forall x y, nth_error (bnaf_R tanh_act dim depth bd raws cterm x) i = Some y -> y < w.
Proof.
  intros Hd. destruct (bnaf_bounded_activation_bounded tanh_act dim depth bd raws cterm) as [Bd HB]; [|exact Hd|].
  - intros v. unfold tanh_act, tanh_fwd. rops. pose proof (th_bounds v). apply Rabs_le. lra.
  - exists (Bd + 1). intros x y Hy. specialize (HB x i y Hy). apply Rabs_le_inv in HB || idtac. pose proof (Rle_abs y). lra.
Qed.

(* ------------------------------------------------------------------------------------------ *)
(* 9. the statements as exported to Props/X09_bnaf.v (instances for LeakyTanh and Tanh)          *)
(* ------------------------------------------------------------------------------------------ *)
Lemma bnaf_layers_good_all dim depth bd raws : (0 < bd)%nat ->
  Forall2 (raw_wf dim) (bnaf_block_shapes depth bd) raws ->
  layers_good 0 Rlt dim (bnaf_block_shapes depth bd) (unwrap_ws dim (bnaf_block_shapes depth bd) raws) (biases raws).
Proof. intros Hbd H. apply bnaf_layers_good; [apply bnaf_shapes_ok; exact Hbd|exact H]. Qed.

Lemma bnaf_leaky_strictly_increasing m dim depth bd raws cterm x x' i a a' :
  0 < m -> (0 < bd)%nat -> Forall2 (raw_wf dim) (bnaf_block_shapes depth bd) raws ->
  match cterm with Some t => (bd * dim <= length t)%nat | None => True end ->
  (i < dim)%nat -> length x = dim -> length x' = dim ->
  (forall j, (j < i)%nat -> nth_error x j = nth_error x' j) ->
  nth_error x i = Some a -> nth_error x' i = Some a' -> a < a' ->
  exists y y', nth_error (bnaf_R (leaky_act m) dim depth bd raws cterm x) i = Some y /\
               nth_error (bnaf_R (leaky_act m) dim depth bd raws cterm x') i = Some y' /\ y < y'.
Proof. intros Hm Hbd Hr Hc. exact (bnaf_strictly_increasing_own_coordinate (leaky_act m) (leaky_act_incr m Hm) dim depth bd raws cterm Hbd Hr Hc x x' i a a'). Qed.

Lemma bnaf_tanh_strictly_increasing dim depth bd raws cterm x x' i a a' :
  (0 < bd)%nat -> Forall2 (raw_wf dim) (bnaf_block_shapes depth bd) raws ->
  match cterm with Some t => (bd * dim <= length t)%nat | None => True end ->
  (i < dim)%nat -> length x = dim -> length x' = dim ->
  (forall j, (j < i)%nat -> nth_error x j = nth_error x' j) ->
  nth_error x i = Some a -> nth_error x' i = Some a' -> a < a' ->
  exists y y', nth_error (bnaf_R tanh_act dim depth bd raws cterm x) i = Some y /\
               nth_error (bnaf_R tanh_act dim depth bd raws cterm x') i = Some y' /\ y < y'.
Proof. intros Hbd Hr Hc. exact (bnaf_strictly_increasing_own_coordinate tanh_act tanh_act_incr dim depth bd raws cterm Hbd Hr Hc x x' i a a'). Qed.

Lemma bnaf_leaky_inverse_within_tol m dim depth bd raws cterm y0 lo up tol max_iter :
  0 < m -> (0 < bd)%nat -> Forall2 (raw_wf dim) (bnaf_block_shapes depth bd) raws ->
  match cterm with Some t => (bd * dim <= length t)%nat | None => True end -> length y0 = dim ->
  lo < up -> 0 < tol ->
  exists fuel0 xs, length xs = dim /\
    (forall j, (j < dim)%nat -> exists rho,
       nth_error (bnaf_R (leaky_act m) dim depth bd raws cterm (upd xs j rho)) j = nth_error y0 j /\
       Rabs (nth j xs 0 - rho) <= Rmax tol (width0 rho lo up / 2 ^ (S max_iter)) /\
       (width0 rho lo up <= 2 * tol * 2 ^ max_iter -> Rabs (nth j xs 0 - rho) <= tol)) /\
    forall fuel, (fuel0 <= fuel)%nat ->
      autoreg RF (bnaf_residual (leaky_act m) dim depth bd raws cterm y0) lo up tol dim max_iter fuel = Some xs.
Proof.
  intros Hm Hbd Hr Hc Hy0. 
  exact (bnaf_inverse_within_tol (leaky_act m) (leaky_grad ROps m) (leaky_grad_pos m) (leaky_act_slope m Hm) (leaky_act_continuity m Hm)
           dim depth bd raws cterm Hbd Hr Hc y0 Hy0 lo up tol max_iter).
Qed.

Lemma leaky_act_lower_slope_all m : 0 < m ->
  0 < leaky_grad ROps m /\ continuity (leaky_act m) /\
  forall s t : R, s <= t -> leaky_grad ROps m * (t - s) <= leaky_act m t - leaky_act m s.
Proof. intros Hm. exact (conj (leaky_grad_pos m) (conj (leaky_act_continuity m Hm) (leaky_act_slope m Hm))). Qed.
