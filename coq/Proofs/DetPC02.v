(* C02: the property statements of Props/C02.v as lemmas (Props/*.v may only contain
   `Proof. exact <lemma>. Qed.`); each is a conjunction of lemmas proved in LeafDerivP.v,
   RqsDerivP.v, DetP.v, DetPJac.v. *)
From Coq Require Import Reals List ZArith Bool Lra Lia Sorted.
From Coquelicot Require Import Coquelicot.
From FJ Require Import Model.Num Model.Leaves Proofs.RNum Proofs.LeafDerivP Proofs.RqsDerivP
                       Proofs.DetP Proofs.DetPJac.
Import ListNotations.
Open Scope R_scope.

Lemma c02_vocabulary :
  (forall (f : R -> R) (x l : R),
     is_ldj f x l <-> exists d, is_derive f x d /\ d <> 0 /\ l = ln (Rabs d)) /\
  (forall (f : R -> R) (a l : R),
     (right_deriv f a l <-> forall eps, 0 < eps -> exists delta, 0 < delta /\
         forall h, 0 < h < delta -> Rabs ((f (a + h) - f a) / h - l) < eps) /\
     (left_deriv f a l <-> forall eps, 0 < eps -> exists delta, 0 < delta /\
         forall h, - delta < h < 0 -> Rabs ((f (a + h) - f a) / h - l) < eps) /\
     (left_deriv f a l -> right_deriv f a l -> is_derive f a l) /\
     (is_derive f a l -> left_deriv f a l /\ right_deriv f a l)) /\
  (forall (X : Type) (l : layer X),
     layer_ok l <->
     (forall x, l_dom l x -> l_cod l (l_fwd l x) /\ l_inv l (l_fwd l x) = x) /\
     (forall y, l_cod l y -> l_dom l (l_inv l y) /\ l_fwd l (l_inv l y) = y /\
                             l_ldi l y = - l_ldf l (l_inv l y))) /\
  (* chain.py: log_abs_det_jac = 0; for b in bijections / reversed(bijections): ... += ... *)
  (forall (X : Type) (ls : list (layer X)) (x y : X),
     chain_fwd_ld ls x = fold_left (fun s l => (l_fwd l (fst s), snd s + l_ldf l (fst s))) ls (x, 0) /\
     chain_inv_ld ls y = fold_left (fun s l => (l_inv l (fst s), snd s + l_ldi l (fst s))) (rev ls) (y, 0)) /\
  (forall (F : list R -> list R) (x : list R) (i j : nat) (d : R),
     partial_at F x i j d <-> is_derive (fun t => nth i (F (upd x j t)) 0) (nth j x 0) d).
Proof. exact (conj is_ldj_unfold
  (conj (fun f a l => conj (conj (fun H => H) (fun H => H)) (conj (conj (fun H => H) (fun H => H))
          (conj (is_derive_of_sides f a l)
                (fun H => conj (is_derive_left_deriv f a l H) (is_derive_right_deriv f a l H)))))
  (conj (fun X l => conj (fun H => H) (fun H => H))
  (conj (fun X ls x y => conj eq_refl eq_refl)
        (fun F x i j d => conj (fun H => H) (fun H => H)))))). Qed.

Lemma c02_affine_family :
  (forall loc scale x : R, is_derive (affine_fwd ROps loc scale) x scale) /\
  (forall loc scale x : R, scale <> 0 -> is_ldj (affine_fwd ROps loc scale) x (affine_ld ROps scale)) /\
  (forall scale : R, affine_ld ROps scale = ln (Rabs scale)) /\
  (forall scale x : R, is_derive (scale_fwd ROps scale) x scale) /\
  (forall scale x : R, scale <> 0 -> is_ldj (scale_fwd ROps scale) x (affine_ld ROps scale)) /\
  (forall loc x : R, is_derive (loc_fwd ROps loc) x 1 /\ is_ldj (loc_fwd ROps loc) x 0).
Proof. exact (conj affine_deriv (conj affine_ldj (conj affine_ld_spec (conj scale_deriv (conj scale_ldj
  (fun loc x => conj (loc_deriv loc x) (loc_ldj loc x))))))). Qed.

Lemma c02_exp_softplus :
  (forall x : R, is_derive (exp_fwd ROps) x (exp x) /\ exp_ld_fwd x = ln (Rabs (exp x)) /\
                 is_ldj (exp_fwd ROps) x (exp_ld_fwd x)) /\
  (forall x : R, is_derive (softplus_fwd ROps) x (exp x / (1 + exp x)) /\
                 softplus_ld_fwd ROps x = ln (Rabs (exp x / (1 + exp x))) /\
                 is_ldj (softplus_fwd ROps) x (softplus_ld_fwd ROps x)).
Proof. exact (conj (fun x => conj (exp_deriv x) (conj (exp_ld_spec x) (exp_ldj x)))
                   (fun x => conj (softplus_deriv x) (conj (softplus_ld_spec x) (softplus_ldj x)))). Qed.

Lemma c02_tanh :
  (forall x : R, th x = tanh x) /\
  (forall x : R, tanh_log_grad ROps x = ln (1 - th x * th x)) /\
  (forall x : R, is_derive (tanh_fwd ROps) x (1 - th x * th x) /\ 0 < 1 - th x * th x /\
                 is_ldj (tanh_fwd ROps) x (tanh_ld_fwd ROps x)).
Proof. exact (conj th_is_tanh (conj tanh_log_grad_spec
  (fun x => conj (tanh_deriv x) (conj (dth_pos x) (tanh_ldj x))))). Qed.

Lemma c02_leaky_tanh :
  (forall m : R, leaky_grad ROps m = 1 - th m * th m) /\
  (forall m : R, 0 < m -> forall x : R,
     is_derive (leaky_fwd ROps m (leaky_grad ROps m) (leaky_icpt ROps m)) x
               (if Rleb m (Rabs x) then leaky_grad ROps m else 1 - th x * th x)) /\
  (forall m : R, 0 < m -> forall x : R,
     is_ldj (leaky_fwd ROps m (leaky_grad ROps m) (leaky_icpt ROps m)) x
            (leaky_ld_fwd ROps m (leaky_grad ROps m) x)).
Proof. exact (conj leaky_grad_spec (conj leaky_deriv leaky_ldj)). Qed.

Lemma c02_rqs_valid_def : forall (xp yp dv : list R) (lo hi : R),
  rqs_valid xp yp dv lo hi <->
  (StronglySorted Rlt xp /\ StronglySorted Rlt yp /\ (2 <= length xp)%nat /\
   length yp = length xp /\ length dv = length xp /\ List.Forall (fun d => 0 < d) dv /\
   nth 0 xp 0 = lo /\ last xp 0 = hi /\ nth 0 yp 0 = lo /\ last yp 0 = hi).
Proof. exact (fun xp yp dv lo hi => conj
  (fun V => conj (v_xs _ _ _ _ _ V) (conj (v_ys _ _ _ _ _ V) (conj (v_len _ _ _ _ _ V) (conj (v_leny _ _ _ _ _ V)
     (conj (v_lend _ _ _ _ _ V) (conj (v_dpos _ _ _ _ _ V) (conj (v_xlo _ _ _ _ _ V) (conj (v_xhi _ _ _ _ _ V)
     (conj (v_ylo _ _ _ _ _ V) (v_yhi _ _ _ _ _ V))))))))))
  (fun H => match H with conj a (conj b (conj c (conj d (conj e (conj f (conj g (conj h (conj i j)))))))) =>
     Build_rqs_valid xp yp dv lo hi a b c d e f g h i j end)). Qed.

Lemma c02_rqs : forall (xp yp dv : list R) (lo hi : R), rqs_valid xp yp dv lo hi ->
  (forall x : R, lo < x < hi ->
     is_derive (rqs_fwd ROps xp yp dv lo hi) x (rqs_deriv ROps xp yp dv lo hi x)) /\
  (forall x : R, x < lo \/ hi < x ->
     is_derive (rqs_fwd ROps xp yp dv lo hi) x (rqs_deriv ROps xp yp dv lo hi x) /\
     rqs_deriv ROps xp yp dv lo hi x = 1) /\
  (forall j : Z, (1 <= j <= Z.of_nat (length xp) - 1)%Z ->
     rqs_deriv ROps xp yp dv lo hi (getz ROps xp j) = getz ROps dv j) /\
  (forall x : R, 0 < rqs_deriv ROps xp yp dv lo hi x /\
     rqs_ld_fwd ROps xp yp dv lo hi x = ln (Rabs (rqs_deriv ROps xp yp dv lo hi x))) /\
  (forall x : R, x <> lo -> x <> hi ->
     is_ldj (rqs_fwd ROps xp yp dv lo hi) x (rqs_ld_fwd ROps xp yp dv lo hi x)).
Proof. exact (fun xp yp dv lo hi V =>
  conj (rqs_deriv_inside xp yp dv lo hi V)
  (conj (rqs_deriv_outside xp yp dv lo hi)
  (conj (rqs_deriv_at_knot xp yp dv lo hi V)
  (conj (fun x => conj (rqs_deriv_pos xp yp dv lo hi V x) (rqs_ld_spec xp yp dv lo hi V x))
        (rqs_ldj xp yp dv lo hi V))))). Qed.

Lemma c02_rqs_interval_ends : forall (xp yp dv : list R) (lo hi : R), rqs_valid xp yp dv lo hi ->
  let f := rqs_fwd ROps xp yp dv lo hi in let f' := rqs_deriv ROps xp yp dv lo hi in
  let d_first := getz ROps dv 0 in let d_last := getz ROps dv (Z.of_nat (length xp) - 1) in
  (f' lo = d_first /\ right_deriv f lo (f' lo) /\ left_deriv f lo 1) /\
  (f' hi = d_last /\ left_deriv f hi (f' hi) /\ right_deriv f hi 1) /\
  (d_first = 1 -> is_derive f lo (f' lo)) /\ (d_first <> 1 -> ~ exists d, is_derive f lo d) /\
  (d_last = 1 -> is_derive f hi (f' hi)) /\ (d_last <> 1 -> ~ exists d, is_derive f hi d).
Proof. exact (fun xp yp dv lo hi V =>
  conj (rqs_end_lo xp yp dv lo hi V) (conj (rqs_end_hi xp yp dv lo hi V)
  (conj (rqs_end_lo_smooth xp yp dv lo hi V) (conj (rqs_end_lo_kink xp yp dv lo hi V)
  (conj (rqs_end_hi_smooth xp yp dv lo hi V) (rqs_end_hi_kink xp yp dv lo hi V)))))). Qed.

Lemma c02_ldj_inverse_law_leaves :
  (forall loc scale : R, scale <> 0 ->
     layer_ok (affine_layer loc scale) /\ layer_ok (scale_layer scale) /\ layer_ok (loc_layer loc)) /\
  (forall y : R, 0 < y ->
     exp_fwd ROps (exp_inv ROps y) = y /\ exp_ld_inv ROps y = - exp_ld_fwd (exp_inv ROps y)) /\
  (forall y : R, 0 < y ->
     softplus_fwd ROps (softplus_inv ROps y) = y /\
     softplus_ld_inv ROps y = - softplus_ld_fwd ROps (softplus_inv ROps y)) /\
  (forall y : R, -1 < y < 1 ->
     tanh_fwd ROps (tanh_inv ROps y) = y /\ tanh_ld_inv ROps y = - tanh_ld_fwd ROps (tanh_inv ROps y)) /\
  (forall m : R, 0 < m -> forall y : R,
     let g := leaky_grad ROps m in let ic := leaky_icpt ROps m in
     leaky_fwd ROps m g ic (leaky_inv ROps m g ic y) = y /\
     leaky_inv ROps m g ic (leaky_fwd ROps m g ic y) = y /\
     leaky_ld_inv ROps m g ic y = - leaky_ld_fwd ROps m g (leaky_inv ROps m g ic y)) /\
  (forall (xp yp dv : list R) (lo hi y : R),
     rqs_ld_inv ROps xp yp dv lo hi y = - rqs_ld_fwd ROps xp yp dv lo hi (rqs_inv ROps xp yp dv lo hi y)).
Proof. exact (conj (fun loc scale H => conj (affine_layer_ok loc scale H) (conj (scale_layer_ok scale H) (loc_layer_ok loc)))
  (conj (fun y H => ldj_inverse_law R exp_layer y exp_layer_ok H)
  (conj (fun y H => ldj_inverse_law R softplus_layer y softplus_layer_ok H)
  (conj (fun y H => ldj_inverse_law R tanh_layer y tanh_layer_ok H)
  (conj (fun m H y => conj (leaky_fwd_inv m H y) (conj (leaky_inv_fwd m H y) (leaky_ld_inverse_law m H y)))
        rqs_ld_inverse_law))))). Qed.

Lemma c02_ldj_inverse_law :
  (forall (X : Type) (ls : list (layer X)), List.Forall layer_ok ls -> layer_ok (chain_layer ls)) /\
  (forall (X : Type) (l : layer X), layer_ok l -> layer_ok (invert_layer l)) /\
  (forall (X : Type) (l : layer X) (y : X), layer_ok l -> l_cod l y ->
     l_fwd l (l_inv l y) = y /\ l_ldi l y = - l_ldf l (l_inv l y)).
Proof. exact (conj chain_layer_ok (conj invert_layer_ok ldj_inverse_law)). Qed.

Lemma c02_lift_ldj : forall (f ld d : R -> R) (xs : list R),
  (forall x, In x xs -> is_derive f x (d x) /\ d x <> 0 /\ ld x = ln (Rabs (d x))) ->
  lift_ld ROps ld xs = sum ROps (map (fun x => ln (Rabs (d x))) xs) /\
  lift_ld ROps ld xs = ln (Rabs (prodR (map d xs))) /\ prodR (map d xs) <> 0 /\
  List.Forall2 (fun x y => y = f x) xs (lift f xs).
Proof. exact lift_ldj. Qed.

Lemma c02_chain :
  (forall (X : Type) (ls : list (layer X)) (x : X),
     chain_fwd_ld ls x = (comp_fwd ls x, comp_ldf ls x) /\
     (forall l t, comp_fwd (l :: t) x = comp_fwd t (l_fwd l x) /\
                  comp_ldf (l :: t) x = l_ldf l x + comp_ldf t (l_fwd l x)) /\
     comp_fwd (@nil (layer X)) x = x /\ comp_ldf (@nil (layer X)) x = 0) /\
  (forall ls : list (layer R),
     List.Forall (fun l => forall x, l_dom l x -> is_ldj (l_fwd l) x (l_ldf l x)) ls ->
     forall x : R, comp_dom ls x ->
     is_ldj (fun t => fst (chain_fwd_ld ls t)) x (snd (chain_fwd_ld ls x))).
Proof. exact (conj
  (fun X ls x => conj (chain_fwd_ld_spec X ls x) (conj (fun l t => conj eq_refl eq_refl) (conj eq_refl eq_refl)))
  chain_ldj_rank0). Qed.

Lemma c02_invert_ldj_rank0_partial : forall (f g : R -> R) (y lf e eps : R),
  is_ldj f (g y) lf -> 0 < eps -> (forall t, y - eps < t < y + eps -> f (g t) = t) ->
  is_derive g y e -> is_ldj g y (- lf).
Proof. exact inverse_is_ldj_partial. Qed.

Lemma c02_triangular_affine :
  (forall (n : nat) (F : nat -> nat -> R),
     ((forall i j, (i < j)%nat -> (j < n)%nat -> F i j = 0) \/
      (forall i j, (j < i)%nat -> (i < n)%nat -> F i j = 0)) ->
     detF n F = prodR (map (fun i => F i i) (seq 0 n))) /\
  (forall m : list (list R), let n := length m in
     ((forall i j, (i < j)%nat -> (j < n)%nat -> mentry m i j = 0) \/
      (forall i j, (j < i)%nat -> (i < n)%nat -> mentry m i j = 0)) ->
     (forall i, (i < n)%nat -> mentry m i i <> 0) ->
     tri_ld ROps m = ln (Rabs (prodR (diag ROps m))) /\
     tri_ld ROps m = ln (Rabs (detF n (mentry m))) /\ detF n (mentry m) <> 0) /\
  (forall (m : list (list R)) (loc x : list R) (i j : nat), let n := length m in
     length x = n -> length loc = n -> (forall r, In r m -> length r = n) -> (i < n)%nat -> (j < n)%nat ->
     is_derive (fun t => nth i (tri_fwd ROps m loc (upd x j t)) 0) (nth j x 0) (nth j (nth i m []) 0)).
Proof. exact (conj
  (fun n F H => match H with or_introl L => detF_lower L | or_intror U => detF_upper U end)
  (conj tri_ld_det tri_fwd_jacobian)). Qed.

Lemma c02_tri_jacobian_ldj : forall (n : nat) (F : list R -> list R) (x : list R) (l : nat -> R) (J : nat -> nat -> R),
  (forall i j t, (i < j)%nat -> (j < n)%nat -> nth i (F (upd x j t)) 0 = nth i (F x) 0) ->
  (forall i, (i < n)%nat -> is_ldj (fun t => nth i (F (upd x i t)) 0) (nth i x 0) (l i)) ->
  (forall i j, (i <= j)%nat -> (j < n)%nat -> partial_at F x i j (J i j)) ->
  sum ROps (map l (seq 0 n)) = ln (Rabs (detF n J)) /\ detF n J <> 0.
Proof. exact tri_jacobian_ldj. Qed.

Lemma c02_maf_ldj_partial : forall (P : Type) (tau tld : P -> R -> R) (pvalid : P -> Prop),
  (forall p v, pvalid p -> is_ldj (tau p) v (tld p v)) ->
  forall g : list R -> nat -> P,
  (forall x x' i, length x = length x' -> (forall j, (j < i)%nat -> nth j x 0 = nth j x' 0) -> g x i = g x' i) ->
  (forall x i, pvalid (g x i)) ->
  forall x : list R,
  (forall J : nat -> nat -> R,
     (forall i j, (i <= j)%nat -> (j < length x)%nat -> partial_at (maf_fwd P tau g) x i j (J i j)) ->
     maf_ld P tld g x = ln (Rabs (detF (length x) J)) /\ detF (length x) J <> 0) /\
  (exists J : nat -> nat -> R,
     forall i j, (i <= j)%nat -> (j < length x)%nat -> partial_at (maf_fwd P tau g) x i j (J i j)).
Proof. exact (fun P tau tld pvalid H1 g H2 H3 x =>
  conj (maf_ldj P tau tld pvalid H1 g H2 H3 x) (maf_upper_exists P tau tld pvalid H1 g H2 H3 x)). Qed.

Lemma c02_coupling_ldj_partial : forall (P : Type) (tau tld : P -> R -> R) (pvalid : P -> Prop),
  (forall p v, pvalid p -> is_ldj (tau p) v (tld p v)) ->
  forall g : list R -> nat -> P, (forall xc i, pvalid (g xc i)) ->
  forall (d : nat) (x : list R) (J : nat -> nat -> R), (d <= length x)%nat ->
  (forall i j, (i <= j)%nat -> (j < length x)%nat -> partial_at (coupling_fwd P tau g d) x i j (J i j)) ->
  coupling_ld P tld g d x = ln (Rabs (detF (length x) J)) /\ detF (length x) J <> 0.
Proof. exact coupling_ldj. Qed.

Lemma c02_planar :
  (forall (n : nat) (u v : nat -> R),
     detF n (fun i j => (if Nat.eqb i j then 1 else 0) + u i * v j)
     = 1 + fold_right Rplus 0 (map (fun i => v i * u i) (seq 0 n))) /\
  (forall (w u0 : list R) (b : R) (x : list R), let n := length w in
     length u0 = n -> length x = n ->
     let u := planar_u ROps None w u0 in
     let act := planar_act ROps None (dot ROps x w + b) in
     let psi := vscale ROps (1 - act * act) w in
     let J := fun i j => (if Nat.eqb i j then 1 else 0) + nth i u 0 * nth j psi 0 in
     (forall i j, (i < n)%nat -> (j < n)%nat ->
        is_derive (fun t => nth i (planar_fwd ROps None w u0 b (upd x j t)) 0) (nth j x 0) (J i j)) /\
     planar_ld_fwd ROps None w u0 b x = ln (Rabs (detF n J)) /\ detF n J = 1 + dot ROps u psi) /\
  (forall (s : R) (w u0 : list R) (b : R) (x : list R), let n := length w in
     length u0 = n -> length x = n -> 0 < s -> dot ROps x w + b <> 0 ->
     let u := planar_u ROps (Some s) w u0 in
     let act := planar_act ROps (Some s) (dot ROps x w + b) in
     let psi := vscale ROps (if Rltb act 0 then s else 1) w in
     let J := fun i j => (if Nat.eqb i j then 1 else 0) + nth i u 0 * nth j psi 0 in
     (forall i j, (i < n)%nat -> (j < n)%nat ->
        is_derive (fun t => nth i (planar_fwd ROps (Some s) w u0 b (upd x j t)) 0) (nth j x 0) (J i j)) /\
     planar_ld_fwd ROps (Some s) w u0 b x = ln (Rabs (detF n J)) /\ detF n J = 1 + dot ROps u psi).
Proof. exact (conj detF_rank1 (conj planar_tanh_ldj planar_lrelu_ldj)). Qed.

Lemma c02_planar_det_pos : forall (ns : option R) (w u0 : list R) (b : R) (x : list R),
  length u0 = length w -> 0 < dot ROps w w ->
  match ns with Some s => 0 < s | None => True end ->
  let u := planar_u ROps ns w u0 in
  let act := planar_act ROps ns (dot ROps x w + b) in
  let psi := match ns with
             | Some s => vscale ROps (if Rltb act 0 then s else 1) w
             | None => vscale ROps (1 - act * act) w end in
  0 < 1 + dot ROps u psi.
Proof. exact planar_det_pos. Qed.

Lemma c02_compositional_partial :
  forall (n : nat) (Jac : layer (list R) -> list R -> nat -> nat -> R),
  (* jac_prod: J_n * ... * J_1 at the running values *)
  (forall l t x i k,
     jac_prod n Jac [] x i k = (if Nat.eqb i k then 1 else 0) /\
     jac_prod n Jac (l :: t) x i k =
       fold_right Rplus 0 (map (fun j => jac_prod n Jac t (l_fwd l x) i j * Jac l x j k) (seq 0 n))) /\
  (forall (ls : list (layer (list R))) (x : list R) (JC : nat -> nat -> R),
     List.Forall (fun l => forall x, l_dom l x ->
          l_ldf l x = ln (Rabs (detF n (Jac l x))) /\ detF n (Jac l x) <> 0) ls ->
     comp_dom ls x ->
     forall Hchain : (forall i j, (i < n)%nat -> (j < n)%nat -> JC i j = jac_prod n Jac ls x i j),
     snd (chain_fwd_ld ls x) = ln (Rabs (detF n JC)) /\ detF n JC <> 0).
Proof. exact (fun n Jac => conj (fun l t x i k => conj eq_refl eq_refl) (chain_ldj_vec_partial n Jac)). Qed.

Lemma c02_invert_leaves : 
  (forall loc scale y : R, scale <> 0 -> is_ldj (affine_inv ROps loc scale) y (- affine_ld ROps scale)) /\
  (forall scale y : R, scale <> 0 -> is_ldj (scale_inv ROps scale) y (- affine_ld ROps scale)) /\
  (forall loc y : R, is_ldj (loc_inv ROps loc) y 0) /\
  (forall y : R, 0 < y -> is_ldj (exp_inv ROps) y (exp_ld_inv ROps y)) /\
  (forall y : R, 0 < y -> is_ldj (softplus_inv ROps) y (softplus_ld_inv ROps y)) /\
  (forall y : R, -1 < y < 1 -> is_ldj (tanh_inv ROps) y (tanh_ld_inv ROps y)) /\
  (forall m : R, 0 < m -> forall y : R,
     is_ldj (leaky_inv ROps m (leaky_grad ROps m) (leaky_icpt ROps m)) y
            (leaky_ld_inv ROps m (leaky_grad ROps m) (leaky_icpt ROps m) y)) /\
  (* the generic step: Invert of any rank-0 layer whose codomain is open and whose inverse map is
     differentiable (the leaves above; for the spline differentiability of inverse() is not proved) *)
  (forall l : layer R, layer_ok l ->
     (forall x, l_dom l x -> is_ldj (l_fwd l) x (l_ldf l x)) ->
     (forall y, l_cod l y -> exists eps, 0 < eps /\ forall t, y - eps < t < y + eps -> l_cod l t) ->
     (forall y, l_cod l y -> exists e, is_derive (l_inv l) y e) ->
     forall y, l_cod l y -> is_ldj (l_inv l) y (l_ldi l y)).
Proof. exact (conj (fun loc scale y H => affine_inv_layer_ldj loc scale H y I)
  (conj (fun scale y H => scale_inv_layer_ldj scale H y I)
  (conj (fun loc y => loc_inv_layer_ldj loc y I)
  (conj exp_inv_layer_ldj (conj softplus_inv_layer_ldj (conj tanh_inv_layer_ldj
  (conj (fun m H y => leaky_inv_layer_ldj m H y I) invert_layer_ldj))))))). Qed.

Lemma c02_block_diagonal :
  (forall (n1 : nat) (A B : nat -> nat -> R) (i j : nat),
     blockF n1 A B i j = if (i <? n1)%nat then (if (j <? n1)%nat then A i j else 0)
                         else (if (j <? n1)%nat then 0 else B (i - n1)%nat (j - n1)%nat)) /\
  (forall (n1 n2 : nat) (A B : nat -> nat -> R), detF (n1 + n2) (blockF n1 A B) = detF n1 A * detF n2 B) /\
  (forall (n1 n2 : nat) (A B : nat -> nat -> R) (l1 l2 : R),
     l1 = ln (Rabs (detF n1 A)) -> detF n1 A <> 0 -> l2 = ln (Rabs (detF n2 B)) -> detF n2 B <> 0 ->
     l1 + l2 = ln (Rabs (detF (n1 + n2) (blockF n1 A B))) /\ detF (n1 + n2) (blockF n1 A B) <> 0).
Proof. exact (conj (fun n1 A B i j => eq_refl) (conj detF_block_diag block_diag_ldj)). Qed.
