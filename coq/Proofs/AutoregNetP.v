(* Lemmas about Model/AutoregNet.v: the REAL MaskedAutoregressive / Coupling layers (conditioner MLP included).
   Part A (any numeric carrier / any NumOps, no real numbers): the unwrapped-weights MLP is the masked MLP; output
           lengths; the concrete masked conditioner satisfies the autoregressive hypothesis of Proofs/AutoregInvP.v
           (derived from Proofs/MasksP.v: masked_mlp_dependence, the theorem behind C09_maf_params_autoregressive).
   Part B (reals): the two transformers of the factories satisfy the leaf laws for EVERY raw parameter block
           (scale = softplus(raw) + min_scale > 0;  knots / derivatives from the parameterisation give rqs_valid),
           hence inverse(transform x) = x and transform(inverse y) = y for the concrete layers, all weights.
   Part C (reals, Coquelicot): the reported log-det is the sum of the transformers' own log-derivatives and equals
           ln |det J| for the (triangular) Jacobian, via Proofs/DetPJac.v tri_jacobian_ldj. *)
From Coq Require Import List ZArith Bool Arith Lia.
From FJ Require Import Model.Num Model.Leaves Model.Autoreg Model.Masks Model.Constr Model.AutoregNet
  Proofs.MasksP Proofs.AutoregInvP.
Import ListNotations.

(* =========================================================================================== *)
(* Part A.  Structure: no algebra beyond  zero * a = zero                                       *)
(* =========================================================================================== *)

Lemma nth_0_hd {T} (l : list (list T)) : nth 0 l [] = hd [] l.
Proof. destruct l; reflexivity. Qed.
Lemma nth_S_tl {T} (l : list (list T)) k : nth (S k) l [] = nth k (tl l) [].
Proof. destruct l; [destruct k; reflexivity | reflexivity]. Qed.

Lemma jnp_repeat_length {T} (l : list T) n : length (jnp_repeat l n) = (length l * n)%nat.
Proof.
  unfold jnp_repeat. induction l as [|a l IH]; [reflexivity|].
  cbn [flat_map length]. rewrite app_length, repeat_length, IH. lia.
Qed.
Lemma maf_out_ranks_length dim np : length (maf_out_ranks dim np) = (dim * np)%nat.
Proof. unfold maf_out_ranks, arange. now rewrite jnp_repeat_length, map_length, seq_length. Qed.

Lemma chunks_Forall_length {T} n k (l : list T) : length l = (n * k)%nat -> Forall (fun p => length p = k) (chunks n k l).
Proof.
  revert l. induction n as [|n IH]; intros l Hl; cbn [chunks]; [constructor|].
  constructor.
  - rewrite firstn_length. lia.
  - apply IH. rewrite skipn_length. lia.
Qed.

Section Carrier.
  Context {A : Type} (zero : A) (add mul : A -> A -> A).
  Local Notation linear := (Masks.linear zero add mul).
  Local Notation where_mask := (Masks.where_mask zero).
  Local Notation masked_mlp := (Masks.masked_mlp zero add mul).

  (* output length of the masked network built by masked_autoregressive_mlp *)
  Lemma masked_mlp_length act rout depth : forall rin hid ws bs x,
    length (masked_mlp ws bs (mlp_masks rin hid rout depth) act x) =
    Nat.min (Nat.min (length rout) (length (nth depth ws []))) (length (nth depth bs [])).
  Proof.
    induction depth as [|d IH]; intros rin hid ws bs x.
    - rewrite mlp_masks_0. cbn [Masks.masked_mlp]. rewrite linear_length, where_mask_length.
      destruct (rank_mask_shape rin rout false) as [Hl _]. rewrite Hl, !nth_0_hd. reflexivity.
    - rewrite mlp_masks_S. cbn [Masks.masked_mlp].
      destruct (mlp_masks hid hid rout d) as [|m2 ms] eqn:E.
      + exfalso. destruct d; [rewrite mlp_masks_0 in E | rewrite mlp_masks_S in E]; discriminate.
      + rewrite <- E, IH, !nth_S_tl. reflexivity.
  Qed.

  Section MafNet.
    Variables (dim : nat) (cd : option nat) (width depth np : nat).
    Variables (ws : list (list (list A))) (bs : list (list A)) (act : A -> A).
    (* the conditioner of the layer: masked MLP, then jnp.reshape(params, (dim, -1)) *)
    Definition net_g (inp : list A) : list (list A) :=
      reshape_rows dim (masked_mlp ws bs (maf_masks dim cd width depth np) act inp).
    (* the last layer has dim * np outputs (weight rows and biases): out_size = len(out_ranks) *)
    Hypothesis Hw : length (nth depth ws []) = (dim * np)%nat.
    Hypothesis Hb : length (nth depth bs []) = (dim * np)%nat.

    Lemma net_out_length inp : length (masked_mlp ws bs (maf_masks dim cd width depth np) act inp) = (dim * np)%nat.
    Proof. unfold maf_masks. rewrite masked_mlp_length, maf_out_ranks_length, Hw, Hb. lia. Qed.
    Lemma net_g_length inp : length (net_g inp) = dim.
    Proof. unfold net_g, reshape_rows. apply chunks_length. Qed.
    Lemma net_g_blocks inp : Forall (fun p => length p = np) (net_g inp).
    Proof.
      unfold net_g, reshape_rows. rewrite net_out_length.
      destruct (Nat.eq_dec dim 0) as [E|E].
      - rewrite E at 1. constructor.
      - replace (dim * np / dim)%nat with np by (rewrite Nat.mul_comm, Nat.div_mul; lia).
        apply chunks_Forall_length. apply net_out_length.
    Qed.

    Hypothesis mul_zero_l : forall a, mul zero a = zero.

    (* THE hypothesis of AutoregInvP.maf_inv_fwd / maf_fwd_inv (and of C01_maf_inv_fwd), for the concrete network:
       block i depends on the coordinates < i (and the condition) only -- all weights, biases, activations *)
    Theorem masked_conditioner_autoregressive (d0 : A) (cond : list A) x x' i :
      length x = dim -> length x' = dim -> (forall j, (j < i)%nat -> nth j x d0 = nth j x' d0) ->
      nth_error (net_g (x ++ cond)) i = nth_error (net_g (x' ++ cond)) i.
    Proof.
      intros Hx Hx' Hag.
      destruct (Nat.lt_ge_cases i dim) as [Hi|Hi].
      2:{ assert (E : forall inp, nth_error (net_g inp) i = None) by (intros inp; apply nth_error_None; rewrite net_g_length; exact Hi).
          now rewrite !E. }
      unfold net_g, reshape_rows. rewrite !net_out_length.
      replace (dim * np / dim)%nat with np by (rewrite Nat.mul_comm, Nat.div_mul; lia).
      rewrite !nth_error_chunks by exact Hi. f_equal.
      apply nth_error_ext_eq. intros p. rewrite !nth_error_firstn', !nth_error_skipn'.
      destruct (p <? np)%nat eqn:E; [|reflexivity]. apply Nat.ltb_lt in E.
      unfold maf_masks.
      apply (masked_mlp_dependence zero add mul mul_zero_l act _ _ _ depth ws bs _ _ (Z.of_nat i)) with (r := Z.of_nat i).
      - rewrite !app_length. lia.
      - intros j r Hj Hr. destruct (maf_in_ranks_cases dim cd j r Hj) as [[Hlt ->]|[Hge [-> _]]].
        + assert (Hji : (j < i)%nat) by lia.
          rewrite !nth_error_app1 by lia.
          rewrite (nth_error_nth' x d0) by lia. rewrite (nth_error_nth' x' d0) by lia. f_equal. exact (Hag j Hji).
        + rewrite !nth_error_app2 by lia. rewrite Hx, Hx'. reflexivity.
      - apply maf_out_rank; assumption.
      - lia.
    Qed.

    (* hence, for the concrete network, ANY weights and ANY scalar transformer family (tfwd p, tinv p) that satisfies the
       leaf law on blocks of np parameters: the scan inverts the forward map, and conversely.  No real numbers involved. *)
    Section AnyTransformer.
      Variables (tfwd tinv : list A -> A -> A) (D C : A -> Prop).
      Theorem maf_net_inv_fwd_any (d0 : A) (cond x : list A) :
        (forall p v, length p = np -> D v -> tinv p (tfwd p v) = v) -> length x = dim -> Forall D x ->
        maf_inv d0 tinv net_g cond (maf_fwd tfwd net_g cond x) = x.
      Proof.
        intros L Hx HD.
        apply (maf_inv_fwd A (list A) d0 tfwd tinv net_g (fun p => length p = np) D dim cond); auto.
        - intros x0 _. apply net_g_length.
        - intros x0 _. apply net_g_blocks.
        - intros x0 x1 i H0 H1 Hag. apply (masked_conditioner_autoregressive d0); assumption.
      Qed.
      Theorem maf_net_fwd_inv_any (d0 : A) (cond y : list A) :
        (forall p v, length p = np -> C v -> tfwd p (tinv p v) = v) -> length y = dim -> Forall C y ->
        maf_fwd tfwd net_g cond (maf_inv d0 tinv net_g cond y) = y.
      Proof.
        intros L Hy HC.
        apply (maf_fwd_inv A (list A) d0 tfwd tinv net_g (fun p => length p = np) C dim cond); auto.
        - intros x0 _. apply net_g_length.
        - intros x0 _. apply net_g_blocks.
        - intros x0 x1 i H0 H1 Hag. apply (masked_conditioner_autoregressive d0); assumption.
      Qed.
    End AnyTransformer.
  End MafNet.
End Carrier.

(* ... for every NumOps record: the model's own conditioner [maf_g] *)
Section AnyOps.
  Context {A : Type} (O : NumOps A).
  Local Notation zero := (Num.c O 0).

  (* unwrap distributes: the plain MLP on the unwrapped weights IS the masked MLP on the raw weights *)
  Lemma mlp_unwrapped_is_masked act : forall masks ws bs x, (length masks <= length ws)%nat ->
    mlp O (unwrap_weights O masks ws) bs act x = Masks.masked_mlp zero (n_add O) (n_mul O) ws bs masks act x.
  Proof.
    induction masks as [|m ms IH]; intros ws bs x Hl; [reflexivity|].
    destruct ws as [|w ws]; [cbn in Hl; lia|].
    unfold unwrap_weights. cbn [combine map fst snd mlp Masks.masked_mlp hd tl].
    destruct ms as [|m2 ms]; [reflexivity|].
    destruct ws as [|w2 ws]; [cbn in Hl; lia|].
    cbn [combine map]. change (map _ (combine ms ws)) with (unwrap_weights O ms ws).
    change (Masks.where_mask zero (fst (m2, w2)) (snd (m2, w2)) :: unwrap_weights O ms ws) with (unwrap_weights O (m2 :: ms) (w2 :: ws)).
    apply IH. cbn in *. lia.
  Qed.

  Lemma maf_g_is_net_g dim cd width depth s ws bs act inp :
    maf_g O dim cd width depth s ws bs act inp = net_g zero (n_add O) (n_mul O) dim cd width depth (npar s) ws bs act inp.
  Proof. reflexivity. Qed.

  (* plain MLP (Coupling's conditioner): output length = rows of the last weight matrix / biases *)
  Lemma mlp_length act : forall ws bs x, ws <> [] ->
    length (mlp O ws bs act x) = Nat.min (length (last ws [])) (length (nth (length ws - 1) bs [])).
  Proof.
    induction ws as [|w ws IH]; intros bs x Hne; [contradiction|].
    cbn [mlp]. destruct ws as [|w2 ws].
    - cbn [last length Nat.sub]. rewrite linear_length, nth_0_hd. reflexivity.
    - rewrite IH by discriminate. cbn [length Nat.sub]. rewrite Nat.sub_0_r.
      change (last (w :: w2 :: ws) []) with (last (w2 :: ws) []).
      replace (length ws - 0)%nat with (length ws) by lia.
      rewrite (nth_S_tl bs (length ws)). reflexivity.
  Qed.
End AnyOps.

(* =========================================================================================== *)
(* Part B.  Reals: the transformers of the factories are bijections for EVERY raw block;         *)
(*          the concrete layers are inverted by their coded inverses, for all weights            *)
(* =========================================================================================== *)
From Coq Require Import Reals Lra Sorted.
From FJ Require Import Proofs.RNum Proofs.ConstrP Proofs.LeafInvP Proofs.RqsInvP.
Open Scope R_scope.

(* what the layer's constructor is handed: a well-formed transformer.  Affine: two leaves (loc, raw scale), min_scale >= 0
   (flows.py uses 1e-2).  Spline: K >= 1 knots, interval lo < hi, softmax_adjust >= 0 (the constructor rejects < 0),
   min_derivative >= 0, leaves of total size K + K + (K + 2). *)
Definition spec_ok (s : tspec R) : Prop :=
  match s with
  | TAffine ms init => length init = 2%nat /\ match ms with None => True | Some m => 0 <= m end
  | TRqs K lo hi adj md init => length init = (3 * K + 2)%nat /\ (1 <= K)%nat /\ lo < hi /\ 0 <= adj /\ 0 <= md
  end.

Lemma ravel_ctor_length init p : length (ravel_ctor ROps init p) = Nat.min (length p) (length init).
Proof. unfold ravel_ctor, Leaves.vadd, lift2. now rewrite map_length, combine_length. Qed.

(* scale = softplus(raw) [+ min_scale] > 0 for EVERY raw value *)
Lemma affine_unwrap_scale_pos ms q : match ms with None => True | Some m => 0 <= m end ->
  0 < snd (affine_unwrap ROps ms q).
Proof.
  intros Hm. unfold affine_unwrap. cbn [snd]. destruct ms as [m|].
  - pose proof (min_scale_floor m (nth 1 q (Num.c ROps 0))). lra.
  - apply softplus_pos.
Qed.

Lemma nth0_hd (l : list R) : nth 0 l 0 = hd 0 l.
Proof. destruct l; reflexivity. Qed.

(* knots by softmax/cumsum and derivatives by softplus + min_derivative satisfy rqs_valid for EVERY raw vector *)
Lemma rqs_unwrap_valid K lo hi adj md q :
  length q = (3 * K + 2)%nat -> (1 <= K)%nat -> lo < hi -> 0 <= adj -> 0 <= md ->
  rqs_valid (fst (fst (rqs_unwrap ROps K lo hi adj md q))) (snd (fst (rqs_unwrap ROps K lo hi adj md q)))
            (snd (rqs_unwrap ROps K lo hi adj md q)) lo hi.
Proof.
  intros Hq HK Hlh Hadj Hmd. unfold rqs_unwrap. cbn [fst snd].
  assert (L1 : length (firstn K q) = K) by (rewrite firstn_length; lia).
  assert (L2 : length (firstn K (skipn K q)) = K) by (rewrite firstn_length, skipn_length; lia).
  assert (L3 : length (firstn (K + 2) (skipn (K + K) q)) = (K + 2)%nat) by (rewrite firstn_length, skipn_length; lia).
  assert (N1 : firstn K q <> []) by (intros E; rewrite E in L1; cbn in L1; lia).
  assert (N2 : firstn K (skipn K q) <> []) by (intros E; rewrite E in L2; cbn in L2; lia).
  destruct (knots_valid lo hi adj _ Hlh Hadj N1) as (S1 & H1 & E1 & Len1).
  destruct (knots_valid lo hi adj _ Hlh Hadj N2) as (S2 & H2 & E2 & Len2).
  constructor; try assumption.
  - rewrite Len1. lia.
  - rewrite Len1, Len2, L1, L2. reflexivity.
  - rewrite derivs_length, Len1, L1, L3. reflexivity.
  - eapply Forall_impl; [|apply derivs_floor]. cbn. intros d Hd. lra.
Qed.

(* validity of a raw parameter block: its length (nothing else is needed) *)
Lemma t_block_affine (ms : option R) (init p : list R) : length init = 2%nat -> length p = 2%nat -> length (ravel_ctor ROps init p) = 2%nat.
Proof. intros Hi Hp. rewrite ravel_ctor_length, Hi, Hp. reflexivity. Qed.

Lemma t_rqs_valid K lo hi adj md init p :
  spec_ok (TRqs K lo hi adj md init) -> length p = npar (TRqs K lo hi adj md init) ->
  let u := rqs_unwrap ROps K lo hi adj md (ravel_ctor ROps init p) in
  rqs_valid (fst (fst u)) (snd (fst u)) (snd u) lo hi.
Proof.
  intros (Hi & HK & Hlh & Hadj & Hmd) Hp. unfold npar, t_init in Hp. cbv zeta.
  apply rqs_unwrap_valid; try assumption. rewrite ravel_ctor_length, Hp, Hi. lia.
Qed.

(* the leaf laws of the transformer built from ANY raw block of the right length *)
Theorem t_inv_fwd s p v : spec_ok s -> length p = npar s -> t_inv ROps s p (t_fwd ROps s p v) = v.
Proof.
  intros Hs Hp. destruct s as [ms init|K lo hi adj md init]; cbn [t_inv t_fwd].
  - destruct Hs as [_ Hm]. apply affine_inv_fwd. apply Rgt_not_eq, Rlt_gt, affine_unwrap_scale_pos, Hm.
  - apply rqs_inv_fwd. exact (t_rqs_valid K lo hi adj md init p Hs Hp).
Qed.
Theorem t_fwd_inv s p v : spec_ok s -> length p = npar s -> t_fwd ROps s p (t_inv ROps s p v) = v.
Proof.
  intros Hs Hp. destruct s as [ms init|K lo hi adj md init]; cbn [t_inv t_fwd].
  - destruct Hs as [_ Hm]. apply affine_fwd_inv. apply Rgt_not_eq, Rlt_gt, affine_unwrap_scale_pos, Hm.
  - apply rqs_fwd_inv. exact (t_rqs_valid K lo hi adj md init p Hs Hp).
Qed.

Lemma Forall_True {T} (l : list T) : List.Forall (fun _ => True) l.
Proof. apply Forall_forall. auto. Qed.

Section MafNetR.
  Variables (dim : nat) (cd : option nat) (width depth : nat) (s : tspec R).
  Variables (ws : list (list (list R))) (bs : list (list R)) (act : R -> R).
  Hypothesis Hs : spec_ok s.
  Hypothesis Hw : length (nth depth ws []) = (dim * npar s)%nat.
  Hypothesis Hb : length (nth depth bs []) = (dim * npar s)%nat.
  Local Notation G := (maf_g ROps dim cd width depth s ws bs act).

  Lemma maf_g_length inp : length (G inp) = dim.
  Proof. apply net_g_length. Qed.
  Lemma maf_g_blocks inp : List.Forall (fun p => length p = npar s) (G inp).
  Proof. apply (net_g_blocks (Num.c ROps 0) Rplus Rmult dim cd width depth (npar s) ws bs act Hw Hb). Qed.
  (* the hypothesis of C01_maf_inv_fwd / C01_maf_fwd_inv holds for the concrete masked conditioner *)
  Lemma maf_g_autoreg (cond x x' : list R) i : length x = dim -> length x' = dim ->
    (forall j, (j < i)%nat -> nth j x 0 = nth j x' 0) -> nth_error (G (x ++ cond)) i = nth_error (G (x' ++ cond)) i.
  Proof.
    apply (masked_conditioner_autoregressive (Num.c ROps 0) Rplus Rmult dim cd width depth (npar s) ws bs act Hw Hb Rmult_0_l 0 cond x x' i).
  Qed.

  Theorem maf_net_inv_fwd c x : length x = dim ->
    maf_inverse ROps dim cd width depth s ws bs act (maf_transform ROps dim cd width depth s ws bs act x c) c = x.
  Proof.
    intros Hx. unfold maf_inverse, maf_transform.
    apply (maf_inv_fwd R (list R) (Num.c ROps 0) (t_fwd ROps s) (t_inv ROps s) G (fun p => length p = npar s) (fun _ => True) dim (cond_list c)).
    - intros x0 _. apply maf_g_length.
    - intros x0 _. apply maf_g_blocks.
    - intros x0 x1 i H0 H1 Hag. apply maf_g_autoreg; assumption.
    - intros p v Hp _. apply t_inv_fwd; assumption.
    - exact Hx.
    - apply Forall_True.
  Qed.
  Theorem maf_net_fwd_inv c y : length y = dim ->
    maf_transform ROps dim cd width depth s ws bs act (maf_inverse ROps dim cd width depth s ws bs act y c) c = y.
  Proof.
    intros Hy. unfold maf_inverse, maf_transform.
    apply (maf_fwd_inv R (list R) (Num.c ROps 0) (t_fwd ROps s) (t_inv ROps s) G (fun p => length p = npar s) (fun _ => True) dim (cond_list c)).
    - intros x0 _. apply maf_g_length.
    - intros x0 _. apply maf_g_blocks.
    - intros x0 x1 i H0 H1 Hag. apply maf_g_autoreg; assumption.
    - intros p v Hp _. apply t_fwd_inv; assumption.
    - exact Hy.
    - apply Forall_True.
  Qed.
  (* the point returned by the ..._and_log_det methods is the point of the plain methods (by construction) *)
  Lemma maf_and_log_det_points x c :
    fst (maf_transform_and_log_det ROps dim cd width depth s ws bs act x c) = maf_transform ROps dim cd width depth s ws bs act x c /\
    fst (maf_inverse_and_log_det ROps dim cd width depth s ws bs act x c) = maf_inverse ROps dim cd width depth s ws bs act x c.
  Proof. split; reflexivity. Qed.
End MafNetR.

Lemma reshape_rows_blocks {T} n np (l : list T) : length l = (n * np)%nat ->
  List.Forall (fun p => length p = np) (reshape_rows n l).
Proof.
  intros Hl. unfold reshape_rows. destruct (Nat.eq_dec n 0) as [->|E]; [constructor|].
  rewrite Hl. replace (n * np / n)%nat with np by (rewrite Nat.mul_comm, Nat.div_mul; lia).
  apply chunks_Forall_length. exact Hl.
Qed.

Section CouplingNetR.
  Variables (ud dim : nat) (s : tspec R).
  Variables (ws : list (list (list R))) (bs : list (list R)) (act : R -> R).
  Hypothesis Hs : spec_ok s.
  Hypothesis Hud : (ud <= dim)%nat.
  (* an ARBITRARY (unmasked) MLP whose last layer has (dim - ud) * num_params outputs *)
  Hypothesis Hne : ws <> [].
  Hypothesis Hw : length (last ws []) = ((dim - ud) * npar s)%nat.
  Hypothesis Hb : length (nth (length ws - 1) bs []) = ((dim - ud) * npar s)%nat.
  Local Notation G := (coup_g ROps ud dim ws bs act).

  Lemma coup_g_length inp : length (G inp) = (dim - ud)%nat.
  Proof. unfold coup_g, reshape_rows. apply chunks_length. Qed.
  Lemma coup_g_blocks inp : List.Forall (fun p => length p = npar s) (G inp).
  Proof.
    unfold coup_g. apply reshape_rows_blocks. unfold coup_cond_net. rewrite mlp_length by exact Hne. rewrite Hw, Hb. lia.
  Qed.

  Theorem coupling_net_inv_fwd c x : length x = dim ->
    coup_inverse ROps ud dim s ws bs act (coup_transform ROps ud dim s ws bs act x c) c = x.
  Proof.
    intros Hx. unfold coup_inverse, coup_transform.
    apply (coupling_inv_fwd (t_fwd ROps s) (t_inv ROps s) G (fun p => length p = npar s) (fun _ => True) ud (cond_list c)).
    - lia.
    - rewrite coup_g_length. lia.
    - apply coup_g_blocks.
    - intros p v Hp _. apply t_inv_fwd; assumption.
    - apply Forall_True.
  Qed.
  Theorem coupling_net_fwd_inv c y : length y = dim ->
    coup_transform ROps ud dim s ws bs act (coup_inverse ROps ud dim s ws bs act y c) c = y.
  Proof.
    intros Hy. unfold coup_inverse, coup_transform.
    apply (coupling_fwd_inv (t_fwd ROps s) (t_inv ROps s) G (fun p => length p = npar s) (fun _ => True) ud (cond_list c)).
    - lia.
    - rewrite coup_g_length. lia.
    - apply coup_g_blocks.
    - intros p v Hp _. apply t_fwd_inv; assumption.
    - apply Forall_True.
  Qed.
End CouplingNetR.

(* =========================================================================================== *)
(* Part C.  Log-determinants of the concrete layers                                              *)
(* =========================================================================================== *)
From Coquelicot Require Import Coquelicot.
From FJ Require Import Proofs.LeafDerivP Proofs.RqsDerivP Proofs.DetP Proofs.DetPJac.

(* where the scalar transformer is differentiable: everywhere (Affine); everywhere but the two interval ends (spline:
   the map has a kink there unless the end derivative is 1, see C02_rqs_interval_ends) *)
Definition t_dom (s : tspec R) (v : R) : Prop :=
  match s with TAffine _ _ => True | TRqs _ lo hi _ _ _ => v <> lo /\ v <> hi end.

(* Proofs/RqsInvP.v and Proofs/RqsDerivP.v each declare the validity record (same ten fields) *)
Lemma rqs_valid_deriv xp yp dv lo hi : RqsInvP.rqs_valid xp yp dv lo hi -> RqsDerivP.rqs_valid xp yp dv lo hi.
Proof. intros [a b c d e f g h i j]. constructor; assumption. Qed.

(* the log-det the transformer reports is ln |d/dx| of the map it computes, for EVERY raw block *)
Theorem t_ldj s p v : spec_ok s -> length p = npar s -> t_dom s v ->
  is_ldj (t_fwd ROps s p) v (t_ld_fwd ROps s p v).
Proof.
  intros Hs Hp Hd. destruct s as [ms init|K lo hi adj md init]; cbn [t_fwd t_ld_fwd].
  - destruct Hs as [_ Hm]. apply affine_ldj. apply Rgt_not_eq, Rlt_gt, affine_unwrap_scale_pos, Hm.
  - destruct Hd as [Hlo Hhi]. apply rqs_ldj; [|exact Hlo|exact Hhi]. apply rqs_valid_deriv. exact (t_rqs_valid K lo hi adj md init p Hs Hp).
Qed.
(* the transformer's inverse log-det is minus the forward one at the inverse image (as coded) *)
Lemma t_ld_inv_law s p y : t_ld_inv ROps s p y = - t_ld_fwd ROps s p (t_inv ROps s p y).
Proof. destruct s; reflexivity. Qed.

Lemma nth_of_nth_error {T} (l l' : list T) i d : nth_error l i = nth_error l' i -> nth i l d = nth i l' d.
Proof.
  intros H. destruct (nth_error l i) as [a|] eqn:E.
  - symmetry in H. now rewrite (nth_error_nth _ _ d E), (nth_error_nth _ _ d H).
  - symmetry in H. apply nth_error_None in E, H. now rewrite !nth_overflow.
Qed.
Lemma nth_skipn_R (l : list R) k i : nth i (skipn k l) 0 = nth (k + i) l 0.
Proof.
  revert l. induction k as [|k IH]; intros l; [reflexivity|]. destruct l as [|a l]; [destruct i; reflexivity|]. apply IH.
Qed.

(* Vmap's jnp.sum(log_det) as a sum over the coordinate index *)
Lemma vmap_ld_seq (ld : list R -> R -> R) : forall blocks xs n, length blocks = n -> length xs = n ->
  vmap_ld ROps ld blocks xs = sum ROps (map (fun i => ld (nth i blocks []) (nth i xs 0)) (seq 0 n)).
Proof.
  unfold vmap_ld. intros blocks xs n Hb Hx. f_equal. revert xs n Hb Hx.
  induction blocks as [|b blocks IH]; intros [|x xs] [|n] Hb Hx; cbn in Hb, Hx; try discriminate; [reflexivity|].
  cbn [combine map seq fst snd nth]. f_equal. rewrite <- seq_shift, map_map. apply IH; lia.
Qed.

Section MafLdj.
  Variables (dim : nat) (cd : option nat) (width depth : nat) (s : tspec R).
  Variables (ws : list (list (list R))) (bs : list (list R)) (act : R -> R) (c : option (list R)).
  Hypothesis Hs : spec_ok s.
  Hypothesis Hw : length (nth depth ws []) = (dim * npar s)%nat.
  Hypothesis Hb : length (nth depth bs []) = (dim * npar s)%nat.
  Local Notation G := (maf_g ROps dim cd width depth s ws bs act).
  Local Notation F := (fun v => maf_transform ROps dim cd width depth s ws bs act v c).
  (* the raw parameter block of coordinate i at the point x *)
  Definition maf_block (x : list R) (i : nat) : list R := nth i (G (x ++ cond_list c)) [].

  Lemma maf_block_length x i : (i < dim)%nat -> length (maf_block x i) = npar s.
  Proof.
    intros Hi. unfold maf_block.
    assert (HB : List.Forall (fun p => length p = npar s) (G (x ++ cond_list c))) by (apply maf_g_blocks; assumption).
    rewrite Forall_forall in HB.
    apply HB, nth_In. rewrite maf_g_length. exact Hi.
  Qed.
  (* ... depends on the coordinates < i only *)
  Lemma maf_block_indep x x' i : length x = dim -> length x' = dim ->
    (forall j, (j < i)%nat -> nth j x 0 = nth j x' 0) -> maf_block x i = maf_block x' i.
  Proof.
    intros Hx Hx' Hag. unfold maf_block. apply nth_of_nth_error.
    apply (maf_g_autoreg dim cd width depth s ws bs act Hw Hb (cond_list c) x x' i Hx Hx' Hag).
  Qed.
  Lemma maf_nth v i : length v = dim -> (i < dim)%nat ->
    nth i (maf_transform ROps dim cd width depth s ws bs act v c) 0 = t_fwd ROps s (maf_block v i) (nth i v 0).
  Proof.
    intros Hv Hi. unfold maf_transform, Autoreg.maf_fwd.
    apply (vmap_t_nth 0 (t_fwd ROps s)); [|lia].
    unfold maf_block. apply nth_error_nth'. rewrite maf_g_length. exact Hi.
  Qed.
  Lemma maf_log_det_sum x : length x = dim ->
    maf_log_det ROps dim cd width depth s ws bs act x c =
    sum ROps (map (fun i => t_ld_fwd ROps s (maf_block x i) (nth i x 0)) (seq 0 dim)).
  Proof. intros Hx. unfold maf_log_det, maf_block. apply vmap_ld_seq; [apply maf_g_length | exact Hx]. Qed.

  Lemma maf_net_nondep x i j t : length x = dim -> (i < j)%nat -> (j < dim)%nat ->
    nth i (F (DetPJac.upd x j t)) 0 = nth i (F x) 0.
  Proof.
    intros Hx Hij Hj. cbv beta.
    rewrite !maf_nth by (try rewrite DetPJac.upd_length; lia).
    rewrite DetPJac.nth_upd_other by lia. f_equal.
    apply maf_block_indep; [rewrite DetPJac.upd_length; lia | exact Hx|].
    intros k Hk. apply DetPJac.nth_upd_other; lia.
  Qed.
  Lemma maf_net_own x i : length x = dim -> (i < dim)%nat -> t_dom s (nth i x 0) ->
    is_ldj (fun t => nth i (F (DetPJac.upd x i t)) 0) (nth i x 0) (t_ld_fwd ROps s (maf_block x i) (nth i x 0)).
  Proof.
    intros Hx Hi Hd.
    destruct (t_ldj s (maf_block x i) (nth i x 0) Hs (maf_block_length x i Hi) Hd) as [d [D [N L]]].
    exists d. split; [|auto].
    apply (is_derive_ext (t_fwd ROps s (maf_block x i))); [|exact D].
    intros t. cbv beta. rewrite maf_nth by (try rewrite DetPJac.upd_length; lia).
    rewrite DetPJac.nth_upd_same by lia. f_equal.
    apply maf_block_indep; [exact Hx | rewrite DetPJac.upd_length; lia|].
    intros k Hk. symmetry. apply DetPJac.nth_upd_other; lia.
  Qed.

  (* MAIN: the reported log-det = sum over coordinates of the transformer's own ln|dy_i/dx_i| at parameters that depend on
     x_<i only = ln |det J| for every matrix J whose entries on and above the diagonal are the partial derivatives *)
  Theorem maf_net_ldj x (J : nat -> nat -> R) : length x = dim -> List.Forall (t_dom s) x ->
    (forall i j, (i <= j)%nat -> (j < dim)%nat -> partial_at F x i j (J i j)) ->
    maf_log_det ROps dim cd width depth s ws bs act x c = ln (Rabs (detF dim J)) /\ detF dim J <> 0.
  Proof.
    intros Hx Hd HJ. rewrite (maf_log_det_sum x Hx).
    apply (tri_jacobian_ldj dim F x (fun i => t_ld_fwd ROps s (maf_block x i) (nth i x 0)) J); [| |exact HJ].
    - intros i j t Hij Hj. apply maf_net_nondep; assumption.
    - intros i Hi. apply maf_net_own; [exact Hx | exact Hi|].
      rewrite Forall_forall in Hd. apply Hd, nth_In. lia.
  Qed.
  (* the hypothesis on J is never vacuous *)
  Theorem maf_net_jacobian_exists x : length x = dim -> List.Forall (t_dom s) x ->
    exists J, forall i j, (i <= j)%nat -> (j < dim)%nat -> partial_at F x i j (J i j).
  Proof.
    intros Hx Hd.
    apply (tri_upper_exists dim F x (fun i => t_ld_fwd ROps s (maf_block x i) (nth i x 0))).
    - intros i j t Hij Hj. apply maf_net_nondep; assumption.
    - intros i Hi. apply maf_net_own; [exact Hx | exact Hi|].
      rewrite Forall_forall in Hd. apply Hd, nth_In. lia.
  Qed.
  (* inverse_and_log_det: minus the forward log-det at the returned point (as coded) *)
  Lemma maf_inverse_log_det_law y :
    snd (maf_inverse_and_log_det ROps dim cd width depth s ws bs act y c) =
    - maf_log_det ROps dim cd width depth s ws bs act (maf_inverse ROps dim cd width depth s ws bs act y c) c.
  Proof. reflexivity. Qed.
End MafLdj.

Section CouplingLdj.
  Variables (ud dim : nat) (s : tspec R).
  Variables (ws : list (list (list R))) (bs : list (list R)) (act : R -> R) (c : option (list R)).
  Hypothesis Hs : spec_ok s.
  Hypothesis Hud : (ud <= dim)%nat.
  Hypothesis Hne : ws <> [].
  Hypothesis Hw : length (last ws []) = ((dim - ud) * npar s)%nat.
  Hypothesis Hb : length (nth (length ws - 1) bs []) = ((dim - ud) * npar s)%nat.
  Local Notation G := (coup_g ROps ud dim ws bs act).
  Local Notation F := (fun v => coup_transform ROps ud dim s ws bs act v c).
  (* the raw parameter block of transformed coordinate i >= ud: a function of x[:ud] (and the condition) only *)
  Definition coup_block (x : list R) (i : nat) : list R := nth (i - ud) (G (firstn ud x ++ cond_list c)) [].

  Lemma coup_block_length x i : (ud <= i)%nat -> (i < dim)%nat -> length (coup_block x i) = npar s.
  Proof.
    intros H1 H2. unfold coup_block.
    assert (HB : List.Forall (fun p => length p = npar s) (G (firstn ud x ++ cond_list c))) by (apply coup_g_blocks; assumption).
    rewrite Forall_forall in HB.
    apply HB, nth_In. rewrite coup_g_length. lia.
  Qed.
  Lemma coup_nth_lo v i : length v = dim -> (i < ud)%nat -> nth i (coup_transform ROps ud dim s ws bs act v c) 0 = nth i v 0.
  Proof.
    intros Hv Hi. unfold coup_transform, Autoreg.coupling_fwd. cbv zeta. rewrite app_nth1 by (rewrite firstn_length; lia).
    rewrite <- (firstn_skipn ud v) at 2. rewrite app_nth1 by (rewrite firstn_length; lia). reflexivity.
  Qed.
  Lemma coup_nth_hi v i : length v = dim -> (ud <= i)%nat -> (i < dim)%nat ->
    nth i (coup_transform ROps ud dim s ws bs act v c) 0 = t_fwd ROps s (coup_block v i) (nth i v 0).
  Proof.
    intros Hv H1 H2. unfold coup_transform, Autoreg.coupling_fwd. cbv zeta. rewrite app_nth2; rewrite firstn_length; [|lia].
    replace (Nat.min ud (length v)) with ud by lia.
    rewrite (vmap_t_nth 0 (t_fwd ROps s) _ _ (i - ud) (coup_block v i)).
    - rewrite nth_skipn_R. now replace (ud + (i - ud))%nat with i by lia.
    - unfold coup_block. apply nth_error_nth'. rewrite coup_g_length. lia.
    - rewrite skipn_length. lia.
  Qed.
  Lemma coup_log_det_sum x : length x = dim ->
    coup_log_det ROps ud dim s ws bs act x c =
    sum ROps (map (fun i => if (i <? ud)%nat then 0 else t_ld_fwd ROps s (coup_block x i) (nth i x 0)) (seq 0 dim)).
  Proof.
    intros Hx. replace (seq 0 dim) with (seq 0 (ud + (dim - ud))) by (f_equal; lia). rewrite sum_zero_prefix.
    - unfold coup_log_det. rewrite (vmap_ld_seq _ _ _ (dim - ud)%nat) by (rewrite ?coup_g_length, ?skipn_length; lia).
      f_equal. apply map_ext. intros i. destruct (Nat.ltb_spec (ud + i) ud); [lia|].
      unfold coup_block. replace (ud + i - ud)%nat with i by lia. now rewrite nth_skipn_R.
    - intros i Hi. destruct (Nat.ltb_spec i ud); [reflexivity|lia].
  Qed.
  Lemma coup_block_upd x i j t : length x = dim -> (ud <= j)%nat -> (j < dim)%nat ->
    coup_block (DetPJac.upd x j t) i = coup_block x i.
  Proof. intros Hx H1 H2. unfold coup_block. rewrite firstn_upd by lia. reflexivity. Qed.

  Theorem coupling_net_ldj x (J : nat -> nat -> R) : length x = dim -> List.Forall (t_dom s) (skipn ud x) ->
    (forall i j, (i <= j)%nat -> (j < dim)%nat -> partial_at F x i j (J i j)) ->
    coup_log_det ROps ud dim s ws bs act x c = ln (Rabs (detF dim J)) /\ detF dim J <> 0.
  Proof.
    intros Hx Hd HJ. rewrite (coup_log_det_sum x Hx).
    apply (tri_jacobian_ldj dim F x _ J); [| |exact HJ].
    - intros i j t Hij Hj. cbv beta. destruct (Nat.lt_ge_cases i ud) as [Hi|Hi].
      + rewrite !coup_nth_lo by (try rewrite DetPJac.upd_length; lia). apply DetPJac.nth_upd_other; lia.
      + rewrite !coup_nth_hi by (try rewrite DetPJac.upd_length; lia).
        rewrite coup_block_upd by lia. rewrite DetPJac.nth_upd_other by lia. reflexivity.
    - intros i Hi. destruct (Nat.ltb_spec i ud) as [Hlt|Hge].
      + exists 1. split; [|split; [lra | now rewrite Rabs_R1, ln_1]].
        apply (is_derive_ext (fun t => t)); [|auto_derive; [exact I | ring]].
        intros t. cbv beta. rewrite coup_nth_lo by (try rewrite DetPJac.upd_length; lia). now rewrite DetPJac.nth_upd_same by lia.
      + assert (Hdi : t_dom s (nth i x 0)).
        { rewrite Forall_forall in Hd. replace i with (ud + (i - ud))%nat by lia. rewrite <- nth_skipn_R.
          apply Hd, nth_In. rewrite skipn_length. lia. }
        destruct (t_ldj s (coup_block x i) (nth i x 0) Hs (coup_block_length x i Hge Hi) Hdi) as [d [D [N L]]].
        exists d. split; [|auto].
        apply (is_derive_ext (t_fwd ROps s (coup_block x i))); [|exact D].
        intros t. cbv beta. rewrite coup_nth_hi by (try rewrite DetPJac.upd_length; lia).
        rewrite coup_block_upd by lia. now rewrite DetPJac.nth_upd_same by lia.
  Qed.
End CouplingLdj.

(* =========================================================================================== *)
(* Part D.  Remaining facts and the statements in the form Props/X01_autoreg.v cites             *)
(* =========================================================================================== *)

(* Coupling.inverse_and_log_det sums the transformers' own inverse log-dets: that is minus the forward log-det
   at the returned point *)
Lemma vmap_ld_inv_law s : forall B yt,
  vmap_ld ROps (t_ld_inv ROps s) B yt = - vmap_ld ROps (t_ld_fwd ROps s) B (vmap_t (t_inv ROps s) B yt).
Proof.
  unfold vmap_ld, vmap_t. induction B as [|b B IH]; intros [|y yt]; cbn [combine map fst snd];
    rewrite ?sum_R_nil, ?sum_R_cons; try lra.
  rewrite IH, t_ld_inv_law. lra.
Qed.
Lemma coup_inverse_log_det_law ud dim s ws bs act c y : (ud <= length y)%nat ->
  snd (coup_inverse_and_log_det ROps ud dim s ws bs act y c) =
  - coup_log_det ROps ud dim s ws bs act (coup_inverse ROps ud dim s ws bs act y c) c.
Proof.
  intros Hud. cbn [snd coup_inverse_and_log_det]. unfold coup_inv_log_det, coup_log_det, coup_inverse, Autoreg.coupling_inv. cbv zeta.
  assert (Hf : length (firstn ud y) = ud) by (rewrite firstn_length; lia).
  rewrite firstn_app, Hf, Nat.sub_diag, firstn_O, app_nil_r, firstn_firstn, Nat.min_id.
  rewrite skipn_app, Hf, Nat.sub_diag. cbn [skipn].
  rewrite (skipn_all2 (firstn ud y)) by lia. cbn [app].
  apply vmap_ld_inv_law.
Qed.

(* get_ravelled_pytree_constructor's docstring: "calling the constructor at the zero vector returns the initial pytree" *)
Lemma ctor_at_zero (init : list R) : ravel_ctor ROps init (repeat 0 (length init)) = init.
Proof.
  unfold ravel_ctor, Leaves.vadd, lift2. induction init as [|a init IH]; [reflexivity|].
  cbn [length repeat combine map fst snd]. rewrite IH. f_equal. cbn. ring.
Qed.

(* the masks of masked_autoregressive_mlp: one per layer *)
Lemma maf_masks_length dim cd width depth np : length (maf_masks dim cd width depth np) = S depth.
Proof. unfold maf_masks, mlp_masks. now rewrite map_length, seq_length. Qed.
(* the layer evaluated from the UNWRAPPED weights (what the code runs) is the layer evaluated from the raw weights *)
Lemma maf_unwrapped_is_masked {A} (O : NumOps A) dim cd width depth s ws bs act inp : length ws = S depth ->
  maf_cond_net_unwrapped O (unwrap_weights O (maf_masks dim cd width depth (npar s)) ws) bs act inp =
  maf_cond_net O dim cd width depth s ws bs act inp.
Proof.
  intros Hl. unfold maf_cond_net_unwrapped, maf_cond_net. apply mlp_unwrapped_is_masked. rewrite maf_masks_length, Hl. lia.
Qed.

(* ---- grouped statements ---- *)
Lemma x01_conditioner_shapes : forall (A : Type) (zero : A) (add mul : A -> A -> A) (dim : nat) (cd : option nat)
    (width depth np : nat) (ws : list (list (list A))) (bs : list (list A)) (act : A -> A),
  length (nth depth ws []) = (dim * np)%nat -> length (nth depth bs []) = (dim * np)%nat ->
  forall inp, length (net_g zero add mul dim cd width depth np ws bs act inp) = dim /\
              List.Forall (fun p => length p = np) (net_g zero add mul dim cd width depth np ws bs act inp).
Proof. intros. split; [apply net_g_length | apply net_g_blocks; assumption]. Qed.

Lemma x01_transformer_valid :
  (forall ms q, match ms with None => True | Some m => 0 <= m end -> 0 < snd (affine_unwrap ROps ms q)) /\
  (forall K lo hi adj md q, length q = (3 * K + 2)%nat -> (1 <= K)%nat -> lo < hi -> 0 <= adj -> 0 <= md ->
     RqsInvP.rqs_valid (fst (fst (rqs_unwrap ROps K lo hi adj md q))) (snd (fst (rqs_unwrap ROps K lo hi adj md q)))
                       (snd (rqs_unwrap ROps K lo hi adj md q)) lo hi).
Proof. split; [exact affine_unwrap_scale_pos | exact rqs_unwrap_valid]. Qed.

Lemma x01_transformer_leaf_laws : forall s p, spec_ok s -> length p = npar s ->
  (forall v, t_inv ROps s p (t_fwd ROps s p v) = v) /\ (forall v, t_fwd ROps s p (t_inv ROps s p v) = v).
Proof. intros s p Hs Hp. split; intros v; [apply t_inv_fwd | apply t_fwd_inv]; assumption. Qed.

Lemma x01_and_log_det_points :
  (forall dim cd width depth s ws bs act x c,
     fst (maf_transform_and_log_det ROps dim cd width depth s ws bs act x c) = maf_transform ROps dim cd width depth s ws bs act x c /\
     fst (maf_inverse_and_log_det ROps dim cd width depth s ws bs act x c) = maf_inverse ROps dim cd width depth s ws bs act x c) /\
  (forall ud dim s ws bs act x c,
     fst (coup_transform_and_log_det ROps ud dim s ws bs act x c) = coup_transform ROps ud dim s ws bs act x c /\
     fst (coup_inverse_and_log_det ROps ud dim s ws bs act x c) = coup_inverse ROps ud dim s ws bs act x c).
Proof. split; intros; split; reflexivity. Qed.

Lemma x01_transformer_ldj : forall s p, spec_ok s -> length p = npar s ->
  (forall v, t_dom s v -> is_ldj (t_fwd ROps s p) v (t_ld_fwd ROps s p v)) /\
  (forall y, t_ld_inv ROps s p y = - t_ld_fwd ROps s p (t_inv ROps s p y)).
Proof. intros s p Hs Hp. split; [intros v Hd; apply t_ldj; assumption | intros y; apply t_ld_inv_law]. Qed.

Lemma x01_maf_net_ldj : forall dim cd width depth s ws bs act c, spec_ok s ->
  length (nth depth ws []) = (dim * npar s)%nat -> length (nth depth bs []) = (dim * npar s)%nat ->
  let F := fun v => maf_transform ROps dim cd width depth s ws bs act v c in
  let blk := maf_block dim cd width depth s ws bs act c in
  forall x, length x = dim ->
  (* reported log-det = sum of the transformers' own log-dets, coordinate by coordinate *)
  maf_log_det ROps dim cd width depth s ws bs act x c = sum ROps (map (fun i => t_ld_fwd ROps s (blk x i) (nth i x 0)) (seq 0 dim)) /\
  (* at parameter blocks that depend on x_<i only *)
  (forall x' i, length x' = dim -> (forall j, (j < i)%nat -> nth j x 0 = nth j x' 0) -> blk x i = blk x' i) /\
  (forall i, (i < dim)%nat -> nth i (F x) 0 = t_fwd ROps s (blk x i) (nth i x 0)) /\
  (List.Forall (t_dom s) x ->
     (* y_i does not depend on x_j, j > i; own-coordinate log-derivative = the transformer's reported log-det *)
     (forall i j t, (i < j)%nat -> (j < dim)%nat -> nth i (F (DetPJac.upd x j t)) 0 = nth i (F x) 0) /\
     (forall i, (i < dim)%nat -> is_ldj (fun t => nth i (F (DetPJac.upd x i t)) 0) (nth i x 0) (t_ld_fwd ROps s (blk x i) (nth i x 0))) /\
     (* hence ln |det J| for every J whose entries on and above the diagonal are the partial derivatives; such J exist *)
     (forall J, (forall i j, (i <= j)%nat -> (j < dim)%nat -> partial_at F x i j (J i j)) ->
        maf_log_det ROps dim cd width depth s ws bs act x c = ln (Rabs (detF dim J)) /\ detF dim J <> 0) /\
     (exists J, forall i j, (i <= j)%nat -> (j < dim)%nat -> partial_at F x i j (J i j))).
Proof.
  intros dim cd width depth s ws bs act c Hs Hw Hb F blk x Hx. subst F blk. cbv beta.
  split; [apply (maf_log_det_sum dim cd width depth s ws bs act c); assumption|].
  split; [intros x' i Hx' Hag; apply (maf_block_indep dim cd width depth s ws bs act c); assumption|].
  split; [intros i Hi; apply (maf_nth dim cd width depth s ws bs act c); assumption|].
  intros Hd. split; [intros i j t Hij Hj; apply (maf_net_nondep dim cd width depth s ws bs act c); assumption|].
  split.
  { intros i Hi. apply (maf_net_own dim cd width depth s ws bs act c); try assumption.
    rewrite Forall_forall in Hd. apply Hd, nth_In. lia. }
  split; [intros J HJ; apply (maf_net_ldj dim cd width depth s ws bs act c); assumption
         | apply (maf_net_jacobian_exists dim cd width depth s ws bs act c); assumption].
Qed.

Lemma x01_coupling_net_ldj : forall ud dim s ws bs act c, spec_ok s -> (ud <= dim)%nat -> ws <> [] ->
  length (last ws []) = ((dim - ud) * npar s)%nat -> length (nth (length ws - 1) bs []) = ((dim - ud) * npar s)%nat ->
  let F := fun v => coup_transform ROps ud dim s ws bs act v c in
  let blk := coup_block ud dim ws bs act c in
  forall x, length x = dim ->
  coup_log_det ROps ud dim s ws bs act x c =
    sum ROps (map (fun i => if (i <? ud)%nat then 0 else t_ld_fwd ROps s (blk x i) (nth i x 0)) (seq 0 dim)) /\
  (forall i, (i < ud)%nat -> nth i (F x) 0 = nth i x 0) /\
  (forall i, (ud <= i)%nat -> (i < dim)%nat -> nth i (F x) 0 = t_fwd ROps s (blk x i) (nth i x 0)) /\
  (forall i j t, (ud <= j)%nat -> (j < dim)%nat -> blk (DetPJac.upd x j t) i = blk x i) /\
  (List.Forall (t_dom s) (skipn ud x) ->
     forall J, (forall i j, (i <= j)%nat -> (j < dim)%nat -> partial_at F x i j (J i j)) ->
       coup_log_det ROps ud dim s ws bs act x c = ln (Rabs (detF dim J)) /\ detF dim J <> 0).
Proof.
  intros ud dim s ws bs act c Hs Hud Hne Hw Hb F blk x Hx. subst F blk. cbv beta.
  split; [apply (coup_log_det_sum ud dim s ws bs act c); assumption|].
  split; [intros i Hi; apply (coup_nth_lo ud dim s ws bs act c); assumption|].
  split; [intros i H1 H2; apply (coup_nth_hi ud dim s ws bs act c); assumption|].
  split; [intros i j t H1 H2; apply (coup_block_upd ud dim s ws bs act c); assumption|].
  intros Hd J HJ. apply (coupling_net_ldj ud dim s ws bs act c); assumption.
Qed.

Lemma x01_inverse_log_det_law :
  (forall dim cd width depth s ws bs act c y,
     snd (maf_inverse_and_log_det ROps dim cd width depth s ws bs act y c) =
     - maf_log_det ROps dim cd width depth s ws bs act (maf_inverse ROps dim cd width depth s ws bs act y c) c) /\
  (forall ud dim s ws bs act c y, (ud <= length y)%nat ->
     snd (coup_inverse_and_log_det ROps ud dim s ws bs act y c) =
     - coup_log_det ROps ud dim s ws bs act (coup_inverse ROps ud dim s ws bs act y c) c).
Proof. split; [intros; reflexivity | intros; apply coup_inverse_log_det_law; assumption]. Qed.

(* ---- non-vacuity material ---- *)
(* an integer-valued masked network, dim 2, width 2, depth 1, two parameters per coordinate; raw weights are NON-zero
   at masked positions *)
Definition ex_wsZ : list (list (list Z)) := [[[2; 7]; [3; 5]]; [[1; 1]; [2; -1]; [1; 3]; [4; 5]]]%Z.
Definition ex_bsZ : list (list Z) := [[0; 1]; [1; 0; -1; 2]]%Z.
Definition ex_netZ (x : list Z) : list (list Z) := net_g 0%Z Z.add Z.mul 2 None 2 1 2 ex_wsZ ex_bsZ (fun v => Z.max v 0) x.
(* the same shapes over R, with the factory's affine transformer perturbed away from its initial parameters *)
Definition ex_wsR : list (list (list R)) := [[[2; 7]; [3; 5]]; [[1; 1]; [2; -1]; [1; 3]; [4; 5]]].
Definition ex_bsR : list (list R) := [[0; 1]; [1; 0; -1; 2]].
Definition ex_aff : tspec R := TAffine (Some (1 / 100)) [1 / 4; -3].
Definition ex_rqs : tspec R := TRqs 3 (-2) 3 (1 / 100) (1 / 1000) [1; -1; 0; 2; 0; -2; 0; 1; -1; 3; 1 / 2].
Lemma ex_aff_ok : spec_ok ex_aff. Proof. cbn. split; [reflexivity|lra]. Qed.
Lemma ex_rqs_ok : spec_ok ex_rqs. Proof. cbn. repeat split; try lra; lia. Qed.
(* a depth-0 conditioner with one input and 11 outputs (the parameter count of a 3-knot spline) *)
Definition ex_w11 : list (list R) := map (fun v : R => v :: nil) [1; -1; 2; 0; 1 / 2; -2; 3; 1; -1; 1 / 4; 5].
Definition ex_b11 : list R := [0; 1; -1; 2; 0; -2; 1; 0; 3; -1; 1 / 2].
