(* C04 -- flow densities integrate to one (one dimension), Coquelicot.
   Part A: change of variables for an increasing / decreasing C1 bijection of R onto R
           (promoted from design_probes/Int1d.v, extended to the decreasing case).
   Part B: [diffeo]: C1, derivative of constant sign, limits -+infinity; closed under composition and
           under taking the inverse (an inverse function theorem for this class, proved here).
   Part C: the layers of the 1-D expression language of Model/Dist.v that are onto R (Affine / Loc / Scale /
           LeakyTanh, Invert and Chain of those) are diffeos whose reported log-det is ln|derivative|;
           hence exp(log_prob) of Transformed(base, b) integrates to one.  Tanh is NOT such a map.
   What is not proved is named at the end of the file. *)
From Coq Require Import Reals List ZArith Bool Lra Lia.
From Coquelicot Require Import Coquelicot.
From FJ Require Proofs.LeafInvP Proofs.RqsInvP.
From FJ Require Import Model.Num Model.Leaves Model.Dist Proofs.RNum Proofs.LeafDerivP Proofs.DistP.
Import ListNotations.
Open Scope R_scope.

(* ------------------------------------------------------------------------------------ *)
(* limits at infinity, in epsilon-free form                                               *)
(* ------------------------------------------------------------------------------------ *)
Lemma lim_pp_intro (f : R -> R) : (forall M, exists N, forall x, N < x -> M < f x) ->
  filterlim f (Rbar_locally p_infty) (Rbar_locally p_infty).
Proof. intros H P [M HM]. destruct (H M) as [N HN]. exists N. intros x Hx. apply HM, HN, Hx. Qed.
Lemma lim_mm_intro (f : R -> R) : (forall M, exists N, forall x, x < N -> f x < M) ->
  filterlim f (Rbar_locally m_infty) (Rbar_locally m_infty).
Proof. intros H P [M HM]. destruct (H M) as [N HN]. exists N. intros x Hx. apply HM, HN, Hx. Qed.
Lemma lim_pm_intro (f : R -> R) : (forall M, exists N, forall x, N < x -> f x < M) ->
  filterlim f (Rbar_locally p_infty) (Rbar_locally m_infty).
Proof. intros H P [M HM]. destruct (H M) as [N HN]. exists N. intros x Hx. apply HM, HN, Hx. Qed.
Lemma lim_mp_intro (f : R -> R) : (forall M, exists N, forall x, x < N -> M < f x) ->
  filterlim f (Rbar_locally m_infty) (Rbar_locally p_infty).
Proof. intros H P [M HM]. destruct (H M) as [N HN]. exists N. intros x Hx. apply HM, HN, Hx. Qed.
Lemma lim_pp_elim (f : R -> R) : filterlim f (Rbar_locally p_infty) (Rbar_locally p_infty) ->
  forall M, exists N, forall x, N < x -> M < f x.
Proof. intros H M. apply (H (fun y => M < y)). exists M. auto. Qed.
Lemma lim_mm_elim (f : R -> R) : filterlim f (Rbar_locally m_infty) (Rbar_locally m_infty) ->
  forall M, exists N, forall x, x < N -> f x < M.
Proof. intros H M. apply (H (fun y => y < M)). exists M. auto. Qed.
Lemma lim_pm_elim (f : R -> R) : filterlim f (Rbar_locally p_infty) (Rbar_locally m_infty) ->
  forall M, exists N, forall x, N < x -> f x < M.
Proof. intros H M. apply (H (fun y => y < M)). exists M. auto. Qed.
Lemma lim_mp_elim (f : R -> R) : filterlim f (Rbar_locally m_infty) (Rbar_locally p_infty) ->
  forall M, exists N, forall x, x < N -> M < f x.
Proof. intros H M. apply (H (fun y => M < y)). exists M. auto. Qed.

(* ------------------------------------------------------------------------------------ *)
(* Part A: change of variables                                                            *)
(* ------------------------------------------------------------------------------------ *)
Lemma is_derive_one_minus (G : R -> R) (x l : R) : is_derive G x l -> is_derive (fun t => 1 - G t) x (- l).
Proof.
  intros H. auto_derive; [exists l; exact H|]. change (fun x0 : R => G x0) with G. rewrite (is_derive_unique _ _ _ H). ring.
Qed.

Lemma filterlim_one_minus (G : R -> R) (F : (R -> Prop) -> Prop) {FF : Filter F} (l : R) :
  filterlim G F (locally l) -> filterlim (fun x => 1 - G x) F (locally (1 - l)).
Proof.
  intros H. apply filterlim_locally. intros eps.
  generalize (proj1 (filterlim_locally G l) H eps). apply filter_imp. intros x Hx.
  change (Rabs (1 - G x - (1 - l)) < eps). change (Rabs (G x - l) < eps) in Hx.
  replace (1 - G x - (1 - l)) with (- (G x - l)) by ring. now rewrite Rabs_Ropp.
Qed.

Section COV.
  (* base: CDF P with continuous density p; S = the inverse of the flow's forward map *)
  Variables (P p S S' : R -> R).
  Hypothesis P_deriv : forall z, is_derive P z (p z).
  Hypothesis p_cont : forall z, continuous p z.
  Hypothesis P_minf : filterlim P (Rbar_locally m_infty) (locally 0).
  Hypothesis P_pinf : filterlim P (Rbar_locally p_infty) (locally 1).
  Hypothesis S_deriv : forall x, is_derive S x (S' x).
  Hypothesis S'_cont : forall x, continuous S' x.

  Definition q (x : R) : R := p (S x) * S' x.

  Lemma PS_deriv x : is_derive (fun x => P (S x)) x (q x).
  Proof.
    unfold q. replace (p (S x) * S' x) with (S' x * p (S x)) by ring.
    apply (is_derive_comp P S x (p (S x)) (S' x)); [apply P_deriv | apply S_deriv].
  Qed.
  Lemma q_cont x : continuous q x.
  Proof.
    unfold q. apply (continuous_mult (fun x => p (S x)) S').
    - apply continuous_comp; [apply (ex_derive_continuous S); eexists; apply S_deriv | apply p_cont].
    - apply S'_cont.
  Qed.
  (* fundamental theorem of calculus on the whole line for a C1 primitive *)
  Lemma int_gen (F r : R -> R) (la lb : R) :
    (forall x, is_derive F x (r x)) -> (forall x, continuous r x) ->
    filterlim F (Rbar_locally m_infty) (locally la) ->
    filterlim F (Rbar_locally p_infty) (locally lb) ->
    is_RInt_gen r (Rbar_locally m_infty) (Rbar_locally p_infty) (lb - la).
  Proof.
    intros HF Hr Ha Hb.
    apply (is_RInt_gen_ext (Derive F)).
    - apply filter_forall. intros [a b] x _. apply is_derive_unique, HF.
    - apply is_RInt_gen_Derive.
      + apply filter_forall. intros [a b] x _. eexists; apply HF.
      + apply filter_forall. intros [a b] x _.
        apply continuous_ext with (f := r); [intros t; symmetry; apply is_derive_unique, HF | apply Hr].
      + exact Ha.
      + exact Hb.
  Qed.

  (* increasing bijection of R onto R *)
  Theorem flow_density_integrates_to_one :
    filterlim S (Rbar_locally m_infty) (Rbar_locally m_infty) ->
    filterlim S (Rbar_locally p_infty) (Rbar_locally p_infty) ->
    is_RInt_gen (fun x => p (S x) * S' x) (Rbar_locally m_infty) (Rbar_locally p_infty) 1.
  Proof.
    intros Hm Hp. replace 1 with (1 - 0) by ring.
    apply (int_gen (fun x => P (S x)) q); [apply PS_deriv | apply q_cont | |].
    - eapply filterlim_comp; [apply Hm | apply P_minf].
    - eapply filterlim_comp; [apply Hp | apply P_pinf].
  Qed.
  (* decreasing bijection of R onto R (negative scales): the density carries |S'| = - S' *)
  Theorem flow_density_integrates_to_one_decreasing :
    filterlim S (Rbar_locally m_infty) (Rbar_locally p_infty) ->
    filterlim S (Rbar_locally p_infty) (Rbar_locally m_infty) ->
    is_RInt_gen (fun x => p (S x) * - S' x) (Rbar_locally m_infty) (Rbar_locally p_infty) 1.
  Proof.
    intros Hm Hp. replace 1 with (1 - 0) by ring.
    apply (int_gen (fun x => 1 - P (S x)) (fun x => p (S x) * - S' x)).
    - intros x. replace (p (S x) * - S' x) with (- q x) by (unfold q; ring).
      apply (is_derive_one_minus (fun t => P (S t)) x (q x)), PS_deriv.
    - intros x. apply continuous_ext with (f := fun x => - q x); [intros t; change (@eq R (- q t) (p (S t) * - S' t)); unfold q; ring|].
      apply (continuous_opp q), q_cont.
    - assert (E : filterlim (fun x => 1 - P (S x)) (Rbar_locally m_infty) (locally (1 - 1))).
      { apply (filterlim_one_minus (fun x => P (S x)) (Rbar_locally m_infty) 1).
        eapply filterlim_comp; [apply Hm | apply P_pinf]. }
      replace (1 - 1) with 0 in E by ring. exact E.
    - assert (E : filterlim (fun x => 1 - P (S x)) (Rbar_locally p_infty) (locally (1 - 0))).
      { apply (filterlim_one_minus (fun x => P (S x)) (Rbar_locally p_infty) 0).
        eapply filterlim_comp; [apply Hp | apply P_minf]. }
      replace (1 - 0) with 1 in E by ring. exact E.
  Qed.
End COV.

(* ------------------------------------------------------------------------------------ *)
(* Part B: C1 bijections of R onto R with derivative of constant sign                     *)
(* ------------------------------------------------------------------------------------ *)
Record diffeo (f f' : R -> R) (up : bool) : Prop := {
  df_deriv : forall x, is_derive f x (f' x);
  df_cont : forall x, continuous f' x;
  df_sign : forall x, if up then 0 < f' x else f' x < 0;
  df_minf : filterlim f (Rbar_locally m_infty) (Rbar_locally (if up then m_infty else p_infty));
  df_pinf : filterlim f (Rbar_locally p_infty) (Rbar_locally (if up then p_infty else m_infty)) }.

Lemma diffeo_nonzero f f' up : diffeo f f' up -> forall x, f' x <> 0.
Proof. intros D x. pose proof (df_sign _ _ _ D x) as H. destruct up; lra. Qed.
Lemma diffeo_ext f g f' up : (forall x, f x = g x) -> diffeo f f' up -> diffeo g f' up.
Proof.
  intros E [D C Sg Lm Lp]. split; auto.
  - intros x. apply (is_derive_ext f); [exact E | apply D].
  - apply (filterlim_ext f); [exact E | exact Lm].
  - apply (filterlim_ext f); [exact E | exact Lp].
Qed.
Lemma diffeo_ext' f f' g' up : (forall x, f' x = g' x) -> diffeo f f' up -> diffeo f g' up.
Proof.
  intros E [D C Sg Lm Lp]. split; auto.
  - intros x. rewrite <- E. apply D.
  - intros x. apply (continuous_ext f'); [exact E | apply C].
  - intros x. rewrite <- E. apply Sg.
Qed.
Lemma diffeo_id : diffeo (fun x => x) (fun _ => 1) true.
Proof.
  split.
  - intros x. auto_derive; [exact I | ring].
  - intros x. apply continuous_const.
  - intros x. lra.
  - apply filterlim_id.
  - apply filterlim_id.
Qed.

(* the total derivative sign decides monotonicity (mean value theorem) *)
Lemma diffeo_mono f f' up : diffeo f f' up -> forall a b, a < b -> if up then f a < f b else f b < f a.
Proof.
  intros D a b Hab.
  destruct (MVT_gen f a b f') as [c [Hc E]].
  - intros x _. apply (df_deriv _ _ _ D).
  - intros x _. apply continuity_pt_filterlim. apply (ex_derive_continuous f). eexists. apply (df_deriv _ _ _ D).
  - pose proof (df_sign _ _ _ D c) as Hs. destruct up; nra.
Qed.
Lemma diffeo_inj f f' up : diffeo f f' up -> forall a b, f a = f b -> a = b.
Proof.
  intros D a b E. destruct (Rtotal_order a b) as [H|[H|H]]; [|exact H|].
  - pose proof (diffeo_mono _ _ _ D a b H) as M. destruct up; lra.
  - pose proof (diffeo_mono _ _ _ D b a H) as M. destruct up; lra.
Qed.

Lemma diffeo_comp f f' g g' u v : diffeo f f' u -> diffeo g g' v ->
  diffeo (fun x => g (f x)) (fun x => g' (f x) * f' x) (Bool.eqb u v).
Proof.
  intros Df Dg. split.
  - intros x. replace (g' (f x) * f' x) with (f' x * g' (f x)) by ring.
    apply (is_derive_comp g f x (g' (f x)) (f' x)); [apply (df_deriv _ _ _ Dg) | apply (df_deriv _ _ _ Df)].
  - intros x. apply (continuous_mult (fun x => g' (f x)) f').
    + apply continuous_comp; [apply (ex_derive_continuous f); eexists; apply (df_deriv _ _ _ Df) | apply (df_cont _ _ _ Dg)].
    + apply (df_cont _ _ _ Df).
  - intros x. pose proof (df_sign _ _ _ Df x) as A. pose proof (df_sign _ _ _ Dg (f x)) as B.
    destruct u, v; cbn [Bool.eqb]; nra.
  - pose proof (df_minf _ _ _ Df) as A. pose proof (df_minf _ _ _ Dg) as B. pose proof (df_pinf _ _ _ Dg) as B'.
    destruct u, v; cbn [Bool.eqb]; eapply filterlim_comp; eauto.
  - pose proof (df_pinf _ _ _ Df) as A. pose proof (df_minf _ _ _ Dg) as B. pose proof (df_pinf _ _ _ Dg) as B'.
    destruct u, v; cbn [Bool.eqb]; eapply filterlim_comp; eauto.
Qed.

(* the inverse of a diffeo is a diffeo: continuity of the inverse from monotonicity + surjectivity,
   differentiability from the difference quotient of f along g, limits from monotonicity *)
Section Inverse.
  Variables (f f' g : R -> R) (up : bool).
  Hypothesis D : diffeo f f' up.
  Hypothesis gf : forall x, g (f x) = x.
  Hypothesis fg : forall y, f (g y) = y.

  Lemma inv_mono a b : a < b -> if up then g a < g b else g b < g a.
  Proof.
    intros Hab. pose proof (diffeo_mono _ _ _ D) as M.
    destruct up.
    - destruct (Rlt_le_dec (g a) (g b)) as [H|H]; [exact H|exfalso].
      destruct H as [H|H]; [apply M in H; rewrite !fg in H; lra | apply (f_equal f) in H; rewrite !fg in H; lra].
    - destruct (Rlt_le_dec (g b) (g a)) as [H|H]; [exact H|exfalso].
      destruct H as [H|H]; [apply M in H; rewrite !fg in H; lra | apply (f_equal f) in H; rewrite !fg in H; lra].
  Qed.

  Lemma inv_continuous y : continuous g y.
  Proof.
    apply continuity_pt_filterlim. intros eps Heps.
    set (x := g y). pose proof (diffeo_mono _ _ _ D) as M. pose proof inv_mono as IM.
    assert (Hl : if up then f (x - eps) < y < f (x + eps) else f (x + eps) < y < f (x - eps)).
    { pose proof (M (x - eps) x ltac:(lra)) as A. pose proof (M x (x + eps) ltac:(lra)) as B.
      unfold x in *. rewrite fg in A, B. destruct up; lra. }
    set (lo := if up then f (x - eps) else f (x + eps)). set (hi := if up then f (x + eps) else f (x - eps)).
    assert (Hlh : lo < y < hi) by (unfold lo, hi; destruct up; lra).
    exists (Rmin (y - lo) (hi - y)). split.
    - apply Rmin_case; lra.
    - intros t [_ Ht]. unfold Rlimit.dist in Ht; simpl in Ht. unfold R_dist in Ht.
      assert (Ht' : lo < t < hi).
      { apply Rabs_def2 in Ht. pose proof (Rmin_l (y - lo) (hi - y)). pose proof (Rmin_r (y - lo) (hi - y)). lra. }
      unfold Rlimit.dist; simpl. unfold R_dist. apply Rabs_def1; fold x.
      + unfold lo, hi in Ht'. destruct up.
        * pose proof (IM t (f (x + eps)) ltac:(lra)) as Q. rewrite gf in Q. lra.
        * pose proof (IM (f (x + eps)) t ltac:(lra)) as Q. rewrite gf in Q. lra.
      + unfold lo, hi in Ht'. destruct up.
        * pose proof (IM (f (x - eps)) t ltac:(lra)) as Q. rewrite gf in Q. lra.
        * pose proof (IM t (f (x - eps)) ltac:(lra)) as Q. rewrite gf in Q. lra.
  Qed.

  Lemma inv_derive y : is_derive g y (/ f' (g y)).
  Proof.
    pose proof (diffeo_nonzero _ _ _ D) as NZ.
    apply is_derive_Reals. intros eps Heps.
    set (x := g y). set (d := f' x). assert (Hd : d <> 0) by apply NZ.
    (* the difference quotient of f at x is within eta of d for small k, eta chosen below *)
    set (eta := Rmin (Rabs d / 2) (eps * (Rabs d * Rabs d) / 2)).
    assert (Hdp : 0 < Rabs d) by (apply Rabs_pos_lt, Hd).
    assert (Heta : 0 < eta).
    { unfold eta. apply Rmin_case; [lra|]. apply Rmult_lt_0_compat; [|lra]. apply Rmult_lt_0_compat; [lra | nra]. }
    pose proof (df_deriv _ _ _ D x) as Dx. apply is_derive_Reals in Dx.
    destruct (Dx eta Heta) as [delta Hdelta].
    (* continuity of g at y gives |g (y+h) - x| < delta for small h *)
    pose proof (inv_continuous y) as Cy. apply continuity_pt_filterlim in Cy.
    destruct (Cy delta (cond_pos delta)) as [rho [Hrho Hg]].
    exists (mkposreal rho Hrho). intros h Hh0 Hh. cbn in Hh.
    set (k := g (y + h) - x).
    assert (Hk0 : k <> 0).
    { unfold k. intros E. assert (E' : g (y + h) = g y) by (unfold x in E; lra).
      apply (f_equal f) in E'. rewrite !fg in E'. lra. }
    assert (Hkd : Rabs k < delta).
    { unfold k. destruct (Req_dec (y + h) y) as [E|E]; [exfalso; lra|].
      apply (Hg (y + h)). split; [split; [exact I | intros E'; apply E; symmetry; exact E'] |].
      unfold Rlimit.dist; simpl. unfold R_dist. replace (y + h - y) with h by ring. exact Hh. }
    pose proof (Hdelta k Hk0 Hkd) as Q. fold d in Q.
    assert (Efk : f (x + k) - f x = h).
    { unfold k. replace (x + (g (y + h) - x)) with (g (y + h)) by ring. unfold x. rewrite !fg. ring. }
    rewrite Efk in Q.
    (* Q : |h / k - d| < eta ; goal : |k / h - / d| < eps *)
    replace (g (y + h) - g y) with k by (unfold k, x; ring).
    assert (Hhk : h / k <> 0) by (unfold Rdiv; apply Rmult_integral_contrapositive_currified; [exact Hh0 | apply Rinv_neq_0_compat, Hk0]).
    set (r := h / k) in *.
    assert (Er : k / h = / r) by (unfold r; field; split; assumption).
    rewrite Er.
    assert (Hr : Rabs d / 2 < Rabs r).
    { assert (Rabs d - Rabs r <= Rabs (r - d)) by (rewrite (Rabs_minus_sym r d); apply Rabs_triang_inv).
      pose proof (Rmin_l (Rabs d / 2) (eps * (Rabs d * Rabs d) / 2)). fold eta in H0. lra. }
    replace (/ r - / d) with ((d - r) / (r * d)) by (field; split; [exact Hd | intros E; apply Hhk; exact E]).
    unfold Rdiv. rewrite Rabs_mult, Rabs_Rinv by (apply Rmult_integral_contrapositive_currified; [intros E; apply Hhk; exact E | exact Hd]).
    rewrite Rabs_mult, (Rabs_minus_sym d r).
    assert (Hrd : Rabs d * Rabs d / 2 < Rabs r * Rabs d) by nra.
    assert (Hq : Rabs (r - d) < eps * (Rabs d * Rabs d) / 2).
    { pose proof (Rmin_r (Rabs d / 2) (eps * (Rabs d * Rabs d) / 2)). fold eta in H. lra. }
    apply Rmult_lt_reg_r with (Rabs r * Rabs d); [nra|].
    rewrite Rmult_assoc, Rinv_l by nra. nra.
  Qed.

  Theorem diffeo_inverse : diffeo g (fun y => / f' (g y)) up.
  Proof.
    pose proof (diffeo_nonzero _ _ _ D) as NZ. pose proof inv_mono as IM.
    split.
    - apply inv_derive.
    - intros y. apply continuous_Rinv_comp; [|apply NZ].
      apply continuous_comp; [apply inv_continuous | apply (df_cont _ _ _ D)].
    - intros y. pose proof (df_sign _ _ _ D (g y)) as Hs.
      destruct up; [apply Rinv_0_lt_compat, Hs | apply Rinv_lt_0_compat, Hs].
    - destruct up.
      + apply lim_mm_intro. intros M. exists (f M). intros y Hy. pose proof (IM y (f M) Hy) as Q. now rewrite gf in Q.
      + apply lim_mp_intro. intros M. exists (f M). intros y Hy. pose proof (IM y (f M) Hy) as Q. now rewrite gf in Q.
    - destruct up.
      + apply lim_pp_intro. intros M. exists (f M). intros y Hy. pose proof (IM (f M) y Hy) as Q. now rewrite gf in Q.
      + apply lim_pm_intro. intros M. exists (f M). intros y Hy. pose proof (IM (f M) y Hy) as Q. now rewrite gf in Q.
  Qed.
End Inverse.

(* the density of the pushed-forward law integrates to one for EVERY diffeo S (either orientation) *)
Theorem diffeo_density_integrates (P p S S' : R -> R) (up : bool) :
  (forall z, is_derive P z (p z)) -> (forall z, continuous p z) ->
  filterlim P (Rbar_locally m_infty) (locally 0) -> filterlim P (Rbar_locally p_infty) (locally 1) ->
  diffeo S S' up ->
  is_RInt_gen (fun x => p (S x) * Rabs (S' x)) (Rbar_locally m_infty) (Rbar_locally p_infty) 1.
Proof.
  intros HP Hp Lm Lp [D C Sg Sm Spi]. destruct up.
  - apply (is_RInt_gen_ext (fun x => p (S x) * S' x)).
    + apply filter_forall. intros [a b] x _. rewrite Rabs_right; [reflexivity | left; apply Sg].
    + apply (flow_density_integrates_to_one P p S S'); assumption.
  - apply (is_RInt_gen_ext (fun x => p (S x) * - S' x)).
    + apply filter_forall. intros [a b] x _. rewrite Rabs_left; [reflexivity | apply Sg].
    + apply (flow_density_integrates_to_one_decreasing P p S S'); assumption.
Qed.

(* ------------------------------------------------------------------------------------ *)
(* Part C: the onto-R layers are diffeos whose reported log-det is ln |derivative|         *)
(* ------------------------------------------------------------------------------------ *)
(* a rank-0 layer that is a bijection of R onto R, C1 with derivative of constant sign, reporting
   ln|derivative| as its forward log-det (C02) and satisfying the C01/C02 laws *)
Definition sflow (l : layer R) : Prop :=
  layer_ok l /\ (forall x, l_dom l x) /\ (forall y, l_cod l y) /\
  exists f' up, diffeo (l_fwd l) f' up /\ forall x, l_ldf l x = ln (Rabs (f' x)).

Lemma sflow_invert l : sflow l -> sflow (invert_layer l).
Proof.
  intros (Hok & Hd & Hc & f' & up & D & Hl). destruct Hok as [L1 L2].
  split; [apply invert_layer_ok; split; assumption|]. split; [exact Hc|]. split; [exact Hd|].
  exists (fun y => / f' (l_inv l y)), up. cbn [invert_layer l_fwd l_ldf]. split.
  - apply (diffeo_inverse (l_fwd l) f'); [exact D | intros x; apply L1, Hd | intros y; apply L2, Hc].
  - intros y. destruct (L2 y (Hc y)) as (_ & _ & E). rewrite E, Hl.
    pose proof (diffeo_nonzero _ _ _ D (l_inv l y)) as NZ.
    rewrite Rabs_Rinv by exact NZ. rewrite ln_Rinv by (apply Rabs_pos_lt, NZ). reflexivity.
Qed.

Lemma sflow_chain ls : List.Forall sflow ls -> sflow (chain_layer ls).
Proof.
  intros H.
  assert (Hok : List.Forall layer_ok ls) by (eapply Forall_impl; [|exact H]; intros l Hl; apply Hl).
  assert (Hdom : forall x, comp_dom ls x).
  { clear Hok. induction H as [|l t Hl _ IH]; intros x; cbn [comp_dom]; [exact I|]. split; [apply Hl | apply IH]. }
  assert (Hcod : forall rls, List.Forall sflow rls -> forall y, rcomp_cod rls y).
  { induction 1 as [|l t Hl _ IH]; intros y; cbn [rcomp_cod]; [exact I|]. split; [apply Hl | apply IH]. }
  split; [apply chain_layer_ok, Hok|]. split; [exact Hdom|].
  split; [apply Hcod, Forall_rev, H|].
  cbn [chain_layer l_fwd l_ldf].
  assert (G : exists f' up, diffeo (comp_fwd ls) f' up /\ forall x, comp_ldf ls x = ln (Rabs (f' x))).
  { clear Hok Hdom Hcod. induction H as [|l t Hl _ (g' & v & Dg & Lg)].
    - exists (fun _ => 1), true. split; [exact diffeo_id|]. intros x. cbn [comp_ldf]. now rewrite Rabs_R1, ln_1.
    - destruct Hl as (_ & _ & _ & f' & u & Df & Lf).
      exists (fun x => g' (l_fwd l x) * f' x), (Bool.eqb u v). split.
      + cbn [comp_fwd]. apply (diffeo_comp (l_fwd l) f' (comp_fwd t) g'); assumption.
      + intros x. cbn [comp_ldf]. rewrite Lf, Lg, Rabs_mult.
        pose proof (diffeo_nonzero _ _ _ Df x). pose proof (diffeo_nonzero _ _ _ Dg (l_fwd l x)).
        rewrite ln_mult by (apply Rabs_pos_lt; assumption). ring. }
  destruct G as (f' & up & D & L). exists f', up. split.
  - apply (diffeo_ext (comp_fwd ls)); [intros x; now rewrite chain_fwd_ld_spec | exact D].
  - intros x. rewrite chain_fwd_ld_spec. apply L.
Qed.

(* ---- leaves ---- *)
Lemma lin_lim_pp a b : 0 < a -> filterlim (fun x => x * a + b) (Rbar_locally p_infty) (Rbar_locally p_infty).
Proof.
  intros Ha. apply lim_pp_intro. intros M. exists ((M - b) / a). intros x Hx.
  apply (Rmult_lt_compat_r a) in Hx; [|exact Ha]. unfold Rdiv in Hx. rewrite Rmult_assoc, Rinv_l, Rmult_1_r in Hx; lra.
Qed.
Lemma lin_lim_mm a b : 0 < a -> filterlim (fun x => x * a + b) (Rbar_locally m_infty) (Rbar_locally m_infty).
Proof.
  intros Ha. apply lim_mm_intro. intros M. exists ((M - b) / a). intros x Hx.
  apply (Rmult_lt_compat_r a) in Hx; [|exact Ha]. unfold Rdiv in Hx. rewrite Rmult_assoc, Rinv_l, Rmult_1_r in Hx; lra.
Qed.
Lemma lin_lim_pm a b : a < 0 -> filterlim (fun x => x * a + b) (Rbar_locally p_infty) (Rbar_locally m_infty).
Proof.
  intros Ha. apply lim_pm_intro. intros M. exists ((M - b) / a). intros x Hx.
  assert (E : (M - b) / a * a = M - b) by (field; lra). nra.
Qed.
Lemma lin_lim_mp a b : a < 0 -> filterlim (fun x => x * a + b) (Rbar_locally m_infty) (Rbar_locally p_infty).
Proof.
  intros Ha. apply lim_mp_intro. intros M. exists ((M - b) / a). intros x Hx.
  assert (E : (M - b) / a * a = M - b) by (field; lra). nra.
Qed.

Lemma diffeo_linear a b : a <> 0 -> diffeo (fun x => x * a + b) (fun _ => a) (if Rlt_dec 0 a then true else false).
Proof.
  intros Ha. destruct (Rlt_dec 0 a) as [H|H]; split; try (intros x; auto_derive; [exact I | ring]);
    try (intros x; apply continuous_const); try (intros x; lra).
  - apply lin_lim_mm, H. - apply lin_lim_pp, H.
  - apply lin_lim_mp; lra. - apply lin_lim_pm; lra.
Qed.

Lemma sflow_affine loc s : s <> 0 -> sflow (affine_layer loc s).
Proof.
  intros Hs. split; [apply affine_layer_ok, Hs|]. split; [intros x; exact I|]. split; [intros y; exact I|].
  exists (fun _ => s), (if Rlt_dec 0 s then true else false). split.
  - apply (diffeo_ext (fun x => x * s + loc)); [intros x; reflexivity | apply diffeo_linear, Hs].
  - intros x. apply affine_ld_spec.
Qed.
Lemma sflow_loc loc : sflow (loc_layer loc).
Proof.
  split; [apply loc_layer_ok|]. split; [intros x; exact I|]. split; [intros y; exact I|].
  exists (fun _ => 1), true. split.
  - apply (diffeo_ext (fun x => x * 1 + loc)).
    + intros x. unfold loc_layer, loc_fwd; cbn. ring.
    + replace true with (if Rlt_dec 0 1 then true else false) by (destruct (Rlt_dec 0 1); [reflexivity | lra]).
      apply diffeo_linear. lra.
  - intros x. cbn. now rewrite Rabs_R1, ln_1.
Qed.
Lemma sflow_scale s : s <> 0 -> sflow (scale_layer s).
Proof.
  intros Hs. split; [apply scale_layer_ok, Hs|]. split; [intros x; exact I|]. split; [intros y; exact I|].
  exists (fun _ => s), (if Rlt_dec 0 s then true else false). split.
  - apply (diffeo_ext (fun x => x * s + 0)); [intros x; unfold scale_layer, scale_fwd; cbn; ring | apply diffeo_linear, Hs].
  - intros x. apply affine_ld_spec.
Qed.

(* LeakyTanh: derivative (C02) is continuous, positive; linear tails give the limits *)
Lemma dth_continuous x : continuous dth x.
Proof.
  unfold dth. apply (continuous_minus (fun _ => 1) (fun x => th x * th x)); [apply continuous_const|].
  assert (C : continuous th x) by (apply (ex_derive_continuous th); eexists; apply th_deriv).
  apply (continuous_mult th th); exact C.
Qed.
Definition clampm (m x : R) : R := (Rabs (x + m) - Rabs (x - m)) / 2.
Lemma leaky_d_clamp m x : 0 < m -> leaky_d m x = dth (clampm m x).
Proof.
  intros Hm. unfold leaky_d, clampm. rewrite leaky_grad_spec.
  destruct (Rleb m (Rabs x)) eqn:E.
  - apply Rleb_true in E. unfold Rabs in E. destruct (Rcase_abs x) as [Hx|Hx].
    + rewrite (Rabs_left1 (x + m)), (Rabs_left1 (x - m)) by lra.
      replace ((- (x + m) - - (x - m)) / 2) with (- m) by field. now rewrite dth_even.
    + rewrite (Rabs_right (x + m)), (Rabs_right (x - m)) by lra. f_equal. field.
  - apply Rleb_false in E. assert (- m < x < m) by (unfold Rabs in E; destruct (Rcase_abs x); lra).
    rewrite (Rabs_right (x + m)), (Rabs_left (x - m)) by lra. f_equal. field.
Qed.
Lemma leaky_d_continuous m x : 0 < m -> continuous (leaky_d m) x.
Proof.
  intros Hm. apply continuous_ext with (f := fun x => dth (clampm m x)); [intros t; symmetry; apply leaky_d_clamp, Hm|].
  apply continuous_comp; [|apply dth_continuous].
  unfold clampm. apply (continuous_scal_l (fun x => Rabs (x + m) - Rabs (x - m)) (/ 2)).
  apply (continuous_minus (fun x => Rabs (x + m)) (fun x => Rabs (x - m))).
  - apply continuous_Rabs_comp. apply (continuous_plus (fun x => x) (fun _ => m)); [apply continuous_id | apply continuous_const].
  - apply continuous_Rabs_comp. apply (continuous_minus (fun x => x) (fun _ => m)); [apply continuous_id | apply continuous_const].
Qed.
Lemma sflow_leaky m : 0 < m -> sflow (leaky_layer m).
Proof.
  intros Hm. pose proof (dth_pos m) as Hg.
  split; [apply leaky_layer_ok, Hm|]. split; [intros x; exact I|]. split; [intros y; exact I|].
  exists (leaky_d m), true. cbn [leaky_layer l_fwd l_ldf]. split.
  - split.
    + intros x. apply leaky_deriv, Hm.
    + intros x. apply leaky_d_continuous, Hm.
    + intros x. apply leaky_d_pos.
    + apply lim_mm_intro. intros M.
      exists (Rmin (- m) ((M + (th m - dth m * m)) / dth m)). intros x Hx.
      pose proof (Rmin_l (- m) ((M + (th m - dth m * m)) / dth m)). pose proof (Rmin_r (- m) ((M + (th m - dth m * m)) / dth m)).
      rewrite (leaky_fwd_lo m Hm) by lra.
      assert (x * dth m < M + (th m - dth m * m)).
      { apply Rlt_le_trans with ((M + (th m - dth m * m)) / dth m * dth m); [apply Rmult_lt_compat_r; lra | right; field; lra]. }
      lra.
    + apply lim_pp_intro. intros M.
      exists (Rmax m ((M - (th m - dth m * m)) / dth m)). intros x Hx.
      pose proof (Rmax_l m ((M - (th m - dth m * m)) / dth m)). pose proof (Rmax_r m ((M - (th m - dth m * m)) / dth m)).
      rewrite (leaky_fwd_hi m Hm) by lra.
      assert (M - (th m - dth m * m) < x * dth m).
      { apply Rle_lt_trans with ((M - (th m - dth m * m)) / dth m * dth m); [right; field; lra | apply Rmult_lt_compat_r; lra]. }
      lra.
  - intros x. exact (leaky_ld_spec m x).
Qed.

(* ---- 1-D expressions over the onto-R leaves ---- *)
Definition leaf_onto (l : leaf R) : Prop :=
  match l with
  | LAffine _ s => s <> 0 | LLoc _ => True | LScale s => s <> 0
  | LLeaky m g ic => 0 < m /\ g = leaky_grad ROps m /\ ic = leaky_icpt ROps m
  | _ => False            (* Exp / SoftPlus / Tanh are not onto R; the spline: see the end of the file *)
  end.
Fixpoint onto1 (b : bexpr R) : Prop :=
  match b with
  | BElem [l] => leaf_onto l
  | BInvert b' => onto1 b'
  | BChain bs => fold_right (fun b' P => onto1 b' /\ P) True bs
  | _ => False
  end.
(* the scalar reading of a 1-D expression *)
Fixpoint slayer (b : bexpr R) : layer R :=
  match b with
  | BElem [l] => leaf_layer l
  | BInvert b' => invert_layer (slayer b')
  | BChain bs => chain_layer (map slayer bs)
  | _ => loc_layer 0
  end.
Lemma onto1_chain bs : onto1 (BChain bs) <-> List.Forall onto1 bs.
Proof.
  cbn [onto1]. induction bs as [|b t IH]; cbn [fold_right].
  - split; intros; [constructor | exact I].
  - split; intros H.
    + constructor; [apply H | apply IH, H].
    + inversion H; subst. split; [assumption | apply IH; assumption].
Qed.

Lemma sflow_leaf l : leaf_onto l -> sflow (leaf_layer l).
Proof.
  destruct l as [loc s|loc|s| | | |m g ic|xp yp dv lo hi]; cbn [leaf_onto]; intros H; try contradiction.
  - exact (sflow_affine loc s H).
  - exact (sflow_loc loc).
  - exact (sflow_scale s H).
  - destruct H as (Hm & -> & ->). exact (sflow_leaky m Hm).
Qed.

Theorem sflow_expr b : onto1 b -> sflow (slayer b).
Proof.
  induction b as [ls|lower m loc|p pinv| |b IH|bs IH] using bexpr_ind'; intros H; try contradiction.
  - destruct ls as [|l [|l2 t]]; try contradiction. apply sflow_leaf, H.
  - cbn [slayer]. apply sflow_invert, IH, H.
  - cbn [slayer]. apply sflow_chain. apply onto1_chain in H. apply Forall_map.
    induction IH as [|b t Hb _ IHt]; [constructor|]. inversion H; subst. constructor; auto.
Qed.

Lemma run_slayer b : onto1 b ->
  (forall x, run_fwd_ld ROps b [x] = ([l_fwd (slayer b) x], l_ldf (slayer b) x)) /\
  (forall y, run_inv_ld ROps b [y] = ([l_inv (slayer b) y], l_ldi (slayer b) y)).
Proof.
  induction b as [ls|lower m loc|p pinv| |b IH|bs IH] using bexpr_ind'; intros H; try contradiction.
  - destruct ls as [|l [|l2 t]]; try contradiction.
    split; intros v; cbn [run_fwd_ld run_inv_ld zipw slayer leaf_layer l_fwd l_inv l_ldf l_ldi];
      rewrite sum_R_cons, sum_R_nil; f_equal; ring.
  - destruct (IH H) as [A B]. split; intros v.
    + rewrite run_fwd_ld_invert. apply B.
    + rewrite run_inv_ld_invert. apply A.
  - apply onto1_chain in H. split.
    + intros x. rewrite run_fwd_ld_chain. cbn [slayer chain_layer l_fwd l_ldf]. rewrite chain_fwd_ld_spec. cbn [fst snd].
      change (c ROps 0) with 0.
      assert (G : forall x a, fold_left (fun s b' => let r := run_fwd_ld ROps b' (fst s) in (fst r, n_add ROps (snd s) (snd r))) bs ([x], a)
                              = ([comp_fwd (map slayer bs) x], a + comp_ldf (map slayer bs) x)).
      { clear x. induction IH as [|b t Hb _ IHt]; intros x a; cbn [fold_left map comp_fwd comp_ldf].
        - f_equal. ring.
        - inversion H; subst. cbv zeta. cbn [fst snd]. rewrite (proj1 (Hb H2)). cbn [fst snd].
          rewrite IHt by assumption. f_equal. cbn [n_add ROps ROpsG]. ring. }
      rewrite G. f_equal. ring.
    + intros y. rewrite run_inv_ld_chain. cbn [slayer chain_layer l_inv l_ldi]. rewrite chain_inv_ld_spec. cbn [fst snd].
      change (c ROps 0) with 0.
      induction IH as [|b t Hb _ IHt]; [reflexivity|].
      inversion H; subst. cbn [fold_right map rev]. cbv zeta. rewrite IHt by assumption. cbn [fst snd].
      rewrite (proj2 (Hb H2)). cbn [fst snd].
      rewrite rcomp_inv_app, rcomp_ldi_app. cbn [rcomp_inv rcomp_ldi]. f_equal. cbn [n_add ROps ROpsG]. ring.
Qed.

(* the base densities are continuous *)
Lemma fam_density_continuous f z : continuous (fun z => exp (fam_logpdf ROps f z)) z.
Proof.
  destruct f; cbn [fam_logpdf].
  - apply continuous_ext with (f := fun z => exp (- (z * z) / 2 - ln (sqrt (2 * PI)))).
    + intros t. now rewrite std_normal_logpdf_spec.
    + apply (ex_derive_continuous (fun z => exp (- (z * z) / 2 - ln (sqrt (2 * PI))))). auto_derive. exact I.
  - apply continuous_ext with (f := fun z => exp (- (z + exp (- z)))).
    + intros t. reflexivity.
    + apply (ex_derive_continuous (fun z => exp (- (z + exp (- z))))). auto_derive. exact I.
Qed.

(* C04, one dimension: for every expression over Affine (any non-zero scale, negative included) / Loc / Scale /
   LeakyTanh / Invert / Chain of any depth, exp(log_prob) of Transformed(base, b) integrates to one over R,
   for a base (StandardNormal or the standard Gumbel) whose density has a primitive P with limits 0 and 1. *)
Theorem flow_1d_integrates_to_one (f : fam) (P : R -> R) (b : bexpr R) :
  (forall z, is_derive P z (exp (fam_logpdf ROps f z))) ->
  filterlim P (Rbar_locally m_infty) (locally 0) -> filterlim P (Rbar_locally p_infty) (locally 1) ->
  onto1 b ->
  is_RInt_gen (fun x => exp (logp ROps (DTrans (DBase f) b) [x])) (Rbar_locally m_infty) (Rbar_locally p_infty) 1.
Proof.
  intros HP Lm Lp Hb.
  destruct (sflow_invert _ (sflow_expr b Hb)) as (_ & _ & _ & S' & up & D & HL).
  cbn [invert_layer l_fwd l_ldf] in D, HL.
  apply (is_RInt_gen_ext (fun x => exp (fam_logpdf ROps f (l_inv (slayer b) x)) * Rabs (S' x))).
  - apply filter_forall. intros [a0 b0] x _. cbn [logp]. rewrite (proj2 (run_slayer b Hb)). cbn [fst snd].
    unfold base_logp. cbn [map]. rewrite sum_R_cons, sum_R_nil, HL. cbn [n_add ROps ROpsG].
    rewrite exp_plus, Rplus_0_r, exp_ln; [reflexivity | apply Rabs_pos_lt, (diffeo_nonzero _ _ _ D)].
  - apply (diffeo_density_integrates P (fun z => exp (fam_logpdf ROps f z)) (l_inv (slayer b)) S' up); auto.
    intros z. apply fam_density_continuous.
Qed.

(* Tanh is NOT onto R: no preimage of 1 (nor of anything outside (-1, 1)), so it is no diffeo of R onto R and a
   flow whose last activation is a plain Tanh loses the mass the base puts outside the image (why BNAF defaults to LeakyTanh) *)
Theorem tanh_not_onto : ~ exists x, tanh_fwd ROps x = 1.
Proof. intros [x H]. pose proof (th_bounds x). unfold tanh_fwd in H; cbn in H. lra. Qed.
Theorem tanh_not_diffeo f' up : ~ diffeo (tanh_fwd ROps) f' up.
Proof.
  intros D. destruct up.
  - destruct (lim_pp_elim _ (df_pinf _ _ _ D) 1) as [N HN]. pose proof (HN (N + 1) ltac:(lra)) as Q.
    pose proof (th_bounds (N + 1)). unfold tanh_fwd in Q; cbn in Q. lra.
  - destruct (lim_mp_elim _ (df_minf _ _ _ D) 1) as [N HN]. pose proof (HN (N - 1) ltac:(lra)) as Q.
    pose proof (th_bounds (N - 1)). unfold tanh_fwd in Q; cbn in Q. lra.
Qed.
(* ... whereas LeakyTanh with the constructor's fields is (this is sflow_leaky) *)

(* non-vacuity witness: a chain with a negative scale, a LeakyTanh and an inverted LeakyTanh *)
Definition ex_onto : bexpr R :=
  BChain [BElem [LAffine 1 (-2)]; BElem [LLeaky 3 (leaky_grad ROps 3) (leaky_icpt ROps 3)];
          BInvert (BChain [BElem [LLeaky (/2) (leaky_grad ROps (/2)) (leaky_icpt ROps (/2))]; BElem [LScale 5]])].
Lemma ex_onto_ok : onto1 ex_onto.
Proof. unfold ex_onto. cbn. repeat split; lra. Qed.

(* An instance with NO hypothesis left: the standard Gumbel base has the closed-form CDF exp(-exp(-z)). *)
Definition gumbel_cdf (z : R) : R := exp (- exp (- z)).
Lemma gumbel_cdf_deriv z : is_derive gumbel_cdf z (exp (fam_logpdf ROps FGumbel z)).
Proof.
  cbn [fam_logpdf]. rewrite std_gumbel_logpdf_spec. unfold gumbel_cdf.
  auto_derive; [exact I|]. replace (- (z + exp (- z))) with (- exp (- z) + - z) by ring. rewrite exp_plus. ring.
Qed.
Lemma gumbel_cdf_minf : filterlim gumbel_cdf (Rbar_locally m_infty) (locally 0).
Proof.
  apply filterlim_locally. intros eps. exists (- / eps). intros z Hz.
  change (Rabs (gumbel_cdf z - 0) < eps). unfold gumbel_cdf.
  pose proof (cond_pos eps) as He. assert (Hi : 0 < / eps) by (apply Rinv_0_lt_compat, He).
  set (t := exp (- z)). assert (Ht : / eps < t) by (unfold t; pose proof (exp_ineq1_le (- z)); lra).
  rewrite Rminus_0_r, Rabs_right by (left; apply exp_pos).
  assert (E : exp (- t) * exp t = 1) by (rewrite <- exp_plus; replace (- t + t) with 0 by ring; apply exp_0).
  pose proof (exp_ineq1_le t). pose proof (exp_pos (- t)).
  assert (eps * t > 1). { apply (Rmult_lt_compat_l eps) in Ht; [|exact He]. rewrite Rinv_r in Ht; lra. }
  nra.
Qed.
Lemma gumbel_cdf_pinf : filterlim gumbel_cdf (Rbar_locally p_infty) (locally 1).
Proof.
  apply filterlim_locally. intros eps. exists (/ eps). intros z Hz.
  change (Rabs (gumbel_cdf z - 1) < eps). unfold gumbel_cdf.
  pose proof (cond_pos eps) as He. assert (Hi : 0 < / eps) by (apply Rinv_0_lt_compat, He).
  set (t := exp (- z)). pose proof (exp_pos (- z)) as Htp. fold t in Htp.
  assert (Ht : t < eps).
  { assert (E : exp (- z) * exp z = 1) by (rewrite <- exp_plus; replace (- z + z) with 0 by ring; apply exp_0).
    pose proof (exp_ineq1_le z). fold t in E.
    assert (eps * z > 1). { apply (Rmult_lt_compat_l eps) in Hz; [|exact He]. rewrite Rinv_r in Hz; lra. }
    nra. }
  pose proof (exp_ineq1_le (- t)). assert (exp (- t) < 1) by (rewrite <- exp_0; apply exp_increasing; lra).
  rewrite Rabs_left by lra. lra.
Qed.
Theorem gumbel_flow_1d_integrates_to_one (b : bexpr R) : onto1 b ->
  is_RInt_gen (fun x => exp (logp ROps (DTrans (DBase FGumbel) b) [x])) (Rbar_locally m_infty) (Rbar_locally p_infty) 1.
Proof.
  intros Hb. apply (flow_1d_integrates_to_one FGumbel gumbel_cdf b);
    [apply gumbel_cdf_deriv | apply gumbel_cdf_minf | apply gumbel_cdf_pinf | exact Hb].
Qed.

(* The spline: a bijection of R onto R (C01) that is the identity, with log-det 0, outside its interval, so it tends to
   -+infinity at -+infinity.  What is missing for [diffeo] is C1-ness on the whole line (see below). *)
Theorem rqs_onto_identity_tails xp yp dv lo hi : RqsInvP.rqs_valid xp yp dv lo hi ->
  LeafInvP.bij_on LeafInvP.allR LeafInvP.allR (rqs_fwd ROps xp yp dv lo hi) (rqs_inv ROps xp yp dv lo hi) /\
  (forall x, ~ (lo <= x <= hi) -> rqs_fwd ROps xp yp dv lo hi x = x /\ rqs_ld_fwd ROps xp yp dv lo hi x = 0) /\
  filterlim (rqs_fwd ROps xp yp dv lo hi) (Rbar_locally m_infty) (Rbar_locally m_infty) /\
  filterlim (rqs_fwd ROps xp yp dv lo hi) (Rbar_locally p_infty) (Rbar_locally p_infty).
Proof.
  intros V. split; [apply RqsInvP.rqs_bij, V|].
  assert (T : forall x, ~ (lo <= x <= hi) -> rqs_fwd ROps xp yp dv lo hi x = x /\ rqs_ld_fwd ROps xp yp dv lo hi x = 0).
  { intros x Hx. split; [apply RqsInvP.rqs_fwd_g_out, Hx|].
    unfold rqs_ld_fwd, rqs_deriv, rqs_deriv_g, where_. rewrite (RqsInvP.inb_false lo hi x Hx).
    unfold Num.c. cbn [n_log n_ofZ ROps ROpsG]. apply ln_1. }
  split; [exact T|]. split.
  - apply lim_mm_intro. intros M. exists (Rmin lo M). intros x Hx.
    pose proof (Rmin_l lo M). pose proof (Rmin_r lo M). rewrite (proj1 (T x ltac:(lra))). lra.
  - apply lim_pp_intro. intros M. exists (Rmax hi M). intros x Hx.
    pose proof (Rmax_l hi M). pose proof (Rmax_r hi M). rewrite (proj1 (T x ltac:(lra))). lra.
Qed.

(* NOT PROVED (C04 is partial):
   - d >= 2: the change-of-variables theorem in R^d (Coquelicot has no multivariate integration).  For d >= 2 the Coq
     content is C01 (every layer a bijection of R^d onto R^d, total both ways) + C02 (the reported log-det).
   - (the rational-quadratic spline is NOT a [diffeo] -- two kinks -- but it is a [pdiffeo]: Proofs/IntSplineP.v proves the
     piecewise form of the theorem, its closure under Chain / Invert, and the spline instance.)
   - TriangularAffine / Permute / Flip in d = 1 are Affine / identity (not spelled out); Exp, SoftPlus, Tanh are not onto R.
   - that the sampler's base draws follow the base law (jr.normal), and every statistical statement about samples.
     (That the sample is the push-forward of the base draw through the same map the density uses is C03.) *)
