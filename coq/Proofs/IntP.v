(* C04 -- flow densities integrate to one (one dimension), Coquelicot.
   Part A: change of variables for an increasing / decreasing C1 bijection of R onto R
           (promoted from design_probes/Int1d.v, extended to the decreasing case).
   Part B: [diffeo]: C1, derivative of constant sign, limits -+infinity; closed under composition and
           under taking the inverse (an inverse function theorem for this class, proved here).
   Part C: the layers of the 1-D expression language of Model/Dist.v that are onto R (Affine / Loc / Scale /
           LeakyTanh, Invert and Chain of those) are diffeos whose reported log-det is ln|derivative|;
           hence exp(log_prob) of Transformed(base, b) integrates to one.  Tanh is NOT such a map.
   What is not proved is named at the end of the file. *)
From Coq Require Import Reals List ZArith Bool Lra Lia.
From Coquelicot Require Import Coquelicot.
From FJ Require Import Model.Num Model.Leaves Model.Dist Proofs.RNum Proofs.LeafDerivP Proofs.DistP.
Import ListNotations.
Open Scope R_scope.

(* ------------------------------------------------------------------------------------ *)
(* limits at infinity, in epsilon-free form                                               *)
(* ------------------------------------------------------------------------------------ *)
Lemma lim_pp_intro (f : R -> R) : (forall M, exists N, forall x, N < x -> M < f x) ->
  filterlim f (Rbar_locally p_infty) (Rbar_locally p_infty).
Proof. intros H P [M HM]. destruct (H M) as [N HN]. exists N. intros x Hx. apply HM, HN, Hx. Qed.
Lemma lim_mm_intro (f : R -> R) : (forall M, exists N, forall x, x < N -> f x < M) ->
  filterlim f (Rbar_locally m_infty) (Rbar_locally m_infty).
Proof. intros H P [M HM]. destruct (H M) as [N HN]. exists N. intros x Hx. apply HM, HN, Hx. Qed.
Lemma lim_pm_intro (f : R -> R) : (forall M, exists N, forall x, N < x -> f x < M) ->
  filterlim f (Rbar_locally p_infty) (Rbar_locally m_infty).
Proof. intros H P [M HM]. destruct (H M) as [N HN]. exists N. intros x Hx. apply HM, HN, Hx. Qed.
Lemma lim_mp_intro (f : R -> R) : (forall M, exists N, forall x, x < N -> M < f x) ->
  filterlim f (Rbar_locally m_infty) (Rbar_locally p_infty).
Proof. intros H P [M HM]. destruct (H M) as [N HN]. exists N. intros x Hx. apply HM, HN, Hx. Qed.
Lemma lim_pp_elim (f : R -> R) : filterlim f (Rbar_locally p_infty) (Rbar_locally p_infty) ->
  forall M, exists N, forall x, N < x -> M < f x.
Proof. intros H M. apply (H (fun y => M < y)). exists M. auto. Qed.
Lemma lim_mm_elim (f : R -> R) : filterlim f (Rbar_locally m_infty) (Rbar_locally m_infty) ->
  forall M, exists N, forall x, x < N -> f x < M.
Proof. intros H M. apply (H (fun y => y < M)). exists M. auto. Qed.
Lemma lim_pm_elim (f : R -> R) : filterlim f (Rbar_locally p_infty) (Rbar_locally m_infty) ->
  forall M, exists N, forall x, N < x -> f x < M.
Proof. intros H M. apply (H (fun y => y < M)). exists M. auto. Qed.
Lemma lim_mp_elim (f : R -> R) : filterlim f (Rbar_locally m_infty) (Rbar_locally p_infty) ->
  forall M, exists N, forall x, x < N -> M < f x.
Proof. intros H M. apply (H (fun y => M < y)). exists M. auto. Qed.

(* ------------------------------------------------------------------------------------ *)
(* Part A: change of variables                                                            *)
(* ------------------------------------------------------------------------------------ *)
Section COV.
  (* base: CDF P with continuous density p; S = the inverse of the flow's forward map *)
  Variables (P p S S' : R -> R).
  Hypothesis P_deriv : forall z, is_derive P z (p z).
  Hypothesis p_cont : forall z, continuous p z.
  Hypothesis P_minf : filterlim P (Rbar_locally m_infty) (locally 0).
  Hypothesis P_pinf : filterlim P (Rbar_locally p_infty) (locally 1).
  Hypothesis S_deriv : forall x, is_derive S x (S' x).
  Hypothesis S'_cont : forall x, continuous S' x.

  Definition q (x : R) : R := p (S x) * S' x.

  Lemma PS_deriv x : is_derive (fun x => P (S x)) x (q x).
  Proof.
    unfold q. replace (p (S x) * S' x) with (S' x * p (S x)) by ring.
    apply (is_derive_comp P S x (p (S x)) (S' x)); [apply P_deriv | apply S_deriv].
  Qed.
  Lemma q_cont x : continuous q x.
  Proof.
    unfold q. apply (continuous_mult (fun x => p (S x)) S').
    - apply continuous_comp; [apply (ex_derive_continuous S); eexists; apply S_deriv | apply p_cont].
    - apply S'_cont.
  Qed.
  Lemma int_q_gen (la lb : R) :
    filterlim (fun x => P (S x)) (Rbar_locally m_infty) (locally la) ->
    filterlim (fun x => P (S x)) (Rbar_locally p_infty) (locally lb) ->
    is_RInt_gen q (Rbar_locally m_infty) (Rbar_locally p_infty) (lb - la).
  Proof.
    intros Ha Hb.
    apply (is_RInt_gen_ext (Derive (fun x => P (S x)))).
    - apply filter_forall. intros [a b] x _. apply is_derive_unique, PS_deriv.
    - apply is_RInt_gen_Derive.
      + apply filter_forall. intros [a b] x _. eexists; apply PS_deriv.
      + apply filter_forall. intros [a b] x _.
        apply continuous_ext with (f := q); [intros t; symmetry; apply is_derive_unique, PS_deriv | apply q_cont].
      + exact Ha.
      + exact Hb.
  Qed.

  (* increasing bijection of R onto R *)
  Theorem flow_density_integrates_to_one :
    filterlim S (Rbar_locally m_infty) (Rbar_locally m_infty) ->
    filterlim S (Rbar_locally p_infty) (Rbar_locally p_infty) ->
    is_RInt_gen (fun x => p (S x) * S' x) (Rbar_locally m_infty) (Rbar_locally p_infty) 1.
  Proof.
    intros Hm Hp. replace 1 with (1 - 0) by ring. apply int_q_gen.
    - eapply filterlim_comp; [apply Hm | apply P_minf].
    - eapply filterlim_comp; [apply Hp | apply P_pinf].
  Qed.
  (* decreasing bijection of R onto R (negative scales): the density carries |S'| = - S' *)
  Theorem flow_density_integrates_to_one_decreasing :
    filterlim S (Rbar_locally m_infty) (Rbar_locally p_infty) ->
    filterlim S (Rbar_locally p_infty) (Rbar_locally m_infty) ->
    is_RInt_gen (fun x => p (S x) * - S' x) (Rbar_locally m_infty) (Rbar_locally p_infty) 1.
  Proof.
    intros Hm Hp.
    assert (H : is_RInt_gen q (Rbar_locally m_infty) (Rbar_locally p_infty) (0 - 1)).
    { apply int_q_gen.
      - eapply filterlim_comp; [apply Hm | apply P_pinf].
      - eapply filterlim_comp; [apply Hp | apply P_minf]. }
    replace 1 with (opp (0 - 1)) by (unfold opp; cbn; ring).
    apply (is_RInt_gen_ext (fun x => opp (q x))).
    - apply filter_forall. intros [a b] x _. unfold q, opp; cbn. ring.
    - apply is_RInt_gen_opp, H.
  Qed.
End COV.

(* ------------------------------------------------------------------------------------ *)
(* Part B: C1 bijections of R onto R with derivative of constant sign                     *)
(* ------------------------------------------------------------------------------------ *)
Record diffeo (f f' : R -> R) (up : bool) : Prop := {
  df_deriv : forall x, is_derive f x (f' x);
  df_cont : forall x, continuous f' x;
  df_sign : forall x, if up then 0 < f' x else f' x < 0;
  df_minf : filterlim f (Rbar_locally m_infty) (Rbar_locally (if up then m_infty else p_infty));
  df_pinf : filterlim f (Rbar_locally p_infty) (Rbar_locally (if up then p_infty else m_infty)) }.

Lemma diffeo_nonzero f f' up : diffeo f f' up -> forall x, f' x <> 0.
Proof. intros D x. pose proof (df_sign _ _ _ D x) as H. destruct up; lra. Qed.
Lemma diffeo_ext f g f' up : (forall x, f x = g x) -> diffeo f f' up -> diffeo g f' up.
Proof.
  intros E [D C Sg Lm Lp]. split; auto.
  - intros x. apply (is_derive_ext f); [exact E | apply D].
  - apply (filterlim_ext f); [exact E | exact Lm].
  - apply (filterlim_ext f); [exact E | exact Lp].
Qed.
Lemma diffeo_ext' f f' g' up : (forall x, f' x = g' x) -> diffeo f f' up -> diffeo f g' up.
Proof.
  intros E [D C Sg Lm Lp]. split; auto.
  - intros x. rewrite <- E. apply D.
  - intros x. apply (continuous_ext f'); [exact E | apply C].
  - intros x. rewrite <- E. apply Sg.
Qed.
Lemma diffeo_id : diffeo (fun x => x) (fun _ => 1) true.
Proof.
  split.
  - intros x. auto_derive; [exact I | ring].
  - intros x. apply continuous_const.
  - intros x. lra.
  - apply filterlim_id.
  - apply filterlim_id.
Qed.

(* the total derivative sign decides monotonicity (mean value theorem) *)
Lemma diffeo_mono f f' up : diffeo f f' up -> forall a b, a < b -> if up then f a < f b else f b < f a.
Proof.
  intros D a b Hab.
  destruct (MVT_gen f a b f') as [c [Hc E]].
  - intros x _. apply (df_deriv _ _ _ D).
  - intros x _. apply continuity_pt_filterlim. apply (ex_derive_continuous f). eexists. apply (df_deriv _ _ _ D).
  - pose proof (df_sign _ _ _ D c) as Hs. destruct up; nra.
Qed.
Lemma diffeo_inj f f' up : diffeo f f' up -> forall a b, f a = f b -> a = b.
Proof.
  intros D a b E. destruct (Rtotal_order a b) as [H|[H|H]]; [|exact H|].
  - pose proof (diffeo_mono _ _ _ D a b H) as M. destruct up; lra.
  - pose proof (diffeo_mono _ _ _ D b a H) as M. destruct up; lra.
Qed.

Lemma diffeo_comp f f' g g' u v : diffeo f f' u -> diffeo g g' v ->
  diffeo (fun x => g (f x)) (fun x => g' (f x) * f' x) (Bool.eqb u v).
Proof.
  intros Df Dg. split.
  - intros x. replace (g' (f x) * f' x) with (f' x * g' (f x)) by ring.
    apply (is_derive_comp g f x (g' (f x)) (f' x)); [apply (df_deriv _ _ _ Dg) | apply (df_deriv _ _ _ Df)].
  - intros x. apply (continuous_mult (fun x => g' (f x)) f').
    + apply continuous_comp; [apply (ex_derive_continuous f); eexists; apply (df_deriv _ _ _ Df) | apply (df_cont _ _ _ Dg)].
    + apply (df_cont _ _ _ Df).
  - intros x. pose proof (df_sign _ _ _ Df x) as A. pose proof (df_sign _ _ _ Dg (f x)) as B.
    destruct u, v; cbn [Bool.eqb]; nra.
  - pose proof (df_minf _ _ _ Df) as A. pose proof (df_minf _ _ _ Dg) as B. pose proof (df_pinf _ _ _ Dg) as B'.
    destruct u, v; cbn [Bool.eqb]; eapply filterlim_comp; eauto.
  - pose proof (df_pinf _ _ _ Df) as A. pose proof (df_minf _ _ _ Dg) as B. pose proof (df_pinf _ _ _ Dg) as B'.
    destruct u, v; cbn [Bool.eqb]; eapply filterlim_comp; eauto.
Qed.

(* the inverse of a diffeo is a diffeo: continuity of the inverse from monotonicity + surjectivity,
   differentiability from the difference quotient of f along g, limits from monotonicity *)
Section Inverse.
  Variables (f f' g : R -> R) (up : bool).
  Hypothesis D : diffeo f f' up.
  Hypothesis gf : forall x, g (f x) = x.
  Hypothesis fg : forall y, f (g y) = y.

  Lemma inv_mono a b : a < b -> if up then g a < g b else g b < g a.
  Proof.
    intros Hab. pose proof (diffeo_mono _ _ _ D) as M.
    destruct up.
    - destruct (Rlt_le_dec (g a) (g b)) as [H|H]; [exact H|exfalso].
      destruct H as [H|H]; [apply M in H; rewrite !fg in H; lra | apply (f_equal f) in H; rewrite !fg in H; lra].
    - destruct (Rlt_le_dec (g b) (g a)) as [H|H]; [exact H|exfalso].
      destruct H as [H|H]; [apply M in H; rewrite !fg in H; lra | apply (f_equal f) in H; rewrite !fg in H; lra].
  Qed.

  Lemma inv_continuous y : continuous g y.
  Proof.
    apply continuity_pt_filterlim. intros eps Heps.
    set (x := g y). pose proof (diffeo_mono _ _ _ D) as M. pose proof inv_mono as IM.
    assert (Hl : if up then f (x - eps) < y < f (x + eps) else f (x + eps) < y < f (x - eps)).
    { pose proof (M (x - eps) x ltac:(lra)) as A. pose proof (M x (x + eps) ltac:(lra)) as B.
      unfold x in *. rewrite fg in A, B. destruct up; lra. }
    set (lo := if up then f (x - eps) else f (x + eps)). set (hi := if up then f (x + eps) else f (x - eps)).
    assert (Hlh : lo < y < hi) by (unfold lo, hi; destruct up; lra).
    exists (Rmin (y - lo) (hi - y)). split.
    - apply Rmin_case; lra.
    - intros t [_ Ht]. unfold dist in Ht; cbn in Ht. unfold R_dist in Ht.
      assert (Ht' : lo < t < hi).
      { apply Rabs_def2 in Ht. pose proof (Rmin_l (y - lo) (hi - y)). pose proof (Rmin_r (y - lo) (hi - y)). lra. }
      unfold dist; cbn. unfold R_dist. apply Rabs_def1; fold x.
      + unfold lo, hi in Ht'. destruct up.
        * pose proof (IM t (f (x + eps)) ltac:(lra)) as Q. rewrite gf in Q. lra.
        * pose proof (IM (f (x + eps)) t ltac:(lra)) as Q. rewrite gf in Q. lra.
      + unfold lo, hi in Ht'. destruct up.
        * pose proof (IM (f (x - eps)) t ltac:(lra)) as Q. rewrite gf in Q. lra.
        * pose proof (IM t (f (x - eps)) ltac:(lra)) as Q. rewrite gf in Q. lra.
  Qed.

  Lemma inv_derive y : is_derive g y (/ f' (g y)).
  Proof.
    pose proof (diffeo_nonzero _ _ _ D) as NZ.
    apply is_derive_Reals. intros eps Heps.
    set (x := g y). set (d := f' x). assert (Hd : d <> 0) by apply NZ.
    (* the difference quotient of f at x is within eta of d for small k, eta chosen below *)
    set (eta := Rmin (Rabs d / 2) (eps * (Rabs d * Rabs d) / 2)).
    assert (Hdp : 0 < Rabs d) by (apply Rabs_pos_lt, Hd).
    assert (Heta : 0 < eta).
    { unfold eta. apply Rmin_case; [lra|]. apply Rmult_lt_0_compat; [|lra]. apply Rmult_lt_0_compat; [lra | nra]. }
    pose proof (df_deriv _ _ _ D x) as Dx. apply is_derive_Reals in Dx.
    destruct (Dx eta Heta) as [delta Hdelta].
    (* continuity of g at y gives |g (y+h) - x| < delta for small h *)
    pose proof (inv_continuous y) as Cy. apply continuity_pt_filterlim in Cy.
    destruct (Cy delta (cond_pos delta)) as [rho [Hrho Hg]].
    exists (mkposreal rho Hrho). intros h Hh0 Hh. cbn in Hh.
    set (k := g (y + h) - x).
    assert (Hk0 : k <> 0).
    { unfold k. intros E. assert (E' : g (y + h) = g y) by (unfold x in E; lra).
      apply (f_equal f) in E'. rewrite !fg in E'. lra. }
    assert (Hkd : Rabs k < delta).
    { unfold k. destruct (Req_dec (y + h) y) as [E|E]; [exfalso; lra|].
      apply (Hg (y + h)). split; [split; [exact I | intros E'; apply E; symmetry; exact E'] |].
      unfold dist; cbn. unfold R_dist. replace (y + h - y) with h by ring. exact Hh. }
    pose proof (Hdelta k Hk0 Hkd) as Q. fold d in Q.
    assert (Efk : f (x + k) - f x = h).
    { unfold k. replace (x + (g (y + h) - x)) with (g (y + h)) by ring. unfold x. rewrite !fg. ring. }
    rewrite Efk in Q.
    (* Q : |h / k - d| < eta ; goal : |k / h - / d| < eps *)
    replace (g (y + h) - g y) with k by (unfold k, x; ring).
    assert (Hhk : h / k <> 0) by (unfold Rdiv; apply Rmult_integral_contrapositive_currified; [exact Hh0 | apply Rinv_neq_0_compat, Hk0]).
    set (r := h / k) in *.
    assert (Er : k / h = / r) by (unfold r; field; split; assumption).
    rewrite Er.
    assert (Hr : Rabs d / 2 < Rabs r).
    { assert (Rabs d - Rabs r <= Rabs (r - d)) by (rewrite (Rabs_minus_sym r d); apply Rabs_triang_inv).
      pose proof (Rmin_l (Rabs d / 2) (eps * (Rabs d * Rabs d) / 2)). fold eta in H0. lra. }
    replace (/ r - / d) with ((d - r) / (r * d)) by (field; split; [exact Hd | intros E; apply Hhk; exact E]).
    unfold Rdiv. rewrite Rabs_mult, Rabs_Rinv by (apply Rmult_integral_contrapositive_currified; [intros E; apply Hhk; exact E | exact Hd]).
    rewrite Rabs_mult, (Rabs_minus_sym d r).
    assert (Hrd : Rabs d * Rabs d / 2 < Rabs r * Rabs d) by nra.
    assert (Hq : Rabs (r - d) < eps * (Rabs d * Rabs d) / 2).
    { pose proof (Rmin_r (Rabs d / 2) (eps * (Rabs d * Rabs d) / 2)). fold eta in H. lra. }
    apply Rmult_lt_reg_r with (Rabs r * Rabs d); [nra|].
    rewrite Rmult_assoc, Rinv_l by nra. nra.
  Qed.

  Theorem diffeo_inverse : diffeo g (fun y => / f' (g y)) up.
  Proof.
    pose proof (diffeo_nonzero _ _ _ D) as NZ. pose proof inv_mono as IM.
    split.
    - apply inv_derive.
    - intros y. apply continuous_Rinv_comp; [|apply NZ].
      apply continuous_comp; [apply inv_continuous | apply (df_cont _ _ _ D)].
    - intros y. pose proof (df_sign _ _ _ D (g y)) as Hs.
      destruct up; [apply Rinv_0_lt_compat, Hs | apply Rinv_lt_0_compat, Hs].
    - destruct up.
      + apply lim_mm_intro. intros M. exists (f M). intros y Hy. pose proof (IM y (f M) Hy) as Q. now rewrite gf in Q.
      + apply lim_mp_intro. intros M. exists (f M). intros y Hy. pose proof (IM y (f M) Hy) as Q. now rewrite gf in Q.
    - destruct up.
      + apply lim_pp_intro. intros M. exists (f M). intros y Hy. pose proof (IM (f M) y Hy) as Q. now rewrite gf in Q.
      + apply lim_pm_intro. intros M. exists (f M). intros y Hy. pose proof (IM (f M) y Hy) as Q. now rewrite gf in Q.
  Qed.
End Inverse.

(* the density of the pushed-forward law integrates to one for EVERY diffeo S (either orientation) *)
Theorem diffeo_density_integrates (P p S S' : R -> R) (up : bool) :
  (forall z, is_derive P z (p z)) -> (forall z, continuous p z) ->
  filterlim P (Rbar_locally m_infty) (locally 0) -> filterlim P (Rbar_locally p_infty) (locally 1) ->
  diffeo S S' up ->
  is_RInt_gen (fun x => p (S x) * Rabs (S' x)) (Rbar_locally m_infty) (Rbar_locally p_infty) 1.
Proof.
  intros HP Hp Lm Lp [D C Sg Sm Spi]. destruct up.
  - apply (is_RInt_gen_ext (fun x => p (S x) * S' x)).
    + apply filter_forall. intros [a b] x _. rewrite Rabs_right; [reflexivity | left; apply Sg].
    + apply (flow_density_integrates_to_one P p S S'); assumption.
  - apply (is_RInt_gen_ext (fun x => p (S x) * - S' x)).
    + apply filter_forall. intros [a b] x _. rewrite Rabs_left; [reflexivity | apply Sg].
    + apply (flow_density_integrates_to_one_decreasing P p S S'); assumption.
Qed.
