(* The main theorem about Model/Bij.v: for every well-constructed tree (sig_of b = Ok _), every correctly
   shaped input and admissible condition, the code-shaped semantics [run] returns exactly the
   definition-shaped semantics [den], the output has the declared shape and the log-det is a scalar.
   Structural induction over the tree: any depth, width, rank, axis.  Closed under the global context. *)
From Coq Require Import List ZArith Bool Arith Lia ZifyBool.
From FJ Require Import Model.Num Model.Tensor Model.Bij Proofs.TensorP.
Import ListNotations.

(* ---------- list / monad helpers ---------- *)
Lemma mapr_Forall2 {X Y} (f : X -> res Y) l r : mapr f l = Ok r -> Forall2 (fun a b => f a = Ok b) l r.
Proof.
  revert r; induction l as [|a l IH]; intros r H; cbn in H.
  - injection H as <-. constructor.
  - destruct (f a) eqn:Ea; cbn in H; [|discriminate]. destruct (mapr f l) eqn:El; cbn in H; [|discriminate].
    injection H as <-. constructor; auto.
Qed.
Lemma mapr_ok {X Y} (f : X -> res Y) (g : X -> Y) l : Forall (fun a => f a = Ok (g a)) l -> mapr f l = Ok (map g l).
Proof. induction 1 as [|a l Ha _ IH]; cbn; [reflexivity|]. now rewrite Ha, IH. Qed.
Lemma mapo_Forall2 {X Y} (f : X -> option Y) l r : mapo f l = Some r -> Forall2 (fun a b => f a = Some b) l r.
Proof.
  revert r; induction l as [|a l IH]; intros r H; cbn in H.
  - injection H as <-. constructor.
  - destruct (f a) eqn:Ea; [|discriminate]. destruct (mapo f l) eqn:El; [|discriminate].
    injection H as <-. constructor; auto.
Qed.
Lemma map2r_ok {X Y Z} (f : X -> Y -> res Z) (g : X -> Y -> Z) l1 l2 :
  Forall2 (fun a b => f a b = Ok (g a b)) l1 l2 -> map2r f l1 l2 = Ok (map2 g l1 l2).
Proof. induction 1 as [|a b l1 l2 Hab _ IH]; cbn; [reflexivity|]. now rewrite Hab, IH. Qed.
Lemma Forall2_map_r' {X Y Y'} (R : X -> Y' -> Prop) (h : Y -> Y') l1 l2 :
  Forall2 (fun a b => R a (h b)) l1 l2 -> Forall2 R l1 (map h l2).
Proof. induction 1; cbn; constructor; auto. Qed.
Lemma Forall2_map_l' {X X' Y} (R : X' -> Y -> Prop) (h : X -> X') l1 l2 :
  Forall2 (fun a b => R (h a) b) l1 l2 -> Forall2 R (map h l1) l2.
Proof. induction 1; cbn; constructor; auto. Qed.
Lemma Forall2_length' {X Y} (R : X -> Y -> Prop) l1 l2 : Forall2 R l1 l2 -> length l1 = length l2.
Proof. induction 1; cbn; auto. Qed.
Lemma Forall2_and {X Y} (R S : X -> Y -> Prop) l1 l2 :
  Forall2 R l1 l2 -> Forall2 S l1 l2 -> Forall2 (fun a b => R a b /\ S a b) l1 l2.
Proof. induction 1; intros H2; inversion H2; subst; constructor; auto. Qed.
Lemma Forall2_impl' {X Y} (R S : X -> Y -> Prop) l1 l2 :
  (forall a b, R a b -> S a b) -> Forall2 R l1 l2 -> Forall2 S l1 l2.
Proof. intros H; induction 1; constructor; auto. Qed.
Lemma Forall2_Forall_l {X Y} (P : X -> Prop) (R : X -> Y -> Prop) l1 l2 :
  Forall P l1 -> Forall2 R l1 l2 -> Forall2 (fun a b => P a /\ R a b) l1 l2.
Proof. intros H1 H2; induction H2; inversion H1; subst; constructor; auto. Qed.
Lemma Forall2_In_r {X Y} (R : X -> Y -> Prop) l1 l2 :
  Forall2 R l1 l2 -> Forall2 (fun a b => R a b /\ In b l2) l1 l2.
Proof.
  induction 1 as [|a b l1 l2 Hab _ IH]; constructor.
  - split; [exact Hab | now left].
  - revert IH. apply Forall2_impl'. intros a0 b0 [H1 H2]. split; [exact H1 | now right].
Qed.
Lemma Forall2_ex_l {X Y} (R : X -> Y -> Prop) l1 l2 : Forall2 R l1 l2 -> Forall (fun a => exists b, R a b) l1.
Proof. induction 1; constructor; eauto. Qed.
Lemma Forall2_seq {X} (R : X -> nat -> Prop) l : forall st, (forall i a, nth_error l i = Some a -> R a (st + i)) ->
  Forall2 R l (seq st (length l)).
Proof.
  induction l as [|a l IH]; intros st H; cbn; constructor.
  - rewrite <- (Nat.add_0_r st). apply H. reflexivity.
  - apply IH. intros i b Hb. replace (S st + i) with (st + S i) by lia. apply H. exact Hb.
Qed.
Lemma map2_map_r {X Y Y' Z} (f : X -> Y' -> Z) (h : Y -> Y') l1 l2 :
  map2 f l1 (map h l2) = map2 (fun a b => f a (h b)) l1 l2.
Proof. revert l2; induction l1 as [|a l1 IH]; intros [|b l2]; cbn; auto. now rewrite IH. Qed.
Lemma map_map2 {X Y Z W} (h : Z -> W) (f : X -> Y -> Z) l1 l2 : map h (map2 f l1 l2) = map2 (fun a b => h (f a b)) l1 l2.
Proof. revert l2; induction l1 as [|a l1 IH]; intros [|b l2]; cbn; auto. now rewrite IH. Qed.
Lemma app_inv_length {X} (a a' b b' : list X) : length a = length a' -> a ++ b = a' ++ b' -> a = a' /\ b = b'.
Proof.
  revert a'; induction a as [|x a IH]; intros [|x' a'] L E; cbn in *; try discriminate; auto.
  injection E as -> E. destruct (IH a') as [-> ->]; auto.
Qed.
Lemma nth_error_split' {X} (l : list X) k n : nth_error l k = Some n -> l = firstn k l ++ n :: skipn (S k) l.
Proof.
  revert k; induction l as [|x l IH]; intros [|k] H; cbn in *; try discriminate.
  - now injection H as ->.
  - f_equal. now apply IH.
Qed.
Lemma nth_middle' {X} (pre post : list X) n d : nth (length pre) (pre ++ n :: post) d = n.
Proof. induction pre; cbn; auto. Qed.
Lemma offsets_bound {X} (Q : X -> nat -> Prop) (R : X -> nat * nat -> Prop) N :
  (forall b n off, Q b n -> off + n <= N -> R b (off, n)) ->
  forall bs sizes acc, Forall2 Q bs sizes -> acc + sumn sizes <= N ->
  Forall2 R bs (combine (offsets_from acc sizes) sizes).
Proof.
  intros H bs sizes acc F. revert acc. induction F as [|b n bs sizes Hb _ IH]; intros acc Hle; cbn; constructor.
  - apply H; [exact Hb|]. unfold sumn in *. cbn in Hle. lia.
  - apply IH. unfold sumn in *. cbn in Hle. lia.
Qed.

Section P.
  Context {A : Type} (O : NumOps A).
  Notation tens := (tensor A).
  Notation bij := (bij A).
  Implicit Types (b : bij) (x y : tens) (c : option tens) (s : shape) (sg : sig).

  Lemma bij_ind' (P : bij -> Prop) :
    (forall l, P (Leaf l)) ->
    (forall bs, Forall P bs -> P (Chain bs)) ->
    (forall bs, Forall P bs -> P (Scan bs)) ->
    (forall b, P b -> P (Invert b)) ->
    (forall ax bs, Forall P bs -> P (Concat ax bs)) ->
    (forall ax bs, Forall P bs -> P (Stack ax bs)) ->
    (forall n m cax bs, Forall P bs -> P (Vmap n m cax bs)) ->
    (forall ix s b, P b -> P (Partial ix s b)) ->
    (forall os cs b, P b -> P (Reshape os cs b)) ->
    (forall e raw b, P b -> P (EmbedCond e raw b)) ->
    forall b, P b.
  Proof.
    intros Hl Hc Hs Hi Hcc Hst Hv Hp Hr He. fix IH 1.
    assert (L : forall bs, Forall P bs).
    { fix IHl 1. intros [|b bs]; constructor; [apply IH | apply IHl]. }
    intros [l|bs|bs|b|ax bs|ax bs|n m cax bs|ix s b|os cs b|e raw b].
    - apply Hl.
    - apply Hc, L.
    - apply Hs, L.
    - apply Hi, IH.
    - apply Hcc, L.
    - apply Hst, L.
    - apply Hv, L.
    - apply Hp, IH.
    - apply Hr, IH.
    - apply He, IH.
  Qed.

  (* the condition a node of cond_shape cs can be called with *)
  Definition cond_ok (cs : option shape) c : Prop :=
    match cs with None => True | Some s => exists cv, c = Some cv /\ has_shape s cv = true end.

  Lemma check_ok sg x c : has_shape (fst sg) x = true -> cond_ok (snd sg) c -> check sg x c = Ok tt.
  Proof.
    intros Hx Hc. unfold check. rewrite Hx. cbn. unfold cond_ok in Hc.
    destruct (snd sg); [|reflexivity]. destruct Hc as (cv & -> & Hcv). now rewrite Hcv.
  Qed.

  (* what is proved of every node *)
  Definition good b d x c sg : Prop :=
    run O b d x c = Ok (fst (den O b d x c), Sc (snd (den O b d x c))) /\
    has_shape (fst sg) (fst (den O b d x c)) = true.
  Definition Pb b : Prop := forall d x c sg,
    sig_of b = Ok sg -> has_shape (fst sg) x = true -> cond_ok (snd sg) c -> good b d x c sg.

  (* ---------- condition shapes of the parts ---------- *)
  Lemma somes_In {X} (l : list (option X)) v : In (Some v) l -> In v (somes l).
  Proof. induction l as [|[a|] l IH]; cbn; intros H; auto; destruct H as [H|H]; try discriminate; auto. left. congruence. Qed.
  Lemma merge_cond_ok l cs ci c : merge_cond_shapes l = Ok cs -> In ci l -> cond_ok cs c -> cond_ok ci c.
  Proof.
    intros Hm Hin Hc. destruct ci as [si|]; [|exact I].
    unfold merge_cond_shapes in Hm. destruct l as [|o l]; [discriminate|].
    apply somes_In in Hin. destruct (somes (o :: l)) as [|s0 r] eqn:Es; [destruct Hin|].
    destruct (forallb (shape_eqb s0) r) eqn:Ef; [|discriminate]. injection Hm as <-.
    destruct Hin as [->|Hin]; [exact Hc|].
    rewrite forallb_forall in Ef. apply Ef, shape_eqb_eq in Hin. now subst.
  Qed.

  (* ---------- Chain / Scan ---------- *)
  Lemma chain_fold_fwd d c s bs :
    Forall (fun b => Pb b /\ exists sg, sig_of b = Ok sg /\ fst sg = s /\ cond_ok (snd sg) c) bs ->
    forall y l, has_shape s y = true ->
    fold_left (fun acc b' => chain_step O (fun z => run O b' d z c) acc) bs (Ok (y, l)) =
      Ok (fold_left (fun acc b' => den_step O (fun z => den O b' d z c) acc) bs (y, l)) /\
    has_shape s (fst (fold_left (fun acc b' => den_step O (fun z => den O b' d z c) acc) bs (y, l))) = true.
  Proof.
    induction 1 as [|b bs (HP & sg & Hs & <- & Hc) _ IH]; intros y l Hy; cbn [fold_left]; [auto|].
    destruct (HP d y c sg Hs Hy Hc) as [Hr Hsh].
    unfold chain_step at 2. cbn [bind fst snd]. rewrite Hr. cbn [bind fst snd tsum].
    unfold den_step at 2 4. cbn [fst snd]. apply IH. exact Hsh.
  Qed.
  Lemma chain_fold_inv d c s bs :
    Forall (fun b => Pb b /\ exists sg, sig_of b = Ok sg /\ fst sg = s /\ cond_ok (snd sg) c) bs ->
    forall y l, has_shape s y = true ->
    fold_right (fun b' acc => chain_step O (fun z => run O b' d z c) acc) (Ok (y, l)) bs =
      Ok (fold_right (fun b' acc => den_step O (fun z => den O b' d z c) acc) (y, l) bs) /\
    has_shape s (fst (fold_right (fun b' acc => den_step O (fun z => den O b' d z c) acc) (y, l) bs)) = true.
  Proof.
    induction 1 as [|b bs (HP & sg & Hs & <- & Hc) _ IH]; intros y l Hy; cbn [fold_right]; [auto|].
    destruct (IH y l Hy) as [Hf Hsh]. rewrite Hf.
    destruct (HP d _ c sg Hs Hsh Hc) as [Hr Hsh'].
    unfold chain_step. cbn [bind fst snd]. rewrite Hr. cbn [bind fst snd tsum].
    unfold den_step at 1 3. cbn [fst snd]. auto.
  Qed.

  Lemma chain_children bs sigs sg c :
    Forall Pb bs -> mapr sig_of bs = Ok sigs -> chain_sig sigs = Ok sg -> cond_ok (snd sg) c ->
    Forall (fun b => Pb b /\ exists sg', sig_of b = Ok sg' /\ fst sg' = fst sg /\ cond_ok (snd sg') c) bs.
  Proof.
    intros HP Hm Hs Hc. apply mapr_Forall2 in Hm.
    unfold chain_sig in Hs. destruct (check_shapes_match (map fst sigs)) eqn:Ec; [|discriminate].
    destruct sigs as [|sg0 sigs']; [discriminate|].
    destruct (merge_cond_shapes (map snd (sg0 :: sigs'))) as [cs|] eqn:Em; cbn in Hs; [|discriminate].
    injection Hs as <-. cbn [fst snd] in *.
    cbn [check_shapes_match map] in Ec. rewrite forallb_forall in Ec.
    generalize (Forall2_ex_l _ _ _ (Forall2_In_r _ _ _ (Forall2_Forall_l _ _ _ _ HP Hm))).
    apply Forall_impl. intros b (sg' & (H1 & H2) & H3).
    split; [exact H1|]. exists sg'. split; [exact H2|]. split.
    - symmetry. apply shape_eqb_eq, Ec. change (fst sg0 :: map fst sigs') with (map fst (sg0 :: sigs')). now apply in_map.
    - eapply merge_cond_ok; [exact Em | | exact Hc]. now apply in_map.
  Qed.
  Lemma same_children bs sigs sg c :
    Forall Pb bs -> mapr sig_of bs = Ok sigs -> same_sig sigs = Ok sg -> cond_ok (snd sg) c ->
    Forall (fun b => Pb b /\ exists sg', sig_of b = Ok sg' /\ fst sg' = fst sg /\ cond_ok (snd sg') c) bs.
  Proof.
    intros HP Hm Hs Hc. apply mapr_Forall2 in Hm.
    unfold same_sig in Hs. destruct sigs as [|sg0 sigs']; [discriminate|].
    destruct (forallb (sig_eqb sg0) (sg0 :: sigs')) eqn:Ef; [|discriminate]. injection Hs as <-.
    rewrite forallb_forall in Ef.
    assert (E : forall sg', In sg' (sg0 :: sigs') -> sg' = sg0).
    { intros [s1 c1] Hin. apply Ef in Hin. unfold sig_eqb in Hin. apply andb_prop in Hin as [E1 E2].
      apply shape_eqb_eq in E1. apply oshape_eqb_eq in E2. destruct sg0; cbn in *; congruence. }
    generalize (Forall2_ex_l _ _ _ (Forall2_In_r _ _ _ (Forall2_Forall_l _ _ _ _ HP Hm))).
    apply Forall_impl. intros b (sg' & (H1 & H2) & H3).
    split; [exact H1|]. exists sg'. rewrite (E sg' H3) in *. auto.
  Qed.

  Lemma good_chain_like bs (b : bij) sg d x c :
    (forall d x c, run O b d x c =
       do sg <- sig_of b; do _ <- check sg x c;
       do r <- match d with
               | Fwd => fold_left (fun acc b' => chain_step O (fun z => run O b' d z c) acc) bs (Ok (x, zero O))
               | Inv => fold_right (fun b' acc => chain_step O (fun z => run O b' d z c) acc) (Ok (x, zero O)) bs
               end;
       Ok (fst r, Sc (snd r))) ->
    (forall d x c, den O b d x c =
       match d with
       | Fwd => fold_left (fun acc b' => den_step O (fun z => den O b' d z c) acc) bs (x, zero O)
       | Inv => fold_right (fun b' acc => den_step O (fun z => den O b' d z c) acc) (x, zero O) bs
       end) ->
    sig_of b = Ok sg ->
    Forall (fun b => Pb b /\ exists sg', sig_of b = Ok sg' /\ fst sg' = fst sg /\ cond_ok (snd sg') c) bs ->
    has_shape (fst sg) x = true -> cond_ok (snd sg) c -> good b d x c sg.
  Proof.
    intros Hrun Hden Hsig Hch Hx Hc. unfold good. rewrite Hrun, Hden, Hsig. cbn [bind].
    rewrite (check_ok sg x c Hx Hc). cbn [bind].
    destruct d.
    - destruct (chain_fold_fwd Fwd c (fst sg) bs Hch x (zero O) Hx) as [E S]. rewrite E. cbn [bind]. auto.
    - destruct (chain_fold_inv Inv c (fst sg) bs Hch x (zero O) Hx) as [E S]. rewrite E. cbn [bind]. auto.
  Qed.

  (* ---------- leaves ---------- *)
  Lemma leaf_good l : Pb (Leaf l).
  Proof.
    intros d x c sg Hs Hx Hc. unfold good. cbn [run den]. rewrite Hs. cbn [bind].
    rewrite (check_ok sg x c Hx Hc). cbn [bind].
    cbn [sig_of] in Hs. destruct l as [s cs|loc|sc|loc sc|s|s p|s w]; cbn [leaf_sig] in Hs.
    - injection Hs as <-. cbn. auto.
    - destruct (wf_t loc) eqn:W; [|discriminate]. injection Hs as <-. cbn [fst snd] in *.
      split; [reflexivity|]. destruct d; cbn; now apply tmap2_shape.
    - destruct (wf_t sc) eqn:W; [|discriminate]. injection Hs as <-. cbn [fst snd] in *.
      split; [reflexivity|]. destruct d; cbn; now apply tmap2_shape.
    - destruct (wf_t loc && wf_t sc && shape_eqb (tshape loc) (tshape sc)) eqn:W; [|discriminate].
      injection Hs as <-. cbn [fst snd] in *. apply andb_prop in W as [W W3]. apply andb_prop in W as [W1 W2].
      apply shape_eqb_eq in W3. unfold wf_t in *. rewrite W3 in W1.
      split; [reflexivity|]. destruct d; cbn; repeat apply tmap2_shape; auto.
    - injection Hs as <-. cbn [fst snd] in *. split; [reflexivity|]. cbn. now apply tflip_shape.
    - destruct (Nat.eqb (length p) (prodn s) && is_perm p) eqn:W; [|discriminate]. injection Hs as <-.
      apply andb_prop in W as [W _]. apply Nat.eqb_eq in W. cbn [fst snd] in *.
      split; [reflexivity|]. cbn [leaf_den fst]. apply unflatten_shape. unfold gather. rewrite map_length.
      destruct d; [exact W|]. unfold argsort. now rewrite map_length, seq_length.
    - destruct (wf_t w) eqn:W; [|discriminate]. injection Hs as <-. cbn [fst snd] in *.
      destruct Hc as (cv & -> & Hcv). split; [reflexivity|]. cbn. now apply tmap_shape.
  Qed.

  (* ---------- single-child wrappers ---------- *)
  Lemma invert_good b : Pb b -> Pb (Invert b).
  Proof.
    intros HP d x c sg Hs Hx Hc. unfold good. cbn [run den]. rewrite Hs. cbn [bind].
    rewrite (check_ok sg x c Hx Hc). cbn [bind]. cbn [sig_of] in Hs. exact (HP (flipd d) x c sg Hs Hx Hc).
  Qed.

  Lemma partial_good ix s b : Pb b -> Pb (Partial ix s b).
  Proof.
    intros HP d x c sg Hs Hx Hc. unfold good. cbn [run den]. rewrite Hs. cbn [bind].
    rewrite (check_ok sg x c Hx Hc). cbn [bind]. cbn [sig_of] in Hs.
    destruct (sig_of b) as [sgb|] eqn:Eb; cbn [bind] in Hs; [|discriminate].
    unfold partial_sig in Hs. destruct (idx_supported ix); [|discriminate].
    destruct (resolve_idx ix s) as [rs|] eqn:Er; [|discriminate].
    destruct (shape_eqb (idx_shape rs s) (fst sgb)) eqn:Ee; [|discriminate]. injection Hs as <-.
    apply shape_eqb_eq in Ee. cbn [fst snd] in *. rewrite Er. cbn [of_opt bind].
    assert (Hg : has_shape (fst sgb) (tgather rs x) = true) by (rewrite <- Ee; eapply tgather_shape; eauto).
    destruct (HP d (tgather rs x) c sgb Eb Hg Hc) as [Hr Hsh]. rewrite Hr. cbn [bind fst snd].
    split; [reflexivity|]. eapply tscatter_shape; eauto. now rewrite Ee.
  Qed.

  Lemma reshape_good os cs b : Pb b -> Pb (Reshape os cs b).
  Proof.
    intros HP d x c sg Hs Hx Hc. unfold good. cbn [run den]. unfold shape_d, cshape_d. rewrite Hs. cbn [bind].
    rewrite (check_ok sg x c Hx Hc). cbn [bind]. cbn [sig_of] in Hs.
    destruct (sig_of b) as [sgb|] eqn:Eb; cbn [bind] in Hs |- *; [|discriminate].
    unfold reshape_sig in Hs.
    set (s' := match os with Some x0 => x0 | None => fst sgb end) in *.
    set (cs' := match cs with Some x0 => Some x0 | None => snd sgb end) in *.
    assert (Hs' : Nat.eqb (prodn s') (prodn (fst sgb)) = true /\ sg = (s', cs') /\
                  match cs', snd sgb with
                  | Some a, Some b0 => prodn a = prodn b0
                  | Some _, None => False
                  | None, _ => True
                  end).
    { destruct (snd sgb) as [csb|] eqn:E1, cs' as [a|] eqn:E2; try discriminate;
      destruct (Nat.eqb (prodn s') (prodn (fst sgb))) eqn:E3; try discriminate.
      - destruct (Nat.eqb (prodn a) (prodn csb)) eqn:E4; [|discriminate]. apply Nat.eqb_eq in E4. injection Hs as <-. auto.
      - injection Hs as <-. auto.
      - injection Hs as <-. auto. }
    destruct Hs' as (Ep & -> & Ec). apply Nat.eqb_eq in Ep. cbn [fst snd] in *.
    assert (Hx' : has_shape (fst sgb) (treshape (fst sgb) x) = true) by (eapply treshape_shape; eauto).
    destruct cs' as [a|] eqn:E2.
    - destruct (snd sgb) as [csb|] eqn:E1; [|destruct Ec]. destruct Hc as (cv & -> & Hcv). cbn [bind].
      assert (Hc' : cond_ok (snd sgb) (Some (treshape csb cv))).
      { rewrite E1. eexists; split; [reflexivity|]. eapply treshape_shape; eauto. }
      destruct (HP d _ _ sgb Eb Hx' Hc') as [Hr Hsh]. rewrite Hr. cbn [bind fst snd].
      split; [reflexivity|]. eapply treshape_shape; eauto.
    - cbn [bind].
      assert (Hc' : cond_ok (snd sgb) c).
      { destruct (snd sgb) as [csb|] eqn:E1; [|exact I]. subst cs'. destruct cs; discriminate. }
      assert (Ed : match c, snd sgb with Some cv, Some csb => c | _, _ => c end = c) by (destruct c, (snd sgb); reflexivity).
      destruct (HP d _ _ sgb Eb Hx' Hc') as [Hr Hsh]. rewrite Hr. cbn [bind fst snd].
      split; [reflexivity|]. eapply treshape_shape; eauto.
  Qed.

  Lemma embed_good e raw b : Pb b -> Pb (EmbedCond e raw b).
  Proof.
    intros HP d x c sg Hs Hx Hc. unfold good. cbn [run den]. rewrite Hs. cbn [bind].
    rewrite (check_ok sg x c Hx Hc). cbn [bind]. cbn [sig_of] in Hs.
    destruct (sig_of b) as [sgb|] eqn:Eb; cbn [bind] in Hs; [|discriminate].
    unfold embed_sig in Hs. destruct (embed_shape e raw) as [es|] eqn:Ee; [|discriminate].
    assert (Hsg : sg = (fst sgb, Some raw) /\ (forall csb, snd sgb = Some csb -> es = csb)).
    { destruct (snd sgb) as [csb|].
      - destruct (shape_eqb es csb) eqn:E1; [|discriminate]. apply shape_eqb_eq in E1. injection Hs as <-.
        split; [reflexivity|]. intros ? [= <-]. exact E1.
      - injection Hs as <-. split; [reflexivity|]. discriminate. }
    destruct Hsg as [-> Hes]. cbn [fst snd] in *. destruct Hc as (cv & -> & Hcv).
    assert (He : exists em, embed_apply O e cv = Some em /\ has_shape es em = true).
    { destruct e as [z|k]; cbn in Ee |- *.
      - injection Ee as <-. eexists; split; [reflexivity|]. now apply tmap_shape.
      - destruct raw as [|n r]; [discriminate|]. injection Ee as <-.
        apply has_shape_cons in Hcv as (l & -> & Hl & Hf). eexists; split; [reflexivity|].
        apply has_shape_Ar. split; [rewrite firstn_length; lia | now apply Forall_firstn']. }
    destruct He as (em & Ea & Hem). rewrite Ea. cbn [of_opt bind option_map]. unfold embed_d. rewrite Ea.
    apply (HP d x (Some em) sgb Eb Hx).
    destruct (snd sgb) as [csb|] eqn:E1; [|exact I]. rewrite <- (Hes csb eq_refl). exists em. auto.
  Qed.

  (* ---------- Concatenate ---------- *)
  Lemma concat_info_spec axis shapes k s pts : concat_info axis shapes = Ok (k, s, pts) ->
    exists s0 pre post sizes, hd_error shapes = Some s0 /\ py_range_index (length s0) axis = Some k /\
      length pre = k /\ Forall2 (fun sh n => sh = pre ++ n :: post) shapes sizes /\
      s = pre ++ sumn sizes :: post /\ pts = accumulate (removelast sizes).
  Proof.
    unfold concat_info. destruct shapes as [|s0 rest]; [discriminate|].
    destruct (py_range_index (length s0) axis) as [k'|] eqn:Ek; [|discriminate].
    destruct (forallb _ (s0 :: rest)) eqn:Ef; [|discriminate].
    match goal with |- context [mapo ?f ?l] => destruct (mapo f l) as [sizes|] eqn:Em end; [|discriminate].
    intros [= <- <- <-].
    destruct (py_range_index_spec _ _ _ Ek) as (Hk & _ & _).
    exists s0, (firstn k' s0), (skipn (S k') s0), sizes.
    unfold zk. rewrite !pslice_firstn, !pslice_skipn, Nat.add_1_r.
    split; [reflexivity|]. split; [exact Ek|]. split; [apply firstn_length_le; lia|].
    split; [|split; reflexivity].
    apply mapo_Forall2 in Em. rewrite forallb_forall in Ef.
    generalize (Forall2_ex_l _ _ _ (Forall2_In_r _ _ _ Em)). intros _.
    assert (G : forall sh n, In sh (s0 :: rest) -> nth_error sh k' = Some n ->
                sh = firstn k' s0 ++ n :: skipn (S k') s0).
    { intros sh n Hin Hn. specialize (Ef sh Hin). apply shape_eqb_eq in Ef. unfold off_axis, zk in Ef.
      rewrite !pslice_firstn, !pslice_skipn, Nat.add_1_r in Ef.
      assert (Hl : k' < length sh) by (apply nth_error_Some; congruence).
      apply app_inv_length in Ef as [E1 E2]; [|rewrite !firstn_length_le; lia].
      rewrite (nth_error_split' sh k' n Hn) at 1. now rewrite E1, E2. }
    clear Ef. revert G Em. generalize (s0 :: rest). intros l0 G Em.
    induction Em as [|sh n l1 sizes1 Hn _ IH]; constructor.
    - apply G; [now left | exact Hn].
    - apply IH. intros; apply G; [now right | assumption].
  Qed.

  (* what the parts of a Concatenate / Stack need: child of shape [shp n], admissible condition *)
  Definition part_ok (shp : nat -> shape) c b (n : nat) : Prop :=
    Pb b /\ exists sg', sig_of b = Ok sg' /\ fst sg' = shp n /\ cond_ok (snd sg') c.

  Lemma children_parts bs sigs cs c (shp : nat -> shape) sizes :
    Forall Pb bs -> mapr sig_of bs = Ok sigs -> merge_cond_shapes (map snd sigs) = Ok cs -> cond_ok cs c ->
    Forall2 (fun sh n => sh = shp n) (map fst sigs) sizes ->
    Forall2 (part_ok shp c) bs sizes.
  Proof.
    intros HP Hm Hmc Hc F. apply mapr_Forall2 in Hm.
    generalize (Forall2_In_r _ _ _ (Forall2_Forall_l _ _ _ _ HP Hm)). clear HP Hm. intros G.
    assert (Hin : forall sg', In sg' sigs -> cond_ok (snd sg') c).
    { intros sg' H. eapply merge_cond_ok; [exact Hmc | | exact Hc]. now apply in_map. }
    assert (G' : Forall2 (fun b sg' => Pb b /\ sig_of b = Ok sg' /\ cond_ok (snd sg') c) bs sigs).
    { revert G. apply Forall2_impl'. intros b sg' [[H1 H2] H3]. auto. }
    clear G Hin Hmc. revert sizes F. induction G' as [|b sg' bs1 sigs1 (H1 & H2 & H3) _ IH]; intros sizes F; cbn in F.
    - inversion F. constructor.
    - inversion F as [|? n ? sizes' Hn F']; subst. constructor.
      + split; [exact H1|]. exists sg'. auto.
      + apply IH. exact F'.
  Qed.

  Lemma concat_parts d c pre post N x : has_shape (pre ++ N :: post) x = true ->
    forall bs sizes acc, Forall2 (part_ok (fun n => pre ++ n :: post) c) bs sizes -> acc + sumn sizes <= N ->
    let h := fun p : nat * nat => tslice (length pre) (fst p) (fst p + snd p) x in
    let ps := combine (offsets_from acc sizes) sizes in
    map2r (fun b' p => run O b' d p c) bs (map h ps) =
      Ok (map2 (fun b' p => (fst (den O b' d (h p) c), Sc (snd (den O b' d (h p) c)))) bs ps) /\
    Forall2 (fun y n => has_shape (pre ++ n :: post) y = true)
            (map2 (fun b' p => fst (den O b' d (h p) c)) bs ps) sizes.
  Proof.
    intros Hx bs sizes acc F. revert acc.
    induction F as [|b n bs sizes (HP & sg' & Hs & Hf & Hc) _ IH]; intros acc Hle h ps; cbn; [split; [reflexivity|constructor]|].
    assert (Hle' : acc + n <= N /\ acc + n + sumn sizes <= N) by (unfold sumn in *; cbn in Hle; lia).
    destruct Hle' as [Hl1 Hl2].
    assert (Hp : has_shape (fst sg') (h (acc, n)) = true).
    { rewrite Hf. unfold h. cbn [fst snd]. replace n with (acc + n - acc) at 1 by lia. apply tslice_shape with (n := N); [exact Hx|lia|lia]. }
    destruct (HP d _ c sg' Hs Hp Hc) as [Hr Hsh]. rewrite Hr. cbn [bind].
    destruct (IH (acc + n) Hl2) as [E1 E2]. cbn zeta in E1, E2. subst h. rewrite E1. cbn [bind]. split; [reflexivity|].
    constructor; [now rewrite <- Hf | exact E2].
  Qed.

  Lemma concat_good ax bs : Forall Pb bs -> Pb (Concat ax bs).
  Proof.
    intros HP d x c sg Hs Hx Hc. unfold good.
    assert (Hd : shape_d (Concat ax bs) = fst sg) by (unfold shape_d; now rewrite Hs).
    cbn [run den]. rewrite !Hd. rewrite Hs. cbn [bind].
    rewrite (check_ok sg x c Hx Hc). cbn [bind]. cbn [sig_of] in Hs. clear Hd.
    destruct (mapr sig_of bs) as [sigs|] eqn:Em; cbn [bind] in Hs |- *; [|discriminate].
    unfold concat_sig in Hs.
    destruct (concat_info ax (map fst sigs)) as [[[k s] pts]|] eqn:Ei; cbn [bind] in Hs |- *; [|discriminate].
    destruct (merge_cond_shapes (map snd sigs)) as [cs|] eqn:Emc; cbn [bind] in Hs; [|discriminate].
    injection Hs as <-. cbn [fst snd] in *.
    destruct (concat_info_spec _ _ _ _ _ Ei) as (s0 & pre & post & sizes & Hhd & Hk & Lp & F & -> & ->).
    assert (Hs0 : exists n0, s0 = pre ++ n0 :: post /\ sizes <> []).
    { destruct (map fst sigs) as [|sh rest]; [discriminate|]. injection Hhd as ->.
      inversion F as [|? n0 ? ? E _]; subst. exists n0. split; [reflexivity|discriminate]. }
    destruct Hs0 as (n0 & -> & Hne).
    assert (Hlen : length (pre ++ sumn sizes :: post) = length (pre ++ n0 :: post)) by (rewrite !app_length; reflexivity).
    rewrite Hlen. unfold np_axis. rewrite Hk. cbn [of_opt bind].
    destruct (py_range_index_spec _ _ _ Hk) as (_ & _ & Ek). rewrite <- Ek. clear Ek.
    subst k. rewrite nth_middle'. rewrite (array_split_offsets _ _ _ Hne).
    generalize (children_parts bs sigs cs c (fun n => pre ++ n :: post) sizes HP Em Emc Hc F). intros Hparts.
    assert (Esz : map (fun b' => nth (length pre) (shape_d b') 0) bs = sizes).
    { clear -Hparts. induction Hparts as [|b n bs sizes (_ & sg' & Hs & Hf & _) _ IH]; cbn; [reflexivity|].
      unfold shape_d at 1. rewrite Hs, Hf, nth_middle'. now rewrite IH. }
    rewrite Esz.
    destruct (concat_parts d c pre post (sumn sizes) x Hx bs sizes 0 Hparts (le_n _)) as [E1 E2].
    cbn zeta in E1, E2. unfold offsets. rewrite E1. cbn [bind].
    rewrite !map_map2. cbn [fst snd].
    match type of E2 with Forall2 _ ?ys _ => assert (Hny : ys <> []) end.
    { destruct bs as [|b bs]; [inversion Hparts; subst; congruence|]. destruct sizes; [congruence|]. cbn. discriminate. }
    destruct (tcat_shape pre post _ sizes Hny E2) as (y & Hy & Sy).
    unfold tcat_d. rewrite Hy. cbn [of_opt bind].
    replace (map2 (fun b' p => Sc (snd (den O b' d (tslice (length pre) (fst p) (fst p + snd p) x) c))) bs
                  (combine (offsets_from 0 sizes) sizes))
      with (map Sc (map snd (map2 (fun b' p => den O b' d (tslice (length pre) (fst p) (fst p + snd p) x) c) bs
                  (combine (offsets_from 0 sizes) sizes)))) by (now rewrite map_map, map_map2).
    rewrite py_sum_scalars. cbn [of_opt bind fst snd]. rewrite map_map2. auto.
  Qed.

  (* ---------- Stack ---------- *)
  Lemma stack_info_spec axis shapes k s : stack_info axis shapes = Ok (k, s) ->
    exists s0 pre post, hd_error shapes = Some s0 /\ py_range_index (length s0 + 1) axis = Some k /\
      length pre = k /\ s0 = pre ++ post /\ Forall (fun sh => sh = s0) shapes /\ s = pre ++ length shapes :: post.
  Proof.
    unfold stack_info. destruct (check_shapes_match shapes) eqn:Ec; [|discriminate].
    destruct shapes as [|s0 rest]; [discriminate|].
    destruct (py_range_index (length s0 + 1) axis) as [k'|] eqn:Ek; [|discriminate].
    intros [= <- <-]. destruct (py_range_index_spec _ _ _ Ek) as (Hk & _ & _).
    exists s0, (firstn k' s0), (skipn k' s0). unfold zk. rewrite pslice_firstn, pslice_skipn.
    split; [reflexivity|]. split; [exact Ek|]. split; [apply firstn_length_le; lia|].
    split; [now rewrite firstn_skipn|]. split; [|reflexivity].
    cbn [check_shapes_match] in Ec. rewrite forallb_forall in Ec. apply Forall_forall. intros sh Hin.
    symmetry. now apply shape_eqb_eq, Ec.
  Qed.

  Lemma stack_parts d c pre post N x : has_shape (pre ++ N :: post) x = true ->
    forall bs st, Forall (fun b => part_ok (fun _ => pre ++ post) c b 0) bs -> st + length bs <= N ->
    let h := fun i => tindex (length pre) i x in
    map2r (fun b' p => run O b' d p c) bs (map h (seq st (length bs))) =
      Ok (map2 (fun b' i => (fst (den O b' d (h i) c), Sc (snd (den O b' d (h i) c)))) bs (seq st (length bs))) /\
    Forall (fun y => has_shape (pre ++ post) y = true)
           (map2 (fun b' i => fst (den O b' d (h i) c)) bs (seq st (length bs))).
  Proof.
    intros Hx bs st F. revert st.
    induction F as [|b bs (HP & sg' & Hs & Hf & Hc) _ IH]; intros st Hle h; cbn; [split; [reflexivity|constructor]|].
    cbn in Hle.
    assert (Hp : has_shape (fst sg') (h st) = true) by (rewrite Hf; apply tindex_shape with (n := N); [exact Hx|lia]).
    destruct (HP d _ c sg' Hs Hp Hc) as [Hr Hsh]. rewrite Hr. cbn [bind].
    destruct (IH (S st)) as [E1 E2]; [lia|]. cbn zeta in E1, E2. subst h. rewrite E1. cbn [bind]. split; [reflexivity|].
    constructor; [now rewrite <- Hf | exact E2].
  Qed.

  Lemma stack_good ax bs : Forall Pb bs -> Pb (Stack ax bs).
  Proof.
    intros HP d x c sg Hs Hx Hc. unfold good.
    assert (Hd : shape_d (Stack ax bs) = fst sg) by (unfold shape_d; now rewrite Hs).
    cbn [run den]. rewrite !Hd. rewrite Hs. cbn [bind].
    rewrite (check_ok sg x c Hx Hc). cbn [bind]. cbn [sig_of] in Hs. clear Hd.
    destruct (mapr sig_of bs) as [sigs|] eqn:Em; cbn [bind] in Hs |- *; [|discriminate].
    unfold stack_sig in Hs.
    destruct (stack_info ax (map fst sigs)) as [[k s]|] eqn:Ei; cbn [bind] in Hs |- *; [|discriminate].
    destruct (merge_cond_shapes (map snd sigs)) as [cs|] eqn:Emc; cbn [bind] in Hs; [|discriminate].
    injection Hs as <-. cbn [fst snd] in *.
    destruct (stack_info_spec _ _ _ _ Ei) as (s0 & pre & post & Hhd & Hk & Lp & -> & Fsh & ->).
    assert (Hlb : length (map fst sigs) = length bs).
    { rewrite map_length. symmetry. eapply Forall2_length', mapr_Forall2, Em. }
    rewrite Hlb in *.
    assert (Hne : bs <> []) by (intros ->; destruct sigs; cbn in *; discriminate).
    assert (Hlen : length (pre ++ length bs :: post) = length (pre ++ post) + 1) by (rewrite !app_length; cbn; lia).
    rewrite Hlen. unfold np_axis. rewrite Hk. cbn [of_opt bind].
    destruct (py_range_index_spec _ _ _ Hk) as (_ & _ & Ek). rewrite <- Ek. clear Ek.
    subst k. rewrite nth_middle'.
    assert (Hparts : Forall (fun b => part_ok (fun _ => pre ++ post) c b 0) bs).
    { assert (F2 : Forall2 (fun sh (n : nat) => sh = pre ++ post) (map fst sigs) (repeat 0 (length (map fst sigs)))).
      { clear -Fsh. induction Fsh; cbn; constructor; auto. }
      generalize (children_parts bs sigs cs c (fun _ => pre ++ post) _ HP Em Emc Hc F2).
      intros G. apply Forall2_ex_l in G. revert G. apply Forall_impl.
      intros b (n & H1 & sg' & H2). split; [exact H1|]. exists sg'. exact H2. }
    unfold split_eq. destruct (Nat.eqb (length bs) 0) eqn:E0; [apply Nat.eqb_eq in E0; destruct bs; [congruence|discriminate]|].
    rewrite Nat.mod_same by (destruct bs; [congruence|discriminate]). cbn [Nat.eqb negb].
    rewrite Nat.div_same by (destruct bs; [congruence|discriminate]). cbn [of_opt bind].
    rewrite (mapo_map_Some _ _ (fun j => tindex (length pre) j x)).
    2:{ apply Forall_forall. intros j Hj. apply in_seq in Hj. rewrite Nat.mul_1_r.
        replace ((j + 1) * 1) with (j + 1) by lia. apply tsqueeze_slice with (n := length bs) (post := post); [exact Hx|lia]. }
    cbn [of_opt bind].
    destruct (stack_parts d c pre post (length bs) x Hx bs 0 Hparts (le_n _)) as [E1 E2].
    cbn zeta in E1, E2. rewrite E1. cbn [bind]. rewrite !map_map2. cbn [fst snd].
    match type of E2 with Forall _ ?ys => assert (Hny : ys <> []) end.
    { destruct bs; [congruence|]. cbn. discriminate. }
    destruct (tstack_shape pre post _ Hny E2) as (y & Hy & Sy).
    unfold tstack_d. rewrite Hy. cbn [of_opt bind].
    rewrite map2_length, seq_length, Nat.min_id in Sy.
    replace (map2 (fun b' i => Sc (snd (den O b' d (tindex (length pre) i x) c))) bs (seq 0 (length bs)))
      with (map Sc (map snd (map2 (fun b' i => den O b' d (tindex (length pre) i x) c) bs (seq 0 (length bs)))))
      by (now rewrite map_map, map_map2).
    rewrite py_sum_scalars. cbn [of_opt bind fst snd]. rewrite map_map2. auto.
  Qed.

  (* ---------- Vmap ---------- *)
  Lemma repeat_Forall {X} (P : X -> Prop) v n : P v -> Forall P (repeat v n).
  Proof. intros H. induction n; cbn; constructor; auto. Qed.

  Lemma vmap_conds_ok n cs0 cax cs c :
    vmap_cshape n cs0 cax = Ok cs -> (cs0 = None -> cax = None) -> cond_ok cs c ->
    let r := den_conds n (length (match cs with Some s => s | None => [] end)) cax c in
    vmap_conds n cs cax c = Ok r /\ length r = n /\ Forall (cond_ok cs0) r.
  Proof.
    intros Hv Hn Hc r. subst r. unfold vmap_cshape in Hv. unfold vmap_conds, den_conds.
    destruct cs0 as [s0|].
    - destruct cax as [a|].
      + destruct (py_range_index (length s0 + 1) a) as [k|] eqn:Ek; [|discriminate]. injection Hv as <-.
        destruct Hc as (cv & -> & Hcv). unfold zk in *. rewrite pslice_firstn, pslice_skipn in *.
        destruct (py_range_index_spec _ _ _ Ek) as (Hk & _ & Ekk).
        cbn [app] in *.
        assert (Hl : length (firstn k s0 ++ n :: skipn k s0) = length s0 + 1).
        { rewrite !app_length, firstn_length_le by lia. cbn [length]. rewrite skipn_length. lia. }
        rewrite Hl. unfold np_axis. rewrite Ek, <- Ekk.
        assert (Lp : length (firstn k s0) = k) by (apply firstn_length_le; lia).
        replace (nth k (firstn k s0 ++ n :: skipn k s0) 0) with n by (rewrite <- Lp at 1; now rewrite nth_middle').
        rewrite Nat.eqb_refl.
        split; [reflexivity|]. split; [now rewrite map_length, seq_length|].
        apply Forall_map, Forall_forall. intros i Hi. apply in_seq in Hi.
        exists (tindex k i cv). split; [reflexivity|].
        assert (Hi' : i < n) by lia.
        pose proof (tindex_shape (firstn k s0) n (skipn k s0) i cv Hcv Hi') as H.
        rewrite Lp, firstn_skipn in H. exact H.
      + injection Hv as <-. destruct Hc as (cv & -> & Hcv).
        split; [reflexivity|]. split; [apply repeat_length|]. apply repeat_Forall. exists cv. auto.
    - injection Hv as <-. rewrite (Hn eq_refl). destruct c as [cv|].
      + split; [reflexivity|]. split; [apply repeat_length|]. apply repeat_Forall. exact I.
      + split; [reflexivity|]. split; [apply repeat_length|]. apply repeat_Forall. exact I.
  Qed.

  Definition slice_ok (sg0 : sig) (p : tens * option tens) : Prop :=
    has_shape (fst sg0) (fst p) = true /\ cond_ok (snd sg0) (snd p).

  Lemma vmap_mapped d sg0 bs : Forall (fun b => Pb b /\ sig_of b = Ok sg0) bs ->
    forall ps, Forall (slice_ok sg0) ps -> length bs = length ps ->
    map2r (fun b' p => run O b' d (fst p) (snd p)) bs ps =
      Ok (map2 (fun b' p => (fst (den O b' d (fst p) (snd p)), Sc (snd (den O b' d (fst p) (snd p))))) bs ps) /\
    Forall (fun y => has_shape (fst sg0) y = true) (map2 (fun b' p => fst (den O b' d (fst p) (snd p))) bs ps).
  Proof.
    induction 1 as [|b bs [HP Hs] _ IH]; intros [|p ps] Fp L; cbn in L; try discriminate; cbn; [split; [reflexivity|constructor]|].
    inversion Fp as [|? ? [Hx Hc] Fp']; subst.
    destruct (HP d (fst p) (snd p) sg0 Hs Hx Hc) as [Hr Hsh]. rewrite Hr. cbn [bind].
    destruct (IH ps Fp') as [E1 E2]; [lia|]. rewrite E1. cbn [bind]. split; [reflexivity|]. constructor; auto.
  Qed.
  Lemma vmap_bcast d sg0 b0 : Pb b0 -> sig_of b0 = Ok sg0 ->
    forall ps, Forall (slice_ok sg0) ps ->
    mapr (fun p => run O b0 d (fst p) (snd p)) ps =
      Ok (map (fun p => (fst (den O b0 d (fst p) (snd p)), Sc (snd (den O b0 d (fst p) (snd p))))) ps) /\
    Forall (fun y => has_shape (fst sg0) y = true) (map (fun p => fst (den O b0 d (fst p) (snd p))) ps).
  Proof.
    intros HP Hs. induction 1 as [|p ps [Hx Hc] _ [E1 E2]]; cbn; [split; [reflexivity|constructor]|].
    destruct (HP d (fst p) (snd p) sg0 Hs Hx Hc) as [Hr Hsh]. rewrite Hr. cbn [bind]. rewrite E1. cbn [bind].
    split; [reflexivity|]. constructor; auto.
  Qed.
  Lemma combine_Forall {X Y} (P : X -> Prop) (Q : Y -> Prop) l1 l2 :
    Forall P l1 -> Forall Q l2 -> Forall (fun p => P (fst p) /\ Q (snd p)) (combine l1 l2).
  Proof.
    intros H1. revert l2. induction H1 as [|a l1 Ha _ IH]; intros l2 H2; cbn; [constructor|].
    destruct H2 as [|b l2 Hb H2]; constructor; auto.
  Qed.

  Lemma vmap_good n mapped cax bs : Forall Pb bs -> Pb (Vmap n mapped cax bs).
  Proof.
    intros HP d x c sg Hs Hx Hc. unfold good.
    assert (Hd : cshape_d (Vmap n mapped cax bs) = snd sg) by (unfold cshape_d; now rewrite Hs).
    cbn [run den]. rewrite !Hd, Hs. cbn [bind].
    rewrite (check_ok sg x c Hx Hc). cbn [bind]. cbn [sig_of] in Hs. clear Hd.
    destruct (mapr sig_of bs) as [sigs|] eqn:Em; cbn [bind] in Hs; [|discriminate].
    unfold vmap_sig in Hs.
    destruct (if mapped then if Nat.eqb (length sigs) n then same_sig sigs else Err Unsupported
              else match sigs with [sg0] => Ok sg0 | _ => Err Unsupported end) as [sg0|] eqn:E0; cbn [bind] in Hs; [|discriminate].
    assert (Hv : exists cs, vmap_cshape n (snd sg0) cax = Ok cs /\ sg = (n :: fst sg0, cs) /\ (snd sg0 = None -> cax = None)).
    { destruct (snd sg0) as [cs0|] eqn:E1, cax as [a|] eqn:E2; try discriminate;
        (destruct (vmap_cshape n _ _) as [cs|] eqn:Ev; cbn [bind] in Hs; [|discriminate]);
        injection Hs as <-; exists cs; repeat split; auto; discriminate. }
    destruct Hv as (cs & Hv & -> & Hnone). cbn [fst snd] in *.
    apply has_shape_cons in Hx as (xs & -> & Lx & Fx).
    destruct (vmap_conds_ok n (snd sg0) cax cs c Hv Hnone Hc) as (Ec & Lc & Fc). cbn zeta in Ec, Lc, Fc.
    rewrite Ec. cbn [bind].
    set (cl := den_conds n (length match cs with Some s => s | None => [] end) cax c) in *.
    assert (Fp : Forall (slice_ok sg0) (combine xs cl)).
    { apply (combine_Forall (fun t => has_shape (fst sg0) t = true) (cond_ok (snd sg0))); assumption. }
    assert (Lp : length (combine xs cl) = n) by (rewrite combine_length; lia).
    apply mapr_Forall2 in Em.
    destruct mapped.
    - destruct (Nat.eqb (length sigs) n) eqn:El; [|discriminate]. apply Nat.eqb_eq in El.
      assert (Hch : Forall (fun b => Pb b /\ sig_of b = Ok sg0) bs).
      { unfold same_sig in E0. destruct sigs as [|sg1 sigs']; [discriminate|].
        destruct (forallb (sig_eqb sg1) (sg1 :: sigs')) eqn:Ef; [|discriminate]. injection E0 as ->.
        rewrite forallb_forall in Ef.
        generalize (Forall2_ex_l _ _ _ (Forall2_In_r _ _ _ (Forall2_Forall_l _ _ _ _ HP Em))).
        apply Forall_impl. intros b (sg' & (H1 & H2) & H3). split; [exact H1|]. rewrite H2. f_equal.
        apply Ef in H3. unfold sig_eqb in H3. apply andb_prop in H3 as [E1 E2].
        apply shape_eqb_eq in E1. apply oshape_eqb_eq in E2. destruct sg0, sg'; cbn in *; congruence. }
      assert (Lb : length bs = length (combine xs cl)) by (rewrite Lp, <- El; eapply Forall2_length'; eauto).
      destruct (vmap_mapped d sg0 bs Hch _ Fp Lb) as [E1 E2]. rewrite E1. cbn [bind].
      rewrite !map_map2. cbn [fst snd].
      replace (map2 (fun b' p => Sc (snd (den O b' d (fst p) (snd p)))) bs (combine xs cl))
        with (map Sc (map snd (map2 (fun b' p => den O b' d (fst p) (snd p)) bs (combine xs cl))))
        by (now rewrite map_map, map_map2).
      rewrite tsum_scalars, map_map2. split; [reflexivity|].
      apply has_shape_Ar. split; [|exact E2]. rewrite map2_length. lia.
    - destruct sigs as [|sg1 [|]]; try discriminate. injection E0 as ->.
      inversion Em as [|b0 ? bs' ? Hb0 Em']; subst. inversion Em'; subst. inversion HP as [|? ? HP0 _]; subst.
      destruct (vmap_bcast d sg0 b0 HP0 Hb0 _ Fp) as [E1 E2]. rewrite E1. cbn [bind].
      rewrite !map_map. cbn [fst snd].
      replace (map (fun p => Sc (snd (den O b0 d (fst p) (snd p)))) (combine xs cl))
        with (map Sc (map snd (map (fun p => den O b0 d (fst p) (snd p)) (combine xs cl))))
        by (now rewrite !map_map).
      rewrite tsum_scalars, map_map. split; [reflexivity|].
      apply has_shape_Ar. split; [|exact E2]. now rewrite map_length.
  Qed.

  (* ================= the main theorem ================= *)
  Theorem run_is_den_all : forall b, Pb b.
  Proof.
    apply bij_ind'.
    - apply leaf_good.
    - intros bs HP d x c sg Hs Hx Hc.
      apply (good_chain_like bs (Chain bs)); try assumption; try (intros; reflexivity).
      cbn [sig_of] in Hs. destruct (mapr sig_of bs) as [sigs|] eqn:Em; cbn [bind] in Hs; [|discriminate].
      eapply chain_children; eauto.
    - intros bs HP d x c sg Hs Hx Hc.
      apply (good_chain_like bs (Scan bs)); try assumption; try (intros; reflexivity).
      cbn [sig_of] in Hs. destruct (mapr sig_of bs) as [sigs|] eqn:Em; cbn [bind] in Hs; [|discriminate].
      eapply same_children; eauto.
    - apply invert_good.
    - apply concat_good.
    - apply stack_good.
    - apply vmap_good.
    - apply partial_good.
    - apply reshape_good.
    - apply embed_good.
  Qed.

  (* every node starts with the checks of _unwrap_check_and_cast *)
  Lemma run_entry b d x c : run O b d x c =
    do sg <- sig_of b; do _ <- check sg x c; run O b d x c.
  Proof.
    destruct (sig_of b) as [sg|e] eqn:Es; cbn [bind].
    - destruct (check sg x c) as [[]|e] eqn:Ec; cbn [bind]; [reflexivity|].
      destruct b; cbn [run]; rewrite Es; cbn [bind]; rewrite Ec; reflexivity.
    - destruct b; cbn [run]; rewrite Es; reflexivity.
  Qed.
  Lemma check_inv sg x c : check sg x c = Ok tt -> has_shape (fst sg) x = true /\ cond_ok (snd sg) c.
  Proof.
    unfold check, cond_ok. destruct (has_shape (fst sg) x); cbn; [|discriminate].
    destruct (snd sg) as [cs|]; [|auto]. destruct c as [cv|]; [|discriminate].
    destruct (has_shape cs cv) eqn:E; [|discriminate]. eauto.
  Qed.
End P.
