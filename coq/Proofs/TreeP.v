(* Lemmas about Model/Tree.v (wrappers.unwrap, partition / combine, the training step on the two halves,
   the pytree algebra).  Everything here is discrete: closed under the global context. *)
From Coq Require Import List ZArith Bool Arith Lia Permutation.
From FJ Require Import Model.Num Model.Tree.
Import ListNotations.

Section MapM.
  Context {X Y : Type}.
  Lemma mapM_Some_Forall2 (f : X -> option Y) l l' :
    mapM f l = Some l' -> Forall2 (fun x y => f x = Some y) l l'.
  Proof.
    revert l'. induction l as [|x r IH]; cbn; intros l' H.
    - inversion H. constructor.
    - destruct (f x) eqn:E; [|discriminate]. destruct (mapM f r) eqn:E2; [|discriminate].
      inversion H; subst. constructor; auto.
  Qed.
  Lemma Forall2_mapM (f : X -> option Y) l l' :
    Forall2 (fun x y => f x = Some y) l l' -> mapM f l = Some l'.
  Proof. induction 1 as [|x y l l' H _ IH]; cbn; [reflexivity|]. rewrite H, IH. reflexivity. Qed.
  Lemma mapM_length (f : X -> option Y) l l' : mapM f l = Some l' -> length l' = length l.
  Proof. intros H. apply mapM_Some_Forall2 in H. induction H; cbn; congruence. Qed.
End MapM.

Lemma forallb_Forall_true {X} (f : X -> bool) l : forallb f l = true <-> Forall (fun x => f x = true) l.
Proof.
  induction l as [|x l IH]; cbn.
  - split; intros; [constructor | reflexivity].
  - rewrite andb_true_iff, IH. split.
    + intros [H1 H2]. constructor; assumption.
    + intros H. inversion H; subst. split; assumption.
Qed.

Section TreeP.
  Variables V Sp T K : Type.
  Notation tree := (tree V Sp T K).

  Lemma tree_ind' (P : tree -> Prop) :
    (forall k v, P (Arr k v)) -> (forall s, P (Static s)) -> P Hole ->
    (forall tag l, Forall P l -> P (Node tag l)) -> (forall k l, Forall P l -> P (W k l)) ->
    forall t, P t.
  Proof.
    intros HA HS HH HN HW. fix IH 1.
    intros [k v|s| |tag l|k l]; [apply HA|apply HS|apply HH|apply HN|apply HW];
      (induction l as [|t l IHl]; constructor; [apply IH | exact IHl]).
  Qed.

  Notation cleanb := (cleanb V Sp T K).

  (* ================= unwrap ================= *)
  Section Unwrap.
    Variable apply : K -> list tree -> option tree.
    (* what .unwrap() of a wrapper returns contains no wrapper, provided its fields do not.  True of the five
       classes of wrappers.py (lemma wapply_clean below); for Lambda it is a condition on the user's fn. *)
    Hypothesis apply_clean : forall k l u, forallb cleanb l = true -> apply k l = Some u -> cleanb u = true.
    Notation unwrap := (unwrap V Sp T K apply).

    Lemma mapM_unwrap_clean l l' :
      Forall (fun t => forall u, unwrap t = Some u -> cleanb u = true) l ->
      mapM unwrap l = Some l' -> forallb cleanb l' = true.
    Proof.
      intros HF HM. apply mapM_Some_Forall2 in HM. apply forallb_Forall_true.
      induction HM as [|x y l l' Hxy _ IH]; constructor.
      - inversion HF; subst. eauto.
      - inversion HF; subst. auto.
    Qed.

    Lemma unwrap_clean t : forall u, unwrap t = Some u -> cleanb u = true.
    Proof.
      induction t as [k v|s| |tag l IH|k l IH] using tree_ind'; cbn [Tree.unwrap]; intros u H.
      - inversion H; reflexivity.
      - inversion H; reflexivity.
      - inversion H; reflexivity.
      - destruct (mapM unwrap l) as [l'|] eqn:E; [|discriminate]. inversion H; subst. cbn.
        eapply mapM_unwrap_clean; eauto.
      - destruct (mapM unwrap l) as [l'|] eqn:E; [|discriminate].
        eapply apply_clean; [|exact H]. eapply mapM_unwrap_clean; eauto.
    Qed.

    Lemma unwrap_no_wrappers t : cleanb t = true -> unwrap t = Some t.
    Proof.
      induction t as [k v|s| |tag l IH|k l IH] using tree_ind'; cbn [Tree.unwrap Tree.cleanb]; intros Hc;
        try reflexivity; [|discriminate].
      apply forallb_Forall_true in Hc.
      assert (HM : mapM unwrap l = Some l).
      { apply Forall2_mapM. induction l as [|x l IHl]; constructor.
        - inversion IH; inversion Hc; subst; auto.
        - inversion IH; inversion Hc; subst; auto. }
      rewrite HM. reflexivity.
    Qed.

    Lemma unwrap_idempotent t u : unwrap t = Some u -> unwrap u = Some u.
    Proof. intros H. apply unwrap_no_wrappers. eapply unwrap_clean; eauto. Qed.

    (* methods unwrap self first: a caller who unwrapped already gets the same result *)
    Lemma method_unwrap_invariant {X Y : Type} (m : tree -> X -> Y) self u x :
      unwrap self = Some u -> run_method V Sp T K apply m u x = run_method V Sp T K apply m self x.
    Proof. intros H. unfold run_method. rewrite H, (unwrap_idempotent _ _ H). reflexivity. Qed.

    (* ---------- instrumented unwrap ---------- *)
    Variable Id : Type.
    Variable id_of : K -> Id.
    Notation unwrap_i := (unwrap_i V Sp T K apply Id id_of).
    Notation postorder_ids := (postorder_ids V Sp T K Id id_of).
    Notation wrapper_ids := (wrapper_ids V Sp T K Id id_of).

    Lemma mapM_unwrap_i_spec l rs :
      Forall (fun t => forall u tr, unwrap_i t = Some (u, tr) -> unwrap t = Some u /\ tr = postorder_ids t) l ->
      mapM unwrap_i l = Some rs ->
      mapM unwrap l = Some (map fst rs) /\ concat (map snd rs) = flat_map postorder_ids l.
    Proof.
      intros HF HM. apply mapM_Some_Forall2 in HM.
      induction HM as [|x [u tr] l rs Hx _ IH]; cbn.
      - split; reflexivity.
      - inversion HF as [|? ? Hx' HF']; subst. destruct (Hx' _ _ Hx) as [H1 H2].
        destruct (IH HF') as [H3 H4]. rewrite H1, H3, H2, H4. split; reflexivity.
    Qed.

    Lemma unwrap_i_spec t : forall u tr, unwrap_i t = Some (u, tr) -> unwrap t = Some u /\ tr = postorder_ids t.
    Proof.
      induction t as [k v|s| |tag l IH|k l IH] using tree_ind';
        cbn [Tree.unwrap_i Tree.unwrap Tree.postorder_ids]; intros u tr H.
      - inversion H; subst; split; reflexivity.
      - inversion H; subst; split; reflexivity.
      - inversion H; subst; split; reflexivity.
      - destruct (mapM unwrap_i l) as [rs|] eqn:E; [|discriminate]. inversion H; subst.
        destruct (mapM_unwrap_i_spec _ _ IH E) as [H1 H2]. rewrite H1, H2. split; reflexivity.
      - destruct (mapM unwrap_i l) as [rs|] eqn:E; [|discriminate].
        destruct (mapM_unwrap_i_spec _ _ IH E) as [H1 H2]. rewrite H1.
        destruct (apply k (map fst rs)) as [u'|] eqn:Ea; [|discriminate]. inversion H; subst.
        rewrite H2. split; reflexivity.
    Qed.

    Lemma mapM_unwrap_i_total l l' :
      Forall (fun t => forall u, unwrap t = Some u -> exists tr, unwrap_i t = Some (u, tr)) l ->
      mapM unwrap l = Some l' -> exists rs, mapM unwrap_i l = Some rs /\ map fst rs = l'.
    Proof.
      intros HF HM. apply mapM_Some_Forall2 in HM.
      induction HM as [|x y l l' Hx _ IH]; cbn.
      - exists []. split; reflexivity.
      - inversion HF as [|? ? Hx' HF']; subst. destruct (Hx' _ Hx) as [tr Htr].
        destruct (IH HF') as [rs [H1 H2]]. rewrite Htr, H1. exists ((y, tr) :: rs). cbn. rewrite H2. split; reflexivity.
    Qed.

    Lemma unwrap_i_total t : forall u, unwrap t = Some u -> exists tr, unwrap_i t = Some (u, tr).
    Proof.
      induction t as [k v|s| |tag l IH|k l IH] using tree_ind'; cbn [Tree.unwrap_i Tree.unwrap]; intros u H.
      - inversion H; subst; eexists; reflexivity.
      - inversion H; subst; eexists; reflexivity.
      - inversion H; subst; eexists; reflexivity.
      - destruct (mapM unwrap l) as [l'|] eqn:E; [|discriminate]. inversion H; subst.
        destruct (mapM_unwrap_i_total _ _ IH E) as [rs [H1 H2]]. rewrite H1, H2. eexists; reflexivity.
      - destruct (mapM unwrap l) as [l'|] eqn:E; [|discriminate].
        destruct (mapM_unwrap_i_total _ _ IH E) as [rs [H1 H2]]. rewrite H1, H2, H. eexists; reflexivity.
    Qed.

    Lemma postorder_perm t : Permutation (postorder_ids t) (wrapper_ids t).
    Proof.
      induction t as [k v|s| |tag l IH|k l IH] using tree_ind'; cbn [Tree.postorder_ids Tree.wrapper_ids];
        try constructor.
      - induction IH as [|x l Hx _ IHl]; cbn; [constructor|]. apply Permutation_app; assumption.
      - rewrite Permutation_app_comm. cbn. constructor.
        induction IH as [|x l Hx _ IHl]; cbn; [constructor|]. apply Permutation_app; assumption.
    Qed.

    (* the trace of wrappers applied is exactly: every wrapper of the tree, once, children before parents *)
    Lemma unwrap_trace_postorder t tr :
      unwrap_trace V Sp T K apply Id id_of t = Some tr -> tr = postorder_ids t.
    Proof.
      unfold unwrap_trace. destruct (unwrap_i t) as [[u tr']|] eqn:E; cbn; [|discriminate].
      intros H; inversion H; subst. eapply unwrap_i_spec; eauto.
    Qed.
    Lemma unwrap_each_once t tr :
      unwrap_trace V Sp T K apply Id id_of t = Some tr -> Permutation tr (wrapper_ids t).
    Proof. intros H. rewrite (unwrap_trace_postorder _ _ H). apply postorder_perm. Qed.
    Lemma unwrap_trace_defined t u : unwrap t = Some u -> exists tr, unwrap_trace V Sp T K apply Id id_of t = Some tr.
    Proof. intros H. destruct (unwrap_i_total _ _ H) as [tr Htr]. exists tr. unfold unwrap_trace. rewrite Htr. reflexivity. Qed.
    Lemma unwrap_i_result t u tr : unwrap_i t = Some (u, tr) -> unwrap t = Some u.
    Proof. intros H. eapply unwrap_i_spec; eauto. Qed.
    (* inside-out: the wrapper itself is applied last, after every wrapper nested in its fields *)
    Lemma unwrap_inside_out k l tr :
      unwrap_trace V Sp T K apply Id id_of (W k l) = Some tr ->
      exists tr', tr = tr' ++ [id_of k] /\ Permutation tr' (flat_map wrapper_ids l).
    Proof.
      intros H. rewrite (unwrap_trace_postorder _ _ H). cbn [Tree.postorder_ids].
      eexists; split; [reflexivity|]. clear H.
      induction l as [|x l IHl]; cbn; [constructor|]. apply Permutation_app; [apply postorder_perm|exact IHl].
    Qed.
  End Unwrap.

  (* ================= partition / combine / training ================= *)
  Section Partition.
    Variable is_nt : K -> bool.
    Notation part := (part V Sp T K is_nt).
    Notation comb := (comb V Sp T K).

    Definition comb_list : list tree -> list tree -> list tree :=
      fix go (la lb : list tree) : list tree :=
        match la, lb with x :: la', y :: lb' => comb x y :: go la' lb' | _, _ => la end.
    Lemma comb_Node tag la tag' lb : comb (Node tag la) (Node tag' lb) = Node tag (comb_list la lb).
    Proof. reflexivity. Qed.
    Lemma comb_W k la k' lb : comb (W k la) (W k' lb) = W k (comb_list la lb).
    Proof. reflexivity. Qed.
    Lemma part_Node tag l : part (Node tag l) = (Node tag (map fst (map part l)), Node tag (map snd (map part l))).
    Proof. reflexivity. Qed.
    Lemma part_W k l : part (W k l) = if is_nt k then (Hole, W k l)
                                      else (W k (map fst (map part l)), W k (map snd (map part l))).
    Proof. reflexivity. Qed.

    Lemma comb_list_part l :
      Forall (fun t => comb (fst (part t)) (snd (part t)) = t) l ->
      comb_list (map fst (map part l)) (map snd (map part l)) = l.
    Proof. induction 1 as [|x l Hx _ IH]; cbn; [reflexivity|]. rewrite Hx. f_equal. exact IH. Qed.

    (* combine after partition is the identity *)
    Lemma comb_part t : comb (fst (part t)) (snd (part t)) = t.
    Proof.
      induction t as [k v|s| |tag l IH|k l IH] using tree_ind'.
      - cbn. destruct (inexact k); reflexivity.
      - reflexivity.
      - reflexivity.
      - rewrite part_Node. cbn [fst snd]. rewrite comb_Node, comb_list_part by exact IH. reflexivity.
      - rewrite part_W. destruct (is_nt k); [reflexivity|].
        cbn [fst snd]. rewrite comb_W, comb_list_part by exact IH. reflexivity.
    Qed.

    (* the skeleton of a tree: everything but the array values *)
    Fixpoint skel (t : tree) : Tree.tree unit Sp T K :=
      match t with
      | Arr k _ => Arr k tt
      | Static s => Static s
      | Hole => Hole
      | Node tag l => Node tag (map skel l)
      | W k l => W k (map skel l)
      end.

    Lemma part_comb_list l : forall l',
      Forall (fun t => forall p', skel p' = skel (fst (part t)) -> part (comb p' (snd (part t))) = (p', snd (part t))) l ->
      map skel l' = map skel (map fst (map part l)) ->
      map fst (map part (comb_list l' (map snd (map part l)))) = l' /\
      map snd (map part (comb_list l' (map snd (map part l)))) = map snd (map part l).
    Proof.
      induction l as [|x l IHl]; intros l' HF HS.
      - destruct l'; [|discriminate]. split; reflexivity.
      - destruct l' as [|y l']; [discriminate|]. cbn in HS. inversion HS as [[Hy Hl]].
        inversion HF as [|? ? Hx HF']; subst. cbn.
        rewrite (Hx _ Hy). cbn [fst snd]. destruct (IHl _ HF' Hl) as [H1 H2].
        fold comb_list. rewrite H1, H2. split; reflexivity.
    Qed.

    (* whatever the optimiser writes into the params half (same skeleton, any values), re-partitioning the
       combined model gives back exactly that params half and the ORIGINAL static half *)
    Lemma part_comb_like t : forall p',
      skel p' = skel (fst (part t)) -> part (comb p' (snd (part t))) = (p', snd (part t)).
    Proof.
      induction t as [k v|s| |tag l IH|k l IH] using tree_ind'; intros p' HS.
      - cbn in *. destruct (inexact k) eqn:E; cbn in *.
        + destruct p'; try discriminate. inversion HS; subst. cbn. rewrite E. reflexivity.
        + destruct p'; try discriminate. cbn. rewrite E. reflexivity.
      - cbn in *. destruct p'; try discriminate. reflexivity.
      - cbn in *. destruct p'; try discriminate. reflexivity.
      - rewrite part_Node in *. cbn [fst snd] in *. destruct p' as [| | |tag' l'|]; try discriminate.
        cbn [skel] in HS. inversion HS as [[Ht Hl]]. subst tag'.
        rewrite comb_Node, part_Node. rewrite map_map in Hl.
        destruct (part_comb_list l l' IH) as [H1 H2].
        { rewrite Hl, !map_map. reflexivity. }
        rewrite H1, H2. reflexivity.
      - rewrite part_W in *. destruct (is_nt k) eqn:E.
        + cbn [fst snd] in *. destruct p'; try discriminate. cbn [Tree.comb]. rewrite part_W, E. reflexivity.
        + cbn [fst snd] in *. destruct p' as [| | | |k' l']; try discriminate.
          cbn [skel] in HS. inversion HS as [[Ht Hl]]. subst k'.
          rewrite comb_W, part_W, E. rewrite map_map in Hl.
          destruct (part_comb_list l l' IH) as [H1 H2].
          { rewrite Hl, !map_map. reflexivity. }
          rewrite H1, H2. reflexivity.
    Qed.

    Lemma fold_step upds : forall ps,
      fold_left (fun ps u => step V Sp T K u ps) upds ps = (fold_left (fun p u => u p) upds (fst ps), snd ps).
    Proof. induction upds as [|u r IH]; intros [p s]; cbn; [reflexivity|]. rewrite IH. reflexivity. Qed.

    Lemma fold_skel upds : forall p,
      (forall u, In u upds -> forall q, skel (u q) = skel q) ->
      skel (fold_left (fun p u => u p) upds p) = skel p.
    Proof.
      induction upds as [|u r IH]; intros p H; cbn; [reflexivity|].
      rewrite IH by (intros; apply H; right; assumption). apply H. left. reflexivity.
    Qed.

    (* ANY optimiser (any sequence of structure-preserving functions of the params half), any number of steps:
       the trained model re-partitions into what the optimiser produced and the untouched static half *)
    Lemma training_preserves_static upds t :
      (forall u, In u upds -> forall q, skel (u q) = skel q) ->
      part (fit V Sp T K is_nt upds t) = (fold_left (fun p u => u p) upds (fst (part t)), snd (part t)).
    Proof.
      intros H. unfold fit. rewrite fold_step. cbn [fst snd]. apply part_comb_like. apply fold_skel. exact H.
    Qed.

    (* ---------- by position ---------- *)
    Notation subtree_at := (subtree_at V Sp T K).
    Notation trainable_at := (trainable_at V Sp T K is_nt).
    Notation is_leaf := (is_leaf V Sp T K).

    Lemma part_at_trainable p : forall t x,
      subtree_at p t = Some x -> is_leaf x = true -> trainable_at p t = true ->
      subtree_at p (fst (part t)) = Some x /\ subtree_at p (snd (part t)) = Some Hole.
    Proof.
      induction p as [|i p IH]; intros t x Hs Hl Ht.
      - cbn in Hs. inversion Hs; subst x. destruct t; cbn in *; try discriminate. rewrite Ht. split; reflexivity.
      - destruct t as [| | |tag l|k l]; cbn [Tree.subtree_at Tree.trainable_at] in Hs, Ht; try discriminate.
        + destruct (nth_error l i) as [c|] eqn:E; [|discriminate].
          rewrite part_Node. cbn [fst snd Tree.subtree_at]. rewrite !nth_error_map, E. cbn [option_map].
          apply IH; assumption.
        + destruct (is_nt k) eqn:En; [discriminate|]. destruct (nth_error l i) as [c|] eqn:E; [|discriminate].
          rewrite part_W, En. cbn [fst snd Tree.subtree_at]. rewrite !nth_error_map, E. cbn [option_map].
          apply IH; assumption.
    Qed.

    Lemma part_at_static p : forall t x,
      subtree_at p t = Some x -> is_leaf x = true -> trainable_at p t = false ->
      subtree_at p (snd (part t)) = Some x /\ (forall y, subtree_at p (fst (part t)) = Some y -> y = Hole).
    Proof.
      induction p as [|i p IH]; intros t x Hs Hl Ht.
      - cbn in Hs. inversion Hs; subst x. destruct t; cbn in *; try discriminate.
        + rewrite Ht. cbn. split; [reflexivity|]. intros y Hy. inversion Hy. reflexivity.
        + split; [reflexivity|]. intros y Hy. inversion Hy. reflexivity.
      - destruct t as [| | |tag l|k l]; cbn [Tree.subtree_at Tree.trainable_at] in Hs, Ht; try discriminate.
        + destruct (nth_error l i) as [c|] eqn:E; [|discriminate].
          rewrite part_Node. cbn [fst snd Tree.subtree_at]. rewrite !nth_error_map, E. cbn [option_map].
          apply IH; assumption.
        + rewrite part_W. destruct (is_nt k) eqn:En.
          * cbn [fst snd]. split.
            -- cbn [Tree.subtree_at]. exact Hs.
            -- intros y Hy. cbn in Hy. discriminate.
          * destruct (nth_error l i) as [c|] eqn:E; [|discriminate].
            cbn [fst snd Tree.subtree_at]. rewrite !nth_error_map, E. cbn [option_map].
            apply IH; assumption.
    Qed.

    Lemma static_leaf_back p : forall t x,
      subtree_at p (snd (part t)) = Some x -> is_leaf x = true -> subtree_at p t = Some x.
    Proof.
      induction p as [|i p IH]; intros t x Hs Hl.
      - cbn in Hs. inversion Hs as [Hx]. clear Hs. destruct t as [k v|s| |tag l|k l]; cbn in *.
        + destruct (inexact k); cbn in *; subst x; [discriminate|reflexivity].
        + reflexivity.
        + subst x; discriminate.
        + subst x; discriminate.
        + destruct (is_nt k); cbn in *; subst x; discriminate.
      - destruct t as [k v|s| |tag l|k l].
        + cbn in Hs. destruct (inexact k); cbn in Hs; discriminate.
        + cbn in Hs. discriminate.
        + cbn in Hs. discriminate.
        + rewrite part_Node in Hs. cbn [fst snd Tree.subtree_at] in *. rewrite !nth_error_map in Hs.
          destruct (nth_error l i) as [c|]; cbn [option_map] in Hs; [|discriminate]. apply IH; assumption.
        + rewrite part_W in Hs. destruct (is_nt k).
          * cbn [snd] in Hs. exact Hs.
          * cbn [fst snd Tree.subtree_at] in *. rewrite !nth_error_map in Hs.
            destruct (nth_error l i) as [c|]; cbn [option_map] in Hs; [|discriminate]. apply IH; assumption.
    Qed.

    (* every leaf that is not a trainable one -- under a NonTrainable, or not an inexact array -- is found,
       unchanged and at the same position, in the model returned by training *)
    Lemma frozen_leaf_unchanged upds t p x :
      (forall u, In u upds -> forall q, skel (u q) = skel q) ->
      subtree_at p t = Some x -> is_leaf x = true -> trainable_at p t = false ->
      subtree_at p (fit V Sp T K is_nt upds t) = Some x.
    Proof.
      intros HU Hs Hl Ht. apply static_leaf_back; [|exact Hl].
      rewrite (training_preserves_static upds t HU). cbn [snd].
      apply (part_at_static p t x Hs Hl Ht).
    Qed.

    (* ---------- wrappers.non_trainable ---------- *)
    Variable nt_label : K.
    Hypothesis nt_label_is_nt : is_nt nt_label = true.
    Notation non_trainable := (non_trainable V Sp T K is_nt nt_label).

    Lemma non_trainable_nothing_trainable t : leaves V Sp T K (fst (part (non_trainable t))) = [].
    Proof.
      induction t as [k v|s| |tag l IH|k l IH] using tree_ind'.
      - cbn. destruct (inexact k) eqn:E; cbn.
        + rewrite nt_label_is_nt. reflexivity.
        + rewrite E. reflexivity.
      - reflexivity.
      - reflexivity.
      - cbn [Tree.non_trainable]. rewrite part_Node. cbn [fst Tree.leaves].
        induction IH as [|x l Hx _ IHl]; cbn; [reflexivity|]. rewrite Hx. exact IHl.
      - cbn [Tree.non_trainable]. destruct (is_nt k) eqn:E.
        + rewrite part_W, E. reflexivity.
        + rewrite part_W, E. cbn [fst Tree.leaves].
          induction IH as [|x l Hx _ IHl]; cbn; [reflexivity|]. rewrite Hx. exact IHl.
    Qed.

    Variable apply : K -> list tree -> option tree.
    Hypothesis apply_nt : forall x, apply nt_label [x] = Some x.
    Lemma non_trainable_unwrap t : unwrap V Sp T K apply (non_trainable t) = unwrap V Sp T K apply t.
    Proof.
      induction t as [k v|s| |tag l IH|k l IH] using tree_ind'.
      - cbn. destruct (inexact k); [|reflexivity]. cbn. apply apply_nt.
      - reflexivity.
      - reflexivity.
      - cbn [Tree.non_trainable Tree.unwrap].
        assert (HM : mapM (unwrap V Sp T K apply) (map non_trainable l) = mapM (unwrap V Sp T K apply) l).
        { induction IH as [|x l Hx _ IHl]; cbn; [reflexivity|]. rewrite Hx, IHl. reflexivity. }
        rewrite HM. reflexivity.
      - cbn [Tree.non_trainable]. destruct (is_nt k); [reflexivity|]. cbn [Tree.unwrap].
        assert (HM : mapM (unwrap V Sp T K apply) (map non_trainable l) = mapM (unwrap V Sp T K apply) l).
        { induction IH as [|x l Hx _ IHl]; cbn; [reflexivity|]. rewrite Hx, IHl. reflexivity. }
        rewrite HM. reflexivity.
    Qed.
  End Partition.

  (* ================= gradient: stop_gradient in an abstract tangent model ================= *)
  Section Tangent.
    Variable is_nt : K -> bool.
    Variable apply : K -> list tree -> option tree.
    Variable Zt : V -> Prop.          (* "this array value carries a zero tangent" *)
    Fixpoint zt_all (t : tree) : Prop :=
      match t with
      | Arr _ v => Zt v
      | Node _ l | W _ l => fold_right (fun x acc => zt_all x /\ acc) True l
      | _ => True
      end.
    (* only leaves below a NonTrainable may carry a tangent *)
    Fixpoint zt_outside (t : tree) : Prop :=
      match t with
      | Arr _ v => Zt v
      | Node _ l => fold_right (fun x acc => zt_outside x /\ acc) True l
      | W k l => if is_nt k then True else fold_right (fun x acc => zt_outside x /\ acc) True l
      | _ => True
      end.
    (* NonTrainable.unwrap applies lax.stop_gradient to every array-like; every other wrapper computes its result
       from its fields, so zero tangents in give zero tangents out (the JVP rule of any function) *)
    Hypothesis stop_gradient : forall k l u, is_nt k = true -> apply k l = Some u -> zt_all u.
    Hypothesis jvp_zero : forall k l u, is_nt k = false -> Forall zt_all l -> apply k l = Some u -> zt_all u.

    Lemma fold_and_Forall (P : tree -> Prop) l : fold_right (fun x acc => P x /\ acc) True l <-> Forall P l.
    Proof.
      induction l as [|x l IH]; cbn.
      - split; intros; [constructor | exact I].
      - split; intros H.
        + destruct H as [H1 H2]. constructor; [exact H1 | apply IH; exact H2].
        + inversion H; subst. split; [assumption | apply IH; assumption].
    Qed.

    Lemma frozen_zero_tangent t : zt_outside t -> forall u, unwrap V Sp T K apply t = Some u -> zt_all u.
    Proof.
      induction t as [k v|s| |tag l IH|k l IH] using tree_ind'; cbn [zt_outside Tree.unwrap]; intros Hz u Hu.
      - inversion Hu; subst. exact Hz.
      - inversion Hu; subst. exact I.
      - inversion Hu; subst. exact I.
      - destruct (mapM (unwrap V Sp T K apply) l) as [l'|] eqn:E; [|discriminate]. inversion Hu; subst.
        cbn [zt_all]. apply fold_and_Forall. apply fold_and_Forall in Hz. apply mapM_Some_Forall2 in E.
        clear Hu. induction E as [|x y l l' Hxy _ IHE]; constructor.
        + inversion IH; inversion Hz; subst. eauto.
        + inversion IH; inversion Hz; subst. eauto.
      - destruct (mapM (unwrap V Sp T K apply) l) as [l'|] eqn:E; [|discriminate].
        destruct (is_nt k) eqn:En.
        + eapply stop_gradient; eauto.
        + assert (HF : Forall zt_all l').
          { apply fold_and_Forall in Hz. apply mapM_Some_Forall2 in E.
            clear Hu. induction E as [|x y l l' Hxy _ IHE]; constructor.
            * inversion IH; inversion Hz; subst. eauto.
            * inversion IH; inversion Hz; subst. eauto. }
          exact (jvp_zero k l' u En HF Hu).
    Qed.
  End Tangent.

  (* ================= pytree algebra ================= *)
  Section Algebra.
    Notation treedef := (treedef V Sp T K).
    Notation leaves := (leaves V Sp T K).
    Notation unflatten := (unflatten V Sp T K).
    Notation tdef := (tdef T K).

    Definition unflatten_list : list tdef -> list tree -> option (list tree * list tree) :=
      fix go (l : list tdef) (ls : list tree) : option (list tree * list tree) :=
        match l with
        | [] => Some ([], ls)
        | c :: cs => match unflatten c ls with
                     | Some (c', r) => match go cs r with Some (cs', r') => Some (c' :: cs', r') | None => None end
                     | None => None
                     end
        end.
    Lemma unflatten_DNode tag l ls :
      unflatten (DNode tag l) ls = match unflatten_list l ls with Some (l', r) => Some (Node tag l', r) | None => None end.
    Proof. reflexivity. Qed.
    Lemma unflatten_DW k l ls :
      unflatten (DW k l) ls = match unflatten_list l ls with Some (l', r) => Some (W k l', r) | None => None end.
    Proof. reflexivity. Qed.

    Lemma unflatten_list_flatten l :
      Forall (fun t => forall r, unflatten (treedef t) (leaves t ++ r) = Some (t, r)) l ->
      forall r, unflatten_list (map treedef l) (flat_map leaves l ++ r) = Some (l, r).
    Proof.
      induction 1 as [|x l Hx _ IH]; intros r; cbn; [reflexivity|].
      rewrite <- app_assoc, Hx. fold unflatten_list. rewrite IH. reflexivity.
    Qed.

    Lemma unflatten_flatten t : forall r, unflatten (treedef t) (leaves t ++ r) = Some (t, r).
    Proof.
      induction t as [k v|s| |tag l IH|k l IH] using tree_ind'; intros r.
      - reflexivity.
      - reflexivity.
      - reflexivity.
      - cbn [Tree.treedef Tree.leaves]. rewrite unflatten_DNode, unflatten_list_flatten by exact IH. reflexivity.
      - cbn [Tree.treedef Tree.leaves]. rewrite unflatten_DW, unflatten_list_flatten by exact IH. reflexivity.
    Qed.
    Lemma flatten_unflatten t : unflatten (treedef t) (leaves t) = Some (t, []).
    Proof. rewrite <- (app_nil_r (leaves t)) at 1. apply unflatten_flatten. Qed.

    (* ---------- leaf serialisation ---------- *)
    Variable same_meta : V -> V -> bool.
    Notation serialise := (serialise V Sp T K).
    Notation deserialise := (deserialise V Sp T K same_meta).

    (* [like] and [t] have the same structure: same nodes, same static leaves, arrays of the same kind and meta
       data (shape, dtype); array VALUES are unrelated *)
    Fixpoint same_struct (a b : tree) : Prop :=
      match a, b with
      | Arr k v, Arr k' v' => k = k' /\ same_meta v v' = true
      | Static s, Static s' => s = s'
      | Hole, Hole => True
      | Node tag l, Node tag' l' =>
          tag = tag' /\ (fix go (l l' : list tree) : Prop :=
                           match l, l' with
                           | [], [] => True
                           | x :: r, y :: r' => same_struct x y /\ go r r'
                           | _, _ => False
                           end) l l'
      | W k l, W k' l' =>
          k = k' /\ (fix go (l l' : list tree) : Prop :=
                       match l, l' with
                       | [], [] => True
                       | x :: r, y :: r' => same_struct x y /\ go r r'
                       | _, _ => False
                       end) l l'
      | _, _ => False
      end.
    Definition same_struct_list : list tree -> list tree -> Prop :=
      fix go (l l' : list tree) : Prop :=
        match l, l' with [], [] => True | x :: r, y :: r' => same_struct x y /\ go r r' | _, _ => False end.

    Definition deserialise_list : list tree -> list (akind * V) -> option (list tree * list (akind * V)) :=
      fix go (l : list tree) (st : list (akind * V)) : option (list tree * list (akind * V)) :=
        match l with
        | [] => Some ([], st)
        | c :: cs => match deserialise c st with
                     | Some (c', r) => match go cs r with Some (cs', r') => Some (c' :: cs', r') | None => None end
                     | None => None
                     end
        end.
    Lemma deserialise_Node tag l st :
      deserialise (Node tag l) st = match deserialise_list l st with Some (l', r) => Some (Node tag l', r) | None => None end.
    Proof. reflexivity. Qed.
    Lemma deserialise_W k l st :
      deserialise (W k l) st = match deserialise_list l st with Some (l', r) => Some (W k l', r) | None => None end.
    Proof. reflexivity. Qed.

    Lemma serialise_children l :
      flat_map (fun x : tree => match x with Arr k v => [(k, v)] | _ => [] end) (flat_map leaves l)
      = flat_map serialise l.
    Proof. induction l as [|x l IH]; cbn; [reflexivity|]. rewrite flat_map_app, IH. reflexivity. Qed.
    Lemma serialise_Node tag l : serialise (Node tag l) = flat_map serialise l.
    Proof. unfold Tree.serialise at 1. cbn [Tree.leaves]. apply serialise_children. Qed.
    Lemma serialise_W k l : serialise (W k l) = flat_map serialise l.
    Proof. unfold Tree.serialise at 1. cbn [Tree.leaves]. apply serialise_children. Qed.

    Lemma akind_eqb_refl k : akind_eqb k k = true.
    Proof. destruct k; reflexivity. Qed.

    Lemma deserialise_list_serialise l :
      Forall (fun a => forall b, same_struct a b -> forall r, deserialise a (serialise b ++ r) = Some (b, r)) l ->
      forall l', same_struct_list l l' -> forall r, deserialise_list l (flat_map serialise l' ++ r) = Some (l', r).
    Proof.
      induction 1 as [|x l Hx _ IH]; intros l' HS r; destruct l' as [|y l']; cbn in HS; try contradiction.
      - reflexivity.
      - destruct HS as [H1 H2]. cbn. rewrite <- app_assoc, (Hx _ H1). fold deserialise_list.
        rewrite (IH _ H2). reflexivity.
    Qed.

    Lemma deserialise_serialise like : forall t, same_struct like t ->
      forall r, deserialise like (serialise t ++ r) = Some (t, r).
    Proof.
      induction like as [k v|s| |tag l IH|k l IH] using tree_ind'; intros t HS r;
        destruct t as [k' v'|s'| |tag' l'|k' l']; cbn [same_struct] in HS; try contradiction.
      - destruct HS as [Hk Hm]. subst k'. cbn. rewrite akind_eqb_refl, Hm. reflexivity.
      - subst s'. reflexivity.
      - reflexivity.
      - destruct HS as [Ht HL]. subst tag'. rewrite serialise_Node, deserialise_Node.
        rewrite (deserialise_list_serialise l IH l' HL). reflexivity.
      - destruct HS as [Ht HL]. subst k'. rewrite serialise_W, deserialise_W.
        rewrite (deserialise_list_serialise l IH l' HL). reflexivity.
    Qed.
    Lemma serialise_roundtrip like t : same_struct like t -> deserialise like (serialise t) = Some (t, []).
    Proof. intros H. rewrite <- (app_nil_r (serialise t)). apply deserialise_serialise. exact H. Qed.

    (* ---------- no array hides in a static position ---------- *)
    Variable is_array_payload : Sp -> bool.
    Lemma static_has_no_array p : forall t s,
      wf_module V Sp T K is_array_payload t = true -> subtree_at V Sp T K p t = Some (Static s) -> is_array_payload s = false.
    Proof.
      induction p as [|i p IH]; intros t s Hw Hs.
      - cbn in Hs. inversion Hs; subst t. cbn in Hw. apply negb_true_iff in Hw. exact Hw.
      - destruct t as [| | |tag l|k l]; cbn [Tree.subtree_at] in Hs; try discriminate;
          (destruct (nth_error l i) as [c|] eqn:E; [|discriminate]);
          cbn [Tree.wf_module] in Hw; apply forallb_Forall_true in Hw;
          apply nth_error_In in E; rewrite Forall_forall in Hw; eapply IH; eauto.
    Qed.
  End Algebra.
End TreeP.

(* ======================= the concrete wrappers (Part 2 of the model) ======================= *)
Section NumP.
  Context {A : Type} (O : NumOps A).
  Variables Sp T : Type.
  Variable bij_of : T -> option (bcls * list nat).
  Variable fn_of : Sp -> option fid.
  Variable tuple_tag : T.
  Notation vtree := (@vtree A Sp T).
  Notation cleanb := (cleanb (tensor A) Sp T wlabel).
  Notation tree_ind' := (tree_ind' (tensor A) Sp T wlabel).

  Lemma mapM_slice_clean i l :
    Forall (fun t : vtree => forall t', slice_tree Sp T i t = Some t' -> cleanb t' = cleanb t) l ->
    forall l', mapM (slice_tree Sp T i) l = Some l' -> forallb cleanb l' = forallb cleanb l.
  Proof.
    intros HF l' HM. apply mapM_Some_Forall2 in HM. induction HM as [|x y l l' Hxy _ IH]; [reflexivity|].
    inversion HF; subst. cbn. f_equal; auto.
  Qed.
  Lemma slice_tree_clean i (t : vtree) : forall t', slice_tree Sp T i t = Some t' -> cleanb t' = cleanb t.
  Proof.
    induction t as [k v|s| |tag l IH|k l IH] using tree_ind'; cbn [slice_tree]; intros t' H.
    - destruct (is_array k); [|inversion H; reflexivity]. destruct (slice_t i v); inversion H; reflexivity.
    - inversion H; reflexivity.
    - inversion H; reflexivity.
    - destruct (mapM (slice_tree Sp T i) l) as [l'|] eqn:E; [|discriminate]. inversion H; subst. cbn.
      eapply mapM_slice_clean; eauto.
    - destruct (mapM (slice_tree Sp T i) l) as [l'|] eqn:E; [|discriminate]. inversion H; subst. reflexivity.
  Qed.
  Lemma slices_clean i (l l' : list vtree) : mapM (slice_tree Sp T i) l = Some l' -> forallb cleanb l' = forallb cleanb l.
  Proof. apply mapM_slice_clean. apply Forall_forall. intros t _. apply slice_tree_clean. Qed.

  Definition stack_go (n : nat) (ts : list vtree) : nat -> list vtree -> list vtree :=
    fix go (j : nat) (l : list vtree) : list vtree :=
      match l with
      | [] => []
      | x :: r => stack_like Sp T n x (map (fun u => nth j (children Sp T u) Hole) ts) :: go (S j) r
      end.
  Lemma stack_like_Node n tag l ts : stack_like Sp T n (Node tag l) ts = Node tag (stack_go n ts 0 l).
  Proof. reflexivity. Qed.
  Lemma stack_like_clean n (t : vtree) : forall ts, cleanb (stack_like Sp T n t ts) = cleanb t.
  Proof.
    induction t as [k v|s| |tag l IH|k l IH] using tree_ind'; intros ts.
    - cbn. destruct (is_array k); reflexivity.
    - reflexivity.
    - reflexivity.
    - rewrite stack_like_Node. cbn [Tree.cleanb]. generalize 0 as j.
      induction IH as [|x l Hx _ IHl]; intros j; cbn; [reflexivity|]. rewrite Hx. f_equal. apply IHl.
    - reflexivity.
  Qed.

  Lemma vmapn_clean (f : list vtree -> option vtree) :
    (forall l u, forallb cleanb l = true -> f l = Some u -> cleanb u = true) ->
    forall b l u, forallb cleanb l = true -> vmapn Sp T b f l = Some u -> cleanb u = true.
  Proof.
    intros Hf b. induction b as [|n b IH]; intros l u Hl H; cbn [vmapn] in H.
    - eapply Hf; eauto.
    - match type of H with match ?m with _ => _ end = _ => destruct m as [[|r0 rs]|] eqn:E end; try discriminate.
      inversion H; subst. rewrite stack_like_clean.
      apply mapM_Some_Forall2 in E. inversion E as [|i y ? ? Hi _]; subst.
      destruct (mapM (slice_tree Sp T i) l) as [li|] eqn:Es; [|discriminate].
      eapply IH; [|exact Hi]. rewrite (slices_clean _ _ _ Es). exact Hl.
  Qed.

  Lemma fn_apply_clean f (args : list vtree) u : fn_apply O Sp T tuple_tag f args = Some u -> cleanb u = true.
  Proof.
    intros H. unfold fn_apply in H.
    repeat (match type of H with context [match ?x with _ => _ end] => destruct x end; try discriminate);
      inversion H; subst; reflexivity.
  Qed.

  (* .unwrap() of each of the five wrapper classes returns a wrapper-free value when its fields are wrapper-free
     (the Lambda functions are the harness's; NonTrainable returns its field) *)
  Lemma wapply_clean k (l : list vtree) u :
    forallb cleanb l = true -> wapply O Sp T bij_of fn_of tuple_tag k l = Some u -> cleanb u = true.
  Proof.
    intros Hl H. unfold wapply in H. destruct (snd k).
    - destruct l as [|x [|? ?]]; try discriminate. inversion H; subst. cbn in Hl. rewrite andb_true_r in Hl. exact Hl.
    - destruct l as [|? [|? [|d [|? ?]]]]; try discriminate; try (destruct d; discriminate). destruct d; try discriminate.
      eapply vmapn_clean; [|exact Hl|exact H]. intros l0 u0 _ H0. cbv beta in H0.
      repeat (match type of H0 with context [match ?x with _ => _ end] => destruct x end; try discriminate);
        inversion H0; subst; reflexivity.
    - destruct l as [|? [|? [|? [|d [|? ?]]]]]; try discriminate; try (destruct d; discriminate). destruct d; try discriminate.
      eapply vmapn_clean; [|exact Hl|exact H]. intros l0 u0 _ H0. cbv beta in H0.
      repeat (match type of H0 with context [match ?x with _ => _ end] => destruct x end; try discriminate);
        inversion H0; subst; reflexivity.
    - repeat (match type of H with context [match ?x with _ => _ end] => destruct x end; try discriminate);
        inversion H; subst; reflexivity.
    - destruct l as [|? [|? [|? [|d [|? ?]]]]]; try discriminate; try (destruct d; discriminate). destruct d; try discriminate.
      eapply vmapn_clean; [|exact Hl|exact H]. intros l0 u0 _ H0. cbv beta in H0.
      destruct l0 as [|a0 l0]; [discriminate|]. destruct a0; try discriminate.
      destruct l0 as [|a1 l0]; [discriminate|]. destruct a1; try discriminate.
      destruct l0 as [|a2 l0]; [discriminate|]. destruct a2; try discriminate.
      destruct l0 as [|a3 l0]; [discriminate|]. destruct l0; [|discriminate].
      destruct (fn_of s); [|discriminate]. eapply fn_apply_clean; eauto.
  Qed.

  (* ---------- get_ravelled_pytree_constructor ---------- *)
  Notation part_num := (part_num (A:=A) Sp T).
  Lemma n_params_spec (t : vtree) : n_params Sp T t = count_trainable Sp T t.
  Proof.
    unfold n_params, part_num.
    induction t as [k v|s| |tag l IH|k l IH] using tree_ind'.
    - cbn. destruct (inexact k); reflexivity.
    - reflexivity.
    - reflexivity.
    - rewrite part_Node. cbn [fst ravel count_trainable]. rewrite map_map.
      induction IH as [|x l Hx _ IHl]; cbn [map flat_map fold_right]; [reflexivity|]. rewrite app_length. f_equal; assumption.
    - rewrite part_W. cbn [count_trainable]. destruct (is_nt k); [reflexivity|]. cbn [fst ravel].
      rewrite map_map.
      induction IH as [|x l Hx _ IHl]; cbn [map flat_map fold_right]; [reflexivity|]. rewrite app_length. f_equal; assumption.
  Qed.

  Definition unravel_list : list vtree -> list A -> list vtree * list A :=
    fix go (l : list vtree) (r : list A) : list vtree * list A :=
      match l with
      | [] => ([], r)
      | x :: xs => let (x', r1) := unravel Sp T x r in let (xs', r2) := go xs r1 in (x' :: xs', r2)
      end.
  Lemma unravel_Node tag l r : unravel Sp T (Node tag l) r = let (l', r') := unravel_list l r in (Node tag l', r').
  Proof. reflexivity. Qed.
  Lemma unravel_W k l r : unravel Sp T (W k l) r = let (l', r') := unravel_list l r in (W k l', r').
  Proof. reflexivity. Qed.

  Notation skel := (skel (tensor A) Sp T wlabel).
  (* unravel only writes values *)
  Lemma unravel_skel (t : vtree) : forall r, skel (fst (unravel Sp T t r)) = skel t.
  Proof.
    induction t as [k v|s| |tag l IH|k l IH] using tree_ind'; intros r; try reflexivity.
    - rewrite unravel_Node. destruct (unravel_list l r) as [l' r'] eqn:E. cbn [fst skel]. f_equal.
      revert r l' r' E. induction IH as [|x l Hx _ IHl]; intros r l' r' E; cbn in E.
      + inversion E; reflexivity.
      + destruct (unravel Sp T x r) as [x' r1] eqn:Ex. fold unravel_list in E.
        destruct (unravel_list l r1) as [xs' r2] eqn:El. inversion E; subst. cbn.
        rewrite <- (Hx r), Ex. cbn [fst]. f_equal. eapply IHl; eauto.
    - rewrite unravel_W. destruct (unravel_list l r) as [l' r'] eqn:E. cbn [fst skel]. f_equal.
      revert r l' r' E. induction IH as [|x l Hx _ IHl]; intros r l' r' E; cbn in E.
      + inversion E; reflexivity.
      + destruct (unravel Sp T x r) as [x' r1] eqn:Ex. fold unravel_list in E.
        destruct (unravel_list l r1) as [xs' r2] eqn:El. inversion E; subst. cbn.
        rewrite <- (Hx r), Ex. cbn [fst]. f_equal. eapply IHl; eauto.
  Qed.

  (* whatever vector the conditioner network outputs, the constructed transformer has the ORIGINAL static half:
     frozen and non-float leaves cannot be parameterised *)
  Lemma ctor_static (t : vtree) r :
    part_num (ctor O Sp T t r) = (fst (unravel Sp T (fst (part_num t)) (map2 (n_add O) r (ravel Sp T (fst (part_num t))))), snd (part_num t)).
  Proof. unfold ctor, part_num. apply part_comb_like. apply unravel_skel. Qed.

  Lemma unravel_ravel (t : vtree) : forall r, unravel Sp T t (ravel Sp T t ++ r) = (t, r).
  Proof.
    induction t as [k v|s| |tag l IH|k l IH] using tree_ind'; intros r; try reflexivity.
    - cbn. destruct v as [sh d]. cbn. rewrite firstn_app, Nat.sub_diag, firstn_all. cbn. rewrite app_nil_r.
      rewrite skipn_app, Nat.sub_diag, skipn_all. reflexivity.
    - rewrite unravel_Node. cbn [ravel].
      assert (H : unravel_list l (flat_map (ravel Sp T) l ++ r) = (l, r)).
      { clear tag. induction IH as [|x l Hx _ IHl]; cbn; [reflexivity|].
        rewrite <- app_assoc, Hx. fold unravel_list. rewrite IHl. reflexivity. }
      rewrite H. reflexivity.
    - rewrite unravel_W. cbn [ravel].
      assert (H : unravel_list l (flat_map (ravel Sp T) l ++ r) = (l, r)).
      { clear k. induction IH as [|x l Hx _ IHl]; cbn; [reflexivity|].
        rewrite <- app_assoc, Hx. fold unravel_list. rewrite IHl. reflexivity. }
      rewrite H. reflexivity.
  Qed.

  Lemma map2_zero z (d : list A) : (forall x, n_add O z x = x) -> map2 (n_add O) (repeat z (length d)) d = d.
  Proof. intros Hz. induction d as [|x d IH]; cbn; [reflexivity|]. rewrite Hz, IH. reflexivity. Qed.
  (* "calling the constructor at the zero vector returns the initial pytree" *)
  Lemma ctor_zero z (t : vtree) : (forall x, n_add O z x = x) -> ctor O Sp T t (repeat z (n_params Sp T t)) = t.
  Proof.
    intros Hz. unfold ctor, n_params. rewrite map2_zero by exact Hz.
    rewrite <- (app_nil_r (ravel Sp T (fst (part_num t)))), unravel_ravel. cbn [fst]. apply comb_part.
  Qed.

  (* ---------- the theorems of Part 1 at the extracted instance ---------- *)
  Notation unwrap_num := (unwrap_num O Sp T bij_of fn_of tuple_tag).
  Lemma unwrap_num_clean (t u : vtree) : unwrap_num t = Some u -> cleanb u = true.
  Proof. apply unwrap_clean. apply wapply_clean. Qed.
  Lemma unwrap_num_idempotent (t u : vtree) : unwrap_num t = Some u -> unwrap_num u = Some u.
  Proof. apply unwrap_idempotent. apply wapply_clean. Qed.
  Lemma unwrap_num_each_once (t : vtree) tr :
    unwrap_trace_num O Sp T bij_of fn_of tuple_tag t = Some tr ->
    tr = postorder_ids _ _ _ _ wlabel (fun k => k) t /\ Permutation tr (wrapper_ids _ _ _ _ wlabel (fun k => k) t).
  Proof.
    intros H. split; [eapply unwrap_trace_postorder; exact H | eapply unwrap_each_once; exact H].
  Qed.
  Lemma non_trainable_num_unwrap (t : vtree) : unwrap_num (non_trainable_num Sp T t) = unwrap_num t.
  Proof. apply non_trainable_unwrap. intros x. reflexivity. Qed.
  Lemma no_leaves_no_params (q : vtree) : leaves (tensor A) Sp T wlabel q = [] -> ravel Sp T q = [].
  Proof.
    induction q as [k v|s| |tag l IH|k l IH] using tree_ind'; cbn [leaves ravel]; intros H; try reflexivity; try discriminate.
    - induction IH as [|x l Hx _ IHl]; cbn in *; [reflexivity|]. apply app_eq_nil in H. destruct H as [H1 H2].
      rewrite (Hx H1), (IHl H2). reflexivity.
    - induction IH as [|x l Hx _ IHl]; cbn in *; [reflexivity|]. apply app_eq_nil in H. destruct H as [H1 H2].
      rewrite (Hx H1), (IHl H2). reflexivity.
  Qed.
  Lemma non_trainable_num_count (t : vtree) : n_params Sp T (non_trainable_num Sp T t) = 0.
  Proof.
    unfold n_params, non_trainable_num, part_num. rewrite no_leaves_no_params; [reflexivity|].
    apply non_trainable_nothing_trainable. reflexivity.
  Qed.
End NumP.

Section StackP.
  Context {A : Type}.
  (* ---------- batched = stacked: slicing a stack gives the pieces back ---------- *)
  Lemma slice_stack_t (xs : list (tensor A)) sh i x :
    Forall (fun y => tshape y = sh /\ length (tdata y) = tsize sh) xs -> nth_error xs i = Some x ->
    slice_t i (stack_t (length xs) xs) = Some x.
  Proof.
    intros HF Hn. unfold slice_t, stack_t. cbn [tshape tdata].
    assert (Hsh : tshape (hd (mkT [] []) xs) = sh).
    { destruct xs as [|y ys]; [destruct i; discriminate|]. inversion HF; subst. tauto. }
    rewrite Hsh. f_equal. clear Hsh.
    revert i Hn. induction HF as [|y ys [Hy1 Hy2] _ IH]; intros i Hn; [destruct i; discriminate|].
    destruct i as [|i]; cbn in Hn |- *.
    - inversion Hn; subst y. destruct x as [s d]; cbn in *. subst s.
      rewrite firstn_app, Hy2, Nat.sub_diag, firstn_all2 by lia. cbn. rewrite app_nil_r. reflexivity.
    - rewrite skipn_app. rewrite skipn_all2 by lia. cbn [app].
      replace (tsize sh + i * tsize sh - length (tdata y)) with (i * tsize sh) by lia.
      apply IH. exact Hn.
  Qed.
End StackP.

(* the hypothesis of unwrap_idempotent cannot be dropped *)
Lemma idempotent_without_clean_refuted :
  exists (apply : unit -> list (tree nat nat nat unit) -> option (tree nat nat nat unit)) t u,
    unwrap nat nat nat unit apply t = Some u /\ unwrap nat nat nat unit apply u <> Some u.
Proof.
  exists (fun k l => match l with [] => Some Hole | _ => Some (W k []) end), (W tt [Hole]), (W tt []).
  split; [reflexivity | discriminate].
Qed.

Section NumCorollaries.
  Context {A : Type} (O : NumOps A).
  Variables Sp T : Type.
  Variable bij_of : T -> option (bcls * list nat).
  Variable fn_of : Sp -> option fid.
  Variable tuple_tag : T.
  Lemma unwrap_num_idempotent_clean (t u : @vtree A Sp T) :
    unwrap_num O Sp T bij_of fn_of tuple_tag t = Some u ->
    unwrap_num O Sp T bij_of fn_of tuple_tag u = Some u /\ cleanb (tensor A) Sp T wlabel u = true.
  Proof. intros H. split; [eapply unwrap_num_idempotent; exact H | eapply unwrap_num_clean; exact H]. Qed.
  Lemma ctor_static_snd (t : @vtree A Sp T) r : snd (part_num Sp T (ctor O Sp T t r)) = snd (part_num Sp T t).
  Proof. rewrite ctor_static. reflexivity. Qed.
  Lemma non_trainable_num_spec (t : @vtree A Sp T) :
    unwrap_num O Sp T bij_of fn_of tuple_tag (non_trainable_num Sp T t) = unwrap_num O Sp T bij_of fn_of tuple_tag t /\
    n_params Sp T (non_trainable_num Sp T t) = 0.
  Proof. split; [apply non_trainable_num_unwrap | apply non_trainable_num_count]. Qed.
End NumCorollaries.

(* ---------- wrappers constructed under eqx.filter_vmap ---------- *)
Section VmappedP.
  Context {A : Type} (O : NumOps A).
  Variables Sp T : Type.
  Variable bij_of : T -> option (bcls * list nat).
  Variable fn_of : Sp -> option fid.
  Variable tuple_tag : T.
  Notation vtree := (@vtree A Sp T).
  Notation wapply := (wapply O Sp T bij_of fn_of tuple_tag).

  Lemma mapM_ext_in {X Y} (f g : X -> option Y) l : (forall x, In x l -> f x = g x) -> mapM f l = mapM g l.
  Proof.
    induction l as [|x l IH]; intros H; cbn; [reflexivity|].
    rewrite (H x (or_introl eq_refl)), IH; [reflexivity|]. intros y Hy. apply H. right. exact Hy.
  Qed.

  (* the position of _dummy among the dynamic fields *)
  Definition dummy_of (k : wlabel) (l : list vtree) : option (akind * tensor A) :=
    match snd k, l with
    | BijReparam, [_; _; Arr kd d] => Some (kd, d)
    | Where, [_; _; _; Arr kd d] => Some (kd, d)
    | Lambda, [_; _; _; Arr kd d] => Some (kd, d)
    | _, _ => None
    end.

  (* A wrapper constructed under eqx.filter_vmap (its _dummy, an integer array, has a leading axis of size n) unwraps to
     the STACK of the unwrapped slices: slice every array field along axis 0, unwrap the resulting unbatched (or less
     batched) wrapper, stack.  Iterating gives any number of vmap levels. *)
  Lemma wapply_vmapped k (l : list vtree) kd d n sh :
    dummy_of k l = Some (kd, d) -> is_array kd = true -> tshape d = n :: sh ->
    wapply k l =
    match mapM (fun i => match mapM (slice_tree Sp T i) l with Some li => wapply k li | None => None end) (seq 0 n) with
    | Some (r0 :: rs) => Some (stack_like Sp T n r0 (r0 :: rs))
    | _ => None
    end.
  Proof.
    intros Hd Hk Hs. unfold dummy_of in Hd. unfold Tree.wapply at 1.
    destruct (snd k) eqn:Ek; try discriminate.
    - destruct l as [|a l]; try discriminate. destruct l as [|b l]; try discriminate. destruct l as [|c l]; try discriminate.
      destruct c as [kd' d'| | | |]; try discriminate. destruct l; try discriminate.
      inversion Hd; subst kd' d'. rewrite Hs. cbn [vmapn].
      erewrite mapM_ext_in; [reflexivity|]. intros i _. cbn [mapM].
      destruct (slice_tree Sp T i a) as [a'|]; [|reflexivity].
      destruct (slice_tree Sp T i b) as [b'|]; [|reflexivity].
      cbn [slice_tree]. rewrite Hk. unfold slice_t. rewrite Hs.
      unfold Tree.wapply. rewrite Ek. cbn [tshape]. reflexivity.
    - destruct l as [|a l]; try discriminate. destruct l as [|b l]; try discriminate. destruct l as [|c l]; try discriminate.
      destruct l as [|e l]; try discriminate.
      destruct e as [kd' d'| | | |]; try discriminate. destruct l; try discriminate.
      inversion Hd; subst kd' d'. rewrite Hs. cbn [vmapn].
      erewrite mapM_ext_in; [reflexivity|]. intros i _. cbn [mapM].
      destruct (slice_tree Sp T i a) as [a'|]; [|reflexivity].
      destruct (slice_tree Sp T i b) as [b'|]; [|reflexivity].
      destruct (slice_tree Sp T i c) as [c'|]; [|reflexivity].
      cbn [slice_tree]. rewrite Hk. unfold slice_t. rewrite Hs.
      unfold Tree.wapply. rewrite Ek. cbn [tshape]. reflexivity.
    - destruct l as [|a l]; try discriminate. destruct l as [|b l]; try discriminate. destruct l as [|c l]; try discriminate.
      destruct l as [|e l]; try discriminate.
      destruct e as [kd' d'| | | |]; try discriminate. destruct l; try discriminate.
      inversion Hd; subst kd' d'. rewrite Hs. cbn [vmapn].
      erewrite mapM_ext_in; [reflexivity|]. intros i _. cbn [mapM].
      destruct (slice_tree Sp T i a) as [a'|]; [|reflexivity].
      destruct (slice_tree Sp T i b) as [b'|]; [|reflexivity].
      destruct (slice_tree Sp T i c) as [c'|]; [|reflexivity].
      cbn [slice_tree]. rewrite Hk. unfold slice_t. rewrite Hs.
      unfold Tree.wapply. rewrite Ek. cbn [tshape]. reflexivity.
  Qed.
End VmappedP.

(* ---------- concrete instances used by the non-vacuity examples of Props/C12.v and Props/C14.v ---------- *)
Definition ZOps : NumOps Z :=
  {| n_add := Z.add; n_sub := Z.sub; n_mul := Z.mul; n_div := Z.div; n_neg := Z.opp; n_abs := Z.abs; n_sign := Z.sgn;
     n_exp := fun x => x; n_log := fun x => x; n_tanh := fun x => x; n_atanh := fun x => x; n_softplus := fun x => x;
     n_log1p := fun x => x; n_expm1 := fun x => x; n_sqrt := Z.sqrt; n_lgamma := fun x => x; n_pi := 3%Z;
     n_leb := Z.leb; n_ltb := Z.ltb; n_eqb := Z.eqb; n_ofZ := fun z => z |}.
Definition ex_bij_of (t : nat) : option (bcls * list nat) := match t with 5 => Some (BScale, [0]) | _ => None end.
Definition ex_fn_of (s : nat) : option fid := match s with 0 => Some FAdd1 | _ => None end.
Definition ex_tree : @vtree Z nat nat :=
  Node 0 [ Arr KFloat (mkT [2] [1; 2]%Z);
           W (1%Z, Where) [Arr KBool (mkT [2] [1; 0]%Z); W (2%Z, NonTrainable) [Arr KFloat (mkT [2] [10; 20]%Z)];
                           Arr KPyInt (mkT [] [0%Z]); Arr KInt (mkT [] [0%Z])];
           W (3%Z, Lambda) [Static 0; Node 0 [W (4%Z, NonTrainable) [Arr KInt (mkT [] [5%Z])]]; Node 1 [];
                            Arr KInt (mkT [] [0%Z])];
           Static 7 ].
Definition ex_unwrapped : @vtree Z nat nat :=
  Node 0 [ Arr KFloat (mkT [2] [1; 2]%Z); Arr KFloat (mkT [2] [10; 0]%Z); Arr KInt (mkT [] [6%Z]); Static 7 ].
Definition ex_trace : list wlabel := [(2%Z, NonTrainable); (1%Z, Where); (4%Z, NonTrainable); (3%Z, Lambda)].
Definition ex_params : @vtree Z nat nat :=
  Node 0 [ Arr KFloat (mkT [2] [1; 2]%Z); W (1%Z, Where) [Hole; Hole; Hole; Hole];
           W (3%Z, Lambda) [Hole; Node 0 [Hole]; Node 1 []; Hole]; Hole ].
Definition ex_static : @vtree Z nat nat :=
  Node 0 [ Hole;
           W (1%Z, Where) [Arr KBool (mkT [2] [1; 0]%Z); W (2%Z, NonTrainable) [Arr KFloat (mkT [2] [10; 20]%Z)];
                           Arr KPyInt (mkT [] [0%Z]); Arr KInt (mkT [] [0%Z])];
           W (3%Z, Lambda) [Static 0; Node 0 [W (4%Z, NonTrainable) [Arr KInt (mkT [] [5%Z])]]; Node 1 [];
                            Arr KInt (mkT [] [0%Z])];
           Static 7 ].

(* ---------- vmap over a stacked batch = the Python loop ---------- *)
Section VmapP.
  Context {A : Type}.
  Lemma mapM_map {X Y Z} (g : X -> Y) (f : Y -> option Z) l : mapM f (map g l) = mapM (fun x => f (g x)) l.
  Proof. induction l as [|x l IH]; cbn; [reflexivity|]. rewrite IH. reflexivity. Qed.
  Lemma mapM_seq_nth {Y} (xs : list Y) : forall f : nat -> option Y,
    (forall i x, nth_error xs i = Some x -> f i = Some x) -> mapM f (seq 0 (length xs)) = Some xs.
  Proof.
    induction xs as [|x xs IH]; intros f H; cbn [length seq mapM]; [reflexivity|].
    rewrite (H 0 x eq_refl). rewrite <- seq_shift, mapM_map, IH; [reflexivity|].
    intros i y Hi. apply H. exact Hi.
  Qed.
  Definition wf_batch (sh : list nat) (xs : list (tensor A)) : Prop :=
    Forall (fun y => tshape y = sh /\ length (tdata y) = tsize sh) xs.
  Lemma unstack_stack (xs : list (tensor A)) sh :
    wf_batch sh xs -> unstack (length xs) (stack_t (length xs) xs) = Some xs.
  Proof. intros H. unfold unstack. apply mapM_seq_nth. intros i x Hi. eapply slice_stack_t; eauto. Qed.
  (* jax.vmap(f) applied to the stack of xs is the stack of the individual results *)
  Lemma vmap_is_map (f : tensor A -> tensor A) (xs : list (tensor A)) sh :
    wf_batch sh xs -> vmap_t f (length xs) (stack_t (length xs) xs) = Some (stack_t (length xs) (map f xs)).
  Proof. intros H. unfold vmap_t. rewrite (unstack_stack xs sh H). reflexivity. Qed.
  (* ... and reading the batched result back element by element gives exactly the loop's outputs *)
  Lemma vmap_unstack (f : tensor A -> tensor A) (xs : list (tensor A)) sh sh' :
    wf_batch sh xs -> wf_batch sh' (map f xs) ->
    match vmap_t f (length xs) (stack_t (length xs) xs) with
    | Some y => unstack (length xs) y = Some (map f xs)
    | None => False
    end.
  Proof.
    intros H H'. rewrite (vmap_is_map f xs sh H). rewrite <- (map_length f xs) at 1 2. eapply unstack_stack; eauto.
  Qed.
End VmapP.

Definition ex_like : @vtree Z nat nat :=
  Node 0 [ Arr KFloat (mkT [2] [0; 0]%Z); Static 3; Node 1 [Arr KInt (mkT [] [0%Z]); Hole]; W (1%Z, Where) [Arr KBool (mkT [1] [0%Z])] ].
Definition ex_obj : @vtree Z nat nat :=
  Node 0 [ Arr KFloat (mkT [2] [4; 5]%Z); Static 3; Node 1 [Arr KInt (mkT [] [7%Z]); Hole]; W (1%Z, Where) [Arr KBool (mkT [1] [1%Z])] ].
