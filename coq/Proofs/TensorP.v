(* Lemmas about Model/Tensor.v: python index conventions, shapes of the axis operations,
   reshape round trips, indexing/scatter frame property.  All closed under the global context. *)
From Coq Require Import List ZArith Bool Arith Lia ZifyBool.
From FJ Require Import Model.Num Model.Tensor.
Import ListNotations.

(* ---------- small generalities ---------- *)
Lemma shape_eqb_eq (a b : shape) : shape_eqb a b = true <-> a = b.
Proof. unfold shape_eqb. destruct (list_eq_dec Nat.eq_dec a b); split; congruence. Qed.
Lemma shape_eqb_refl (a : shape) : shape_eqb a a = true.
Proof. now apply shape_eqb_eq. Qed.
Lemma oshape_eqb_eq (a b : option shape) : oshape_eqb a b = true <-> a = b.
Proof.
  destruct a, b; cbn; try (split; congruence).
  rewrite shape_eqb_eq. split; congruence.
Qed.

Lemma tensor_ind' {A} (P : tensor A -> Prop) :
  (forall a, P (Sc a)) -> (forall l, Forall P l -> P (Ar l)) -> forall t, P t.
Proof.
  intros Hs Ha. fix IH 1. intros [a|l]; [apply Hs|]. apply Ha.
  induction l as [|t l IHl]; constructor; [apply IH | exact IHl].
Qed.

Lemma forallb_Forall {X} (f : X -> bool) l : forallb f l = true <-> Forall (fun x => f x = true) l.
Proof. rewrite forallb_forall, Forall_forall. reflexivity. Qed.

Lemma map2_length {X Y Z} (f : X -> Y -> Z) l1 l2 : length (map2 f l1 l2) = Nat.min (length l1) (length l2).
Proof. revert l2; induction l1 as [|a l1 IH]; intros [|b l2]; cbn; auto. Qed.
Lemma map2_map_l {X X' Y Z} (f : X' -> Y -> Z) (g : X -> X') l1 l2 :
  map2 f (map g l1) l2 = map2 (fun a b => f (g a) b) l1 l2.
Proof. revert l2; induction l1 as [|a l1 IH]; intros [|b l2]; cbn; auto. now rewrite IH. Qed.
Lemma map2_combine {X Y Z} (f : X -> Y -> Z) l1 l2 :
  map2 f l1 l2 = map (fun p => f (fst p) (snd p)) (combine l1 l2).
Proof. revert l2; induction l1 as [|a l1 IH]; intros [|b l2]; cbn; auto. now rewrite IH. Qed.
Lemma map2_ext_in {X Y Z} (f g : X -> Y -> Z) l1 l2 :
  (forall a b, In (a, b) (combine l1 l2) -> f a b = g a b) -> map2 f l1 l2 = map2 g l1 l2.
Proof.
  revert l2; induction l1 as [|a l1 IH]; intros [|b l2] H; cbn; auto.
  rewrite H by (left; reflexivity). f_equal. apply IH. intros; apply H; now right.
Qed.

Lemma Forall_firstn' {X} (P : X -> Prop) n l : Forall P l -> Forall P (firstn n l).
Proof. intros H. revert n; induction H; intros [|n]; cbn; auto. Qed.
Lemma Forall_skipn' {X} (P : X -> Prop) n l : Forall P l -> Forall P (skipn n l).
Proof. intros H. revert n; induction H; intros [|n]; cbn; auto. Qed.

Lemma mapo_Some {X Y} (f : X -> option Y) (g : X -> Y) l :
  Forall (fun x => f x = Some (g x)) l -> mapo f l = Some (map g l).
Proof. induction 1 as [|x l Hx _ IH]; cbn; [reflexivity|]. now rewrite Hx, IH. Qed.

Lemma mapo_map_Some {X X' Y} (f : X' -> option Y) (h : X -> X') (g : X -> Y) l :
  Forall (fun x => f (h x) = Some (g x)) l -> mapo f (map h l) = Some (map g l).
Proof. induction 1 as [|x l Hx _ IH]; cbn; [reflexivity|]. now rewrite Hx, IH. Qed.

Lemma upd_length {X} (l : list X) i v : length (upd l i v) = length l.
Proof. revert i; induction l as [|a l IH]; intros [|i]; cbn; auto. Qed.
Lemma upd_nth_error_same {X} (l : list X) i v : i < length l -> nth_error (upd l i v) i = Some v.
Proof. revert i; induction l as [|a l IH]; intros [|i] H; cbn in *; try lia; auto. apply IH; lia. Qed.
Lemma upd_nth_error_other {X} (l : list X) i j v : i <> j -> nth_error (upd l i v) j = nth_error l j.
Proof.
  revert i j; induction l as [|a l IH]; intros [|i] [|j] H; cbn; auto; try congruence.
Qed.
Lemma upd_Forall {X} (P : X -> Prop) (l : list X) i v : Forall P l -> P v -> Forall P (upd l i v).
Proof.
  intros Hl Hv. revert i; induction Hl as [|a l Ha Hl IH]; intros [|i]; cbn; constructor; auto.
Qed.

(* ---------- python index conventions ---------- *)
Lemma pslice_firstn {X} (l : list X) k : pslice l None (Some (Z.of_nat k)) = firstn k l.
Proof.
  unfold pslice, norm_idx. destruct (Z.of_nat k <? 0)%Z eqn:E; [lia|].
  rewrite Z.sub_0_r. cbn [Z.to_nat skipn].
  destruct (Nat.le_gt_cases k (length l)).
  - f_equal. lia.
  - rewrite (firstn_all2 (n := k)) by lia. apply firstn_all2. lia.
Qed.
Lemma pslice_skipn {X} (l : list X) k : pslice l (Some (Z.of_nat k)) None = skipn k l.
Proof.
  unfold pslice, norm_idx. destruct (Z.of_nat k <? 0)%Z eqn:E; [lia|].
  destruct (Nat.le_gt_cases k (length l)).
  - replace (Z.to_nat (Z.max 0 (Z.min (Z.of_nat (length l)) (Z.of_nat k)))) with k by lia.
    apply firstn_all2. rewrite skipn_length. lia.
  - replace (Z.to_nat (Z.max 0 (Z.min (Z.of_nat (length l)) (Z.of_nat k)))) with (length l) by lia.
    rewrite skipn_all. rewrite (skipn_all2 (n := k)) by lia. now destruct (Z.to_nat _).
Qed.

Lemma py_range_index_spec n i k : py_range_index n i = Some k ->
  k < n /\ (- Z.of_nat n <= i < Z.of_nat n)%Z /\ k = Z.to_nat (i mod Z.of_nat n).
Proof.
  unfold py_range_index. intros H.
  destruct (i <? 0)%Z eqn:E.
  - destruct ((0 <=? i + Z.of_nat n)%Z && (i + Z.of_nat n <? Z.of_nat n)%Z) eqn:G; [|discriminate].
    injection H as <-. apply andb_prop in G as [G1 G2].
    repeat split; try lia.
    replace i with (i + Z.of_nat n - 1 * Z.of_nat n)%Z at 2 by lia.
    rewrite <- (Z.mod_unique (i + Z.of_nat n - 1 * Z.of_nat n) (Z.of_nat n) (-1) (i + Z.of_nat n)); lia.
  - destruct ((0 <=? i)%Z && (i <? Z.of_nat n)%Z) eqn:G; [|discriminate].
    injection H as <-. apply andb_prop in G as [G1 G2].
    repeat split; try lia. rewrite Z.mod_small by lia. reflexivity.
Qed.
Lemma py_range_index_complete n i : (- Z.of_nat n <= i < Z.of_nat n)%Z -> exists k, py_range_index n i = Some k.
Proof.
  intros H. unfold py_range_index. destruct (i <? 0)%Z eqn:E.
  - replace ((0 <=? i + Z.of_nat n)%Z && (i + Z.of_nat n <? Z.of_nat n)%Z) with true by (symmetry; apply andb_true_intro; lia).
    eauto.
  - replace ((0 <=? i)%Z && (i <? Z.of_nat n)%Z) with true by (symmetry; apply andb_true_intro; lia). eauto.
Qed.
Lemma py_range_index_none n i : py_range_index n i = None -> ~ (- Z.of_nat n <= i < Z.of_nat n)%Z.
Proof. intros H G. destruct (py_range_index_complete n i G) as [k Hk]. congruence. Qed.

Lemma clampn_lt n z : 0 < n -> clampn n z < n.
Proof. unfold clampn. lia. Qed.
Lemma inrange_spec n z : inrange n z = true <-> (0 <= z < Z.of_nat n)%Z.
Proof. unfold inrange. rewrite andb_true_iff. lia. Qed.

(* ---------- sums, offsets, accumulate ---------- *)
Lemma sumn_app a b : sumn (a ++ b) = sumn a + sumn b.
Proof. unfold sumn. induction a; cbn in *; lia. Qed.
Lemma offsets_from_length acc l : length (offsets_from acc l) = length l.
Proof. revert acc; induction l; cbn; auto. Qed.

(* numpy.array_split at the cumulative sizes = the slices (offset, offset + size) *)
Lemma array_split_offsets {A} k (sizes : list nat) (t : tensor A) : sizes <> [] ->
  array_split k (sumn sizes) (accumulate (removelast sizes)) t =
  map (fun p => tslice k (fst p) (fst p + snd p) t) (combine (offsets sizes) sizes).
Proof.
  unfold array_split, accumulate, offsets.
  assert (G : forall acc, sizes <> [] ->
    map2 (fun st en => tslice k st en t) (acc :: accumulate_from acc (removelast sizes) ++ [acc + sumn sizes])
         (accumulate_from acc (removelast sizes) ++ [acc + sumn sizes]) =
    map (fun p => tslice k (fst p) (fst p + snd p) t) (combine (offsets_from acc sizes) sizes)).
  { induction sizes as [|n sizes IH]; intros acc Hne; [congruence|].
    destruct sizes as [|m sizes].
    - cbn. now rewrite Nat.add_0_r.
    - change (removelast (n :: m :: sizes)) with (n :: removelast (m :: sizes)).
      change (accumulate_from acc (n :: removelast (m :: sizes)))
        with ((acc + n) :: accumulate_from (acc + n) (removelast (m :: sizes))).
      change (offsets_from acc (n :: m :: sizes)) with (acc :: offsets_from (acc + n) (m :: sizes)).
      change (sumn (n :: m :: sizes)) with (n + sumn (m :: sizes)).
      rewrite Nat.add_assoc.
      change (combine (acc :: offsets_from (acc + n) (m :: sizes)) (n :: m :: sizes))
        with ((acc, n) :: combine (offsets_from (acc + n) (m :: sizes)) (m :: sizes)).
      rewrite map_cons. rewrite <- (IH (acc + n)) by discriminate.
      reflexivity. }
  intros Hne. specialize (G 0 Hne). cbn [Nat.add] in G. cbn [tl]. exact G.
Qed.

Section T.
  Context {A : Type}.
  Notation tens := (tensor A).
  Implicit Types (t u : tens) (s : shape).

  Lemma has_shape_nil t : has_shape [] t = true <-> exists a, t = Sc a.
  Proof. destruct t; cbn; split; intros H; eauto; try discriminate. destruct H; discriminate. Qed.
  Lemma has_shape_cons n s t : has_shape (n :: s) t = true <->
    exists l, t = Ar l /\ length l = n /\ Forall (fun u => has_shape s u = true) l.
  Proof.
    destruct t as [a|l]; cbn [has_shape].
    - split; [discriminate|]. intros (l & H & _); discriminate.
    - rewrite andb_true_iff, Nat.eqb_eq, forallb_Forall. split.
      + intros [H1 H2]. eauto.
      + intros (l' & E & H1 & H2). injection E as <-. auto.
  Qed.
  Lemma has_shape_Ar n s l : has_shape (n :: s) (Ar l) = true <->
    length l = n /\ Forall (fun u => has_shape s u = true) l.
  Proof.
    rewrite has_shape_cons. split.
    - intros (l' & E & H). injection E as <-. exact H.
    - intros H. eauto.
  Qed.

  Lemma nth_has_shape s l i : Forall (fun u => has_shape s u = true) l -> i < length l ->
    has_shape s (nth i l dflt) = true.
  Proof. intros H Hi. rewrite Forall_forall in H. apply H, nth_In, Hi. Qed.

  (* ---- slices along an axis ---- *)
  Lemma tslice_shape pre n post a b t : has_shape (pre ++ n :: post) t = true -> a <= b -> b <= n ->
    has_shape (pre ++ (b - a) :: post) (tslice (length pre) a b t) = true.
  Proof.
    revert t. induction pre as [|p pre IH]; intros t H Hab Hbn.
    - cbn [app length] in *. apply has_shape_cons in H as (l & -> & Hl & Hf).
      cbn [tslice]. apply has_shape_Ar. split.
      + rewrite firstn_length, skipn_length. lia.
      + now apply Forall_firstn', Forall_skipn'.
    - cbn [app length] in *. apply has_shape_cons in H as (l & -> & Hl & Hf).
      cbn [tslice]. apply has_shape_Ar. split; [now rewrite map_length|].
      apply Forall_map. revert Hf. apply Forall_impl. intros u Hu. now apply IH.
  Qed.

  (* ---- take along an axis ---- *)
  Lemma tindex_shape pre n post i t : has_shape (pre ++ n :: post) t = true -> i < n ->
    has_shape (pre ++ post) (tindex (length pre) i t) = true.
  Proof.
    revert t. induction pre as [|p pre IH]; intros t H Hi.
    - cbn [app length] in *. apply has_shape_cons in H as (l & -> & Hl & Hf).
      cbn [tindex]. apply nth_has_shape; [exact Hf | lia].
    - cbn [app length] in *. apply has_shape_cons in H as (l & -> & Hl & Hf).
      cbn [tindex]. apply has_shape_Ar. split; [now rewrite map_length|].
      apply Forall_map. revert Hf. apply Forall_impl. intros u Hu. now apply IH.
  Qed.
  (* jnp.split into sections of size 1, then squeeze = take *)
  Lemma tsqueeze_slice pre n post i t : has_shape (pre ++ n :: post) t = true -> i < n ->
    tsqueeze (length pre) (tslice (length pre) i (i + 1) t) = Some (tindex (length pre) i t).
  Proof.
    revert t. induction pre as [|p pre IH]; intros t H Hi.
    - cbn [app length] in *. apply has_shape_cons in H as (l & -> & Hl & Hf).
      cbn [tslice tsqueeze tindex]. replace (i + 1 - i) with 1 by lia.
      assert (E : skipn i l = nth i l dflt :: skipn (S i) l).
      { clear Hf. subst n. revert i Hi. induction l as [|x l IHl]; intros [|i] Hi; cbn in *; try lia; auto.
        apply IHl. lia. }
      rewrite E. reflexivity.
    - cbn [app length] in *. apply has_shape_cons in H as (l & -> & Hl & Hf).
      cbn [tslice tsqueeze tindex]. rewrite (mapo_map_Some _ _ (tindex (length pre) i)).
      + reflexivity.
      + revert Hf. apply Forall_impl. intros u Hu. now apply IH.
  Qed.

  (* ---- expand_dims / concatenate / stack ---- *)
  Lemma texpand_shape pre post t : has_shape (pre ++ post) t = true ->
    has_shape (pre ++ 1 :: post) (texpand (length pre) t) = true.
  Proof.
    revert t. induction pre as [|p pre IH]; intros t H.
    - cbn [app length texpand] in *. apply has_shape_Ar. split; [reflexivity|]. constructor; auto.
    - cbn [app length] in *. apply has_shape_cons in H as (l & -> & Hl & Hf).
      cbn [texpand]. apply has_shape_Ar. split; [now rewrite map_length|].
      apply Forall_map. revert Hf. apply Forall_impl. intros u Hu. now apply IH.
  Qed.

  Lemma map2o_Forall2 {X Y Z} (f : X -> Y -> option Z) (P : Z -> Prop) l1 l2 :
    Forall2 (fun a b => exists c, f a b = Some c /\ P c) l1 l2 ->
    exists r, map2o f l1 l2 = Some r /\ Forall P r /\ length r = length l1.
  Proof.
    induction 1 as [|a b l1 l2 (c0 & Hc & Pc) _ (r & Hr & Pr & Lr)]; cbn.
    - exists []. auto.
    - rewrite Hc, Hr. exists (c0 :: r). cbn. auto.
  Qed.

  Lemma tcat2_shape pre n1 n2 post t1 t2 :
    has_shape (pre ++ n1 :: post) t1 = true -> has_shape (pre ++ n2 :: post) t2 = true ->
    exists t, tcat2 (length pre) t1 t2 = Some t /\ has_shape (pre ++ (n1 + n2) :: post) t = true.
  Proof.
    revert t1 t2. induction pre as [|p pre IH]; intros t1 t2 H1 H2.
    - cbn [app length] in *. apply has_shape_cons in H1 as (l1 & -> & L1 & F1).
      apply has_shape_cons in H2 as (l2 & -> & L2 & F2).
      cbn [tcat2]. eexists; split; [reflexivity|]. apply has_shape_Ar. split.
      + rewrite app_length. lia.
      + apply Forall_app. auto.
    - cbn [app length] in *. apply has_shape_cons in H1 as (l1 & -> & L1 & F1).
      apply has_shape_cons in H2 as (l2 & -> & L2 & F2).
      cbn [tcat2].
      destruct (map2o_Forall2 (tcat2 (length pre)) (fun u => has_shape (pre ++ (n1 + n2) :: post) u = true) l1 l2)
        as (r & Hr & Pr & Lr).
      { assert (E : length l1 = length l2) by lia. clear L1 L2.
        revert l2 F2 E. induction F1 as [|a l1 Ha _ IHl]; intros [|b l2] F2 E; cbn in E; try lia; constructor.
        - inversion F2; subst. now apply IH.
        - apply IHl; [now inversion F2 | lia]. }
      rewrite Hr. cbn. eexists; split; [reflexivity|]. apply has_shape_Ar. split; [lia | exact Pr].
  Qed.

  Lemma tcat_shape pre post ts ns : ts <> [] ->
    Forall2 (fun t n => has_shape (pre ++ n :: post) t = true) ts ns ->
    exists t, tcat (length pre) ts = Some t /\ has_shape (pre ++ sumn ns :: post) t = true.
  Proof.
    intros Hne H. induction H as [|t n ts ns Ht Hts IH]; [congruence|].
    destruct ts as [|t' ts].
    - inversion Hts; subst. cbn [tcat sumn fold_right]. rewrite Nat.add_0_r.
      assert (exists l, t = Ar l) as [l ->].
      { clear -Ht. destruct pre; cbn in Ht; apply has_shape_cons in Ht as (l & -> & _); eauto. }
      eauto.
    - destruct IH as (u & Hu & Su); [discriminate|].
      change (tcat (length pre) (t :: t' :: ts)) with
        (match tcat (length pre) (t' :: ts) with Some u => tcat2 (length pre) t u | None => None end).
      rewrite Hu. cbn [sumn fold_right]. apply tcat2_shape; assumption.
  Qed.

  Lemma tstack_shape pre post ts : ts <> [] ->
    Forall (fun t => has_shape (pre ++ post) t = true) ts ->
    exists t, tstack (length pre) ts = Some t /\ has_shape (pre ++ length ts :: post) t = true.
  Proof.
    intros Hne H. unfold tstack.
    destruct (tcat_shape pre post (map (texpand (length pre)) ts) (repeat 1 (length ts))) as (t & Ht & St).
    - destruct ts; [congruence|discriminate].
    - clear Hne. induction H as [|t ts Ht _ IH]; cbn; constructor; auto. now apply texpand_shape.
    - exists t. split; [exact Ht|].
      replace (sumn (repeat 1 (length ts))) with (length ts) in St; [exact St|].
      clear. induction ts; cbn; auto.
  Qed.
End T.

(* ---------- reshape, elementwise maps, indexing ---------- *)
Lemma flat_map_length_const {X Y} (f : X -> list Y) m l :
  Forall (fun x => length (f x) = m) l -> length (flat_map f l) = length l * m.
Proof. induction 1 as [|x l Hx _ IH]; cbn; [reflexivity|]. rewrite app_length. lia. Qed.
Lemma chunks_length {X} m n (l : list X) : length (chunks m n l) = n.
Proof. revert l; induction n; intros; cbn; auto. Qed.
Lemma chunks_Forall_length {X} m n (l : list X) : length l = n * m -> Forall (fun c => length c = m) (chunks m n l).
Proof.
  revert l; induction n as [|n IH]; intros l H; cbn; constructor.
  - rewrite firstn_length. lia.
  - apply IH. rewrite skipn_length. lia.
Qed.
Lemma concat_chunks {X} m n (l : list X) : length l = n * m -> concat (chunks m n l) = l.
Proof.
  revert l; induction n as [|n IH]; intros l H; cbn.
  - destruct l; [reflexivity|discriminate].
  - rewrite IH by (rewrite skipn_length; lia). apply firstn_skipn.
Qed.
Lemma chunks_flat_map {X Y} (f : X -> list Y) m l :
  Forall (fun x => length (f x) = m) l -> chunks m (length l) (flat_map f l) = map f l.
Proof.
  induction 1 as [|x l Hx _ IH]; cbn; [reflexivity|].
  replace (firstn m (f x ++ flat_map f l)) with (f x).
  2:{ rewrite firstn_app, Hx, Nat.sub_diag, firstn_O, app_nil_r. subst m. now rewrite firstn_all. }
  replace (skipn m (f x ++ flat_map f l)) with (flat_map f l).
  2:{ rewrite skipn_app, Hx, Nat.sub_diag. subst m. now rewrite skipn_all. }
  now rewrite IH.
Qed.
Lemma flat_map_concat_map' {X Y} (f : X -> list Y) l : flat_map f l = concat (map f l).
Proof. induction l; cbn; congruence. Qed.

Section T2.
  Context {A : Type}.
  Notation tens := (tensor A).
  Implicit Types (t u : tens) (s : shape).

  Lemma flatten_length s t : has_shape s t = true -> length (flatten t) = prodn s.
  Proof.
    revert t. induction s as [|n s IH]; intros t H.
    - apply has_shape_nil in H as [a ->]. reflexivity.
    - apply has_shape_cons in H as (l & -> & Hl & Hf). cbn [flatten prodn fold_right].
      rewrite (flat_map_length_const _ (prodn s)); [now rewrite Hl|].
      revert Hf. apply Forall_impl. intros u Hu. now apply IH.
  Qed.
  Lemma unflatten_shape s (l : list A) : length l = prodn s -> has_shape s (unflatten s l) = true.
  Proof.
    revert l. induction s as [|n s IH]; intros l H.
    - cbn in *. destruct l as [|a [|]]; try discriminate. reflexivity.
    - cbn [unflatten]. apply has_shape_Ar. split; [now rewrite map_length, chunks_length|].
      apply Forall_map. generalize (chunks_Forall_length (prodn s) n l H).
      apply Forall_impl. intros c0 Hc. now apply IH.
  Qed.
  Lemma flatten_unflatten s (l : list A) : length l = prodn s -> flatten (unflatten s l) = l.
  Proof.
    revert l. induction s as [|n s IH]; intros l H.
    - cbn in *. destruct l as [|a [|]]; try discriminate. reflexivity.
    - cbn [unflatten flatten]. rewrite flat_map_concat_map', map_map.
      rewrite <- (concat_chunks (prodn s) n l H) at 2. f_equal.
      rewrite <- (map_id (chunks (prodn s) n l)) at 2. apply map_ext_in. intros c0 Hc.
      apply IH. generalize (chunks_Forall_length (prodn s) n l H). rewrite Forall_forall. auto.
  Qed.
  Lemma unflatten_flatten s t : has_shape s t = true -> unflatten s (flatten t) = t.
  Proof.
    revert t. induction s as [|n s IH]; intros t H.
    - apply has_shape_nil in H as [a ->]. reflexivity.
    - apply has_shape_cons in H as (l & -> & Hl & Hf). cbn [flatten unflatten]. subst n.
      rewrite (chunks_flat_map flatten (prodn s)).
      + rewrite map_map. f_equal. rewrite <- (map_id l) at 2. apply map_ext_in. intros u Hu.
        apply IH. rewrite Forall_forall in Hf. auto.
      + revert Hf. apply Forall_impl. intros u Hu. now apply flatten_length.
  Qed.
  Lemma treshape_shape s s' t : has_shape s t = true -> prodn s' = prodn s -> has_shape s' (treshape s' t) = true.
  Proof. intros H E. apply unflatten_shape. rewrite E. now apply flatten_length. Qed.
  (* reshape only re-presents: the C-order list of entries is unchanged *)
  Lemma treshape_flatten s s' t : has_shape s t = true -> prodn s' = prodn s -> flatten (treshape s' t) = flatten t.
  Proof. intros H E. apply flatten_unflatten. rewrite E. now apply flatten_length. Qed.

  Lemma tmap_shape (f : A -> A) s t : has_shape s t = true -> has_shape s (tmap f t) = true.
  Proof.
    revert t. induction s as [|n s IH]; intros t H.
    - apply has_shape_nil in H as [a ->]. reflexivity.
    - apply has_shape_cons in H as (l & -> & Hl & Hf). cbn [tmap]. apply has_shape_Ar.
      split; [now rewrite map_length|]. apply Forall_map. revert Hf. apply Forall_impl. auto.
  Qed.
  Lemma tmap2_shape (f : A -> A -> A) s t u : has_shape s t = true -> has_shape s u = true ->
    has_shape s (tmap2 f t u) = true.
  Proof.
    revert t u. induction s as [|n s IH]; intros t u H1 H2.
    - apply has_shape_nil in H1 as [a ->]. apply has_shape_nil in H2 as [b ->]. reflexivity.
    - apply has_shape_cons in H1 as (l1 & -> & L1 & F1). apply has_shape_cons in H2 as (l2 & -> & L2 & F2).
      cbn [tmap2]. apply has_shape_Ar. split; [rewrite map2_length; lia|].
      assert (E : length l1 = length l2) by lia. clear L1 L2.
      revert l2 F2 E. induction F1 as [|a l1 Ha _ IHl]; intros [|b l2] F2 E; cbn in *; try lia; constructor.
      + inversion F2; subst. now apply IH.
      + apply IHl; [now inversion F2|lia].
  Qed.
  Lemma tflip_shape s t : has_shape s t = true -> has_shape s (tflip t) = true.
  Proof.
    revert t. induction s as [|n s IH]; intros t H.
    - apply has_shape_nil in H as [a ->]. reflexivity.
    - apply has_shape_cons in H as (l & -> & Hl & Hf). cbn [tflip]. apply has_shape_Ar.
      split; [now rewrite rev_length, map_length|]. apply Forall_rev, Forall_map. revert Hf. apply Forall_impl. auto.
  Qed.

  (* ---- x[idx] and x.at[idx].set(y) ---- *)
  Lemma resolve_sel_facts n i zs keep : resolve_sel n i = Some (zs, keep) ->
    0 < n /\ (keep = false -> exists z, zs = [z]).
  Proof.
    unfold resolve_sel. destruct (Nat.eqb n 0) eqn:E; [discriminate|]. apply Nat.eqb_neq in E.
    intros H. split; [lia|]. intros ->. destruct i; cbn in H.
    - injection H as <-. eauto.
    - destruct (slice_indices n lo hi step); cbn in H; [injection H as _ H'; discriminate | discriminate].
    - injection H as _ H'. discriminate.
    - destruct (Nat.eqb (length m) n); [injection H as _ H'; discriminate | discriminate].
  Qed.

  Lemma tgather_shape ix : forall s rs t, resolve_idx ix s = Some rs -> has_shape s t = true ->
    has_shape (idx_shape rs s) (tgather rs t) = true.
  Proof.
    induction ix as [|i ix IH]; intros s rs t Hr Ht.
    - destruct s; cbn in Hr; injection Hr as <-; exact Ht.
    - destruct s as [|n s]; [discriminate|]. cbn [resolve_idx] in Hr.
      destruct (resolve_sel n i) as [[zs keep]|] eqn:Es; [|discriminate].
      destruct (resolve_idx ix s) as [rs'|] eqn:Er; [|discriminate]. injection Hr as <-.
      apply resolve_sel_facts in Es as [Hn Hk].
      apply has_shape_cons in Ht as (l & -> & Hl & Hf).
      assert (Hp : forall z, has_shape (idx_shape rs' s) (tgather rs' (nth (clampn (length l) z) l dflt)) = true).
      { intros z. apply (IH s rs' _ Er). apply nth_has_shape; [exact Hf|]. apply clampn_lt. lia. }
      cbn [idx_shape tgather]. destruct keep.
      + apply has_shape_Ar. split; [now rewrite map_length|]. apply Forall_map, Forall_forall. auto.
      + destruct (Hk eq_refl) as [z ->]. apply Hp.
  Qed.

  Lemma tscatter_shape ix : forall s rs t y, resolve_idx ix s = Some rs -> has_shape s t = true ->
    has_shape (idx_shape rs s) y = true -> has_shape s (tscatter rs t y) = true.
  Proof.
    induction ix as [|i ix IH]; intros s rs t y Hr Ht Hy.
    - destruct s; cbn in Hr; injection Hr as <-; exact Hy.
    - destruct s as [|n s]; [discriminate|]. cbn [resolve_idx] in Hr.
      destruct (resolve_sel n i) as [[zs keep]|] eqn:Es; [|discriminate].
      destruct (resolve_idx ix s) as [rs'|] eqn:Er; [|discriminate]. injection Hr as <-.
      apply resolve_sel_facts in Es as [Hn Hk].
      apply has_shape_cons in Ht as (l & -> & Hl & Hf).
      cbn [idx_shape] in Hy. cbn [tscatter].
      set (put := fun (l0 : list tens) (z : Z) (v : tens) =>
        if inrange (length l) z then upd l0 (Z.to_nat z) (tscatter rs' (nth (Z.to_nat z) l0 dflt) v) else l0).
      assert (Hput : forall l0 z v, length l0 = length l -> Forall (fun u => has_shape s u = true) l0 ->
                has_shape (idx_shape rs' s) v = true ->
                length (put l0 z v) = length l /\ Forall (fun u => has_shape s u = true) (put l0 z v)).
      { intros l0 z v L0 F0 Hv. unfold put. destruct (inrange (length l) z) eqn:Ei; [|auto].
        apply inrange_spec in Ei. split; [now rewrite upd_length|].
        apply upd_Forall; [exact F0|]. apply (IH s rs' _ _ Er); [|exact Hv].
        apply nth_has_shape; [exact F0|lia]. }
      destruct keep.
      + apply has_shape_cons in Hy as (ys & -> & Ly & Fy).
        assert (G : forall zv l0, length l0 = length l -> Forall (fun u => has_shape s u = true) l0 ->
                  Forall (fun p => has_shape (idx_shape rs' s) (snd p) = true) zv ->
                  length (fold_left (fun l1 p => put l1 (fst p) (snd p)) zv l0) = length l /\
                  Forall (fun u => has_shape s u = true) (fold_left (fun l1 p => put l1 (fst p) (snd p)) zv l0)).
        { induction zv as [|[z v] zv IHz]; intros l0 L0 F0 Fz; cbn [fold_left]; [auto|].
          inversion Fz; subst. destruct (Hput l0 z v L0 F0) as [L1 F1]; [assumption|].
          apply IHz; assumption. }
        destruct (G (combine zs ys) l eq_refl Hf) as [L1 F1].
        { apply Forall_forall. intros [z v] Hin. apply in_combine_r in Hin. rewrite Forall_forall in Fy. now apply Fy. }
        apply has_shape_Ar. subst n. split; [exact L1 | exact F1].
      + destruct (Hk eq_refl) as [z ->].
        destruct (Hput l z y eq_refl Hf Hy) as [L1 F1]. apply has_shape_Ar. subst n. split; [exact L1 | exact F1].
  Qed.

  (* the frame property of x.at[idx].set(y): a position not selected by idx keeps its value.
     hit rs I: the multi-index I is selected (its leading coordinates lie in the selectors) *)
  Fixpoint hit (rs : list (list Z * bool)) (ix : list nat) : Prop :=
    match rs, ix with
    | [], _ => True
    | (zs, _) :: rs', i :: ix' => In (Z.of_nat i) zs /\ hit rs' ix'
    | _ :: _, [] => False
    end.
  Lemma tscatter_frame rs : forall t y ix, ~ hit rs ix -> tget (tscatter rs t y) ix = tget t ix.
  Proof.
    induction rs as [|[zs keep] rs IH]; intros t y ix Hh; [cbn in Hh; tauto|].
    cbn [tscatter]. destruct t as [a|l]; [reflexivity|].
    destruct ix as [|i ix]; [now destruct keep, y, zs|].
    cbn [hit] in Hh.
    set (put := fun (l0 : list tens) (z : Z) (v : tens) =>
        if inrange (length l) z then upd l0 (Z.to_nat z) (tscatter rs (nth (Z.to_nat z) l0 dflt) v) else l0).
    assert (Hput : forall l0 z v, (Z.of_nat i = z -> ~ hit rs ix) ->
              tget (Ar (put l0 z v)) (i :: ix) = tget (Ar l0) (i :: ix)).
    { intros l0 z v Hz. unfold put. destruct (inrange (length l) z) eqn:Ei; [|reflexivity].
      apply inrange_spec in Ei. cbn [tget].
      destruct (Nat.eq_dec (Z.to_nat z) i) as [E|E].
      - subst i. destruct (Nat.lt_ge_cases (Z.to_nat z) (length l0)) as [Hl|Hl].
        + rewrite upd_nth_error_same by exact Hl.
          rewrite IH by (apply Hz; lia).
          destruct (nth_error l0 (Z.to_nat z)) eqn:En.
          * now rewrite (nth_error_nth _ _ _ En).
          * apply nth_error_None in En. lia.
        + assert (En : nth_error l0 (Z.to_nat z) = None) by now apply nth_error_None.
          rewrite En. assert (En' : nth_error (upd l0 (Z.to_nat z) (tscatter rs (nth (Z.to_nat z) l0 dflt) v)) (Z.to_nat z) = None).
          { apply nth_error_None. now rewrite upd_length. }
          now rewrite En'.
      - now rewrite upd_nth_error_other. }
    destruct keep.
    - destruct y as [b|ys]; [reflexivity|].
      assert (G : forall zv l0, (forall z v, In (z, v) zv -> Z.of_nat i = z -> ~ hit rs ix) ->
                tget (Ar (fold_left (fun l1 p => put l1 (fst p) (snd p)) zv l0)) (i :: ix) = tget (Ar l0) (i :: ix)).
      { induction zv as [|[z v] zv IHz]; intros l0 Hz; cbn [fold_left]; [reflexivity|].
        rewrite IHz by (intros; eapply Hz; [right|]; eauto).
        apply Hput. eapply Hz. left; reflexivity. }
      apply G. intros z v Hin E Hx. apply Hh. split; [|exact Hx]. subst z. eapply in_combine_l, Hin.
    - destruct zs as [|z zs]; [reflexivity|]. apply Hput. intros E Hx. apply Hh. split; [left; auto|exact Hx].
  Qed.

  (* ---- sums ---- *)
  Context (O : NumOps A).
  Lemma tsum_scalars (ls : list A) : tsum O (Ar (map Sc ls)) = sum O ls.
  Proof.
    unfold tsum. cbn [flatten]. f_equal. induction ls as [|a ls IH]; cbn; [reflexivity|]. now rewrite IH.
  Qed.
  Lemma py_sum_scalars (ls : list A) : py_sum O (map Sc ls) = Some (Sc (sum O ls)).
  Proof.
    unfold py_sum, sum. generalize (c O 0). induction ls as [|a ls IH]; intros acc; cbn; [reflexivity|]. apply IH.
  Qed.
End T2.
