(* C01 / C02 at the combinator level, on Model/Bij.v: for every well-constructed tree (any nesting depth, width,
   rank, axis) whose leaves are invertible, inverse o forward = id and forward o inverse = id on inputs of the
   declared shape, the *_and_log_det variants return the same point, and the log-det of one direction is the
   negation of the other's; the log-det of a combinator is the sum of its children's at the prescribed points.
   First the tensor-level round trips (split/concatenate, take/stack, gather/scatter, reshape, flip, permute),
   then the induction over [bij].  Carrier laws enter as Section hypotheses. *)
From Coq Require Import List ZArith Bool Arith Lia ZifyBool Permutation.
From FJ Require Import Model.Num Model.Tensor Model.Bij Proofs.TensorP Proofs.TensorGet Proofs.BijP Proofs.BijCor.
Import ListNotations.

(* ---------- lists ---------- *)
Lemma nth_ext_eq {X} (l1 l2 : list X) d : length l1 = length l2 -> (forall p, p < length l1 -> nth p l1 d = nth p l2 d) -> l1 = l2.
Proof.
  revert l2; induction l1 as [|a l1 IH]; intros [|b l2] L H; cbn in *; try discriminate; [reflexivity|].
  f_equal; [apply (H 0); lia | apply IH; [lia | intros p Hp; apply (H (S p)); lia]].
Qed.
Lemma map2_cancel {X Y} (f g : X -> Y -> X) (P : X -> Y -> Prop) l1 l2 : length l1 = length l2 ->
  (forall a b, In (a, b) (combine l1 l2) -> g (f a b) b = a) -> map2 g (map2 f l1 l2) l2 = l1.
Proof.
  revert l2; induction l1 as [|a l1 IH]; intros [|b l2] L H; cbn in *; try discriminate; [reflexivity|].
  f_equal; [apply H; now left | apply IH; [lia | intros; apply H; now right]].
Qed.
Lemma map2o_map {X Y Z W} (f : Y -> Z -> option W) (g : X -> Y) (h : X -> Z) (k : X -> W) l :
  Forall (fun x => f (g x) (h x) = Some (k x)) l -> map2o f (map g l) (map h l) = Some (map k l).
Proof. induction 1 as [|x l Hx _ IH]; cbn; [reflexivity|]. now rewrite Hx, IH. Qed.
Lemma map2o_back {X Y Z W} (f : X -> Y -> option Z) (h : Z -> W) (h1 : X -> Y -> W) l1 l2 r :
  map2o f l1 l2 = Some r -> (forall a b c, In (a, b) (combine l1 l2) -> f a b = Some c -> h c = h1 a b) ->
  map h r = map2 h1 l1 l2.
Proof.
  revert l2 r; induction l1 as [|a l1 IH]; intros [|b l2] r H G; cbn in H; try discriminate.
  - injection H as <-. reflexivity.
  - destruct (f a b) as [c0|] eqn:Ef; [|discriminate]. destruct (map2o f l1 l2) as [r'|] eqn:Er; [|discriminate].
    injection H as <-. cbn. f_equal; [apply (G a b); [now left|exact Ef] | apply IH; [exact Er | intros; eapply G; [right|]; eauto]].
Qed.
Lemma map2_fst_eq {X Y} (l1 : list X) (l2 : list Y) : length l1 = length l2 -> map2 (fun a _ => a) l1 l2 = l1.
Proof. revert l2; induction l1 as [|a l1 IH]; intros [|b l2] L; cbn in *; try discriminate; [reflexivity|]. f_equal. apply IH. lia. Qed.
Lemma skipn_add' {X} (l : list X) a d : skipn (a + d) l = skipn d (skipn a l).
Proof. revert l; induction a as [|a IH]; intros [|x l]; cbn; auto. now destruct d. Qed.
Lemma firstn_skipn_join {X} (l : list X) a b c : a <= b -> b <= c ->
  firstn (b - a) (skipn a l) ++ firstn (c - b) (skipn b l) = firstn (c - a) (skipn a l).
Proof.
  intros H1 H2. replace (skipn b l) with (skipn (b - a) (skipn a l)) by (rewrite <- skipn_add'; f_equal; lia).
  generalize (skipn a l) as m. intros m. replace (c - a) with ((b - a) + (c - b)) by lia.
  generalize (b - a) as u, (c - b) as v. clear. intros u v. revert m. induction u as [|u IH]; intros m; cbn; [reflexivity|].
  destruct m as [|x m]; cbn; [now destruct v|]. f_equal. apply IH.
Qed.

Section TL.
  Context {A : Type}.
  Notation tens := (tensor A).
  Implicit Types (t u x y : tens) (s : shape).

  Lemma tflip_invol t : tflip (tflip t) = t.
  Proof.
    induction t as [a|l IH] using tensor_ind'; [reflexivity|]. cbn [tflip].
    rewrite map_rev, rev_involutive, map_map. f_equal. rewrite <- (map_id l) at 2. apply map_ext_in.
    intros u Hu. rewrite Forall_forall in IH. now apply IH.
  Qed.

  (* all entries of a tensor *)
  Definition tall (P : A -> Prop) t : Prop := Forall P (flatten t).
  Lemma tall_Ar P l : tall P (Ar l) <-> Forall (tall P) l.
  Proof.
    unfold tall. cbn [flatten]. induction l as [|u l IH]; cbn; [split; constructor|].
    rewrite Forall_app, IH. split; [intros [H1 H2]; constructor; auto | intros H; inversion H; auto].
  Qed.

  Lemma tmap2_cancel (f g : A -> A -> A) (P : A -> Prop) : (forall a b, P b -> g (f a b) b = a) ->
    forall s x p, has_shape s x = true -> has_shape s p = true -> tall P p -> tmap2 g (tmap2 f x p) p = x.
  Proof.
    intros Hc. induction s as [|n s IH]; intros x p Hx Hp Ha.
    - apply has_shape_nil in Hx as [a ->]. apply has_shape_nil in Hp as [b ->]. cbn. f_equal. apply Hc.
      unfold tall in Ha. cbn in Ha. now inversion Ha.
    - apply has_shape_cons in Hx as (lx & -> & Lx & Fx). apply has_shape_cons in Hp as (lp & -> & Lp & Fp).
      apply tall_Ar in Ha. cbn [tmap2]. f_equal.
      assert (L : length lx = length lp) by lia. clear Lx Lp.
      revert lp L Fp Ha. induction Fx as [|a lx Hx _ IHl]; intros [|b lp] L Fp Ha; cbn in *; try discriminate; [reflexivity|].
      inversion Fp; subst. inversion Ha; subst. f_equal; [now apply IH | apply IHl; auto; lia].
  Qed.
  Lemma tmap_tmap (f g : A -> A) t : tmap g (tmap f t) = tmap (fun a => g (f a)) t.
  Proof.
    induction t as [a|l IH] using tensor_ind'; [reflexivity|]. cbn [tmap]. rewrite map_map. f_equal.
    apply map_ext_in. intros u Hu. rewrite Forall_forall in IH. now apply IH.
  Qed.
  Lemma tmap_id_ext (f : A -> A) t : (forall a, f a = a) -> tmap f t = t.
  Proof.
    intros H. induction t as [a|l IH] using tensor_ind'; [cbn; now rewrite H|]. cbn [tmap]. f_equal.
    rewrite <- (map_id l) at 2. apply map_ext_in. intros u Hu. rewrite Forall_forall in IH. now apply IH.
  Qed.

  (* reshape there and back *)
  Lemma treshape_back s s' t : has_shape s t = true -> prodn s' = prodn s -> treshape s (treshape s' t) = t.
  Proof.
    intros H E. unfold treshape. rewrite flatten_unflatten by (rewrite E; now apply flatten_length).
    now apply unflatten_flatten.
  Qed.

  (* ---- slices and concatenation along an axis ---- *)
  Lemma tslice_full pre n post : forall t, has_shape (pre ++ n :: post) t = true -> tslice (length pre) 0 n t = t.
  Proof.
    induction pre as [|p pre IH]; intros t H; cbn [app length] in *; apply has_shape_cons in H as (l & -> & L & F); cbn [tslice]; f_equal.
    - cbn. rewrite Nat.sub_0_r. apply firstn_all2. lia.
    - rewrite <- (map_id l) at 2. apply map_ext_in. intros u Hu. apply IH. rewrite Forall_forall in F. auto.
  Qed.
  Lemma tcat2_slices pre n post : forall t a b c, has_shape (pre ++ n :: post) t = true -> a <= b -> b <= c ->
    tcat2 (length pre) (tslice (length pre) a b t) (tslice (length pre) b c t) = Some (tslice (length pre) a c t).
  Proof.
    induction pre as [|p pre IH]; intros t a b c H H1 H2; cbn [app length] in *; apply has_shape_cons in H as (l & -> & L & F); cbn [tslice tcat2].
    - now rewrite firstn_skipn_join.
    - rewrite (map2o_map _ _ _ (tslice (length pre) a c)); [reflexivity|].
      revert F. apply Forall_impl. intros u Hu. now apply IH.
  Qed.
  Lemma tslice_tcat2_l pre n1 n2 post : forall t1 t2 t,
    has_shape (pre ++ n1 :: post) t1 = true -> has_shape (pre ++ n2 :: post) t2 = true ->
    tcat2 (length pre) t1 t2 = Some t -> tslice (length pre) 0 n1 t = t1.
  Proof.
    induction pre as [|p pre IH]; intros t1 t2 t H1 H2 Hc; cbn [app length] in *;
      apply has_shape_cons in H1 as (l1 & -> & L1 & F1); apply has_shape_cons in H2 as (l2 & -> & L2 & F2); cbn [tcat2] in Hc.
    - injection Hc as <-. cbn [tslice skipn]. rewrite Nat.sub_0_r. f_equal. subst n1.
      rewrite firstn_app, Nat.sub_diag, firstn_all, firstn_O, app_nil_r. reflexivity.
    - destruct (map2o (tcat2 (length pre)) l1 l2) as [r|] eqn:Er; [|discriminate]. injection Hc as <-. cbn [tslice]. f_equal.
      rewrite (map2o_back _ _ (fun a _ => a) _ _ _ Er); [apply map2_fst_eq; lia|].
      intros a b c0 Hin Hf. apply in_combine_l in Hin as Ha. apply in_combine_r in Hin as Hb.
      rewrite Forall_forall in F1, F2. eapply IH; eauto.
  Qed.
  Lemma tslice_tcat2_r pre n1 n2 post : forall t1 t2 t a b,
    has_shape (pre ++ n1 :: post) t1 = true -> has_shape (pre ++ n2 :: post) t2 = true ->
    tcat2 (length pre) t1 t2 = Some t -> tslice (length pre) (n1 + a) (n1 + b) t = tslice (length pre) a b t2.
  Proof.
    induction pre as [|p pre IH]; intros t1 t2 t a b H1 H2 Hc; cbn [app length] in *;
      apply has_shape_cons in H1 as (l1 & -> & L1 & F1); apply has_shape_cons in H2 as (l2 & -> & L2 & F2); cbn [tcat2] in Hc.
    - injection Hc as <-. cbn [tslice]. f_equal. subst n1. replace (length l1 + b - (length l1 + a)) with (b - a) by lia.
      rewrite skipn_app. rewrite (skipn_all2 l1) by lia. cbn [app]. f_equal. f_equal. lia.
    - destruct (map2o (tcat2 (length pre)) l1 l2) as [r|] eqn:Er; [|discriminate]. injection Hc as <-. cbn [tslice]. f_equal.
      rewrite (map2o_back _ _ (fun _ u => tslice (length pre) a b u) _ _ _ Er).
      + assert (L : length l1 = length l2) by lia. clear -L. revert l2 L. induction l1; intros [|? l2] L; cbn in *; try discriminate; auto.
        f_equal. apply IHl1. lia.
      + intros u1 u2 c0 Hin Hf. apply in_combine_l in Hin as Ha. apply in_combine_r in Hin as Hb.
        rewrite Forall_forall in F1, F2. eapply IH; eauto.
  Qed.

  Definition parts (k : nat) (y : tens) (acc : nat) (sizes : list nat) : list tens :=
    map (fun p => tslice k (fst p) (fst p + snd p) y) (combine (offsets_from acc sizes) sizes).

  (* concatenate o split = id *)
  Lemma cat_of_parts pre n post x : has_shape (pre ++ n :: post) x = true ->
    forall sizes acc, sizes <> [] ->
    tcat (length pre) (parts (length pre) x acc sizes) = Some (tslice (length pre) acc (acc + sumn sizes) x).
  Proof.
    intros Hx. induction sizes as [|m sizes IH]; intros acc Hne; [congruence|].
    destruct sizes as [|m' sizes].
    - unfold parts. cbn. rewrite Nat.add_0_r.
      destruct pre; cbn [app length] in *; apply has_shape_cons in Hx as (l & -> & _); reflexivity.
    - unfold parts in *. cbn [offsets_from combine map fst snd].
      change (tcat (length pre) (?a :: ?b :: ?r)) with
        (match tcat (length pre) (b :: r) with Some u => tcat2 (length pre) a u | None => None end).
      specialize (IH (acc + m)). cbn [offsets_from combine map fst snd] in IH. rewrite IH by discriminate.
      replace (acc + sumn (m :: m' :: sizes)) with (acc + m + sumn (m' :: sizes)) by (unfold sumn; cbn; lia).
      apply (tcat2_slices pre n post); [exact Hx | lia | lia].
  Qed.
  (* split o concatenate = id *)
  Lemma parts_shift pre n1 n2 post t1 t2 t :
    has_shape (pre ++ n1 :: post) t1 = true -> has_shape (pre ++ n2 :: post) t2 = true -> tcat2 (length pre) t1 t2 = Some t ->
    forall sizes acc, parts (length pre) t (n1 + acc) sizes = parts (length pre) t2 acc sizes.
  Proof.
    intros H1 H2 Hc. unfold parts. induction sizes as [|m sizes IH]; intros acc; cbn [offsets_from combine map fst snd]; [reflexivity|].
    f_equal.
    - rewrite <- Nat.add_assoc. eapply tslice_tcat2_r; eauto.
    - rewrite <- Nat.add_assoc. apply IH.
  Qed.
  Lemma parts_of_cat pre post : forall ys sizes y,
    Forall2 (fun u m => has_shape (pre ++ m :: post) u = true) ys sizes -> tcat (length pre) ys = Some y ->
    parts (length pre) y 0 sizes = ys.
  Proof.
    induction ys as [|u ys IH]; intros sizes y F Hc; [discriminate|].
    inversion F as [|? m ? sizes' Hu F']; subst.
    destruct ys as [|u' ys].
    - inversion F'; subst. cbn [tcat] in Hc. destruct u as [a|l]; [discriminate|]. injection Hc as <-.
      unfold parts. cbn. f_equal. apply (tslice_full pre m post). exact Hu.
    - change (tcat (length pre) (u :: u' :: ys)) with
        (match tcat (length pre) (u' :: ys) with Some r => tcat2 (length pre) u r | None => None end) in Hc.
      destruct (tcat (length pre) (u' :: ys)) as [r|] eqn:Er; [|discriminate].
      destruct (tcat_shape pre post (u' :: ys) sizes') as (r' & Hr' & Sr'); [discriminate | exact F'|].
      rewrite Er in Hr'. injection Hr' as <-.
      unfold parts. cbn [offsets_from combine map fst snd]. f_equal.
      + eapply tslice_tcat2_l; eauto.
      + change (map _ (combine (offsets_from (0 + m) sizes') sizes')) with (parts (length pre) y (0 + m) sizes').
        rewrite Nat.add_comm. rewrite (parts_shift pre m (sumn sizes') post u r y Hu Sr' Hc). now apply IH.
  Qed.

  (* ---- take and stack along an axis ---- *)
  Lemma texpand_tindex pre n post : forall t i, has_shape (pre ++ n :: post) t = true -> i < n ->
    texpand (length pre) (tindex (length pre) i t) = tslice (length pre) i (i + 1) t.
  Proof.
    induction pre as [|p pre IH]; intros t i H Hi; cbn [app length] in *; apply has_shape_cons in H as (l & -> & L & F); cbn [tindex tslice texpand].
    - replace (i + 1 - i) with 1 by lia. f_equal.
      assert (E : skipn i l = nth i l dflt :: skipn (S i) l).
      { clear F. subst n. revert i Hi. induction l as [|x l IHl]; intros [|i] Hi; cbn in *; try lia; auto. apply IHl. lia. }
      now rewrite E.
    - f_equal. rewrite map_map. apply map_ext_in. intros u Hu. apply IH; [|exact Hi]. rewrite Forall_forall in F. auto.
  Qed.
  Lemma tindex_tslice pre n post : forall t a b i, has_shape (pre ++ n :: post) t = true -> i < b - a ->
    tindex (length pre) i (tslice (length pre) a b t) = tindex (length pre) (a + i) t.
  Proof.
    induction pre as [|p pre IH]; intros t a b i H Hi; cbn [app length] in *; apply has_shape_cons in H as (l & -> & L & F); cbn [tindex tslice].
    - destruct (nth_error (firstn (b - a) (skipn a l)) i) as [u|] eqn:E.
      + rewrite (nth_error_nth _ _ _ E). rewrite nth_error_firstn_skipn in E. replace (i <? b - a) with true in E by (symmetry; apply Nat.ltb_lt; lia).
        now rewrite (nth_error_nth _ _ _ E).
      + rewrite nth_error_firstn_skipn in E. replace (i <? b - a) with true in E by (symmetry; apply Nat.ltb_lt; lia).
        rewrite !nth_overflow; auto.
        * now apply nth_error_None.
        * rewrite firstn_length, skipn_length. apply nth_error_None in E. lia.
    - f_equal. rewrite map_map. apply map_ext_in. intros u Hu. apply IH; [|exact Hi]. rewrite Forall_forall in F. auto.
  Qed.

  (* stack o unstack = id *)
  Lemma stack_of_takes pre n post x : has_shape (pre ++ n :: post) x = true -> 0 < n ->
    tstack (length pre) (map (fun i => tindex (length pre) i x) (seq 0 n)) = Some x.
  Proof.
    intros Hx Hn. unfold tstack. rewrite map_map.
    assert (G : forall m a, 0 < m -> a + m <= n ->
              tcat (length pre) (map (fun i => texpand (length pre) (tindex (length pre) i x)) (seq a m)) =
              Some (tslice (length pre) a (a + m) x)).
    { induction m as [|m IH]; intros a Hm Ha; [lia|]. destruct m as [|m].
      - cbn [seq map tcat]. rewrite (texpand_tindex pre n post) by (auto; lia).
        destruct pre; cbn [app length] in *; apply has_shape_cons in Hx as (l & -> & _); reflexivity.
      - change (seq a (S (S m))) with (a :: seq (S a) (S m)). cbn [map].
        change (tcat (length pre) (?u :: map ?f (seq (S a) (S m)))) with
          (match tcat (length pre) (map f (seq (S a) (S m))) with Some r => tcat2 (length pre) u r | None => None end).
        rewrite IH by lia. rewrite (texpand_tindex pre n post) by (auto; lia).
        replace (a + S (S m)) with (S a + S m) by lia. replace (a + 1) with (S a) by lia.
        apply (tcat2_slices pre n post); [exact Hx|lia|lia]. }
    rewrite (G n 0 Hn) by lia. cbn [Nat.add]. f_equal. now apply (tslice_full pre n post).
  Qed.
  (* unstack o stack = id *)
  Lemma takes_of_stack pre post : forall ys y, Forall (fun u => has_shape (pre ++ post) u = true) ys ->
    tstack (length pre) ys = Some y -> map (fun i => tindex (length pre) i y) (seq 0 (length ys)) = ys.
  Proof.
    unfold tstack. induction ys as [|u ys IH]; intros y F Hs; [reflexivity|].
    inversion F as [|? ? Hu F']; subst.
    assert (E0 : forall w : tens, has_shape (pre ++ post) w = true -> tindex (length pre) 0 (texpand (length pre) w) = w).
    { clear. induction pre as [|p pre IHp]; intros w Hw; [reflexivity|]. cbn [app length] in *.
      apply has_shape_cons in Hw as (l & -> & _ & Fl). cbn [texpand tindex]. f_equal. rewrite map_map.
      rewrite <- (map_id l) at 2. apply map_ext_in. intros v Hv. apply IHp. rewrite Forall_forall in Fl. auto. }
    destruct ys as [|u' ys].
    - cbn [map tcat] in Hs. destruct (texpand (length pre) u) eqn:E; [discriminate|]. injection Hs as <-.
      cbn [length seq map]. f_equal. rewrite <- E. now apply E0.
    - change (tcat (length pre) (map (texpand (length pre)) (u :: u' :: ys))) with
        (match tcat (length pre) (map (texpand (length pre)) (u' :: ys)) with
         | Some r => tcat2 (length pre) (texpand (length pre) u) r | None => None end) in Hs.
      destruct (tcat (length pre) (map (texpand (length pre)) (u' :: ys))) as [r|] eqn:Er; [|discriminate].
      destruct (tstack_shape pre post (u' :: ys)) as (r' & Hr' & Sr'); [discriminate|exact F'|].
      unfold tstack in Hr'. rewrite Er in Hr'. injection Hr' as <-.
      pose proof (texpand_shape pre post u Hu) as Su.
      assert (Sy : exists ny, has_shape (pre ++ ny :: post) y = true /\ 0 < ny).
      { destruct (tcat2_shape pre 1 (length (u' :: ys)) post _ _ Su Sr') as (y' & Hy' & Sy'). rewrite Hs in Hy'. injection Hy' as <-.
        eexists; split; [exact Sy'|lia]. }
      destruct Sy as (ny & Sy & Hny).
      change (length (u :: u' :: ys)) with (S (length (u' :: ys))). cbn [seq map]. f_equal.
      + transitivity (tindex (length pre) 0 (tslice (length pre) 0 1 y)).
        * symmetry. apply (tindex_tslice pre ny post y 0 1 0 Sy). lia.
        * rewrite (tslice_tcat2_l pre 1 _ post _ _ _ Su Sr' Hs). now apply E0.
      + rewrite <- seq_shift, map_map. rewrite <- (IH r F' eq_refl) at 2. apply map_ext_in. intros i Hi. apply in_seq in Hi.
        transitivity (tindex (length pre) i (tslice (length pre) (1 + 0) (1 + length (u' :: ys)) y)).
        * symmetry. etransitivity; [apply (tindex_tslice pre ny post y _ _ i Sy); lia|]. reflexivity.
        * rewrite (tslice_tcat2_r pre 1 _ post _ _ _ 0 (length (u' :: ys)) Su Sr' Hs).
          etransitivity; [apply (tindex_tslice pre (length (u' :: ys)) post r 0 _ i Sr'); lia|]. reflexivity.
  Qed.

  (* ---- x.at[idx].set: writing back what was there restores x ---- *)
  Lemma scatter_restore ix : forall s rs x v, resolve_idx ix s = Some rs -> rs_ok rs s ->
    has_shape s x = true -> has_shape (idx_shape rs s) v = true ->
    tscatter rs (tscatter rs x v) (tgather rs x) = x.
  Proof.
    induction ix as [|i ix IH]; intros s rs x v Hr Hok Hx Hv.
    - destruct s; cbn in Hr; injection Hr as <-; reflexivity.
    - destruct s as [|n s]; [discriminate|]. cbn [resolve_idx] in Hr.
      destruct (resolve_sel n i) as [[zs keep]|] eqn:Es; [|discriminate].
      destruct (resolve_idx ix s) as [rs'|] eqn:Er; [|discriminate]. injection Hr as <-.
      apply resolve_sel_facts in Es as [Hn Hk]. cbn [rs_ok] in Hok. destruct Hok as (Fz & Nz & Hok').
      apply has_shape_cons in Hx as (l & -> & Hl & Hf). subst n. cbn [idx_shape] in Hv.
      assert (Hcl : forall z, inrange (length l) z = true -> clampn (length l) z = Z.to_nat z /\ Z.to_nat z < length l).
      { intros z Hz. apply inrange_spec in Hz. unfold clampn. lia. }
      destruct keep.
      + apply has_shape_cons in Hv as (vs & -> & Lv & Fv). cbn [tscatter tgather]. cbn zeta.
        assert (Lc : map fst (combine zs vs) = zs) by (apply map_fst_combine; lia).
        destruct (fold_put_spec (tscatter rs') (length l) (combine zs vs) l eq_refl) as (R1 & R2 & R3).
        { apply Forall_forall. intros [z w] Hin. apply in_combine_l in Hin. rewrite Forall_forall in Fz. now apply Fz. }
        { now rewrite Lc. }
        cbn zeta in R1, R2, R3. rewrite R1.
        set (r := fold_left _ (combine zs vs) l) in *.
        set (gs := map (fun z => tgather rs' (nth (clampn (length l) z) l dflt)) zs).
        assert (Lg : map fst (combine zs gs) = zs) by (apply map_fst_combine; unfold gs; now rewrite map_length).
        destruct (fold_put_spec (tscatter rs') (length l) (combine zs gs) r R1) as (Q1 & Q2 & Q3).
        { apply Forall_forall. intros [z w] Hin. apply in_combine_l in Hin. rewrite Forall_forall in Fz. now apply Fz. }
        { now rewrite Lg. }
        cbn zeta in Q1, Q2, Q3. f_equal. apply (nth_ext_eq _ _ dflt); [exact Q1|]. intros p Hp.
        destruct (in_dec Z.eq_dec (Z.of_nat p) zs) as [Hin|Hnin].
        * assert (Hz : inrange (length l) (Z.of_nat p) = true) by (rewrite Forall_forall in Fz; now apply Fz).
          (* the pair (z, g) and (z, v) at the position of z in zs *)
          assert (Hex : exists w g, In (Z.of_nat p, w) (combine zs vs) /\ In (Z.of_nat p, g) (combine zs gs) /\
                        g = tgather rs' (nth p l dflt)).
          { clear -Hin Lv Hcl Hz. unfold gs. assert (L : length zs = length vs) by lia. clear Lv.
            revert vs L. induction zs as [|z zs IHz]; intros [|w vs] L; cbn in *; try discriminate; [destruct Hin|].
            destruct Hin as [->|Hin].
            - exists w, (tgather rs' (nth (clampn (length l) (Z.of_nat p)) l dflt)). repeat split; auto.
              destruct (Hcl _ Hz) as [-> _]. now rewrite Nat2Z.id.
            - destruct (IHz Hin vs) as (w' & g' & H1 & H2 & H3); [lia|]. exists w', g'. auto. }
          destruct Hex as (w & g & Hw & Hg & ->).
          pose proof (Q2 _ _ Hg) as E1. pose proof (R2 _ _ Hw) as E2. rewrite Nat2Z.id in E1, E2.
          etransitivity; [exact E1|]. rewrite E2.
          apply (IH s rs'); auto.
          -- apply nth_has_shape; [exact Hf|]. destruct (Hcl _ Hz). lia.
          -- apply in_combine_r in Hw. rewrite Forall_forall in Fv. now apply Fv.
        * etransitivity; [apply Q3|apply R3].
          -- rewrite Lg. intros z Hz E. apply Hnin. rewrite <- E. rewrite Z2Nat.id; [exact Hz|].
             rewrite Forall_forall in Fz. apply Fz, inrange_spec in Hz. lia.
          -- rewrite Lc. intros z Hz E. apply Hnin. rewrite <- E. rewrite Z2Nat.id; [exact Hz|].
             rewrite Forall_forall in Fz. apply Fz, inrange_spec in Hz. lia.
      + destruct (Hk eq_refl) as [z ->]. inversion Fz as [|? ? Hz _]; subst. destruct (Hcl _ Hz) as [Ec Hp].
        cbn [tscatter tgather]. cbn zeta. rewrite Hz. rewrite upd_length, Hz. f_equal.
        apply (nth_ext_eq _ _ dflt); [now rewrite !upd_length|]. intros p _.
        destruct (Nat.eq_dec (Z.to_nat z) p) as [<-|Hne].
        * rewrite !nth_upd_same by (rewrite ?upd_length; lia). rewrite Ec. apply (IH s rs'); auto.
          apply nth_has_shape; [exact Hf|lia].
        * now rewrite !nth_upd_other.
  Qed.

  (* ---- permutations ---- *)
  Context (O : NumOps A).
  Lemma is_perm_Permutation p : is_perm p = true -> Permutation (seq 0 (length p)) p.
  Proof.
    intros H. unfold is_perm in H. rewrite forallb_forall in H.
    apply NoDup_Permutation_bis; [apply seq_NoDup | now rewrite seq_length|].
    intros i Hi. apply H in Hi. apply existsb_exists in Hi as (j & Hj & E). apply Nat.eqb_eq in E. now subst.
  Qed.
  Lemma index_of_nth (p : list nat) j : In j p -> nth (index_of j p) p 0 = j /\ index_of j p < length p.
  Proof.
    induction p as [|a p IH]; intros H; [destruct H|]. cbn [index_of]. destruct (Nat.eqb a j) eqn:E.
    - apply Nat.eqb_eq in E. cbn. split; [exact E|lia].
    - destruct H as [->|H]; [rewrite Nat.eqb_refl in E; discriminate|]. destruct (IH H). cbn. split; [auto|lia].
  Qed.
  Lemma index_of_NoDup (p : list nat) k : NoDup p -> k < length p -> index_of (nth k p 0) p = k.
  Proof.
    revert k. induction p as [|a p IH]; intros k N Hk; [cbn in Hk; lia|]. inversion N as [|? ? Ha N']; subst.
    destruct k as [|k]; cbn [nth index_of]; [now rewrite Nat.eqb_refl|].
    destruct (Nat.eqb a (nth k p 0)) eqn:E.
    - apply Nat.eqb_eq in E. exfalso. apply Ha. rewrite E. apply nth_In. cbn in Hk. lia.
    - f_equal. apply IH; [exact N'|cbn in Hk; lia].
  Qed.
  Lemma gather_argsort_l p (l : list A) : is_perm p = true -> length l = length p -> gather O (argsort p) (gather O p l) = l.
  Proof.
    intros Hp L. pose proof (is_perm_Permutation p Hp) as HP. unfold gather, argsort. rewrite map_map.
    apply (nth_ext_eq _ _ (zero O)); [now rewrite map_length, seq_length|]. intros k Hk.
    rewrite map_length, seq_length in Hk.
    assert (Hin : In k p) by (apply (Permutation_in _ HP), in_seq; lia).
    destruct (index_of_nth p k Hin) as [E1 E2].
    transitivity (nth (index_of k p) (map (fun i0 => nth i0 l (zero O)) p) (zero O)).
    - set (f := fun i => nth (index_of i p) (map (fun i0 => nth i0 l (zero O)) p) (zero O)).
      transitivity (f (nth k (seq 0 (length p)) 0)); [|unfold f; now rewrite seq_nth].
      rewrite <- (map_nth f (seq 0 (length p)) 0 k). apply nth_indep. rewrite map_length, seq_length. lia.
    - set (g := fun i0 => nth i0 l (zero O)).
      transitivity (g (nth (index_of k p) p 0)); [|unfold g; now rewrite E1].
      rewrite <- (map_nth g p 0 (index_of k p)). apply nth_indep. now rewrite map_length.
  Qed.
  Lemma gather_argsort_r p (l : list A) : is_perm p = true -> length l = length p -> gather O p (gather O (argsort p) l) = l.
  Proof.
    intros Hp L. pose proof (is_perm_Permutation p Hp) as HP. unfold gather, argsort. rewrite map_map.
    assert (N : NoDup p) by (eapply Permutation_NoDup; [exact HP | apply seq_NoDup]).
    apply (nth_ext_eq _ _ (zero O)); [now rewrite map_length|]. intros k Hk. rewrite map_length in Hk.
    assert (Hlt : nth k p 0 < length p).
    { assert (Hin : In (nth k p 0) (seq 0 (length p))) by (apply (Permutation_in _ (Permutation_sym HP)), nth_In; exact Hk).
      apply in_seq in Hin. lia. }
    set (f := fun i => nth i (map (fun i0 => nth (index_of i0 p) l (zero O)) (seq 0 (length p))) (zero O)).
    transitivity (f (nth k p 0)).
    - rewrite <- (map_nth f p 0 k). apply nth_indep. now rewrite map_length.
    - unfold f. set (g := fun i0 => nth (index_of i0 p) l (zero O)).
      transitivity (g (nth (nth k p 0) (seq 0 (length p)) 0)).
      + rewrite <- (map_nth g (seq 0 (length p)) 0 (nth k p 0)). apply nth_indep. now rewrite map_length, seq_length.
      + unfold g. rewrite seq_nth by exact Hlt. cbn [Nat.add]. now rewrite index_of_NoDup.
  Qed.
End TL.

(* ================= the induction over bijection trees ================= *)
Section INV.
  Context {A : Type} (O : NumOps A).
  Notation tens := (tensor A).
  Notation bij := (bij A).
  Implicit Types (b : bij) (x y : tens) (c : option tens) (sg : sig).

  (* laws of the carrier: (A, +, 0, -) an abelian group (log-dets); x + b - b = x; x * s / s = x for the
     invertible s (those satisfying [unit]).  True of the reals with unit s := s <> 0. *)
  Variable unit : A -> Prop.
  Hypothesis add_sub : forall a b0 : A, n_sub O (n_add O a b0) b0 = a.
  Hypothesis sub_add : forall a b0 : A, n_add O (n_sub O a b0) b0 = a.
  Hypothesis mul_div : forall a s0 : A, unit s0 -> n_div O (n_mul O a s0) s0 = a.
  Hypothesis div_mul : forall a s0 : A, unit s0 -> n_mul O (n_div O a s0) s0 = a.
  Hypothesis add_assoc : forall a1 a2 a3 : A, n_add O a1 (n_add O a2 a3) = n_add O (n_add O a1 a2) a3.
  Hypothesis add_comm : forall a1 a2 : A, n_add O a1 a2 = n_add O a2 a1.
  Hypothesis add_0_r : forall a : A, n_add O a (zero O) = a.
  Hypothesis add_neg_r : forall a : A, n_add O a (n_neg O a) = zero O.

  Notation "a +' b0" := (n_add O a b0) (at level 50, left associativity).
  Notation "-' a" := (n_neg O a) (at level 35, right associativity).
  Lemma add_0_l a : zero O +' a = a.
  Proof. now rewrite add_comm. Qed.
  Lemma neg_unique a a' : a +' a' = zero O -> a' = -' a.
  Proof.
    intros H. transitivity (a' +' (a +' -' a)); [now rewrite add_neg_r, add_0_r|].
    rewrite add_assoc, (add_comm a' a), H. apply add_0_l.
  Qed.
  Lemma neg_zero : -' (zero O) = zero O.
  Proof. symmetry. apply neg_unique. apply add_0_r. Qed.
  Lemma neg_neg a : -' (-' a) = a.
  Proof. symmetry. apply neg_unique. rewrite add_comm. apply add_neg_r. Qed.
  Lemma neg_add a a' : -' (a +' a') = -' a +' -' a'.
  Proof.
    symmetry. apply neg_unique.
    transitivity ((a +' -' a) +' (a' +' -' a')); [|now rewrite !add_neg_r, add_0_r].
    rewrite !add_assoc. f_equal. rewrite <- !add_assoc. f_equal. apply add_comm.
  Qed.
  Lemma add_swap a1 a2 a3 : a1 +' a2 +' a3 = a1 +' a3 +' a2.
  Proof. now rewrite <- add_assoc, (add_comm a2), add_assoc. Qed.
  Lemma add_cancel a a' : a +' a' +' -' a' = a.
  Proof. now rewrite <- add_assoc, add_neg_r, add_0_r. Qed.
  Lemma add_cancel' a a' : a +' -' a' +' a' = a.
  Proof. now rewrite add_swap, add_cancel. Qed.
  Lemma sum_from_neg (ls : list A) : forall acc, fold_left (n_add O) (map (n_neg O) ls) (-' acc) = -' (fold_left (n_add O) ls acc).
  Proof. induction ls as [|l ls IH]; intros acc; cbn; [reflexivity|]. rewrite <- neg_add. apply IH. Qed.
  Lemma sum_neg (ls : list A) : sum O (map (n_neg O) ls) = -' (sum O ls).
  Proof. unfold sum. change (c O 0) with (zero O). rewrite <- neg_zero at 1. apply sum_from_neg. Qed.

  (* ---------- which trees are invertible: leaves with invertible scales, Partial indices in range and distinct ---------- *)
  Definition leaf_inv_ok (l : leaf A) : Prop :=
    match l with
    | LScale sc => tall unit sc
    | LAffine _ sc => tall unit sc
    | _ => True
    end.
  Fixpoint inv_ok (b : bij) : Prop :=
    let all := fix all (l : list bij) : Prop := match l with [] => True | b' :: r => inv_ok b' /\ all r end in
    match b with
    | Leaf l => leaf_inv_ok l
    | Chain bs | Scan bs | Concat _ bs | Stack _ bs | Vmap _ _ _ bs => all bs
    | Invert b' | Reshape _ _ b' | EmbedCond _ _ b' => inv_ok b'
    | Partial ix s b' => (exists rs, resolve_idx ix s = Some rs /\ rs_ok rs s) /\ inv_ok b'
    end.
  Lemma inv_ok_all (bs : list bij) :
    (fix all (l : list bij) : Prop := match l with [] => True | b' :: r => inv_ok b' /\ all r end) bs <-> Forall inv_ok bs.
  Proof. induction bs as [|b bs IH]; [split; constructor|]. rewrite IH. split; [intros [H1 H2]; constructor; auto | intros H; inversion H; auto]. Qed.

  (* what is proved of every node: going there (direction d) and back restores the point; the log-dets are opposite *)
  Definition round b d x c : Prop :=
    fst (den O b (flipd d) (fst (den O b d x c)) c) = x /\
    snd (den O b (flipd d) (fst (den O b d x c)) c) = -' (snd (den O b d x c)).
  Definition Qb b : Prop := forall d x c sg,
    sig_of b = Ok sg -> inv_ok b -> has_shape (fst sg) x = true -> cond_ok (snd sg) c -> round b d x c.

  Lemma flipd_invol d : flipd (flipd d) = d.
  Proof. now destruct d. Qed.

  (* ---------- leaves ---------- *)
  Lemma leaf_round l : Qb (Leaf l).
  Proof.
    intros d x c sg Hs Hok Hx Hc. unfold round. cbn [den]. cbn [sig_of] in Hs. cbn [inv_ok] in Hok.
    destruct l as [s cs|loc|sc|loc sc|s|s p|s w]; cbn [leaf_sig] in Hs; cbn [leaf_den leaf_inv_ok] in *.
    - cbn [fst snd]. split; [reflexivity|]. now rewrite neg_zero.
    - destruct (wf_t loc) eqn:W; [|discriminate]. injection Hs as <-. cbn [fst snd] in *. unfold wf_t in W.
      split; [|now rewrite neg_zero]. destruct d; cbn [flipd fst].
      + apply (tmap2_cancel _ _ (fun _ => True)) with (s := tshape loc); auto. unfold tall. apply Forall_forall. auto.
      + apply (tmap2_cancel _ _ (fun _ => True)) with (s := tshape loc); auto. unfold tall. apply Forall_forall. auto.
    - destruct (wf_t sc) eqn:W; [|discriminate]. injection Hs as <-. cbn [fst snd] in *. unfold wf_t in W.
      destruct d; cbn [flipd fst snd]; (split; [|now rewrite ?neg_neg]).
      + now apply (tmap2_cancel _ _ unit) with (s := tshape sc).
      + now apply (tmap2_cancel _ _ unit) with (s := tshape sc).
    - destruct (wf_t loc && wf_t sc && shape_eqb (tshape loc) (tshape sc)) eqn:W; [|discriminate].
      injection Hs as <-. cbn [fst snd] in *. apply andb_prop in W as [W W3]. apply andb_prop in W as [W1 W2].
      apply shape_eqb_eq in W3. unfold wf_t in *. rewrite W3 in W1.
      destruct d; cbn [flipd fst snd]; (split; [|now rewrite ?neg_neg]).
      + rewrite (tmap2_cancel _ _ (fun _ => True)) with (s := tshape sc); auto.
        * now apply (tmap2_cancel _ _ unit) with (s := tshape sc).
        * now apply tmap2_shape.
        * unfold tall. apply Forall_forall. auto.
      + rewrite (tmap2_cancel _ _ unit) with (s := tshape sc); auto.
        * apply (tmap2_cancel _ _ (fun _ => True)) with (s := tshape sc); auto. unfold tall. apply Forall_forall. auto.
        * now apply tmap2_shape.
    - cbn [fst snd]. split; [apply tflip_invol|now rewrite neg_zero].
    - destruct (Nat.eqb (length p) (prodn s) && is_perm p) eqn:W; [|discriminate]. injection Hs as <-.
      apply andb_prop in W as [W1 W2]. apply Nat.eqb_eq in W1. cbn [fst snd] in *.
      split; [|now rewrite neg_zero].
      assert (Lx : length (flatten x) = length p) by (rewrite W1; now apply flatten_length).
      assert (La : length (argsort p) = length p) by (unfold argsort; now rewrite map_length, seq_length).
      destruct d; cbn [flipd].
      + rewrite flatten_unflatten by (unfold gather; now rewrite map_length).
        rewrite gather_argsort_l by auto. now apply unflatten_flatten.
      + rewrite flatten_unflatten by (unfold gather; rewrite map_length; congruence).
        rewrite gather_argsort_r by auto. now apply unflatten_flatten.
    - cbn [fst snd]. split; [|now rewrite neg_zero]. rewrite tmap_tmap. apply tmap_id_ext. intros a. destruct d; cbn [flipd]; auto.
  Qed.

  (* ---------- what a child contributes: round trip and shape, in both directions ---------- *)
  Definition child_fact (s : shape) c d b : Prop :=
    forall x, has_shape s x = true -> round b d x c /\ has_shape s (fst (den O b d x c)) = true.
  Lemma child_fact_of b sg c d : Pb O b -> Qb b -> inv_ok b -> sig_of b = Ok sg -> cond_ok (snd sg) c -> child_fact (fst sg) c d b.
  Proof.
    intros HP HQ Hok Hs Hc x Hx. split; [exact (HQ d x c sg Hs Hok Hx Hc)|]. exact (proj2 (HP d x c sg Hs Hx Hc)).
  Qed.

  (* ---------- Chain / Scan ---------- *)
  Lemma den_step_eq (f : tens -> tens * A) acc : den_step O f acc = (fst (f (fst acc)), snd acc +' snd (f (fst acc))).
  Proof. reflexivity. Qed.
  Lemma chain_round_fwd c s bs : Forall (child_fact s c Fwd) bs -> forall x l l', has_shape s x = true ->
    fst (fold_right (fun b' acc => den_step O (fun z => den O b' Inv z c) acc)
           (fst (fold_left (fun acc b' => den_step O (fun z => den O b' Fwd z c) acc) bs (x, l)), l') bs) = x /\
    snd (fold_left (fun acc b' => den_step O (fun z => den O b' Fwd z c) acc) bs (x, l)) +'
    snd (fold_right (fun b' acc => den_step O (fun z => den O b' Inv z c) acc)
           (fst (fold_left (fun acc b' => den_step O (fun z => den O b' Fwd z c) acc) bs (x, l)), l') bs) = l +' l'.
  Proof.
    induction 1 as [|b bs Hb _ IH]; intros x l l' Hx; cbn [fold_left fold_right fst snd]; [auto|].
    destruct (Hb x Hx) as [[R1 R2] Sh]. cbn [flipd] in R1, R2.
    rewrite (den_step_eq (fun z => den O b Fwd z c)). cbn [fst snd].
    destruct (IH (fst (den O b Fwd x c)) (l +' snd (den O b Fwd x c)) l' Sh) as [E1 E2].
    rewrite (den_step_eq (fun z => den O b Inv z c)). cbn [fst snd]. rewrite E1. split; [exact R1|].
    rewrite R2, add_assoc, E2. rewrite (add_swap l), add_cancel. reflexivity.
  Qed.
  Lemma chain_round_inv c s bs : Forall (child_fact s c Inv) bs -> forall y l l', has_shape s y = true ->
    fst (fold_left (fun acc b' => den_step O (fun z => den O b' Fwd z c) acc) bs
           (fst (fold_right (fun b' acc => den_step O (fun z => den O b' Inv z c) acc) (y, l) bs), l')) = y /\
    snd (fold_right (fun b' acc => den_step O (fun z => den O b' Inv z c) acc) (y, l) bs) +'
    snd (fold_left (fun acc b' => den_step O (fun z => den O b' Fwd z c) acc) bs
           (fst (fold_right (fun b' acc => den_step O (fun z => den O b' Inv z c) acc) (y, l) bs), l')) = l +' l' /\
    has_shape s (fst (fold_right (fun b' acc => den_step O (fun z => den O b' Inv z c) acc) (y, l) bs)) = true.
  Proof.
    induction 1 as [|b bs Hb _ IH]; intros y l l' Hy; cbn [fold_left fold_right fst snd]; [auto|].
    set (R := fold_right (fun b' acc => den_step O (fun z => den O b' Inv z c) acc) (y, l) bs) in *.
    destruct (IH y l l' Hy) as (_ & _ & ShR). fold R in ShR.
    destruct (Hb (fst R) ShR) as [[R1 R2] Sh]. cbn [flipd] in R1, R2.
    rewrite (den_step_eq (fun z => den O b Inv z c)). cbn [fst snd].
    rewrite (den_step_eq (fun z => den O b Fwd z c)). cbn [fst snd]. rewrite R1, R2.
    destruct (IH y l (l' +' -' snd (den O b Inv (fst R) c)) Hy) as (E1 & E2 & _). fold R in E1, E2.
    split; [exact E1|]. split; [|exact Sh].
    rewrite add_swap, E2, add_assoc. apply add_cancel'.
  Qed.

  Lemma chain_like_round bs (b : bij) sg d x c :
    (forall d x c, den O b d x c =
       match d with
       | Fwd => fold_left (fun acc b' => den_step O (fun z => den O b' d z c) acc) bs (x, zero O)
       | Inv => fold_right (fun b' acc => den_step O (fun z => den O b' d z c) acc) (x, zero O) bs
       end) ->
    (forall d', Forall (child_fact (fst sg) c d') bs) -> has_shape (fst sg) x = true -> round b d x c.
  Proof.
    intros Hden Hch Hx. unfold round. rewrite !Hden. destruct d; cbn [flipd].
    - destruct (chain_round_fwd c (fst sg) bs (Hch Fwd) x (zero O) (zero O) Hx) as [E1 E2]. split; [exact E1|].
      apply neg_unique. rewrite E2. apply add_0_r.
    - destruct (chain_round_inv c (fst sg) bs (Hch Inv) x (zero O) (zero O) Hx) as (E1 & E2 & _). split; [exact E1|].
      apply neg_unique. rewrite E2. apply add_0_r.
  Qed.

  Lemma children_facts bs s c :
    Forall (fun b => Pb O b /\ exists sg', sig_of b = Ok sg' /\ fst sg' = s /\ cond_ok (snd sg') c) bs ->
    Forall Qb bs -> Forall inv_ok bs -> forall d, Forall (child_fact s c d) bs.
  Proof.
    intros H1 H2 H3 d. rewrite Forall_forall in *. intros b Hb.
    destruct (H1 b Hb) as (HP & sg' & Hs & <- & Hc). eapply child_fact_of; eauto.
  Qed.

  (* ---------- single-child wrappers ---------- *)
  Lemma invert_round b : Qb b -> Qb (Invert b).
  Proof.
    intros HQ d x c sg Hs Hok Hx Hc. unfold round. cbn [den]. cbn [sig_of inv_ok] in *.
    exact (HQ (flipd d) x c sg Hs Hok Hx Hc).
  Qed.

  Lemma partial_round ix s b : Qb b -> Qb (Partial ix s b).
  Proof.
    intros HQ d x c sg Hs Hok Hx Hc. unfold round. cbn [den]. cbn [sig_of inv_ok] in *.
    destruct Hok as [(rs & Hr & Hrs) Hok].
    destruct (sig_of b) as [sgb|] eqn:Eb; cbn [bind] in Hs; [|discriminate].
    unfold partial_sig in Hs. destruct (idx_supported ix); [|discriminate]. rewrite Hr in *.
    destruct (shape_eqb (idx_shape rs s) (fst sgb)) eqn:Ee; [|discriminate]. injection Hs as <-.
    apply shape_eqb_eq in Ee. cbn [fst snd] in *.
    assert (Hg : has_shape (fst sgb) (tgather rs x) = true) by (rewrite <- Ee; eapply tgather_shape; eauto).
    destruct (run_is_den_all O b d (tgather rs x) c sgb Eb Hg Hc) as [_ Sh].
    destruct (HQ d (tgather rs x) c sgb Eb Hok Hg Hc) as [R1 R2].
    rewrite (gather_scatter ix s rs) by (auto; now rewrite Ee).
    rewrite R1, R2. split; [|reflexivity].
    apply (scatter_restore ix s rs); auto. now rewrite Ee.
  Qed.

  Lemma reshape_round os cs b : Qb b -> Qb (Reshape os cs b).
  Proof.
    intros HQ d x c sg Hs Hok Hx Hc. unfold round.
    assert (Hd : shape_d (Reshape os cs b) = fst sg) by (unfold shape_d; now rewrite Hs).
    assert (Hdc : cshape_d (Reshape os cs b) = snd sg) by (unfold cshape_d; now rewrite Hs).
    cbn [den]. rewrite Hd, Hdc. cbn [sig_of inv_ok] in *.
    destruct (sig_of b) as [sgb|] eqn:Eb; cbn [bind] in Hs; [|discriminate].
    assert (Hdb : shape_d b = fst sgb) by (unfold shape_d; now rewrite Eb).
    assert (Hdcb : cshape_d b = snd sgb) by (unfold cshape_d; now rewrite Eb).
    rewrite Hdb, Hdcb. unfold reshape_sig in Hs.
    set (s' := match os with Some x0 => x0 | None => fst sgb end) in *.
    set (cs' := match cs with Some x0 => Some x0 | None => snd sgb end) in *.
    assert (Hs' : prodn s' = prodn (fst sgb) /\ sg = (s', cs') /\
                  match cs', snd sgb with Some a, Some b0 => prodn a = prodn b0 | Some _, None => False | None, _ => True end).
    { destruct (snd sgb) as [csb|] eqn:E1, cs' as [a|] eqn:E2; try discriminate;
      destruct (Nat.eqb (prodn s') (prodn (fst sgb))) eqn:E3; try discriminate; apply Nat.eqb_eq in E3.
      - destruct (Nat.eqb (prodn a) (prodn csb)) eqn:E4; [|discriminate]. apply Nat.eqb_eq in E4. injection Hs as <-. auto.
      - injection Hs as <-. auto.
      - injection Hs as <-. auto. }
    destruct Hs' as (Ep & -> & Ec). cbn [fst snd] in *.
    set (c' := match cs', c, snd sgb with Some _, Some cv, Some csb => Some (treshape csb cv) | _, _, _ => c end).
    assert (Hc' : cond_ok (snd sgb) c').
    { subst c'. destruct cs' as [a|] eqn:E2.
      - destruct (snd sgb) as [csb|] eqn:E1; [|destruct Ec]. destruct Hc as (cv & -> & Hcv).
        eexists; split; [reflexivity|]. eapply treshape_shape; eauto.
      - destruct (snd sgb) as [csb|] eqn:E1; [|exact I]. subst cs'. destruct cs; discriminate. }
    assert (Hx' : has_shape (fst sgb) (treshape (fst sgb) x) = true) by (eapply treshape_shape; eauto).
    destruct (run_is_den_all O b d _ c' sgb Eb Hx' Hc') as [_ Sh].
    destruct (HQ d _ c' sgb Eb Hok Hx' Hc') as [R1 R2].
    rewrite (treshape_back (fst sgb) s') by auto. rewrite R1, R2. split; [|reflexivity].
    apply (treshape_back s' (fst sgb)); auto.
  Qed.

  Lemma embed_round e raw b : Qb b -> Qb (EmbedCond e raw b).
  Proof.
    intros HQ d x c sg Hs Hok Hx Hc. unfold round. cbn [den]. cbn [sig_of inv_ok] in *.
    destruct (sig_of b) as [sgb|] eqn:Eb; cbn [bind] in Hs; [|discriminate].
    unfold embed_sig in Hs. destruct (embed_shape e raw) as [es|] eqn:Ee; [|discriminate].
    assert (Hsg : sg = (fst sgb, Some raw) /\ (forall csb, snd sgb = Some csb -> es = csb)).
    { destruct (snd sgb) as [csb|].
      - destruct (shape_eqb es csb) eqn:E1; [|discriminate]. apply shape_eqb_eq in E1. injection Hs as <-.
        split; [reflexivity|]. intros ? [= <-]. exact E1.
      - injection Hs as <-. split; [reflexivity|]. discriminate. }
    destruct Hsg as [-> Hes]. cbn [fst snd] in *. destruct Hc as (cv & -> & Hcv).
    assert (He : exists em, embed_apply O e cv = Some em /\ has_shape es em = true).
    { destruct e as [z|k]; cbn in Ee |- *.
      - injection Ee as <-. eexists; split; [reflexivity|]. now apply tmap_shape.
      - destruct raw as [|n r]; [discriminate|]. injection Ee as <-.
        apply has_shape_cons in Hcv as (l & -> & Hl & Hf). eexists; split; [reflexivity|].
        apply has_shape_Ar. split; [rewrite firstn_length; lia | now apply Forall_firstn']. }
    destruct He as (em & Ea & Hem).
    apply (HQ d x _ sgb Eb Hok Hx). cbn [option_map]. unfold embed_d. rewrite Ea.
    destruct (snd sgb) as [csb|] eqn:E1; [|exact I]. rewrite <- (Hes csb eq_refl). exists em. auto.
  Qed.

  (* ---------- Concatenate ---------- *)
  (* the definition, with the axis and the sizes made explicit: part i acts on the i-th slice; log-dets are summed *)
  Lemma concat_den_eq ax bs sg c : Forall (Pb O) bs -> sig_of (Concat ax bs) = Ok sg -> cond_ok (snd sg) c ->
    exists pre post sizes, fst sg = pre ++ sumn sizes :: post /\ sizes <> [] /\
      Forall2 (part_ok O (fun n => pre ++ n :: post) c) bs sizes /\
      forall d x, den O (Concat ax bs) d x c =
        (tcat_d (length pre) (map fst (map2 (fun b' t => den O b' d t c) bs (parts (length pre) x 0 sizes))),
         sum O (map snd (map2 (fun b' t => den O b' d t c) bs (parts (length pre) x 0 sizes)))).
  Proof.
    intros HP Hs Hc.
    assert (Hd : shape_d (Concat ax bs) = fst sg) by (unfold shape_d; now rewrite Hs).
    cbn [sig_of] in Hs.
    destruct (mapr sig_of bs) as [sigs|] eqn:Em; cbn [bind] in Hs; [|discriminate].
    unfold concat_sig in Hs.
    destruct (concat_info ax (map fst sigs)) as [[[k s] pts]|] eqn:Ei; cbn [bind] in Hs; [|discriminate].
    destruct (merge_cond_shapes (map snd sigs)) as [cs|] eqn:Emc; cbn [bind] in Hs; [|discriminate].
    injection Hs as <-. cbn [fst snd] in *.
    destruct (concat_info_spec _ _ _ _ _ Ei) as (s0 & pre & post & sizes & Hhd & Hk & Lp & F & -> & _).
    assert (Hs0 : exists n0, s0 = pre ++ n0 :: post /\ sizes <> []).
    { destruct (map fst sigs) as [|sh rest]; [discriminate|]. injection Hhd as ->.
      inversion F as [|? n0 ? ? E _]; subst. exists n0. split; [reflexivity|discriminate]. }
    destruct Hs0 as (n0 & -> & Hne).
    generalize (children_parts O bs sigs cs c (fun n => pre ++ n :: post) sizes HP Em Emc Hc F). intros Hparts.
    exists pre, post, sizes. split; [reflexivity|]. split; [exact Hne|]. split; [exact Hparts|].
    intros d x. cbn [den]. rewrite Hd.
    assert (Hlen : length (pre ++ sumn sizes :: post) = length (pre ++ n0 :: post)) by (rewrite !app_length; reflexivity).
    rewrite Hlen. destruct (py_range_index_spec _ _ _ Hk) as (_ & _ & Ek). rewrite <- Ek. subst k.
    assert (Esz : map (fun b' => nth (length pre) (shape_d b') 0) bs = sizes).
    { clear -Hparts. induction Hparts as [|b n bs sizes (_ & sg' & Hs & Hf & _) _ IH]; cbn; [reflexivity|].
      unfold shape_d at 1. rewrite Hs, Hf, nth_middle'. now rewrite IH. }
    rewrite Esz. unfold parts, offsets. now rewrite !map2_map_r.
  Qed.

  Lemma concat_round_parts d c pre post N x : has_shape (pre ++ N :: post) x = true ->
    forall bs sizes acc,
    Forall2 (fun b n => part_ok O (fun n => pre ++ n :: post) c b n /\ Qb b /\ inv_ok b) bs sizes -> acc + sumn sizes <= N ->
    Forall2 (fun y n => has_shape (pre ++ n :: post) y = true)
      (map fst (map2 (fun b' t => den O b' d t c) bs (parts (length pre) x acc sizes))) sizes /\
    map fst (map2 (fun b' u => den O b' (flipd d) u c) bs
               (map fst (map2 (fun b' t => den O b' d t c) bs (parts (length pre) x acc sizes)))) =
      parts (length pre) x acc sizes /\
    map snd (map2 (fun b' u => den O b' (flipd d) u c) bs
               (map fst (map2 (fun b' t => den O b' d t c) bs (parts (length pre) x acc sizes)))) =
      map (n_neg O) (map snd (map2 (fun b' t => den O b' d t c) bs (parts (length pre) x acc sizes))).
  Proof.
    intros Hx bs sizes acc F. revert acc.
    induction F as [|b n bs sizes ((HP & sg' & Hs & Hf & Hc) & HQ & Hok) _ IH]; intros acc Hle.
    - cbn. repeat split; constructor.
    - assert (Hle' : acc + n <= N /\ acc + n + sumn sizes <= N) by (unfold sumn in *; cbn in Hle; lia).
      destruct Hle' as [Hl1 Hl2].
      unfold parts. cbn [offsets_from combine map fst snd].
      change (map _ (combine (offsets_from (acc + n) sizes) sizes)) with (parts (length pre) x (acc + n) sizes).
      set (t := tslice (length pre) acc (acc + n) x).
      assert (Ht : has_shape (fst sg') t = true).
      { rewrite Hf. unfold t. replace n with (acc + n - acc) at 1 by lia. apply tslice_shape with (n := N); [exact Hx|lia|lia]. }
      destruct (HP d t c sg' Hs Ht Hc) as [_ Sh]. destruct (HQ d t c sg' Hs Hok Ht Hc) as [R1 R2].
      destruct (IH (acc + n) Hl2) as (E1 & E2 & E3).
      cbn [map2 map fst snd]. split; [|split].
      + constructor; [now rewrite <- Hf | exact E1].
      + f_equal; [exact R1 | exact E2].
      + f_equal; [exact R2 | exact E3].
  Qed.

  Lemma concat_round ax bs : Forall Qb bs -> Qb (Concat ax bs).
  Proof.
    intros HQ d x c sg Hs Hok Hx Hc. unfold round.
    assert (HP : Forall (Pb O) bs) by (apply Forall_forall; intros; apply run_is_den_all).
    destruct (concat_den_eq ax bs sg c HP Hs Hc) as (pre & post & sizes & Efs & Hne & Hparts & Hden).
    rewrite !Hden. cbn [fst snd]. rewrite Efs in Hx.
    cbn [inv_ok] in Hok. apply inv_ok_all in Hok.
    assert (F : Forall2 (fun b n => part_ok O (fun n => pre ++ n :: post) c b n /\ Qb b /\ inv_ok b) bs sizes).
    { clear -Hparts HQ Hok. induction Hparts; inversion HQ; inversion Hok; subst; constructor; auto. }
    destruct (concat_round_parts d c pre post (sumn sizes) x Hx bs sizes 0 F (le_n _)) as (E1 & E2 & E3).
    set (ys := map fst (map2 (fun b' t => den O b' d t c) bs (parts (length pre) x 0 sizes))) in *.
    assert (Hny : ys <> []).
    { unfold ys. destruct bs as [|b bs]; [inversion Hparts; subst; congruence|]. destruct sizes; [congruence|]. cbn. discriminate. }
    destruct (tcat_shape pre post ys sizes Hny E1) as (Y & HY & SY).
    assert (Ed : tcat_d (length pre) ys = Y) by (unfold tcat_d; now rewrite HY). rewrite !Ed.
    rewrite (parts_of_cat pre post ys sizes Y E1 HY). rewrite E2, E3. split.
    - unfold tcat_d. rewrite (cat_of_parts pre (sumn sizes) post x Hx sizes 0 Hne). cbn [Nat.add].
      now apply (tslice_full pre (sumn sizes) post).
    - apply sum_neg.
  Qed.

  (* ---------- Stack ---------- *)
  Lemma stack_den_eq ax bs sg c : Forall (Pb O) bs -> sig_of (Stack ax bs) = Ok sg -> cond_ok (snd sg) c ->
    exists pre post, fst sg = pre ++ length bs :: post /\ bs <> [] /\
      Forall (fun b => part_ok O (fun _ => pre ++ post) c b 0) bs /\
      forall d x, den O (Stack ax bs) d x c =
        (tstack_d (length pre) (map fst (map2 (fun b' t => den O b' d t c) bs
                                           (map (fun i => tindex (length pre) i x) (seq 0 (length bs))))),
         sum O (map snd (map2 (fun b' t => den O b' d t c) bs (map (fun i => tindex (length pre) i x) (seq 0 (length bs)))))).
  Proof.
    intros HP Hs Hc.
    assert (Hd : shape_d (Stack ax bs) = fst sg) by (unfold shape_d; now rewrite Hs).
    cbn [sig_of] in Hs.
    destruct (mapr sig_of bs) as [sigs|] eqn:Em; cbn [bind] in Hs; [|discriminate].
    unfold stack_sig in Hs.
    destruct (stack_info ax (map fst sigs)) as [[k s]|] eqn:Ei; cbn [bind] in Hs; [|discriminate].
    destruct (merge_cond_shapes (map snd sigs)) as [cs|] eqn:Emc; cbn [bind] in Hs; [|discriminate].
    injection Hs as <-. cbn [fst snd] in *.
    destruct (stack_info_spec _ _ _ _ Ei) as (s0 & pre & post & Hhd & Hk & Lp & -> & Fsh & ->).
    assert (Hlb : length (map fst sigs) = length bs).
    { rewrite map_length. symmetry. eapply Forall2_length', mapr_Forall2, Em. }
    rewrite Hlb in *.
    assert (Hne : bs <> []) by (intros ->; destruct sigs; cbn in *; discriminate).
    assert (Hparts : Forall (fun b => part_ok O (fun _ => pre ++ post) c b 0) bs).
    { assert (F2 : Forall2 (fun sh (n : nat) => sh = pre ++ post) (map fst sigs) (repeat 0 (length (map fst sigs)))).
      { clear -Fsh. induction Fsh; cbn; constructor; auto. }
      generalize (children_parts O bs sigs cs c (fun _ => pre ++ post) _ HP Em Emc Hc F2).
      intros G. apply Forall2_ex_l in G. revert G. apply Forall_impl.
      intros b (n & H1 & sg' & H2). split; [exact H1|]. exists sg'. exact H2. }
    exists pre, post. split; [reflexivity|]. split; [exact Hne|]. split; [exact Hparts|].
    intros d x. cbn [den]. rewrite Hd.
    assert (Hlen : length (pre ++ length bs :: post) = length (pre ++ post) + 1) by (rewrite !app_length; cbn; lia).
    rewrite Hlen. destruct (py_range_index_spec _ _ _ Hk) as (_ & _ & Ek). rewrite <- Ek. subst k.
    now rewrite !map2_map_r.
  Qed.

  Lemma roundtrip_list d c s bs : forall ts,
    Forall2 (fun b t => child_fact s c d b /\ has_shape s t = true) bs ts ->
    Forall (fun y => has_shape s y = true) (map fst (map2 (fun b' t => den O b' d t c) bs ts)) /\
    map fst (map2 (fun b' u => den O b' (flipd d) u c) bs (map fst (map2 (fun b' t => den O b' d t c) bs ts))) = ts /\
    map snd (map2 (fun b' u => den O b' (flipd d) u c) bs (map fst (map2 (fun b' t => den O b' d t c) bs ts))) =
      map (n_neg O) (map snd (map2 (fun b' t => den O b' d t c) bs ts)).
  Proof.
    intros ts F. induction F as [|b t bs ts [Hb Ht] _ (E1 & E2 & E3)]; cbn [map2 map fst snd]; [repeat split; constructor|].
    destruct (Hb t Ht) as [[R1 R2] Sh]. split; [constructor; auto|]. split; f_equal; auto.
  Qed.
  Lemma Forall2_of_Foralls {X Y} (P : X -> Prop) (R : Y -> Prop) l1 l2 :
    Forall P l1 -> Forall R l2 -> length l1 = length l2 -> Forall2 (fun u v => P u /\ R v) l1 l2.
  Proof.
    intros H1. revert l2. induction H1 as [|a l1 Ha _ IH]; intros [|v l2] H2 L; cbn in L; try discriminate; constructor.
    - inversion H2; auto.
    - apply IH; [now inversion H2 | lia].
  Qed.

  Lemma stack_round ax bs : Forall Qb bs -> Qb (Stack ax bs).
  Proof.
    intros HQ d x c sg Hs Hok Hx Hc. unfold round.
    assert (HP : Forall (Pb O) bs) by (apply Forall_forall; intros; apply run_is_den_all).
    destruct (stack_den_eq ax bs sg c HP Hs Hc) as (pre & post & Efs & Hne & Hparts & Hden).
    rewrite !Hden. cbn [fst snd]. rewrite Efs in Hx.
    cbn [inv_ok] in Hok. apply inv_ok_all in Hok.
    assert (Hn : 0 < length bs) by (destruct bs; [congruence|cbn; lia]).
    set (ts := map (fun i => tindex (length pre) i x) (seq 0 (length bs))).
    assert (Hch : Forall (child_fact (pre ++ post) c d) bs).
    { rewrite Forall_forall in *. intros b Hb. destruct (Hparts b Hb) as (HPb & sg' & Hsb & Hf & Hcb).
      rewrite <- Hf. apply child_fact_of; auto. }
    assert (Hts : Forall (fun t => has_shape (pre ++ post) t = true) ts).
    { unfold ts. apply Forall_map, Forall_forall. intros i Hi. apply in_seq in Hi.
      apply tindex_shape with (n := length bs); [exact Hx|lia]. }
    assert (F : Forall2 (fun b t => child_fact (pre ++ post) c d b /\ has_shape (pre ++ post) t = true) bs ts).
    { apply Forall2_of_Foralls; auto. unfold ts. now rewrite map_length, seq_length. }
    destruct (roundtrip_list d c (pre ++ post) bs ts F) as (E1 & E2 & E3).
    set (ys := map fst (map2 (fun b' t => den O b' d t c) bs ts)) in *.
    assert (Ly : length ys = length bs).
    { unfold ys, ts. now rewrite map_length, map2_length, map_length, seq_length, Nat.min_id. }
    assert (Hny : ys <> []) by (intros E; rewrite E in Ly; cbn in Ly; lia).
    destruct (tstack_shape pre post ys Hny E1) as (Y & HY & SY).
    assert (Ed : tstack_d (length pre) ys = Y) by (unfold tstack_d; now rewrite HY). rewrite !Ed.
    rewrite <- Ly at 1 2. rewrite (takes_of_stack pre post ys Y E1 HY). rewrite E2, E3. split.
    - unfold tstack_d, ts. now rewrite (stack_of_takes pre (length bs) post x Hx Hn).
    - apply sum_neg.
  Qed.

  (* ---------- Vmap ---------- *)
  Lemma vmap_den_eq n mapped cax bs sg c : Forall (Pb O) bs -> sig_of (Vmap n mapped cax bs) = Ok sg -> cond_ok (snd sg) c ->
    exists sg0 cl, fst sg = n :: fst sg0 /\ length cl = n /\ Forall (cond_ok (snd sg0)) cl /\
      Forall (fun b => Pb O b /\ sig_of b = Ok sg0) bs /\
      (if mapped then length bs = n else exists b0, bs = [b0]) /\
      forall d xs, den O (Vmap n mapped cax bs) d (Ar xs) c =
        let outs := if mapped then map2 (fun b' p => den O b' d (fst p) (snd p)) bs (combine xs cl)
                    else match bs with b0 :: _ => map (fun p => den O b0 d (fst p) (snd p)) (combine xs cl) | [] => [] end in
        (Ar (map fst outs), sum O (map snd outs)).
  Proof.
    intros HP Hs Hc.
    assert (Hd : cshape_d (Vmap n mapped cax bs) = snd sg) by (unfold cshape_d; now rewrite Hs).
    cbn [sig_of] in Hs.
    destruct (mapr sig_of bs) as [sigs|] eqn:Em; cbn [bind] in Hs; [|discriminate].
    unfold vmap_sig in Hs.
    destruct (if mapped then if Nat.eqb (length sigs) n then same_sig sigs else Err Unsupported
              else match sigs with [sg0] => Ok sg0 | _ => Err Unsupported end) as [sg0|] eqn:E0; cbn [bind] in Hs; [|discriminate].
    assert (Hv : exists cs, vmap_cshape n (snd sg0) cax = Ok cs /\ sg = (n :: fst sg0, cs) /\ (snd sg0 = None -> cax = None)).
    { destruct (snd sg0) as [cs0|] eqn:E1, cax as [a|] eqn:E2; try discriminate;
        (destruct (vmap_cshape n _ _) as [cs|] eqn:Ev; cbn [bind] in Hs; [|discriminate]);
        injection Hs as <-; exists cs; repeat split; auto; discriminate. }
    destruct Hv as (cs & Hv & -> & Hnone). cbn [fst snd] in *.
    apply mapr_Forall2 in Em.
    assert (Hch : Forall (fun b => Pb O b /\ sig_of b = Ok sg0) bs /\ (if mapped then length bs = n else exists b0, bs = [b0])).
    { destruct mapped.
      - destruct (Nat.eqb (length sigs) n) eqn:El; [|discriminate]. apply Nat.eqb_eq in El. split.
        + unfold same_sig in E0. destruct sigs as [|sg1 sigs']; [discriminate|].
          destruct (forallb (sig_eqb sg1) (sg1 :: sigs')) eqn:Ef; [|discriminate]. injection E0 as ->.
          rewrite forallb_forall in Ef.
          generalize (Forall2_ex_l _ _ _ (Forall2_In_r _ _ _ (Forall2_Forall_l _ _ _ _ HP Em))).
          apply Forall_impl. intros b (sg' & (H1 & H2) & H3). split; [exact H1|]. rewrite H2. f_equal.
          apply Ef in H3. unfold sig_eqb in H3. apply andb_prop in H3 as [E1 E2].
          apply shape_eqb_eq in E1. apply oshape_eqb_eq in E2. destruct sg0, sg'; cbn in *; congruence.
        + rewrite <- El. eapply Forall2_length'; eauto.
      - destruct sigs as [|sg1 [|]]; try discriminate. injection E0 as ->.
        inversion Em as [|b0 ? bs' ? Hb0 Em']; subst. inversion Em'; subst. inversion HP; subst.
        split; [constructor; auto | eauto]. }
    destruct (vmap_conds_ok n (snd sg0) cax cs c Hv Hnone Hc) as (_ & Lc & Fc). cbn zeta in Lc, Fc.
    set (cl := den_conds n (length match cs with Some s => s | None => [] end) cax c) in *.
    exists sg0, cl. split; [reflexivity|]. split; [exact Lc|]. split; [exact Fc|].
    destruct Hch as [Hch Hm]. split; [exact Hch|]. split; [exact Hm|].
    intros d xs. cbn [den]. rewrite Hd. cbn [snd]. fold cl. reflexivity.
  Qed.

  Lemma vmap_round_mapped d sg0 bs : Forall (fun b => Pb O b /\ sig_of b = Ok sg0 /\ Qb b /\ inv_ok b) bs ->
    forall ps, Forall (slice_ok sg0) ps -> length bs = length ps ->
    Forall (fun y => has_shape (fst sg0) y = true) (map fst (map2 (fun b' p => den O b' d (fst p) (snd p)) bs ps)) /\
    map fst (map2 (fun b' p => den O b' (flipd d) (fst p) (snd p)) bs
               (combine (map fst (map2 (fun b' p => den O b' d (fst p) (snd p)) bs ps)) (map snd ps))) = map fst ps /\
    map snd (map2 (fun b' p => den O b' (flipd d) (fst p) (snd p)) bs
               (combine (map fst (map2 (fun b' p => den O b' d (fst p) (snd p)) bs ps)) (map snd ps))) =
      map (n_neg O) (map snd (map2 (fun b' p => den O b' d (fst p) (snd p)) bs ps)).
  Proof.
    induction 1 as [|b bs (HP & Hs & HQ & Hok) _ IH]; intros [|p ps] Fp L; cbn in L; try discriminate; cbn [map2 map combine fst snd];
      [repeat split; constructor|].
    inversion Fp as [|? ? [Hx Hc] Fp']; subst.
    destruct (HP d (fst p) (snd p) sg0 Hs Hx Hc) as [_ Sh]. destruct (HQ d (fst p) (snd p) sg0 Hs Hok Hx Hc) as [R1 R2].
    destruct (IH ps Fp') as (E1 & E2 & E3); [lia|]. split; [constructor; auto|]. split; f_equal; auto.
  Qed.
  Lemma vmap_round_bcast d sg0 b0 : Pb O b0 -> sig_of b0 = Ok sg0 -> Qb b0 -> inv_ok b0 ->
    forall ps, Forall (slice_ok sg0) ps ->
    Forall (fun y => has_shape (fst sg0) y = true) (map fst (map (fun p => den O b0 d (fst p) (snd p)) ps)) /\
    map fst (map (fun p => den O b0 (flipd d) (fst p) (snd p))
               (combine (map fst (map (fun p => den O b0 d (fst p) (snd p)) ps)) (map snd ps))) = map fst ps /\
    map snd (map (fun p => den O b0 (flipd d) (fst p) (snd p))
               (combine (map fst (map (fun p => den O b0 d (fst p) (snd p)) ps)) (map snd ps))) =
      map (n_neg O) (map snd (map (fun p => den O b0 d (fst p) (snd p)) ps)).
  Proof.
    intros HP Hs HQ Hok. induction 1 as [|p ps [Hx Hc] _ (E1 & E2 & E3)]; cbn [map combine fst snd]; [repeat split; constructor|].
    destruct (HP d (fst p) (snd p) sg0 Hs Hx Hc) as [_ Sh]. destruct (HQ d (fst p) (snd p) sg0 Hs Hok Hx Hc) as [R1 R2].
    split; [constructor; auto|]. split; f_equal; auto.
  Qed.
  Lemma map_fst_combine' {X Y} (l1 : list X) (l2 : list Y) : length l1 = length l2 -> map fst (combine l1 l2) = l1 /\ map snd (combine l1 l2) = l2.
  Proof.
    revert l2; induction l1 as [|a l1 IH]; intros [|v l2] L; cbn in *; try discriminate; [auto|].
    destruct (IH l2) as [E1 E2]; [lia|]. now rewrite E1, E2.
  Qed.

  Lemma vmap_round n mapped cax bs : Forall Qb bs -> Qb (Vmap n mapped cax bs).
  Proof.
    intros HQ d x c sg Hs Hok Hx Hc. unfold round.
    assert (HP : Forall (Pb O) bs) by (apply Forall_forall; intros; apply run_is_den_all).
    destruct (vmap_den_eq n mapped cax bs sg c HP Hs Hc) as (sg0 & cl & Efs & Lc & Fc & Hch & Hm & Hden).
    rewrite Efs in Hx. apply has_shape_cons in Hx as (xs & -> & Lx & Fx).
    cbn [inv_ok] in Hok. apply inv_ok_all in Hok.
    assert (Fp : Forall (slice_ok sg0) (combine xs cl)).
    { apply (combine_Forall (fun t => has_shape (fst sg0) t = true) (cond_ok (snd sg0))); assumption. }
    destruct (map_fst_combine' xs cl) as [Ex Ec]; [lia|].
    rewrite Hden. cbn zeta. destruct mapped.
    - assert (Hall : Forall (fun b => Pb O b /\ sig_of b = Ok sg0 /\ Qb b /\ inv_ok b) bs).
      { rewrite Forall_forall in *. intros b Hb. destruct (Hch b Hb). auto. }
      assert (Lb : length bs = length (combine xs cl)) by (rewrite combine_length; lia).
      destruct (vmap_round_mapped d sg0 bs Hall _ Fp Lb) as (E1 & E2 & E3).
      cbn [fst snd]. rewrite Hden. cbn zeta. cbn [fst snd]. rewrite Ec in E2, E3. rewrite E2, E3, Ex. split; [reflexivity|apply sum_neg].
    - destruct Hm as [b0 ->]. inversion Hch as [|? ? [HP0 Hs0] _]; subst. inversion HQ; subst. inversion Hok; subst.
      destruct (vmap_round_bcast d sg0 b0 HP0 Hs0 H1 H3 _ Fp) as (E1 & E2 & E3).
      cbn [fst snd]. rewrite Hden. cbn zeta. cbn [fst snd]. rewrite Ec in E2, E3. rewrite E2, E3, Ex. split; [reflexivity|apply sum_neg].
  Qed.

  (* ================= every tree ================= *)
  Theorem round_all : forall b, Qb b.
  Proof.
    apply bij_ind'.
    - apply leaf_round.
    - intros bs HQ d x c sg Hs Hok Hx Hc.
      assert (HP : Forall (Pb O) bs) by (apply Forall_forall; intros; apply run_is_den_all).
      apply (chain_like_round bs (Chain bs) sg); try assumption; try (intros; reflexivity).
      cbn [sig_of] in Hs. destruct (mapr sig_of bs) as [sigs|] eqn:Em; cbn [bind] in Hs; [|discriminate].
      cbn [inv_ok] in Hok. apply inv_ok_all in Hok.
      intros d'. eapply children_facts; eauto. eapply chain_children; eauto.
    - intros bs HQ d x c sg Hs Hok Hx Hc.
      assert (HP : Forall (Pb O) bs) by (apply Forall_forall; intros; apply run_is_den_all).
      apply (chain_like_round bs (Scan bs) sg); try assumption; try (intros; reflexivity).
      cbn [sig_of] in Hs. destruct (mapr sig_of bs) as [sigs|] eqn:Em; cbn [bind] in Hs; [|discriminate].
      cbn [inv_ok] in Hok. apply inv_ok_all in Hok.
      intros d'. eapply children_facts; eauto. eapply same_children; eauto.
    - apply invert_round.
    - apply concat_round.
    - apply stack_round.
    - apply vmap_round.
    - apply partial_round.
    - apply reshape_round.
    - apply embed_round.
  Qed.

  (* ================= the same at the level of the code-shaped semantics ================= *)
  (* a successful call in direction d, followed by the call in the opposite direction on its output, returns the
     original input, and the (scalar) log-dets are opposite.  d = Fwd: inverse o forward; d = Inv: forward o inverse
     and the inverse-log-det law. *)
  Theorem run_round b d x c y l : inv_ok b -> run O b d x c = Ok (y, l) ->
    exists a, l = Sc a /\ run O b (flipd d) y c = Ok (x, Sc (-' a)).
  Proof.
    intros Hok Hr. destruct (shape_sound O b d x c y l Hr) as (sg & Hs & Hx & Hc & Hy & Ey & El).
    exists (snd (den O b d x c)). split; [exact El|].
    rewrite (run_is_den O b (flipd d) y c sg Hs Hy Hc). subst y.
    destruct (round_all b d x c sg Hs Hok Hx Hc) as [R1 R2]. now rewrite R1, R2.
  Qed.

  Definition meth_flip (m : meth) : meth :=
    match m with MTransform => MInverse | MInverse => MTransform | MTransformLD => MInverseLD | MInverseLD => MTransformLD end.
  Theorem run_meth_round b m x c y ol : inv_ok b -> run_meth O b m x c = Ok (y, ol) ->
    run_meth O b (meth_flip m) y c = Ok (x, option_map (tmap (n_neg O)) ol).
  Proof.
    intros Hok. unfold run_meth. destruct (run O b (meth_dir m) x c) as [[y' l]|e] eqn:Er; cbn [bind]; [|discriminate].
    intros [= <- <-]. destruct (run_round b _ x c y' l Hok Er) as (a & -> & Hr).
    replace (meth_dir (meth_flip m)) with (flipd (meth_dir m)) by now destruct m.
    rewrite Hr. cbn [bind fst snd]. destruct m; reflexivity.
  Qed.
  (* the four instances named in the property *)
  Corollary run_inverse_of_transform b x c y : inv_ok b ->
    run_meth O b MTransform x c = Ok (y, None) -> run_meth O b MInverse y c = Ok (x, None).
  Proof. intros Hok H. exact (run_meth_round b MTransform x c y None Hok H). Qed.
  Corollary run_transform_of_inverse b x c y : inv_ok b ->
    run_meth O b MInverse y c = Ok (x, None) -> run_meth O b MTransform x c = Ok (y, None).
  Proof. intros Hok H. exact (run_meth_round b MInverse y c x None Hok H). Qed.
  Corollary run_ldj_inverse_law b x c y l : inv_ok b ->
    run_meth O b MInverseLD y c = Ok (x, Some l) ->
    exists a, l = Sc a /\ run_meth O b MTransformLD x c = Ok (y, Some (Sc (-' a))).
  Proof.
    intros Hok H. pose proof (run_meth_round b MInverseLD y c x (Some l) Hok H) as H'.
    destruct (ok_shapes O b MInverseLD y c x (Some l) H) as (sg & _ & _ & _ & _ & _ & Hsc).
    destruct l as [a|]; [|discriminate]. exists a. split; [reflexivity|exact H'].
  Qed.
  Corollary run_ldj_forward_law b x c y l : inv_ok b ->
    run_meth O b MTransformLD x c = Ok (y, Some l) ->
    exists a, l = Sc a /\ run_meth O b MInverseLD y c = Ok (x, Some (Sc (-' a))).
  Proof.
    intros Hok H. pose proof (run_meth_round b MTransformLD x c y (Some l) Hok H) as H'.
    destruct (ok_shapes O b MTransformLD x c y (Some l) H) as (sg & _ & _ & _ & _ & _ & Hsc).
    destruct l as [a|]; [|discriminate]. exists a. split; [reflexivity|exact H'].
  Qed.
End INV.

(* the *_and_log_det methods return the same point as the plain methods (no carrier law needed) *)
Section SAME.
  Context {A : Type} (O : NumOps A).
  Notation tens := (tensor A).
  Notation bij := (bij A).
  Definition meth_plain (m : meth) : meth := match m with MTransformLD => MTransform | MInverseLD => MInverse | m' => m' end.
  Theorem run_meth_same_point (b : bij) m (x : tens) c y ol : run_meth O b m x c = Ok (y, ol) ->
    run_meth O b (meth_plain m) x c = Ok (y, None).
  Proof.
    unfold run_meth. replace (meth_dir (meth_plain m)) with (meth_dir m) by now destruct m.
    destruct (run O b (meth_dir m) x c) as [[y' l]|e]; cbn [bind]; [|discriminate].
    intros [= <- _]. now destruct m.
  Qed.
  Theorem run_meth_same_point_conv (b : bij) m (x : tens) c y : run_meth O b (meth_plain m) x c = Ok (y, None) ->
    exists ol, run_meth O b m x c = Ok (y, ol).
  Proof.
    unfold run_meth. replace (meth_dir (meth_plain m)) with (meth_dir m) by now destruct m.
    destruct (run O b (meth_dir m) x c) as [[y' l]|e]; cbn [bind]; [|discriminate].
    intros [= <-]. eauto.
  Qed.

  (* ---------- the log-det of a combinator is the sum of its children's at the points the definition prescribes ----------
     (what [run] returns is [Sc] of the second component of [den]: BijCor.run_is_den) *)
  Theorem ldj_invert (b : bij) d x c : den O (Invert b) d x c = den O b (flipd d) x c.
  Proof. reflexivity. Qed.
  Theorem ldj_scan (bs : list bij) d x c : den O (Scan bs) d x c = den O (Chain bs) d x c.
  Proof. reflexivity. Qed.
  Theorem ldj_embed e raw (b : bij) d x c : den O (EmbedCond e raw b) d x c = den O b d x (option_map (embed_d O e) c).
  Proof. reflexivity. Qed.
  Theorem ldj_partial ix s (b : bij) d x c rs : resolve_idx ix s = Some rs ->
    den O (Partial ix s b) d x c = (tscatter rs x (fst (den O b d (tgather rs x) c)), snd (den O b d (tgather rs x) c)).
  Proof. intros H. cbn [den]. now rewrite H. Qed.
  Theorem ldj_reshape os cs (b : bij) d x c :
    exists c', snd (den O (Reshape os cs b) d x c) = snd (den O b d (treshape (shape_d b) x) c') /\
               fst (den O (Reshape os cs b) d x c) = treshape (shape_d (Reshape os cs b)) (fst (den O b d (treshape (shape_d b) x) c')).
  Proof. cbn [den]. eexists. split; reflexivity. Qed.
  (* Chain: the running intermediate values *)
  Theorem ldj_chain_nil d x c : den O (@Chain A []) d x c = (x, zero O).
  Proof. now destruct d. Qed.
  Theorem ldj_chain_cons_fwd (b : bij) bs x c :
    (forall a1 a2 a3 : A, n_add O a1 (n_add O a2 a3) = n_add O (n_add O a1 a2) a3) ->
    (forall a1 a2 : A, n_add O a1 a2 = n_add O a2 a1) -> (forall a : A, n_add O a (zero O) = a) ->
    den O (Chain (b :: bs)) Fwd x c =
    (fst (den O (Chain bs) Fwd (fst (den O b Fwd x c)) c),
     n_add O (snd (den O b Fwd x c)) (snd (den O (Chain bs) Fwd (fst (den O b Fwd x c)) c))).
  Proof.
    intros Ha Hc H0. change (b :: bs) with ([b] ++ bs). rewrite (chain_app_fwd O H0 Ha [b] bs x c). cbn zeta.
    change (den O (Chain [b]) Fwd x c) with (den_step O (fun z => den O b Fwd z c) (x, zero O)).
    unfold den_step. cbn [fst snd]. now rewrite (Hc (zero O)), H0.
  Qed.
  Theorem ldj_chain_snoc_inv (b : bij) bs y c :
    (forall a1 a2 a3 : A, n_add O a1 (n_add O a2 a3) = n_add O (n_add O a1 a2) a3) ->
    (forall a1 a2 : A, n_add O a1 a2 = n_add O a2 a1) -> (forall a : A, n_add O a (zero O) = a) ->
    den O (Chain (bs ++ [b])) Inv y c =
    (fst (den O (Chain bs) Inv (fst (den O b Inv y c)) c),
     n_add O (snd (den O b Inv y c)) (snd (den O (Chain bs) Inv (fst (den O b Inv y c)) c))).
  Proof.
    intros Ha Hc H0. rewrite (chain_app_inv O H0 Ha bs [b] y c). cbn zeta.
    change (den O (Chain [b]) Inv y c) with (den_step O (fun z => den O b Inv z c) (y, zero O)).
    unfold den_step. cbn [fst snd]. now rewrite (Hc (zero O)), H0.
  Qed.
  (* Concatenate / Stack / Vmap: the slices *)
  Theorem ldj_concat ax (bs : list bij) sg c : sig_of (Concat ax bs) = Ok sg -> cond_ok (snd sg) c ->
    exists pre post sizes, fst sg = pre ++ sumn sizes :: post /\ sizes <> [] /\ length bs = length sizes /\
      forall d x, den O (Concat ax bs) d x c =
        (tcat_d (length pre) (map fst (map2 (fun b' t => den O b' d t c) bs (parts (length pre) x 0 sizes))),
         sum O (map snd (map2 (fun b' t => den O b' d t c) bs (parts (length pre) x 0 sizes)))).
  Proof.
    intros Hs Hc. assert (HP : Forall (Pb O) bs) by (apply Forall_forall; intros; apply run_is_den_all).
    destruct (concat_den_eq O ax bs sg c HP Hs Hc) as (pre & post & sizes & E & Hne & Hp & Hd).
    exists pre, post, sizes. repeat split; auto. eapply Forall2_length'; eauto.
  Qed.
  Theorem ldj_stack ax (bs : list bij) sg c : sig_of (Stack ax bs) = Ok sg -> cond_ok (snd sg) c ->
    exists pre post, fst sg = pre ++ length bs :: post /\ bs <> [] /\
      forall d x, den O (Stack ax bs) d x c =
        (tstack_d (length pre) (map fst (map2 (fun b' t => den O b' d t c) bs
                                           (map (fun i => tindex (length pre) i x) (seq 0 (length bs))))),
         sum O (map snd (map2 (fun b' t => den O b' d t c) bs (map (fun i => tindex (length pre) i x) (seq 0 (length bs)))))).
  Proof.
    intros Hs Hc. assert (HP : Forall (Pb O) bs) by (apply Forall_forall; intros; apply run_is_den_all).
    destruct (stack_den_eq O ax bs sg c HP Hs Hc) as (pre & post & E & Hne & _ & Hd). exists pre, post. auto.
  Qed.
  Theorem ldj_vmap n mapped cax (bs : list bij) sg c : sig_of (Vmap n mapped cax bs) = Ok sg -> cond_ok (snd sg) c ->
    exists sg0 cl, fst sg = n :: fst sg0 /\ length cl = n /\ Forall (cond_ok (snd sg0)) cl /\
      (if mapped then length bs = n else exists b0, bs = [b0]) /\
      forall d xs, den O (Vmap n mapped cax bs) d (Ar xs) c =
        let outs := if mapped then map2 (fun b' p => den O b' d (fst p) (snd p)) bs (combine xs cl)
                    else match bs with b0 :: _ => map (fun p => den O b0 d (fst p) (snd p)) (combine xs cl) | [] => [] end in
        (Ar (map fst outs), sum O (map snd outs)).
  Proof.
    intros Hs Hc. assert (HP : Forall (Pb O) bs) by (apply Forall_forall; intros; apply run_is_den_all).
    destruct (vmap_den_eq O n mapped cax bs sg c HP Hs Hc) as (sg0 & cl & E & Lc & Fc & _ & Hm & Hd).
    exists sg0, cl. auto.
  Qed.
End SAME.

(* ---------- packaging: the carrier laws as one proposition; statements for Props/X01_bij.v ---------- *)
Definition inv_laws {A} (O : NumOps A) (unit : A -> Prop) : Prop :=
  (forall a b0 : A, n_sub O (n_add O a b0) b0 = a) /\
  (forall a b0 : A, n_add O (n_sub O a b0) b0 = a) /\
  (forall a s0 : A, unit s0 -> n_div O (n_mul O a s0) s0 = a) /\
  (forall a s0 : A, unit s0 -> n_mul O (n_div O a s0) s0 = a) /\
  (forall a1 a2 a3 : A, n_add O a1 (n_add O a2 a3) = n_add O (n_add O a1 a2) a3) /\
  (forall a1 a2 : A, n_add O a1 a2 = n_add O a2 a1) /\
  (forall a : A, n_add O a (zero O) = a) /\
  (forall a : A, n_add O a (n_neg O a) = zero O).

Section PACK.
  Context {A : Type} (O : NumOps A) (unit : A -> Prop) (L : inv_laws O unit).
  Notation bij := (bij A).
  Notation tens := (tensor A).
  Theorem den_round (b : bij) d (x : tens) c sg :
    sig_of b = Ok sg -> inv_ok unit b -> has_shape (fst sg) x = true -> cond_ok (snd sg) c ->
    fst (den O b (flipd d) (fst (den O b d x c)) c) = x /\
    snd (den O b (flipd d) (fst (den O b d x c)) c) = n_neg O (snd (den O b d x c)).
  Proof.
    destruct L as (L1 & L2 & L3 & L4 & L5 & L6 & L7 & L8). intros Hs Hok Hx Hc.
    exact (round_all O unit L1 L2 L3 L4 L5 L6 L7 L8 b d x c sg Hs Hok Hx Hc).
  Qed.
  Theorem run_round_L (b : bij) d (x : tens) c y l : inv_ok unit b -> run O b d x c = Ok (y, l) ->
    exists a, l = Sc a /\ run O b (flipd d) y c = Ok (x, Sc (n_neg O a)).
  Proof. destruct L as (L1 & L2 & L3 & L4 & L5 & L6 & L7 & L8). now apply run_round. Qed.
  Theorem run_meth_round_L (b : bij) m (x : tens) c y ol : inv_ok unit b -> run_meth O b m x c = Ok (y, ol) ->
    run_meth O b (meth_flip m) y c = Ok (x, option_map (tmap (n_neg O)) ol).
  Proof. destruct L as (L1 & L2 & L3 & L4 & L5 & L6 & L7 & L8). now apply run_meth_round. Qed.
  Theorem run_inverse_of_transform_L (b : bij) (x : tens) c y : inv_ok unit b ->
    run_meth O b MTransform x c = Ok (y, None) -> run_meth O b MInverse y c = Ok (x, None).
  Proof. destruct L as (L1 & L2 & L3 & L4 & L5 & L6 & L7 & L8). now apply run_inverse_of_transform. Qed.
  Theorem run_transform_of_inverse_L (b : bij) (x : tens) c y : inv_ok unit b ->
    run_meth O b MInverse y c = Ok (x, None) -> run_meth O b MTransform x c = Ok (y, None).
  Proof. destruct L as (L1 & L2 & L3 & L4 & L5 & L6 & L7 & L8). now apply run_transform_of_inverse. Qed.
  Theorem run_ldj_inverse_law_L (b : bij) (x : tens) c y l : inv_ok unit b ->
    run_meth O b MInverseLD y c = Ok (x, Some l) ->
    exists a, l = Sc a /\ run_meth O b MTransformLD x c = Ok (y, Some (Sc (n_neg O a))).
  Proof. destruct L as (L1 & L2 & L3 & L4 & L5 & L6 & L7 & L8). now apply run_ldj_inverse_law. Qed.
  Theorem run_ldj_forward_law_L (b : bij) (x : tens) c y l : inv_ok unit b ->
    run_meth O b MTransformLD x c = Ok (y, Some l) ->
    exists a, l = Sc a /\ run_meth O b MInverseLD y c = Ok (x, Some (Sc (n_neg O a))).
  Proof. destruct L as (L1 & L2 & L3 & L4 & L5 & L6 & L7 & L8). now apply run_ldj_forward_law. Qed.
End PACK.

(* the integers with units +-1 satisfy the laws (carrier of the non-vacuity examples) *)
Lemma Z_inv_laws : inv_laws ZOps (fun z => z = 1%Z \/ z = (-1)%Z).
Proof.
  unfold inv_laws, zero. cbn. repeat split; intros; try lia.
  - destruct H; subst; rewrite Z.div_mul; lia.
  - destruct H; subst; [rewrite Z.div_1_r; lia|]. rewrite <- (Z.opp_involutive a) at 2.
    replace (- - a)%Z with ((- a) * -1)%Z by lia. f_equal. replace a with ((- a) * -1)%Z at 1 by lia. apply Z.div_mul. lia.
Qed.

(* the tree of the non-vacuity examples of Props/X01_bij.v *)
Definition ex_tree : bij Z :=
  Chain [ Stack (-1) [ Leaf (LLoc (zt [2] [10; 20]%Z)); Leaf (LScale (zt [2] [-1; 1]%Z)) ];
          Invert (Concat (-1) [ Leaf (LFlip [2; 1]);
                                Partial [SSlice None None (Some (-1)%Z)] [2; 1] (Leaf (LLoc (zt [2; 1] [5; 7]%Z))) ]);
          Vmap 2 false (Some (-1)%Z) [ Leaf (LAddCond [2] (zt [3] [1; 2; 3]%Z)) ];
          Reshape (Some [2; 2]) None (Leaf (LPerm [4] [2; 0; 3; 1])) ].

