(* C02, determinants: MathComp's determinant theory instantiated at the Coq reals (promoted from
   design_probes/Rmc.v) and packaged behind a list/function interface, so that the analytic files
   (Coquelicot) can use "det of a triangular matrix = product of the diagonal" (det_trig), "det of
   a product" (det_mulmx) and the matrix determinant lemma det(I + u v^T) = 1 + v.u without
   importing MathComp notations.
   The choiceType instance of R uses [Epsilon.epsilon_statement] (and functional extensionality):
   these two standard-library axioms appear under Print Assumptions of every detF_* lemma. *)
From Coq Require Import Reals Epsilon Lra FunctionalExtensionality List.
From mathcomp Require Import all_ssreflect ssralg matrix.
From FJ Require Import Proofs.LeafDerivP.
Set Implicit Arguments. Unset Strict Implicit. Unset Printing Implicit Defensive.
Local Open Scope R_scope.

(* ---------------- R as a comRingType ---------------- *)
Definition eqr (r1 r2 : R) : bool := if Req_EM_T r1 r2 then true else false.
Lemma eqrP : Equality.axiom eqr.
Proof. by move=> r1 r2; rewrite /eqr; case: Req_EM_T => H; constructor. Qed.
Canonical R_eqMixin := EqMixin eqrP.
Canonical R_eqType := Eval hnf in EqType R R_eqMixin.

Fact inhR : inhabited R. Proof. exact: (inhabits 0). Qed.
Definition pickR (P : pred R) (n : nat) :=
  let x := epsilon inhR P in if P x then Some x else None.
Fact pickR_some P n x : pickR P n = Some x -> P x.
Proof. by rewrite /pickR; case: (boolP (P _)) => // Px [<-]. Qed.
Fact pickR_ex (P : pred R) : (exists x : R, P x) -> exists n, pickR P n.
Proof. by rewrite /pickR; move=> /(epsilon_spec inhR)->; exists 0%N. Qed.
Fact pickR_ext (P Q : pred R) : P =1 Q -> pickR P =1 pickR Q.
Proof.
move=> PEQ n; rewrite /pickR; set u := epsilon _ _; set v := epsilon _ _.
suff->: u = v by rewrite PEQ.
by congr epsilon; apply: functional_extensionality => x; rewrite PEQ.
Qed.
Definition R_choiceMixin : choiceMixin R := Choice.Mixin pickR_some pickR_ex pickR_ext.
Canonical R_choiceType := Eval hnf in ChoiceType R R_choiceMixin.

Fact RplusA : associative Rplus. Proof. by move=> *; rewrite Rplus_assoc. Qed.
Definition R_zmodMixin := ZmodMixin RplusA Rplus_comm Rplus_0_l Rplus_opp_l.
Canonical R_zmodType := Eval hnf in ZmodType R R_zmodMixin.
Fact RmultA : associative Rmult. Proof. by move=> *; rewrite Rmult_assoc. Qed.
Fact R1_neq_0 : R1 != R0. Proof. by apply/eqP/R1_neq_R0. Qed.
Definition R_ringMixin := RingMixin RmultA Rmult_1_l Rmult_1_r Rmult_plus_distr_r Rmult_plus_distr_l R1_neq_0.
Canonical R_ringType := Eval hnf in RingType R R_ringMixin.
Canonical R_comRingType := Eval hnf in ComRingType R Rmult_comm.

Import GRing.Theory.

(* ---------------- the matrix determinant lemma, any commutative ring ---------------- *)
Section MDL.
  Variable K : comRingType.
  Local Open Scope ring_scope.
  Lemma det_rank1_update n (u : 'cV[K]_n) (v : 'rV[K]_n) :
    \det (1%:M + u *m v) = 1 + (v *m u) ord0 ord0.
  Proof.
    pose L : 'M[K]_(n + 1) := block_mx 1%:M 0 v 1%:M.
    pose M : 'M[K]_(n + 1) := block_mx (1%:M + u *m v) u 0 1%:M.
    pose Rm : 'M[K]_(n + 1) := block_mx 1%:M 0 (- v) 1%:M.
    have E : L *m (M *m Rm) = block_mx 1%:M u 0 (1%:M + v *m u).
      rewrite /L /M /Rm !mulmx_block.
      rewrite !mulmx1 !mul1mx !mulmx0 !mul0mx !addr0 !add0r.
      have -> : 1%:M + u *m v + u *m - v = 1%:M :> 'M[K]_n by rewrite mulmxN addrK.
      by rewrite mulmx1 subrr addrC.
    have : \det (L *m (M *m Rm)) = \det (1%:M + u *m v).
      by rewrite !det_mulmx /L /M /Rm !det_lblock det_ublock !det1 !mul1r !mulr1.
    rewrite E det_ublock det1 mul1r det_mx11 !mxE eqxx => <-. by [].
  Qed.
End MDL.

(* ---------------- big operators over 'I_n as list folds ---------------- *)
Lemma iota_seq m n : iota m n = List.seq m n.
Proof. by elim: n m => [|n IH] m //=; rewrite IH. Qed.
Lemma prod_iota (F : nat -> R) m n :
  (\prod_(i <- iota m n) F i)%R = prodR (List.map F (List.seq m n)).
Proof.
  elim: n m => [|n IH] m; first by rewrite big_nil.
  by rewrite /= big_cons IH.
Qed.
Lemma prod_ord_seq n (F : nat -> R) : (\prod_(i < n) F i)%R = prodR (List.map F (List.seq 0 n)).
Proof. by rewrite -(big_mkord xpredT F) /index_iota subn0 prod_iota. Qed.
Definition sumR (l : list R) : R := List.fold_right Rplus 0 l.
Lemma sum_iota (F : nat -> R) m n :
  (\sum_(i <- iota m n) F i)%R = sumR (List.map F (List.seq m n)).
Proof.
  elim: n m => [|n IH] m; first by rewrite big_nil.
  by rewrite /= big_cons IH.
Qed.
Lemma sum_ord_seq n (F : nat -> R) : (\sum_(i < n) F i)%R = sumR (List.map F (List.seq 0 n)).
Proof. by rewrite -(big_mkord xpredT F) /index_iota subn0 sum_iota. Qed.

(* ---------------- the interface: determinant of the n x n matrix (F i j), i, j < n ---------------- *)
Definition detF (n : nat) (F : nat -> nat -> R) : R := (\det (\matrix_(i < n, j < n) F i j))%R.

Lemma detF_is_det : forall (n : nat) (F : nat -> nat -> R),
  detF n F = (\det (\matrix_(i < n, j < n) F i j))%R.
Proof. by []. Qed.

Lemma detF_ext n F G : (forall i j, (i < n)%coq_nat -> (j < n)%coq_nat -> F i j = G i j) ->
  detF n F = detF n G.
Proof.
  move=> H; rewrite /detF; congr (\det _)%R; apply/matrixP => i j; rewrite !mxE.
  by apply: H; apply/ltP.
Qed.

(* det_trig: lower triangular => product of the diagonal *)
Theorem detF_lower n F : (forall i j, (i < j)%coq_nat -> (j < n)%coq_nat -> F i j = 0) ->
  detF n F = prodR (List.map (fun i => F i i) (List.seq 0 n)).
Proof.
  move=> H; rewrite /detF det_trig.
  - rewrite -(prod_ord_seq n (fun i => F i i)); apply: eq_bigr => i _; by rewrite mxE.
  - apply/is_trig_mxP => i j lt_ij; rewrite mxE; by apply: H; apply/ltP.
Qed.
Lemma detF_tr n F : detF n (fun i j => F j i) = detF n F.
Proof.
  rewrite /detF -det_tr; congr (\det _)%R; apply/matrixP => i j; by rewrite !mxE.
Qed.
Theorem detF_upper n F : (forall i j, (j < i)%coq_nat -> (i < n)%coq_nat -> F i j = 0) ->
  detF n F = prodR (List.map (fun i => F i i) (List.seq 0 n)).
Proof.
  move=> H; rewrite -detF_tr detF_lower //. move=> i j Hij Hj; exact: H.
Qed.

(* det_mulmx: the determinant of a matrix product *)
Theorem detF_mul n F G :
  detF n (fun i k => sumR (List.map (fun j => F i j * G j k) (List.seq 0 n))) = detF n F * detF n G.
Proof.
  rewrite /detF.
  have E := det_mulmx (\matrix_(i < n, j < n) F i j)%R (\matrix_(i < n, j < n) G i j)%R.
  transitivity (\det ((\matrix_(i < n, j < n) F i j) *m (\matrix_(i < n, j < n) G i j)))%R; last exact: E.
  congr (\det _)%R; apply/matrixP => i k; rewrite !mxE.
  rewrite -(sum_ord_seq n (fun j => F i j * G j k)); apply: eq_bigr => j _; by rewrite !mxE.
Qed.

(* the matrix determinant lemma: det (I + u v^T) = 1 + v . u *)
Theorem detF_rank1 n (u v : nat -> R) :
  detF n (fun i j => (if Nat.eqb i j then 1 else 0) + u i * v j)
  = 1 + sumR (List.map (fun i => v i * u i) (List.seq 0 n)).
Proof.
  rewrite /detF.
  have -> : (\matrix_(i < n, j < n) ((if Nat.eqb i j then 1 else 0) + u i * v j))%R
          = (1%:M + (\col_(i < n) u i) *m (\row_(j < n) v j))%R.
    apply/matrixP => i j; rewrite !mxE big_ord_recl big_ord0 !mxE addr0.
    congr (_ + _)%R. have -> : Nat.eqb i j = (i == j) by apply/idP/idP => /Nat.eqb_spec/eqP.
    by case: (i == j).
  rewrite det_rank1_update !mxE -(sum_ord_seq n (fun i => v i * u i)).
  congr (_ + _)%R. apply: eq_bigr => i _; by rewrite !mxE.
Qed.


(* block-diagonal matrices (Concatenate / Stack / Vmap: the Jacobian is block diagonal): det_ublock *)
Definition blockF (n1 : nat) (A B : nat -> nat -> R) : nat -> nat -> R :=
  fun i j => if (i <? n1)%coq_nat then (if (j <? n1)%coq_nat then A i j else 0)
             else (if (j <? n1)%coq_nat then 0 else B (i - n1)%coq_nat (j - n1)%coq_nat).
Lemma ltb_ord n (i : 'I_n) : (i <? n)%coq_nat = true.
Proof. apply/Nat.ltb_spec0/ltP. exact: ltn_ord. Qed.
Lemma ltb_shift n k : (n + k <? n)%coq_nat = false.
Proof. apply/Nat.ltb_spec0 => /ltP. by rewrite ltnNge leq_addr. Qed.
Theorem detF_block_diag n1 n2 A B : detF (n1 + n2) (blockF n1 A B) = detF n1 A * detF n2 B.
Proof.
  rewrite /detF.
  have -> : (\matrix_(i < n1 + n2, j < n1 + n2) blockF n1 A B i j)%R
          = block_mx (\matrix_(i < n1, j < n1) A i j)%R 0%R 0%R (\matrix_(i < n2, j < n2) B i j)%R.
    apply/matrixP => i j; rewrite -[i]splitK -[j]splitK.
    case: (split i) => i'; case: (split j) => j' /=;
      rewrite ?block_mxEul ?block_mxEur ?block_mxEdl ?block_mxEdr !mxE /blockF /= ?ltb_ord ?ltb_shift //.
    by rewrite !minusE !addKn.
  by rewrite det_ublock.
Qed.

Lemma detF_0 F : detF 0 F = 1.
Proof. by rewrite /detF det_mx00. Qed.
