(* Lemmas about Model/Data.v (C15): the data path of fit_to_data. *)
From Coq Require Import List Arith Bool Lia Permutation.
From FJ Require Import Model.Data.
Import ListNotations.

(* ---------- generic list facts ---------- *)
Lemma map_nth_seq (l : list nat) : map (fun i => nth i l 0) (seq 0 (length l)) = l.
Proof.
  apply (nth_ext _ _ 0 0); [now rewrite map_length, seq_length|].
  intros i Hi. rewrite map_length, seq_length in Hi.
  rewrite (nth_indep _ 0 (nth 0 l 0)) by (now rewrite map_length, seq_length).
  rewrite (map_nth (fun i => nth i l 0) (seq 0 (length l)) 0 i), seq_nth by exact Hi. reflexivity.
Qed.

Lemma map_rep {A B} (f : A -> B) x m : map f (repeat x m) = repeat (f x) m.
Proof. induction m as [|m IH]; cbn; [reflexivity|now rewrite IH]. Qed.

Lemma nodup_app {A} (l1 l2 : list A) :
  NoDup l1 -> NoDup l2 -> (forall x, In x l1 -> ~ In x l2) -> NoDup (l1 ++ l2).
Proof.
  induction l1 as [|a l1 IH]; intros H1 H2 Hd; cbn; [exact H2|].
  inversion H1 as [|? ? Hna H1']; subst. constructor.
  - intros Hin. apply in_app_or in Hin. destruct Hin as [Hin|Hin]; [now apply Hna|].
    apply (Hd a); [now left|exact Hin].
  - apply IH; [exact H1'|exact H2|]. intros x Hx. apply Hd. now right.
Qed.

Lemma nodup_app_disjoint {A} (l1 l2 : list A) x : NoDup (l1 ++ l2) -> In x l1 -> ~ In x l2.
Proof.
  induction l1 as [|a l1 IH]; intros Hnd H1 H2; [destruct H1|].
  cbn in Hnd. inversion Hnd as [|? ? Hna Hnd']; subst. destruct H1 as [->|H1].
  - apply Hna. apply in_or_app. now right.
  - now apply IH.
Qed.

Lemma filter_all {A} (f : A -> bool) l : Forall (fun x => f x = true) l -> filter f l = l.
Proof. induction 1 as [|x l Hx _ IH]; cbn; [reflexivity|]. now rewrite Hx, IH. Qed.
Lemma filter_none {A} (f : A -> bool) l : Forall (fun x => f x = false) l -> filter f l = [].
Proof. induction 1 as [|x l Hx _ IH]; cbn; [reflexivity|]. now rewrite Hx. Qed.

Lemma concat_app_perm {A B} (f g : A -> list B) l :
  Permutation (concat (map (fun a => f a ++ g a) l)) (concat (map f l) ++ concat (map g l)).
Proof.
  induction l as [|a l IH]; cbn; [reflexivity|].
  rewrite IH. rewrite <- !app_assoc. apply Permutation_app_head.
  rewrite !app_assoc. apply Permutation_app_tail. apply Permutation_app_comm.
Qed.

(* ---------- keys: paths ---------- *)
Lemma split2_eq k : split2 k = (k ++ [0], k ++ [1]).
Proof. reflexivity. Qed.
Lemma split3_eq k : split3 k = (k ++ [0], (k ++ [1], k ++ [2])).
Proof. reflexivity. Qed.
Lemma split_NoDup k n : NoDup (split k n).
Proof.
  unfold split. apply FinFun.Injective_map_NoDup; [|apply seq_NoDup].
  intros i j H. apply app_inv_head in H. now inversion H.
Qed.

Lemma zeros_inj a b i j : repeat 0 a ++ [S i] = repeat 0 b ++ [S j] -> a = b /\ i = j.
Proof.
  revert b. induction a as [|a IH]; intros [|b] H; cbn in H.
  - inversion H. split; reflexivity.
  - discriminate H.
  - discriminate H.
  - inversion H as [H']. destruct (IH b H') as [-> ->]. split; reflexivity.
Qed.

(* [sub_key k M x]: x was split off the main key somewhere on the way from k to k ++ 0^M *)
Definition sub_key (k : key) (M : nat) (x : key) := exists j i, j < M /\ x = k ++ repeat 0 j ++ [S i].
Definition emits (k : key) (M : nat) (ks : list key) := NoDup ks /\ forall x, In x ks -> sub_key k M x.

Lemma emits_app k M1 M2 ks1 ks2 :
  emits k M1 ks1 -> emits (k ++ repeat 0 M1) M2 ks2 -> emits k (M1 + M2) (ks1 ++ ks2).
Proof.
  intros [N1 S1] [N2 S2]. split.
  - apply nodup_app; [exact N1|exact N2|]. intros x H1 H2.
    destruct (S1 x H1) as (j1 & i1 & Hj1 & E1). destruct (S2 x H2) as (j2 & i2 & Hj2 & E2).
    rewrite E1 in E2. rewrite <- app_assoc in E2. apply app_inv_head in E2.
    rewrite app_assoc, <- repeat_app in E2. apply zeros_inj in E2. lia.
  - intros x Hx. apply in_app_or in Hx. destruct Hx as [Hx|Hx].
    + destruct (S1 x Hx) as (j & i & Hj & E). exists j, i. split; [lia|exact E].
    + destruct (S2 x Hx) as (j & i & Hj & E). exists (M1 + j), i. split; [lia|].
      rewrite E, repeat_app, <- !app_assoc. reflexivity.
Qed.

Lemma emits_one k i : emits k 1 [k ++ [S i]].
Proof.
  split; [constructor; [intros []|constructor]|].
  intros x [<-|[]]. exists 0, i. split; [lia|reflexivity].
Qed.

Lemma emits_nil k : emits k 0 [].
Proof. split; [constructor|intros x []]. Qed.

Lemma run_batches_spec kd bs_ : forall k,
  fst (run_batches kd k bs_) = k ++ repeat 0 (length bs_) /\
  map c_args (snd (run_batches kd k bs_)) = bs_ /\
  Forall (fun c => c_kind c = kd) (snd (run_batches kd k bs_)) /\
  emits k (length bs_) (map c_key (snd (run_batches kd k bs_))).
Proof.
  induction bs_ as [|b rest IH]; intros k.
  - cbn. rewrite app_nil_r. split; [reflexivity|split; [reflexivity|split; [constructor|apply emits_nil]]].
  - cbn [run_batches]. rewrite split2_eq.
    destruct (IH (k ++ [0])) as (Hk & Ha & Hkd & He).
    destruct (run_batches kd (k ++ [0]) rest) as [k2 cs] eqn:E. cbn [fst snd] in *.
    split; [|split; [|split]].
    + rewrite Hk, <- app_assoc. reflexivity.
    + cbn. now rewrite Ha.
    + constructor; [reflexivity|exact Hkd].
    + cbn [map c_key length].
      change (emits k (1 + length rest) ([k ++ [1]] ++ map c_key cs)).
      apply emits_app; [apply emits_one|exact He].
Qed.

(* ---------- gather / permutation ---------- *)
Lemma take_perm p a : Permutation p (seq 0 (length a)) -> Permutation (take p a) a.
Proof.
  intros H. unfold take. etransitivity; [apply Permutation_map, H|]. rewrite map_nth_seq. reflexivity.
Qed.

(* ---------- reshape into batches ---------- *)
Lemma chunks_length nb bs a : length (chunks nb bs a) = nb.
Proof. revert a. induction nb as [|nb IH]; intros a; cbn; [reflexivity|now rewrite IH]. Qed.

Lemma chunks_concat nb bs a : length a = nb * bs -> concat (chunks nb bs a) = a.
Proof.
  revert a. induction nb as [|nb IH]; intros a H; cbn.
  - destruct a; [reflexivity|discriminate H].
  - rewrite IH; [apply firstn_skipn|]. rewrite skipn_length. lia.
Qed.

Lemma chunks_each nb bs a : length a = nb * bs -> Forall (fun c => length c = bs) (chunks nb bs a).
Proof.
  revert a. induction nb as [|nb IH]; intros a H; cbn; constructor.
  - rewrite firstn_length. lia.
  - apply IH. rewrite skipn_length. lia.
Qed.

(* the batches of a non-empty array (what _add_batch returns when it does not raise) *)
Definition eff_bs (bs : nat) (a : array) : nat := Nat.min bs (length a).
Definition n_batches (bs : nat) (a : array) : nat := length a / eff_bs bs a.
Definition batches_of (bs : nat) (a : array) : list array :=
  chunks (n_batches bs a) (eff_bs bs a) (firstn (n_batches bs a * eff_bs bs a) a).

Lemma batch_arith bs a : 1 <= bs -> a <> [] ->
  1 <= eff_bs bs a <= bs /\ 1 <= n_batches bs a /\ n_batches bs a * eff_bs bs a <= length a /\
  length a - n_batches bs a * eff_bs bs a = length a mod eff_bs bs a /\
  length a mod eff_bs bs a < eff_bs bs a.
Proof.
  intros Hbs Ha. unfold n_batches, eff_bs. set (n := length a). set (b := Nat.min bs n).
  assert (Hn : 1 <= n) by (subst n; destruct a; [congruence|cbn; lia]).
  assert (Hb : b <> 0) by (subst b; lia).
  pose proof (Nat.div_mod n b Hb) as E. pose proof (Nat.mod_upper_bound n b Hb) as U.
  assert (Hq : 1 <= n / b).
  { apply Nat.div_le_lower_bound; [exact Hb|]. subst b. lia. }
  repeat split; try (subst b; lia); nia.
Qed.

Lemma add_batch_some a bs : 1 <= bs -> a <> [] -> add_batch a bs = Some (batches_of bs a).
Proof.
  intros Hbs Ha. unfold add_batch. destruct (batch_arith bs a Hbs Ha) as ([H1 _] & _).
  unfold eff_bs in H1. destruct (Nat.min bs (length a) =? 0) eqn:E.
  - apply Nat.eqb_eq in E. lia.
  - reflexivity.
Qed.

Lemma add_batch_none a bs : bs = 0 \/ a = [] -> add_batch a bs = None.
Proof.
  intros H. unfold add_batch.
  assert (E : Nat.min bs (length a) = 0) by (destruct H as [->| ->]; cbn; lia).
  now rewrite E.
Qed.

Lemma batches_concat bs a : 1 <= bs -> a <> [] ->
  concat (batches_of bs a) = firstn (n_batches bs a * eff_bs bs a) a.
Proof.
  intros Hbs Ha. destruct (batch_arith bs a Hbs Ha) as (_ & _ & Hle & _).
  unfold batches_of. apply chunks_concat. rewrite firstn_length. lia.
Qed.

Lemma batches_each bs a : 1 <= bs -> a <> [] ->
  Forall (fun c => length c = eff_bs bs a) (batches_of bs a).
Proof.
  intros Hbs Ha. destruct (batch_arith bs a Hbs Ha) as (_ & _ & Hle & _).
  unfold batches_of. apply chunks_each. rewrite firstn_length. lia.
Qed.

Lemma batches_length bs a : length (batches_of bs a) = n_batches bs a.
Proof. unfold batches_of. apply chunks_length. Qed.

Lemma get_batches_repeat a bs m : 1 <= bs -> a <> [] ->
  get_batches (repeat a m) bs = Some (repeat (batches_of bs a) m).
Proof.
  intros Hbs Ha. induction m as [|m IH]; cbn [repeat get_batches]; [reflexivity|].
  now rewrite add_batch_some, IH.
Qed.

Lemma get_batches_repeat_none a bs m : bs = 0 \/ a = [] -> get_batches (repeat a (S m)) bs = None.
Proof. intros H. cbn [repeat get_batches]. now rewrite add_batch_none. Qed.

Lemma zipn_repeat (B : list array) m : zipn (length B) (repeat B m) = map (fun b => repeat b m) B.
Proof.
  induction B as [|b B IH]; cbn [length zipn map]; [reflexivity|].
  rewrite !map_rep. cbn [hd tl]. now rewrite IH.
Qed.

Lemma zip_batches_repeat (B : list array) m : zip_batches (repeat B (S m)) = map (fun b => repeat b (S m)) B.
Proof. unfold zip_batches. cbn [repeat hd]. apply (zipn_repeat B (S m)). Qed.

(* ---------- vocabulary of the statements ---------- *)
Definition is_train (c : call) : bool := match c_kind c with Train => true | Val => false end.
Definition is_val (c : call) : bool := match c_kind c with Train => false | Val => true end.
Definition train_calls (cs : list call) : list call := filter is_train cs.
Definition val_calls (cs : list call) : list call := filter is_val cs.
(* every key an epoch hands out: to jr.permutation and to the loss *)
Definition out_keys (o : epoch_out) : list key := map fst (e_perm o) ++ map c_key (e_calls o).

Lemma hd_repeat {A} (d a : A) m : hd d (repeat a (S m)) = a.
Proof. reflexivity. Qed.

Lemma args_repeat m (cs : list call) : forall B,
  map c_args cs = map (fun b => repeat b (S m)) B ->
  map c_x cs = B /\ Forall (fun c => c_args c = repeat (c_x c) (S m)) cs.
Proof.
  induction cs as [|c cs IH]; intros [|b B] H; cbn in H; try discriminate H.
  - split; [reflexivity|constructor].
  - inversion H as [[Hc Hcs]]. destruct (IH B Hcs) as [E F]. split.
    + cbn. unfold c_x at 1. rewrite Hc. cbn [repeat hd]. now rewrite E.
    + constructor; [|exact F]. unfold c_x. rewrite Hc. reflexivity.
Qed.

Section Perm.
  Variable perm : key -> nat -> list nat.
  Hypothesis perm_ok : forall k n, Permutation (perm k n) (seq 0 n).

  Lemma permutation_perm k a : Permutation (permutation perm k a) a.
  Proof. apply take_perm, perm_ok. Qed.
  Lemma permutation_length k a : length (permutation perm k a) = length a.
  Proof. apply Permutation_length, permutation_perm. Qed.
  Lemma perm_nonempty (a b : array) : Permutation a b -> b <> [] -> a <> [].
  Proof. intros H Hb ->. apply Hb. now apply Permutation_nil. Qed.

  Section Epochs.
    Variable m' : nat.            (* S m' arrays: 1 without condition, 2 with *)
    Variable bs : nat.
    Hypothesis Hbs : 1 <= bs.

    Definition ep_calls (kd : kind) (k : key) (a : array) : list call :=
      snd (run_batches kd k (map (fun b => repeat b (S m')) (batches_of bs a))).

    Lemma ep_calls_spec kd k a :
      map c_x (ep_calls kd k a) = batches_of bs a /\
      Forall (fun c => c_args c = repeat (c_x c) (S m')) (ep_calls kd k a) /\
      Forall (fun c => c_kind c = kd) (ep_calls kd k a) /\
      emits k (n_batches bs a) (map c_key (ep_calls kd k a)).
    Proof.
      unfold ep_calls.
      destruct (run_batches_spec kd (map (fun b => repeat b (S m')) (batches_of bs a)) k) as (_ & Ha & Hk & He).
      destruct (args_repeat m' _ _ Ha) as [E F].
      rewrite map_length, batches_length in He. auto.
    Qed.

    Lemma epoch_eq k tr va : tr <> [] -> va <> [] ->
      let tr' := permutation perm (k ++ [1]) tr in
      let va' := permutation perm (k ++ [2]) va in
      let k2 := (k ++ [0]) ++ repeat 0 (n_batches bs tr') in
      let k3 := k2 ++ repeat 0 (n_batches bs va') in
      epoch perm bs (mk_state k (repeat tr (S m')) (repeat va (S m'))) =
      (mk_state k3 (repeat tr' (S m')) (repeat va' (S m')),
       mk_out [(k ++ [1], length tr); (k ++ [2], length va)]
              (ep_calls Train (k ++ [0]) tr' ++ ep_calls Val k2 va') false).
    Proof.
      intros Ht Hv tr' va' k2 k3. unfold epoch. cbn [s_key s_train s_val]. rewrite split3_eq.
      rewrite !map_rep, !hd_repeat. fold tr' va'.
      assert (Ht' : tr' <> []) by (apply (perm_nonempty _ tr); [apply permutation_perm|exact Ht]).
      assert (Hv' : va' <> []) by (apply (perm_nonempty _ va); [apply permutation_perm|exact Hv]).
      rewrite (get_batches_repeat tr') by assumption. rewrite zip_batches_repeat.
      destruct (run_batches_spec Train (map (fun b => repeat b (S m')) (batches_of bs tr')) (k ++ [0])) as (Hk1 & _).
      unfold ep_calls at 1.
      destruct (run_batches Train (k ++ [0]) (map (fun b => repeat b (S m')) (batches_of bs tr'))) as [k' cs1] eqn:E1.
      cbn [fst snd] in *. rewrite map_length, batches_length in Hk1. fold k2 in Hk1. subst k'.
      rewrite (get_batches_repeat va') by assumption. rewrite zip_batches_repeat.
      destruct (run_batches_spec Val (map (fun b => repeat b (S m')) (batches_of bs va')) k2) as (Hk2 & _).
      unfold ep_calls.
      destruct (run_batches Val k2 (map (fun b => repeat b (S m')) (batches_of bs va'))) as [k'' cs2] eqn:E2.
      cbn [fst snd] in *. rewrite map_length, batches_length in Hk2. fold k3 in Hk2. subst k''.
      reflexivity.
    Qed.

    (* what one epoch must look like, relative to the two halves T, V of the split *)
    Definition epoch_ok (T V : array) (o : epoch_out) : Prop :=
      e_raised o = false /\
      e_calls o = train_calls (e_calls o) ++ val_calls (e_calls o) /\
      Forall (fun c => c_args c = repeat (c_x c) (S m')) (e_calls o) /\
      (exists sh, Permutation sh T /\ map c_x (train_calls (e_calls o)) = batches_of bs sh) /\
      (exists sh, Permutation sh V /\ map c_x (val_calls (e_calls o)) = batches_of bs sh).

    Lemma kinds_filter cs1 cs2 :
      Forall (fun c => c_kind c = Train) cs1 -> Forall (fun c => c_kind c = Val) cs2 ->
      train_calls (cs1 ++ cs2) = cs1 /\ val_calls (cs1 ++ cs2) = cs2.
    Proof.
      intros H1 H2. unfold train_calls, val_calls. rewrite !filter_app. split.
      - rewrite (filter_all is_train cs1), (filter_none is_train cs2), app_nil_r; [reflexivity| |].
        + eapply Forall_impl; [|exact H2]. intros c Hc. unfold is_train. now rewrite Hc.
        + eapply Forall_impl; [|exact H1]. intros c Hc. unfold is_train. now rewrite Hc.
      - rewrite (filter_none is_val cs1), (filter_all is_val cs2); [reflexivity| |].
        + eapply Forall_impl; [|exact H2]. intros c Hc. unfold is_val. now rewrite Hc.
        + eapply Forall_impl; [|exact H1]. intros c Hc. unfold is_val. now rewrite Hc.
    Qed.

    Lemma epochs_ok T V : T <> [] -> V <> [] -> forall e k tr va,
      Permutation tr T -> Permutation va V ->
      let outs := epochs perm bs e (mk_state k (repeat tr (S m')) (repeat va (S m'))) in
      length outs = e /\ Forall (epoch_ok T V) outs /\
      exists M, emits k M (concat (map out_keys outs)).
    Proof.
      intros HT HV. induction e as [|e IH]; intros k tr va Ptr Pva; cbn zeta.
      - cbn. split; [reflexivity|split; [constructor|]]. exists 0. apply emits_nil.
      - cbn [epochs].
        assert (Ht : tr <> []) by (eapply perm_nonempty; eassumption).
        assert (Hv : va <> []) by (eapply perm_nonempty; eassumption).
        rewrite (epoch_eq k tr va Ht Hv). cbn [e_raised].
        set (tr' := permutation perm (k ++ [1]) tr). set (va' := permutation perm (k ++ [2]) va).
        set (k2 := (k ++ [0]) ++ repeat 0 (n_batches bs tr')). set (k3 := k2 ++ repeat 0 (n_batches bs va')).
        assert (Ptr' : Permutation tr' T) by (etransitivity; [apply permutation_perm|exact Ptr]).
        assert (Pva' : Permutation va' V) by (etransitivity; [apply permutation_perm|exact Pva]).
        destruct (IH k3 tr' va' Ptr' Pva') as (Hlen & Hall & M & HM). cbn zeta in *.
        destruct (ep_calls_spec Train (k ++ [0]) tr') as (Ex1 & Al1 & Kd1 & Em1).
        destruct (ep_calls_spec Val k2 va') as (Ex2 & Al2 & Kd2 & Em2).
        destruct (kinds_filter _ _ Kd1 Kd2) as [Ft Fv].
        split; [cbn [length]; f_equal; exact Hlen|]. split.
        + constructor; [|exact Hall]. unfold epoch_ok. cbn [e_raised e_calls]. rewrite Ft, Fv.
          split; [reflexivity|]. split; [reflexivity|]. split; [apply Forall_app; split; assumption|].
          split; [exists tr'|exists va']; split; assumption.
        + exists ((1 + n_batches bs tr' + n_batches bs va') + M).
          cbn [map concat]. apply emits_app.
          * unfold out_keys. cbn [e_perm e_calls map fst]. rewrite map_app.
            change ([k ++ [1]; k ++ [2]] ++ map c_key (ep_calls Train (k ++ [0]) tr') ++ map c_key (ep_calls Val k2 va'))
              with (([k ++ [1]] ++ [k ++ [2]]) ++ map c_key (ep_calls Train (k ++ [0]) tr') ++ map c_key (ep_calls Val k2 va')).
            rewrite <- Nat.add_assoc. apply emits_app.
            -- split.
               ++ constructor; [|constructor; [intros []|constructor]].
                  intros [H|[]]. apply app_inv_head in H. discriminate H.
               ++ intros x [<-|[<-|[]]]; [exists 0, 0|exists 0, 1]; (split; [lia|reflexivity]).
            -- apply emits_app; [exact Em1|].
               replace ((k ++ repeat 0 1) ++ repeat 0 (n_batches bs tr')) with k2 by reflexivity. exact Em2.
          * replace (k ++ repeat 0 (1 + n_batches bs tr' + n_batches bs va')) with k3; [exact HM|].
            unfold k3, k2. rewrite !repeat_app, <- !app_assoc. reflexivity.
    Qed.
  End Epochs.
End Perm.

Lemma nodup_app_l {A} (l1 l2 : list A) : NoDup (l1 ++ l2) -> NoDup l1.
Proof.
  induction l1 as [|a l1 IH]; intros H; [constructor|].
  cbn in H. inversion H as [|? ? Hna H']; subst. constructor; [|now apply IH].
  intros Hin. apply Hna. apply in_or_app. now left.
Qed.

Lemma in_firstn {A} k (l : list A) x : In x (firstn k l) -> In x l.
Proof. intros H. rewrite <- (firstn_skipn k l). apply in_or_app. now left. Qed.

(* what "map c_x cs = batches_of bs sh" says in the words of the property *)
Lemma used_spec bs sh A (cs : list call) : 1 <= bs -> A <> [] -> NoDup A -> Permutation sh A ->
  map c_x cs = batches_of bs sh ->
  let b := Nat.min bs (length A) in
  let nb := length A / b in
  let used := concat (map c_x cs) in
  used = firstn (nb * b) sh /\
  length (skipn (nb * b) sh) = length A mod b /\ length A mod b < b /\ 1 <= b <= bs /\ 1 <= nb /\
  NoDup used /\ incl used A /\
  Forall (fun c => length (c_x c) = b) cs /\ length cs = nb.
Proof.
  intros Hbs HA Hnd P E b nb used.
  assert (Hsh : sh <> []) by (intros ->; apply HA; now apply Permutation_nil).
  pose proof (Permutation_length P) as L.
  assert (Eb : eff_bs bs sh = b) by (unfold eff_bs, b; now rewrite L).
  assert (Enb : n_batches bs sh = nb) by (unfold n_batches, nb; now rewrite Eb, L).
  destruct (batch_arith bs sh Hbs Hsh) as (B1 & B2 & B3 & B4 & B5).
  rewrite Eb, ?Enb, L in *.
  assert (U : used = firstn (nb * b) sh).
  { unfold used. rewrite E, batches_concat by assumption. now rewrite Eb, Enb. }
  assert (Hnd' : NoDup sh) by (eapply Permutation_NoDup; [symmetry; exact P|exact Hnd]).
  split; [exact U|]. split; [rewrite skipn_length, L; exact B4|].
  split; [exact B5|]. split; [exact B1|]. split; [exact B2|]. split; [|split; [|split]].
  - rewrite U. apply (nodup_app_l _ (skipn (nb * b) sh)). now rewrite firstn_skipn.
  - intros x Hx. rewrite U in Hx. apply in_firstn in Hx. eapply Permutation_in; eassumption.
  - pose proof (batches_each bs sh Hbs Hsh) as F. rewrite <- E, Eb in F.
    rewrite Forall_map in F. exact F.
  - rewrite <- (map_length c_x), E, batches_length. exact Enb.
Qed.

Section Fit.
  Variable perm : key -> nat -> list nat.
  Hypothesis perm_ok : forall k n, Permutation (perm k n) (seq 0 n).

  (* number of arrays minus one *)
  Definition n_arrays (hc : bool) : nat := if hc then 1 else 0.
  (* the dataset after the permutation of train_val_split, and its two halves (row ids) *)
  Definition shuffled0 (key0 : key) (n : nat) : array := permutation perm (key0 ++ [1]) (seq 0 n).
  Definition train_rows (key0 : key) (n n_train : nat) : array := firstn n_train (shuffled0 key0 n).
  Definition val_rows (key0 : key) (n n_train : nat) : array := skipn n_train (shuffled0 key0 n).

  Lemma split_aligned key0 n nt (hc : bool) :
    train_val_split perm (snd (split2 key0)) (if hc then [seq 0 n; seq 0 n] else [seq 0 n]) nt =
    (repeat (train_rows key0 n nt) (S (n_arrays hc)), repeat (val_rows key0 n nt) (S (n_arrays hc))).
  Proof. destruct hc; reflexivity. Qed.

  Lemma split_partitions key0 n nt : nt <= n ->
    Permutation (train_rows key0 n nt ++ val_rows key0 n nt) (seq 0 n) /\
    NoDup (train_rows key0 n nt ++ val_rows key0 n nt) /\
    length (train_rows key0 n nt) = nt /\ length (val_rows key0 n nt) = n - nt.
  Proof.
    intros Hle. unfold train_rows, val_rows.
    assert (P : Permutation (shuffled0 key0 n) (seq 0 n)) by apply permutation_perm, perm_ok.
    pose proof (Permutation_length P) as L. rewrite seq_length in L.
    rewrite firstn_skipn. split; [exact P|]. split.
    - eapply Permutation_NoDup; [symmetry; exact P|apply seq_NoDup].
    - rewrite firstn_length, skipn_length, L. lia.
  Qed.

  Lemma fit_eq key0 n nt bs e hc :
    fit perm key0 n nt bs e hc =
    ((key0 ++ [1], n),
     epochs perm bs e (mk_state (key0 ++ [0]) (repeat (train_rows key0 n nt) (S (n_arrays hc)))
                                               (repeat (val_rows key0 n nt) (S (n_arrays hc))))).
  Proof. destruct hc; reflexivity. Qed.

  Section Run.
    Variables (key0 : key) (n nt bs e : nat) (hc : bool).
    Hypothesis Hnt : 0 < nt < n.
    Hypothesis Hbs : 1 <= bs.
    Notation T := (train_rows key0 n nt).
    Notation V := (val_rows key0 n nt).
    Notation outs := (fit_epochs perm key0 n nt bs e hc).

    Lemma TV_nonempty : T <> [] /\ V <> [].
    Proof.
      destruct (split_partitions key0 n nt) as (_ & _ & LT & LV); [lia|].
      split; intros E; rewrite E in *; cbn in *; lia.
    Qed.

    Lemma fit_ok :
      length outs = e /\ Forall (epoch_ok (n_arrays hc) bs T V) outs /\
      exists M, emits key0 M ((key0 ++ [1]) :: concat (map out_keys outs)).
    Proof.
      destruct TV_nonempty as [HT HV].
      unfold fit_epochs. rewrite fit_eq. cbn [snd].
      destruct (epochs_ok perm perm_ok (n_arrays hc) bs Hbs T V HT HV e (key0 ++ [0]) T V
                  (Permutation_refl _) (Permutation_refl _)) as (Hl & Ha & M & HM).
      cbn zeta in *. split; [exact Hl|]. split; [exact Ha|].
      exists (1 + M). change (emits key0 (1 + M) ([key0 ++ [1]] ++ concat (map out_keys
         (epochs perm bs e (mk_state (key0 ++ [0]) (repeat T (S (n_arrays hc))) (repeat V (S (n_arrays hc)))))))).
      apply emits_app; [apply emits_one|exact HM].
    Qed.

    Lemma fit_epochs_length : length outs = e.
    Proof. apply fit_ok. Qed.

    Lemma fit_no_raise : fit_raised perm key0 n nt bs e hc = false.
    Proof.
      unfold fit_raised. destruct fit_ok as (_ & Ha & _).
      induction Ha as [|o l Ho _ IH]; cbn; [reflexivity|].
      destruct Ho as (-> & _). exact IH.
    Qed.

    Lemma in_trace c : In c (fit_trace perm key0 n nt bs e hc) ->
      exists o, In o outs /\ In c (e_calls o) /\ epoch_ok (n_arrays hc) bs T V o.
    Proof.
      unfold fit_trace. intros H. apply in_concat in H. destruct H as (l & Hl & Hc).
      apply in_map_iff in Hl. destruct Hl as (o & <- & Ho). exists o.
      split; [exact Ho|]. split; [exact Hc|].
      destruct fit_ok as (_ & Ha & _). rewrite Forall_forall in Ha. now apply Ha.
    Qed.

    (* x row i always travels with condition row i: every array of a call holds the same row ids *)
    Lemma rows_aligned c : In c (fit_trace perm key0 n nt bs e hc) ->
      c_args c = (if hc then [c_x c; c_x c] else [c_x c]) /\ (hc = true -> c_cond c = c_x c).
    Proof.
      intros H. destruct (in_trace c H) as (o & _ & Hc & (_ & _ & Al & _)).
      rewrite Forall_forall in Al. specialize (Al c Hc).
      split.
      - rewrite Al. destruct hc; reflexivity.
      - intros ->. unfold c_cond. rewrite Al. reflexivity.
    Qed.

    (* one epoch: the Train calls come first, then the Val calls; each kind walks through a
       permutation of its half of the split in consecutive full batches; only the trailing
       remainder is skipped *)
    Lemma epoch_batches o : In o outs ->
      e_raised o = false /\
      e_calls o = train_calls (e_calls o) ++ val_calls (e_calls o) /\
      (exists sh, Permutation sh T /\
         let b := Nat.min bs nt in let nb := nt / b in
         let used := concat (map c_x (train_calls (e_calls o))) in
         used = firstn (nb * b) sh /\
         length (skipn (nb * b) sh) = nt mod b /\ nt mod b < b /\ 1 <= b <= bs /\ 1 <= nb /\
         NoDup used /\ incl used T /\
         Forall (fun c => length (c_x c) = b) (train_calls (e_calls o)) /\
         length (train_calls (e_calls o)) = nb) /\
      (exists sh, Permutation sh V /\
         let b := Nat.min bs (n - nt) in let nb := (n - nt) / b in
         let used := concat (map c_x (val_calls (e_calls o))) in
         used = firstn (nb * b) sh /\
         length (skipn (nb * b) sh) = (n - nt) mod b /\ (n - nt) mod b < b /\ 1 <= b <= bs /\ 1 <= nb /\
         NoDup used /\ incl used V /\
         Forall (fun c => length (c_x c) = b) (val_calls (e_calls o)) /\
         length (val_calls (e_calls o)) = nb).
    Proof.
      intros Ho. destruct fit_ok as (_ & Ha & _). rewrite Forall_forall in Ha.
      destruct (Ha o Ho) as (Hr & Hord & _ & (sht & Pt & Et) & (shv & Pv & Ev)).
      destruct TV_nonempty as [HT HV].
      destruct (split_partitions key0 n nt) as (_ & Hnd & LT & LV); [lia|].
      split; [exact Hr|]. split; [exact Hord|]. split.
      - exists sht. split; [exact Pt|].
        pose proof (used_spec bs sht T _ Hbs HT (nodup_app_l _ _ Hnd) Pt Et) as U.
        rewrite LT in U. exact U.
      - exists shv. split; [exact Pv|].
        assert (HndV : NoDup V).
        { apply (nodup_app_l _ T). eapply Permutation_NoDup; [apply Permutation_app_comm|exact Hnd]. }
        pose proof (used_spec bs shv V _ Hbs HV HndV Pv Ev) as U.
        rewrite LV in U. exact U.
    Qed.

    (* validation rows never reach a gradient step, in any epoch; and training rows are never
       validated on *)
    Lemma val_never_trained c r : In c (fit_trace perm key0 n nt bs e hc) -> In r (c_x c) ->
      (c_kind c = Train -> In r T /\ ~ In r V) /\ (c_kind c = Val -> In r V /\ ~ In r T).
    Proof.
      intros Hc Hr. destruct (in_trace c Hc) as (o & Ho & Hco & _).
      destruct (epoch_batches o Ho) as (_ & _ & (sht & _ & Ut) & (shv & _ & Uv)). cbn zeta in *.
      destruct Ut as (_ & _ & _ & _ & _ & _ & It & _). destruct Uv as (_ & _ & _ & _ & _ & _ & Iv & _).
      destruct (split_partitions key0 n nt) as (_ & Hnd & _); [lia|].
      split; intros Hk.
      - assert (HrT : In r T).
        { apply It. apply in_concat. exists (c_x c). split; [|exact Hr].
          apply in_map. apply filter_In. split; [exact Hco|]. unfold is_train. now rewrite Hk. }
        split; [exact HrT|]. eapply nodup_app_disjoint; eassumption.
      - assert (HrV : In r V).
        { apply Iv. apply in_concat. exists (c_x c). split; [|exact Hr].
          apply in_map. apply filter_In. split; [exact Hco|]. unfold is_val. now rewrite Hk. }
        split; [exact HrV|]. intros HrT. eapply nodup_app_disjoint; eassumption.
    Qed.

    (* every key handed to the loss or to jr.permutation is a distinct path *)
    Lemma fresh_keys :
      NoDup (map c_key (fit_trace perm key0 n nt bs e hc) ++ map fst (fit_perm_keys perm key0 n nt bs e hc)).
    Proof.
      destruct fit_ok as (_ & _ & M & (Hnd & _)).
      eapply Permutation_NoDup; [|exact Hnd].
      unfold fit_trace, fit_perm_keys. rewrite fit_eq at 1. cbn [fst map].
      rewrite !concat_map, !map_map.
      etransitivity; [|apply Permutation_app_comm]. cbn [app]. apply perm_skip.
      unfold out_keys. apply (concat_app_perm (fun o => map fst (e_perm o)) (fun o => map c_key (e_calls o))).
    Qed.
  End Run.
End Fit.

(* distinct paths are distinct keys, for any PRNG whose split yields distinct keys along distinct paths *)
Lemma fresh_keys_real {K} (realize : key -> K) :
  (forall p q, realize p = realize q -> p = q) ->
  forall perm, (forall k n, Permutation (perm k n) (seq 0 n)) ->
  forall key0 n nt bs e hc, 0 < nt < n -> 1 <= bs ->
  NoDup (map realize (map c_key (fit_trace perm key0 n nt bs e hc) ++ map fst (fit_perm_keys perm key0 n nt bs e hc))).
Proof.
  intros Hinj perm Hp key0 n nt bs e hc Hnt Hbs.
  apply FinFun.Injective_map_NoDup; [exact Hinj|]. now apply fresh_keys.
Qed.

(* the run is a function of the key (and of the permutations JAX draws): no hidden state *)
Lemma fit_deterministic perm k k' n nt bs e hc : k = k' ->
  fit_trace perm k n nt bs e hc = fit_trace perm k' n nt bs e hc.
Proof. intros ->. reflexivity. Qed.

(* ---------- a concrete, key-dependent permutation oracle (non-vacuity of the hypotheses) ---------- *)
Definition rot_perm (k : key) (n : nat) : list nat :=
  let r := (length k + list_sum k) mod (S n) in rev (skipn r (seq 0 n) ++ firstn r (seq 0 n)).
Lemma rot_perm_ok k n : Permutation (rot_perm k n) (seq 0 n).
Proof.
  unfold rot_perm. rewrite <- Permutation_rev.
  etransitivity; [apply Permutation_app_comm|]. now rewrite firstn_skipn.
Qed.
