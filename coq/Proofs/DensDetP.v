(* C05, MultivariateNormal: the two matrix facts behind the textbook form of the log-density, stated over the
   interface of Proofs/DetP.v (matrices as functions nat -> nat -> R, sums as [sumR] over [List.seq 0 d]) so that
   plain-Coq files can use them.  MathComp is used only inside the proofs.
     detF_LLt     det (L L^T) = (prod_i L_ii)^2            for L lower triangular
     quad_form_F  z^T z = b^T M b  whenever L z = b and (L L^T) M = I   (M is THE inverse of L L^T; none is constructed) *)
From Coq Require Import Reals Lra List.
From mathcomp Require Import all_ssreflect ssralg matrix.
From FJ Require Import Proofs.LeafDerivP Proofs.DetP.
Import GRing.Theory.
Local Open Scope R_scope.

Theorem detF_LLt d (L : nat -> nat -> R) : (forall i j, (i < j)%coq_nat -> (j < d)%coq_nat -> L i j = 0) ->
  detF d (fun i k => sumR (List.map (fun j => L i j * L k j) (List.seq 0 d)))
  = prodR (List.map (fun i => L i i) (List.seq 0 d)) * prodR (List.map (fun i => L i i) (List.seq 0 d)).
Proof.
  move=> Hlow.
  have E := detF_mul d L (fun j k => L k j).
  rewrite /= in E. rewrite E (detF_lower Hlow).
  rewrite (@detF_upper d (fun j k => L k j)) //.
  move=> i j Hji Hi. exact: Hlow.
Qed.

Section Quad.
  Local Open Scope ring_scope.
  Lemma quad_mx d (L M : 'M[R]_d) (z b : 'cV[R]_d) :
    L *m z = b -> (L *m L^T) *m M = 1%:M -> z^T *m z = b^T *m M *m b.
  Proof.
    move=> Hz HM.
    have H1 : L *m (L^T *m M) = 1%:M by rewrite mulmxA.
    have H2 := mulmx1C H1.
    have -> : b^T *m M *m b = z^T *m ((L^T *m M) *m L) *m z by rewrite -Hz trmx_mul !mulmxA.
    by rewrite H2 mulmx1.
  Qed.
End Quad.

Theorem quad_form_F d (L M : nat -> nat -> R) (z b : nat -> R) :
  (forall i, (i < d)%coq_nat -> sumR (List.map (fun k => L i k * z k) (List.seq 0 d)) = b i) ->
  (forall i k, (i < d)%coq_nat -> (k < d)%coq_nat ->
     sumR (List.map (fun j => sumR (List.map (fun m => L i m * L j m) (List.seq 0 d)) * M j k) (List.seq 0 d))
     = if Nat.eqb i k then 1 else 0) ->
  sumR (List.map (fun i => z i * z i) (List.seq 0 d))
  = sumR (List.map (fun k => sumR (List.map (fun i => b i * M i k) (List.seq 0 d)) * b k) (List.seq 0 d)).
Proof.
  move=> Hz HM.
  pose Lm : 'M[R]_d := (\matrix_(i < d, j < d) L i j)%R.
  pose Mm : 'M[R]_d := (\matrix_(i < d, j < d) M i j)%R.
  pose zc : 'cV[R]_d := (\col_(i < d) z i)%R.
  pose bc : 'cV[R]_d := (\col_(i < d) b i)%R.
  have Ez : (Lm *m zc = bc)%R.
    apply/matrixP => i j; rewrite !mxE.
    rewrite -(Hz i); last by apply/ltP.
    rewrite -(sum_ord_seq d (fun k => L i k * z k)). apply: eq_bigr => k _. by rewrite !mxE.
  have EM : ((Lm *m Lm^T) *m Mm = 1%:M)%R.
    apply/matrixP => i k; rewrite !mxE.
    have -> : ((i == k)%:R)%R = (if Nat.eqb i k then 1 else 0) :> R.
      have -> : Nat.eqb i k = (i == k) by apply/idP/idP => /Nat.eqb_spec/eqP.
      by case: (i == k).
    rewrite -(HM i k); [|by apply/ltP|by apply/ltP].
    rewrite -(sum_ord_seq d (fun j => sumR (List.map (fun m => L i m * L j m) (List.seq 0 d)) * M j k)).
    apply: eq_bigr => j _. rewrite !mxE. congr (_ * _)%R.
    rewrite -(sum_ord_seq d (fun m => L i m * L j m)). apply: eq_bigr => m _. by rewrite !mxE.
  have Q := quad_mx d Lm Mm zc bc Ez EM.
  move/matrixP/(_ ord0 ord0): Q. rewrite !mxE.
  rewrite -(sum_ord_seq d (fun i => z i * z i)) -(sum_ord_seq d (fun k => sumR (List.map (fun i => b i * M i k) (List.seq 0 d)) * b k)).
  move=> Q.
  transitivity (\sum_(j < d) (zc^T)%R ord0 j * zc j ord0)%R; first by apply: eq_bigr => i _; rewrite !mxE.
  rewrite Q. apply: eq_bigr => k _. rewrite !mxE. congr (_ * _)%R.
  rewrite -(sum_ord_seq d (fun i => b i * M i k)). apply: eq_bigr => i _. by rewrite !mxE.
Qed.
