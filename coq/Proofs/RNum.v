(* The instance of NumOps at the real numbers, used by every proof about an analytic model. *)
From Coq Require Import Reals List ZArith Bool Lra.
From FJ Require Import Model.Num.
Open Scope R_scope.

Definition Rleb (a b : R) : bool := if Rle_dec a b then true else false.
Definition Rltb (a b : R) : bool := if Rlt_dec a b then true else false.
Definition Reqb (a b : R) : bool := if Req_EM_T a b then true else false.
Definition Rsign (x : R) : R := if Rlt_dec 0 x then 1 else if Rlt_dec x 0 then -1 else 0.
(* tanh and atanh by formulas that have usable lemmas (stdlib tanh = sinh/cosh has almost none) *)
Definition th (x : R) : R := 1 - 2 / (exp (2 * x) + 1).
Definition ath (y : R) : R := / 2 * ln ((1 + y) / (1 - y)).

Section WithLgamma.
  (* lgamma is an uninterpreted function shared by model and specification (DESIGN 4.5) *)
  Variable lgam : R -> R.
  Definition ROpsG : NumOps R := {|
    n_add := Rplus; n_sub := Rminus; n_mul := Rmult; n_div := Rdiv;
    n_neg := Ropp; n_abs := Rabs; n_sign := Rsign;
    n_exp := exp; n_log := ln; n_tanh := th; n_atanh := ath;
    n_softplus := fun x => ln (1 + exp x); n_log1p := fun x => ln (1 + x);
    n_expm1 := fun x => exp x - 1; n_sqrt := sqrt; n_lgamma := lgam; n_pi := PI;
    n_leb := Rleb; n_ltb := Rltb; n_eqb := Reqb; n_ofZ := IZR |}.
End WithLgamma.
Definition ROps : NumOps R := ROpsG (fun _ => 0).

Lemma Rleb_true a b : Rleb a b = true <-> a <= b.
Proof. unfold Rleb; destruct (Rle_dec a b); split; intros; try easy; congruence. Qed.
Lemma Rleb_false a b : Rleb a b = false <-> b < a.
Proof. unfold Rleb; destruct (Rle_dec a b); split; intros; try easy; try lra. Qed.
Lemma Rltb_true a b : Rltb a b = true <-> a < b.
Proof. unfold Rltb; destruct (Rlt_dec a b); split; intros; try easy; congruence. Qed.
Lemma Rltb_false a b : Rltb a b = false <-> b <= a.
Proof. unfold Rltb; destruct (Rlt_dec a b); split; intros; try easy; try lra. Qed.
Lemma Reqb_true a b : Reqb a b = true <-> a = b.
Proof. unfold Reqb; destruct (Req_EM_T a b); split; intros; try easy; congruence. Qed.
