(* C02, scalar part: derivatives of the elementary bijections of Model/Leaves.v at the reals
   (Coquelicot [is_derive]) and "reported log-det = ln |derivative|", for ALL real inputs,
   including the switch points of LeakyTanh; the inverse-log-det law; elementwise lifting;
   chains of abstract layers.  The spline is in RqsDerivP.v, determinants in DetP.v. *)
From Coq Require Import Reals List ZArith Bool Lra Lia Psatz.
From Coquelicot Require Import Coquelicot.
From FJ Require Import Model.Num Model.Leaves Proofs.RNum.
Import ListNotations.
Open Scope R_scope.

(* ------------------------------------------------------------------------------------ *)
(* The notion the whole property is about: [l] is the log|det Jacobian| of the scalar map
   [f] at [x]: f is differentiable at x, with a NON-ZERO derivative d, and l = ln |d|.
   (the guard d <> 0 is what forbids "true because ln 0 = 0".) *)
Definition is_ldj (f : R -> R) (x l : R) : Prop :=
  exists d, is_derive f x d /\ d <> 0 /\ l = ln (Rabs d).

Lemma is_ldj_unfold f x l :
  is_ldj f x l <-> exists d, is_derive f x d /\ d <> 0 /\ l = ln (Rabs d).
Proof. reflexivity. Qed.
Lemma is_ldj_intro f x d l : is_derive f x d -> d <> 0 -> l = ln (Rabs d) -> is_ldj f x l.
Proof. intros; exists d; auto. Qed.

(* unfolding the real instance *)
Ltac ru := cbv [n_add n_sub n_mul n_div n_neg n_abs n_sign n_exp n_log n_tanh n_atanh n_softplus
                n_log1p n_expm1 n_sqrt n_leb n_ltb n_eqb n_ofZ ROps ROpsG Num.c Num.where_ geb].

(* ------------------------------------------------------------------------------------ *)
(* one-sided derivatives and gluing (promoted from design_probes/Glue.v, generalised to any
   function that agrees with one smooth piece on each side of the junction) *)
Definition right_deriv (f : R -> R) (a l : R) : Prop :=
  forall eps, 0 < eps -> exists delta, 0 < delta /\
    forall h, 0 < h < delta -> Rabs ((f (a + h) - f a) / h - l) < eps.
Definition left_deriv (f : R -> R) (a l : R) : Prop :=
  forall eps, 0 < eps -> exists delta, 0 < delta /\
    forall h, - delta < h < 0 -> Rabs ((f (a + h) - f a) / h - l) < eps.

Lemma is_derive_eps f a l : is_derive f a l <->
  forall eps, 0 < eps -> exists delta, 0 < delta /\
    forall h, h <> 0 -> Rabs h < delta -> Rabs ((f (a + h) - f a) / h - l) < eps.
Proof.
  split.
  - intros H. apply is_derive_Reals in H. intros eps He. destruct (H eps He) as [d Hd].
    exists d. split; [apply cond_pos|]. exact Hd.
  - intros H. apply is_derive_Reals. intros eps He. destruct (H eps He) as [d [Hd0 Hd]].
    exists (mkposreal d Hd0). exact Hd.
Qed.

Lemma is_derive_right_deriv f a l : is_derive f a l -> right_deriv f a l.
Proof.
  intros H eps He. destruct (proj1 (is_derive_eps f a l) H eps He) as [d [Hd0 Hd]].
  exists d. split; [exact Hd0|]. intros h Hh. apply Hd; [lra|]. rewrite Rabs_right; lra.
Qed.
Lemma is_derive_left_deriv f a l : is_derive f a l -> left_deriv f a l.
Proof.
  intros H eps He. destruct (proj1 (is_derive_eps f a l) H eps He) as [d [Hd0 Hd]].
  exists d. split; [exact Hd0|]. intros h Hh. apply Hd; [lra|]. rewrite Rabs_left; lra.
Qed.

(* a one-sided derivative only looks at the function on that side *)
Lemma right_deriv_ext f g a l e : 0 < e -> (forall x, a <= x < a + e -> f x = g x) ->
  right_deriv g a l -> right_deriv f a l.
Proof.
  intros He Hfg Hg eps Heps. destruct (Hg eps Heps) as [d [Hd0 Hd]].
  exists (Rmin d e). split; [apply Rmin_pos; assumption|]. intros h [Hh1 Hh2].
  pose proof (Rmin_l d e). pose proof (Rmin_r d e).
  rewrite !Hfg by lra. apply Hd. lra.
Qed.
Lemma left_deriv_ext f g a l e : 0 < e -> (forall x, a - e < x <= a -> f x = g x) ->
  left_deriv g a l -> left_deriv f a l.
Proof.
  intros He Hfg Hg eps Heps. destruct (Hg eps Heps) as [d [Hd0 Hd]].
  exists (Rmin d e). split; [apply Rmin_pos; assumption|]. intros h [Hh1 Hh2].
  pose proof (Rmin_l d e). pose proof (Rmin_r d e).
  rewrite !Hfg by lra. apply Hd. lra.
Qed.

(* both one-sided derivatives exist and are equal  <->  differentiable *)
Lemma is_derive_of_sides f a l : left_deriv f a l -> right_deriv f a l -> is_derive f a l.
Proof.
  intros HL HR. apply is_derive_eps. intros eps He.
  destruct (HL eps He) as [d1 [Hd1 H1]]. destruct (HR eps He) as [d2 [Hd2 H2]].
  exists (Rmin d1 d2). split; [apply Rmin_pos; assumption|]. intros h Hh Hlt.
  pose proof (Rmin_l d1 d2). pose proof (Rmin_r d1 d2).
  destruct (Rlt_dec h 0) as [Hn|Hp].
  - apply H1. rewrite Rabs_left in Hlt by lra. lra.
  - apply H2. rewrite Rabs_right in Hlt by lra. lra.
Qed.

Lemma right_deriv_unique f a l1 l2 : right_deriv f a l1 -> right_deriv f a l2 -> l1 = l2.
Proof.
  intros H1 H2. destruct (Req_dec l1 l2) as [E|N]; [exact E|exfalso].
  assert (He : 0 < Rabs (l1 - l2) / 2) by (apply Rdiv_lt_0_compat; [apply Rabs_pos_lt; lra | lra]).
  destruct (H1 _ He) as [d1 [Hd1 K1]]. destruct (H2 _ He) as [d2 [Hd2 K2]].
  set (h := Rmin d1 d2 / 2).
  assert (Hm : 0 < Rmin d1 d2) by (apply Rmin_pos; assumption).
  pose proof (Rmin_l d1 d2). pose proof (Rmin_r d1 d2).
  assert (Hh : 0 < h < Rmin d1 d2) by (unfold h; lra).
  assert (K1' := K1 h). assert (K2' := K2 h). clearbody h.
  specialize (K1' ltac:(lra)). specialize (K2' ltac:(lra)).
  set (q := (f (a + h) - f a) / h) in *.
  pose proof (Rabs_triang (q - l2) (- (q - l1))) as T. rewrite Rabs_Ropp in T.
  replace (q - l2 + - (q - l1)) with (l1 - l2) in T by ring. lra.
Qed.

Lemma left_deriv_unique f a l1 l2 : left_deriv f a l1 -> left_deriv f a l2 -> l1 = l2.
Proof.
  intros H1 H2. destruct (Req_dec l1 l2) as [E|N]; [exact E|exfalso].
  assert (He : 0 < Rabs (l1 - l2) / 2) by (apply Rdiv_lt_0_compat; [apply Rabs_pos_lt; lra | lra]).
  destruct (H1 _ He) as [d1 [Hd1 K1]]. destruct (H2 _ He) as [d2 [Hd2 K2]].
  set (h := - (Rmin d1 d2 / 2)).
  assert (Hm : 0 < Rmin d1 d2) by (apply Rmin_pos; assumption).
  pose proof (Rmin_l d1 d2). pose proof (Rmin_r d1 d2).
  assert (Hh : - Rmin d1 d2 < h < 0) by (unfold h; lra).
  assert (K1' := K1 h). assert (K2' := K2 h). clearbody h.
  specialize (K1' ltac:(lra)). specialize (K2' ltac:(lra)).
  set (q := (f (a + h) - f a) / h) in *.
  pose proof (Rabs_triang (q - l2) (- (q - l1))) as T. rewrite Rabs_Ropp in T.
  replace (q - l2 + - (q - l1)) with (l1 - l2) in T by ring. lra.
Qed.
(* a kink: different one-sided derivatives exclude differentiability *)
Lemma kink_not_derivable f a l r : left_deriv f a l -> right_deriv f a r -> l <> r ->
  ~ exists d, is_derive f a d.
Proof.
  intros HL HR N [d Hd]. apply N.
  rewrite (left_deriv_unique f a l d HL (is_derive_left_deriv f a d Hd)).
  symmetry. apply (right_deriv_unique f a r d HR (is_derive_right_deriv f a d Hd)).
Qed.

(* the general gluing lemma: f agrees with f1 just left of a (a included) and with f2 just right
   of a (a included); f1, f2 differentiable at a with the same slope *)
Lemma is_derive_glue_loc (f f1 f2 : R -> R) (a l e : R) : 0 < e ->
  (forall x, a - e < x <= a -> f x = f1 x) -> (forall x, a <= x < a + e -> f x = f2 x) ->
  is_derive f1 a l -> is_derive f2 a l -> is_derive f a l.
Proof.
  intros He H1 H2 D1 D2. apply is_derive_of_sides.
  - eapply left_deriv_ext; [exact He | exact H1 | apply is_derive_left_deriv, D1].
  - eapply right_deriv_ext; [exact He | exact H2 | apply is_derive_right_deriv, D2].
Qed.

(* locally equal to a differentiable function *)
Lemma is_derive_loc (f g : R -> R) (x l e : R) : 0 < e ->
  (forall y, x - e < y < x + e -> f y = g y) -> is_derive g x l -> is_derive f x l.
Proof.
  intros He Hfg Hg. apply (is_derive_ext_loc g); [|exact Hg].
  exists (mkposreal e He). intros y Hy.
  unfold ball in Hy; cbn in Hy; unfold AbsRing_ball, abs, minus, plus, opp in Hy; cbn in Hy.
  apply Rabs_lt_between in Hy. symmetry. apply Hfg. lra.
Qed.

(* ------------------------------------------------------------------------------------ *)
(* affine.py : Affine, Loc, Scale *)
Lemma affine_deriv loc scale x : is_derive (affine_fwd ROps loc scale) x scale.
Proof. unfold affine_fwd; ru. auto_derive; [exact I | ring]. Qed.
Lemma affine_ldj loc scale x : scale <> 0 ->
  is_ldj (affine_fwd ROps loc scale) x (affine_ld ROps scale).
Proof. intros Hs. apply (is_ldj_intro _ _ scale); [apply affine_deriv | exact Hs | reflexivity]. Qed.
Lemma affine_ld_spec scale : affine_ld ROps scale = ln (Rabs scale).
Proof. reflexivity. Qed.

Lemma loc_deriv loc x : is_derive (loc_fwd ROps loc) x 1.
Proof. unfold loc_fwd; ru. auto_derive; [exact I | ring]. Qed.
(* Loc reports jnp.zeros(()) *)
Lemma loc_ldj loc x : is_ldj (loc_fwd ROps loc) x 0.
Proof. apply (is_ldj_intro _ _ 1); [apply loc_deriv | lra | now rewrite Rabs_R1, ln_1]. Qed.

Lemma scale_deriv scale x : is_derive (scale_fwd ROps scale) x scale.
Proof. unfold scale_fwd; ru. auto_derive; [exact I | ring]. Qed.
Lemma scale_ldj scale x : scale <> 0 -> is_ldj (scale_fwd ROps scale) x (affine_ld ROps scale).
Proof. intros Hs. apply (is_ldj_intro _ _ scale); [apply scale_deriv | exact Hs | reflexivity]. Qed.

(* ------------------------------------------------------------------------------------ *)
(* exp.py *)
Lemma exp_deriv x : is_derive (exp_fwd ROps) x (exp x).
Proof. unfold exp_fwd; ru. auto_derive; [exact I | ring]. Qed.
Lemma exp_ld_spec x : exp_ld_fwd x = ln (Rabs (exp x)).
Proof. unfold exp_ld_fwd. rewrite Rabs_right by (left; apply exp_pos). now rewrite ln_exp. Qed.
Lemma exp_ldj x : is_ldj (exp_fwd ROps) x (exp_ld_fwd x).
Proof.
  apply (is_ldj_intro _ _ (exp x)); [apply exp_deriv | apply Rgt_not_eq, exp_pos | apply exp_ld_spec].
Qed.

(* ------------------------------------------------------------------------------------ *)
(* softplus.py *)
Definition sigmoid (x : R) : R := exp x / (1 + exp x).
Lemma sigmoid_pos x : 0 < sigmoid x.
Proof. unfold sigmoid. pose proof (exp_pos x). apply Rdiv_lt_0_compat; lra. Qed.
Lemma softplus_deriv x : is_derive (softplus_fwd ROps) x (sigmoid x).
Proof.
  unfold softplus_fwd, sigmoid; ru. pose proof (exp_pos x).
  auto_derive; [lra | field; lra].
Qed.
(* -softplus(-x) = ln (e^x / (1 + e^x)) *)
Lemma softplus_ld_spec x : softplus_ld_fwd ROps x = ln (Rabs (sigmoid x)).
Proof.
  unfold softplus_ld_fwd; ru. rewrite Rabs_right by (left; apply sigmoid_pos).
  unfold sigmoid. pose proof (exp_pos x) as Hx.
  replace (exp x / (1 + exp x)) with (/ (1 + exp (- x))).
  - rewrite ln_Rinv; [reflexivity|]. pose proof (exp_pos (-x)). lra.
  - rewrite exp_Ropp. field. split; lra.
Qed.
Lemma softplus_ldj x : is_ldj (softplus_fwd ROps) x (softplus_ld_fwd ROps x).
Proof.
  apply (is_ldj_intro _ _ (sigmoid x));
    [apply softplus_deriv | apply Rgt_not_eq, sigmoid_pos | apply softplus_ld_spec].
Qed.

(* ------------------------------------------------------------------------------------ *)
(* tanh.py : th lemmas promoted from design_probes/Tanh.v *)
Lemma th_is_tanh x : th x = tanh x.
Proof.
  unfold th, tanh, sinh, cosh.
  replace (exp (2*x)) with (exp x * exp x) by (rewrite <- exp_plus; f_equal; ring).
  rewrite exp_Ropp. pose proof (exp_pos x) as H.
  field. split; nra.
Qed.
Lemma th_incr x y : x < y -> th x < th y.
Proof.
  intros H. unfold th.
  assert (exp (2*x) < exp (2*y)) by (apply exp_increasing; lra).
  pose proof (exp_pos (2*x)). pose proof (exp_pos (2*y)).
  apply Rplus_lt_compat_l, Ropp_lt_contravar.
  unfold Rdiv. apply Rmult_lt_compat_l; [lra|].
  apply Rinv_lt_contravar; [nra | lra].
Qed.
Lemma th_bounds x : -1 < th x < 1.
Proof.
  unfold th. pose proof (exp_pos (2*x)) as H.
  assert (0 < 2 / (exp (2*x) + 1) < 2).
  { split. apply Rdiv_lt_0_compat; lra.
    apply Rmult_lt_reg_r with (exp (2*x) + 1); [lra|]. field_simplify; lra. }
  lra.
Qed.
Lemma ath_th x : ath (th x) = x.
Proof.
  unfold ath, th. pose proof (exp_pos (2*x)) as H.
  replace ((1 + (1 - 2 / (exp (2*x) + 1))) / (1 - (1 - 2 / (exp (2*x) + 1)))) with (exp (2*x)).
  - rewrite ln_exp. field.
  - field. lra.
Qed.
Lemma th_ath y : -1 < y < 1 -> th (ath y) = y.
Proof.
  intros Hy. unfold ath, th.
  replace (2 * (/ 2 * ln ((1 + y) / (1 - y)))) with (ln ((1 + y) / (1 - y))) by field.
  rewrite exp_ln. field. lra. apply Rdiv_lt_0_compat; lra.
Qed.
Lemma th_odd x : th (-x) = - th x.
Proof.
  unfold th. replace (2 * - x) with (- (2*x)) by ring. rewrite exp_Ropp.
  pose proof (exp_pos (2*x)). field. split; lra.
Qed.
Lemma th_0 : th 0 = 0.
Proof. unfold th. rewrite Rmult_0_r, exp_0. lra. Qed.

Definition dth (x : R) : R := 1 - th x * th x.
Lemma dth_pos x : 0 < dth x.
Proof. unfold dth. pose proof (th_bounds x). nra. Qed.
Lemma dth_even x : dth (- x) = dth x.
Proof. unfold dth. rewrite th_odd. ring. Qed.

(* th' = 1 - th^2 *)
Lemma th_deriv x : is_derive th x (dth x).
Proof.
  unfold dth, th. pose proof (exp_pos (2*x)).
  auto_derive; [lra | field; lra].
Qed.
Lemma tanh_deriv x : is_derive (tanh_fwd ROps) x (dth x).
Proof. apply th_deriv. Qed.

(* _tanh_log_grad x = -2 (x + softplus(-2x) - ln 2) = ln (1 - tanh^2 x) *)
Lemma tanh_log_grad_spec x : tanh_log_grad ROps x = ln (1 - th x * th x).
Proof.
  unfold tanh_log_grad; ru. pose proof (exp_pos (2*x)) as He.
  replace (1 - th x * th x) with (4 * exp (2*x) * / ((exp (2*x) + 1) * (exp (2*x) + 1)))
    by (unfold th; field; lra).
  rewrite ln_mult, ln_mult, ln_exp, ln_Rinv, ln_mult; try lra; try nra.
  2:{ apply Rinv_0_lt_compat. nra. }
  replace (exp (-2 * x)) with (/ exp (2*x)) by (rewrite <- exp_Ropp; f_equal; ring).
  replace (1 + / exp (2*x)) with ((exp (2*x) + 1) * / exp (2*x)) by (field; lra).
  rewrite ln_mult, ln_Rinv, ln_exp; try lra.
  2:{ apply Rinv_0_lt_compat; lra. }
  replace 4 with (2 * 2) by ring. rewrite ln_mult by lra. ring.
Qed.
Lemma tanh_ld_spec x : tanh_ld_fwd ROps x = ln (Rabs (dth x)).
Proof.
  unfold tanh_ld_fwd. rewrite tanh_log_grad_spec, Rabs_right by (left; apply dth_pos). reflexivity.
Qed.
Lemma tanh_ldj x : is_ldj (tanh_fwd ROps) x (tanh_ld_fwd ROps x).
Proof.
  apply (is_ldj_intro _ _ (dth x)); [apply tanh_deriv | apply Rgt_not_eq, dth_pos | apply tanh_ld_spec].
Qed.

(* ------------------------------------------------------------------------------------ *)
(* LeakyTanh *)
Lemma Rsign_pos x : 0 < x -> Rsign x = 1.
Proof. intros H. unfold Rsign. destruct (Rlt_dec 0 x); [reflexivity | lra]. Qed.
Lemma Rsign_neg x : x < 0 -> Rsign x = -1.
Proof. intros H. unfold Rsign. destruct (Rlt_dec 0 x); [lra|]. destruct (Rlt_dec x 0); [reflexivity | lra]. Qed.

(* LeakyTanh.__init__: linear_grad = exp(_tanh_log_grad(max_val)) = 1 - tanh^2 max_val *)
Lemma leaky_grad_spec m : leaky_grad ROps m = dth m.
Proof. unfold leaky_grad; ru. rewrite tanh_log_grad_spec. apply exp_ln, dth_pos. Qed.
Lemma leaky_icpt_spec m : leaky_icpt ROps m = th m - dth m * m.
Proof. unfold leaky_icpt. rewrite leaky_grad_spec. reflexivity. Qed.

(* the derivative LeakyTanh reports (before taking the log) *)
Definition leaky_d (m x : R) : R := if Rleb m (Rabs x) then leaky_grad ROps m else dth x.
Lemma leaky_d_pos m x : 0 < leaky_d m x.
Proof. unfold leaky_d. rewrite leaky_grad_spec. destruct (Rleb m (Rabs x)); apply dth_pos. Qed.

Section Leaky.
  Variable m : R.
  Hypothesis m_pos : 0 < m.
  Let g := leaky_grad ROps m.
  Let ic := leaky_icpt ROps m.
  Let f := leaky_fwd ROps m g ic.

  Lemma leaky_fwd_hi x : m <= x -> f x = dth m * x + (th m - dth m * m).
  Proof.
    intros H. unfold f, leaky_fwd, g, ic; ru. rewrite leaky_icpt_spec, leaky_grad_spec.
    rewrite Rabs_right by lra. destruct (Rleb m x) eqn:E; [|apply Rleb_false in E; lra].
    rewrite Rsign_pos by lra. ring.
  Qed.
  Lemma leaky_fwd_lo x : x <= - m -> f x = dth m * x - (th m - dth m * m).
  Proof.
    intros H. unfold f, leaky_fwd, g, ic; ru. rewrite leaky_icpt_spec, leaky_grad_spec.
    rewrite Rabs_left by lra. destruct (Rleb m (- x)) eqn:E; [|apply Rleb_false in E; lra].
    rewrite Rsign_neg by lra. ring.
  Qed.
  Lemma leaky_fwd_mid x : - m < x < m -> f x = th x.
  Proof.
    intros H. unfold f, leaky_fwd; ru.
    destruct (Rleb m (Rabs x)) eqn:E; [|reflexivity]. apply Rleb_true in E.
    unfold Rabs in E. destruct (Rcase_abs x); lra.
  Qed.

  Lemma lin_deriv a b x : is_derive (fun y => a * y + b) x a.
  Proof. auto_derive; [exact I | ring]. Qed.
  Lemma lin_deriv' a b x : is_derive (fun y => a * y - b) x a.
  Proof. auto_derive; [exact I | ring]. Qed.

  (* differentiable at EVERY real x, the switch points +-m included *)
  Theorem leaky_deriv x : is_derive f x (leaky_d m x).
  Proof.
    unfold leaky_d. rewrite leaky_grad_spec.
    destruct (Rleb m (Rabs x)) eqn:E.
    - apply Rleb_true in E.
      destruct (Rle_dec 0 x) as [Hx|Hx].
      + rewrite Rabs_right in E by lra.
        destruct (Req_dec x m) as [->|Hne].
        * (* x = m : tanh on the left, linear on the right *)
          apply (is_derive_glue_loc f th (fun y => dth m * y + (th m - dth m * m)) m (dth m) m m_pos).
          -- intros y Hy. destruct (Req_dec y m) as [->|Hn].
             ++ rewrite leaky_fwd_hi by lra. ring.
             ++ apply leaky_fwd_mid. lra.
          -- intros y Hy. apply leaky_fwd_hi. lra.
          -- apply th_deriv.
          -- apply lin_deriv.
        * apply (is_derive_loc f (fun y => dth m * y + (th m - dth m * m)) x (dth m) (x - m)); [lra| |apply lin_deriv].
          intros y Hy. apply leaky_fwd_hi. lra.
      + rewrite Rabs_left in E by lra.
        destruct (Req_dec x (- m)) as [->|Hne].
        * (* x = -m : linear on the left, tanh on the right *)
          rewrite <- (dth_even m).
          apply (is_derive_glue_loc f (fun y => dth m * y - (th m - dth m * m)) th (- m) (dth (- m)) m m_pos).
          -- intros y Hy. apply leaky_fwd_lo. lra.
          -- intros y Hy. destruct (Req_dec y (- m)) as [->|Hn].
             ++ rewrite leaky_fwd_lo by lra. rewrite th_odd. ring.
             ++ apply leaky_fwd_mid. lra.
          -- rewrite dth_even. apply lin_deriv'.
          -- apply th_deriv.
        * apply (is_derive_loc f (fun y => dth m * y - (th m - dth m * m)) x (dth m) (- m - x)); [lra| |apply lin_deriv'].
          intros y Hy. apply leaky_fwd_lo. lra.
    - apply Rleb_false in E.
      assert (Hx : - m < x < m) by (unfold Rabs in E; destruct (Rcase_abs x); lra).
      apply (is_derive_loc f th x (dth x) (Rmin (m - x) (x + m))); [apply Rmin_pos; lra| |apply th_deriv].
      intros y Hy. pose proof (Rmin_l (m - x) (x + m)). pose proof (Rmin_r (m - x) (x + m)).
      apply leaky_fwd_mid. lra.
  Qed.

  (* the reported log-det is the log of that derivative *)
  Lemma leaky_ld_spec x : leaky_ld_fwd ROps m g x = ln (Rabs (leaky_d m x)).
  Proof.
    rewrite Rabs_right by (left; apply leaky_d_pos).
    unfold leaky_ld_fwd, leaky_d, g; ru. destruct (Rleb m (Rabs x)); [reflexivity|].
    apply tanh_log_grad_spec.
  Qed.
  Theorem leaky_ldj x : is_ldj f x (leaky_ld_fwd ROps m g x).
  Proof.
    apply (is_ldj_intro _ _ (leaky_d m x));
      [apply leaky_deriv | apply Rgt_not_eq, leaky_d_pos | apply leaky_ld_spec].
  Qed.
End Leaky.

(* ------------------------------------------------------------------------------------ *)
(* sums *)
Lemma fold_left_Rplus l a : fold_left Rplus l a = a + fold_right Rplus 0 l.
Proof. revert a. induction l as [|x t IH]; intros a; cbn; [ring|]. rewrite IH. ring. Qed.
Lemma sum_R l : sum ROps l = fold_right Rplus 0 l.
Proof. unfold sum; ru. rewrite fold_left_Rplus. ring. Qed.
Lemma sum_R_cons x l : sum ROps (x :: l) = x + sum ROps l.
Proof. now rewrite !sum_R. Qed.
Lemma sum_R_nil : sum ROps [] = 0.
Proof. reflexivity. Qed.
Lemma sum_R_app l1 l2 : sum ROps (l1 ++ l2) = sum ROps l1 + sum ROps l2.
Proof. rewrite !sum_R. induction l1; cbn; [ring|]. rewrite IHl1. ring. Qed.

Definition prodR (l : list R) : R := fold_right Rmult 1 l.
(* sum of ln|d_i| = ln |prod d_i| when no d_i vanishes *)
Lemma sum_ln_abs_prod l : List.Forall (fun d => d <> 0) l ->
  sum ROps (map (fun d => ln (Rabs d)) l) = ln (Rabs (prodR l)) /\ prodR l <> 0.
Proof.
  induction 1 as [|d t Hd Ht [IH1 IH2]].
  - cbn. rewrite Rabs_R1, ln_1. split; [reflexivity | lra].
  - cbn [map prodR fold_right]. rewrite sum_R_cons, IH1. fold (prodR t). split.
    + rewrite Rabs_mult, ln_mult; [reflexivity | |]; apply Rabs_pos_lt; assumption.
    + apply Rmult_integral_contrapositive_currified; assumption.
Qed.

(* elementwise lifting (any length): the lifted map sends x_i to f x_i, coordinate by coordinate;
   the reported log-det is the sum over all elements, = sum_i ln|f'(x_i)| = ln |prod_i f'(x_i)| *)
Theorem lift_ldj (f ld d : R -> R) (xs : list R) :
  (forall x, In x xs -> is_derive f x (d x) /\ d x <> 0 /\ ld x = ln (Rabs (d x))) ->
  lift_ld ROps ld xs = sum ROps (map (fun x => ln (Rabs (d x))) xs) /\
  lift_ld ROps ld xs = ln (Rabs (prodR (map d xs))) /\ prodR (map d xs) <> 0 /\
  List.Forall2 (fun x y => y = f x) xs (lift f xs).
Proof.
  intros H. unfold lift_ld, lift.
  assert (E : map ld xs = map (fun x => ln (Rabs (d x))) xs).
  { apply map_ext_in. intros x Hx. apply H, Hx. }
  rewrite E. split; [reflexivity|].
  assert (F : List.Forall (fun d => d <> 0) (map d xs)).
  { apply Forall_forall. intros y Hy. apply in_map_iff in Hy. destruct Hy as [x [<- Hx]]. apply H, Hx. }
  destruct (sum_ln_abs_prod _ F) as [S1 S2]. rewrite map_map in S1.
  repeat split; [exact S1 | exact S2 |].
  clear. induction xs; cbn; constructor; auto.
Qed.
Corollary lift_is_ldj (f ld : R -> R) (xs : list R) :
  (forall x, In x xs -> is_ldj f x (ld x)) ->
  exists ds, List.Forall2 (fun x d => is_derive f x d /\ d <> 0) xs ds /\
             lift_ld ROps ld xs = sum ROps (map (fun d => ln (Rabs d)) ds) /\
             lift_ld ROps ld xs = ln (Rabs (prodR ds)).
Proof.
  induction xs as [|x t IH]; intros H.
  - exists []. repeat split; [constructor | cbn; now rewrite Rabs_R1, ln_1].
  - destruct IH as [ds [F [S P]]]; [intros y Hy; apply H; now right|].
    destruct (H x (or_introl eq_refl)) as [d [D [N L]]].
    exists (d :: ds). split; [constructor; auto|].
    assert (Fz : List.Forall (fun d => d <> 0) (d :: ds)).
    { constructor; [exact N|]. clear - F. induction F; constructor; tauto. }
    destruct (sum_ln_abs_prod _ Fz) as [S1 _].
    unfold lift_ld in *. cbn [map]. rewrite <- S1. cbn [map]. rewrite !sum_R_cons, S, L. split; reflexivity.
Qed.

(* ------------------------------------------------------------------------------------ *)
(* Abstract layers; Chain and Invert as chain.py / utils.py compute them.
   X = the value type (a scalar, a vector, ...); log-dets are real scalars. *)
Section Layers.
  Variable X : Type.
  Record layer := Layer {
    l_fwd : X -> X; l_inv : X -> X; l_ldf : X -> R; l_ldi : X -> R;
    l_dom : X -> Prop; l_cod : X -> Prop }.
  (* a layer is a bijection dom <-> cod whose reported inverse log-det is minus the forward one
     at the corresponding point *)
  Definition layer_ok (l : layer) : Prop :=
    (forall x, l_dom l x -> l_cod l (l_fwd l x) /\ l_inv l (l_fwd l x) = x) /\
    (forall y, l_cod l y -> l_dom l (l_inv l y) /\ l_fwd l (l_inv l y) = y /\
                            l_ldi l y = - l_ldf l (l_inv l y)).

  (* Chain.transform_and_log_det / inverse_and_log_det: log_abs_det_jac = 0; for b in bs: += *)
  Definition chain_fwd_ld (ls : list layer) (x : X) : X * R :=
    fold_left (fun s l => (l_fwd l (fst s), snd s + l_ldf l (fst s))) ls (x, 0).
  Definition chain_inv_ld (ls : list layer) (y : X) : X * R :=
    fold_left (fun s l => (l_inv l (fst s), snd s + l_ldi l (fst s))) (rev ls) (y, 0).
  (* what the definition of composition prescribes *)
  Fixpoint comp_fwd (ls : list layer) (x : X) : X :=
    match ls with [] => x | l :: t => comp_fwd t (l_fwd l x) end.
  Fixpoint comp_ldf (ls : list layer) (x : X) : R :=
    match ls with [] => 0 | l :: t => l_ldf l x + comp_ldf t (l_fwd l x) end.
  Fixpoint comp_dom (ls : list layer) (x : X) : Prop :=
    match ls with [] => True | l :: t => l_dom l x /\ comp_dom t (l_fwd l x) end.
  (* the inverse pass, on the reversed list *)
  Fixpoint rcomp_inv (rls : list layer) (y : X) : X :=
    match rls with [] => y | l :: t => rcomp_inv t (l_inv l y) end.
  Fixpoint rcomp_ldi (rls : list layer) (y : X) : R :=
    match rls with [] => 0 | l :: t => l_ldi l y + rcomp_ldi t (l_inv l y) end.
  Fixpoint rcomp_cod (rls : list layer) (y : X) : Prop :=
    match rls with [] => True | l :: t => l_cod l y /\ rcomp_cod t (l_inv l y) end.

  Lemma chain_fwd_ld_gen ls : forall x a,
    fold_left (fun s l => (l_fwd l (fst s), snd s + l_ldf l (fst s))) ls (x, a)
    = (comp_fwd ls x, a + comp_ldf ls x).
  Proof.
    induction ls as [|l t IH]; intros x a; cbn [fold_left comp_fwd comp_ldf fst snd].
    - f_equal. ring.
    - rewrite IH. f_equal. ring.
  Qed.
  (* the log-det of a Chain is the sum of the layers' log-dets at the running intermediate values *)
  Theorem chain_fwd_ld_spec ls x : chain_fwd_ld ls x = (comp_fwd ls x, comp_ldf ls x).
  Proof. unfold chain_fwd_ld. rewrite chain_fwd_ld_gen. f_equal. ring. Qed.
  Lemma chain_inv_ld_gen rls : forall y a,
    fold_left (fun s l => (l_inv l (fst s), snd s + l_ldi l (fst s))) rls (y, a)
    = (rcomp_inv rls y, a + rcomp_ldi rls y).
  Proof.
    induction rls as [|l t IH]; intros y a; cbn [fold_left rcomp_inv rcomp_ldi fst snd].
    - f_equal. ring.
    - rewrite IH. f_equal. ring.
  Qed.
  Theorem chain_inv_ld_spec ls y :
    chain_inv_ld ls y = (rcomp_inv (rev ls) y, rcomp_ldi (rev ls) y).
  Proof. unfold chain_inv_ld. rewrite chain_inv_ld_gen. f_equal. ring. Qed.

  Lemma comp_fwd_app a b x : comp_fwd (a ++ b) x = comp_fwd b (comp_fwd a x).
  Proof. revert x. induction a; intros; cbn; auto. Qed.
  Lemma comp_ldf_app a b x : comp_ldf (a ++ b) x = comp_ldf a x + comp_ldf b (comp_fwd a x).
  Proof. revert x. induction a as [|l a IH]; intros; cbn; [ring|]. rewrite IH. ring. Qed.
  Lemma comp_dom_app a b x : comp_dom (a ++ b) x <-> comp_dom a x /\ comp_dom b (comp_fwd a x).
  Proof. revert x. induction a as [|l a IH]; intros; cbn; [tauto|]. rewrite IH. tauto. Qed.
  Lemma rcomp_inv_app a b y : rcomp_inv (a ++ b) y = rcomp_inv b (rcomp_inv a y).
  Proof. revert y. induction a; intros; cbn; auto. Qed.
  Lemma rcomp_ldi_app a b y : rcomp_ldi (a ++ b) y = rcomp_ldi a y + rcomp_ldi b (rcomp_inv a y).
  Proof. revert y. induction a as [|l a IH]; intros; cbn; [ring|]. rewrite IH. ring. Qed.
  Lemma rcomp_cod_app a b y : rcomp_cod (a ++ b) y <-> rcomp_cod a y /\ rcomp_cod b (rcomp_inv a y).
  Proof. revert y. induction a as [|l a IH]; intros; cbn; [tauto|]. rewrite IH. tauto. Qed.

  (* Chain of any number of ok layers, as a layer *)
  Definition chain_layer (ls : list layer) : layer :=
    Layer (fun x => fst (chain_fwd_ld ls x)) (fun y => fst (chain_inv_ld ls y))
          (fun x => snd (chain_fwd_ld ls x)) (fun y => snd (chain_inv_ld ls y))
          (comp_dom ls) (rcomp_cod (rev ls)).
  (* Invert swaps the two directions *)
  Definition invert_layer (l : layer) : layer :=
    Layer (l_inv l) (l_fwd l) (l_ldi l) (l_ldf l) (l_cod l) (l_dom l).

  Lemma chain_ok_aux ls : List.Forall layer_ok ls ->
    (forall x, comp_dom ls x -> rcomp_cod (rev ls) (comp_fwd ls x) /\ rcomp_inv (rev ls) (comp_fwd ls x) = x) /\
    (forall y, rcomp_cod (rev ls) y -> comp_dom ls (rcomp_inv (rev ls) y) /\
               comp_fwd ls (rcomp_inv (rev ls) y) = y /\
               rcomp_ldi (rev ls) y = - comp_ldf ls (rcomp_inv (rev ls) y)).
  Proof.
    induction 1 as [|l t [Hl1 Hl2] Ht [IH1 IH2]].
    - cbn. split; intros; repeat split; auto. ring.
    - split.
      + intros x [Hd Hc]. cbn [comp_fwd rev].
        destruct (Hl1 x Hd) as [Hc1 Hi1]. destruct (IH1 _ Hc) as [Hc2 Hi2].
        rewrite rcomp_cod_app, rcomp_inv_app, Hi2. cbn. rewrite Hi1. tauto.
      + intros y Hy. cbn [rev] in Hy. apply rcomp_cod_app in Hy. destruct Hy as [Hy1 [Hy2 _]].
        cbn [rev]. rewrite rcomp_inv_app, rcomp_ldi_app. cbn [rcomp_inv rcomp_ldi comp_dom comp_fwd comp_ldf].
        destruct (IH2 y Hy1) as [Hd [Hf Hld]]. set (z := rcomp_inv (rev t) y) in *.
        destruct (Hl2 z Hy2) as [Hd' [Hf' Hld']].
        rewrite Hf', Hf, Hld, Hld'. repeat split; auto. ring.
  Qed.

  (* ldj_inverse_law for Chain: any number of layers *)
  Theorem chain_layer_ok ls : List.Forall layer_ok ls -> layer_ok (chain_layer ls).
  Proof.
    intros H. destruct (chain_ok_aux ls H) as [A B]. unfold layer_ok, chain_layer. cbn.
    split.
    - intros x Hx. rewrite chain_fwd_ld_spec, chain_inv_ld_spec. cbn. apply A, Hx.
    - intros y Hy. rewrite !chain_inv_ld_spec. cbn [fst snd]. rewrite !chain_fwd_ld_spec. cbn [fst snd]. apply B, Hy.
  Qed.
  (* ... and for Invert: its inverse log-det (the inner forward one) is minus its forward log-det
     (the inner inverse one) at the corresponding point *)
  Theorem invert_layer_ok l : layer_ok l -> layer_ok (invert_layer l).
  Proof.
    intros [H1 H2]. unfold layer_ok, invert_layer. cbn. split.
    - intros y Hy. destruct (H2 y Hy) as [a [b _]]. auto.
    - intros x Hx. destruct (H1 x Hx) as [a b]. repeat split; auto.
      destruct (H2 _ a) as [_ [_ e]]. rewrite e, b. ring.
  Qed.
  (* the statement of the law, read off a layer *)
  Corollary ldj_inverse_law l y : layer_ok l -> l_cod l y ->
    l_fwd l (l_inv l y) = y /\ l_ldi l y = - l_ldf l (l_inv l y).
  Proof. intros [_ H] Hy. destruct (H y Hy) as [_ [a b]]. auto. Qed.
End Layers.
Arguments Layer {X}. Arguments l_fwd {X}. Arguments l_inv {X}. Arguments l_ldf {X}. Arguments l_ldi {X}.
Arguments l_dom {X}. Arguments l_cod {X}. Arguments layer_ok {X}. Arguments chain_fwd_ld {X}.
Arguments chain_inv_ld {X}. Arguments comp_fwd {X}. Arguments comp_ldf {X}. Arguments comp_dom {X}.
Arguments rcomp_inv {X}. Arguments rcomp_ldi {X}. Arguments rcomp_cod {X}. Arguments chain_layer {X}.
Arguments invert_layer {X}.

(* rank-0 chains: the reported log-det of the chain is ln |(f_n o ... o f_1)'(x)| *)
Definition layer_ldj (l : layer R) : Prop := forall x, l_dom l x -> is_ldj (l_fwd l) x (l_ldf l x).

Lemma is_ldj_comp (f g : R -> R) x lf lg :
  is_ldj f x lf -> is_ldj g (f x) lg -> is_ldj (fun t => g (f t)) x (lf + lg).
Proof.
  intros [df [Df [Nf Lf]]] [dg [Dg [Ng Lg]]]. exists (df * dg). split; [|split].
  - apply (is_derive_comp g f x dg df Dg Df).
  - apply Rmult_integral_contrapositive_currified; assumption.
  - rewrite Rabs_mult, ln_mult, Lf, Lg; [reflexivity | |]; apply Rabs_pos_lt; assumption.
Qed.
Lemma is_ldj_id x : is_ldj (fun t => t) x 0.
Proof. exists 1. split; [auto_derive; [exact I | ring] | split; [lra | now rewrite Rabs_R1, ln_1]]. Qed.

Theorem chain_ldj_rank0 (ls : list (layer R)) : List.Forall layer_ldj ls ->
  forall x, comp_dom ls x ->
  is_ldj (fun t => fst (chain_fwd_ld ls t)) x (snd (chain_fwd_ld ls x)).
Proof.
  intros H x Hx.
  assert (E : forall t, fst (chain_fwd_ld ls t) = comp_fwd ls t) by (intros; now rewrite chain_fwd_ld_spec).
  rewrite chain_fwd_ld_spec. cbn [snd].
  assert (G : is_ldj (comp_fwd ls) x (comp_ldf ls x)).
  { clear E. revert x Hx. induction H as [|l t Hl Ht IH]; intros x Hx.
    - apply is_ldj_id.
    - destruct Hx as [Hd Hc]. cbn [comp_fwd comp_ldf].
      apply (is_ldj_comp (l_fwd l) (comp_fwd t)); [apply Hl, Hd | apply IH, Hc]. }
  destruct G as [d [D [N L]]]. exists d. split; [|auto].
  apply (is_derive_ext (comp_fwd ls)); [intros; symmetry; apply E | exact D].
Qed.

(* ------------------------------------------------------------------------------------ *)
(* the scalar leaves as layers: ldj_inverse_law per leaf *)
Definition Rall (x : R) : Prop := True.

Definition affine_layer (loc scale : R) : layer R :=
  Layer (affine_fwd ROps loc scale) (affine_inv ROps loc scale)
        (fun _ => affine_ld ROps scale) (fun _ => - affine_ld ROps scale) Rall Rall.
Lemma affine_layer_ok loc scale : scale <> 0 -> layer_ok (affine_layer loc scale).
Proof.
  intros Hs. unfold layer_ok, affine_layer, affine_fwd, affine_inv, Rall; cbn. split.
  - intros x _. split; [exact I | field; exact Hs].
  - intros y _. repeat split. field; exact Hs.
Qed.
Definition loc_layer (loc : R) : layer R :=
  Layer (loc_fwd ROps loc) (loc_inv ROps loc) (fun _ => 0) (fun _ => 0) Rall Rall.
Lemma loc_layer_ok loc : layer_ok (loc_layer loc).
Proof.
  unfold layer_ok, loc_layer, loc_fwd, loc_inv, Rall; cbn. split.
  - intros x _. split; [exact I | ring].
  - intros y _. repeat split; ring.
Qed.
Definition scale_layer (scale : R) : layer R :=
  Layer (scale_fwd ROps scale) (scale_inv ROps scale)
        (fun _ => affine_ld ROps scale) (fun _ => - affine_ld ROps scale) Rall Rall.
Lemma scale_layer_ok scale : scale <> 0 -> layer_ok (scale_layer scale).
Proof.
  intros Hs. unfold layer_ok, scale_layer, scale_fwd, scale_inv, Rall; cbn. split.
  - intros x _. split; [exact I | field; exact Hs].
  - intros y _. repeat split. field; exact Hs.
Qed.

Definition exp_layer : layer R :=
  Layer (exp_fwd ROps) (exp_inv ROps) (@exp_ld_fwd R) (exp_ld_inv ROps) Rall (fun y => 0 < y).
Lemma exp_layer_ok : layer_ok exp_layer.
Proof.
  unfold layer_ok, exp_layer, exp_fwd, exp_inv, exp_ld_fwd, exp_ld_inv, Rall; cbn. split.
  - intros x _. split; [apply exp_pos | apply ln_exp].
  - intros y Hy. repeat split. apply exp_ln, Hy.
Qed.

Lemma softplus_inv_spec y : 0 < y -> softplus_inv ROps y = ln (exp y - 1).
Proof.
  intros Hy. unfold softplus_inv; ru.
  assert (1 < exp y) by (rewrite <- exp_0; apply exp_increasing, Hy).
  replace (- (exp (- y) - 1)) with ((exp y - 1) * / exp y) by (rewrite exp_Ropp; field; lra).
  rewrite ln_mult, ln_Rinv, ln_exp; [ring | lra | lra | apply Rinv_0_lt_compat; lra].
Qed.
Definition softplus_layer : layer R :=
  Layer (softplus_fwd ROps) (softplus_inv ROps) (softplus_ld_fwd ROps) (softplus_ld_inv ROps)
        Rall (fun y => 0 < y).
Lemma softplus_layer_ok : layer_ok softplus_layer.
Proof.
  unfold layer_ok, softplus_layer; cbn [l_fwd l_inv l_ldf l_ldi l_dom l_cod]. split.
  - intros x _. pose proof (exp_pos x).
    assert (P : 0 < softplus_fwd ROps x).
    { unfold softplus_fwd; ru. rewrite <- ln_1. apply ln_increasing; lra. }
    split; [exact P|]. rewrite softplus_inv_spec by exact P. unfold softplus_fwd; ru.
    rewrite exp_ln by lra. replace (1 + exp x - 1) with (exp x) by ring. apply ln_exp.
  - intros y Hy. assert (1 < exp y) by (rewrite <- exp_0; apply exp_increasing, Hy).
    split; [exact I|]. split.
    + rewrite softplus_inv_spec by exact Hy. unfold softplus_fwd; ru.
      rewrite exp_ln by lra. replace (1 + (exp y - 1)) with (exp y) by ring. apply ln_exp.
    + unfold softplus_ld_inv, softplus_ld_fwd; ru. ring.
Qed.

Definition tanh_layer : layer R :=
  Layer (tanh_fwd ROps) (tanh_inv ROps) (tanh_ld_fwd ROps) (tanh_ld_inv ROps)
        Rall (fun y => -1 < y < 1).
Lemma tanh_layer_ok : layer_ok tanh_layer.
Proof.
  unfold layer_ok, tanh_layer, tanh_fwd, tanh_inv, tanh_ld_fwd, tanh_ld_inv; ru; cbn. split.
  - intros x _. split; [apply th_bounds | apply ath_th].
  - intros y Hy. repeat split. apply th_ath, Hy.
Qed.

Section LeakyInv.
  Variable m : R.
  Hypothesis m_pos : 0 < m.
  Let g := leaky_grad ROps m.
  Let ic := leaky_icpt ROps m.

  Lemma thm_pos : 0 < th m.
  Proof. rewrite <- th_0. apply th_incr, m_pos. Qed.
  Lemma th_le x y : x <= y -> th x <= th y.
  Proof. intros [H | ->]; [left; apply th_incr, H | lra]. Qed.

  Lemma leaky_inv_hi y : th m <= y -> leaky_inv ROps m g ic y = (y - th m) / dth m + m.
  Proof.
    intros H. pose proof thm_pos. pose proof (dth_pos m).
    unfold leaky_inv, g, ic; ru. rewrite leaky_icpt_spec, leaky_grad_spec.
    rewrite Rabs_right by lra. destruct (Rleb (th m) y) eqn:E; [|apply Rleb_false in E; lra].
    rewrite Rsign_pos by lra. field. lra.
  Qed.
  Lemma leaky_inv_lo y : y <= - th m -> leaky_inv ROps m g ic y = (y + th m) / dth m - m.
  Proof.
    intros H. pose proof thm_pos. pose proof (dth_pos m).
    unfold leaky_inv, g, ic; ru. rewrite leaky_icpt_spec, leaky_grad_spec.
    rewrite Rabs_left by lra. destruct (Rleb (th m) (- y)) eqn:E; [|apply Rleb_false in E; lra].
    rewrite Rsign_neg by lra. field. lra.
  Qed.
  Lemma leaky_inv_mid y : - th m < y < th m -> leaky_inv ROps m g ic y = ath y.
  Proof.
    intros H. unfold leaky_inv; ru.
    destruct (Rleb (th m) (Rabs y)) eqn:E; [|reflexivity]. apply Rleb_true in E.
    unfold Rabs in E. destruct (Rcase_abs y); lra.
  Qed.
  Lemma ath_mid y : - th m < y < th m -> - m < ath y < m.
  Proof.
    intros H. pose proof (th_bounds m).
    assert (Hy : th (ath y) = y) by (apply th_ath; lra).
    split.
    - destruct (Rlt_dec (- m) (ath y)) as [K|K]; [exact K|exfalso].
      assert (th (ath y) <= th (- m)) by (apply th_le; lra). rewrite th_odd in *. lra.
    - destruct (Rlt_dec (ath y) m) as [K|K]; [exact K|exfalso].
      assert (th m <= th (ath y)) by (apply th_le; lra). lra.
  Qed.
  Lemma quot_nonneg a b : 0 <= a -> 0 < b -> 0 <= a / b.
  Proof. intros Ha Hb. apply Rmult_le_pos; [exact Ha | left; apply Rinv_0_lt_compat, Hb]. Qed.

  (* the inverse's branch test (on y) selects the same branch as the forward's (on x = inverse y) *)
  Lemma leaky_branch_agree y :
    Rleb (th m) (Rabs y) = Rleb m (Rabs (leaky_inv ROps m g ic y)).
  Proof.
    pose proof thm_pos as Ht. pose proof (dth_pos m) as Hg.
    destruct (Rleb (th m) (Rabs y)) eqn:E; symmetry.
    - apply Rleb_true in E. apply Rleb_true. unfold Rabs in E. destruct (Rcase_abs y) as [Hy|Hy].
      + rewrite leaky_inv_lo by lra.
        assert (0 <= (- (y + th m)) / dth m) by (apply quot_nonneg; lra).
        rewrite Rabs_left1; [|unfold Rdiv in *; lra]. unfold Rdiv in *. lra.
      + rewrite leaky_inv_hi by lra.
        assert (0 <= (y - th m) / dth m) by (apply quot_nonneg; lra).
        rewrite Rabs_right; lra.
    - apply Rleb_false in E. apply Rleb_false.
      assert (Hy : - th m < y < th m) by (unfold Rabs in E; destruct (Rcase_abs y); lra).
      rewrite leaky_inv_mid by exact Hy. pose proof (ath_mid y Hy).
      unfold Rabs. destruct (Rcase_abs (ath y)); lra.
  Qed.

  Theorem leaky_ld_inverse_law y :
    leaky_ld_inv ROps m g ic y = - leaky_ld_fwd ROps m g (leaky_inv ROps m g ic y).
  Proof. unfold leaky_ld_inv, leaky_ld_fwd; ru. cbv zeta. now rewrite <- leaky_branch_agree. Qed.

  Lemma leaky_fwd_inv y : leaky_fwd ROps m g ic (leaky_inv ROps m g ic y) = y.
  Proof.
    pose proof thm_pos as Ht. pose proof (dth_pos m) as Hg. pose proof (th_bounds m) as Hb.
    destruct (Rle_dec (th m) y) as [H1|H1].
    - rewrite leaky_inv_hi by exact H1.
      assert (0 <= (y - th m) / dth m) by (apply quot_nonneg; lra).
      unfold g, ic. rewrite leaky_fwd_hi by lra. field. lra.
    - destruct (Rle_dec y (- th m)) as [H2|H2].
      + rewrite leaky_inv_lo by exact H2.
        assert (0 <= (- (y + th m)) / dth m) by (apply quot_nonneg; lra).
        unfold g, ic. rewrite leaky_fwd_lo by (unfold Rdiv in *; lra). field. lra.
      + rewrite leaky_inv_mid by lra. pose proof (ath_mid y ltac:(lra)).
        unfold g, ic. rewrite leaky_fwd_mid by lra. apply th_ath. lra.
  Qed.
  Lemma leaky_inv_fwd x : leaky_inv ROps m g ic (leaky_fwd ROps m g ic x) = x.
  Proof.
    pose proof thm_pos as Ht. pose proof (dth_pos m) as Hg.
    unfold g, ic. destruct (Rle_dec m x) as [H1|H1].
    - rewrite leaky_fwd_hi by lra. fold g ic. rewrite leaky_inv_hi by nra. field. lra.
    - destruct (Rle_dec x (- m)) as [H2|H2].
      + rewrite leaky_fwd_lo by lra. fold g ic. rewrite leaky_inv_lo by nra. field. lra.
      + rewrite leaky_fwd_mid by lra. fold g ic.
        assert (- th m < th x < th m).
        { split; [rewrite <- th_odd|]; apply th_incr; lra. }
        rewrite leaky_inv_mid by lra. apply ath_th.
  Qed.

  Definition leaky_layer : layer R :=
    Layer (leaky_fwd ROps m g ic) (leaky_inv ROps m g ic) (leaky_ld_fwd ROps m g) (leaky_ld_inv ROps m g ic)
          Rall Rall.
  Lemma leaky_layer_ok : layer_ok leaky_layer.
  Proof.
    unfold layer_ok, leaky_layer; cbn [l_fwd l_inv l_ldf l_ldi l_dom l_cod]. split.
    - intros x _. split; [exact I | apply leaky_inv_fwd].
    - intros y _. split; [exact I|]. split; [apply leaky_fwd_inv | apply leaky_ld_inverse_law].
  Qed.
End LeakyInv.

(* every scalar leaf reports ln|derivative| on its whole domain *)
Lemma affine_layer_ldj loc scale : scale <> 0 -> layer_ldj (affine_layer loc scale).
Proof. intros H x _. apply affine_ldj, H. Qed.
Lemma loc_layer_ldj loc : layer_ldj (loc_layer loc).
Proof. intros x _. apply loc_ldj. Qed.
Lemma scale_layer_ldj scale : scale <> 0 -> layer_ldj (scale_layer scale).
Proof. intros H x _. apply scale_ldj, H. Qed.
Lemma exp_layer_ldj : layer_ldj exp_layer.
Proof. intros x _. apply exp_ldj. Qed.
Lemma softplus_layer_ldj : layer_ldj softplus_layer.
Proof. intros x _. apply softplus_ldj. Qed.
Lemma tanh_layer_ldj : layer_ldj tanh_layer.
Proof. intros x _. apply tanh_ldj. Qed.
Lemma leaky_layer_ldj m : 0 < m -> layer_ldj (leaky_layer m).
Proof. intros H x _. apply leaky_ldj, H. Qed.

(* ------------------------------------------------------------------------------------ *)
(* Invert at rank 0: the log-det Invert reports in its forward direction (the inner inverse
   log-det = minus the inner forward one at g y) is ln |g'(y)| for the inverse map g.
   _partial: differentiability of the inverse at y (the inverse function theorem) is a hypothesis. *)
Lemma inverse_is_ldj_partial (f g : R -> R) (y lf e eps : R) :
  is_ldj f (g y) lf -> 0 < eps -> (forall t, y - eps < t < y + eps -> f (g t) = t) ->
  is_derive g y e -> is_ldj g y (- lf).
Proof.
  intros [d [D [N L]]] He Hfg Dg.
  assert (C1 : is_derive (fun t => f (g t)) y (e * d)) by (apply (is_derive_comp f g y d e D Dg)).
  assert (C2 : is_derive (fun t => f (g t)) y 1).
  { apply (is_derive_loc _ (fun t => t) y 1 eps He Hfg). auto_derive; [exact I | ring]. }
  assert (E : e * d = 1).
  { apply is_derive_unique in C1. apply is_derive_unique in C2. rewrite <- C1, <- C2. reflexivity. }
  assert (Ne : e <> 0) by (intros ->; lra).
  exists e. split; [exact Dg | split; [exact Ne|]].
  assert (E2 : Rabs e * Rabs d = 1) by (rewrite <- Rabs_mult, E; apply Rabs_R1).
  assert (Pd : 0 < Rabs d) by (apply Rabs_pos_lt, N).
  replace (Rabs e) with (/ Rabs d) by (apply Rmult_eq_reg_r with (Rabs d); [rewrite E2; field|]; lra).
  rewrite ln_Rinv by exact Pd. rewrite L. reflexivity.
Qed.

(* Invert of a rank-0 layer reports ln |derivative| in its own forward direction, provided the
   inner layer does, its codomain is open and its inverse map is differentiable there *)
Definition open_set (S : R -> Prop) : Prop :=
  forall y, S y -> exists eps, 0 < eps /\ forall t, y - eps < t < y + eps -> S t.
Lemma invert_layer_ldj (l : layer R) :
  layer_ok l -> layer_ldj l -> open_set (l_cod l) ->
  (forall y, l_cod l y -> exists e, is_derive (l_inv l) y e) ->
  layer_ldj (invert_layer l).
Proof.
  intros [Ok1 Ok2] Hl Hopen Hd y Hy. cbn [invert_layer l_fwd l_ldf l_dom] in *.
  destruct (Ok2 y Hy) as [Hdom [_ Hld]]. rewrite Hld.
  destruct (Hopen y Hy) as [eps [He Hin]]. destruct (Hd y Hy) as [e De].
  apply (inverse_is_ldj_partial (l_fwd l) (l_inv l) y _ e eps); [apply Hl, Hdom | exact He | | exact De].
  intros t Ht. apply Ok2, Hin, Ht.
Qed.

Lemma open_Rall : open_set Rall.
Proof. intros y _. exists 1. split; [lra | intros; exact I]. Qed.
Lemma open_pos : open_set (fun y => 0 < y).
Proof. intros y Hy. exists y. split; [exact Hy | intros t Ht; lra]. Qed.
Lemma open_unit : open_set (fun y => -1 < y < 1).
Proof.
  intros y Hy. exists (Rmin (y + 1) (1 - y)). split; [apply Rmin_pos; lra|].
  intros t Ht. pose proof (Rmin_l (y + 1) (1 - y)). pose proof (Rmin_r (y + 1) (1 - y)). lra.
Qed.

Lemma ath_deriv y : -1 < y < 1 -> is_derive ath y (/ (1 - y * y)).
Proof.
  intros Hy. unfold ath. auto_derive.
  - split; [lra|]. split; [|exact I]. apply Rmult_lt_0_compat; [lra | apply Rinv_0_lt_compat; lra].
  - field. repeat split; nra.
Qed.

Lemma affine_inv_layer_ldj loc scale : scale <> 0 -> layer_ldj (invert_layer (affine_layer loc scale)).
Proof.
  intros Hs. apply invert_layer_ldj; [apply affine_layer_ok, Hs | apply affine_layer_ldj, Hs | apply open_Rall |].
  intros y _. exists (/ scale). cbn [affine_layer l_inv]. unfold affine_inv; ru. auto_derive; [first [exact I | exact Hs] | field; exact Hs].
Qed.
Lemma scale_inv_layer_ldj scale : scale <> 0 -> layer_ldj (invert_layer (scale_layer scale)).
Proof.
  intros Hs. apply invert_layer_ldj; [apply scale_layer_ok, Hs | apply scale_layer_ldj, Hs | apply open_Rall |].
  intros y _. exists (/ scale). cbn [scale_layer l_inv]. unfold scale_inv; ru. auto_derive; [first [exact I | exact Hs] | field; exact Hs].
Qed.
Lemma loc_inv_layer_ldj loc : layer_ldj (invert_layer (loc_layer loc)).
Proof.
  apply invert_layer_ldj; [apply loc_layer_ok | apply loc_layer_ldj | apply open_Rall |].
  intros y _. exists 1. cbn [loc_layer l_inv]. unfold loc_inv; ru. auto_derive; [exact I | ring].
Qed.
Lemma exp_inv_layer_ldj : layer_ldj (invert_layer exp_layer).
Proof.
  apply invert_layer_ldj; [apply exp_layer_ok | apply exp_layer_ldj | apply open_pos |].
  intros y Hy. cbn [exp_layer l_cod l_inv] in *. exists (/ y). unfold exp_inv; ru. auto_derive; [exact Hy | field; lra].
Qed.
Lemma softplus_inv_layer_ldj : layer_ldj (invert_layer softplus_layer).
Proof.
  apply invert_layer_ldj; [apply softplus_layer_ok | apply softplus_layer_ldj | apply open_pos |].
  intros y Hy. cbn [softplus_layer l_cod l_inv] in *.
  assert (H1 : exp (- y) < 1) by (rewrite <- exp_0; apply exp_increasing; lra).
  eexists. unfold softplus_inv; ru. auto_derive; [lra | reflexivity].
Qed.
Lemma tanh_inv_layer_ldj : layer_ldj (invert_layer tanh_layer).
Proof.
  apply invert_layer_ldj; [apply tanh_layer_ok | apply tanh_layer_ldj | apply open_unit |].
  intros y Hy. cbn [tanh_layer l_cod l_inv] in *. exists (/ (1 - y * y)). apply ath_deriv, Hy.
Qed.

Section LeakyInvDeriv.
  Variable m : R.
  Hypothesis m_pos : 0 < m.
  Let g := leaky_grad ROps m.
  Let ic := leaky_icpt ROps m.
  Let finv := leaky_inv ROps m g ic.

  Lemma lin_deriv_div a b c x : c <> 0 -> is_derive (fun y => (y + a) / c + b) x (/ c).
  Proof. intros Hc. auto_derive; [first [exact I | exact Hc] | field; exact Hc]. Qed.

  (* LeakyTanh.inverse is differentiable at every real y, +-tanh(max_val) included *)
  Lemma leaky_inv_deriv y : exists e, is_derive finv y e.
  Proof.
    pose proof (thm_pos m m_pos) as Ht. pose proof (dth_pos m) as Hg. pose proof (th_bounds m) as Hb.
    assert (Hgn : dth m <> 0) by lra.
    assert (Eath : / (1 - th m * th m) = / dth m) by reflexivity.
    destruct (Rlt_dec (th m) y) as [H1|H1].
    { exists (/ dth m). apply (is_derive_loc finv (fun t => (t + - th m) / dth m + m) y _ (y - th m)); [lra| |apply lin_deriv_div, Hgn].
      intros t Hq. unfold finv, g, ic. rewrite leaky_inv_hi by (try exact m_pos; lra). reflexivity. }
    destruct (Rlt_dec y (- th m)) as [H2|H2].
    { exists (/ dth m). apply (is_derive_loc finv (fun t => (t + th m) / dth m + - m) y _ (- th m - y)); [lra| |apply lin_deriv_div, Hgn].
      intros t Hq. unfold finv, g, ic. rewrite leaky_inv_lo by (try exact m_pos; lra). reflexivity. }
    destruct (Req_dec y (th m)) as [->|N1].
    { exists (/ dth m).
      apply (is_derive_glue_loc finv ath (fun t => (t + - th m) / dth m + m) (th m) _ (th m) Ht).
      - intros t Hq. destruct (Req_dec t (th m)) as [->|Nt].
        + unfold finv, g, ic. rewrite leaky_inv_hi by (try exact m_pos; lra). rewrite ath_th. field. exact Hgn.
        + unfold finv, g, ic. apply leaky_inv_mid; first [exact m_pos | lra].
      - intros t Hq. unfold finv, g, ic. rewrite leaky_inv_hi by (try exact m_pos; lra). reflexivity.
      - rewrite <- Eath. apply ath_deriv. lra.
      - apply lin_deriv_div, Hgn. }
    destruct (Req_dec y (- th m)) as [->|N2].
    { exists (/ dth m).
      apply (is_derive_glue_loc finv (fun t => (t + th m) / dth m + - m) ath (- th m) _ (th m) Ht).
      - intros t Hq. unfold finv, g, ic. rewrite leaky_inv_lo by (try exact m_pos; lra). reflexivity.
      - intros t Hq. destruct (Req_dec t (- th m)) as [->|Nt].
        + unfold finv, g, ic. rewrite leaky_inv_lo by (try exact m_pos; lra).
          assert (Ea : ath (- th m) = - m) by (rewrite <- th_odd; apply ath_th).
          rewrite Ea. field. exact Hgn.
        + unfold finv, g, ic. apply leaky_inv_mid; first [exact m_pos | lra].
      - apply lin_deriv_div, Hgn.
      - replace (/ dth m) with (/ (1 - - th m * - th m)) by (unfold dth; f_equal; ring). apply ath_deriv. lra. }
    assert (Hy : - th m < y < th m) by lra.
    exists (/ (1 - y * y)).
    apply (is_derive_loc finv ath y _ (Rmin (th m - y) (y + th m))); [apply Rmin_pos; lra| |apply ath_deriv; lra].
    intros t Hq. pose proof (Rmin_l (th m - y) (y + th m)). pose proof (Rmin_r (th m - y) (y + th m)).
    unfold finv, g, ic. apply leaky_inv_mid; first [exact m_pos | lra].
  Qed.

  Lemma leaky_inv_layer_ldj : layer_ldj (invert_layer (leaky_layer m)).
  Proof.
    apply invert_layer_ldj; [apply leaky_layer_ok, m_pos | apply leaky_layer_ldj, m_pos | apply open_Rall |].
    intros y _. apply leaky_inv_deriv.
  Qed.
End LeakyInvDeriv.
