(* C01 -- inverse laws of the elementary bijections of Model/Leaves.v at the reals ([ROps]),
   of the elementwise lifts, and the generic combinator lemmas (Chain / Invert / Concatenate).
   The spline is in RqsInvP.v, the coupling / masked-autoregressive wiring in AutoregInvP.v.
   Every statement carries its domain guard explicitly (scale <> 0, 0 < y, |y| < 1 ...):
   nothing here is true because x / 0 = 0 or ln of a non-positive number is 0 in Coq. *)
From Coq Require Import Reals List ZArith Bool Lra Lia Psatz.
From FJ Require Import Model.Num Model.Leaves Proofs.RNum.
Import ListNotations.
Open Scope R_scope.

(* ------------------------------------------------------------------------------------ *)
(* unfolding the model at ROps; turning boolean tests into propositions                    *)
(* ------------------------------------------------------------------------------------ *)
Ltac rops := cbn [n_add n_sub n_mul n_div n_neg n_abs n_sign n_exp n_log n_tanh n_atanh n_softplus
                  n_log1p n_expm1 n_sqrt n_leb n_ltb n_eqb n_ofZ ROps ROpsG] in *.

Lemma Rleb_case a b : (Rleb a b = true /\ a <= b) \/ (Rleb a b = false /\ b < a).
Proof. destruct (Rle_dec a b) as [H|H]; [left|right]; (split; [|lra]);
  [apply Rleb_true | apply Rleb_false]; lra. Qed.
Lemma Rltb_case a b : (Rltb a b = true /\ a < b) \/ (Rltb a b = false /\ b <= a).
Proof. destruct (Rlt_dec a b) as [H|H]; [left|right]; (split; [|lra]);
  [apply Rltb_true | apply Rltb_false]; lra. Qed.
Lemma Rleb_t a b : a <= b -> Rleb a b = true. Proof. apply Rleb_true. Qed.
Lemma Rleb_f a b : b < a -> Rleb a b = false. Proof. apply Rleb_false. Qed.
Lemma Rltb_t a b : a < b -> Rltb a b = true. Proof. apply Rltb_true. Qed.
Lemma Rltb_f a b : b <= a -> Rltb a b = false. Proof. apply Rltb_false. Qed.

Lemma Rsign_pos x : 0 < x -> Rsign x = 1.
Proof. intros H. unfold Rsign. destruct (Rlt_dec 0 x); lra. Qed.
Lemma Rsign_neg x : x < 0 -> Rsign x = -1.
Proof. intros H. unfold Rsign. destruct (Rlt_dec 0 x); [lra|]. destruct (Rlt_dec x 0); lra. Qed.
Lemma Rabs_ge_cases x m : m <= Rabs x -> 0 < m -> (x <= - m) \/ (m <= x).
Proof. intros H Hm. unfold Rabs in H. destruct (Rcase_abs x); [left|right]; lra. Qed.
Lemma Rabs_lt_cases x m : Rabs x < m -> - m < x < m.
Proof. intros H. unfold Rabs in H. destruct (Rcase_abs x); lra. Qed.
Lemma Rabs_lt_intro x m : - m < x < m -> Rabs x < m.
Proof. intros H. unfold Rabs. destruct (Rcase_abs x); lra. Qed.
Lemma Rabs_ge_intro x m : (x <= - m) \/ (m <= x) -> m <= Rabs x.
Proof. intros H. unfold Rabs. destruct (Rcase_abs x); lra. Qed.

(* ------------------------------------------------------------------------------------ *)
(* Affine / Loc / Scale                                                                   *)
(* ------------------------------------------------------------------------------------ *)
Lemma affine_inv_fwd loc scale x : scale <> 0 ->
  affine_inv ROps loc scale (affine_fwd ROps loc scale x) = x.
Proof. intros H. unfold affine_inv, affine_fwd. rops. field. exact H. Qed.
Lemma affine_fwd_inv loc scale y : scale <> 0 ->
  affine_fwd ROps loc scale (affine_inv ROps loc scale y) = y.
Proof. intros H. unfold affine_inv, affine_fwd. rops. field. exact H. Qed.
Lemma loc_inv_fwd loc x : loc_inv ROps loc (loc_fwd ROps loc x) = x.
Proof. unfold loc_inv, loc_fwd. rops. ring. Qed.
Lemma loc_fwd_inv loc y : loc_fwd ROps loc (loc_inv ROps loc y) = y.
Proof. unfold loc_inv, loc_fwd. rops. ring. Qed.
Lemma scale_inv_fwd scale x : scale <> 0 -> scale_inv ROps scale (scale_fwd ROps scale x) = x.
Proof. intros H. unfold scale_inv, scale_fwd. rops. field. exact H. Qed.
Lemma scale_fwd_inv scale y : scale <> 0 -> scale_fwd ROps scale (scale_inv ROps scale y) = y.
Proof. intros H. unfold scale_inv, scale_fwd. rops. field. exact H. Qed.

(* ------------------------------------------------------------------------------------ *)
(* Exp                                                                                    *)
(* ------------------------------------------------------------------------------------ *)
Lemma exp_fwd_pos x : 0 < exp_fwd ROps x.
Proof. unfold exp_fwd. rops. apply exp_pos. Qed.
Lemma exp_inv_fwd x : exp_inv ROps (exp_fwd ROps x) = x.
Proof. unfold exp_inv, exp_fwd. rops. apply ln_exp. Qed.
Lemma exp_fwd_inv y : 0 < y -> exp_fwd ROps (exp_inv ROps y) = y.
Proof. intros H. unfold exp_inv, exp_fwd. rops. apply exp_ln, H. Qed.

(* ------------------------------------------------------------------------------------ *)
(* SoftPlus : inverse as coded, ln (- expm1 (- y)) + y                                    *)
(* ------------------------------------------------------------------------------------ *)
Lemma softplus_fwd_pos x : 0 < softplus_fwd ROps x.
Proof.
  unfold softplus_fwd. rops. pose proof (exp_pos x) as H.
  rewrite <- ln_1. apply ln_increasing; lra.
Qed.
Lemma softplus_inv_fwd x : softplus_inv ROps (softplus_fwd ROps x) = x.
Proof.
  unfold softplus_inv, softplus_fwd. rops. pose proof (exp_pos x) as H.
  rewrite exp_Ropp, exp_ln by lra.
  replace (- (/ (1 + exp x) - 1)) with (exp x / (1 + exp x)) by (field; lra).
  unfold Rdiv. rewrite ln_mult; [| lra | apply Rinv_0_lt_compat; lra].
  rewrite ln_Rinv by lra. rewrite ln_exp. ring.
Qed.
(* the argument of ln in the coded inverse is positive exactly on the codomain y > 0 *)
Lemma softplus_inv_arg_pos y : 0 < y -> 0 < - (exp (- y) - 1).
Proof. intros H. assert (exp (- y) < 1) by (rewrite <- exp_0; apply exp_increasing; lra). lra. Qed.
Lemma softplus_fwd_inv y : 0 < y -> softplus_fwd ROps (softplus_inv ROps y) = y.
Proof.
  intros Hy. unfold softplus_inv, softplus_fwd. rops.
  pose proof (softplus_inv_arg_pos y Hy) as Ha.
  rewrite exp_plus, exp_ln by exact Ha.
  replace (1 + - (exp (- y) - 1) * exp y) with (exp y).
  - apply ln_exp.
  - assert (E : exp (- y) * exp y = 1) by (rewrite <- exp_plus; replace (- y + y) with 0 by ring; apply exp_0).
    nra.
Qed.

(* ------------------------------------------------------------------------------------ *)
(* Tanh : th / ath of RNum.v (th is the library's tanh, th_is_tanh)                       *)
(* ------------------------------------------------------------------------------------ *)
Lemma th_is_tanh x : th x = tanh x.
Proof.
  unfold th, tanh, sinh, cosh.
  replace (exp (2*x)) with (exp x * exp x) by (rewrite <- exp_plus; f_equal; ring).
  rewrite exp_Ropp. pose proof (exp_pos x) as H.
  field. split; nra.
Qed.
Lemma th_incr x y : x < y -> th x < th y.
Proof.
  intros H. unfold th.
  assert (exp (2*x) < exp (2*y)) by (apply exp_increasing; lra).
  pose proof (exp_pos (2*x)). pose proof (exp_pos (2*y)).
  apply Rplus_lt_compat_l, Ropp_lt_contravar.
  unfold Rdiv. apply Rmult_lt_compat_l; [lra|].
  apply Rinv_lt_contravar; [nra | lra].
Qed.
Lemma th_incr_le x y : x <= y -> th x <= th y.
Proof. intros [H|H]; [left; apply th_incr, H | subst; lra]. Qed.
Lemma th_bounds x : -1 < th x < 1.
Proof.
  unfold th. pose proof (exp_pos (2*x)) as H.
  assert (0 < 2 / (exp (2*x) + 1) < 2).
  { split. apply Rdiv_lt_0_compat; lra.
    apply Rmult_lt_reg_r with (exp (2*x) + 1); [lra|]. field_simplify; lra. }
  lra.
Qed.
Lemma th_0 : th 0 = 0.
Proof. unfold th. rewrite Rmult_0_r, exp_0. lra. Qed.
Lemma th_odd x : th (-x) = - th x.
Proof. unfold th. replace (2 * - x) with (- (2*x)) by ring. rewrite exp_Ropp.
  pose proof (exp_pos (2*x)). field. split; lra. Qed.
Lemma ath_th x : ath (th x) = x.
Proof.
  unfold ath, th. pose proof (exp_pos (2*x)) as H.
  replace ((1 + (1 - 2 / (exp (2*x) + 1))) / (1 - (1 - 2 / (exp (2*x) + 1)))) with (exp (2*x)).
  - rewrite ln_exp. field.
  - field. lra.
Qed.
Lemma th_ath y : -1 < y < 1 -> th (ath y) = y.
Proof.
  intros Hy. unfold ath, th.
  replace (2 * (/ 2 * ln ((1 + y) / (1 - y)))) with (ln ((1 + y) / (1 - y))) by field.
  rewrite exp_ln. field. lra. apply Rdiv_lt_0_compat; lra.
Qed.

Lemma tanh_fwd_range x : -1 < tanh_fwd ROps x < 1.
Proof. unfold tanh_fwd. rops. apply th_bounds. Qed.
Lemma tanh_inv_fwd x : tanh_inv ROps (tanh_fwd ROps x) = x.
Proof. unfold tanh_inv, tanh_fwd. rops. apply ath_th. Qed.
Lemma tanh_fwd_inv y : -1 < y < 1 -> tanh_fwd ROps (tanh_inv ROps y) = y.
Proof. intros H. unfold tanh_inv, tanh_fwd. rops. apply th_ath, H. Qed.

(* ------------------------------------------------------------------------------------ *)
(* LeakyTanh                                                                              *)
(* ------------------------------------------------------------------------------------ *)
Lemma leaky_grad_pos m : 0 < leaky_grad ROps m.
Proof. unfold leaky_grad. rops. apply exp_pos. Qed.
(* linear_grad as computed by the constructor IS the slope of tanh at max_val *)
Lemma leaky_grad_is_slope m : leaky_grad ROps m = 1 - th m * th m.
Proof.
  unfold leaky_grad, tanh_log_grad, th, Num.c. rops.
  pose proof (exp_pos (2 * m)) as Hp. pose proof (exp_pos (-2 * m)) as Hn.
  assert (E : exp (-2 * m) * exp (2 * m) = 1).
  { rewrite <- exp_plus. replace (-2 * m + 2 * m) with 0 by ring. apply exp_0. }
  replace (-2 * (m + ln (1 + exp (-2 * m)) - ln 2))
    with (-2 * m + (ln (2 * 2) + - ln ((1 + exp (-2 * m)) * (1 + exp (-2 * m))))).
  2:{ rewrite !ln_mult by lra. ring. }
  rewrite !exp_plus, exp_Ropp, !exp_ln by nra.
  assert (Hm : exp (-2 * m) = / exp (2 * m)).
  { apply Rmult_eq_reg_r with (exp (2 * m)); [|lra]. rewrite E. field. lra. }
  rewrite Hm. field. split; lra.
Qed.

Section Leaky.
  (* The round-trip laws need only: max_val > 0, linear_grad > 0 and the constructor's relation
     intercept = tanh max_val - linear_grad * max_val (value continuity at +-max_val). *)
  Variables m g ic : R.
  Hypothesis m_pos : 0 < m.
  Hypothesis g_pos : 0 < g.
  Hypothesis ic_def : ic = th m - g * m.

  Lemma thm_pos : 0 < th m.
  Proof. rewrite <- th_0. apply th_incr, m_pos. Qed.

  Lemma leaky_inv_fwd_gen x : leaky_inv ROps m g ic (leaky_fwd ROps m g ic x) = x.
  Proof.
    pose proof thm_pos as Ht.
    unfold leaky_fwd, geb, where_. rops.
    destruct (Rleb_case m (Rabs x)) as [[E Hl]|[E Hl]]; rewrite E.
    - (* linear branch forward; it is the linear branch backward *)
      destruct (Rabs_ge_cases x m Hl m_pos) as [Hx|Hx].
      + rewrite (Rsign_neg x) by lra. set (y := g * x + -1 * ic).
        assert (Hy : y <= - th m) by (unfold y; subst ic; nra).
        unfold leaky_inv, geb, where_. rops.
        rewrite (Rleb_t (th m) (Rabs y)) by (apply Rabs_ge_intro; lra).
        rewrite (Rsign_neg y) by lra. unfold y. field. lra.
      + rewrite (Rsign_pos x) by lra. set (y := g * x + 1 * ic).
        assert (Hy : th m <= y) by (unfold y; subst ic; nra).
        unfold leaky_inv, geb, where_. rops.
        rewrite (Rleb_t (th m) (Rabs y)) by (apply Rabs_ge_intro; lra).
        rewrite (Rsign_pos y) by lra. unfold y. field. lra.
    - (* tanh branch: |x| < m hence |th x| < th m *)
      apply Rabs_lt_cases in Hl.
      assert (Hb : - th m < th x < th m).
      { split; [rewrite <- th_odd|]; apply th_incr; lra. }
      unfold leaky_inv, geb, where_. rops.
      rewrite (Rleb_f (th m) (Rabs (th x))) by (apply Rabs_lt_intro; lra).
      apply ath_th.
  Qed.

  Lemma leaky_fwd_inv_gen y : leaky_fwd ROps m g ic (leaky_inv ROps m g ic y) = y.
  Proof.
    pose proof thm_pos as Ht. pose proof (th_bounds m) as Hb.
    unfold leaky_inv, geb, where_. rops.
    destruct (Rleb_case (th m) (Rabs y)) as [[E Hl]|[E Hl]]; rewrite E.
    - destruct (Rabs_ge_cases y (th m) Hl Ht) as [Hy|Hy].
      + rewrite (Rsign_neg y) by lra. set (x := (y - -1 * ic) / g).
        assert (Hx : x = (y + th m) / g - m) by (unfold x; subst ic; field; lra).
        assert (Hq : (y + th m) / g <= 0).
        { unfold Rdiv. replace 0 with (0 * / g) by ring.
          apply Rmult_le_compat_r; [left; apply Rinv_0_lt_compat, g_pos | lra]. }
        unfold leaky_fwd, geb, where_. rops.
        rewrite (Rleb_t m (Rabs x)) by (apply Rabs_ge_intro; lra).
        rewrite (Rsign_neg x) by lra. unfold x. field. lra.
      + rewrite (Rsign_pos y) by lra. set (x := (y - 1 * ic) / g).
        assert (Hx : x = (y - th m) / g + m) by (unfold x; subst ic; field; lra).
        assert (Hq : 0 <= (y - th m) / g).
        { unfold Rdiv. apply Rmult_le_pos; [lra | left; apply Rinv_0_lt_compat, g_pos]. }
        unfold leaky_fwd, geb, where_. rops.
        rewrite (Rleb_t m (Rabs x)) by (apply Rabs_ge_intro; lra).
        rewrite (Rsign_pos x) by lra. unfold x. field. lra.
    - apply Rabs_lt_cases in Hl.
      assert (Hy1 : -1 < y < 1) by lra.
      assert (Hx : - m < ath y < m).
      { split.
        - destruct (Rlt_le_dec (- m) (ath y)) as [H|H]; [exact H|exfalso].
          apply th_incr_le in H. rewrite th_ath, th_odd in H by exact Hy1. lra.
        - destruct (Rlt_le_dec (ath y) m) as [H|H]; [exact H|exfalso].
          apply th_incr_le in H. rewrite th_ath in H by exact Hy1. lra. }
      unfold leaky_fwd, geb, where_. rops.
      rewrite (Rleb_f m (Rabs (ath y))) by (apply Rabs_lt_intro; lra).
      apply th_ath, Hy1.
  Qed.
End Leaky.

(* with the fields as LeakyTanh.__init__ computes them *)
Lemma leaky_inv_fwd m x : 0 < m ->
  leaky_inv ROps m (leaky_grad ROps m) (leaky_icpt ROps m)
    (leaky_fwd ROps m (leaky_grad ROps m) (leaky_icpt ROps m) x) = x.
Proof. intros Hm. apply leaky_inv_fwd_gen; [exact Hm | apply leaky_grad_pos | reflexivity]. Qed.
Lemma leaky_fwd_inv m y : 0 < m ->
  leaky_fwd ROps m (leaky_grad ROps m) (leaky_icpt ROps m)
    (leaky_inv ROps m (leaky_grad ROps m) (leaky_icpt ROps m) y) = y.
Proof. intros Hm. apply leaky_fwd_inv_gen; [exact Hm | apply leaky_grad_pos | reflexivity]. Qed.

(* ------------------------------------------------------------------------------------ *)
(* Abstract inverse laws and the combinators that preserve them                           *)
(* ------------------------------------------------------------------------------------ *)
(* [f] maps [dom] into [cod], [g] maps [cod] into [dom], and they undo each other both ways *)
Record bij_on {A B : Type} (dom : A -> Prop) (cod : B -> Prop) (f : A -> B) (g : B -> A) : Prop := {
  bo_fwd_in : forall x, dom x -> cod (f x);
  bo_inv_in : forall y, cod y -> dom (g y);
  bo_inv_fwd : forall x, dom x -> g (f x) = x;
  bo_fwd_inv : forall y, cod y -> f (g y) = y }.

(* Invert: swapping the two methods preserves the laws *)
Lemma invert_bij {A B} (dom : A -> Prop) (cod : B -> Prop) f g :
  bij_on dom cod f g -> bij_on cod dom g f.
Proof. intros [H1 H2 H3 H4]. split; assumption. Qed.

Lemma compose_bij {A B C} (d : A -> Prop) (m : B -> Prop) (c : C -> Prop) f1 g1 f2 g2 :
  bij_on d m f1 g1 -> bij_on m c f2 g2 -> bij_on d c (fun x => f2 (f1 x)) (fun y => g1 (g2 y)).
Proof.
  intros [A1 A2 A3 A4] [B1 B2 B3 B4]. split; intros v Hv.
  - apply B1, A1, Hv.
  - apply A2, B2, Hv.
  - rewrite B3 by (apply A1, Hv). apply A3, Hv.
  - rewrite A4 by (apply B2, Hv). apply B4, Hv.
Qed.

(* Chain: transform folds the layers left to right, inverse folds the inverses right to left
   (chain.py: `for b in self.bijections` / `for b in reversed(self.bijections)`) *)
Record layer (A : Type) := { l_fwd : A -> A; l_inv : A -> A }.
Arguments l_fwd {A}. Arguments l_inv {A}.
Definition chain_fwd {A} (ls : list (layer A)) (x : A) : A := fold_left (fun a l => l_fwd l a) ls x.
Definition chain_inv {A} (ls : list (layer A)) (y : A) : A := fold_right (fun l a => l_inv l a) y ls.
(* the codomain of each layer is the domain of the next *)
Fixpoint chain_ok {A} (d : A -> Prop) (ls : list (layer A)) (c : A -> Prop) : Prop :=
  match ls with
  | [] => forall x, d x <-> c x
  | l :: r => exists mid, bij_on d mid (l_fwd l) (l_inv l) /\ chain_ok mid r c
  end.

Lemma chain_bij {A} (ls : list (layer A)) : forall d c,
  chain_ok d ls c -> bij_on d c (chain_fwd ls) (chain_inv ls).
Proof.
  induction ls as [|l r IH]; intros d c H; cbn [chain_ok] in H.
  - split; cbn; intros v Hv; try reflexivity; apply H, Hv.
  - destruct H as [mid [Hl Hr]].
    exact (compose_bij d mid c _ _ _ _ Hl (IH mid c Hr)).
Qed.

(* every layer total (domain = codomain = everything): the plain form *)
Lemma chain_inv_fwd_total {A} (ls : list (layer A)) :
  Forall (fun l => forall x, l_inv l (l_fwd l x) = x) ls -> forall x, chain_inv ls (chain_fwd ls x) = x.
Proof.
  induction 1 as [|l r Hl Hr IH]; intros x; [reflexivity|].
  cbn [chain_fwd chain_inv fold_left fold_right].
  change (l_inv l (chain_inv r (chain_fwd r (l_fwd l x))) = x). now rewrite IH, Hl.
Qed.
Lemma chain_fwd_inv_total {A} (ls : list (layer A)) :
  Forall (fun l => forall y, l_fwd l (l_inv l y) = y) ls -> forall y, chain_fwd ls (chain_inv ls y) = y.
Proof.
  induction 1 as [|l r Hl Hr IH]; intros y; [reflexivity|].
  cbn [chain_fwd chain_inv fold_left fold_right].
  change (chain_fwd r (l_fwd l (l_inv l (chain_inv r y))) = y). now rewrite Hl, IH.
Qed.

(* Elementwise application (a scalar bijection with an array shape; Vmap without parameter axes) *)
Lemma lift_bij (d c : R -> Prop) f g :
  bij_on d c f g -> bij_on (Forall d) (Forall c) (lift f) (lift g).
Proof.
  intros [H1 H2 H3 H4]. unfold lift. split.
  - induction 1; cbn; constructor; auto.
  - induction 1; cbn; constructor; auto.
  - induction 1 as [|x l Hx Hl IH]; cbn; [reflexivity|]. now rewrite H3, IH.
  - induction 1 as [|x l Hx Hl IH]; cbn; [reflexivity|]. now rewrite H4, IH.
Qed.
Lemma lift_inv_fwd {A} (f g : A -> A) (xs : list A) :
  Forall (fun x => g (f x) = x) xs -> lift g (lift f xs) = xs.
Proof. unfold lift. induction 1 as [|x l Hx Hl IH]; cbn; [reflexivity|]. now rewrite Hx, IH. Qed.
Lemma lift_length {A} (f : A -> A) xs : length (lift f xs) = length xs.
Proof. apply map_length. Qed.

(* per-element parameters (array-valued loc / scale; Vmap over parameter axis 0) *)
Lemma lift2_length {A} (f : A -> A -> A) ps xs : length ps = length xs -> length (lift2 f ps xs) = length xs.
Proof. intros H. unfold lift2. rewrite map_length, combine_length. lia. Qed.
Lemma lift2_inv_fwd {A} (f g : A -> A -> A) (V D : A -> Prop) :
  (forall p x, V p -> D x -> g p (f p x) = x) ->
  forall ps xs, length ps = length xs -> Forall V ps -> Forall D xs -> lift2 g ps (lift2 f ps xs) = xs.
Proof.
  intros L. unfold lift2. induction ps as [|p ps IH]; intros [|x xs] Hlen HV HD; cbn in *; try discriminate; [reflexivity|].
  inversion HV; inversion HD; subst. rewrite L by assumption. f_equal. apply IH; auto.
Qed.
Lemma lift3_length {A} (f : A -> A -> A -> A) ps qs xs :
  length ps = length xs -> length qs = length xs -> length (lift3 f ps qs xs) = length xs.
Proof. intros H1 H2. unfold lift3. rewrite map_length, !combine_length. lia. Qed.
Lemma lift3_inv_fwd {A} (f g : A -> A -> A -> A) (VP VQ D : A -> Prop) :
  (forall p q x, VP p -> VQ q -> D x -> g p q (f p q x) = x) ->
  forall ps qs xs, length ps = length xs -> length qs = length xs ->
    Forall VP ps -> Forall VQ qs -> Forall D xs -> lift3 g ps qs (lift3 f ps qs xs) = xs.
Proof.
  intros L. unfold lift3. induction ps as [|p ps IH]; intros [|q qs] [|x xs] H1 H2 HP HQ HD; cbn in *; try discriminate; [reflexivity|].
  inversion HP; inversion HQ; inversion HD; subst. rewrite L by assumption. f_equal. apply IH; auto.
Qed.

(* Affine with array-valued loc and scale, any length, negative scales included *)
Lemma affine_vec_inv_fwd locs scales xs :
  length locs = length xs -> length scales = length xs -> Forall (fun s => s <> 0) scales ->
  lift3 (affine_inv ROps) locs scales (lift3 (affine_fwd ROps) locs scales xs) = xs.
Proof.
  intros H1 H2 Hs.
  apply (lift3_inv_fwd _ _ (fun _ => True) (fun s => s <> 0) (fun _ => True)); auto.
  - intros p q x _ Hq _. apply affine_inv_fwd, Hq.
  - apply Forall_forall; auto.
  - apply Forall_forall; auto.
Qed.
Lemma affine_vec_fwd_inv locs scales ys :
  length locs = length ys -> length scales = length ys -> Forall (fun s => s <> 0) scales ->
  lift3 (affine_fwd ROps) locs scales (lift3 (affine_inv ROps) locs scales ys) = ys.
Proof.
  intros H1 H2 Hs.
  apply (lift3_inv_fwd _ _ (fun _ => True) (fun s => s <> 0) (fun _ => True)); auto.
  - intros p q x _ Hq _. apply affine_fwd_inv, Hq.
  - apply Forall_forall; auto.
  - apply Forall_forall; auto.
Qed.

(* Concatenate: part i acts on its own slice of the flat array *)
Record part (A : Type) := { p_n : nat; p_l : layer (list A); p_dom : list A -> Prop; p_cod : list A -> Prop }.
Arguments p_n {A}. Arguments p_l {A}. Arguments p_dom {A}. Arguments p_cod {A}.
Definition part_ok {A} (p : part A) : Prop :=
  bij_on (fun v => length v = p_n p /\ p_dom p v) (fun v => length v = p_n p /\ p_cod p v)
         (l_fwd (p_l p)) (l_inv (p_l p)).
Fixpoint concat_fwd {A} (ps : list (part A)) (x : list A) : list A :=
  match ps with [] => [] | p :: r => l_fwd (p_l p) (firstn (p_n p) x) ++ concat_fwd r (skipn (p_n p) x) end.
Fixpoint concat_inv {A} (ps : list (part A)) (y : list A) : list A :=
  match ps with [] => [] | p :: r => l_inv (p_l p) (firstn (p_n p) y) ++ concat_inv r (skipn (p_n p) y) end.
Fixpoint concat_in {A} (sel : part A -> list A -> Prop) (ps : list (part A)) (x : list A) : Prop :=
  match ps with
  | [] => x = []
  | p :: r => length (firstn (p_n p) x) = p_n p /\ sel p (firstn (p_n p) x) /\ concat_in sel r (skipn (p_n p) x)
  end.

Lemma firstn_app_exact {A} (a b : list A) n : length a = n -> firstn n (a ++ b) = a.
Proof. intros <-. rewrite firstn_app, Nat.sub_diag, firstn_all. cbn. apply app_nil_r. Qed.
Lemma skipn_app_exact {A} (a b : list A) n : length a = n -> skipn n (a ++ b) = b.
Proof. intros <-. rewrite skipn_app, Nat.sub_diag, skipn_all. reflexivity. Qed.

Lemma concat_bij {A} (ps : list (part A)) : Forall part_ok ps ->
  bij_on (concat_in p_dom ps) (concat_in p_cod ps) (concat_fwd ps) (concat_inv ps).
Proof.
  induction 1 as [|p r Hp Hr IH].
  - split; cbn; intros v Hv; auto.
  - destruct Hp as [P1 P2 P3 P4]. destruct IH as [I1 I2 I3 I4].
    split; cbn [concat_in concat_fwd concat_inv]; intros v (Hl & Hd & Hrest).
    + destruct (P1 _ (conj Hl Hd)) as [Hl' Hc].
      rewrite firstn_app_exact, skipn_app_exact by exact Hl'. auto.
    + destruct (P2 _ (conj Hl Hd)) as [Hl' Hc].
      rewrite firstn_app_exact, skipn_app_exact by exact Hl'. auto.
    + destruct (P1 _ (conj Hl Hd)) as [Hl' Hc].
      rewrite firstn_app_exact, skipn_app_exact by exact Hl'.
      rewrite P3, I3 by auto. apply firstn_skipn.
    + destruct (P2 _ (conj Hl Hd)) as [Hl' Hc].
      rewrite firstn_app_exact, skipn_app_exact by exact Hl'.
      rewrite P4, I4 by auto. apply firstn_skipn.
Qed.

(* ------------------------------------------------------------------------------------ *)
(* sums and dot products at the reals                                                     *)
(* ------------------------------------------------------------------------------------ *)
Lemma fold_plus_acc (l : list R) a : fold_left Rplus l a = a + fold_left Rplus l 0.
Proof.
  revert a. induction l as [|x l IH]; intros a; cbn [fold_left]; [ring|].
  rewrite (IH (a + x)), (IH (0 + x)). ring.
Qed.
Lemma sumR_nil : sum ROps [] = 0. Proof. reflexivity. Qed.
Lemma sumR_cons x l : sum ROps (x :: l) = x + sum ROps l.
Proof. unfold sum, Num.c. rops. cbn [fold_left]. rewrite fold_plus_acc. ring. Qed.
Lemma sumR_app l1 l2 : sum ROps (l1 ++ l2) = sum ROps l1 + sum ROps l2.
Proof. induction l1 as [|x l IH]; cbn [app]; [rewrite sumR_nil; ring|]. rewrite !sumR_cons, IH. ring. Qed.
Lemma dotR_nil_l b : dot ROps [] b = 0. Proof. reflexivity. Qed.
Lemma dotR_nil_r a : dot ROps a [] = 0. Proof. destruct a; reflexivity. Qed.
Lemma dotR_cons x a y b : dot ROps (x :: a) (y :: b) = x * y + dot ROps a b.
Proof. unfold dot. cbn [combine map fst snd]. rewrite sumR_cons. reflexivity. Qed.
Lemma dotR_app a1 : forall b1 a2 b2, length a1 = length b1 ->
  dot ROps (a1 ++ a2) (b1 ++ b2) = dot ROps a1 b1 + dot ROps a2 b2.
Proof.
  induction a1 as [|x a IH]; intros [|y b] a2 b2 H; cbn in H; try discriminate.
  - cbn [app]. rewrite dotR_nil_l. ring.
  - cbn [app]. rewrite !dotR_cons, IH by lia. ring.
Qed.
Lemma dotR_comm a : forall b, dot ROps a b = dot ROps b a.
Proof.
  induction a as [|x a IH]; intros [|y b]; try reflexivity.
  rewrite !dotR_cons, IH. ring.
Qed.
Lemma dotR_rev a : forall b, length a = length b -> dot ROps (rev a) (rev b) = dot ROps a b.
Proof.
  induction a as [|x a IH]; intros [|y b] H; cbn in H; try discriminate; [reflexivity|].
  cbn [rev]. rewrite dotR_app by (rewrite !rev_length; lia).
  rewrite IH by lia. rewrite !dotR_cons, dotR_nil_l. ring.
Qed.
Lemma dotR_zero_l a : Forall (fun v => v = 0) a -> forall b, dot ROps a b = 0.
Proof.
  induction 1 as [|x a Hx Ha IH]; intros [|y b]; try reflexivity.
  rewrite dotR_cons, IH, Hx. ring.
Qed.
Lemma firstn_snoc {A} (l : list A) i d : (i < length l)%nat -> firstn (S i) l = firstn i l ++ [nth i l d].
Proof.
  revert i. induction l as [|x l IH]; intros i H; cbn in H; [lia|].
  destruct i as [|i]; [reflexivity|]. cbn [firstn nth app]. f_equal. apply IH. lia.
Qed.
Lemma nth_skipn_add {A} (l : list A) k j d : nth j (skipn k l) d = nth (k + j) l d.
Proof. revert l. induction k as [|k IH]; intros l; [reflexivity|]. destruct l; [now destruct j | apply IH]. Qed.
Lemma split_at {A} (l : list A) i d : (i < length l)%nat -> l = firstn i l ++ nth i l d :: skipn (S i) l.
Proof.
  revert i. induction l as [|x l IH]; intros i H; cbn in H; [lia|].
  destruct i as [|i]; [reflexivity|]. cbn [firstn nth app skipn]. f_equal. apply IH. lia.
Qed.

(* ------------------------------------------------------------------------------------ *)
(* TriangularAffine: forward substitution inverts a triangular matrix with non-zero       *)
(* diagonal, any dimension                                                                *)
(* ------------------------------------------------------------------------------------ *)
Definition square (n : nat) (m : list (list R)) : Prop :=
  length m = n /\ forall i, (i < n)%nat -> length (nth i m []) = n.
Definition lower_tri (n : nat) (m : list (list R)) : Prop :=
  forall i j, (i < j < n)%nat -> nth j (nth i m []) 0 = 0.
Definition upper_tri (n : nat) (m : list (list R)) : Prop :=
  forall i j, (j < i < n)%nat -> nth j (nth i m []) 0 = 0.
Definition diag_nonzero (n : nat) (m : list (list R)) : Prop :=
  forall i, (i < n)%nat -> nth i (nth i m []) 0 <> 0.

Lemma sub_add_loc : forall a loc, length a = length loc ->
  lift2 (fun l v => n_sub ROps v l) loc (lift2 (n_add ROps) a loc) = a.
Proof.
  unfold lift2. rops. induction a as [|x a IH]; intros [|l loc] H; cbn in *; try discriminate; [reflexivity|].
  f_equal; [ring | apply IH; lia].
Qed.
Lemma add_sub_loc : forall a loc, length a = length loc ->
  lift2 (n_add ROps) (lift2 (fun l v => n_sub ROps v l) loc a) loc = a.
Proof.
  unfold lift2. rops. induction a as [|x a IH]; intros [|l loc] H; cbn in *; try discriminate; [reflexivity|].
  f_equal; [ring | apply IH; lia].
Qed.
Lemma matvec_length m x : length (matvec ROps m x) = length m.
Proof. apply map_length. Qed.
Lemma matvec_nth m x k : (k < length m)%nat -> nth k (matvec ROps m x) 0 = dot ROps (nth k m []) x.
Proof.
  intros H. unfold matvec.
  change 0 with ((fun row => dot ROps row x) []). apply map_nth.
Qed.

Section FSub.
  Variables (n : nat) (x : list R).
  Hypothesis x_len : length x = n.
  (* rows i.. of a lower-triangular system whose right-hand side is  rows . x *)
  Lemma fsub_correct : forall rows b i acc,
    length rows = length b -> (i + length rows = n)%nat -> acc = firstn i x ->
    (forall k, (k < length rows)%nat ->
       length (nth k rows []) = n /\ nth (i + k) (nth k rows []) 0 <> 0 /\
       (forall j, (i + k < j < n)%nat -> nth j (nth k rows []) 0 = 0) /\
       nth k b 0 = dot ROps (nth k rows []) x) ->
    fsub ROps rows b i acc = x.
  Proof.
    induction rows as [|row rows IH]; intros [|bi b] i acc Hlen Hin Hacc Hrows; cbn [length] in *; try discriminate.
    - cbn [fsub]. subst acc. replace i with n by lia. rewrite <- x_len. apply firstn_all.
    - cbn [fsub].
      destruct (Hrows O ltac:(lia)) as (Hrl & Hd & Hz & Hb). cbn [nth] in Hrl, Hd, Hz, Hb.
      rewrite Nat.add_0_r in Hd.
      assert (Hi : (i < n)%nat) by lia.
      assert (Hxi : n_div ROps (n_sub ROps bi (dot ROps (firstn i row) acc)) (nth i row (c ROps 0)) = nth i x 0).
      { unfold Num.c. rops. rewrite Hb, Hacc.
        rewrite (split_at row i 0) at 1 by lia. rewrite (split_at x i 0) at 1 by lia.
        rewrite dotR_app by (rewrite !firstn_length; lia).
        rewrite dotR_cons.
        rewrite (dotR_zero_l (skipn (S i) row)).
        - field. exact Hd.
        - apply Forall_forall. intros v Hv. apply (In_nth _ _ 0) in Hv. destruct Hv as [j [Hj Hv]].
          rewrite skipn_length in Hj. rewrite nth_skipn_add in Hv. rewrite <- Hv. apply Hz. lia. }
      rewrite Hxi. apply IH.
      + lia.
      + lia.
      + subst acc. symmetry. apply firstn_snoc. lia.
      + intros k Hk. destruct (Hrows (S k) ltac:(lia)) as (A1 & A2 & A3 & A4). cbn [nth] in A1, A2, A3, A4.
        replace (i + S k)%nat with (S i + k)%nat in * by lia. auto.
  Qed.
End FSub.

Lemma tri_solve_lower_matvec n m x : square n m -> length x = n -> lower_tri n m -> diag_nonzero n m ->
  tri_solve_lower ROps m (matvec ROps m x) = x.
Proof.
  intros [Hm Hr] Hx Hl Hd. unfold tri_solve_lower.
  apply (fsub_correct n x Hx); [now rewrite matvec_length | cbn; lia | reflexivity |].
  intros k Hk. rewrite Hm in Hk. cbn [Nat.add]. repeat split.
  - apply Hr, Hk.
  - apply Hd, Hk.
  - intros j Hj. apply Hl. lia.
  - apply matvec_nth. lia.
Qed.

Lemma rev_rows_nth n m i : square n m -> (i < n)%nat ->
  nth i (rev (map (@rev R) m)) [] = rev (nth (n - S i) m []).
Proof.
  intros [Hm Hr] Hi. rewrite rev_nth by (rewrite map_length; lia). rewrite map_length, Hm.
  change (@nil R) with (rev (@nil R)) at 1. apply map_nth.
Qed.
Lemma matvec_rev n m x : square n m -> length x = n ->
  matvec ROps (rev (map (@rev R) m)) (rev x) = rev (matvec ROps m x).
Proof.
  intros [Hm Hr] Hx. unfold matvec. rewrite map_rev, map_map. f_equal.
  apply map_ext_in. intros row Hin. apply dotR_rev.
  apply (In_nth _ _ []) in Hin. destruct Hin as [i [Hi <-]]. rewrite Hr by lia. lia.
Qed.

Lemma tri_solve_upper_matvec n m x : square n m -> length x = n -> upper_tri n m -> diag_nonzero n m ->
  tri_solve_upper ROps m (matvec ROps m x) = x.
Proof.
  intros Hsq Hx Hu Hd. unfold tri_solve_upper.
  rewrite <- (matvec_rev n m x Hsq Hx).
  destruct Hsq as [Hm Hr].
  rewrite (tri_solve_lower_matvec n); [apply rev_involutive | | now rewrite rev_length | |].
  - split; [now rewrite rev_length, map_length|].
    intros i Hi. rewrite (rev_rows_nth n m i (conj Hm Hr) Hi), rev_length. apply Hr. lia.
  - intros i j Hij. rewrite (rev_rows_nth n m i (conj Hm Hr)) by lia.
    rewrite rev_nth by (rewrite Hr; lia). rewrite Hr by lia. apply Hu. lia.
  - intros i Hi. rewrite (rev_rows_nth n m i (conj Hm Hr) Hi).
    rewrite rev_nth by (rewrite Hr; lia). rewrite Hr by lia. apply Hd. lia.
Qed.

Theorem tri_inv_fwd n (lower : bool) m loc x :
  square n m -> length loc = n -> length x = n ->
  (if lower then lower_tri n m else upper_tri n m) -> diag_nonzero n m ->
  tri_inv ROps lower m loc (tri_fwd ROps m loc x) = x.
Proof.
  intros Hsq Hloc Hx Ht Hd. unfold tri_inv, tri_fwd.
  rewrite sub_add_loc by (rewrite matvec_length; destruct Hsq; lia).
  destruct lower; [apply (tri_solve_lower_matvec n) | apply (tri_solve_upper_matvec n)]; assumption.
Qed.

(* ------------------------------------------------------------------------------------ *)
(* Planar (leaky-relu activation): the analytic inverse                                   *)
(* ------------------------------------------------------------------------------------ *)
Lemma vadd_length a b : length a = length b -> length (vadd ROps a b) = length a.
Proof. intros H. unfold vadd. rewrite lift2_length; lia. Qed.
Lemma vscale_length k v : length (vscale ROps k v) = length v.
Proof. apply map_length. Qed.
Lemma dotR_vscale w : forall u k, dot ROps w (vscale ROps k u) = k * dot ROps w u.
Proof.
  unfold vscale. rops. induction w as [|wi w IH]; intros [|ui u] k; cbn [map]; rewrite ?dotR_nil_l, ?dotR_nil_r; try ring.
  rewrite !dotR_cons, IH. ring.
Qed.
Lemma dotR_vadd_vscale w : forall x u a, length x = length w -> length u = length w ->
  dot ROps w (vadd ROps x (vscale ROps a u)) = dot ROps w x + a * dot ROps w u.
Proof.
  unfold vadd, vscale, lift2. rops.
  induction w as [|wi w IH]; intros [|xi x] [|ui u] a Hx Hu; cbn in Hx, Hu; try discriminate.
  - rewrite !dotR_nil_l. ring.
  - cbn [map combine fst snd]. rewrite !dotR_cons, IH by lia. ring.
Qed.
Lemma planar_undo : forall x u a q slope, length u = length x -> a = q * slope ->
  vsub ROps (vadd ROps x (vscale ROps a u)) (vscale ROps q (vscale ROps slope u)) = x.
Proof.
  unfold vsub, vadd, vscale, lift2. rops.
  induction x as [|xi x IH]; intros [|ui u] a q slope Hu Ha; cbn in Hu; try discriminate; [reflexivity|].
  cbn [map combine fst snd]. f_equal; [subst a; ring | apply IH; [lia | exact Ha]].
Qed.
Lemma planar_u_length ns w u0 : length u0 = length w -> length (planar_u ROps ns w u0) = length w.
Proof. intros H. unfold planar_u. rewrite vadd_length; rewrite ?map_length; lia. Qed.

(* transform_and_log_det computes the activation from `x @ w`, transform from `w @ x` *)
Lemma planar_fwd_and_log_det_value ns w u0 b x :
  vadd ROps x (vscale ROps (planar_act ROps ns (n_add ROps (dot ROps x w) b)) (planar_u ROps ns w u0))
  = planar_fwd ROps ns w u0 b x.
Proof. unfold planar_fwd. now rewrite (dotR_comm x w). Qed.

(* get_act_scale: w . u-hat IS the constraint value m(w.u0) / max(1, negative_slope), for w <> 0 *)
Lemma dotR_self_nonneg w : 0 <= dot ROps w w.
Proof. induction w as [|x w IH]; [rewrite dotR_nil_l; lra|]. rewrite dotR_cons. nra. Qed.
Lemma dotR_self_pos w : Exists (fun wi => wi <> 0) w -> 0 < dot ROps w w.
Proof.
  induction 1 as [x w Hx | x w _ IH]; rewrite dotR_cons.
  - pose proof (dotR_self_nonneg w). assert (0 < x * x) by nra. lra.
  - nra.
Qed.
Lemma dotR_vadd_map w : forall u0 k q, length u0 = length w ->
  dot ROps w (vadd ROps u0 (map (fun wi => n_div ROps (n_mul ROps k wi) q) w)) = dot ROps w u0 + k / q * dot ROps w w.
Proof.
  unfold vadd, lift2. rops.
  induction w as [|wi w IH]; intros [|ui u0] k q H; cbn in H; try discriminate.
  - cbn [map combine]. rewrite !dotR_nil_l. ring.
  - cbn [map combine fst snd]. rewrite !dotR_cons, IH by lia. unfold Rdiv. ring.
Qed.
Definition planar_m (a : R) : R := -1 + ln (1 + ln (1 + exp a)).
Lemma planar_m_gt a : -1 < planar_m a.
Proof.
  unfold planar_m. pose proof (exp_pos a) as He.
  assert (H1 : 0 < ln (1 + exp a)) by (rewrite <- ln_1; apply ln_increasing; lra).
  assert (H2 : 0 < ln (1 + ln (1 + exp a))) by (rewrite <- ln_1 at 1; apply ln_increasing; lra).
  lra.
Qed.
Lemma planar_k_some s : planar_k ROps (Some s) = Rmax 1 s.
Proof.
  unfold planar_k, nmax, Num.c. rops. unfold Rmax.
  destruct (Rltb_case 1 s) as [[E H]|[E H]]; rewrite E; destruct (Rle_dec 1 s); lra.
Qed.
Lemma planar_u_dot s w u0 : Exists (fun wi => wi <> 0) w -> length u0 = length w ->
  dot ROps w (planar_u ROps (Some s) w u0) = planar_m (dot ROps u0 w) / Rmax 1 s.
Proof.
  intros Hw Hl. pose proof (dotR_self_pos w Hw) as Hp.
  unfold planar_u. rewrite planar_k_some. unfold Num.c. rops.
  rewrite dotR_vadd_map by exact Hl. fold (planar_m (dot ROps u0 w)).
  rewrite sqrt_sqrt by lra. rewrite (dotR_comm w u0).
  assert (0 < Rmax 1 s) by (pose proof (Rmax_l 1 s); lra).
  field. split; lra.
Qed.
Lemma planar_u_old_dot w u0 : Exists (fun wi => wi <> 0) w -> length u0 = length w ->
  dot ROps w (planar_u_old ROps w u0) = planar_m (dot ROps u0 w).
Proof.
  intros Hw Hl. pose proof (dotR_self_pos w Hw) as Hp.
  unfold planar_u_old. unfold Num.c. rops.
  rewrite dotR_vadd_map by exact Hl. fold (planar_m (dot ROps u0 w)).
  rewrite sqrt_sqrt by lra. rewrite (dotR_comm w u0). field. lra.
Qed.
(* what invertibility needs, for BOTH slopes of the leaky relu, any negative slope s > 0 *)
Lemma planar_constraint s w u0 : 0 < s -> Exists (fun wi => wi <> 0) w -> length u0 = length w ->
  0 < 1 + dot ROps w (planar_u ROps (Some s) w u0) /\ 0 < 1 + s * dot ROps w (planar_u ROps (Some s) w u0).
Proof.
  intros Hs Hw Hl. rewrite (planar_u_dot s w u0 Hw Hl).
  pose proof (planar_m_gt (dot ROps u0 w)) as Hm. set (m := planar_m _) in *.
  pose proof (Rmax_l 1 s) as K1. pose proof (Rmax_r 1 s) as K2. set (K := Rmax 1 s) in *.
  assert (HK : 0 < K) by lra. assert (Hi : 0 < / K) by (apply Rinv_0_lt_compat, HK).
  assert (Hi1 : / K <= 1) by (rewrite <- Rinv_1; apply Rinv_le_contravar; lra).
  assert (Hsk : s * / K <= 1).
  { apply Rmult_le_reg_r with K; [exact HK|]. rewrite Rmult_assoc, Rinv_l by lra. lra. }
  assert (Hsk0 : 0 < s * / K) by (apply Rmult_lt_0_compat; assumption).
  unfold Rdiv. split.
  - destruct (Rle_lt_dec 0 m); nra.
  - replace (s * (m * / K)) with ((s * / K) * m) by ring. destruct (Rle_lt_dec 0 m); nra.
Qed.

Lemma dotR_vsub_vscale w : forall y u k, length y = length w -> length u = length w ->
  dot ROps w (vsub ROps y (vscale ROps k u)) = dot ROps w y - k * dot ROps w u.
Proof.
  unfold vsub, vscale, lift2. rops.
  induction w as [|wi w IH]; intros [|yi y] [|ui u] k Hy Hu; cbn in Hy, Hu; try discriminate.
  - rewrite !dotR_nil_l. ring.
  - cbn [map combine fst snd]. rewrite !dotR_cons, IH by lia. ring.
Qed.
Lemma planar_redo : forall y u a q slope, length u = length y -> a = q * slope ->
  vadd ROps (vsub ROps y (vscale ROps q (vscale ROps slope u))) (vscale ROps a u) = y.
Proof.
  unfold vsub, vadd, vscale, lift2. rops.
  induction y as [|yi y IH]; intros [|ui u] a q slope Hu Ha; cbn in Hu; try discriminate; [reflexivity|].
  cbn [map combine fst snd]. f_equal; [subst a; ring | apply IH; [lia | exact Ha]].
Qed.

Section PlanarCore.
  (* the round trips for any direction vector u with 0 < 1 + w.u and 0 < 1 + s w.u *)
  Variables (s : R) (w u : list R) (b : R).
  Hypothesis Hs : 0 < s.
  Hypothesis Hp1 : 0 < 1 + dot ROps w u.
  Hypothesis Hps : 0 < 1 + s * dot ROps w u.
  Hypothesis Hul : length u = length w.
  Definition pl_fwd (x : list R) : list R :=
    vadd ROps x (vscale ROps (leaky_relu ROps s (n_add ROps (dot ROps w x) b)) u).
  Definition pl_inv (y : list R) : list R :=
    let numer := n_add ROps (dot ROps w y) b in
    let slope := where_ (n_ltb ROps numer (c ROps 0)) s (c ROps 1) in
    let us := vscale ROps slope u in
    vsub ROps y (vscale ROps (n_div ROps numer (n_add ROps (c ROps 1) (dot ROps w us))) us).
  Lemma pl_inv_fwd x : length x = length w -> pl_inv (pl_fwd x) = x.
  Proof.
    intros Hx. unfold pl_inv, pl_fwd, leaky_relu, geb, where_, Num.c. rops.
    set (z := dot ROps w x + b). set (wu := dot ROps w u) in *.
    destruct (Rleb_case 0 z) as [[E Hz]|[E Hz]]; rewrite E.
    - rewrite dotR_vadd_vscale by lia. fold wu.
      assert (Hn : dot ROps w x + z * wu + b = z * (1 + wu)) by (unfold z; ring).
      rewrite Hn. rewrite (Rltb_f (z * (1 + wu)) 0) by nra.
      rewrite dotR_vscale. fold wu.
      apply planar_undo; [lia|]. field. lra.
    - rewrite dotR_vadd_vscale by lia. fold wu.
      assert (Hn : dot ROps w x + s * z * wu + b = z * (1 + s * wu)) by (unfold z; ring).
      rewrite Hn. rewrite (Rltb_t (z * (1 + s * wu)) 0) by nra.
      rewrite dotR_vscale. fold wu.
      apply planar_undo; [lia|]. field. lra.
  Qed.

  Lemma pl_fwd_inv y : length y = length w -> pl_fwd (pl_inv y) = y.
  Proof.
    intros Hy. unfold pl_inv, pl_fwd, leaky_relu, geb, where_, Num.c. rops.
    set (N := dot ROps w y + b). set (wu := dot ROps w u) in *.
    destruct (Rltb_case N 0) as [[E HN]|[E HN]]; rewrite E.
    - rewrite dotR_vscale. fold wu.
      set (q := N / (1 + s * wu)).
      assert (Hq : q < 0).
      { unfold q, Rdiv. replace 0 with (0 * / (1 + s * wu)) by ring.
        apply Rmult_lt_compat_r; [apply Rinv_0_lt_compat, Hps | exact HN]. }
      rewrite dotR_vsub_vscale by (rewrite ?vscale_length; lia). rewrite dotR_vscale. fold wu.
      assert (Hz : dot ROps w y - q * (s * wu) + b = q) by (unfold q, N; field; lra).
      rewrite Hz. rewrite (Rleb_f 0 q) by exact Hq.
      apply planar_redo; [lia | ring].
    - rewrite dotR_vscale. fold wu. assert (Hp : 0 < 1 + 1 * wu) by lra.
      set (q := N / (1 + 1 * wu)).
      assert (Hq : 0 <= q).
      { unfold q, Rdiv. apply Rmult_le_pos; [exact HN | left; apply Rinv_0_lt_compat, Hp]. }
      rewrite dotR_vsub_vscale by (rewrite ?vscale_length; lia). rewrite dotR_vscale. fold wu.
      assert (Hz : dot ROps w y - q * (1 * wu) + b = q) by (unfold q, N; field; lra).
      rewrite Hz. rewrite (Rleb_t 0 q) by exact Hq.
      apply planar_redo; [lia | ring].
  Qed.
End PlanarCore.

(* Planar with the leaky-relu activation: ANY negative slope s > 0, any w <> 0, any raw act_scale u0,
   any dimension -- the constraint on u-hat is proved from get_act_scale, not assumed *)
Theorem planar_inv_fwd s w u0 b x :
  0 < s -> Exists (fun wi => wi <> 0) w -> length u0 = length w -> length x = length w ->
  planar_inv ROps s w u0 b (planar_fwd ROps (Some s) w u0 b x) = x.
Proof.
  intros Hs Hw Hu0 Hx. destruct (planar_constraint s w u0 Hs Hw Hu0) as [H1 H2].
  change (pl_inv s w (planar_u ROps (Some s) w u0) b (pl_fwd s w (planar_u ROps (Some s) w u0) b x) = x).
  apply pl_inv_fwd; auto. apply planar_u_length, Hu0.
Qed.
Theorem planar_fwd_inv s w u0 b y :
  0 < s -> Exists (fun wi => wi <> 0) w -> length u0 = length w -> length y = length w ->
  planar_fwd ROps (Some s) w u0 b (planar_inv ROps s w u0 b y) = y.
Proof.
  intros Hs Hw Hu0 Hy. destruct (planar_constraint s w u0 Hs Hw Hu0) as [H1 H2].
  change (pl_fwd s w (planar_u ROps (Some s) w u0) b (pl_inv s w (planar_u ROps (Some s) w u0) b y) = y).
  apply pl_fwd_inv; auto. apply planar_u_length, Hu0.
Qed.

(* the converse: the substitution returns a solution, so transform (inverse y) = y *)
Lemma fsub_extends : forall rows b i acc, length rows = length b ->
  exists rest, fsub ROps rows b i acc = acc ++ rest /\ length rest = length rows.
Proof.
  induction rows as [|row rows IH]; intros [|bi b] i acc Hlen; cbn [length] in Hlen; try discriminate.
  - exists []. cbn [fsub]. now rewrite app_nil_r.
  - cbn [fsub]. destruct (IH b (S i) (acc ++ [n_div ROps (n_sub ROps bi (dot ROps (firstn i row) acc)) (nth i row (c ROps 0))]) ltac:(lia))
      as [rest [He Hl]].
    eexists (_ :: rest). split; [rewrite He, <- app_assoc; reflexivity | cbn [length]; lia].
Qed.

Section FSubSol.
  Variable n : nat.
  Lemma fsub_solves : forall rows b i acc,
    length rows = length b -> (i + length rows = n)%nat -> length acc = i ->
    (forall k, (k < length rows)%nat ->
       length (nth k rows []) = n /\ nth (i + k) (nth k rows []) 0 <> 0 /\
       (forall j, (i + k < j < n)%nat -> nth j (nth k rows []) 0 = 0)) ->
    forall k, (k < length rows)%nat -> dot ROps (nth k rows []) (fsub ROps rows b i acc) = nth k b 0.
  Proof.
    induction rows as [|row rows IH]; intros [|bi b] i acc Hlen Hin Hacc Hrows k Hk; cbn [length] in *; try discriminate; [lia|].
    cbn [fsub]. set (xi := n_div ROps _ _).
    destruct k as [|k].
    - cbn [nth]. destruct (Hrows O ltac:(lia)) as (Hrl & Hd & Hz). cbn [nth] in Hrl, Hd, Hz.
      rewrite Nat.add_0_r in Hd.
      destruct (fsub_extends rows b (S i) (acc ++ [xi]) ltac:(lia)) as [rest [He Hl]].
      rewrite He, <- app_assoc. cbn [app].
      rewrite (split_at row i 0) at 1 by lia.
      rewrite dotR_app by (rewrite firstn_length; lia).
      rewrite dotR_cons. rewrite (dotR_zero_l (skipn (S i) row)).
      + unfold xi, Num.c. rops. field. exact Hd.
      + apply Forall_forall. intros v Hv. apply (In_nth _ _ 0) in Hv. destruct Hv as [j [Hj Hv]].
        rewrite skipn_length in Hj. rewrite nth_skipn_add in Hv. rewrite <- Hv. apply Hz. lia.
    - cbn [nth]. apply IH; [lia | lia | rewrite app_length; cbn [length]; lia | | lia].
      intros k' Hk'. destruct (Hrows (S k') ltac:(lia)) as (A1 & A2 & A3). cbn [nth] in A1, A2, A3.
      replace (i + S k')%nat with (S i + k')%nat in * by lia. auto.
  Qed.
End FSubSol.

Lemma tri_solve_lower_length m b : length m = length b -> length (tri_solve_lower ROps m b) = length m.
Proof.
  intros H. unfold tri_solve_lower. destruct (fsub_extends m b 0 [] H) as [rest [He Hl]].
  rewrite He. cbn [app]. exact Hl.
Qed.
Lemma matvec_tri_solve_lower n m b : square n m -> length b = n -> lower_tri n m -> diag_nonzero n m ->
  matvec ROps m (tri_solve_lower ROps m b) = b.
Proof.
  intros [Hm Hr] Hb Hl Hd.
  apply (nth_ext _ _ 0 0); [rewrite matvec_length; lia|].
  intros k Hk. rewrite matvec_length in Hk. rewrite matvec_nth by exact Hk.
  unfold tri_solve_lower. apply (fsub_solves n); [lia | cbn; lia | reflexivity | | exact Hk].
  intros j Hj. cbn [Nat.add]. repeat split.
  - apply Hr. lia.
  - apply Hd. lia.
  - intros j' Hj'. apply Hl. lia.
Qed.
Lemma matvec_tri_solve_upper n m b : square n m -> length b = n -> upper_tri n m -> diag_nonzero n m ->
  matvec ROps m (tri_solve_upper ROps m b) = b.
Proof.
  intros Hsq Hb Hu Hd. unfold tri_solve_upper. destruct Hsq as [Hm Hr].
  set (m' := rev (map (@rev R) m)).
  assert (Hsq' : square n m').
  { split; [unfold m'; now rewrite rev_length, map_length|].
    intros i Hi. unfold m'. rewrite (rev_rows_nth n m i (conj Hm Hr) Hi), rev_length. apply Hr. lia. }
  assert (Hsol : matvec ROps m' (tri_solve_lower ROps m' (rev b)) = rev b).
  { apply (matvec_tri_solve_lower n); [exact Hsq' | now rewrite rev_length | |].
    - intros i j Hij. unfold m'. rewrite (rev_rows_nth n m i (conj Hm Hr)) by lia.
      rewrite rev_nth by (rewrite Hr; lia). rewrite Hr by lia. apply Hu. lia.
    - intros i Hi. unfold m'. rewrite (rev_rows_nth n m i (conj Hm Hr) Hi).
      rewrite rev_nth by (rewrite Hr; lia). rewrite Hr by lia. apply Hd. lia. }
  set (X := tri_solve_lower ROps m' (rev b)) in *.
  assert (HX : length X = n).
  { unfold X. rewrite tri_solve_lower_length; destruct Hsq' as [A _]; [exact A | rewrite rev_length; lia]. }
  pose proof (matvec_rev n m (rev X) (conj Hm Hr) ltac:(now rewrite rev_length)) as Hrev.
  rewrite rev_involutive in Hrev. fold m' in Hrev. rewrite Hsol in Hrev.
  apply (f_equal (@rev R)) in Hrev. rewrite !rev_involutive in Hrev. symmetry. exact Hrev.
Qed.

Theorem tri_fwd_inv n (lower : bool) m loc y :
  square n m -> length loc = n -> length y = n ->
  (if lower then lower_tri n m else upper_tri n m) -> diag_nonzero n m ->
  tri_fwd ROps m loc (tri_inv ROps lower m loc y) = y.
Proof.
  intros Hsq Hloc Hy Ht Hd. unfold tri_inv, tri_fwd.
  set (b := lift2 (fun l v => n_sub ROps v l) loc y).
  assert (Hb : length b = n) by (unfold b; rewrite lift2_length; lia).
  assert (Hs : matvec ROps m (if lower then tri_solve_lower ROps m b else tri_solve_upper ROps m b) = b).
  { destruct lower; [apply (matvec_tri_solve_lower n) | apply (matvec_tri_solve_upper n)]; assumption. }
  rewrite Hs. unfold b. apply add_sub_loc. lia.
Qed.

(* ------------------------------------------------------------------------------------ *)
(* The scalar leaves as instances of [bij_on] (what Chain / Invert / Concatenate consume)  *)
(* ------------------------------------------------------------------------------------ *)
Definition allR : R -> Prop := fun _ => True.
Lemma affine_bij loc scale : scale <> 0 -> bij_on allR allR (affine_fwd ROps loc scale) (affine_inv ROps loc scale).
Proof. intros H. split; unfold allR; auto; intros; [apply affine_inv_fwd | apply affine_fwd_inv]; exact H. Qed.
Lemma loc_bij loc : bij_on allR allR (loc_fwd ROps loc) (loc_inv ROps loc).
Proof. split; unfold allR; auto; intros; [apply loc_inv_fwd | apply loc_fwd_inv]. Qed.
Lemma scale_bij scale : scale <> 0 -> bij_on allR allR (scale_fwd ROps scale) (scale_inv ROps scale).
Proof. intros H. split; unfold allR; auto; intros; [apply scale_inv_fwd | apply scale_fwd_inv]; exact H. Qed.
Lemma exp_bij : bij_on allR (fun y => 0 < y) (exp_fwd ROps) (exp_inv ROps).
Proof. split; unfold allR; auto; intros; [apply exp_fwd_pos | apply exp_inv_fwd | now apply exp_fwd_inv]. Qed.
Lemma softplus_bij : bij_on allR (fun y => 0 < y) (softplus_fwd ROps) (softplus_inv ROps).
Proof. split; unfold allR; auto; intros; [apply softplus_fwd_pos | apply softplus_inv_fwd | now apply softplus_fwd_inv]. Qed.
Lemma tanh_bij : bij_on allR (fun y => -1 < y < 1) (tanh_fwd ROps) (tanh_inv ROps).
Proof. split; unfold allR; auto; intros; [apply tanh_fwd_range | apply tanh_inv_fwd | now apply tanh_fwd_inv]. Qed.
Lemma leaky_bij m : 0 < m ->
  bij_on allR allR (leaky_fwd ROps m (leaky_grad ROps m) (leaky_icpt ROps m))
                   (leaky_inv ROps m (leaky_grad ROps m) (leaky_icpt ROps m)).
Proof. intros H. split; unfold allR; auto; intros; [now apply leaky_inv_fwd | now apply leaky_fwd_inv]. Qed.
