(* Lemmas about Model/Constr.v at the real numbers (ROps).  Every statement is for ALL raw values
   (no box); every hypothesis a proof needs (0 < y, w <> 0, row <> 0, lo < hi, 0 <= adj, slope <= 1,
   equal lengths) is explicit, because in Coq x/0 = 0, ln of a non-positive number is 0 and
   sqrt of a negative number is 0. *)
From Coq Require Import Reals List ZArith Bool Lra Lia Sorted Permutation Psatz.
From FJ Require Import Model.Num Model.Constr Proofs.RNum.
Import ListNotations.
Open Scope R_scope.

Ltac rops := cbn [ROps ROpsG n_add n_sub n_mul n_div n_neg n_abs n_sign n_exp n_log n_softplus n_log1p
                  n_expm1 n_sqrt n_leb n_ltb n_eqb n_ofZ] in *.

(* ------------------------------------------------------------------ sums *)
Fixpoint rsum (l : list R) : R := match l with [] => 0 | x :: t => x + rsum t end.
Lemma fold_left_Rplus l a : fold_left Rplus l a = a + rsum l.
Proof. revert a; induction l as [|x t IH]; intros a; cbn; [lra|]. rewrite IH. lra. Qed.
Lemma sum_rsum l : sum ROps l = rsum l.
Proof. unfold sum, c. rops. rewrite fold_left_Rplus. lra. Qed.
Lemma rsum_app a b : rsum (a ++ b) = rsum a + rsum b.
Proof. induction a; cbn; lra. Qed.
Lemma rsum_pos l : Forall (fun x => 0 < x) l -> l <> [] -> 0 < rsum l.
Proof.
  intros H Hne. destruct H as [|x t Hx Ht]; [congruence|]. cbn.
  assert (0 <= rsum t) by (clear -Ht; induction Ht; cbn; lra). lra.
Qed.
Lemma rsum_nonneg l : Forall (fun x => 0 <= x) l -> 0 <= rsum l.
Proof. induction 1; cbn; lra. Qed.
Lemma rsum_map_div (f : R -> R) z l : rsum (map (fun x => f x / z) l) = rsum (map f l) / z.
Proof. induction l; cbn; [unfold Rdiv; ring|]. rewrite IHl. unfold Rdiv; ring. Qed.
Lemma rsum_map_mul (f : R -> R) z l : rsum (map (fun x => z * f x) l) = z * rsum (map f l).
Proof. induction l; cbn; [ring|]. rewrite IHl. ring. Qed.
Lemma rsum_map_ext (f g : R -> R) l : (forall x, In x l -> f x = g x) -> rsum (map f l) = rsum (map g l).
Proof. induction l; cbn; intros H; [reflexivity|]. rewrite H, IHl; auto. Qed.

(* ------------------------------------------------------------------ softplus *)
Lemma softplus_eq x : softplus ROps x = ln (1 + exp x).
Proof. reflexivity. Qed.
Lemma softplus_inv_eq y : softplus_inv ROps y = ln (- (exp (- y) - 1)) + y.
Proof. reflexivity. Qed.

Lemma softplus_pos x : 0 < softplus ROps x.
Proof.
  rewrite softplus_eq. pose proof (exp_pos x). rewrite <- ln_1. apply ln_increasing; lra.
Qed.

(* the argument of the logarithm in SoftPlus.inverse is positive exactly for 0 < y *)
Lemma softplus_inv_safe y : 0 < y -> 0 < - (exp (- y) - 1).
Proof. intros Hy. assert (exp (- y) < exp 0) by (apply exp_increasing; lra). rewrite exp_0 in H. lra. Qed.

Lemma softplus_roundtrip y : 0 < y -> softplus ROps (softplus_inv ROps y) = y.
Proof.
  intros Hy. rewrite softplus_eq, softplus_inv_eq.
  pose proof (softplus_inv_safe y Hy) as Hs.
  rewrite exp_plus, exp_ln by exact Hs.
  replace (1 + - (exp (- y) - 1) * exp y) with (exp y).
  - apply ln_exp.
  - rewrite exp_Ropp. pose proof (exp_pos y). field. lra.
Qed.

Lemma softplus_inv_roundtrip x : softplus_inv ROps (softplus ROps x) = x.
Proof.
  rewrite softplus_eq, softplus_inv_eq. pose proof (exp_pos x) as He.
  rewrite exp_Ropp, exp_ln by lra.
  replace (- (/ (1 + exp x) - 1)) with (exp x / (1 + exp x)) by (field; lra).
  unfold Rdiv. rewrite ln_mult; [|lra|apply Rinv_0_lt_compat; lra].
  rewrite ln_Rinv by lra. rewrite ln_exp. lra.
Qed.

Lemma pos_unwrap_pos raw : Forall (fun s => 0 < s) (pos_unwrap ROps raw).
Proof. unfold pos_unwrap. apply Forall_forall. intros s Hs. apply in_map_iff in Hs as (x & <- & _). apply softplus_pos. Qed.

Lemma pos_roundtrip v : Forall (fun y => 0 < y) v -> pos_unwrap ROps (pos_init ROps v) = v.
Proof.
  unfold pos_unwrap, pos_init. induction 1 as [|y t Hy Ht IH]; cbn [map]; [reflexivity|].
  rewrite softplus_roundtrip by exact Hy. now rewrite IH.
Qed.

(* ------------------------------------------------------------------ constructor checks *)
Lemma finite_R x : finite ROps x = true.
Proof. unfold finite. rops. apply Reqb_true. lra. Qed.

Lemma pos_rejects_spec v : pos_rejects ROps v = false <-> Forall (fun y => 0 < y) v.
Proof.
  unfold pos_rejects. induction v as [|y t IH]; cbn [existsb].
  - split; [constructor|reflexivity].
  - rewrite finite_R. rops. cbn [andb]. rewrite orb_false_iff, IH, Rleb_false. split.
    + intros [H1 H2]. constructor; assumption.
    + intros H. inversion H; subst. split; assumption.
Qed.

Lemma ctor_accepts_roundtrip v : pos_rejects ROps v = false -> pos_unwrap ROps (pos_init ROps v) = v.
Proof. intros H. apply pos_roundtrip, pos_rejects_spec, H. Qed.

Lemma df_rejects_spec v : df_rejects ROps v = false <-> Forall (fun y => 0 < y) v.
Proof.
  unfold df_rejects. rewrite orb_false_iff, pos_rejects_spec. split; [tauto|]. intros H. split; [|exact H].
  induction H as [|y t Hy Ht IH]; cbn [existsb]; [reflexivity|]. rops. rewrite IH, orb_false_r. apply Rleb_false, Hy.
Qed.

Lemma mix_rejects_spec w : mix_rejects ROps w = false <-> Forall (fun y => 0 < y) w.
Proof.
  unfold mix_rejects. induction w as [|y t IH]; cbn [existsb]; [split; [constructor|reflexivity]|].
  rops. rewrite orb_false_iff, IH, Rleb_false. split; [intros [? ?]; now constructor|intros H; inversion H; tauto].
Qed.

Lemma uniform_rejects_spec lo hi : uniform_rejects ROps lo hi = false <-> lo < hi.
Proof.
  unfold uniform_rejects. rewrite orb_false_iff, pos_rejects_spec. rops. rewrite Rleb_false. split; [tauto|].
  intros H. split; [exact H|]. constructor; [lra|constructor].
Qed.
Lemma uniform_roundtrip lo hi : lo < hi -> uniform_maxval ROps lo (uniform_init ROps lo hi) = hi.
Proof. intros H. unfold uniform_maxval, uniform_init. rops. rewrite softplus_roundtrip by lra. lra. Qed.
Lemma uniform_maxval_gt lo raw : lo < uniform_maxval ROps lo raw.
Proof. unfold uniform_maxval. rops. pose proof (softplus_pos raw). lra. Qed.

(* Exponential: the guard r <> 0 is explicit (1/0 = 0 in Coq would otherwise make rate 0 "rejected") *)
Lemma rate_rejects_spec r : r <> 0 -> (rate_rejects ROps r = false <-> 0 < r).
Proof.
  intros Hr. unfold rate_rejects. rewrite pos_rejects_spec. rops. split.
  - intros H. inversion H as [|? ? H1 _]; subst. unfold Rdiv in H1. rewrite Rmult_1_l in H1.
    destruct (Rlt_dec 0 r) as [Hp|Hn]; [exact Hp|]. assert (r < 0) by lra.
    pose proof (Rinv_lt_0_compat r H0). lra.
  - intros H. constructor; [|constructor]. unfold Rdiv. rewrite Rmult_1_l. now apply Rinv_0_lt_compat.
Qed.
Lemma rate_roundtrip r : 0 < r -> rate_of ROps (rate_init ROps r) = r.
Proof.
  intros H. unfold rate_of, rate_init. rops.
  assert (0 < 1 / r) by (unfold Rdiv; rewrite Rmult_1_l; now apply Rinv_0_lt_compat).
  rewrite softplus_roundtrip by assumption. field. lra.
Qed.
Lemma rate_pos raw : 0 < rate_of ROps raw.
Proof. unfold rate_of. rops. pose proof (softplus_pos raw). unfold Rdiv. rewrite Rmult_1_l. now apply Rinv_0_lt_compat. Qed.

Lemma planar_rejects_spec s : planar_rejects ROps s = false <-> 0 < s.
Proof. unfold planar_rejects. rops. apply Rleb_false. Qed.
Lemma knots_rejects_spec adj : knots_rejects ROps adj = false <-> 0 <= adj.
Proof. unfold knots_rejects. rops. apply Rltb_false. Qed.

(* ------------------------------------------------------------------ min_scale *)
Lemma min_scale_floor ms x : ms < min_scale_unwrap ROps ms x.
Proof. unfold min_scale_unwrap. rops. pose proof (softplus_pos x). lra. Qed.
Lemma min_scale_rejects_spec ms : min_scale_rejects ROps ms = false <-> ms < 1.
Proof.
  unfold min_scale_rejects. cbn zeta. rewrite finite_R. cbn [negb orb]. rops. rewrite Rleb_false. split; intros H; lra.
Qed.
Lemma min_scale_roundtrip ms : ms < 1 -> min_scale_unwrap ROps ms (min_scale_init ROps ms) = 1.
Proof. intros H. unfold min_scale_unwrap, min_scale_init. rops. rewrite softplus_roundtrip by lra. lra. Qed.

(* ------------------------------------------------------------------ spline derivatives *)
Lemma derivs_floor md raw : Forall (fun d => md < d) (derivs ROps md raw).
Proof.
  unfold derivs. apply Forall_forall. intros d Hd. apply in_map_iff in Hd as (x & <- & _). rops.
  pose proof (softplus_pos x). lra.
Qed.
Lemma derivs_length md raw : length (derivs ROps md raw) = length raw.
Proof. unfold derivs. apply map_length. Qed.
(* the initial raw value log(exp(1 - md) - 1) gives derivative 1 (identity spline) when md < 1 *)
Lemma deriv_init_safe md : md < 1 -> 0 < exp (1 - md) - 1.
Proof. intros H. assert (exp 0 < exp (1 - md)) by (apply exp_increasing; lra). rewrite exp_0 in H0. lra. Qed.
Lemma deriv_init_roundtrip md : md < 1 -> derivs ROps md [deriv_init ROps md] = [1].
Proof.
  intros H. unfold derivs, deriv_init. cbn [map]. rops. rewrite softplus_eq.
  pose proof (deriv_init_safe md H). rewrite exp_ln by assumption.
  replace (1 + (exp (1 - md) - 1)) with (exp (1 - md)) by lra. rewrite ln_exp. f_equal. lra.
Qed.

(* ------------------------------------------------------------------ softmax / mixture weights *)
Lemma ofnat_INR n : ofnat ROps n = INR n.
Proof. unfold ofnat. rops. symmetry. apply INR_IZR_INZ. Qed.

(* the shifted exponentials are positive whatever the shift m is (the code shifts by max(x)) *)
Lemma rsum_exp_shift_pos m l : l <> [] -> 0 < rsum (map (fun x => exp (x - m)) l).
Proof.
  intros H. apply rsum_pos; [|destruct l; [congruence|discriminate]].
  apply Forall_forall. intros y Hy. apply in_map_iff in Hy as (x & <- & _). apply exp_pos.
Qed.

Lemma softmax_eq l : softmax ROps l =
  map (fun x => exp (x - max_of ROps l) / rsum (map (fun x => exp (x - max_of ROps l)) l)) l.
Proof. unfold softmax. rops. rewrite sum_rsum, map_map. reflexivity. Qed.

Lemma softmax_pos l : l <> [] -> Forall (fun w => 0 < w) (softmax ROps l).
Proof.
  intros H. rewrite softmax_eq. apply Forall_forall. intros w Hw. apply in_map_iff in Hw as (x & <- & _).
  apply Rdiv_lt_0_compat; [apply exp_pos | apply rsum_exp_shift_pos, H].
Qed.
Lemma softmax_sum l : l <> [] -> rsum (softmax ROps l) = 1.
Proof.
  intros H. rewrite softmax_eq. rewrite (rsum_map_div (fun x => exp (x - max_of ROps l))).
  pose proof (rsum_exp_shift_pos (max_of ROps l) l H). field. lra.
Qed.
Lemma softmax_length l : length (softmax ROps l) = length l.
Proof. unfold softmax. now rewrite !map_length. Qed.

Lemma log_softmax_eq l : log_softmax ROps l =
  map (fun x => (x - max_of ROps l) - ln (rsum (map (fun x => exp (x - max_of ROps l)) l))) l.
Proof. unfold log_softmax. rops. rewrite sum_rsum, !map_map. reflexivity. Qed.

Lemma mix_weights_eq l : l <> [] -> mix_weights ROps l = softmax ROps l.
Proof.
  intros H. unfold mix_weights. rewrite log_softmax_eq, softmax_eq, map_map. rops.
  apply map_ext. intros x. pose proof (rsum_exp_shift_pos (max_of ROps l) l H) as Hz.
  unfold Rminus at 1. rewrite exp_plus, exp_Ropp, exp_ln by exact Hz. reflexivity.
Qed.

Lemma mixture_weights_valid raw : raw <> [] ->
  Forall (fun w => 0 < w) (mix_weights ROps raw) /\ sum ROps (mix_weights ROps raw) = 1 /\
  length (mix_weights ROps raw) = length raw.
Proof.
  intros H. rewrite sum_rsum, mix_weights_eq by exact H.
  split; [apply softmax_pos, H|]. split; [apply softmax_sum, H|apply softmax_length].
Qed.

(* what unwrap returns is the logarithm of those weights *)
Lemma mix_logw_exp raw : map exp (mix_logw ROps raw) = mix_weights ROps raw.
Proof. reflexivity. Qed.

(* construction: weights w > 0 (possibly unnormalised) are stored as log w and come back as w / sum w *)
Lemma mixture_ctor_roundtrip w : Forall (fun x => 0 < x) w -> w <> [] ->
  mix_weights ROps (mix_init ROps w) = map (fun x => x / sum ROps w) w.
Proof.
  intros Hp Hne. assert (Hne' : mix_init ROps w <> []) by (unfold mix_init; destruct w; [congruence|discriminate]).
  rewrite mix_weights_eq, softmax_eq, sum_rsum by exact Hne'. unfold mix_init. rops. rewrite !map_map.
  set (m := max_of ROps (map ln w)).
  assert (Hx : forall x, In x w -> exp (ln x - m) = x / exp m).
  { intros x Hx. rewrite Forall_forall in Hp. unfold Rminus. rewrite exp_plus, exp_Ropp, exp_ln by (apply Hp, Hx). reflexivity. }
  rewrite (rsum_map_ext _ (fun x => x / exp m)) by exact Hx.
  rewrite (rsum_map_div (fun x => x)), map_id.
  apply map_ext_in. intros x Hin. rewrite Hx by exact Hin.
  pose proof (exp_pos m). pose proof (rsum_pos w Hp Hne). field. split; lra.
Qed.

(* ------------------------------------------------------------------ spline knots *)
Lemma cumsum_gt b l : Forall (fun x => 0 < x) l -> Forall (fun y => b < y) (cumsum_from ROps b l).
Proof.
  revert b. induction l as [|x t IH]; intros b H; cbn [cumsum_from]; constructor; rops.
  - inversion H; subst. lra.
  - inversion H; subst. specialize (IH (b + x) H3).
    eapply Forall_impl; [|exact IH]. cbn. intros y Hy. lra.
Qed.
Lemma cumsum_sorted b l : Forall (fun x => 0 < x) l -> StronglySorted Rlt (cumsum_from ROps b l).
Proof.
  revert b. induction l as [|x t IH]; intros b H; cbn [cumsum_from]; constructor.
  - apply IH. now inversion H.
  - apply cumsum_gt. now inversion H.
Qed.
Lemma cumsum_le_total b l : Forall (fun x => 0 < x) l -> Forall (fun y => y <= b + rsum l) (cumsum_from ROps b l).
Proof.
  revert b. induction l as [|x t IH]; intros b H; cbn [cumsum_from rsum]; constructor; rops.
  - inversion H; subst. assert (0 <= rsum t) by (clear -H3; induction H3; cbn; lra). lra.
  - inversion H; subst. specialize (IH (b + x) H3).
    eapply Forall_impl; [|exact IH]. cbn. intros y Hy. lra.
Qed.
Lemma cumsum_length b l : length (cumsum_from ROps b l) = length l.
Proof. revert b; induction l; intros b; cbn; [reflexivity|]. now rewrite IHl. Qed.

Lemma adjust_eq adj ws : adjust ROps adj ws = map (fun w => (w + adj / INR (length ws)) / (1 + adj)) ws.
Proof. unfold adjust. rewrite ofnat_INR. reflexivity. Qed.
Lemma adjust_pos adj ws : 0 <= adj -> ws <> [] -> Forall (fun w => 0 < w) ws -> Forall (fun w => 0 < w) (adjust ROps adj ws).
Proof.
  intros Ha Hne H. rewrite adjust_eq. apply Forall_forall. intros w Hw. apply in_map_iff in Hw as (x & <- & Hx).
  rewrite Forall_forall in H. specialize (H x Hx).
  assert (0 < INR (length ws)). { apply lt_0_INR. destruct ws; [congruence|cbn; apply Nat.lt_0_succ]. }
  apply Rdiv_lt_0_compat; [|lra].
  assert (0 <= adj / INR (length ws)) by (apply Rmult_le_pos; [lra| left; now apply Rinv_0_lt_compat]). lra.
Qed.
Lemma rsum_adjust adj ws : 0 <= adj -> ws <> [] -> rsum (adjust ROps adj ws) = (rsum ws + adj) / (1 + adj).
Proof.
  intros Ha Hne. rewrite adjust_eq. set (n := INR (length ws)).
  assert (Hn : 0 < n). { apply lt_0_INR. destruct ws; [congruence|cbn; apply Nat.lt_0_succ]. }
  assert (H : forall l, rsum (map (fun w => (w + adj / n) / (1 + adj)) l) = (rsum l + INR (length l) * (adj / n)) / (1 + adj)).
  { induction l as [|x t IH]; [cbn; unfold Rdiv; ring|]. cbn [map rsum length]. rewrite IH, S_INR. field. lra. }
  rewrite H. fold n. field. split; lra.
Qed.

(* the bin widths after adjustment and halving: positive, and they add up to 1 - (first width)/2 *)
Lemma widths_valid adj raw : 0 <= adj -> raw <> [] ->
  exists w0 t, adjust ROps adj (softmax ROps raw) = w0 :: t /\ 0 < w0 /\ Forall (fun w => 0 < w) t /\ w0 + rsum t = 1.
Proof.
  intros Ha Hne.
  assert (Hne0 : softmax ROps raw <> []) by (intros E; apply (f_equal (@length R)) in E; rewrite softmax_length in E; destruct raw; [congruence|discriminate]).
  pose proof (adjust_pos adj _ Ha Hne0 (softmax_pos raw Hne)) as Hpos.
  pose proof (rsum_adjust adj _ Ha Hne0) as Hsum. rewrite softmax_sum in Hsum by exact Hne.
  destruct (adjust ROps adj (softmax ROps raw)) as [|w0 t] eqn:E.
  { rewrite adjust_eq in E. destruct (softmax ROps raw); [congruence|discriminate]. }
  exists w0, t. inversion Hpos; subst. repeat split; try assumption. cbn [rsum] in Hsum. rewrite Hsum. field. lra.
Qed.

Lemma last_app_single {T} (l : list T) (x d : T) : last (l ++ [x]) d = x.
Proof. induction l as [|a t IH]; [reflexivity|]. cbn [app]. destruct (t ++ [x]) eqn:E; [destruct t; discriminate|]. cbn [last]. exact IH. Qed.

Theorem knots_valid lo hi adj raw : lo < hi -> 0 <= adj -> raw <> [] ->
  StronglySorted Rlt (knots ROps lo hi adj raw) /\
  hd 0 (knots ROps lo hi adj raw) = lo /\ last (knots ROps lo hi adj raw) 0 = hi /\
  length (knots ROps lo hi adj raw) = (length raw + 2)%nat.
Proof.
  intros Hlh Ha Hne. destruct (widths_valid adj raw Ha Hne) as (w0 & t & E & Hw0 & Ht & Hsum1).
  assert (Hlen : length (w0 :: t) = length raw) by (rewrite <- E, adjust_eq, map_length; apply softmax_length).
  unfold knots. rewrite E. cbn [halve_first]. unfold cumsum. rops.
  assert (Hpos : Forall (fun w => 0 < w) (w0 / 2 :: t)) by (constructor; [lra|exact Ht]).
  assert (Hsum : rsum (w0 / 2 :: t) = 1 - w0 / 2) by (cbn [rsum]; lra).
  pose proof (cumsum_sorted 0 _ Hpos) as Hs. pose proof (cumsum_gt 0 _ Hpos) as Hg.
  pose proof (cumsum_le_total 0 _ Hpos) as Hle. rewrite Hsum in Hle.
  pose proof (cumsum_length 0 (w0 / 2 :: t)) as Hcl.
  set (cs := cumsum_from ROps 0 (w0 / 2 :: t)) in *.
  set (f := fun c => lo + (hi - lo) * c).
  assert (Hf : forall c c', c < c' -> f c < f c') by (intros c c' Hc; unfold f; nra).
  split; [|split; [reflexivity|split]].
  - constructor.
    + clearbody cs. clear Hcl. induction Hs as [|c l Hl IH Hc]; cbn [map app].
      * repeat constructor.
      * inversion Hg; subst. inversion Hle; subst. constructor; [apply IH; assumption|].
        apply Forall_app. split.
        -- apply Forall_forall. intros y Hy. apply in_map_iff in Hy as (c' & <- & Hc').
           rewrite Forall_forall in Hc. apply Hf, Hc, Hc'.
        -- constructor; [|constructor]. unfold f. nra.
    + apply Forall_app. split; [|constructor; [lra|constructor]].
      apply Forall_forall. intros y Hy. apply in_map_iff in Hy as (c & <- & Hc).
      rewrite Forall_forall in Hg. specialize (Hg c Hc). unfold f. nra.
  - change (lo :: map f cs ++ [hi]) with ((lo :: map f cs) ++ [hi]). apply last_app_single.
  - cbn [length]. rewrite app_length, map_length, Hcl. cbn [length] in *. lia.
Qed.

(* ------------------------------------------------------------------ planar *)
Definition dotR (a b : list R) : R := rsum (map (fun p => fst p * snd p) (combine a b)).
Lemma dot_eq a b : dot ROps a b = dotR a b.
Proof. unfold dot, dotR. rops. apply sum_rsum. Qed.
Definition sumsq (w : list R) : R := rsum (map (fun x => x * x) w).
Lemma sumsq_nonneg w : 0 <= sumsq w.
Proof. unfold sumsq. induction w; cbn; [lra|]. nra. Qed.
Lemma sumsq_pos w : Exists (fun x => x <> 0) w -> 0 < sumsq w.
Proof.
  unfold sumsq. induction 1 as [x t Hx|x t _ IH]; cbn [map rsum].
  - pose proof (sumsq_nonneg t). unfold sumsq in H. nra.
  - nra.
Qed.
Lemma norm_eq w : norm ROps w = sqrt (sumsq w).
Proof. unfold norm, sq. rops. now rewrite sum_rsum. Qed.
Lemma sq_norm w : sq ROps (norm ROps w) = sumsq w.
Proof. rewrite norm_eq. unfold sq. rops. apply sqrt_sqrt, sumsq_nonneg. Qed.

Lemma planar_m_eq t : planar_m ROps t = -1 + ln (1 + ln (1 + exp t)).
Proof. reflexivity. Qed.
Lemma planar_m_gt t : -1 < planar_m ROps t.
Proof.
  rewrite planar_m_eq. pose proof (softplus_pos t) as H. rewrite softplus_eq in H.
  assert (0 < ln (1 + ln (1 + exp t))) by (rewrite <- ln_1; apply ln_increasing; lra). lra.
Qed.

Lemma dot_act_scale a S : forall u w, length u = length w ->
  dotR w (map (fun p => fst p + a * snd p / S) (combine u w)) = dotR u w + a * sumsq w / S.
Proof.
  unfold dotR, sumsq. induction u as [|x u IH]; intros [|y w] Hl; try discriminate; cbn [combine map rsum fst snd].
  - unfold Rdiv. ring.
  - injection Hl as Hl. rewrite (IH w Hl). unfold Rdiv. ring.
Qed.
Lemma dot_scale s : forall w l, dotR w (map (fun x => x * s) l) = s * dotR w l.
Proof.
  unfold dotR. induction w as [|y w IH]; intros [|x l]; cbn [combine map rsum fst snd]; try ring.
  rewrite IH. ring.
Qed.

Lemma nmax_1_R s : nmax ROps 1 s = Rmax 1 s.
Proof.
  unfold nmax. rops. unfold Rltb. destruct (Rlt_dec 1 s) as [H|H].
  - symmetry. apply Rmax_right. lra.
  - symmetry. apply Rmax_left. lra.
Qed.
Lemma planar_mk_eq slope t : planar_mk ROps slope t =
  match slope with None => planar_m ROps t | Some s => planar_m ROps t / Rmax 1 s end.
Proof. destruct slope as [s|]; [|reflexivity]. unfold planar_mk. change (n_ofZ ROps 1) with 1. now rewrite nmax_1_R. Qed.

Lemma planar_wu_eq slope w u : Exists (fun x => x <> 0) w -> length u = length w ->
  planar_wu ROps slope w u = planar_mk ROps slope (dot ROps u w).
Proof.
  intros Hw Hl. unfold planar_wu, planar_act_scale. rewrite sq_norm, !dot_eq. rops.
  rewrite (dot_act_scale _ _ u w Hl). pose proof (sumsq_pos w Hw). field. lra.
Qed.

(* tanh activation (negative_slope = None): w . u_hat > -1 for EVERY raw w <> 0, u (any dimension) *)
Lemma planar_invertible_tanh w u : Exists (fun x => x <> 0) w -> length u = length w -> -1 < planar_wu ROps None w u.
Proof. intros Hw Hl. rewrite planar_wu_eq by assumption. apply planar_m_gt. Qed.

(* leaky relu with ANY slope > 0: w . u_hat > -1/max(1, slope) *)
Lemma planar_wu_leaky slope w u : Exists (fun x => x <> 0) w -> length u = length w -> 0 < slope ->
  - 1 / Rmax 1 slope < planar_wu ROps (Some slope) w u.
Proof.
  intros Hw Hl Hs. rewrite planar_wu_eq, planar_mk_eq by assumption.
  pose proof (planar_m_gt (dot ROps u w)) as Hm. pose proof (Rmax_l 1 slope) as Hk.
  unfold Rdiv. apply Rmult_lt_compat_r; [apply Rinv_0_lt_compat; lra|lra].
Qed.

Lemma planar_denom_eq slope s w u : planar_denom ROps slope s w u = 1 + s * planar_wu ROps (Some slope) w u.
Proof. unfold planar_denom, planar_denom_with, planar_wu. rewrite !dot_eq. rops. now rewrite dot_scale. Qed.
Lemma planar_denom_old_eq slope w u : planar_denom_old ROps slope w u = 1 + slope * planar_wu ROps None w u.
Proof. unfold planar_denom_old, planar_denom_with, planar_wu. rewrite !dot_eq. rops. now rewrite dot_scale. Qed.

(* ... hence both denominators of the leaky-relu inverse, 1 + w.(u_hat*1) and 1 + w.(u_hat*slope), are positive
   for EVERY slope the constructor accepts (more generally for every branch slope 0 < s <= max(1, slope)) *)
Lemma planar_denominator_pos slope s w u : Exists (fun x => x <> 0) w -> length u = length w -> 0 < slope ->
  0 < s <= Rmax 1 slope -> 0 < planar_denom ROps slope s w u.
Proof.
  intros Hw Hl Hsl Hs. rewrite planar_denom_eq. pose proof (planar_wu_leaky slope w u Hw Hl Hsl) as H.
  set (kk := Rmax 1 slope) in *. set (v := planar_wu ROps (Some slope) w u) in *.
  assert (Hk : 1 <= kk) by apply Rmax_l.
  assert (Hv : -1 < kk * v). { unfold Rdiv in H. replace (-1) with (kk * (-1 * / kk)) by (field; lra). apply Rmult_lt_compat_l; lra. }
  destruct (Rle_dec 0 v) as [Hp|Hn]; [nra|]. assert (v < 0) by lra.
  assert (s * v >= kk * v) by nra. lra.
Qed.
Lemma planar_leaky_both slope w u : Exists (fun x => x <> 0) w -> length u = length w -> 0 < slope ->
  0 < planar_denom ROps slope 1 w u /\ 0 < planar_denom ROps slope slope w u.
Proof.
  intros Hw Hl Hs. split; apply planar_denominator_pos; try assumption.
  - split; [lra|apply Rmax_l].
  - split; [lra|apply Rmax_r].
Qed.

(* The formula before the fix (no division by max(1, slope)) violates this for a slope > 1 that the constructor
   accepts: the denominator is negative, the map x -> x + u_hat*leaky_relu(w.x+b) is not injective. *)
Lemma planar_slope_gt1_old_refuted : exists s w u,
  planar_rejects ROps s = false /\ Exists (fun x => x <> 0) w /\ length u = length w /\ planar_denom_old ROps s w u < 0.
Proof.
  exists 2, [1], [-5]. split; [apply planar_rejects_spec; lra|].
  assert (Hw : Exists (fun x => x <> 0) [1]) by (constructor; lra).
  split; [exact Hw|]. split; [reflexivity|].
  rewrite planar_denom_old_eq, planar_wu_eq by (auto). cbn [planar_mk]. rewrite dot_eq, planar_m_eq. unfold dotR. cbn [combine map rsum fst snd].
  replace (-5 * 1 + 0) with (-5) by ring.
  (* ln(1 + ln(1 + e^-5)) < ln(1 + e^-5) < e^-5 < 1/6, using 1 + x < exp x for x > 0 *)
  assert (Hln : forall x, 0 < x -> ln (1 + x) < x).
  { intros x Hx. assert (H : ln (1 + x) < ln (exp x)) by (apply ln_increasing; [lra|apply exp_ineq1; lra]).
    now rewrite ln_exp in H. }
  assert (H5 : exp (-5) < / 6).
  { replace (-5) with (Ropp 5) by lra. rewrite exp_Ropp. apply Rinv_lt_contravar; [pose proof (exp_pos 5); lra|]. pose proof (exp_ineq1 5). lra. }
  pose proof (exp_pos (-5)) as Hp.
  pose proof (Hln (exp (-5)) Hp) as H1.
  assert (H0 : 0 < ln (1 + exp (-5))) by (rewrite <- ln_1; apply ln_increasing; lra).
  pose proof (Hln _ H0) as H2. lra.
Qed.

(* ------------------------------------------------------------------ weight normalisation *)
Lemma wn_row_eq s row : wn_row ROps s row = map (fun x => s * x / sqrt (sumsq row)) row.
Proof. unfold wn_row. rewrite norm_eq. reflexivity. Qed.

Lemma sumsq_scale a n row : sumsq (map (fun x => a * x / n) row) = (a / n) * (a / n) * sumsq row.
Proof. unfold sumsq. rewrite map_map. induction row as [|x t IH]; cbn [map rsum]; [ring|]. rewrite IH. unfold Rdiv. ring. Qed.

Lemma weightnorm_row_norm s row : Exists (fun x => x <> 0) row -> 0 < s -> norm ROps (wn_row ROps s row) = s.
Proof.
  intros Hr Hs. rewrite norm_eq, wn_row_eq. pose proof (sumsq_pos row Hr) as HS.
  set (n := sqrt (sumsq row)). assert (Hn : 0 < n) by (apply sqrt_lt_R0, HS).
  assert (Hnn : n * n = sumsq row) by (apply sqrt_sqrt; lra).
  rewrite (sumsq_scale s n row). replace (s / n * (s / n) * sumsq row) with (s * s).
  - apply sqrt_square. lra.
  - rewrite <- Hnn. field. lra.
Qed.

Lemma weightnorm_rows_norm : forall raw rows, length raw = length rows -> Forall (Exists (fun x => x <> 0)) rows ->
  map (norm ROps) (wn_unwrap ROps raw rows) = pos_unwrap ROps raw.
Proof.
  unfold wn_unwrap, pos_unwrap. induction raw as [|r raw IH]; intros [|row rows] Hl Hr; try discriminate; [reflexivity|].
  cbn [combine map fst snd]. inversion Hr; subst. injection Hl as Hl.
  rewrite weightnorm_row_norm by (try assumption; apply softplus_pos). now rewrite (IH rows Hl).
Qed.

(* what WeightNormalization.__init__ stores: the norm parameter starts at 1/||row|| (as coded) *)
Lemma weightnorm_ctor_scale rows : Forall (Exists (fun x => x <> 0)) rows ->
  pos_unwrap ROps (wn_init ROps rows) = map (fun r => 1 / norm ROps r) rows.
Proof.
  unfold pos_unwrap, wn_init. rewrite map_map. induction 1 as [|r t Hr Ht IH]; cbn [map]; [reflexivity|].
  rewrite IH. f_equal. rops. apply softplus_roundtrip. rewrite norm_eq.
  pose proof (sumsq_pos r Hr). assert (0 < sqrt (sumsq r)) by (apply sqrt_lt_R0; lra).
  unfold Rdiv. rewrite Rmult_1_l. now apply Rinv_0_lt_compat.
Qed.

(* ------------------------------------------------------------------ triangular matrices / MVN *)
Lemma nth_map_seq {T} (F : nat -> T) n i d : (i < n)%nat -> nth i (map F (seq 0 n)) d = F i.
Proof. intros H. rewrite (nth_indep _ d (F 0%nat)) by (now rewrite map_length, seq_length). rewrite map_nth, seq_nth by exact H. reflexivity. Qed.
Lemma nth_pos_unwrap raw i : (i < length raw)%nat -> nth i (pos_unwrap ROps raw) 0 = softplus ROps (nth i raw 0).
Proof. intros H. unfold pos_unwrap. rewrite (nth_indep _ 0 (softplus ROps 0)) by (now rewrite map_length). apply map_nth. Qed.

Lemma tri_entry_diag lower d arr i : tri_entry ROps lower d arr i i = nth i d 0.
Proof. unfold tri_entry. rewrite Nat.eqb_refl, Nat.ltb_irrefl. destruct lower; rops; lra. Qed.
Lemma tri_entry_off lower d arr i j : i <> j ->
  tri_entry ROps lower d arr i j = if (if lower then Nat.ltb j i else Nat.ltb i j) then getm ROps arr i j else 0.
Proof. intros H. unfold tri_entry. apply Nat.eqb_neq in H. rewrite H. rops. destruct (if lower then _ else _); lra. Qed.

(* the diagonal of the unwrapped triangular matrix is positive for every raw diagonal, every arr *)
Lemma tri_diag_pos lower raw arr i : (i < length raw)%nat -> 0 < tri_entry ROps lower (pos_unwrap ROps raw) arr i i.
Proof. intros H. rewrite tri_entry_diag, nth_pos_unwrap by exact H. apply softplus_pos. Qed.

Definition square (L : list (list R)) : Prop := Forall (fun r => length r = length L) L.
Definition diag_positive (L : list (list R)) : Prop := forall i, (i < length L)%nat -> 0 < getm ROps L i i.
Lemma diag_of_pos L : diag_positive L -> Forall (fun y => 0 < y) (diag_of ROps L).
Proof. intros H. unfold diag_of. apply Forall_forall. intros y Hy. apply in_map_iff in Hy as (i & <- & Hi). apply in_seq in Hi. apply H. lia. Qed.
Lemma tri_rejects_spec L : tri_rejects ROps L = false <-> diag_positive L.
Proof.
  unfold tri_rejects. rewrite pos_rejects_spec. split; [|apply diag_of_pos].
  intros H i Hi. rewrite Forall_forall in H. apply H. unfold diag_of. apply in_map_iff. exists i. split; [reflexivity|apply in_seq; lia].
Qed.

(* constructor round trip, entry by entry: the selected triangle (diagonal included) is reproduced, the rest is 0 *)
Lemma tri_roundtrip lower L i j : diag_positive L -> (i < length L)%nat -> (j < length L)%nat ->
  tri_entry ROps lower (pos_unwrap ROps (tri_init ROps L)) L i j =
  if Nat.eqb i j then getm ROps L i j else if (if lower then Nat.ltb j i else Nat.ltb i j) then getm ROps L i j else 0.
Proof.
  intros Hd Hi Hj. unfold tri_init. rewrite pos_roundtrip by (apply diag_of_pos, Hd).
  destruct (Nat.eqb i j) eqn:E.
  - apply Nat.eqb_eq in E. subst j. rewrite tri_entry_diag. unfold diag_of. now rewrite nth_map_seq.
  - apply Nat.eqb_neq in E. now rewrite tri_entry_off.
Qed.

Lemma tri_roundtrip_list L : square L -> diag_positive L ->
  (forall i j, (i < length L)%nat -> (j < length L)%nat -> (i < j)%nat -> getm ROps L i j = 0) ->
  tri_unwrap ROps true (tri_init ROps L) L = L.
Proof.
  intros Hsq Hd Hlow. unfold tri_unwrap, tri_of. set (n := length L).
  apply (nth_ext _ _ [] []); [now rewrite map_length, seq_length|].
  intros i Hi. rewrite map_length, seq_length in Hi. rewrite nth_map_seq by exact Hi.
  assert (Hrow : length (nth i L []) = n). { unfold square in Hsq. rewrite Forall_forall in Hsq. apply Hsq, nth_In, Hi. }
  apply (nth_ext _ _ 0 0); [now rewrite map_length, seq_length|].
  intros j Hj. rewrite map_length, seq_length in Hj. rewrite nth_map_seq by exact Hj.
  rewrite tri_roundtrip by assumption. fold (getm ROps L i j).
  destruct (Nat.eqb i j) eqn:E; [reflexivity|]. destruct (Nat.ltb j i) eqn:E2; [reflexivity|].
  apply Nat.eqb_neq in E. apply Nat.ltb_ge in E2. symmetry. apply Hlow; try assumption. lia.
Qed.

(* MultivariateNormal: with L any lower-triangular factor with positive diagonal and L L^T = cov (what
   linalg.cholesky returns for a positive-definite cov), the covariance property reproduces cov *)
Lemma mvn_covariance_roundtrip L cov : square L -> diag_positive L ->
  (forall i j, (i < length L)%nat -> (j < length L)%nat -> (i < j)%nat -> getm ROps L i j = 0) ->
  mmulT ROps L = cov ->
  mmulT ROps (tri_unwrap ROps true (tri_init ROps L) L) = cov.
Proof. intros Hsq Hd Hlow Hc. now rewrite tri_roundtrip_list. Qed.

(* ------------------------------------------------------------------ Permute: the permutation check *)
Open Scope Z_scope.
Lemma insertZ_perm x l : Permutation (insertZ x l) (x :: l).
Proof.
  induction l as [|y t IH]; cbn [insertZ]; [reflexivity|]. destruct (x <=? y); [reflexivity|].
  rewrite IH. apply perm_swap.
Qed.
Lemma sortZ_perm l : Permutation (sortZ l) l.
Proof. induction l as [|x t IH]; cbn [sortZ fold_right]; [reflexivity|]. fold (sortZ t). rewrite insertZ_perm. now constructor. Qed.
Lemma insertZ_sorted x l : StronglySorted Z.le l -> StronglySorted Z.le (insertZ x l).
Proof.
  induction 1 as [|y t Ht IH Hy]; cbn [insertZ]; [repeat constructor|].
  destruct (x <=? y) eqn:E.
  - apply Z.leb_le in E. constructor; [now constructor|]. constructor; [exact E|].
    eapply Forall_impl; [|exact Hy]. cbn. intros z Hz. lia.
  - apply Z.leb_gt in E. constructor; [exact IH|].
    eapply Permutation_Forall; [symmetry; apply insertZ_perm|]. constructor; [lia|exact Hy].
Qed.
Lemma sortZ_sorted l : StronglySorted Z.le (sortZ l).
Proof. induction l as [|x t IH]; cbn [sortZ fold_right]; [constructor|]. apply insertZ_sorted, IH. Qed.
Lemma seqZ_sorted a n : StronglySorted Z.le (map Z.of_nat (seq a n)).
Proof.
  revert a. induction n as [|n IH]; intros a; cbn [seq map]; constructor; [apply IH|].
  apply Forall_forall. intros z Hz. apply in_map_iff in Hz as (m & <- & Hm). apply in_seq in Hm. lia.
Qed.
Lemma sorted_perm_unique : forall l1 l2, StronglySorted Z.le l1 -> StronglySorted Z.le l2 -> Permutation l1 l2 -> l1 = l2.
Proof.
  induction l1 as [|a t IH]; intros l2 H1 H2 HP.
  - now apply Permutation_nil in HP.
  - destruct l2 as [|b t2]; [apply Permutation_sym, Permutation_nil in HP; discriminate|].
    inversion H1 as [|? ? Ht Ha]; subst. inversion H2 as [|? ? Ht2 Hb]; subst.
    assert (a = b).
    { assert (Hin1 : In a (b :: t2)) by (eapply Permutation_in; [exact HP|now left]).
      assert (Hin2 : In b (a :: t)) by (eapply Permutation_in; [symmetry; exact HP|now left]).
      rewrite Forall_forall in Ha, Hb.
      destruct Hin1 as [->|Hin1]; [reflexivity|]. destruct Hin2 as [->|Hin2]; [reflexivity|].
      specialize (Ha b Hin2). specialize (Hb a Hin1). lia. }
    subst b. f_equal. apply IH; try assumption. now apply Permutation_cons_inv in HP.
Qed.
Lemma list_eqbZ_spec : forall a b, list_eqbZ a b = true <-> a = b.
Proof.
  induction a as [|x s IH]; intros [|y t]; cbn [list_eqbZ]; try (split; [discriminate|discriminate]); [tauto|].
  rewrite andb_true_iff, Z.eqb_eq, IH. split; [intros [-> ->]; reflexivity|intros E; injection E; auto].
Qed.

(* Permute accepts exactly the permutations of 0 .. size-1 *)
Lemma perm_rejects_spec p : perm_rejects p = false <-> Permutation p (rangeZ (length p)).
Proof.
  unfold perm_rejects. rewrite negb_false_iff, list_eqbZ_spec. split.
  - intros E. rewrite <- E. symmetry. apply sortZ_perm.
  - intros HP. apply sorted_perm_unique; [apply sortZ_sorted|apply seqZ_sorted|]. now rewrite sortZ_perm.
Qed.
Close Scope Z_scope.

(* ------------------------------------------------------------------ the statements of Props/C11.v
   (grouped: Print Assumptions over the Reals library costs ~1.5 s per theorem) *)
Definition nonzero (w : list R) : Prop := Exists (fun x => x <> 0) w.
Definition lower_triangular (L : list (list R)) : Prop :=
  forall i j, (i < length L)%nat -> (j < length L)%nat -> (i < j)%nat -> getm ROps L i j = 0.

Lemma positive_reparam_all :
  (forall x, 0 < softplus ROps x) /\
  (forall raw, Forall (fun s => 0 < s) (pos_unwrap ROps raw)) /\
  (forall y, 0 < y -> 0 < - (exp (- y) - 1) /\ softplus ROps (softplus_inv ROps y) = y) /\
  (forall v, Forall (fun y => 0 < y) v -> pos_unwrap ROps (pos_init ROps v) = v).
Proof.
  split; [exact softplus_pos|]. split; [exact pos_unwrap_pos|]. split; [|exact pos_roundtrip].
  intros y Hy. split; [now apply softplus_inv_safe|now apply softplus_roundtrip].
Qed.

Lemma ctor_rejects_all :
  (forall v, pos_rejects ROps v = false <-> Forall (fun y => 0 < y) v) /\
  (forall v, pos_rejects ROps v = false -> pos_unwrap ROps (pos_init ROps v) = v) /\
  (forall v, df_rejects ROps v = false <-> Forall (fun y => 0 < y) v) /\
  (forall w, mix_rejects ROps w = false <-> Forall (fun y => 0 < y) w) /\
  (forall lo hi, uniform_rejects ROps lo hi = false <-> lo < hi) /\
  (forall L, tri_rejects ROps L = false <-> diag_positive L) /\
  (forall r, r <> 0 -> (rate_rejects ROps r = false <-> 0 < r)) /\
  (forall ms, min_scale_rejects ROps ms = false <-> ms < 1) /\
  (forall s, planar_rejects ROps s = false <-> 0 < s) /\
  (forall adj, knots_rejects ROps adj = false <-> 0 <= adj).
Proof.
  split; [exact pos_rejects_spec|]. split; [exact ctor_accepts_roundtrip|]. split; [exact df_rejects_spec|].
  split; [exact mix_rejects_spec|]. split; [exact uniform_rejects_spec|]. split; [exact tri_rejects_spec|].
  split; [exact rate_rejects_spec|]. split; [exact min_scale_rejects_spec|]. split; [exact planar_rejects_spec|].
  exact knots_rejects_spec.
Qed.

Lemma uniform_rate_all :
  (forall lo hi, lo < hi -> uniform_maxval ROps lo (uniform_init ROps lo hi) = hi) /\
  (forall lo raw, lo < uniform_maxval ROps lo raw) /\
  (forall r, 0 < r -> rate_of ROps (rate_init ROps r) = r) /\
  (forall raw, 0 < rate_of ROps raw).
Proof. repeat split; [exact uniform_roundtrip|exact uniform_maxval_gt|exact rate_roundtrip|exact rate_pos]. Qed.

Lemma min_scale_all :
  (forall ms x, ms < min_scale_unwrap ROps ms x) /\
  (forall ms, ms < 1 -> min_scale_unwrap ROps ms (min_scale_init ROps ms) = 1).
Proof. split; [exact min_scale_floor|exact min_scale_roundtrip]. Qed.

Lemma derivatives_all :
  (forall md raw, Forall (fun d => md < d) (derivs ROps md raw) /\ length (derivs ROps md raw) = length raw) /\
  (forall md, md < 1 -> 0 < exp (1 - md) - 1 /\ derivs ROps md [deriv_init ROps md] = [1]).
Proof.
  split; [intros md raw; split; [apply derivs_floor|apply derivs_length]|].
  intros md H. split; [now apply deriv_init_safe|now apply deriv_init_roundtrip].
Qed.

Lemma planar_all : forall w u, nonzero w -> length u = length w ->
  -1 < planar_wu ROps None w u /\
  (forall slope, 0 < slope ->
     - 1 / Rmax 1 slope < planar_wu ROps (Some slope) w u /\
     0 < planar_denom ROps slope 1 w u /\ 0 < planar_denom ROps slope slope w u).
Proof.
  intros w u Hw Hl. split; [now apply planar_invertible_tanh|]. intros slope Hs.
  split; [now apply planar_wu_leaky|now apply planar_leaky_both].
Qed.

Lemma mixture_all :
  (forall raw, raw <> [] ->
     Forall (fun w => 0 < w) (mix_weights ROps raw) /\ sum ROps (mix_weights ROps raw) = 1 /\
     length (mix_weights ROps raw) = length raw /\ map exp (mix_logw ROps raw) = mix_weights ROps raw) /\
  (forall w, Forall (fun x => 0 < x) w -> w <> [] ->
     mix_weights ROps (mix_init ROps w) = map (fun x => x / sum ROps w) w).
Proof.
  split; [|exact mixture_ctor_roundtrip]. intros raw H. destruct (mixture_weights_valid raw H) as (A & B & C).
  repeat split; try assumption.
Qed.

Lemma weightnorm_all :
  (forall s row, nonzero row -> 0 < s -> norm ROps (wn_row ROps s row) = s) /\
  (forall raw rows, length raw = length rows -> Forall nonzero rows ->
     map (norm ROps) (wn_unwrap ROps raw rows) = pos_unwrap ROps raw) /\
  (forall rows, Forall nonzero rows -> pos_unwrap ROps (wn_init ROps rows) = map (fun r => 1 / norm ROps r) rows).
Proof. repeat split; [exact weightnorm_row_norm|exact weightnorm_rows_norm|exact weightnorm_ctor_scale]. Qed.

Lemma triangular_all :
  (forall lower raw arr i, (i < length raw)%nat -> 0 < tri_entry ROps lower (pos_unwrap ROps raw) arr i i) /\
  (forall lower L i j, diag_positive L -> (i < length L)%nat -> (j < length L)%nat ->
     tri_entry ROps lower (pos_unwrap ROps (tri_init ROps L)) L i j =
     if Nat.eqb i j then getm ROps L i j else if (if lower then Nat.ltb j i else Nat.ltb i j) then getm ROps L i j else 0) /\
  (forall L cov, square L -> diag_positive L -> lower_triangular L -> mmulT ROps L = cov ->
     mmulT ROps (tri_unwrap ROps true (tri_init ROps L) L) = cov).
Proof. repeat split; [exact tri_diag_pos|exact tri_roundtrip|exact mvn_covariance_roundtrip]. Qed.
