(* C02 -- a LOCAL inverse function theorem at one point, and with it the rank-0 Invert log-det law
   without the differentiability hypothesis of [inverse_is_ldj_partial]:
     f differentiable at g y with derivative d <> 0, f (g t) = t near y, g continuous at y
     ==> g differentiable at y with derivative / d.
   Continuity of g at y cannot be dropped (a right inverse may jump to another branch of f):
   [invert_ldj_needs_continuity] is the counterexample. *)
From Coq Require Import Reals Lra Psatz.
From Coquelicot Require Import Coquelicot.
From FJ Require Import Proofs.LeafDerivP.
Open Scope R_scope.

Section LocalInverse.
  Variables (f g : R -> R) (y d eps : R).
  Hypothesis Df : is_derive f (g y) d.
  Hypothesis Hd : d <> 0.
  Hypothesis Heps : 0 < eps.
  Hypothesis fg : forall t, y - eps < t < y + eps -> f (g t) = t.
  Hypothesis Cg : continuous g y.

  Lemma local_inv_derive : is_derive g y (/ d).
  Proof.
    apply is_derive_Reals. intros e He.
    set (x := g y).
    set (eta := Rmin (Rabs d / 2) (e * (Rabs d * Rabs d) / 2)).
    assert (Hdp : 0 < Rabs d) by (apply Rabs_pos_lt, Hd).
    assert (Heta : 0 < eta).
    { unfold eta. apply Rmin_case; [lra|]. apply Rmult_lt_0_compat; [|lra]. apply Rmult_lt_0_compat; [lra | nra]. }
    pose proof Df as Dx. apply is_derive_Reals in Dx.
    destruct (Dx eta Heta) as [delta Hdelta].
    pose proof Cg as Cy. apply continuity_pt_filterlim in Cy.
    destruct (Cy delta (cond_pos delta)) as [rho [Hrho Hg]].
    assert (Hm : 0 < Rmin rho eps) by (apply Rmin_case; lra).
    exists (mkposreal _ Hm). intros h Hh0 Hh. cbn in Hh.
    assert (Hh1 : Rabs h < rho) by (pose proof (Rmin_l rho eps); lra).
    assert (Hh2 : Rabs h < eps) by (pose proof (Rmin_r rho eps); lra).
    assert (Iy : y - eps < y < y + eps) by lra.
    assert (Iyh : y - eps < y + h < y + eps) by (apply Rabs_def2 in Hh2; lra).
    set (k := g (y + h) - x).
    assert (Hk0 : k <> 0).
    { unfold k. intros E. assert (E' : g (y + h) = g y) by (unfold x in E; lra).
      apply (f_equal f) in E'. rewrite (fg _ Iy), (fg _ Iyh) in E'. lra. }
    assert (Hkd : Rabs k < delta).
    { unfold k. destruct (Req_dec (y + h) y) as [E|E]; [exfalso; lra|].
      apply (Hg (y + h)). split; [split; [exact I | intros E'; apply E; symmetry; exact E'] |].
      unfold Rlimit.dist; simpl. unfold R_dist. replace (y + h - y) with h by ring. exact Hh1. }
    pose proof (Hdelta k Hk0 Hkd) as Q.
    assert (Efk : f (g y + k) - f (g y) = h).
    { unfold k, x. replace (g y + (g (y + h) - g y)) with (g (y + h)) by ring.
      rewrite (fg _ Iy), (fg _ Iyh). ring. }
    rewrite Efk in Q.
    replace (g (y + h) - g y) with k by (unfold k, x; ring).
    assert (Hhk : h / k <> 0) by (unfold Rdiv; apply Rmult_integral_contrapositive_currified; [exact Hh0 | apply Rinv_neq_0_compat, Hk0]).
    set (r := h / k) in *.
    assert (Er : k / h = / r) by (unfold r; field; split; assumption).
    rewrite Er.
    assert (Hr : Rabs d / 2 < Rabs r).
    { assert (Rabs d - Rabs r <= Rabs (r - d)) by (rewrite (Rabs_minus_sym r d); apply Rabs_triang_inv).
      pose proof (Rmin_l (Rabs d / 2) (e * (Rabs d * Rabs d) / 2)) as Hl. fold eta in Hl. lra. }
    replace (/ r - / d) with ((d - r) / (r * d)) by (field; split; [exact Hd | intros E; apply Hhk; exact E]).
    unfold Rdiv. rewrite Rabs_mult, Rabs_Rinv by (apply Rmult_integral_contrapositive_currified; [intros E; apply Hhk; exact E | exact Hd]).
    rewrite Rabs_mult, (Rabs_minus_sym d r).
    assert (Hrd : Rabs d * Rabs d / 2 < Rabs r * Rabs d) by nra.
    assert (Hq : Rabs (r - d) < e * (Rabs d * Rabs d) / 2).
    { pose proof (Rmin_r (Rabs d / 2) (e * (Rabs d * Rabs d) / 2)) as Hr'. fold eta in Hr'. lra. }
    apply Rmult_lt_reg_r with (Rabs r * Rabs d); [nra|].
    rewrite Rmult_assoc, Rinv_l by nra. nra.
  Qed.
End LocalInverse.

(* the rank-0 Invert law with NO differentiability hypothesis on the inverse map *)
Lemma inverse_is_ldj (f g : R -> R) (y lf eps : R) :
  is_ldj f (g y) lf -> 0 < eps -> (forall t, y - eps < t < y + eps -> f (g t) = t) ->
  continuous g y -> is_ldj g y (- lf).
Proof.
  intros [d [D [N L]]] He Hfg Cg.
  apply (inverse_is_ldj_partial f g y lf (/ d) eps); [exists d; auto | exact He | exact Hfg |].
  apply (local_inv_derive f g y d eps); assumption.
Qed.

(* ... and the derivative itself *)
Lemma inverse_derive_value (f g : R -> R) (y d eps : R) :
  is_derive f (g y) d -> d <> 0 -> 0 < eps -> (forall t, y - eps < t < y + eps -> f (g t) = t) ->
  continuous g y -> is_derive g y (/ d).
Proof. intros. apply (local_inv_derive f g y d eps); assumption. Qed.

(* Continuity of g cannot be dropped: f has two branches, g is a right inverse that jumps between them at 0. *)
Definition cx_f (x : R) : R := if Rlt_dec x 5 then x else x - 10.
Definition cx_g (t : R) : R := if Rle_dec t 0 then t else t + 10.

Lemma cx_fg t : -1 < t < 1 -> cx_f (cx_g t) = t.
Proof.
  intros Ht. unfold cx_f, cx_g. destruct (Rle_dec t 0) as [H|H].
  - destruct (Rlt_dec t 5); lra.
  - destruct (Rlt_dec (t + 10) 5); lra.
Qed.

Lemma cx_f_ldj : is_ldj cx_f (cx_g 0) 0.
Proof.
  assert (E : cx_g 0 = 0) by (unfold cx_g; destruct (Rle_dec 0 0); lra). rewrite E.
  exists 1. split; [|split; [lra | rewrite Rabs_R1, ln_1; reflexivity]].
  apply (is_derive_loc _ (fun t => t) 0 1 1 ltac:(lra)).
  - intros t Ht. unfold cx_f. destruct (Rlt_dec t 5); lra.
  - auto_derive; [exact I | ring].
Qed.

Theorem invert_ldj_needs_continuity :
  is_ldj cx_f (cx_g 0) 0 /\ (forall t, 0 - 1 < t < 0 + 1 -> cx_f (cx_g t) = t) /\ ~ (exists l, is_ldj cx_g 0 l).
Proof.
  split; [exact cx_f_ldj | split; [intros t Ht; apply cx_fg; lra |]].
  intros [l [e [D _]]].
  assert (C : continuous cx_g 0) by (apply (ex_derive_continuous cx_g); exists e; exact D).
  apply continuity_pt_filterlim in C.
  destruct (C 1 ltac:(lra)) as [rho [Hrho Hc]].
  set (t := Rmin (rho / 2) 1).
  assert (Ht : 0 < t) by (unfold t; apply Rmin_case; lra).
  assert (Ht2 : t < rho) by (unfold t; pose proof (Rmin_l (rho / 2) 1); lra).
  specialize (Hc t). unfold Rlimit.dist in Hc; simpl in Hc; unfold R_dist in Hc.
  assert (G0 : cx_g 0 = 0) by (unfold cx_g; destruct (Rle_dec 0 0); lra).
  assert (Gt : cx_g t = t + 10) by (unfold cx_g; destruct (Rle_dec t 0); lra).
  rewrite G0, Gt in Hc.
  assert (Q : Rabs (t + 10 - 0) < 1).
  { apply Hc. split; [split; [exact I | lra] |]. rewrite Rabs_right; lra. }
  rewrite Rabs_right in Q; lra.
Qed.
