(* Pointwise (multi-index) characterisation of the axis operations the definition-shaped semantics [den]
   is written with: take, slice, concatenate, expand_dims, stack along an axis -- i.e. that they are
   jnp.take / x[..., a:b, ...] / jnp.concatenate / jnp.stack.  Closed under the global context. *)
From Coq Require Import List ZArith Bool Arith Lia ZifyBool.
From FJ Require Import Model.Num Model.Tensor Proofs.TensorP.
Import ListNotations.

Lemma nth_error_skipn' {X} (l : list X) a j : nth_error (skipn a l) j = nth_error l (a + j).
Proof. revert l; induction a as [|a IH]; intros [|x l]; cbn; auto. now destruct j. Qed.
Lemma nth_error_firstn' {X} (l : list X) m j : nth_error (firstn m l) j = if j <? m then nth_error l j else None.
Proof.
  revert l j; induction m as [|m IH]; intros l j.
  - cbn. now destruct j.
  - destruct l as [|x l]; cbn [firstn].
    + destruct (j <? S m); now destruct j.
    + destruct j as [|j]; [reflexivity|]. cbn [nth_error]. rewrite IH. reflexivity.
Qed.
Lemma nth_error_firstn_skipn {X} (l : list X) a m j :
  nth_error (firstn m (skipn a l)) j = if j <? m then nth_error l (a + j) else None.
Proof. rewrite nth_error_firstn', nth_error_skipn'. reflexivity. Qed.

Section G.
  Context {A : Type}.
  Notation tens := (tensor A).
  Implicit Types (t u : tens).

  Lemma tget_dflt I : tget (@dflt A) I = None.
  Proof. destruct I as [|i I]; [reflexivity|]. cbn. now destruct i. Qed.

  (* jnp.take(t, i, axis=k)[I1, I2] = t[I1, i, I2] *)
  Theorem tget_tindex pre n post : forall t i I1 I2, has_shape (pre ++ n :: post) t = true -> length I1 = length pre ->
    tget (tindex (length pre) i t) (I1 ++ I2) = tget t (I1 ++ i :: I2).
  Proof.
    induction pre as [|p pre IH]; intros t i I1 I2 H L.
    - destruct I1; [|discriminate]. cbn [app length] in *. apply has_shape_cons in H as (l & -> & _ & _).
      cbn [tindex tget]. destruct (nth_error l i) as [u|] eqn:E.
      + now rewrite (nth_error_nth _ _ _ E).
      + rewrite nth_overflow by now apply nth_error_None. apply tget_dflt.
    - destruct I1 as [|j I1]; [discriminate|]. cbn [app length] in *. apply has_shape_cons in H as (l & -> & _ & Hf).
      cbn [tindex tget]. rewrite nth_error_map. destruct (nth_error l j) as [u|] eqn:E; [|reflexivity]. cbn [option_map].
      apply IH; [|lia]. rewrite Forall_forall in Hf. apply Hf. eapply nth_error_In; eauto.
  Qed.

  (* t[..., a:b, ...][I1, j, I2] = t[I1, a + j, I2] for j < b - a *)
  Theorem tget_tslice pre n post : forall t a b j I1 I2, has_shape (pre ++ n :: post) t = true -> length I1 = length pre ->
    tget (tslice (length pre) a b t) (I1 ++ j :: I2) = if j <? b - a then tget t (I1 ++ (a + j) :: I2) else None.
  Proof.
    induction pre as [|p pre IH]; intros t a b j I1 I2 H L.
    - destruct I1; [|discriminate]. cbn [app length] in *. apply has_shape_cons in H as (l & -> & _ & _).
      cbn [tslice tget]. rewrite nth_error_firstn_skipn. now destruct (j <? b - a).
    - destruct I1 as [|i I1]; [discriminate|]. cbn [app length] in *. apply has_shape_cons in H as (l & -> & _ & Hf).
      cbn [tslice tget]. rewrite nth_error_map. destruct (nth_error l i) as [u|] eqn:E; cbn [option_map]; [|now destruct (j <? b - a)].
      apply IH; [|lia]. rewrite Forall_forall in Hf. apply Hf. eapply nth_error_In; eauto.
  Qed.

  Lemma map2o_nth {X Y Z} (f : X -> Y -> option Z) l1 l2 r j : map2o f l1 l2 = Some r ->
    match nth_error l1 j, nth_error l2 j with
    | Some a, Some b => exists c, nth_error r j = Some c /\ f a b = Some c
    | _, _ => nth_error r j = None
    end.
  Proof.
    revert l2 r j. induction l1 as [|a l1 IH]; intros [|b l2] r j H; cbn in H; try discriminate.
    - injection H as <-. now destruct j.
    - destruct (f a b) as [c0|] eqn:Ef; [|discriminate]. destruct (map2o f l1 l2) as [r'|] eqn:Er; [|discriminate].
      injection H as <-. destruct j as [|j]; cbn; [eauto|]. apply IH. exact Er.
  Qed.

  (* jnp.concatenate([t1, t2], axis=k)[I1, j, I2] = t1[I1, j, I2] if j < n1 else t2[I1, j - n1, I2] *)
  Theorem tget_tcat2 pre n1 n2 post : forall t1 t2 t j I1 I2,
    has_shape (pre ++ n1 :: post) t1 = true -> has_shape (pre ++ n2 :: post) t2 = true ->
    tcat2 (length pre) t1 t2 = Some t -> length I1 = length pre ->
    tget t (I1 ++ j :: I2) = if j <? n1 then tget t1 (I1 ++ j :: I2) else tget t2 (I1 ++ (j - n1) :: I2).
  Proof.
    induction pre as [|p pre IH]; intros t1 t2 t j I1 I2 H1 H2 Hc L.
    - destruct I1; [|discriminate]. cbn [app length] in *.
      apply has_shape_cons in H1 as (l1 & -> & L1 & _). apply has_shape_cons in H2 as (l2 & -> & L2 & _).
      cbn [tcat2] in Hc. injection Hc as <-. cbn [tget]. subst n1.
      destruct (j <? length l1) eqn:E.
      + rewrite nth_error_app1 by lia. reflexivity.
      + rewrite nth_error_app2 by lia. reflexivity.
    - destruct I1 as [|i I1]; [discriminate|]. cbn [app length] in *.
      apply has_shape_cons in H1 as (l1 & -> & L1 & F1). apply has_shape_cons in H2 as (l2 & -> & L2 & F2).
      cbn [tcat2] in Hc. destruct (map2o (tcat2 (length pre)) l1 l2) as [r|] eqn:Er; [|discriminate].
      cbn in Hc. injection Hc as <-. cbn [tget].
      pose proof (map2o_nth _ _ _ _ i Er) as Hn.
      destruct (nth_error l1 i) as [u1|] eqn:E1.
      + destruct (nth_error l2 i) as [u2|] eqn:E2.
        * destruct Hn as (c0 & -> & Hc0). apply (IH u1 u2); auto; try lia.
          -- rewrite Forall_forall in F1. apply F1. eapply nth_error_In; eauto.
          -- rewrite Forall_forall in F2. apply F2. eapply nth_error_In; eauto.
        * exfalso. apply nth_error_None in E2. assert (i < length l1) by (apply nth_error_Some; congruence). lia.
      + rewrite Hn. destruct (nth_error l2 i) eqn:E2; [|now destruct (j <? n1)].
        exfalso. apply nth_error_None in E1. assert (i < length l2) by (apply nth_error_Some; congruence). lia.
  Qed.

  (* jnp.expand_dims(t, k)[I1, 0, I2] = t[I1, I2] *)
  Theorem tget_texpand pre post : forall t I1 I2, has_shape (pre ++ post) t = true -> length I1 = length pre ->
    tget (texpand (length pre) t) (I1 ++ 0 :: I2) = tget t (I1 ++ I2).
  Proof.
    induction pre as [|p pre IH]; intros t I1 I2 H L.
    - destruct I1; [|discriminate]. reflexivity.
    - destruct I1 as [|i I1]; [discriminate|]. cbn [app length] in *. apply has_shape_cons in H as (l & -> & _ & Hf).
      cbn [texpand tget]. rewrite nth_error_map. destruct (nth_error l i) as [u|] eqn:E; [|reflexivity]. cbn [option_map].
      apply IH; [|lia]. rewrite Forall_forall in Hf. apply Hf. eapply nth_error_In; eauto.
  Qed.

  (* jnp.stack(ts, axis=k)[I1, j, I2] = ts[j][I1, I2] *)
  Theorem tget_tstack pre post : forall ts t j I1 I2,
    Forall (fun u => has_shape (pre ++ post) u = true) ts -> tstack (length pre) ts = Some t ->
    length I1 = length pre -> j < length ts ->
    tget t (I1 ++ j :: I2) = tget (nth j ts dflt) (I1 ++ I2).
  Proof.
    unfold tstack. induction ts as [|u ts IH]; intros t j I1 I2 F Hs L Hj; [cbn in Hj; lia|].
    inversion F as [|? ? Hu F']; subst.
    destruct ts as [|u' ts].
    - cbn [map tcat] in Hs. destruct (texpand (length pre) u) eqn:E; [discriminate|]. injection Hs as <-.
      cbn in Hj. assert (j = 0) by lia. subst j. rewrite <- E. now apply (tget_texpand pre post).
    - change (tcat (length pre) (map (texpand (length pre)) (u :: u' :: ts))) with
        (match tcat (length pre) (map (texpand (length pre)) (u' :: ts)) with
         | Some r => tcat2 (length pre) (texpand (length pre) u) r | None => None end) in Hs.
      destruct (tcat (length pre) (map (texpand (length pre)) (u' :: ts))) as [r|] eqn:Er; [|discriminate].
      destruct (tstack_shape pre post (u' :: ts)) as (r' & Hr' & Sr'); [discriminate|exact F'|].
      unfold tstack in Hr'. rewrite Er in Hr'. injection Hr' as <-.
      rewrite (tget_tcat2 pre 1 (length (u' :: ts)) post _ _ _ j I1 I2 (texpand_shape pre post u Hu) Sr' Hs L).
      destruct j as [|j].
      + cbn [Nat.ltb Nat.leb nth]. now apply (tget_texpand pre post).
      + replace (S j <? 1) with false by (symmetry; apply Nat.ltb_ge; lia).
        replace (S j - 1) with j by lia. cbn [nth]. apply IH; auto. cbn in Hj |- *. lia.
  Qed.
End G.

(* ---------- x.at[idx].set(y) followed by [idx] gives back y: the indexed entries receive exactly the new values
   (in-range, pairwise distinct positions; the frame property for the other entries is TensorP.tscatter_frame) ---------- *)
Lemma nth_upd_same {X} (l : list X) p v d : p < length l -> nth p (upd l p v) d = v.
Proof. revert p; induction l as [|a l IH]; intros [|p] H; cbn in *; try lia; auto. apply IH; lia. Qed.
Lemma nth_upd_other {X} (l : list X) p q v d : p <> q -> nth q (upd l p v) d = nth q l d.
Proof. revert p q; induction l as [|a l IH]; intros [|p] [|q] H; cbn; auto; try congruence. Qed.
Lemma map_combine_eq {X Y} (g : X -> Y) xs ys : length xs = length ys ->
  (forall x y, In (x, y) (combine xs ys) -> g x = y) -> map g xs = ys.
Proof.
  revert ys; induction xs as [|x xs IH]; intros [|y ys] L H; cbn in *; try discriminate; [reflexivity|].
  f_equal; [apply H; now left | apply IH; [lia | intros; apply H; now right]].
Qed.
Lemma map_fst_combine {X Y} (xs : list X) (ys : list Y) : length xs = length ys -> map fst (combine xs ys) = xs.
Proof. revert ys; induction xs as [|x xs IH]; intros [|y ys] L; cbn in *; try discriminate; [reflexivity|]. f_equal. apply IH. lia. Qed.

Section GS.
  Context {A : Type}.
  Notation tens := (tensor A).

  Fixpoint rs_ok (rs : list (list Z * bool)) (s : shape) : Prop :=
    match rs, s with
    | [], _ => True
    | (zs, _) :: rs', n :: s' => Forall (fun z => inrange n z = true) zs /\ NoDup zs /\ rs_ok rs' s'
    | _ :: _, [] => False
    end.

  Lemma to_nat_inj n z z' : inrange n z = true -> inrange n z' = true -> z <> z' -> Z.to_nat z <> Z.to_nat z'.
  Proof. rewrite !inrange_spec. lia. Qed.

  Lemma fold_put_spec (sc : tens -> tens -> tens) n : forall (zv : list (Z * tens)) (l0 : list tens),
    length l0 = n -> Forall (fun p => inrange n (fst p) = true) zv -> NoDup (map fst zv) ->
    let put := fun (l1 : list tens) (z : Z) (v : tens) =>
      if inrange n z then upd l1 (Z.to_nat z) (sc (nth (Z.to_nat z) l1 dflt) v) else l1 in
    let r := fold_left (fun l1 p => put l1 (fst p) (snd p)) zv l0 in
    length r = n /\
    (forall z v, In (z, v) zv -> nth (Z.to_nat z) r dflt = sc (nth (Z.to_nat z) l0 dflt) v) /\
    (forall p, (forall z, In z (map fst zv) -> Z.to_nat z <> p) -> nth p r dflt = nth p l0 dflt).
  Proof.
    induction zv as [|[z0 v0] zv IH]; intros l0 L F N put r.
    - subst r. cbn. split; [exact L|]. split; [intros z v []|reflexivity].
    - inversion F as [|? ? F0 F']; subst. cbn [map fst] in N. inversion N as [|? ? N0 N']; subst. cbn [fst] in F0.
      subst r. cbn [fold_left fst snd].
      assert (E1 : put l0 z0 v0 = upd l0 (Z.to_nat z0) (sc (nth (Z.to_nat z0) l0 dflt) v0)) by (unfold put; now rewrite F0).
      rewrite E1. set (l1 := upd l0 (Z.to_nat z0) (sc (nth (Z.to_nat z0) l0 dflt) v0)).
      assert (L1 : length l1 = length l0) by apply upd_length.
      destruct (IH l1 L1 F' N') as (R1 & R2 & R3). fold put in R1, R2, R3.
      assert (P0 : Z.to_nat z0 < length l0) by (apply inrange_spec in F0; lia).
      split; [exact R1|]. split.
      + intros z v [E|Hin].
        * injection E as <- <-. etransitivity; [apply R3|].
          2:{ unfold l1. now rewrite nth_upd_same. }
          intros z Hz. apply (to_nat_inj (length l0)); [|exact F0|].
          -- apply in_map_iff in Hz as (p & <- & Hp). rewrite Forall_forall in F'. now apply F'.
          -- intros ->. contradiction.
        * etransitivity; [apply (R2 z v Hin)|]. f_equal. unfold l1. apply nth_upd_other.
          apply (to_nat_inj (length l0)); [exact F0| |].
          -- rewrite Forall_forall in F'. now apply (F' (z, v)).
          -- intros ->. apply N0. apply in_map_iff. exists (z, v). auto.
      + intros p Hp. etransitivity; [apply R3; intros z Hz; apply Hp; now right|].
        unfold l1. apply nth_upd_other. apply Hp. now left.
  Qed.

  Theorem gather_scatter ix : forall s rs (x y : tens), resolve_idx ix s = Some rs -> rs_ok rs s ->
    has_shape s x = true -> has_shape (idx_shape rs s) y = true -> tgather rs (tscatter rs x y) = y.
  Proof.
    induction ix as [|i ix IH]; intros s rs x y Hr Hok Hx Hy.
    - destruct s; cbn in Hr; injection Hr as <-; reflexivity.
    - destruct s as [|n s]; [discriminate|]. cbn [resolve_idx] in Hr.
      destruct (resolve_sel n i) as [[zs keep]|] eqn:Es; [|discriminate].
      destruct (resolve_idx ix s) as [rs'|] eqn:Er; [|discriminate]. injection Hr as <-.
      apply resolve_sel_facts in Es as [Hn Hk]. cbn [rs_ok] in Hok. destruct Hok as (Fz & Nz & Hok').
      apply has_shape_cons in Hx as (l & -> & Hl & Hf). subst n.
      cbn [idx_shape] in Hy. cbn [tscatter]. cbn zeta.
      destruct keep.
      + apply has_shape_cons in Hy as (ys & -> & Ly & Fy).
        assert (Lc : map fst (combine zs ys) = zs) by (apply map_fst_combine; lia).
        destruct (fold_put_spec (tscatter rs') (length l) (combine zs ys) l eq_refl) as (R1 & R2 & _).
        { apply Forall_forall. intros [z v] Hin. apply in_combine_l in Hin. rewrite Forall_forall in Fz. now apply Fz. }
        { now rewrite Lc. }
        cbn zeta in R1, R2. cbn [tgather]. rewrite R1. f_equal.
        apply map_combine_eq; [lia|]. intros z v Hin.
        assert (Hz : inrange (length l) z = true) by (apply in_combine_l in Hin; rewrite Forall_forall in Fz; now apply Fz).
        assert (Ec : clampn (length l) z = Z.to_nat z) by (apply inrange_spec in Hz; unfold clampn; lia).
        rewrite Ec, (R2 z v Hin). apply (IH s rs'); auto.
        * apply nth_has_shape; [exact Hf|]. apply inrange_spec in Hz. lia.
        * apply in_combine_r in Hin. rewrite Forall_forall in Fy. now apply Fy.
      + destruct (Hk eq_refl) as [z ->]. inversion Fz as [|? ? Hz _]; subst.
        rewrite Hz. cbn [tgather]. rewrite upd_length.
        assert (Ec : clampn (length l) z = Z.to_nat z) by (apply inrange_spec in Hz; unfold clampn; lia).
        rewrite Ec, nth_upd_same by (apply inrange_spec in Hz; lia).
        apply (IH s rs'); auto. apply nth_has_shape; [exact Hf|]. apply inrange_spec in Hz. lia.
  Qed.
End GS.
