(* Pointwise (multi-index) characterisation of the axis operations the definition-shaped semantics [den]
   is written with: take, slice, concatenate, expand_dims, stack along an axis -- i.e. that they are
   jnp.take / x[..., a:b, ...] / jnp.concatenate / jnp.stack.  Closed under the global context. *)
From Coq Require Import List ZArith Bool Arith Lia ZifyBool.
From FJ Require Import Model.Num Model.Tensor Proofs.TensorP.
Import ListNotations.

Lemma nth_error_skipn' {X} (l : list X) a j : nth_error (skipn a l) j = nth_error l (a + j).
Proof. revert l; induction a as [|a IH]; intros [|x l]; cbn; auto. now destruct j. Qed.
Lemma nth_error_firstn' {X} (l : list X) m j : nth_error (firstn m l) j = if j <? m then nth_error l j else None.
Proof.
  revert l j; induction m as [|m IH]; intros l j.
  - cbn. now destruct j.
  - destruct l as [|x l]; cbn [firstn].
    + destruct (j <? S m); now destruct j.
    + destruct j as [|j]; [reflexivity|]. cbn [nth_error]. rewrite IH. reflexivity.
Qed.
Lemma nth_error_firstn_skipn {X} (l : list X) a m j :
  nth_error (firstn m (skipn a l)) j = if j <? m then nth_error l (a + j) else None.
Proof. rewrite nth_error_firstn', nth_error_skipn'. reflexivity. Qed.

Section G.
  Context {A : Type}.
  Notation tens := (tensor A).
  Implicit Types (t u : tens).

  Lemma tget_dflt I : tget (@dflt A) I = None.
  Proof. destruct I as [|i I]; [reflexivity|]. cbn. now destruct i. Qed.

  (* jnp.take(t, i, axis=k)[I1, I2] = t[I1, i, I2] *)
  Theorem tget_tindex pre n post : forall t i I1 I2, has_shape (pre ++ n :: post) t = true -> length I1 = length pre ->
    tget (tindex (length pre) i t) (I1 ++ I2) = tget t (I1 ++ i :: I2).
  Proof.
    induction pre as [|p pre IH]; intros t i I1 I2 H L.
    - destruct I1; [|discriminate]. cbn [app length] in *. apply has_shape_cons in H as (l & -> & _ & _).
      cbn [tindex tget]. destruct (nth_error l i) as [u|] eqn:E.
      + now rewrite (nth_error_nth _ _ _ E).
      + rewrite nth_overflow by now apply nth_error_None. apply tget_dflt.
    - destruct I1 as [|j I1]; [discriminate|]. cbn [app length] in *. apply has_shape_cons in H as (l & -> & _ & Hf).
      cbn [tindex tget]. rewrite nth_error_map. destruct (nth_error l j) as [u|] eqn:E; [|reflexivity]. cbn [option_map].
      apply IH; [|lia]. rewrite Forall_forall in Hf. apply Hf. eapply nth_error_In; eauto.
  Qed.

  (* t[..., a:b, ...][I1, j, I2] = t[I1, a + j, I2] for j < b - a *)
  Theorem tget_tslice pre n post : forall t a b j I1 I2, has_shape (pre ++ n :: post) t = true -> length I1 = length pre ->
    tget (tslice (length pre) a b t) (I1 ++ j :: I2) = if j <? b - a then tget t (I1 ++ (a + j) :: I2) else None.
  Proof.
    induction pre as [|p pre IH]; intros t a b j I1 I2 H L.
    - destruct I1; [|discriminate]. cbn [app length] in *. apply has_shape_cons in H as (l & -> & _ & _).
      cbn [tslice tget]. rewrite nth_error_firstn_skipn. now destruct (j <? b - a).
    - destruct I1 as [|i I1]; [discriminate|]. cbn [app length] in *. apply has_shape_cons in H as (l & -> & _ & Hf).
      cbn [tslice tget]. rewrite nth_error_map. destruct (nth_error l i) as [u|] eqn:E; cbn [option_map]; [|now destruct (j <? b - a)].
      apply IH; [|lia]. rewrite Forall_forall in Hf. apply Hf. eapply nth_error_In; eauto.
  Qed.

  Lemma map2o_nth {X Y Z} (f : X -> Y -> option Z) l1 l2 r j : map2o f l1 l2 = Some r ->
    match nth_error l1 j, nth_error l2 j with
    | Some a, Some b => exists c, nth_error r j = Some c /\ f a b = Some c
    | _, _ => nth_error r j = None
    end.
  Proof.
    revert l2 r j. induction l1 as [|a l1 IH]; intros [|b l2] r j H; cbn in H; try discriminate.
    - injection H as <-. now destruct j.
    - destruct (f a b) as [c0|] eqn:Ef; [|discriminate]. destruct (map2o f l1 l2) as [r'|] eqn:Er; [|discriminate].
      injection H as <-. destruct j as [|j]; cbn; [eauto|]. apply IH. exact Er.
  Qed.

  (* jnp.concatenate([t1, t2], axis=k)[I1, j, I2] = t1[I1, j, I2] if j < n1 else t2[I1, j - n1, I2] *)
  Theorem tget_tcat2 pre n1 n2 post : forall t1 t2 t j I1 I2,
    has_shape (pre ++ n1 :: post) t1 = true -> has_shape (pre ++ n2 :: post) t2 = true ->
    tcat2 (length pre) t1 t2 = Some t -> length I1 = length pre ->
    tget t (I1 ++ j :: I2) = if j <? n1 then tget t1 (I1 ++ j :: I2) else tget t2 (I1 ++ (j - n1) :: I2).
  Proof.
    induction pre as [|p pre IH]; intros t1 t2 t j I1 I2 H1 H2 Hc L.
    - destruct I1; [|discriminate]. cbn [app length] in *.
      apply has_shape_cons in H1 as (l1 & -> & L1 & _). apply has_shape_cons in H2 as (l2 & -> & L2 & _).
      cbn [tcat2] in Hc. injection Hc as <-. cbn [tget]. subst n1.
      destruct (j <? length l1) eqn:E.
      + rewrite nth_error_app1 by lia. reflexivity.
      + rewrite nth_error_app2 by lia. reflexivity.
    - destruct I1 as [|i I1]; [discriminate|]. cbn [app length] in *.
      apply has_shape_cons in H1 as (l1 & -> & L1 & F1). apply has_shape_cons in H2 as (l2 & -> & L2 & F2).
      cbn [tcat2] in Hc. destruct (map2o (tcat2 (length pre)) l1 l2) as [r|] eqn:Er; [|discriminate].
      cbn in Hc. injection Hc as <-. cbn [tget].
      pose proof (map2o_nth _ _ _ _ i Er) as Hn.
      destruct (nth_error l1 i) as [u1|] eqn:E1.
      + destruct (nth_error l2 i) as [u2|] eqn:E2.
        * destruct Hn as (c0 & -> & Hc0). apply (IH u1 u2); auto; try lia.
          -- rewrite Forall_forall in F1. apply F1. eapply nth_error_In; eauto.
          -- rewrite Forall_forall in F2. apply F2. eapply nth_error_In; eauto.
        * exfalso. apply nth_error_None in E2. assert (i < length l1) by (apply nth_error_Some; congruence). lia.
      + rewrite Hn. destruct (nth_error l2 i) eqn:E2; [|now destruct (j <? n1)].
        exfalso. apply nth_error_None in E1. assert (i < length l2) by (apply nth_error_Some; congruence). lia.
  Qed.

  (* jnp.expand_dims(t, k)[I1, 0, I2] = t[I1, I2] *)
  Theorem tget_texpand pre post : forall t I1 I2, has_shape (pre ++ post) t = true -> length I1 = length pre ->
    tget (texpand (length pre) t) (I1 ++ 0 :: I2) = tget t (I1 ++ I2).
  Proof.
    induction pre as [|p pre IH]; intros t I1 I2 H L.
    - destruct I1; [|discriminate]. reflexivity.
    - destruct I1 as [|i I1]; [discriminate|]. cbn [app length] in *. apply has_shape_cons in H as (l & -> & _ & Hf).
      cbn [texpand tget]. rewrite nth_error_map. destruct (nth_error l i) as [u|] eqn:E; [|reflexivity]. cbn [option_map].
      apply IH; [|lia]. rewrite Forall_forall in Hf. apply Hf. eapply nth_error_In; eauto.
  Qed.

  (* jnp.stack(ts, axis=k)[I1, j, I2] = ts[j][I1, I2] *)
  Theorem tget_tstack pre post : forall ts t j I1 I2,
    Forall (fun u => has_shape (pre ++ post) u = true) ts -> tstack (length pre) ts = Some t ->
    length I1 = length pre -> j < length ts ->
    tget t (I1 ++ j :: I2) = tget (nth j ts dflt) (I1 ++ I2).
  Proof.
    unfold tstack. induction ts as [|u ts IH]; intros t j I1 I2 F Hs L Hj; [cbn in Hj; lia|].
    inversion F as [|? ? Hu F']; subst.
    destruct ts as [|u' ts].
    - cbn [map tcat] in Hs. destruct (texpand (length pre) u) eqn:E; [discriminate|]. injection Hs as <-.
      cbn in Hj. assert (j = 0) by lia. subst j. rewrite <- E. now apply (tget_texpand pre post).
    - change (tcat (length pre) (map (texpand (length pre)) (u :: u' :: ts))) with
        (match tcat (length pre) (map (texpand (length pre)) (u' :: ts)) with
         | Some r => tcat2 (length pre) (texpand (length pre) u) r | None => None end) in Hs.
      destruct (tcat (length pre) (map (texpand (length pre)) (u' :: ts))) as [r|] eqn:Er; [|discriminate].
      destruct (tstack_shape pre post (u' :: ts)) as (r' & Hr' & Sr'); [discriminate|exact F'|].
      unfold tstack in Hr'. rewrite Er in Hr'. injection Hr' as <-.
      rewrite (tget_tcat2 pre 1 (length (u' :: ts)) post _ _ _ j I1 I2 (texpand_shape pre post u Hu) Sr' Hs L).
      destruct j as [|j].
      + cbn [Nat.ltb Nat.leb nth]. now apply (tget_texpand pre post).
      + replace (S j <? 1) with false by (symmetry; apply Nat.ltb_ge; lia).
        replace (S j - 1) with j by lia. cbn [nth]. apply IH; auto. cbn in Hj |- *. lia.
  Qed.
End G.
