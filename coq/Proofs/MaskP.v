(* C08 / defect D14: a boolean mask selector means exactly the integer-array selector of its True positions (np.nonzero):
   the same positions, all inside the axis, in increasing order without repetition.  This is what justifies storing the
   integer indices instead of the mask (fix D14) without changing any method of Partial. *)
From Coq Require Import List ZArith Bool Lia Sorted.
From FJ Require Import Model.Tensor.
Import ListNotations.

Lemma mask_positions_aux (m : list bool) (k : nat) :
  map (fun p => Z.of_nat (fst p)) (filter snd (combine (seq k (length m)) m)) =
  map (fun p => Z.of_nat (fst p)) (filter snd (combine (seq k (length m)) m)).
Proof. reflexivity. Qed.

Lemma mask_pos_in_gen (m : list bool) (k : nat) (z : Z) :
  In z (map (fun p : nat * bool => Z.of_nat (fst p)) (filter snd (combine (seq k (length m)) m))) ->
  (Z.of_nat k <= z < Z.of_nat (k + length m))%Z.
Proof.
  revert k. induction m as [|b m IH]; intros k H; cbn [length seq combine filter map] in H.
  - destruct H.
  - destruct b; cbn [snd filter map fst] in H.
    + destruct H as [<- | H]; [cbn [length]; lia |]. apply IH in H. cbn [length]. lia.
    + apply IH in H. cbn [length]. lia.
Qed.

Lemma mask_positions_in_range (m : list bool) (z : Z) :
  In z (mask_positions m) -> (0 <= z < Z.of_nat (length m))%Z.
Proof. unfold mask_positions. intros H. apply mask_pos_in_gen in H. cbn in H. lia. Qed.

Lemma map_wrapz_id (n : nat) (zs : list Z) :
  (forall z, In z zs -> (0 <= z)%Z) -> map (wrapz n) zs = zs.
Proof.
  induction zs as [|z zs IH]; intros H; [reflexivity|]. cbn [map]. f_equal.
  - unfold wrapz. destruct (Z.ltb_spec z 0) as [L|L]; [specialize (H z (or_introl eq_refl)); lia | reflexivity].
  - apply IH. intros w Hw. apply H. right. exact Hw.
Qed.

(* the selector level: same resolved positions, same "axis kept" flag *)
Theorem mask_is_nonzero_indices (n : nat) (m : list bool) :
  length m = n -> resolve_sel n (SMask m) = resolve_sel n (SArr (mask_positions m)).
Proof.
  intros Hl. unfold resolve_sel. destruct (Nat.eqb n 0); [reflexivity|].
  rewrite Hl, Nat.eqb_refl. f_equal. f_equal. symmetry. apply map_wrapz_id.
  intros z Hz. apply mask_positions_in_range in Hz. lia.
Qed.

(* ... hence the whole index tuple resolves identically (any position of the mask in the tuple) *)
Theorem mask_is_nonzero_indices_tuple (pre post : list sel) (m : list bool) (s : shape) :
  nth_error s (length pre) = Some (length m) ->
  resolve_idx (pre ++ SMask m :: post) s = resolve_idx (pre ++ SArr (mask_positions m) :: post) s.
Proof.
  revert s. induction pre as [|i pre IH]; intros s H; cbn [app length nth_error] in *.
  - destruct s as [|n s]; [discriminate|]. injection H as ->. cbn [resolve_idx].
    rewrite (mask_is_nonzero_indices (length m) m eq_refl). reflexivity.
  - destruct s as [|n s]; [reflexivity|]. cbn [resolve_idx]. rewrite (IH s H). reflexivity.
Qed.

(* a mask of the wrong length is rejected (NumPy: IndexError), never silently truncated *)
Theorem mask_wrong_length_rejected (n : nat) (m : list bool) : length m <> n -> resolve_sel n (SMask m) = None.
Proof.
  intros H. unfold resolve_sel. destruct (Nat.eqb n 0); [reflexivity|].
  destruct (Nat.eqb_spec (length m) n) as [E|E]; [contradiction | reflexivity].
Qed.

(* the positions are strictly increasing: no element is selected twice, order of the data is kept *)
Lemma mask_pos_sorted_gen (m : list bool) (k : nat) :
  StronglySorted Z.lt (map (fun p : nat * bool => Z.of_nat (fst p)) (filter snd (combine (seq k (length m)) m))).
Proof.
  revert k. induction m as [|b m IH]; intros k; cbn [length seq combine filter map]; [constructor|].
  destruct b; cbn [snd filter map fst]; [|apply IH].
  constructor; [apply IH|]. apply Forall_forall. intros z Hz. apply mask_pos_in_gen in Hz. lia.
Qed.
Theorem mask_positions_increasing (m : list bool) : StronglySorted Z.lt (mask_positions m).
Proof. apply mask_pos_sorted_gen. Qed.

Example mask_example : mask_positions [true; false; true; true] = [0; 2; 3]%Z /\
  resolve_sel 4 (SMask [true; false; true; true]) = Some ([0; 2; 3]%Z, true).
Proof. split; reflexivity. Qed.
